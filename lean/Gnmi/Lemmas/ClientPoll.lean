import Gnmi.Model.ClientPollRun
import Gnmi.Lemmas.ClientLive
/-!
Helper lemmas for `Props/C18Poll.lean`: projection of the Poll wrapper onto the client LTS,
frame and rank of a Poll caller's transitions, soundness of the executable schedule.
-/
set_option linter.unusedSimpArgs false
set_option linter.unusedVariables false
namespace Gnmi
namespace ClientPoll
open ClientLTS

variable {N : Type}

/-! ## Projection onto the client LTS -/

theorem preach_base {mu : Bool} {s : Script N} {ps : Nat → PollSpec N} {np : Nat} {c : PCfg N}
    (h : PReach mu s ps np c) : Reach true s c.base := by
  induction h with
  | init => exact .init
  | step _ hs ih =>
      cases hs
      case base hb _ => exact .step ih hb
      all_goals first
        | exact ih
        | (simp only [PCfg.doCall, PCfg.doLock, PCfg.doGetImpl, PCfg.ret, PCfg.setP, PCfg.doRecvMsg,
            PCfg.doHandle, PCfg.doHandled, PCfg.doCheck, PCfg.doRunErr]; (repeat' split) <;> exact ih)

theorem prun_reach {mu : Bool} {s : Script N} {ps : Nat → PollSpec N} {np : Nat} {c c' : PCfg N}
    {ls : List PLabel} (h : PReach mu s ps np c) (hr : PRun mu s ps c ls c') : PReach mu s ps np c' := by
  induction hr with
  | nil => exact h
  | cons hs _ ih => exact ih (.step h hs)

theorem prun_append {mu : Bool} {s : Script N} {ps : Nat → PollSpec N} {c c' c'' : PCfg N}
    {l1 l2 : List PLabel} (h1 : PRun mu s ps c l1 c') (h2 : PRun mu s ps c' l2 c'') :
    PRun mu s ps c (l1 ++ l2) c'' := by
  induction h1 with
  | nil => exact h2
  | cons hs _ ih => exact .cons hs (ih h2)

/-! ## Rank of a Poll caller -/

def wIt : Item N → Nat
  | .msg m => m.notis.length + 5
  | .wait => 1

def wIts : List (Item N) → Nat
  | [] => 0
  | i :: is => wIt i + wIts is

def pRank (sp : PollSpec N) : PPc N → Nat
  | .idle => wIts sp.items + 7
  | .lockWait => wIts sp.items + 6
  | .getImpl => wIts sp.items + 5
  | .send _ => wIts sp.items + 4
  | .recv _ _ items => wIts items + 3
  | .handling _ _ evs _ items => evs.length + wIts items + 5
  | .check _ _ items => wIts items + 4
  | .runErr _ => 1
  | .returned _ => 0

@[simp] def PPc.isReturned : PPc N → Bool
  | .returned _ => true
  | _ => false

theorem getP_set {l : List (PPc N)} {i : Nat} {p : PPc N} (h : l[i]? = some p) (q : PPc N) (j : Nat) :
    (l.set i q)[j]? = if i = j then some q else l[j]? := by
  have hi : i < l.length := by
    cases hl : decide (i < l.length) with
    | true => simpa using hl
    | false =>
        have : l.length ≤ i := by simpa using hl
        simp [List.getElem?_eq_none this] at h
  rw [List.getElem?_set]
  by_cases hij : i = j
  · subst hij; simp [hi]
  · simp [hij]

/-- a transition of Poll caller `j` leaves the client LTS's configuration and every other
caller alone, and strictly decreases `j`'s rank -/
theorem poll_step_frame {mu : Bool} {s : Script N} {ps : Nat → PollSpec N} {c c' : PCfg N}
    {l : PLabel} {j : Nat} (hs : PStep mu s ps c l c') (hl : l.poller = some j) :
    c'.base = c.base ∧ (∀ i, i ≠ j → c'.polls[i]? = c.polls[i]?) ∧
    ∃ pc pc', c.polls[j]? = some pc ∧ c'.polls[j]? = some pc' ∧ pRank (ps j) pc' < pRank (ps j) pc := by
  have key : ∀ {pc q : PPc N}, c.polls[j]? = some pc → pRank (ps j) q < pRank (ps j) pc →
      (∀ i, i ≠ j → (c.polls.set j q)[i]? = c.polls[i]?) ∧
      ∃ pc0 pc', c.polls[j]? = some pc0 ∧ (c.polls.set j q)[j]? = some pc' ∧
        pRank (ps j) pc' < pRank (ps j) pc0 := by
    intro pc q hp hr
    refine ⟨fun i hi => ?_, pc, q, hp, ?_, hr⟩
    · rw [getP_set hp q i]; simp [Ne.symm hi]
    · rw [getP_set hp q j]; simp
  cases hs <;> simp [PLabel.poller] at hl <;> subst hl
  case call h => exact ⟨rfl, key h (by cases mu <;> simp [pRank])⟩
  case lock h _ =>
      unfold PCfg.doLock
      split
      · exact ⟨rfl, key h (by simp [pRank])⟩
      · exact ⟨rfl, key h (by simp [pRank])⟩
  case getImpl h =>
      unfold PCfg.doGetImpl
      split
      · exact ⟨rfl, key h (by simp [pRank])⟩
      · exact ⟨rfl, key h (by simp [pRank])⟩
  case sendFail h _ => exact ⟨rfl, key h (by simp [pRank])⟩
  case sendOk h _ => exact ⟨rfl, key h (by simp [pRank])⟩
  case recvMsg a mi m rest h =>
      exact ⟨rfl, key h (by simp [pRank, wIts, wIt, msgEvents]<;> omega)⟩
  case recvWait h _ => exact ⟨rfl, key h (by simp [pRank, wIts, wIt])⟩
  case recvAbort h _ => exact ⟨rfl, key h (by simp [pRank]<;> omega)⟩
  case recvTermErr h _ => exact ⟨rfl, key h (by simp [pRank, wIts])⟩
  case recvEof h _ => exact ⟨rfl, key h (by simp [pRank])⟩
  case handle h => exact ⟨rfl, key h (by simp [pRank])⟩
  case handled a mi r items h =>
      unfold PCfg.doHandled
      cases r
      · exact ⟨rfl, key h (by simp [pRank])⟩
      · exact ⟨rfl, key h (by simp [pRank])⟩
      · exact ⟨rfl, key h (by simp [pRank]<;> omega)⟩
  case check h =>
      unfold PCfg.doCheck
      split
      · exact ⟨rfl, key h (by simp [pRank])⟩
      · exact ⟨rfl, key h (by simp [pRank])⟩
  case runErr h => exact ⟨rfl, key h (by simp [pRank])⟩

/-- the repository's code never touches `p.mu` in Poll -/
def NoLock (c : PCfg N) : Prop := c.muHeld = none ∧ ∀ j : Nat, c.polls[j]? ≠ some PPc.lockWait

theorem noLock_step {s : Script N} {ps : Nat → PollSpec N} {c c' : PCfg N} {l : PLabel}
    (hn : NoLock c) (hs : PStep false s ps c l c') : NoLock c' := by
  obtain ⟨h1, h2⟩ := hn
  have key : ∀ {j : Nat} {pc q : PPc N}, c.polls[j]? = some pc → q ≠ .lockWait →
      ∀ i : Nat, (c.polls.set j q)[i]? ≠ some PPc.lockWait := by
    intro j pc q hp hq i
    rw [getP_set hp q i]
    by_cases hji : j = i
    · simp [hji]; exact fun h => hq h
    · simp [hji]; exact h2 i
  cases hs
  case base => exact ⟨h1, h2⟩
  case call h => exact ⟨h1, key h (by simp)⟩
  case lock h _ => exact absurd h (h2 _)
  case getImpl h =>
      unfold PCfg.doGetImpl
      split
      · exact ⟨by simp [PCfg.ret, h1], key h (by simp)⟩
      · exact ⟨h1, key h (by simp)⟩
  case sendFail h _ => exact ⟨by simp [PCfg.ret, h1], key h (by simp)⟩
  case sendOk h _ => exact ⟨h1, key h (by simp)⟩
  case recvMsg h => exact ⟨h1, key h (by simp)⟩
  case recvWait h _ => exact ⟨h1, key h (by simp)⟩
  case recvAbort h _ => exact ⟨h1, key h (by simp)⟩
  case recvTermErr h _ => exact ⟨h1, key h (by simp)⟩
  case recvEof h _ => exact ⟨by simp [PCfg.ret, h1], key h (by simp)⟩
  case handle h => exact ⟨h1, key h (by simp)⟩
  case handled a mi r items h =>
      unfold PCfg.doHandled
      cases r
      · exact ⟨h1, key h (by simp)⟩
      · exact ⟨by simp [PCfg.ret, h1], key h (by simp)⟩
      · exact ⟨h1, key h (by simp)⟩
  case check h =>
      unfold PCfg.doCheck
      split
      · exact ⟨by simp [PCfg.ret, h1], key h (by simp)⟩
      · exact ⟨h1, key h (by simp)⟩
  case runErr h => exact ⟨by simp [PCfg.doRunErr, PCfg.ret, h1], key h (by simp)⟩

theorem noLock_reach {s : Script N} {ps : Nat → PollSpec N} {np : Nat} {c : PCfg N}
    (h : PReach false s ps np c) : NoLock c := by
  induction h with
  | init =>
      refine ⟨rfl, fun j hj => ?_⟩
      simp only [pinit] at hj
      rw [List.getElem?_replicate] at hj
      split at hj <;> simp at hj
  | step _ hs ih => exact noLock_step ih hs

/-- the repository's code: a Poll caller whose instance is dead (in particular: the Subscribe
context is cancelled) always has an enabled transition of its own until it has returned -/
theorem poll_progress {s : Script N} {ps : Nat → PollSpec N} {c : PCfg N} {j : Nat} {pc : PPc N}
    (hn : NoLock c) (hd : c.base.ctxDone = true) (hp : c.polls[j]? = some pc)
    (hr : pc.isReturned = false) :
    ∃ l c', PStep false s ps c l c' ∧ l.poller = some j := by
  have hdead : ∀ a, c.dead a = true := fun a => by simp [PCfg.dead, hd]
  cases pc with
  | idle => exact ⟨_, _, .call hp, rfl⟩
  | lockWait => exact absurd hp (hn.2 j)
  | getImpl => exact ⟨_, _, .getImpl hp, rfl⟩
  | send a => exact ⟨_, _, .sendFail hp (.inr (hdead a)), rfl⟩
  | recv a mi items =>
      cases items with
      | nil => exact ⟨_, _, .recvAbort hp (hdead a), rfl⟩
      | cons i rest =>
          cases i with
          | msg m => exact ⟨_, _, .recvMsg hp, rfl⟩
          | wait => exact ⟨_, _, .recvWait hp (hdead a), rfl⟩
  | handling a mi evs r items =>
      cases evs with
      | nil => exact ⟨_, _, .handled hp, rfl⟩
      | cons e evs => exact ⟨_, _, .handle hp, rfl⟩
  | check a mi items => exact ⟨_, _, .check hp, rfl⟩
  | runErr a => exact ⟨_, _, .runErr hp, rfl⟩
  | returned r => simp at hr

/-! ## The executable schedule only takes transitions of the wrapper -/

theorem liftBase_sound {mu : Bool} {s : Script N} {ps : Nat → PollSpec N} {c c' : PCfg N}
    {o : Option (Label × Cfg N)} {pl : PLabel}
    (ho : ∀ l b', o = some (l, b') → Step true s c.base l b')
    (h : liftBase mu c o = some (pl, c')) : PStep mu s ps c pl c' := by
  unfold liftBase at h
  split at h
  · simp at h
  · next l b' =>
    split at h
    · simp at h
    · next hg =>
      simp at h; obtain ⟨rfl, rfl⟩ := h
      refine .base (ho l b' rfl) ?_
      intro hm hl
      cases hmh : c.muHeld with
      | none => rfl
      | some k =>
          exfalso; apply hg
          rcases hl with rfl | rfl <;> simp [hm, hmh]

theorem pNext_sound {mu : Bool} {s : Script N} {ps : Nat → PollSpec N} {c c' : PCfg N} {j : Nat}
    {pl : PLabel} (h : pNext mu ps c j = some (pl, c')) : PStep mu s ps c pl c' := by
  unfold pNext at h
  simp only at h
  split at h
  · next hp => simp at h; obtain ⟨rfl, rfl⟩ := h; exact .call hp
  · next hp =>
    split at h
    · next hm => simp at h; obtain ⟨rfl, rfl⟩ := h; exact .lock hp (by simpa using hm)
    · simp at h
  · next hp => simp at h; obtain ⟨rfl, rfl⟩ := h; exact .getImpl hp
  · next a hp =>
    split at h
    · next hc =>
      simp at h; obtain ⟨rfl, rfl⟩ := h
      refine .sendFail hp ?_
      simpa using hc
    · next hc =>
      simp at h; obtain ⟨rfl, rfl⟩ := h
      simp at hc
      exact .sendOk hp hc.1
  · next a mi rest hp =>
    split at h
    · next hd => simp at h; obtain ⟨rfl, rfl⟩ := h; exact .recvWait hp hd
    · simp at h
  · next a mi m rest hp =>
    split at h
    · next hd => simp at h; obtain ⟨rfl, rfl⟩ := h; simp at hd; exact .recvAbort hp hd.1
    · simp at h; obtain ⟨rfl, rfl⟩ := h; exact .recvMsg hp
  · next a mi hp =>
    split at h
    · next hd => simp at h; obtain ⟨rfl, rfl⟩ := h; simp at hd; exact .recvAbort hp hd.1
    · split at h
      · next ht => simp at h; obtain ⟨rfl, rfl⟩ := h; exact .recvTermErr hp ht
      · next ht => simp at h; obtain ⟨rfl, rfl⟩ := h; exact .recvEof hp ht
  · next a mi e evs r items hp => simp at h; obtain ⟨rfl, rfl⟩ := h; exact .handle hp
  · next a mi r items hp => simp at h; obtain ⟨rfl, rfl⟩ := h; exact .handled hp
  · next a mi items hp => simp at h; obtain ⟨rfl, rfl⟩ := h; exact .check hp
  · next a hp => simp at h; obtain ⟨rfl, rfl⟩ := h; exact .runErr hp
  · simp at h
  · simp at h

section exec
variable {mu : Bool} {ps : Nat → PollSpec NKind} {np : Nat} {s : Script NKind}

theorem runBS_reach {stop : Cfg NKind → Bool} :
    ∀ (fuel : Nat) (c : PCfg NKind), PReach mu s ps np c → PReach mu s ps np (runBS mu s stop fuel c)
  | 0, c, h => by simpa [runBS] using h
  | fuel + 1, c, h => by
      unfold runBS
      split
      · exact h
      · split
        · exact h
        · next l c' hn =>
          exact runBS_reach fuel c' (.step h (liftBase_sound (fun l b' hb => sNext_sound hb) hn))

theorem runBK_reach :
    ∀ (fuel : Nat) (c : PCfg NKind), PReach mu s ps np c → PReach mu s ps np (runBK mu fuel c)
  | 0, c, h => by simpa [runBK] using h
  | fuel + 1, c, h => by
      unfold runBK
      split
      · exact h
      · next l c' hn =>
        exact runBK_reach fuel c' (.step h (liftBase_sound (fun l b' hb => kNext_sound hb) hn))

theorem cancelB_reach {c : PCfg NKind} (h : PReach mu s ps np c) : PReach mu s ps np (cancelB mu c) := by
  unfold cancelB
  split
  · exact h
  · next l c' hn => exact .step h (liftBase_sound (fun l b' hb => envCancel_sound hb) hn)

theorem runP_reach {j : Nat} :
    ∀ (fuel : Nat) (c : PCfg NKind), PReach mu s ps np c → PReach mu s ps np (runP mu ps j fuel c)
  | 0, c, h => by simpa [runP] using h
  | fuel + 1, c, h => by
      unfold runP
      split
      · exact h
      · next l c' hn => exact runP_reach fuel c' (.step h (pNext_sound hn))

theorem runPs_reach {fuel : Nat} :
    ∀ (js : List Nat) (c : PCfg NKind), PReach mu s ps np c → PReach mu s ps np (runPs mu ps fuel js c)
  | [], c, h => by simpa [runPs] using h
  | j :: js, c, h => by
      unfold runPs
      exact runPs_reach js _ (runP_reach _ _ h)

end exec

theorem dialPhase_reach {mu : Bool} {ps : Nat → PollSpec NKind} {np : Nat} {s : Script NKind}
    {fuel : Nat} {inj : PInj} {c : PCfg NKind} (h : PReach mu s ps np c) :
    PReach mu s ps np (dialPhase mu s fuel inj c) := by
  unfold dialPhase
  split
  · exact runBS_reach _ _ h
  · exact h

theorem injectB_reach {mu : Bool} {ps : Nat → PollSpec NKind} {np : Nat} {s : Script NKind}
    {cancel : Bool} {c : PCfg NKind} (h : PReach mu s ps np c) :
    PReach mu s ps np (injectB mu cancel c) := by
  unfold injectB
  split
  · exact cancelB_reach h
  · exact runBK_reach _ _ h

theorem finalClose_reach {mu : Bool} {ps : Nat → PollSpec NKind} {np : Nat} {s : Script NKind}
    {cancel : Bool} {c : PCfg NKind} (h : PReach mu s ps np c) :
    PReach mu s ps np (finalClose mu cancel c) := by
  unfold finalClose
  split
  · exact runBK_reach _ _ h
  · exact h

/-- every configuration the `rc new poll` driver arm reports on is reachable in the wrapper LTS -/
theorem runPScenario_reach (mu : Bool) (sc : PScenario) :
    PReach mu (pscriptOf sc) (specsOf sc) sc.polls.length (runPScenario mu sc).final := by
  unfold runPScenario
  simp only
  exact finalClose_reach (runPs_reach _ _ (runBK_reach _ _ (runBS_reach _ _ (runPs_reach _ _
    (injectB_reach (dialPhase_reach (runPs_reach _ _ (runBS_reach _ _ .init))))))))

end ClientPoll
end Gnmi
