import Gnmi.Spec.FakeQueue
/-!
Helper lemmas for property C20 (`Gnmi/Props/C20.lean`): `math/rand` result bounds, the binary
search of `addValue` equals sorted insertion, the per-value update laws, the queue invariant.
-/
namespace Gnmi
namespace FQ

variable {D : Type}

/-! ## `math/rand`: results are in range, never an `error` -/

theorem rejectAbove_ok {f : Nat → Nat} {max : Nat} {ds : Draws} {v : Nat} {ds' : Draws}
    (h : rejectAbove f max ds = .ok (v, ds')) : v ≤ max := by
  induction ds with
  | nil => simp [rejectAbove] at h
  | cons d ds ih =>
    simp only [rejectAbove] at h
    split at h
    · exact ih h
    · simp only [Out.ok.injEq, Prod.mk.injEq] at h
      omega

theorem rejectAbove_cases (f : Nat → Nat) (max : Nat) (ds : Draws) :
    (∃ v ds', rejectAbove f max ds = .ok (v, ds')) ∨ rejectAbove f max ds = .nodraws := by
  induction ds with
  | nil => simp [rejectAbove]
  | cons d ds ih =>
    simp only [rejectAbove]
    split
    · exact ih
    · exact Or.inl ⟨_, _, rfl⟩

/-- what a bounded-integer draw can yield for `n > 0`: a value in `[0, n)` or `nodraws` -/
def GoodDraw (n : Int) (o : Out (Int × Draws)) : Prop :=
  (∃ x ds', o = .ok (x, ds') ∧ 0 ≤ x ∧ x < n) ∨ o = .nodraws

theorem int63n_good {n : Int} (hn : 0 < n) (ds : Draws) : GoodDraw n (int63n n ds) := by
  unfold int63n
  have hn' : ¬ n ≤ 0 := by omega
  simp only [hn', if_false]
  have hm : (n.toNat : Int) = n := Int.toNat_of_nonneg (by omega)
  have hm0 : 0 < n.toNat := by omega
  split
  · cases ds with
    | nil => exact Or.inr rfl
    | cons d ds =>
      refine Or.inl ⟨_, _, rfl, Int.natCast_nonneg _, ?_⟩
      have : d &&& (n.toNat - 1) ≤ n.toNat - 1 := Nat.and_le_right
      simp only [Int.ofNat_eq_natCast]
      omega
  · rcases rejectAbove_cases id (two63 - 1 - two63 % n.toNat) ds with ⟨v, ds', h⟩ | h
    · rw [h]
      refine Or.inl ⟨_, _, rfl, Int.natCast_nonneg _, ?_⟩
      have : v % n.toNat < n.toNat := Nat.mod_lt _ hm0
      simp only [Int.ofNat_eq_natCast]
      omega
    · rw [h]; exact Or.inr rfl

theorem int31n_good {n : Int} (hn : 0 < n) (ds : Draws) : GoodDraw n (int31n n ds) := by
  unfold int31n
  have hn' : ¬ n ≤ 0 := by omega
  simp only [hn', if_false]
  have hm0 : 0 < n.toNat := by omega
  split
  · cases ds with
    | nil => exact Or.inr rfl
    | cons d ds =>
      refine Or.inl ⟨_, _, rfl, Int.natCast_nonneg _, ?_⟩
      have : ((d >>> 32) % two31) &&& (n.toNat - 1) ≤ n.toNat - 1 := Nat.and_le_right
      simp only [Int.ofNat_eq_natCast]
      omega
  · rcases rejectAbove_cases (fun d => (d >>> 32) % two31) (two31 - 1 - two31 % n.toNat) ds with ⟨v, ds', h⟩ | h
    · rw [h]
      refine Or.inl ⟨_, _, rfl, Int.natCast_nonneg _, ?_⟩
      have : v % n.toNat < n.toNat := Nat.mod_lt _ hm0
      simp only [Int.ofNat_eq_natCast]
      omega
    · rw [h]; exact Or.inr rfl

theorem intn_good {n : Int} (hn : 0 < n) (ds : Draws) : GoodDraw n (intn n ds) := by
  unfold intn
  have hn' : ¬ n ≤ 0 := by omega
  simp only [hn', if_false]
  split
  · exact int31n_good hn ds
  · exact int63n_good hn ds

/-! ## The binary search of `addValue` is sorted insertion -/

theorem tsOf_eq {v : Val D} (h : v.pv.ts.isSome = true) : v.tsOf = some v.t := by
  unfold Val.tsOf Val.t
  cases hts : v.pv.ts with
  | none => simp [hts] at h
  | some t => simp

theorem bucketKey_eq {b : List (Val D)} (h : WFB b) : bucketKey b = some (keyOf b) := by
  obtain ⟨hne, hall⟩ := h
  cases b with
  | nil => exact absurd rfl hne
  | cons v vs =>
    simp only [bucketKey, keyOf]
    exact tsOf_eq (hall v (List.mem_cons_self ..)).1

theorem keyAt_eq {q : List (List (Val D))} (hw : ∀ b ∈ q, WFB b) {i : Nat} {b : List (Val D)}
    (hb : q[i]? = some b) : keyAt q i = some (keyOf b) := by
  unfold keyAt
  rw [hb]
  exact bucketKey_eq (hw b (List.mem_of_getElem? hb))

/-- The binary search ends either at an insertion point separating the smaller from the larger
timestamps, or at the bucket with the searched timestamp; it never panics. -/
theorem search_spec (q : List (List (Val D))) (t : Int) (hw : ∀ b ∈ q, WFB b)
    (hs : q.Pairwise (fun a b => keyOf a < keyOf b)) :
    ∀ (k l r : Nat), r - l = k → l ≤ r → r ≤ q.length →
      (∀ i b, q[i]? = some b → i < l → keyOf b < t) →
      (∀ i b, q[i]? = some b → r ≤ i → t < keyOf b) →
      (∃ p, search q t l r = .insert p ∧ p ≤ q.length ∧
          (∀ i b, q[i]? = some b → i < p → keyOf b < t) ∧
          (∀ i b, q[i]? = some b → p ≤ i → t < keyOf b)) ∨
      (∃ i b, search q t l r = .found i ∧ q[i]? = some b ∧ keyOf b = t) := by
  intro k
  induction k using Nat.strongRecOn with
  | ind k ih =>
    intro l r hk hlr hr hlo hhi
    rw [search]
    by_cases heq : l = r
    · simp only [heq, if_true]
      subst heq
      exact Or.inl ⟨l, rfl, hr, hlo, hhi⟩
    · have hlt : l < r := by omega
      simp only [heq, if_false, hlt, dite_true]
      have hi : (r - l) / 2 + l < q.length := by omega
      have hb : q[(r - l) / 2 + l]? = some q[(r - l) / 2 + l] := List.getElem?_eq_getElem hi
      rw [keyAt_eq hw hb]
      simp only
      by_cases h1 : t = keyOf q[(r - l) / 2 + l]
      · simp only [h1, if_true]
        exact Or.inr ⟨_, _, rfl, hb, rfl⟩
      · simp only [h1, if_false]
        have hmono : ∀ (i j : Nat) (bi bj : List (Val D)), q[i]? = some bi → q[j]? = some bj → i < j → keyOf bi < keyOf bj := by
          intro i j bi bj hbi hbj hij
          obtain ⟨hi', rfl⟩ := List.getElem?_eq_some_iff.mp hbi
          obtain ⟨hj', rfl⟩ := List.getElem?_eq_some_iff.mp hbj
          exact List.pairwise_iff_getElem.mp hs i j hi' hj' hij
        by_cases h2 : t < keyOf q[(r - l) / 2 + l]
        · simp only [h2, if_true]
          refine ih ((r - l) / 2 + l - l) (by omega) l _ rfl (by omega) (by omega) hlo ?_
          intro i b hib hge
          by_cases hie : i = (r - l) / 2 + l
          · subst hie
            rw [hb] at hib
            cases hib
            exact h2
          · have := hmono _ _ _ _ hb hib (by omega)
            omega
        · simp only [h2, if_false]
          refine ih (r - ((r - l) / 2 + l + 1)) (by omega) _ r rfl (by omega) hr ?_ hhi
          intro i b hib hlt'
          by_cases hie : i = (r - l) / 2 + l
          · subst hie
            rw [hb] at hib
            cases hib
            omega
          · have := hmono _ _ _ _ hib hb (by omega)
            omega


theorem ins_of_insert (v : Val D) (t : Int) : ∀ (q : List (List (Val D))) (p : Nat), p ≤ q.length →
    (∀ i b, q[i]? = some b → i < p → keyOf b < t) →
    (∀ i b, q[i]? = some b → p ≤ i → t < keyOf b) →
    q.take p ++ [v] :: q.drop p = ins v t q := by
  intro q
  induction q with
  | nil => intro p _ _ _; simp [ins]
  | cons b bs ih =>
    intro p hp hlo hhi
    cases p with
    | zero =>
      have := hhi 0 b (by simp) (by omega)
      have h1 : ¬ t = keyOf b := by omega
      simp [ins, h1, this]
    | succ p =>
      have := hlo 0 b (by simp) (by omega)
      have h1 : ¬ t = keyOf b := by omega
      have h2 : ¬ t < keyOf b := by omega
      simp only [ins, h1, h2, if_false, List.take_succ_cons, List.drop_succ_cons, List.cons_append]
      congr 1
      apply ih p (by simpa using hp)
      · intro i b' hb' hi
        exact hlo (i + 1) b' (by simpa using hb') (by omega)
      · intro i b' hb' hi
        exact hhi (i + 1) b' (by simpa using hb') (by omega)

theorem ins_of_found (v : Val D) (t : Int) : ∀ (q : List (List (Val D))) (i : Nat) (b : List (Val D)),
    q.Pairwise (fun a b => keyOf a < keyOf b) → q[i]? = some b → keyOf b = t →
    q.modify i (· ++ [v]) = ins v t q := by
  intro q
  induction q with
  | nil => intro i b _ h; simp at h
  | cons h bs ih =>
    intro i b hs hb hk
    cases i with
    | zero =>
      simp at hb
      subst hb
      simp [ins, hk]
    | succ i =>
      simp at hb
      have hmem : b ∈ bs := List.mem_of_getElem? hb
      have hlt := (List.pairwise_cons.mp hs).1 b hmem
      have h1 : ¬ t = keyOf h := by omega
      have h2 : ¬ t < keyOf h := by omega
      simp only [ins, h1, h2, if_false, List.modify_succ_cons]
      congr 1
      exact ih i b (List.pairwise_cons.mp hs).2 hb hk

theorem addValueQ_eq_ins {q : List (List (Val D))} (hw : WFQ q) (v : Val D) (t : Int) :
    addValueQ q v t = .ok (ins v t q) := by
  unfold addValueQ
  rcases search_spec q t hw.1 hw.2 q.length 0 q.length rfl (by omega) (by omega)
      (by intro i b _ h; omega)
      (by intro i b hb h; have := (List.getElem?_eq_some_iff.mp hb).1; omega) with
    ⟨p, hp, hpl, hlo, hhi⟩ | ⟨i, b, hf, hb, hk⟩
  · rw [hp]
    simp only
    rw [ins_of_insert v t q p hpl hlo hhi]
  · rw [hf]
    simp only
    rw [ins_of_found v t q i b hw.2 hb hk]

/-! ### what sorted insertion does to the queue -/

theorem keyOf_append {b : List (Val D)} (l : List (Val D)) (h : b ≠ []) : keyOf (b ++ l) = keyOf b := by
  cases b with
  | nil => exact absurd rfl h
  | cons x xs => rfl

theorem wfb_single {v : Val D} (h : v.pv.ts.isSome = true) : WFB [v] := by
  refine ⟨by simp, ?_⟩
  intro x hx
  simp only [List.mem_singleton] at hx
  subst hx
  exact ⟨h, rfl⟩

theorem wfb_append {b : List (Val D)} {v : Val D} (hb : WFB b) (h : v.pv.ts.isSome = true)
    (ht : v.t = keyOf b) : WFB (b ++ [v]) := by
  refine ⟨by simp, ?_⟩
  intro x hx
  rw [keyOf_append _ hb.1]
  rcases List.mem_append.mp hx with hx | hx
  · exact hb.2 x hx
  · simp only [List.mem_singleton] at hx
    subst hx
    exact ⟨h, ht⟩

theorem ins_keys (v : Val D) (t : Int) (ht : v.t = t) : ∀ (q : List (List (Val D))), (∀ b ∈ q, b ≠ []) →
    ∀ x ∈ ins v t q, keyOf x = t ∨ ∃ y ∈ q, keyOf x = keyOf y := by
  intro q
  induction q with
  | nil =>
    intro _ x hx
    simp [ins] at hx
    subst hx
    exact Or.inl ht
  | cons b bs ih =>
    intro hne x hx
    simp only [ins] at hx
    split at hx
    · rcases List.mem_cons.mp hx with rfl | hx
      · exact Or.inr ⟨b, List.mem_cons_self .., keyOf_append _ (hne b (List.mem_cons_self ..))⟩
      · exact Or.inr ⟨x, List.mem_cons_of_mem _ hx, rfl⟩
    · split at hx
      · rcases List.mem_cons.mp hx with rfl | hx
        · exact Or.inl ht
        · exact Or.inr ⟨x, hx, rfl⟩
      · rcases List.mem_cons.mp hx with rfl | hx
        · exact Or.inr ⟨x, List.mem_cons_self .., rfl⟩
        · rcases ih (fun b hb => hne b (List.mem_cons_of_mem _ hb)) x hx with h | ⟨y, hy, h⟩
          · exact Or.inl h
          · exact Or.inr ⟨y, List.mem_cons_of_mem _ hy, h⟩

/-- sorted insertion keeps the queue invariant -/
theorem ins_wf {v : Val D} {t : Int} (hv : v.pv.ts.isSome = true) (ht : v.t = t) :
    ∀ {q : List (List (Val D))}, WFQ q → WFQ (ins v t q) := by
  intro q
  induction q with
  | nil =>
    intro _
    exact ⟨by intro b hb; simp [ins] at hb; subst hb; exact wfb_single hv, by simp [ins]⟩
  | cons b bs ih =>
    intro hw
    obtain ⟨hwb, hs⟩ := hw
    have hb := hwb b (List.mem_cons_self ..)
    have hbs : WFQ bs := ⟨fun x hx => hwb x (List.mem_cons_of_mem _ hx), (List.pairwise_cons.mp hs).2⟩
    have hlt := (List.pairwise_cons.mp hs).1
    simp only [ins]
    split
    · rename_i heq
      refine ⟨?_, ?_⟩
      · intro x hx
        rcases List.mem_cons.mp hx with rfl | hx
        · exact wfb_append hb hv (by omega)
        · exact hwb x (List.mem_cons_of_mem _ hx)
      · refine List.pairwise_cons.mpr ⟨?_, hbs.2⟩
        intro x hx
        rw [keyOf_append _ hb.1]
        exact hlt x hx
    · split
      · rename_i hne hlt'
        refine ⟨?_, ?_⟩
        · intro x hx
          rcases List.mem_cons.mp hx with rfl | hx
          · exact wfb_single hv
          · exact hwb x hx
        · refine List.pairwise_cons.mpr ⟨?_, hs⟩
          intro x hx
          have hk : keyOf [v] = t := ht
          rcases List.mem_cons.mp hx with rfl | hx
          · omega
          · have := hlt x hx
            omega
      · rename_i hne hnlt
        have ih' := ih hbs
        refine ⟨?_, ?_⟩
        · intro x hx
          rcases List.mem_cons.mp hx with rfl | hx
          · exact hb
          · exact ih'.1 x hx
        · refine List.pairwise_cons.mpr ⟨?_, ih'.2⟩
          intro x hx
          rcases ins_keys v t ht bs (fun b hb => (hbs.1 b hb).1) x hx with h | ⟨y, hy, h⟩
          · omega
          · have := hlt y hy
            omega

/-- sorted insertion puts the value somewhere into the flattened queue and moves nothing else -/
theorem ins_flatten (v : Val D) (t : Int) : ∀ (q : List (List (Val D))),
    ∃ a b, q.flatten = a ++ b ∧ (ins v t q).flatten = a ++ v :: b := by
  intro q
  induction q with
  | nil => exact ⟨[], [], by simp, by simp [ins]⟩
  | cons b bs ih =>
    simp only [ins]
    split
    · exact ⟨b, bs.flatten, by simp, by simp⟩
    · split
      · exact ⟨[], (b :: bs).flatten, by simp, by simp⟩
      · obtain ⟨a, c, h1, h2⟩ := ih
        exact ⟨b ++ a, c, by simp [h1], by simp [h2]⟩

/-- a value at least as late as everything queued goes to the very end -/
theorem ins_last (v : Val D) (t : Int) : ∀ {q : List (List (Val D))}, WFQ q →
    (∀ x ∈ q.flatten, x.t ≤ t) → (ins v t q).flatten = q.flatten ++ [v] := by
  intro q
  induction q with
  | nil => intro _ _; simp [ins]
  | cons b bs ih =>
    intro hw hle
    obtain ⟨hwb, hs⟩ := hw
    have hb := hwb b (List.mem_cons_self ..)
    have hbs : WFQ bs := ⟨fun x hx => hwb x (List.mem_cons_of_mem _ hx), (List.pairwise_cons.mp hs).2⟩
    have hlt := (List.pairwise_cons.mp hs).1
    have hkb : keyOf b ≤ t := by
      cases b with
      | nil => exact absurd rfl hb.1
      | cons x xs => exact hle x (by simp)
    simp only [ins]
    split
    · rename_i heq
      -- every later bucket would be later than `t`: there is none
      cases bs with
      | nil => simp
      | cons c cs =>
        exfalso
        have hc := hwb c (by simp)
        have h1 := hlt c (List.mem_cons_self ..)
        cases c with
        | nil => exact hc.1 rfl
        | cons y ys =>
          have := hle y (by simp)
          have hy : y.t = keyOf (y :: ys) := rfl
          omega
    · split
      · omega
      · rw [List.flatten_cons, List.flatten_cons, ih hbs (fun x hx => hle x (by simp [hx]))]
        simp

/-! ## Rotations -/

theorem Rot.refl {α : Type} (a : List α) : Rot a a := ⟨[], a, by simp, by simp⟩

theorem Rot.perm {α : Type} {a b : List α} (h : Rot a b) : b.Perm a := by
  obtain ⟨x, y, rfl, rfl⟩ := h
  exact List.perm_append_comm

theorem Rot.trans {α : Type} {a b c : List α} (h1 : Rot a b) (h2 : Rot b c) : Rot a c := by
  obtain ⟨x, y, rfl, rfl⟩ := h1
  obtain ⟨p, q, hb, rfl⟩ := h2
  rcases List.append_eq_append_iff.mp hb with ⟨m, h3, h4⟩ | ⟨m, h3, h4⟩
  · -- p = y ++ m, x = m ++ q
    exact ⟨m, q ++ y, by simp [h4], by simp [h3]⟩
  · -- y = p ++ m, q = m ++ x
    exact ⟨x ++ p, m, by simp [h3], by simp [h4]⟩

theorem OptsRel.refl {α : Type} (r : Bool) (o : List α) : OptsRel r o o := by
  unfold OptsRel; split
  · exact List.Perm.refl _
  · exact Rot.refl _

theorem OptsRel.trans {α : Type} {r : Bool} {a b c : List α} (h1 : OptsRel r a b) (h2 : OptsRel r b c) :
    OptsRel r a c := by
  unfold OptsRel at *
  split
  · rename_i hr; simp only [hr, if_true] at h1 h2; exact h2.trans h1
  · rename_i hr; simp only [hr] at h1 h2; exact h1.trans h2

/-- in every case the options are the configured ones up to order -/
theorem OptsRel.perm {α : Type} {r : Bool} {a b : List α} (h : OptsRel r a b) : b.Perm a := by
  unfold OptsRel at h
  split at h
  · exact h
  · exact h.perm

/-! ## The per-kind updaters -/

/-- what the shared list arm yields -/
theorem listUpdate_ok {α : Type} {opts : List α} {random : Bool} {ds : Draws} {x : α} {opts' : List α}
    {ds' : Draws} (h : listUpdate opts random ds = .ok ((x, opts'), ds')) :
    x ∈ opts' ∧ OptsRel random opts opts' ∧ opts' ≠ [] := by
  unfold listUpdate at h
  cases opts with
  | nil => simp at h
  | cons o rest =>
    simp only at h
    split at h
    · rcases intn_good (n := Int.ofNat (o :: rest).length) (by simp) ds with ⟨k, ds1, hk, h0, h1⟩ | hk
      · rw [hk] at h
        simp only at h
        split at h
        · rename_i y hy
          simp only [Out.ok.injEq, Prod.mk.injEq] at h
          obtain ⟨⟨rfl, rfl⟩, rfl⟩ := h
          exact ⟨List.mem_of_getElem? hy, OptsRel.refl _ _, by simp⟩
        · simp at h
      · rw [hk] at h
        simp at h
    · simp only [Out.ok.injEq, Prod.mk.injEq] at h
      obtain ⟨⟨rfl, rfl⟩, rfl⟩ := h
      rename_i hr
      exact ⟨by simp, by simp only [OptsRel, hr]; exact ⟨[o], rest, rfl, rfl⟩, by simp⟩

theorem listUpdate_noerr {α : Type} {opts : List α} (hne : opts ≠ []) (random : Bool) (ds : Draws) :
    listUpdate opts random ds ≠ .err ∧ listUpdate opts random ds ≠ .panic := by
  unfold listUpdate
  cases opts with
  | nil => exact absurd rfl hne
  | cons o rest =>
    simp only
    split
    · rcases intn_good (n := Int.ofNat (o :: rest).length) (by simp) ds with ⟨k, ds1, hk, h0, h1⟩ | hk
      · rw [hk]
        simp only
        have hlt : k.toNat < (o :: rest).length := by
          simp only [Int.ofNat_eq_natCast] at h1
          omega
        rw [List.getElem?_eq_getElem hlt]
        simp
      · rw [hk]
        simp
    · simp

theorem chk64_ok {x y : Int} (h : chk64 x = .ok y) : y = x := by
  unfold chk64 at h
  split at h
  · cases h; rfl
  · cases h

theorem chk64_cases (x : Int) : chk64 x = .ok x ∨ chk64 x = .overflow := by
  unfold chk64
  split
  · exact Or.inl rfl
  · exact Or.inr rfl

theorem updateInt_ok [DOps D] {v : Int} {d : IntDist} {ds : Draws} {v' : Int} {d' : IntDist} {ds' : Draws}
    (h : updateInt v d ds = .ok ((v', d'), ds')) :
    InRange (D := D) (.int v' d') ∧ d.Same d' ∧ (d = .const → v' = v) ∧
      (ValidKind (D := D) (.int v d) → ValidKind (D := D) (.int v' d')) := by
  unfold updateInt at h
  cases d with
  | const =>
    simp only [Out.ok.injEq, Prod.mk.injEq] at h
    obtain ⟨⟨rfl, rfl⟩, rfl⟩ := h
    simp [InRange, IntDist.Same, ValidKind]
  | list opts random =>
    simp only at h
    cases hl : listUpdate opts random ds with
    | ok r =>
      obtain ⟨⟨x, o'⟩, ds1⟩ := r
      rw [hl] at h
      simp only [Out.ok.injEq, Prod.mk.injEq] at h
      obtain ⟨⟨rfl, rfl⟩, rfl⟩ := h
      obtain ⟨h1, h2, h3⟩ := listUpdate_ok hl
      exact ⟨h1, ⟨h2, rfl⟩, by simp, fun _ => h3⟩
    | err => rw [hl] at h; simp at h
    | panic => rw [hl] at h; simp at h
    | overflow => rw [hl] at h; simp at h
    | nodraws => rw [hl] at h; simp at h
  | range r =>
    simp only at h
    split at h
    · simp at h
    · rename_i hmm
      split at h
      · simp at h
      · split at h
        · simp at h
        · rename_i hdd
          cases hc : chk64 ((if (r.dmin != 0 || r.dmax != 0) = true then r.dmax else r.max) -
              (if (r.dmin != 0 || r.dmax != 0) = true then r.dmin else r.min) + 1) with
          | ok n =>
            rw [hc] at h
            simp only at h
            cases hi : int63n n ds with
            | ok xr =>
              obtain ⟨x, ds1⟩ := xr
              rw [hi] at h
              simp only at h
              cases hc2 : chk64 ((if (r.dmin != 0 || r.dmax != 0) = true then v else 0) +
                  (x + if (r.dmin != 0 || r.dmax != 0) = true then r.dmin else r.min)) with
              | ok nv =>
                rw [hc2] at h
                simp only [Out.ok.injEq, Prod.mk.injEq] at h
                obtain ⟨⟨rfl, rfl⟩, rfl⟩ := h
                have hmm' : r.min ≤ r.max := by omega
                refine ⟨?_, rfl, by simp, ?_⟩
                · simp only [InRange]
                  repeat' split
                  all_goals omega
                · intro hv
                  simp only [ValidKind] at hv ⊢
                  refine ⟨?_, ?_, hv.2.2⟩
                  all_goals repeat' split
                  all_goals omega
              | err => rw [hc2] at h; simp at h
              | panic => rw [hc2] at h; simp at h
              | overflow => rw [hc2] at h; simp at h
              | nodraws => rw [hc2] at h; simp at h
            | err => rw [hi] at h; simp at h
            | panic => rw [hi] at h; simp at h
            | overflow => rw [hi] at h; simp at h
            | nodraws => rw [hi] at h; simp at h
          | err => rw [hc] at h; simp at h
          | panic => rw [hc] at h; simp at h
          | overflow => rw [hc] at h; simp at h
          | nodraws => rw [hc] at h; simp at h

/-- an outcome that is neither an `error` nor a panic -/
def Out.Fine {α : Type} (o : Out α) : Prop := o ≠ .err ∧ o ≠ .panic

theorem fine_ok {α : Type} (a : α) : Out.Fine (.ok a) := ⟨by simp, by simp⟩
theorem fine_overflow {α : Type} : Out.Fine (Out.overflow : Out α) := ⟨by simp, by simp⟩
theorem fine_nodraws {α : Type} : Out.Fine (Out.nodraws : Out α) := ⟨by simp, by simp⟩

theorem goodDraw_cases {n : Int} {o : Out (Int × Draws)} (h : GoodDraw n o) :
    (∃ x ds', o = .ok (x, ds')) ∨ o = .nodraws := by
  rcases h with ⟨x, ds', h, _, _⟩ | h
  · exact Or.inl ⟨x, ds', h⟩
  · exact Or.inr h

theorem listUpdate_fine {α : Type} {opts : List α} (hne : opts ≠ []) (random : Bool) (ds : Draws) :
    Out.Fine (listUpdate opts random ds) := listUpdate_noerr hne random ds

theorem updateInt_fine [DOps D] {v : Int} {d : IntDist} (hv : ValidKind (D := D) (.int v d)) (ds : Draws) :
    Out.Fine (updateInt v d ds) := by
  unfold updateInt
  cases d with
  | const => exact fine_ok _
  | list opts random =>
    simp only
    have := listUpdate_fine (by simpa [ValidKind] using hv) random ds
    cases hl : listUpdate opts random ds with
    | ok r => exact fine_ok _
    | err => exact absurd hl this.1
    | panic => exact absurd hl this.2
    | overflow => exact fine_overflow
    | nodraws => exact fine_nodraws
  | range r =>
    simp only [ValidKind] at hv
    obtain ⟨h1, h2, h3⟩ := hv
    have e1 : ¬ r.min > r.max := by omega
    have e2 : (decide (v < r.min) || decide (v > r.max)) = false := by
      simp only [Bool.or_eq_false_iff, decide_eq_false_iff_not]
      omega
    simp only [e1, if_false, e2, Bool.false_eq_true]
    by_cases hd : (r.dmin != 0 || r.dmax != 0) = true
    · have h3' : r.dmin ≤ r.dmax := by
        apply h3
        simp only [Bool.or_eq_true, bne_iff_ne] at hd
        exact hd
      have e3 : decide (r.dmin > r.dmax) = false := by
        simp only [decide_eq_false_iff_not]; omega
      simp only [hd, e3, Bool.and_false, Bool.false_eq_true, if_false, if_true]
      rcases chk64_cases (r.dmax - r.dmin + 1) with hc | hc
      · rw [hc]
        simp only
        rcases goodDraw_cases (int63n_good (n := r.dmax - r.dmin + 1) (by omega) ds) with ⟨x, ds1, hi⟩ | hi
        · rw [hi]
          simp only
          rcases chk64_cases (v + (x + r.dmin)) with hc2 | hc2 <;> rw [hc2]
          · exact fine_ok _
          · exact fine_overflow
        · rw [hi]; exact fine_nodraws
      · rw [hc]; exact fine_overflow
    · simp only [hd, Bool.false_and, Bool.false_eq_true, if_false]
      rcases chk64_cases (r.max - r.min + 1) with hc | hc
      · rw [hc]
        simp only
        rcases goodDraw_cases (int63n_good (n := r.max - r.min + 1) (by omega) ds) with ⟨x, ds1, hi⟩ | hi
        · rw [hi]
          simp only
          rcases chk64_cases (0 + (x + r.min)) with hc2 | hc2 <;> rw [hc2]
          · exact fine_ok _
          · exact fine_overflow
        · rw [hi]; exact fine_nodraws
      · rw [hc]; exact fine_overflow

theorem updateUint_ok [DOps D] {v : Nat} {d : UintDist} {ds : Draws} {v' : Nat} {d' : UintDist} {ds' : Draws}
    (h : updateUint v d ds = .ok ((v', d'), ds')) :
    InRange (D := D) (.uint v' d') ∧ d.Same d' ∧ (d = .const → v' = v) ∧
      (ValidKind (D := D) (.uint v d) → ValidKind (D := D) (.uint v' d')) := by
  unfold updateUint at h
  cases d with
  | const =>
    simp only [Out.ok.injEq, Prod.mk.injEq] at h
    obtain ⟨⟨rfl, rfl⟩, rfl⟩ := h
    simp [InRange, UintDist.Same, ValidKind]
  | list opts random =>
    simp only at h
    cases hl : listUpdate opts random ds with
    | ok r =>
      obtain ⟨⟨x, o'⟩, ds1⟩ := r
      rw [hl] at h
      simp only [Out.ok.injEq, Prod.mk.injEq] at h
      obtain ⟨⟨rfl, rfl⟩, rfl⟩ := h
      obtain ⟨h1, h2, h3⟩ := listUpdate_ok hl
      exact ⟨h1, ⟨h2, rfl⟩, by simp, fun _ => h3⟩
    | err => rw [hl] at h; simp at h
    | panic => rw [hl] at h; simp at h
    | overflow => rw [hl] at h; simp at h
    | nodraws => rw [hl] at h; simp at h
  | range r =>
    simp only at h
    split at h
    · simp at h
    · rename_i hmm
      split at h
      · simp at h
      · split at h
        · simp at h
        · rename_i hdd
          cases hc : chk64 ((if (r.dmin != 0 || r.dmax != 0) = true then r.dmax else Int.ofNat r.max) -
              (if (r.dmin != 0 || r.dmax != 0) = true then r.dmin else Int.ofNat r.min) + 1) with
          | ok n =>
            rw [hc] at h
            simp only at h
            cases hi : int63n n ds with
            | ok xr =>
              obtain ⟨x, ds1⟩ := xr
              rw [hi] at h
              simp only at h
              cases hc2 : chk64 ((if (r.dmin != 0 || r.dmax != 0) = true then Int.ofNat v else 0) + x +
                  if (r.dmin != 0 || r.dmax != 0) = true then r.dmin else Int.ofNat r.min) with
              | ok nv =>
                rw [hc2] at h
                simp only [Out.ok.injEq, Prod.mk.injEq] at h
                obtain ⟨⟨rfl, rfl⟩, rfl⟩ := h
                have hmm' : r.min ≤ r.max := by omega
                refine ⟨?_, rfl, by simp, ?_⟩
                · simp only [InRange]
                  repeat' split
                  all_goals omega
                · intro hv
                  simp only [ValidKind] at hv ⊢
                  refine ⟨?_, ?_, hv.2.2⟩
                  all_goals repeat' split
                  all_goals omega
              | err => rw [hc2] at h; simp at h
              | panic => rw [hc2] at h; simp at h
              | overflow => rw [hc2] at h; simp at h
              | nodraws => rw [hc2] at h; simp at h
            | err => rw [hi] at h; simp at h
            | panic => rw [hi] at h; simp at h
            | overflow => rw [hi] at h; simp at h
            | nodraws => rw [hi] at h; simp at h
          | err => rw [hc] at h; simp at h
          | panic => rw [hc] at h; simp at h
          | overflow => rw [hc] at h; simp at h
          | nodraws => rw [hc] at h; simp at h

theorem updateUint_fine [DOps D] {v : Nat} {d : UintDist} (hv : ValidKind (D := D) (.uint v d)) (ds : Draws) :
    Out.Fine (updateUint v d ds) := by
  unfold updateUint
  cases d with
  | const => exact fine_ok _
  | list opts random =>
    simp only
    have := listUpdate_fine (by simpa [ValidKind] using hv) random ds
    cases hl : listUpdate opts random ds with
    | ok r => exact fine_ok _
    | err => exact absurd hl this.1
    | panic => exact absurd hl this.2
    | overflow => exact fine_overflow
    | nodraws => exact fine_nodraws
  | range r =>
    simp only [ValidKind] at hv
    obtain ⟨h1, h2, h3⟩ := hv
    have e1 : ¬ r.min > r.max := by omega
    have e2 : (decide (v < r.min) || decide (v > r.max)) = false := by
      simp only [Bool.or_eq_false_iff, decide_eq_false_iff_not]
      omega
    simp only [e1, if_false, e2, Bool.false_eq_true]
    by_cases hd : (r.dmin != 0 || r.dmax != 0) = true
    · have h3' : r.dmin ≤ r.dmax := by
        apply h3
        simp only [Bool.or_eq_true, bne_iff_ne] at hd
        exact hd
      have e3 : decide (r.dmin > r.dmax) = false := by
        simp only [decide_eq_false_iff_not]; omega
      simp only [hd, e3, Bool.and_false, Bool.false_eq_true, if_false, if_true]
      rcases chk64_cases (r.dmax - r.dmin + 1) with hc | hc
      · rw [hc]
        simp only
        rcases goodDraw_cases (int63n_good (n := r.dmax - r.dmin + 1) (by omega) ds) with ⟨x, ds1, hi⟩ | hi
        · rw [hi]
          simp only
          rcases chk64_cases (Int.ofNat v + x + r.dmin) with hc2 | hc2 <;> rw [hc2]
          · exact fine_ok _
          · exact fine_overflow
        · rw [hi]; exact fine_nodraws
      · rw [hc]; exact fine_overflow
    · simp only [hd, Bool.false_and, Bool.false_eq_true, if_false]
      rcases chk64_cases (Int.ofNat r.max - Int.ofNat r.min + 1) with hc | hc
      · rw [hc]
        simp only
        rcases goodDraw_cases (int63n_good (n := Int.ofNat r.max - Int.ofNat r.min + 1)
            (by simp only [Int.ofNat_eq_natCast]; omega) ds) with ⟨x, ds1, hi⟩ | hi
        · rw [hi]
          simp only
          rcases chk64_cases (0 + x + Int.ofNat r.min) with hc2 | hc2 <;> rw [hc2]
          · exact fine_ok _
          · exact fine_overflow
        · rw [hi]; exact fine_nodraws
      · rw [hc]; exact fine_overflow

/-! ### `Shuffle` permutes -/

theorem perm_set_getElem {α : Type} : ∀ (xs : List α) (j : Nat) (a : α) (h : j < xs.length),
    (a :: xs).Perm (xs[j] :: xs.set j a) := by
  intro xs
  induction xs with
  | nil => intro j a h; simp at h
  | cons y ys ih =>
    intro j a h
    cases j with
    | zero => simpa using List.Perm.swap y a ys
    | succ j =>
      simp only [List.getElem_cons_succ, List.set_cons_succ]
      have h' : j < ys.length := by simpa using h
      exact ((List.Perm.swap y a ys).trans ((ih j a h').cons y)).trans (List.Perm.swap _ _ _)

theorem swap_perm {α : Type} : ∀ (l : List α) (i j : Nat) (hi : i < l.length) (hj : j < l.length),
    ((l.set i l[j]).set j l[i]).Perm l := by
  intro l
  induction l with
  | nil => intro i j hi; simp at hi
  | cons x xs ih =>
    intro i j hi hj
    cases i with
    | zero =>
      cases j with
      | zero => simp
      | succ j =>
        have hj' : j < xs.length := by simpa using hj
        simpa using (perm_set_getElem xs j x hj').symm
    | succ i =>
      have hi' : i < xs.length := by simpa using hi
      cases j with
      | zero =>
        simp only [List.getElem_cons_zero, List.set_cons_succ, List.set_cons_zero, List.getElem_cons_succ]
        exact (perm_set_getElem xs i x hi').symm
      | succ j =>
        have hj' : j < xs.length := by simpa using hj
        simp only [List.getElem_cons_succ, List.set_cons_succ]
        exact (ih i j hi' hj').cons x

theorem swapIdx_ok {α : Type} (l : List α) {i j : Nat} (hi : i < l.length) (hj : j < l.length) :
    ∃ l', swapIdx l i j = .ok l' ∧ l'.Perm l := by
  unfold swapIdx
  rw [List.getElem?_eq_getElem hi, List.getElem?_eq_getElem hj]
  exact ⟨_, rfl, swap_perm l i j hi hj⟩

theorem lemireLoop_cases (n thresh : Nat) : ∀ (ds : Draws) (prod : Nat), (∃ v, v < two32 ∧ prod = v * n) →
    (∃ p ds', lemireLoop n thresh prod ds = .ok (p, ds') ∧ ∃ v, v < two32 ∧ p = v * n) ∨
      lemireLoop n thresh prod ds = .nodraws := by
  intro ds
  induction ds with
  | nil =>
    intro prod hp
    simp only [lemireLoop]
    split
    · exact Or.inr rfl
    · exact Or.inl ⟨_, _, rfl, hp⟩
  | cons d ds ih =>
    intro prod hp
    simp only [lemireLoop]
    split
    · exact ih _ ⟨_, Nat.mod_lt _ (by decide), rfl⟩
    · exact Or.inl ⟨_, _, rfl, hp⟩

theorem shift32_lt {v n : Nat} (hv : v < two32) (hn : 0 < n) : (v * n) >>> 32 < n := by
  rw [Nat.shiftRight_eq_div_pow]
  apply (Nat.div_lt_iff_lt_mul (by decide)).mpr
  have : v * n < two32 * n := Nat.mul_lt_mul_of_pos_right hv hn
  have h2 : (2 : Nat) ^ 32 = two32 := by decide
  rw [h2, Nat.mul_comm n two32]
  exact this

theorem lemire_cases {n : Nat} (hn : 0 < n) (ds : Draws) :
    (∃ j ds', lemire n ds = .ok (j, ds') ∧ j < n) ∨ lemire n ds = .nodraws := by
  unfold lemire
  cases ds with
  | nil => exact Or.inr rfl
  | cons d ds =>
    simp only
    have hv : (d >>> 31) % two32 < two32 := Nat.mod_lt _ (by decide)
    split
    · rcases lemireLoop_cases n ((two32 - n) % n) ds _ ⟨_, hv, rfl⟩ with ⟨p, ds', h, v, hv', rfl⟩ | h
      · rw [h]
        exact Or.inl ⟨_, _, rfl, shift32_lt hv' hn⟩
      · rw [h]
        exact Or.inr rfl
    · exact Or.inl ⟨_, _, rfl, shift32_lt hv hn⟩

theorem shuffleLoop_cases {α : Type} : ∀ (i : Nat) (l : List α) (ds : Draws), (i < l.length ∨ i = 0) →
    (∃ l' ds', shuffleLoop i l ds = .ok (l', ds') ∧ l'.Perm l) ∨ shuffleLoop i l ds = .nodraws := by
  intro i
  induction i with
  | zero => intro l ds _; exact Or.inl ⟨l, ds, rfl, List.Perm.refl _⟩
  | succ i ih =>
    intro l ds hi
    have hi' : i + 1 < l.length := by omega
    simp only [shuffleLoop]
    split
    · rcases int63n_good (n := Int.ofNat (i + 2)) (by simp only [Int.ofNat_eq_natCast]; omega) ds with
        ⟨j, ds1, hj, h0, h1⟩ | hj
      · rw [hj]
        simp only
        have hjl : j.toNat < l.length := by
          simp only [Int.ofNat_eq_natCast] at h1
          omega
        obtain ⟨l1, hs, hp⟩ := swapIdx_ok l hi' hjl
        rw [hs]
        simp only
        rcases ih l1 ds1 (Or.inl (by rw [hp.length_eq]; omega)) with ⟨l2, ds2, h2, hp2⟩ | h2
        · exact Or.inl ⟨l2, ds2, h2, hp2.trans hp⟩
        · exact Or.inr h2
      · rw [hj]
        exact Or.inr rfl
    · rcases lemire_cases (n := i + 2) (by omega) ds with ⟨j, ds1, hj, h1⟩ | hj
      · rw [hj]
        simp only
        obtain ⟨l1, hs, hp⟩ := swapIdx_ok l hi' (by omega : j < l.length)
        rw [hs]
        simp only
        rcases ih l1 ds1 (Or.inl (by rw [hp.length_eq]; omega)) with ⟨l2, ds2, h2, hp2⟩ | h2
        · exact Or.inl ⟨l2, ds2, h2, hp2.trans hp⟩
        · exact Or.inr h2
      · rw [hj]
        exact Or.inr rfl

theorem shuffle_cases {α : Type} (l : List α) (ds : Draws) :
    (∃ l' ds', shuffle l ds = .ok (l', ds') ∧ l'.Perm l) ∨ shuffle l ds = .nodraws := by
  unfold shuffle
  apply shuffleLoop_cases
  cases l with
  | nil => exact Or.inr rfl
  | cons x xs => exact Or.inl (by simp)

/-! ### doubles, strings, booleans, string lists -/

theorem float64_cases [DOps D] (ds : Draws) :
    (∃ f ds', float64 (D := D) ds = .ok (f, ds')) ∨ float64 (D := D) ds = .nodraws := by
  induction ds with
  | nil => exact Or.inr rfl
  | cons d ds ih =>
    simp only [float64]
    split
    · exact ih
    · exact Or.inl ⟨_, _, rfl⟩

theorem updateDouble_ok [DOps D] [LawfulDOps D] {v : D} {d : DblDist D} {ds : Draws} {v' : D}
    {d' : DblDist D} {ds' : Draws} (h : updateDouble v d ds = .ok ((v', d'), ds')) :
    InRange (.double v' d') ∧ d.Same d' ∧ (d = .const → v' = v) ∧
      (ValidKind (.double v d) → ValidKind (.double v' d')) := by
  unfold updateDouble at h
  cases d with
  | const =>
    simp only [Out.ok.injEq, Prod.mk.injEq] at h
    obtain ⟨⟨rfl, rfl⟩, rfl⟩ := h
    simp [InRange, DblDist.Same, ValidKind]
  | list opts random =>
    simp only at h
    cases hl : listUpdate opts random ds with
    | ok r =>
      obtain ⟨⟨x, o'⟩, ds1⟩ := r
      rw [hl] at h
      simp only [Out.ok.injEq, Prod.mk.injEq] at h
      obtain ⟨⟨rfl, rfl⟩, rfl⟩ := h
      obtain ⟨h1, h2, h3⟩ := listUpdate_ok hl
      exact ⟨h1, ⟨h2, rfl⟩, by simp, fun _ => h3⟩
    | err => rw [hl] at h; simp at h
    | panic => rw [hl] at h; simp at h
    | overflow => rw [hl] at h; simp at h
    | nodraws => rw [hl] at h; simp at h
  | range r =>
    simp only at h
    split at h
    · simp at h
    · rename_i hmm
      split at h
      · simp at h
      · split at h
        · simp at h
        · cases hf : float64 (D := D) ds with
          | ok fr =>
            obtain ⟨f, ds1⟩ := fr
            rw [hf] at h
            simp only [Out.ok.injEq, Prod.mk.injEq] at h
            obtain ⟨⟨rfl, rfl⟩, rfl⟩ := h
            have hmm' : DOps.lt r.max r.min = false := by simpa using hmm
            have hir := LawfulDOps.irrefl (D := D)
            have key : ∀ nv : D,
                DOps.lt (if DOps.lt (if DOps.lt r.max nv = true then r.max else nv) r.min = true then r.min
                    else (if DOps.lt r.max nv = true then r.max else nv)) r.min = false ∧
                DOps.lt r.max (if DOps.lt (if DOps.lt r.max nv = true then r.max else nv) r.min = true then r.min
                    else (if DOps.lt r.max nv = true then r.max else nv)) = false := by
              intro nv
              cases h1 : DOps.lt r.max nv with
              | true =>
                simp only [if_true, hmm', Bool.false_eq_true, if_false]
                exact ⟨trivial, hir _⟩
              | false =>
                simp only [Bool.false_eq_true, if_false]
                cases h2 : DOps.lt nv r.min with
                | true =>
                  simp only [if_true]
                  exact ⟨hir _, hmm'⟩
                | false =>
                  simp only [Bool.false_eq_true, if_false]
                  exact ⟨h2, h1⟩
            refine ⟨?_, ⟨rfl, rfl, rfl, rfl⟩, by simp, ?_⟩
            · simp only [InRange]
              exact key _
            · intro hv
              simp only [ValidKind] at hv ⊢
              exact ⟨hv.1, (key _).1, (key _).2, hv.2.2.2⟩
          | err => rw [hf] at h; simp at h
          | panic => rw [hf] at h; simp at h
          | overflow => rw [hf] at h; simp at h
          | nodraws => rw [hf] at h; simp at h

theorem updateDouble_fine [DOps D] {v : D} {d : DblDist D} (hv : ValidKind (.double v d)) (ds : Draws) :
    Out.Fine (updateDouble v d ds) := by
  unfold updateDouble
  cases d with
  | const => exact fine_ok _
  | list opts random =>
    simp only
    have := listUpdate_fine (by simpa [ValidKind] using hv) random ds
    cases hl : listUpdate opts random ds with
    | ok r => exact fine_ok _
    | err => exact absurd hl this.1
    | panic => exact absurd hl this.2
    | overflow => exact fine_overflow
    | nodraws => exact fine_nodraws
  | range r =>
    simp only [ValidKind] at hv
    obtain ⟨h0, h1, h2, h3⟩ := hv
    simp only [h0, h1, h2, Bool.false_eq_true, if_false, Bool.or_self]
    have e3 : ((DOps.ne0 r.dmin || DOps.ne0 r.dmax) && DOps.lt r.dmax r.dmin) = false := by
      cases hd : (DOps.ne0 r.dmin || DOps.ne0 r.dmax) with
      | false => simp
      | true => simp [h3 hd]
    simp only [e3, Bool.false_eq_true, if_false]
    rcases float64_cases (D := D) ds with ⟨f, ds1, hf⟩ | hf
    · rw [hf]; exact fine_ok _
    · rw [hf]; exact fine_nodraws

theorem updateScalarList_ok {α : Type} {v : α} {d : ListDist α} {ds : Draws} {v' : α} {d' : ListDist α}
    {ds' : Draws} (h : updateScalarList v d ds = .ok ((v', d'), ds')) :
    d.Same d' ∧ (d = .const → v' = v) ∧
      (∀ opts random, d' = .list opts random → v' ∈ opts ∧ opts ≠ []) := by
  unfold updateScalarList at h
  cases d with
  | const =>
    simp only [Out.ok.injEq, Prod.mk.injEq] at h
    obtain ⟨⟨rfl, rfl⟩, rfl⟩ := h
    simp [ListDist.Same]
  | list opts random =>
    simp only at h
    cases hl : listUpdate opts random ds with
    | ok r =>
      obtain ⟨⟨x, o'⟩, ds1⟩ := r
      rw [hl] at h
      simp only [Out.ok.injEq, Prod.mk.injEq] at h
      obtain ⟨⟨rfl, rfl⟩, rfl⟩ := h
      obtain ⟨h1, h2, h3⟩ := listUpdate_ok hl
      refine ⟨⟨h2, rfl⟩, by simp, ?_⟩
      intro o r he
      cases he
      exact ⟨h1, h3⟩
    | err => rw [hl] at h; simp at h
    | panic => rw [hl] at h; simp at h
    | overflow => rw [hl] at h; simp at h
    | nodraws => rw [hl] at h; simp at h

theorem updateScalarList_fine {α : Type} {v : α} {d : ListDist α}
    (hv : ∀ opts random, d = .list opts random → opts ≠ []) (ds : Draws) :
    Out.Fine (updateScalarList v d ds) := by
  unfold updateScalarList
  cases d with
  | const => exact fine_ok _
  | list opts random =>
    simp only
    have := listUpdate_fine (hv opts random rfl) random ds
    cases hl : listUpdate opts random ds with
    | ok r => exact fine_ok _
    | err => exact absurd hl this.1
    | panic => exact absurd hl this.2
    | overflow => exact fine_overflow
    | nodraws => exact fine_nodraws

theorem updateStrList_ok {v : List String} {d : ListDist String} {ds : Draws} {v' : List String}
    {d' : ListDist String} {ds' : Draws} (h : updateStrList v d ds = .ok ((v', d'), ds')) :
    d.Same d' ∧ (d = .const → v' = v) ∧
      (∀ opts random, d' = .list opts random → opts ≠ [] ∧
        (if random then v' <+: opts ∧ v'.length < opts.length else v' = opts)) := by
  unfold updateStrList at h
  cases d with
  | const =>
    simp only [Out.ok.injEq, Prod.mk.injEq] at h
    obtain ⟨⟨rfl, rfl⟩, rfl⟩ := h
    simp [ListDist.Same]
  | list opts random =>
    cases opts with
    | nil => simp at h
    | cons o rest =>
      simp only at h
      split at h
      · rename_i hr
        rcases shuffle_cases (o :: rest) ds with ⟨l1, ds1, hs, hp⟩ | hs
        · rw [hs] at h
          simp only at h
          have hlen : 0 < l1.length := by rw [hp.length_eq]; simp
          rcases intn_good (n := Int.ofNat l1.length) (by simp only [Int.ofNat_eq_natCast]; omega) ds1 with
            ⟨k, ds2, hk, h0, h1⟩ | hk
          · rw [hk] at h
            simp only [Out.ok.injEq, Prod.mk.injEq] at h
            obtain ⟨⟨rfl, rfl⟩, rfl⟩ := h
            refine ⟨⟨by simp only [OptsRel, hr, if_true]; exact hp, rfl⟩, by simp, ?_⟩
            intro o' r' he
            cases he
            refine ⟨by intro hnil; rw [hnil] at hlen; simp at hlen, ?_⟩
            simp only [hr, if_true]
            refine ⟨List.take_prefix _ _, ?_⟩
            simp only [List.length_take, Int.ofNat_eq_natCast] at h1 ⊢
            omega
          · rw [hk] at h
            simp at h
        · rw [hs] at h
          simp at h
      · rename_i hr
        simp only [Out.ok.injEq, Prod.mk.injEq] at h
        obtain ⟨⟨rfl, rfl⟩, rfl⟩ := h
        refine ⟨⟨by simp only [OptsRel, hr]; exact ⟨[o], rest, rfl, rfl⟩, rfl⟩, by simp, ?_⟩
        intro o' r' he
        cases he
        refine ⟨by simp, ?_⟩
        simp [hr]

theorem updateStrList_fine {v : List String} {d : ListDist String}
    (hv : ∀ opts random, d = .list opts random → opts ≠ []) (ds : Draws) :
    Out.Fine (updateStrList v d ds) := by
  unfold updateStrList
  cases d with
  | const => exact fine_ok _
  | list opts random =>
    cases opts with
    | nil => exact absurd rfl (hv [] random rfl)
    | cons o rest =>
      simp only
      split
      · rcases shuffle_cases (o :: rest) ds with ⟨l1, ds1, hs, hp⟩ | hs
        · rw [hs]
          simp only
          have hlen : 0 < l1.length := by rw [hp.length_eq]; simp
          rcases intn_good (n := Int.ofNat l1.length) (by simp only [Int.ofNat_eq_natCast]; omega) ds1 with
            ⟨k, ds2, hk, h0, h1⟩ | hk
          · rw [hk]; exact fine_ok _
          · rw [hk]; exact fine_nodraws
        · rw [hs]; exact fine_nodraws
      · exact fine_ok _

/-! ### `nextValue` -/

theorem updateKind_ok [DOps D] [LawfulDOps D] {k k' : Kind D} {ds ds' : Draws}
    (h : updateKind k ds = .ok (k', ds')) :
    InRange k' ∧ Kind.Same k k' ∧ (ValidKind k → ValidKind k') := by
  unfold updateKind at h
  cases k with
  | int v d =>
    simp only at h
    cases hu : updateInt v d ds with
    | ok r =>
      obtain ⟨⟨x, d1⟩, ds1⟩ := r
      rw [hu] at h
      simp only [Out.ok.injEq, Prod.mk.injEq] at h
      obtain ⟨rfl, rfl⟩ := h
      obtain ⟨h1, h2, h3, h4⟩ := updateInt_ok (D := D) hu
      exact ⟨h1, ⟨h2, h3⟩, h4⟩
    | err => rw [hu] at h; simp at h
    | panic => rw [hu] at h; simp at h
    | overflow => rw [hu] at h; simp at h
    | nodraws => rw [hu] at h; simp at h
  | uint v d =>
    simp only at h
    cases hu : updateUint v d ds with
    | ok r =>
      obtain ⟨⟨x, d1⟩, ds1⟩ := r
      rw [hu] at h
      simp only [Out.ok.injEq, Prod.mk.injEq] at h
      obtain ⟨rfl, rfl⟩ := h
      obtain ⟨h1, h2, h3, h4⟩ := updateUint_ok (D := D) hu
      exact ⟨h1, ⟨h2, h3⟩, h4⟩
    | err => rw [hu] at h; simp at h
    | panic => rw [hu] at h; simp at h
    | overflow => rw [hu] at h; simp at h
    | nodraws => rw [hu] at h; simp at h
  | double v d =>
    simp only at h
    cases hu : updateDouble v d ds with
    | ok r =>
      obtain ⟨⟨x, d1⟩, ds1⟩ := r
      rw [hu] at h
      simp only [Out.ok.injEq, Prod.mk.injEq] at h
      obtain ⟨rfl, rfl⟩ := h
      obtain ⟨h1, h2, h3, h4⟩ := updateDouble_ok hu
      exact ⟨h1, ⟨h2, h3⟩, h4⟩
    | err => rw [hu] at h; simp at h
    | panic => rw [hu] at h; simp at h
    | overflow => rw [hu] at h; simp at h
    | nodraws => rw [hu] at h; simp at h
  | str v d =>
    simp only at h
    cases hu : updateScalarList v d ds with
    | ok r =>
      obtain ⟨⟨x, d1⟩, ds1⟩ := r
      rw [hu] at h
      simp only [Out.ok.injEq, Prod.mk.injEq] at h
      obtain ⟨rfl, rfl⟩ := h
      obtain ⟨h1, h2, h3⟩ := updateScalarList_ok hu
      refine ⟨?_, ⟨h1, h2⟩, ?_⟩
      · cases d1 with
        | const => simp [InRange]
        | list o r => exact (h3 o r rfl).1
      · intro _
        cases d1 with
        | const => simp [ValidKind]
        | list o r => exact (h3 o r rfl).2
    | err => rw [hu] at h; simp at h
    | panic => rw [hu] at h; simp at h
    | overflow => rw [hu] at h; simp at h
    | nodraws => rw [hu] at h; simp at h
  | bool v d =>
    simp only at h
    cases hu : updateScalarList v d ds with
    | ok r =>
      obtain ⟨⟨x, d1⟩, ds1⟩ := r
      rw [hu] at h
      simp only [Out.ok.injEq, Prod.mk.injEq] at h
      obtain ⟨rfl, rfl⟩ := h
      obtain ⟨h1, h2, h3⟩ := updateScalarList_ok hu
      refine ⟨?_, ⟨h1, h2⟩, ?_⟩
      · cases d1 with
        | const => simp [InRange]
        | list o r => exact (h3 o r rfl).1
      · intro _
        cases d1 with
        | const => simp [ValidKind]
        | list o r => exact (h3 o r rfl).2
    | err => rw [hu] at h; simp at h
    | panic => rw [hu] at h; simp at h
    | overflow => rw [hu] at h; simp at h
    | nodraws => rw [hu] at h; simp at h
  | strList v d =>
    simp only at h
    cases hu : updateStrList v d ds with
    | ok r =>
      obtain ⟨⟨x, d1⟩, ds1⟩ := r
      rw [hu] at h
      simp only [Out.ok.injEq, Prod.mk.injEq] at h
      obtain ⟨rfl, rfl⟩ := h
      obtain ⟨h1, h2, h3⟩ := updateStrList_ok hu
      refine ⟨?_, ⟨h1, h2⟩, ?_⟩
      · cases d1 with
        | const => simp [InRange]
        | list o r => exact (h3 o r rfl).2
      · intro _
        cases d1 with
        | const => simp [ValidKind]
        | list o r => exact (h3 o r rfl).1
    | err => rw [hu] at h; simp at h
    | panic => rw [hu] at h; simp at h
    | overflow => rw [hu] at h; simp at h
    | nodraws => rw [hu] at h; simp at h
  | sync n =>
    simp only [Out.ok.injEq, Prod.mk.injEq] at h
    obtain ⟨rfl, rfl⟩ := h
    simp [InRange, Kind.Same, ValidKind]
  | delete =>
    simp only [Out.ok.injEq, Prod.mk.injEq] at h
    obtain ⟨rfl, rfl⟩ := h
    simp [InRange, Kind.Same, ValidKind]
  | unset => simp at h

theorem updateKind_fine [DOps D] {k : Kind D} (hv : ValidKind k) (ds : Draws) : Out.Fine (updateKind k ds) := by
  unfold updateKind
  cases k with
  | int v d =>
    have := updateInt_fine (D := D) hv ds
    simp only
    cases hu : updateInt v d ds with
    | ok r => exact fine_ok _
    | err => exact absurd hu this.1
    | panic => exact absurd hu this.2
    | overflow => exact fine_overflow
    | nodraws => exact fine_nodraws
  | uint v d =>
    have := updateUint_fine (D := D) hv ds
    simp only
    cases hu : updateUint v d ds with
    | ok r => exact fine_ok _
    | err => exact absurd hu this.1
    | panic => exact absurd hu this.2
    | overflow => exact fine_overflow
    | nodraws => exact fine_nodraws
  | double v d =>
    have := updateDouble_fine hv ds
    simp only
    cases hu : updateDouble v d ds with
    | ok r => exact fine_ok _
    | err => exact absurd hu this.1
    | panic => exact absurd hu this.2
    | overflow => exact fine_overflow
    | nodraws => exact fine_nodraws
  | str v d =>
    have := updateScalarList_fine (v := v) (d := d)
      (by intro o r he; subst he; simpa [ValidKind] using hv) ds
    simp only
    cases hu : updateScalarList v d ds with
    | ok r => exact fine_ok _
    | err => exact absurd hu this.1
    | panic => exact absurd hu this.2
    | overflow => exact fine_overflow
    | nodraws => exact fine_nodraws
  | bool v d =>
    have := updateScalarList_fine (v := v) (d := d)
      (by intro o r he; subst he; simpa [ValidKind] using hv) ds
    simp only
    cases hu : updateScalarList v d ds with
    | ok r => exact fine_ok _
    | err => exact absurd hu this.1
    | panic => exact absurd hu this.2
    | overflow => exact fine_overflow
    | nodraws => exact fine_nodraws
  | strList v d =>
    have := updateStrList_fine (v := v) (d := d)
      (by intro o r he; subst he; simpa [ValidKind] using hv) ds
    simp only
    cases hu : updateStrList v d ds with
    | ok r => exact fine_ok _
    | err => exact absurd hu this.1
    | panic => exact absurd hu this.2
    | overflow => exact fine_overflow
    | nodraws => exact fine_nodraws
  | sync n => exact fine_ok _
  | delete => exact fine_ok _
  | unset => exact absurd hv (by simp [ValidKind])

/-- what a successful `updateTimestamp` did -/
theorem updateTimestamp_ok {pv pv' : PVal D} {ds ds' : Draws} (h : updateTimestamp pv ds = .ok (pv', ds')) :
    ∃ t x, pv.ts = some t ∧ ValidTS t ∧ 0 ≤ x ∧ x ≤ t.dmax - t.dmin ∧
      pv' = { pv with ts := some { t with ts := t.ts + x + t.dmin } } := by
  unfold updateTimestamp at h
  cases hts : pv.ts with
  | none => rw [hts] at h; simp at h
  | some t =>
    rw [hts] at h
    simp only at h
    split at h
    · simp at h
    · rename_i h0
      split at h
      · simp at h
      · rename_i h1
        simp only [Bool.or_eq_true, decide_eq_true_eq, not_or] at h1
        rcases chk64_cases (t.dmax - t.dmin + 1) with hc | hc
        · rw [hc] at h
          simp only at h
          rcases int63n_good (n := t.dmax - t.dmin + 1) (by omega) ds with ⟨x, ds1, hi, hx0, hx1⟩ | hi
          · rw [hi] at h
            simp only at h
            rcases chk64_cases (t.ts + x + t.dmin) with hc2 | hc2
            · rw [hc2] at h
              simp only [Out.ok.injEq, Prod.mk.injEq] at h
              obtain ⟨rfl, rfl⟩ := h
              exact ⟨t, x, rfl, ⟨by omega, by omega, by omega⟩, hx0, by omega, rfl⟩
            · rw [hc2] at h; simp at h
          · rw [hi] at h; simp at h
        · rw [hc] at h; simp at h

theorem updateTimestamp_fine {pv : PVal D} {t : TS} (hts : pv.ts = some t) (hv : ValidTS t) (ds : Draws) :
    Out.Fine (updateTimestamp pv ds) := by
  unfold updateTimestamp
  rw [hts]
  obtain ⟨h0, h1, h2⟩ := hv
  have e0 : ¬ t.ts < 0 := by omega
  have e1 : (decide (t.dmin > t.dmax) || decide (t.dmin < 0)) = false := by
    simp only [Bool.or_eq_false_iff, decide_eq_false_iff_not]
    omega
  simp only [e0, if_false, e1, Bool.false_eq_true]
  rcases chk64_cases (t.dmax - t.dmin + 1) with hc | hc
  · rw [hc]
    simp only
    rcases goodDraw_cases (int63n_good (n := t.dmax - t.dmin + 1) (by omega) ds) with ⟨x, ds1, hi⟩ | hi
    · rw [hi]
      simp only
      rcases chk64_cases (t.ts + x + t.dmin) with hc2 | hc2 <;> rw [hc2]
      · exact fine_ok _
      · exact fine_overflow
    · rw [hi]; exact fine_nodraws
  · rw [hc]; exact fine_overflow

theorem nextValue_ok [DOps D] [LawfulDOps D] {pv pv' : PVal D} {ds ds' : Draws}
    (h : nextValue pv ds = .ok pv' ds') : StepFacts pv pv' := by
  unfold nextValue at h
  split at h
  · simp at h
  · rename_i hrep
    simp only at h
    cases hu : updateTimestamp (if pv.repeat_ > 1 then { pv with repeat_ := pv.repeat_ - 1 } else pv) ds with
    | ok r =>
      obtain ⟨pv2, ds2⟩ := r
      rw [hu] at h
      simp only at h
      obtain ⟨t, x, hts, hvt, hx0, hx1, hpv2⟩ := updateTimestamp_ok hu
      cases hk : updateKind pv2.kind ds2 with
      | ok r2 =>
        obtain ⟨k, ds3⟩ := r2
        rw [hk] at h
        simp only [NV.ok.injEq] at h
        obtain ⟨rfl, rfl⟩ := h
        obtain ⟨h1, h2, h3⟩ := updateKind_ok hk
        have hkind : pv2.kind = pv.kind := by rw [hpv2]; split <;> rfl
        have hts' : pv.ts = some t := by
          rw [← hts]; split <;> rfl
        rw [hkind] at h2 h3
        refine ⟨hrep, ?_, ?_, ⟨t, x + t.dmin, hts', hvt, by omega, by omega, ?_⟩, h1, h2, h3⟩
        · simp only [hpv2]; split <;> rfl
        · simp only [hpv2]; split <;> rfl
        · simp only [hpv2]
          congr 2
          omega
      | err => rw [hk] at h; simp at h
      | panic => rw [hk] at h; simp at h
      | overflow => rw [hk] at h; simp at h
      | nodraws => rw [hk] at h; simp at h
    | err => rw [hu] at h; simp at h
    | panic => rw [hu] at h; simp at h
    | overflow => rw [hu] at h; simp at h
    | nodraws => rw [hu] at h; simp at h

/-- `nextValue` neither returns an error nor panics on a value the validity checks accept -/
theorem nextValue_fine [DOps D] {pv : PVal D} (hv : ValidPV pv) (hts : pv.ts.isSome = true) (ds : Draws) :
    (∀ p d, nextValue pv ds ≠ .err p d) ∧ nextValue pv ds ≠ .panic := by
  unfold nextValue
  split
  · simp
  · rename_i hrep
    rcases hv with hv | ⟨hvt, hvk⟩
    · exact absurd hv hrep
    · obtain ⟨t, ht⟩ := Option.isSome_iff_exists.mp hts
      have hts1 : (if pv.repeat_ > 1 then { pv with repeat_ := pv.repeat_ - 1 } else pv).ts = some t := by
        split <;> exact ht
      have hf := updateTimestamp_fine hts1 (hvt t ht) ds
      simp only
      cases hu : updateTimestamp (if pv.repeat_ > 1 then { pv with repeat_ := pv.repeat_ - 1 } else pv) ds with
      | ok r =>
        obtain ⟨pv2, ds2⟩ := r
        simp only
        obtain ⟨t', x, hts', _, _, _, hpv2⟩ := updateTimestamp_ok hu
        have hkind : pv2.kind = pv.kind := by rw [hpv2]; split <;> rfl
        have hf2 := updateKind_fine (hkind ▸ hvk) ds2
        cases hk : updateKind pv2.kind ds2 with
        | ok r2 => simp
        | err => exact absurd hk hf2.1
        | panic => exact absurd hk hf2.2
        | overflow => simp
        | nodraws => simp
      | err => exact absurd hu hf.1
      | panic => exact absurd hu hf.2
      | overflow => simp
      | nodraws => simp

/-! ## `addValue` and `Next` on a well-formed queue -/

theorem withTs_isSome (v : Val D) : v.withTs.pv.ts.isSome = true := by
  unfold Val.withTs
  split
  · rename_i t h; simp [h]
  · simp

theorem withTs_of_isSome {v : Val D} (h : v.pv.ts.isSome = true) : v.withTs = v := by
  unfold Val.withTs
  split
  · rfl
  · rename_i hn; simp [hn] at h

theorem withTs_id (v : Val D) : v.withTs.id = v.id := by
  unfold Val.withTs; split <;> rfl

/-- `addValue` never fails on a well-formed queue: it is sorted insertion -/
theorem addValue_spec {u : UQ D} (hw : WFQ u.q) (v : Val D) :
    addValue u v = .ok { u with q := ins v.withTs v.withTs.t u.q,
                                latest := if v.withTs.t > u.latest then v.withTs.t else u.latest } := by
  unfold addValue
  simp only [addValueQ_eq_ins hw]

theorem wfq_tail {b : List (Val D)} {q : List (List (Val D))} (h : WFQ (b :: q)) : WFQ q :=
  ⟨fun x hx => h.1 x (List.mem_cons_of_mem _ hx), (List.pairwise_cons.mp h.2).2⟩

/-- in a well-formed queue the first value of the first bucket is the earliest -/
theorem head_min {v : Val D} {vs : List (Val D)} {rest : List (List (Val D))} (hw : WFQ ((v :: vs) :: rest)) :
    ∀ x ∈ vs ++ rest.flatten, v.t ≤ x.t := by
  intro x hx
  have hb := hw.1 (v :: vs) (List.mem_cons_self ..)
  rcases List.mem_append.mp hx with hx | hx
  · have := (hb.2 x (List.mem_cons_of_mem _ hx)).2
    have hk : keyOf (v :: vs) = v.t := rfl
    omega
  · obtain ⟨b, hbm, hxb⟩ := List.mem_flatten.mp hx
    have h1 := (List.pairwise_cons.mp hw.2).1 b hbm
    have h2 := ((hw.1 b (List.mem_cons_of_mem _ hbm)).2 x hxb).2
    have hk : keyOf (v :: vs) = v.t := rfl
    omega

/-- the queue after `if len(u.q[0]) == 1 { u.q = u.q[1:] } else { u.q[0] = u.q[0][1:] }` -/
def popped (vs : List (Val D)) (rest : List (List (Val D))) : List (List (Val D)) :=
  match vs with
  | [] => rest
  | _ :: _ => vs :: rest

theorem popped_flatten (vs : List (Val D)) (rest : List (List (Val D))) :
    (popped vs rest).flatten = vs ++ rest.flatten := by
  cases vs <;> simp [popped]

theorem popped_wf {v : Val D} {vs : List (Val D)} {rest : List (List (Val D))} (hw : WFQ ((v :: vs) :: rest)) :
    WFQ (popped vs rest) := by
  cases vs with
  | nil => exact wfq_tail hw
  | cons y ys =>
    simp only [popped]
    have hb := hw.1 (v :: y :: ys) (List.mem_cons_self ..)
    have hky : keyOf (y :: ys) = keyOf (v :: y :: ys) := by
      have := (hb.2 y (by simp)).2
      exact this
    refine ⟨?_, ?_⟩
    · intro b hbm
      rcases List.mem_cons.mp hbm with rfl | hbm
      · refine ⟨by simp, ?_⟩
        intro x hx
        rw [hky]
        exact hb.2 x (List.mem_cons_of_mem _ hx)
      · exact hw.1 b (List.mem_cons_of_mem _ hbm)
    · refine List.pairwise_cons.mpr ⟨?_, (List.pairwise_cons.mp hw.2).2⟩
      intro b hbm
      rw [hky]
      exact (List.pairwise_cons.mp hw.2).1 b hbm

/-- The possible outcomes of one `Next` on a well-formed queue. -/
inductive NextCase [DOps D] (u : UQ D) : Prop where
  | empty (hq : u.vals = []) (h : next u = (.nil, u))
  | dropped (v : Val D) (rest : List (Val D)) (hv : u.vals = v :: rest) (hmin : ∀ x ∈ rest, v.t ≤ x.t)
      (hrep : v.pv.repeat_ = 1) (u' : UQ D) (h : next u = (.emit v, u')) (hvals : u'.vals = rest)
      (hw : WFQ u'.q) (hnid : u'.nid = u.nid)
  | requeued (v : Val D) (rest : List (Val D)) (hv : u.vals = v :: rest) (hmin : ∀ x ∈ rest, v.t ≤ x.t)
      (v' : Val D) (hid : v'.id = v.id) (hstep : StepFacts v.pv v'.pv) (hsucc : Succ v v')
      (u' : UQ D) (h : next u = (.emit v, u'))
      (a b : List (Val D)) (hab : rest = a ++ b) (hvals : u'.vals = a ++ v' :: b)
      (hw : WFQ u'.q) (hnid : u'.nid = u.nid)
  | err (v : Val D) (rest : List (Val D)) (hv : u.vals = v :: rest)
      (pv' : PVal D) (ds' : Draws) (hnv : nextValue v.pv (v.draws u.g) = .err pv' ds') (h : (next u).1 = .err)
  | stuck (v : Val D) (rest : List (Val D)) (hv : u.vals = v :: rest)
      (h : next u = (.panic, u) ∧ nextValue v.pv (v.draws u.g) = .panic ∨ next u = (.overflow, u) ∨ next u = (.nodraws, u))

theorem next_cases [DOps D] [LawfulDOps D] (u : UQ D) (hw : WFQ u.q) : NextCase u := by
  cases hq : u.q with
  | nil =>
    exact .empty (by simp [UQ.vals, hq]) (by simp [next, hq])
  | cons b rest =>
    cases b with
    | nil =>
      exfalso
      exact (hw.1 [] (by simp [hq])).1 rfl
    | cons v vs =>
      have hw' : WFQ ((v :: vs) :: rest) := hq ▸ hw
      have hvals : u.vals = v :: (vs ++ rest.flatten) := by simp [UQ.vals, hq]
      have hmin := head_min hw'
      have hpw := popped_wf hw'
      have hnext : next u = (match nextValue v.pv (v.draws u.g) with
          | .dropped => (.emit v, { u with q := popped vs rest })
          | .ok pv' ds' =>
              match addValue { u with q := popped vs rest, g := (match v.own with | some _ => u.g | none => ds') }
                  { v with pv := pv', own := v.own.map (fun _ => ds') } with
              | .ok u' => (.emit v, u')
              | _ => (.panic, u)
          | .err pv' ds' =>
              (.err, { u with q := ({ v with pv := pv', own := v.own.map (fun _ => ds') } :: vs) :: rest,
                              g := (match v.own with | some _ => u.g | none => ds') })
          | .panic => (.panic, u)
          | .overflow => (.overflow, u)
          | .nodraws => (.nodraws, u)) := by
        unfold next
        rw [hq]
        simp only [popped]
        cases vs <;> rfl
      cases hnv : nextValue v.pv (v.draws u.g) with
      | dropped =>
        rw [hnv] at hnext
        simp only at hnext
        have hrep : v.pv.repeat_ = 1 := by
          unfold nextValue at hnv
          split at hnv
          · assumption
          · simp only at hnv
            split at hnv
            · split at hnv <;> simp at hnv
            all_goals simp at hnv
        exact .dropped v _ hvals hmin hrep _ hnext (by simp [UQ.vals, popped_flatten]) hpw rfl
      | ok pv' ds' =>
        rw [hnv] at hnext
        simp only at hnext
        have hsf := nextValue_ok hnv
        obtain ⟨t, x, hts, hvt, hx0, hx1, hts'⟩ := hsf.ts
        have hsome : ({ v with pv := pv', own := v.own.map (fun _ => ds') } : Val D).pv.ts.isSome = true := by
          simp [hts']
        rw [addValue_spec (u := { u with q := popped vs rest, g := (match v.own with | some _ => u.g | none => ds') }) hpw] at hnext
        simp only [withTs_of_isSome hsome] at hnext
        obtain ⟨a, b, hab, hins⟩ := ins_flatten { v with pv := pv', own := v.own.map (fun _ => ds') }
          ({ v with pv := pv', own := v.own.map (fun _ => ds') } : Val D).t (popped vs rest)
        rw [popped_flatten] at hab
        exact .requeued v _ hvals hmin { v with pv := pv', own := v.own.map (fun _ => ds') } rfl hsf
          ⟨rfl, _, _, hnv⟩ _ hnext a b hab (by simpa [UQ.vals] using hins) (ins_wf hsome rfl hpw) rfl
      | err pv' ds' =>
        rw [hnv] at hnext
        simp only at hnext
        exact .err v _ hvals pv' ds' hnv (by rw [hnext])
      | panic =>
        rw [hnv] at hnext
        simp only at hnext
        exact .stuck v _ hvals (Or.inl ⟨hnext, hnv⟩)
      | overflow =>
        rw [hnv] at hnext
        simp only at hnext
        exact .stuck v _ hvals (Or.inr (Or.inl hnext))
      | nodraws =>
        rw [hnv] at hnext
        simp only at hnext
        exact .stuck v _ hvals (Or.inr (Or.inr hnext))

/-! ## The invariant and the run -/

theorem vals_isSome {u : UQ D} (hw : WFQ u.q) {v : Val D} (hv : v ∈ u.vals) : v.pv.ts.isSome = true := by
  obtain ⟨b, hb, hvb⟩ := List.mem_flatten.mp hv
  exact ((hw.1 b hb).2 v hvb).1

theorem StepFacts.t_eq [DOps D] {a b : Val D} (h : StepFacts a.pv b.pv) :
    ∃ t x, a.pv.ts = some t ∧ ValidTS t ∧ t.dmin ≤ x ∧ x ≤ t.dmax ∧ a.t = t.ts ∧ b.t = t.ts + x := by
  obtain ⟨t, x, h1, h2, h3, h4, h5⟩ := h.ts
  exact ⟨t, x, h1, h2, h3, h4, by simp [Val.t, h1], by simp [Val.t, h5]⟩

theorem StepFacts.t_le [DOps D] {a b : Val D} (h : StepFacts a.pv b.pv) : a.t ≤ b.t := by
  obtain ⟨t, x, _, hv, h3, _, h5, h6⟩ := h.t_eq
  have := hv.2.1
  omega

theorem StepFacts.validPV [DOps D] {a b : PVal D} (h : StepFacts a b) (hv : ValidPV a) : ValidPV b := by
  rcases hv with hv | ⟨hvt, hvk⟩
  · exact absurd hv h.rep_ne
  · refine Or.inr ⟨?_, h.valid hvk⟩
    obtain ⟨t, x, h1, h2, h3, h4, h5⟩ := h.ts
    intro t' ht'
    rw [h5] at ht'
    cases ht'
    exact ⟨by have := h2.1; have := h2.2.1; simp only; omega, h2.2.1, h2.2.2⟩

theorem next_inv [DOps D] [LawfulDOps D] {u : UQ D} (hi : Inv u) : Inv (next u).2 := by
  cases next_cases u hi.wf with
  | empty hq h => rw [h]; exact hi
  | dropped v rest hv hmin hrep u' h hvals hw hnid =>
    rw [h]
    have hsub : ∀ x ∈ u'.vals, x ∈ u.vals := by
      intro x hx; rw [hvals] at hx; rw [hv]; exact List.mem_cons_of_mem _ hx
    refine ⟨hw, ?_, fun x hx => hnid ▸ hi.fresh x (hsub x hx), fun x hx => hi.valid x (hsub x hx)⟩
    have := hi.nodup
    simp only [UQ.ids, hv, hvals, List.map_cons] at this ⊢
    exact (List.nodup_cons.mp this).2
  | requeued v rest hv hmin v' hid hstep hsucc u' h a b hab hvals hw hnid =>
    rw [h]
    have hvmem : v ∈ u.vals := by rw [hv]; simp
    refine ⟨hw, ?_, ?_, ?_⟩
    · have := hi.nodup
      simp only [UQ.ids, hv, hvals, hab, List.map_cons, List.map_append] at this ⊢
      have hp : (List.map (·.id) a ++ v'.id :: List.map (·.id) b).Perm
          (v.id :: (List.map (·.id) a ++ List.map (·.id) b)) := by
        rw [hid]; exact List.perm_middle
      exact hp.nodup_iff.mpr this
    · intro x hx
      rw [hvals] at hx
      rw [hnid]
      rcases List.mem_append.mp hx with hx | hx
      · exact hi.fresh x (by rw [hv, hab]; simp [hx])
      · rcases List.mem_cons.mp hx with rfl | hx
        · rw [hid]; exact hi.fresh v hvmem
        · exact hi.fresh x (by rw [hv, hab]; simp [hx])
    · intro x hx
      rw [hvals] at hx
      rcases List.mem_append.mp hx with hx | hx
      · exact hi.valid x (by rw [hv, hab]; simp [hx])
      · rcases List.mem_cons.mp hx with rfl | hx
        · exact hstep.validPV (hi.valid v hvmem)
        · exact hi.valid x (by rw [hv, hab]; simp [hx])
  | err v rest hv pv' ds' hnv h =>
    exfalso
    have hvmem : v ∈ u.vals := by rw [hv]; simp
    exact (nextValue_fine (hi.valid v hvmem) (vals_isSome hi.wf hvmem) _).1 _ _ hnv
  | stuck v rest hv h =>
    rcases h with ⟨h, _⟩ | h | h <;> rw [h] <;> exact hi

theorem after_inv [DOps D] [LawfulDOps D] (n : Nat) : ∀ {u : UQ D}, Inv u → Inv (after n u) := by
  induction n with
  | zero => intro u h; exact h
  | succ n ih => intro u h; exact ih (next_inv h)

theorem emits_succ [DOps D] (n : Nat) (u : UQ D) :
    emits (n + 1) u = match (next u).1 with
      | .emit v => v :: emits n (next u).2
      | _ => emits n (next u).2 := by
  simp only [emits, results, List.filterMap_cons]
  cases (next u).1 <;> rfl

/-- an accepted configuration never makes `Next` fail -/
theorem next_no_err [DOps D] [LawfulDOps D] {u : UQ D} (hi : Inv u) :
    (next u).1 ≠ .err ∧ (next u).1 ≠ .panic := by
  cases next_cases u hi.wf with
  | empty hq h => rw [h]; simp
  | dropped v rest hv hmin hrep u' h hvals hw hnid => rw [h]; simp
  | requeued v rest hv hmin v' hid hstep hsucc u' h a b hab hvals hw hnid => rw [h]; simp
  | err v rest hv pv' ds' hnv h =>
    exfalso
    have hvmem : v ∈ u.vals := by rw [hv]; simp
    exact (nextValue_fine (hi.valid v hvmem) (vals_isSome hi.wf hvmem) _).1 _ _ hnv
  | stuck v rest hv h =>
    have hvmem : v ∈ u.vals := by rw [hv]; simp
    rcases h with ⟨h, hp⟩ | h | h
    · exact absurd hp (nextValue_fine (hi.valid v hvmem) (vals_isSome hi.wf hvmem) _).2
    · rw [h]; simp
    · rw [h]; simp

/-! ### ordering -/

theorem emits_lower_bound [DOps D] [LawfulDOps D] (n : Nat) : ∀ (u : UQ D), Inv u → ∀ (m : Int),
    (∀ x ∈ u.vals, m ≤ x.t) → ∀ e ∈ emits n u, m ≤ e.t := by
  induction n with
  | zero => intro u _ m _ e he; simp [emits, results] at he
  | succ n ih =>
    intro u hi m hm e he
    rw [emits_succ] at he
    have hi' := next_inv hi
    cases next_cases u hi.wf with
    | empty hq h =>
      rw [h] at he hi'
      exact ih u hi' m hm e he
    | dropped v rest hv hmin hrep u' h hvals hw hnid =>
      rw [h] at he hi'
      simp only [List.mem_cons] at he
      rcases he with rfl | he
      · exact hm e (by rw [hv]; simp)
      · exact ih u' hi' m (fun x hx => hm x (by rw [hv]; rw [hvals] at hx; simp [hx])) e he
    | requeued v rest hv hmin v' hid hstep hsucc u' h a b hab hvals hw hnid =>
      rw [h] at he hi'
      simp only [List.mem_cons] at he
      have hmv : m ≤ v.t := hm v (by rw [hv]; simp)
      rcases he with rfl | he
      · exact hmv
      · refine ih u' hi' m ?_ e he
        intro x hx
        rw [hvals] at hx
        rcases List.mem_append.mp hx with hx | hx
        · exact hm x (by rw [hv, hab]; simp [hx])
        · rcases List.mem_cons.mp hx with rfl | hx
          · have := hstep.t_le; omega
          · exact hm x (by rw [hv, hab]; simp [hx])
    | err v rest hv pv' ds' hnv h => exact absurd h (next_no_err hi).1
    | stuck v rest hv h =>
      rcases h with ⟨h, _⟩ | h | h <;> rw [h] at he hi' <;> exact ih u hi' m hm e he

theorem emits_sorted [DOps D] [LawfulDOps D] (n : Nat) : ∀ (u : UQ D), Inv u →
    (emits n u).Pairwise (fun a b => a.t ≤ b.t) := by
  induction n with
  | zero => intro u _; simp [emits, results]
  | succ n ih =>
    intro u hi
    rw [emits_succ]
    have hi' := next_inv hi
    cases next_cases u hi.wf with
    | empty hq h => rw [h] at hi' ⊢; exact ih u hi'
    | dropped v rest hv hmin hrep u' h hvals hw hnid =>
      rw [h] at hi' ⊢
      refine List.pairwise_cons.mpr ⟨?_, ih u' hi'⟩
      exact emits_lower_bound n u' hi' v.t (by rw [hvals]; exact hmin)
    | requeued v rest hv hmin v' hid hstep hsucc u' h a b hab hvals hw hnid =>
      rw [h] at hi' ⊢
      refine List.pairwise_cons.mpr ⟨?_, ih u' hi'⟩
      refine emits_lower_bound n u' hi' v.t ?_
      intro x hx
      rw [hvals] at hx
      rcases List.mem_append.mp hx with hx | hx
      · exact hmin x (by rw [hab]; simp [hx])
      · rcases List.mem_cons.mp hx with rfl | hx
        · exact hstep.t_le
        · exact hmin x (by rw [hab]; simp [hx])
    | err v rest hv pv' ds' hnv h => exact absurd h (next_no_err hi).1
    | stuck v rest hv h =>
      rcases h with ⟨h, _⟩ | h | h <;> rw [h] at hi' ⊢ <;> exact ih u hi'

/-! ### the emissions of one value form a `nextValue` chain -/

theorem emits_ids [DOps D] [LawfulDOps D] (n : Nat) : ∀ (u : UQ D), Inv u → ∀ e ∈ emits n u, e.id ∈ u.ids := by
  induction n with
  | zero => intro u _ e he; simp [emits, results] at he
  | succ n ih =>
    intro u hi e he
    rw [emits_succ] at he
    have hi' := next_inv hi
    cases next_cases u hi.wf with
    | empty hq h => rw [h] at he hi'; exact ih u hi' e he
    | dropped v rest hv hmin hrep u' h hvals hw hnid =>
      rw [h] at he hi'
      simp only [List.mem_cons] at he
      rcases he with rfl | he
      · simp [UQ.ids, hv]
      · have := ih u' hi' e he
        simp only [UQ.ids, hv, hvals, List.map_cons, List.mem_cons] at this ⊢
        exact Or.inr this
    | requeued v rest hv hmin v' hid hstep hsucc u' h a b hab hvals hw hnid =>
      rw [h] at he hi'
      simp only [List.mem_cons] at he
      rcases he with rfl | he
      · simp [UQ.ids, hv]
      · have := ih u' hi' e he
        simp only [UQ.ids, hv, hvals, hab, List.map_cons, List.map_append, List.mem_cons, List.mem_append] at this ⊢
        rcases this with h1 | h1 | h1
        · exact Or.inr (Or.inl h1)
        · exact Or.inl (h1.trans hid)
        · exact Or.inr (Or.inr h1)
    | err v rest hv pv' ds' hnv h => exact absurd h (next_no_err hi).1
    | stuck v rest hv h =>
      rcases h with ⟨h, _⟩ | h | h <;> rw [h] at he hi' <;> exact ih u hi' e he

/-- the emissions of the value with identity `i` -/
def proj (i : Nat) (l : List (Val D)) : List (Val D) := l.filter (fun e => e.id == i)

theorem proj_eq_nil_of_not_mem [DOps D] [LawfulDOps D] (n : Nat) (u : UQ D) (hi : Inv u) (i : Nat)
    (h : i ∉ u.ids) : proj i (emits n u) = [] := by
  simp only [proj, List.filter_eq_nil_iff, beq_iff_eq]
  intro e he heq
  exact h (heq ▸ emits_ids n u hi e he)

theorem id_ne_of_nodup {v x : Val D} {rest : List (Val D)} (h : (List.map (·.id) (v :: rest)).Nodup)
    (hx : x ∈ rest) : x.id ≠ v.id := by
  simp only [List.map_cons, List.nodup_cons, List.mem_map, not_exists, not_and] at h
  intro heq
  exact h.1 x hx heq

/-- The emissions of a queued value start with that value and continue as a chain of
`nextValue` steps. -/
theorem emits_chain [DOps D] [LawfulDOps D] (n : Nat) : ∀ (u : UQ D), Inv u → ∀ x ∈ u.vals,
    proj x.id (emits n u) = [] ∨ ∃ rest, proj x.id (emits n u) = x :: rest ∧ ChainFrom Succ x rest := by
  induction n with
  | zero => intro u _ x _; exact Or.inl (by simp [proj, emits, results])
  | succ n ih =>
    intro u hi x hx
    rw [emits_succ]
    have hi' := next_inv hi
    cases next_cases u hi.wf with
    | empty hq h => rw [hq] at hx; simp at hx
    | dropped v rest hv hmin hrep u' h hvals hw hnid =>
      rw [h] at hi' ⊢
      simp only
      have hnd := hi.nodup
      simp only [UQ.ids, hv] at hnd
      rw [hv] at hx
      rcases List.mem_cons.mp hx with rfl | hx
      · refine Or.inr ⟨[], ?_, trivial⟩
        have : proj x.id (emits n u') = [] := by
          apply proj_eq_nil_of_not_mem n u' hi'
          simp only [UQ.ids, hvals]
          exact (List.nodup_cons.mp hnd).1
        simp [proj] at this ⊢
        exact this
      · have hne := id_ne_of_nodup hnd hx
        have : proj x.id (v :: emits n u') = proj x.id (emits n u') := by
          simp only [proj, List.filter_cons]
          have : (v.id == x.id) = false := by simp; exact fun h => hne h.symm
          simp [this]
        rw [this]
        exact ih u' hi' x (by rw [hvals]; exact hx)
    | requeued v rest hv hmin v' hid hstep hsucc u' h a b hab hvals hw hnid =>
      rw [h] at hi' ⊢
      simp only
      have hnd := hi.nodup
      simp only [UQ.ids, hv] at hnd
      rw [hv] at hx
      rcases List.mem_cons.mp hx with rfl | hx
      · have hv'mem : v' ∈ u'.vals := by rw [hvals]; simp
        have hp : proj x.id (x :: emits n u') = x :: proj v'.id (emits n u') := by
          simp [proj, hid]
        rw [hp]
        rcases ih u' hi' v' hv'mem with h0 | ⟨r, h1, h2⟩
        · exact Or.inr ⟨[], by rw [h0], trivial⟩
        · exact Or.inr ⟨v' :: r, by rw [h1], ⟨hsucc, h2⟩⟩
      · have hne := id_ne_of_nodup hnd hx
        have : proj x.id (v :: emits n u') = proj x.id (emits n u') := by
          simp only [proj, List.filter_cons]
          have : (v.id == x.id) = false := by simp; exact fun h => hne h.symm
          simp [this]
        rw [this]
        refine ih u' hi' x ?_
        rw [hvals]
        rw [hab] at hx
        rcases List.mem_append.mp hx with hx | hx
        · simp [hx]
        · simp [hx]
    | err v rest hv pv' ds' hnv h => exact absurd h (next_no_err hi).1
    | stuck v rest hv h =>
      rcases h with ⟨h, _⟩ | h | h <;> rw [h] at hi' ⊢ <;> exact ih u hi' x hx

/-! ### repeat counts -/

theorem Succ.facts [DOps D] [LawfulDOps D] {a b : Val D} (h : Succ a b) : StepFacts a.pv b.pv := by
  obtain ⟨_, ds, ds', h⟩ := h
  exact nextValue_ok h

theorem chain_length_le [DOps D] [LawfulDOps D] : ∀ (rest : List (Val D)) (x : Val D), ChainFrom Succ x rest →
    1 ≤ x.pv.repeat_ → (rest.length : Int) + 1 ≤ x.pv.repeat_ := by
  intro rest
  induction rest with
  | nil => intro x _ h; simpa using h
  | cons y r ih =>
    intro x hc h1
    obtain ⟨hs, hc'⟩ := hc
    have hf := hs.facts
    have hne := hf.rep_ne
    have hrep := hf.rep
    have hgt : x.pv.repeat_ > 1 := by omega
    simp only [hgt, if_true] at hrep
    have := ih y hc' (by omega)
    simp only [List.length_cons]
    omega

theorem after_succ [DOps D] (n : Nat) (u : UQ D) : after (n + 1) u = after n (next u).2 := rfl

theorem proj_cons_ne {i : Nat} {v : Val D} (l : List (Val D)) (h : v.id ≠ i) : proj i (v :: l) = proj i l := by
  simp only [proj, List.filter_cons]
  have : (v.id == i) = false := by simpa using h
  simp [this]

theorem proj_cons_eq {i : Nat} {v : Val D} (l : List (Val D)) (h : v.id = i) : proj i (v :: l) = v :: proj i l := by
  simp [proj, h]

/-- when the queue has run empty every queued value had a bounded repeat count and was emitted
exactly that many times -/
theorem exhausted_count [DOps D] [LawfulDOps D] (n : Nat) : ∀ (u : UQ D), Inv u → (after n u).vals = [] →
    ∀ x ∈ u.vals, 1 ≤ x.pv.repeat_ ∧ ((proj x.id (emits n u)).length : Int) = x.pv.repeat_ := by
  induction n with
  | zero => intro u _ he x hx; simp only [after] at he; rw [he] at hx; simp at hx
  | succ n ih =>
    intro u hi he x hx
    rw [after_succ] at he
    rw [emits_succ]
    have hi' := next_inv hi
    cases next_cases u hi.wf with
    | empty hq h => rw [hq] at hx; simp at hx
    | dropped v rest hv hmin hrep u' h hvals hw hnid =>
      rw [h] at hi' he ⊢
      simp only at he ⊢
      have hnd := hi.nodup
      simp only [UQ.ids, hv] at hnd
      rw [hv] at hx
      rcases List.mem_cons.mp hx with rfl | hx
      · have : proj x.id (emits n u') = [] := by
          apply proj_eq_nil_of_not_mem n u' hi'
          simp only [UQ.ids, hvals]
          exact (List.nodup_cons.mp hnd).1
        rw [proj_cons_eq _ rfl, this]
        simp [hrep]
      · rw [proj_cons_ne _ (fun h => id_ne_of_nodup hnd hx h.symm)]
        exact ih u' hi' he x (by rw [hvals]; exact hx)
    | requeued v rest hv hmin v' hid hstep hsucc u' h a b hab hvals hw hnid =>
      rw [h] at hi' he ⊢
      simp only at he ⊢
      have hnd := hi.nodup
      simp only [UQ.ids, hv] at hnd
      rw [hv] at hx
      rcases List.mem_cons.mp hx with rfl | hx
      · have hv'mem : v' ∈ u'.vals := by rw [hvals]; simp
        obtain ⟨h1, h2⟩ := ih u' hi' he v' hv'mem
        rw [proj_cons_eq _ rfl, ← hid]
        have hne := hstep.rep_ne
        have hrep := hstep.rep
        simp only [List.length_cons]
        split at hrep <;> omega
      · rw [proj_cons_ne _ (fun h => id_ne_of_nodup hnd hx h.symm)]
        refine ih u' hi' he x ?_
        rw [hvals]
        rw [hab] at hx
        rcases List.mem_append.mp hx with hx | hx <;> simp [hx]
    | err v rest hv pv' ds' hnv h => exact absurd h (next_no_err hi).1
    | stuck v rest hv h =>
      rcases h with ⟨h, _⟩ | h | h <;> rw [h] at hi' he ⊢ <;> exact ih u hi' he x hx

/-- a value with an unbounded repeat count (`repeat ≤ 0`) is never dropped -/
theorem unbounded_stays [DOps D] [LawfulDOps D] (n : Nat) : ∀ (u : UQ D), Inv u → ∀ x ∈ u.vals,
    x.pv.repeat_ ≤ 0 → ∃ y ∈ (after n u).vals, y.id = x.id ∧ y.pv.repeat_ = x.pv.repeat_ := by
  induction n with
  | zero => intro u _ x hx _; exact ⟨x, hx, rfl, rfl⟩
  | succ n ih =>
    intro u hi x hx hr
    rw [after_succ]
    have hi' := next_inv hi
    cases next_cases u hi.wf with
    | empty hq h => rw [hq] at hx; simp at hx
    | dropped v rest hv hmin hrep u' h hvals hw hnid =>
      rw [h] at hi' ⊢
      rw [hv] at hx
      rcases List.mem_cons.mp hx with rfl | hx
      · omega
      · exact ih u' hi' x (by rw [hvals]; exact hx) hr
    | requeued v rest hv hmin v' hid hstep hsucc u' h a b hab hvals hw hnid =>
      rw [h] at hi' ⊢
      rw [hv] at hx
      rcases List.mem_cons.mp hx with rfl | hx
      · have hv'mem : v' ∈ u'.vals := by rw [hvals]; simp
        have hrep := hstep.rep
        have hng : ¬ x.pv.repeat_ > 1 := by omega
        simp only [hng, if_false] at hrep
        obtain ⟨y, hy, h1, h2⟩ := ih u' hi' v' hv'mem (by omega)
        exact ⟨y, hy, h1.trans hid, h2.trans hrep⟩
      · refine ih u' hi' x ?_ hr
        rw [hvals]
        rw [hab] at hx
        rcases List.mem_append.mp hx with hx | hx <;> simp [hx]
    | err v rest hv pv' ds' hnv h => exact absurd h (next_no_err hi).1
    | stuck v rest hv h =>
      rcases h with ⟨h, _⟩ | h | h <;> rw [h] at hi' ⊢ <;> exact ih u hi' x hx hr

/-! ### the sync marker -/

theorem insert_keeps_before {α : Type} {a b pre post : List α} {s : α} (x : α)
    (h : a ++ b = pre ++ s :: post) :
    ∃ pre2 post2, a ++ x :: b = pre2 ++ s :: post2 ∧ ∀ y ∈ pre, y ∈ pre2 := by
  rcases List.append_eq_append_iff.mp h with ⟨c, h1, h2⟩ | ⟨c, h1, h2⟩
  · -- pre = a ++ c, b = c ++ s :: post
    exact ⟨a ++ x :: c, post, by simp [h2], by intro y hy; rw [h1] at hy; rcases List.mem_append.mp hy with hy | hy <;> simp [hy]⟩
  · -- a = pre ++ c, s :: post = c ++ b
    cases c with
    | nil =>
      simp only [List.nil_append] at h2
      exact ⟨pre ++ [x], post, by simp [h1, ← h2], by intro y hy; simp [hy]⟩
    | cons c0 cs =>
      simp only [List.cons_append, List.cons.injEq] at h2
      obtain ⟨rfl, rfl⟩ := h2
      exact ⟨pre, cs ++ x :: b, by simp [h1], fun y hy => hy⟩

/-- A value `s` is emitted only after everything queued in front of it has been emitted: values
re-inserted later never overtake what was already queued in front of `s`. -/
theorem emitted_after_front [DOps D] [LawfulDOps D] (n : Nat) : ∀ (u : UQ D), Inv u →
    ∀ (pre post : List (Val D)) (s : Val D), u.vals = pre ++ s :: post →
    ∀ (l1 l2 : List (Val D)) (e : Val D), emits n u = l1 ++ e :: l2 → e.id = s.id →
    ∀ x ∈ pre, x.id ∈ l1.map (·.id) := by
  induction n with
  | zero => intro u _ pre post s _ l1 l2 e he; simp [emits, results] at he
  | succ n ih =>
    intro u hi pre post s hvs l1 l2 e he heid x hx
    rw [emits_succ] at he
    have hi' := next_inv hi
    have hnd := hi.nodup
    -- the head of the queue is the head of `pre`
    cases pre with
    | nil => simp at hx
    | cons p pre' =>
      have hps : p.id ≠ s.id := by
        simp only [UQ.ids, hvs, List.map_cons, List.map_append, List.cons_append, List.nodup_cons,
          List.mem_append, List.mem_cons, not_or] at hnd
        exact hnd.1.2.1
      cases next_cases u hi.wf with
      | empty hq h => rw [hq] at hvs; simp at hvs
      | dropped v rest hv hmin hrep u' h hvals hw hnid =>
        rw [h] at hi' he
        simp only at he
        rw [hv] at hvs
        simp only [List.cons_append, List.cons.injEq] at hvs
        obtain ⟨rfl, hrest⟩ := hvs
        cases l1 with
        | nil =>
          simp only [List.nil_append, List.cons.injEq] at he
          exact absurd (he.1 ▸ heid) hps
        | cons c l1' =>
          simp only [List.cons_append, List.cons.injEq] at he
          obtain ⟨rfl, he⟩ := he
          rcases List.mem_cons.mp hx with rfl | hx
          · simp
          · have := ih u' hi' pre' post s (by rw [hvals, hrest]) l1' l2 e he heid x hx
            simp only [List.map_cons, List.mem_cons]
            exact Or.inr this
      | requeued v rest hv hmin v' hid hstep hsucc u' h a b hab hvals hw hnid =>
        rw [h] at hi' he
        simp only at he
        rw [hv] at hvs
        simp only [List.cons_append, List.cons.injEq] at hvs
        obtain ⟨rfl, hrest⟩ := hvs
        obtain ⟨pre2, post2, hnew, hsub⟩ := insert_keeps_before v' (hab ▸ hrest)
        cases l1 with
        | nil =>
          simp only [List.nil_append, List.cons.injEq] at he
          exact absurd (he.1 ▸ heid) hps
        | cons c l1' =>
          simp only [List.cons_append, List.cons.injEq] at he
          obtain ⟨rfl, he⟩ := he
          rcases List.mem_cons.mp hx with rfl | hx
          · simp
          · have := ih u' hi' pre2 post2 s (by rw [hvals, hnew]) l1' l2 e he heid x (hsub x hx)
            simp only [List.map_cons, List.mem_cons]
            exact Or.inr this
      | err v rest hv pv' ds' hnv h => exact absurd h (next_no_err hi).1
      | stuck v rest hv h =>
        rcases h with ⟨h, _⟩ | h | h <;> rw [h] at hi' he <;>
          exact ih u hi' (p :: pre') post s hvs l1 l2 e he heid x hx

/-! ### `New` and `reset` establish the invariant -/

theorem validPV_withTs [DOps D] {v : Val D} (h : ValidPV v.pv) : ValidPV v.withTs.pv := by
  unfold Val.withTs
  split
  · exact h
  · rcases h with h | ⟨_, hk⟩
    · exact Or.inl h
    · refine Or.inr ⟨?_, hk⟩
      intro t ht
      simp only [Option.some.injEq] at ht
      subst ht
      exact ⟨by decide, by decide, by decide⟩

/-- the bound `Latest()` relies on -/
def LatestOk (u : UQ D) : Prop := ∀ x ∈ u.vals, x.t ≤ u.latest

theorem add_spec [DOps D] {u : UQ D} (hi : Inv u) (hl : LatestOk u) (pv : PVal D) (own : Option Draws)
    (hv : ValidPV pv) :
    ∃ u', add u pv own = .ok u' ∧ Inv u' ∧ LatestOk u' ∧ u'.nid = u.nid + 1 ∧ u'.g = u.g ∧
      (∃ a b, u.vals = a ++ b ∧ u'.vals = a ++ ({ pv := pv, own := own, id := u.nid } : Val D).withTs :: b) ∧
      u'.q = ins ({ pv := pv, own := own, id := u.nid } : Val D).withTs
                 ({ pv := pv, own := own, id := u.nid } : Val D).withTs.t u.q ∧
      u.latest ≤ u'.latest := by
  unfold add
  rw [addValue_spec (u := { u with nid := u.nid + 1 }) hi.wf]
  refine ⟨_, rfl, ?_, ?_, rfl, rfl, ?_, rfl, ?_⟩
  · obtain ⟨a, b, hab, hins⟩ := ins_flatten ({ pv := pv, own := own, id := u.nid } : Val D).withTs
      ({ pv := pv, own := own, id := u.nid } : Val D).withTs.t u.q
    have hab' : u.vals = a ++ b := hab
    refine ⟨ins_wf (withTs_isSome _) rfl hi.wf, ?_, ?_, ?_⟩
    · have hnd := hi.nodup
      simp only [UQ.ids, UQ.vals, hins, List.map_append, List.map_cons, withTs_id] at hnd ⊢
      rw [show u.q.flatten = a ++ b from hab] at hnd
      simp only [List.map_append] at hnd
      have hp : (List.map (·.id) a ++ u.nid :: List.map (·.id) b).Perm
          (u.nid :: (List.map (·.id) a ++ List.map (·.id) b)) := List.perm_middle
      refine hp.nodup_iff.mpr (List.nodup_cons.mpr ⟨?_, hnd⟩)
      intro hmem
      rw [← List.map_append, ← hab'] at hmem
      obtain ⟨x, hx, hxid⟩ := List.mem_map.mp hmem
      have := hi.fresh x hx
      omega
    · intro x hx
      simp only [UQ.vals, hins] at hx
      rcases List.mem_append.mp hx with hx | hx
      · have := hi.fresh x (by rw [hab']; simp [hx]); simp only; omega
      · rcases List.mem_cons.mp hx with rfl | hx
        · simp [withTs_id]
        · have := hi.fresh x (by rw [hab']; simp [hx]); simp only; omega
    · intro x hx
      simp only [UQ.vals, hins] at hx
      rcases List.mem_append.mp hx with hx | hx
      · exact hi.valid x (by rw [hab']; simp [hx])
      · rcases List.mem_cons.mp hx with rfl | hx
        · exact validPV_withTs hv
        · exact hi.valid x (by rw [hab']; simp [hx])
  · obtain ⟨a, b, hab, hins⟩ := ins_flatten ({ pv := pv, own := own, id := u.nid } : Val D).withTs
      ({ pv := pv, own := own, id := u.nid } : Val D).withTs.t u.q
    have hab' : u.vals = a ++ b := hab
    intro x hx
    simp only [UQ.vals, hins] at hx
    simp only
    have hold : ∀ y ∈ u.vals, y.t ≤ (if ({ pv := pv, own := own, id := u.nid } : Val D).withTs.t > u.latest
        then ({ pv := pv, own := own, id := u.nid } : Val D).withTs.t else u.latest) := by
      intro y hy
      have := hl y hy
      split <;> omega
    rcases List.mem_append.mp hx with hx | hx
    · exact hold x (by rw [hab']; simp [hx])
    · rcases List.mem_cons.mp hx with rfl | hx
      · split <;> omega
      · exact hold x (by rw [hab']; simp [hx])
  · exact ins_flatten _ _ u.q
  · simp only
    split <;> omega

theorem foldlM_add_spec [DOps D] : ∀ (values : List (PVal D × Option Draws)) (u : UQ D), Inv u → LatestOk u →
    (∀ x ∈ values, ValidPV x.1) →
    ∃ u', values.foldlM (fun u x => add u x.1 x.2) u = .ok u' ∧ Inv u' ∧ LatestOk u' ∧
      u'.nid = u.nid + values.length ∧ u'.g = u.g ∧ u'.vals.Perm (u.vals ++ cfgVals u.nid values) := by
  intro values
  induction values with
  | nil =>
    intro u hi hl _
    exact ⟨u, rfl, hi, hl, rfl, rfl, by simp [cfgVals]⟩
  | cons x xs ih =>
    intro u hi hl hv
    obtain ⟨u1, h1, hi1, hl1, hn1, hg1, ⟨a, b, hab, hab1⟩, _, _⟩ :=
      add_spec hi hl x.1 x.2 (hv x (List.mem_cons_self ..))
    obtain ⟨u2, h2, hi2, hl2, hn2, hg2, hp2⟩ := ih u1 hi1 hl1 (fun y hy => hv y (List.mem_cons_of_mem _ hy))
    refine ⟨u2, ?_, hi2, hl2, by rw [hn2, hn1]; simp only [List.length_cons]; omega, hg2.trans hg1, ?_⟩
    · simp only [List.foldlM_cons]
      show (add u x.1 x.2).bind _ = _
      rw [h1]
      exact h2
    · refine hp2.trans ?_
      rw [hn1, hab1, hab]
      simp only [cfgVals, List.append_assoc]
      refine List.Perm.append_left a ?_
      exact List.perm_middle.symm.trans (by simp)

theorem inv_empty [DOps D] (g : Draws) : Inv ({ g := g } : UQ D) :=
  ⟨⟨by simp, by simp⟩, by simp [UQ.ids, UQ.vals], by simp [UQ.vals], by simp [UQ.vals]⟩

/-- `queue.New` on an accepted configuration -/
theorem new_spec [DOps D] (g : Draws) (values : List (PVal D × Option Draws)) (hv : ∀ x ∈ values, ValidPV x.1) :
    ∃ u, new g values = .ok u ∧ Inv u ∧ LatestOk u ∧ u.nid = values.length ∧ u.g = g ∧
      u.vals.Perm (cfgVals 0 values) := by
  obtain ⟨u, h, hi, hl, hn, hg, hp⟩ := foldlM_add_spec values ({ g := g } : UQ D) (inv_empty g)
    (by intro x hx; simp [UQ.vals] at hx) hv
  exact ⟨u, h, hi, hl, by simpa using hn, hg, by simpa [UQ.vals] using hp⟩

/-- `Client.reset` with sync injection: the sync marker is queued behind every configured value -/
theorem reset_spec [DOps D] (g : Draws) (values : List (PVal D × Option Draws)) (hv : ∀ x ∈ values, ValidPV x.1) :
    ∃ u pre s, reset g values false = .ok u ∧ Inv u ∧ u.vals = pre ++ [s] ∧ pre.Perm (cfgVals 0 values) ∧
      s.id = values.length ∧ s.pv.repeat_ = 1 ∧ (∃ l, s.pv = syncValue l) ∧ u.g = g := by
  obtain ⟨u, h, hi, hl, hn, hg, hp⟩ := new_spec g values hv
  obtain ⟨u', h', hi', _, _, hg', _, hq, _⟩ := add_spec hi hl (syncValue u.latest) none (Or.inl rfl)
  have hs : (({ pv := syncValue u.latest, own := none, id := u.nid } : Val D).withTs) =
      { pv := syncValue u.latest, own := none, id := u.nid } := withTs_of_isSome (by simp [syncValue])
  rw [hs] at hq
  have ht : ({ pv := syncValue u.latest, own := none, id := u.nid } : Val D).t = u.latest := by
    simp [Val.t, syncValue]
  have hvals : u'.vals = u.vals ++ [{ pv := syncValue u.latest, own := none, id := u.nid }] := by
    simp only [UQ.vals, hq]
    exact ins_last _ _ hi.wf (by intro x hx; rw [ht]; exact hl x hx)
  refine ⟨u', u.vals, _, ?_, hi', hvals, hp, hn, rfl, ⟨_, rfl⟩, hg'.trans hg⟩
  unfold reset
  rw [h]
  simpa using h'

/-! ### `Same` is reflexive and transitive -/

theorem IntDist.Same.refl (a : IntDist) : a.Same a := by
  cases a <;> simp [IntDist.Same, OptsRel.refl]

theorem IntDist.Same.trans {a b c : IntDist} (h1 : a.Same b) (h2 : b.Same c) : a.Same c := by
  cases a <;> cases b <;> cases c <;> simp only [IntDist.Same] at h1 h2 ⊢
  · exact h2.trans h1
  · obtain ⟨r1, rfl⟩ := h1
    obtain ⟨r2, rfl⟩ := h2
    exact ⟨r1.trans r2, rfl⟩

theorem IntDist.Same.const {a b : IntDist} (h : a.Same b) (hc : a = .const) : b = .const := by
  subst hc; cases b <;> simp [IntDist.Same] at h ⊢

theorem UintDist.Same.refl (a : UintDist) : a.Same a := by
  cases a <;> simp [UintDist.Same, OptsRel.refl]

theorem UintDist.Same.trans {a b c : UintDist} (h1 : a.Same b) (h2 : b.Same c) : a.Same c := by
  cases a <;> cases b <;> cases c <;> simp only [UintDist.Same] at h1 h2 ⊢
  · exact h2.trans h1
  · obtain ⟨r1, rfl⟩ := h1
    obtain ⟨r2, rfl⟩ := h2
    exact ⟨r1.trans r2, rfl⟩

theorem UintDist.Same.const {a b : UintDist} (h : a.Same b) (hc : a = .const) : b = .const := by
  subst hc; cases b <;> simp [UintDist.Same] at h ⊢

theorem DblDist.Same.refl (a : DblDist D) : a.Same a := by
  cases a <;> simp [DblDist.Same, OptsRel.refl]

theorem DblDist.Same.trans {a b c : DblDist D} (h1 : a.Same b) (h2 : b.Same c) : a.Same c := by
  cases a <;> cases b <;> cases c <;> simp only [DblDist.Same] at h1 h2 ⊢
  · exact ⟨h2.1.trans h1.1, h2.2.1.trans h1.2.1, h2.2.2.1.trans h1.2.2.1, h2.2.2.2.trans h1.2.2.2⟩
  · obtain ⟨r1, rfl⟩ := h1
    obtain ⟨r2, rfl⟩ := h2
    exact ⟨r1.trans r2, rfl⟩

theorem DblDist.Same.const {a b : DblDist D} (h : a.Same b) (hc : a = .const) : b = .const := by
  subst hc; cases b <;> simp [DblDist.Same] at h ⊢

theorem ListDist.Same.refl {α : Type} (a : ListDist α) : a.Same a := by
  cases a <;> simp [ListDist.Same, OptsRel.refl]

theorem ListDist.Same.trans {α : Type} {a b c : ListDist α} (h1 : a.Same b) (h2 : b.Same c) : a.Same c := by
  cases a <;> cases b <;> cases c <;> simp only [ListDist.Same] at h1 h2 ⊢
  · obtain ⟨r1, rfl⟩ := h1
    obtain ⟨r2, rfl⟩ := h2
    exact ⟨r1.trans r2, rfl⟩

theorem ListDist.Same.const {α : Type} {a b : ListDist α} (h : a.Same b) (hc : a = .const) : b = .const := by
  subst hc; cases b <;> simp [ListDist.Same] at h ⊢

theorem Kind.Same.refl (a : Kind D) : a.Same a := by
  cases a <;> simp [Kind.Same, IntDist.Same.refl, UintDist.Same.refl, DblDist.Same.refl, ListDist.Same.refl]

theorem Kind.Same.trans {a b c : Kind D} (h1 : a.Same b) (h2 : b.Same c) : a.Same c := by
  cases a <;> cases b <;> simp only [Kind.Same] at h1 <;> cases c <;> simp only [Kind.Same] at h2 ⊢
  · exact ⟨h1.1.trans h2.1, fun hc => (h2.2 (h1.1.const hc)).trans (h1.2 hc)⟩
  · exact ⟨h1.1.trans h2.1, fun hc => (h2.2 (h1.1.const hc)).trans (h1.2 hc)⟩
  · exact ⟨h1.1.trans h2.1, fun hc => (h2.2 (h1.1.const hc)).trans (h1.2 hc)⟩
  · exact ⟨h1.1.trans h2.1, fun hc => (h2.2 (h1.1.const hc)).trans (h1.2 hc)⟩
  · exact ⟨h1.1.trans h2.1, fun hc => (h2.2 (h1.1.const hc)).trans (h1.2 hc)⟩
  · exact ⟨h1.1.trans h2.1, fun hc => (h2.2 (h1.1.const hc)).trans (h1.2 hc)⟩
  · exact h2.trans h1

/-! ### chains -/

theorem chain_all {α : Type} {R : α → α → Prop} {P : α → α → Prop} (hR : ∀ a b, R a b → P a b)
    (htrans : ∀ a b c, P a b → P b c → P a c) :
    ∀ (l : List α) (x : α), ChainFrom R x l → ∀ y ∈ l, P x y := by
  intro l
  induction l with
  | nil => intro x _ y hy; simp at hy
  | cons z l ih =>
    intro x hc y hy
    obtain ⟨h1, h2⟩ := hc
    rcases List.mem_cons.mp hy with rfl | hy
    · exact hR _ _ h1
    · exact htrans _ _ _ (hR _ _ h1) (ih z h2 y hy)

theorem chain_pred {α : Type} {R : α → α → Prop} : ∀ (l : List α) (x : α), ChainFrom R x l →
    ∀ y ∈ l, ∃ a, R a y := by
  intro l
  induction l with
  | nil => intro x _ y hy; simp at hy
  | cons z l ih =>
    intro x hc y hy
    obtain ⟨h1, h2⟩ := hc
    rcases List.mem_cons.mp hy with rfl | hy
    · exact ⟨x, h1⟩
    · exact ih z h2 y hy

theorem chain_adjacent {α : Type} {R : α → α → Prop} : ∀ (l : List α) (x : α), ChainFrom R x l →
    ∀ (l1 l2 : List α) (a b : α), x :: l = l1 ++ a :: b :: l2 → R a b := by
  intro l
  induction l with
  | nil =>
    intro x _ l1 l2 a b h
    have := congrArg List.length h
    simp at this
    omega
  | cons z l ih =>
    intro x hc l1 l2 a b h
    obtain ⟨h1, h2⟩ := hc
    cases l1 with
    | nil =>
      simp only [List.nil_append, List.cons.injEq] at h
      obtain ⟨rfl, rfl, _⟩ := h
      exact h1
    | cons c l1' =>
      simp only [List.cons_append, List.cons.injEq] at h
      exact ih z h2 l1' l2 a b h.2

end FQ
end Gnmi
