import Gnmi.Lemmas.SubscribeOrder
/-!
# ONCE / POLL with concurrent writers: the per-walk invariant

`WalkInv n` speaks about the responses after position `n` of `sent` (`n = 0` for ONCE and
for the first round of POLL; `n` = number of responses sent before the trigger for a later
POLL round).  It is preserved by every step except a POLL trigger of the subscriber itself.
-/
namespace Gnmi
namespace SubLTS
set_option linter.unusedSimpArgs false
set_option linter.unusedSectionVars false
set_option linter.unnecessarySimpa false

section
variable {K V T R : Type} [DecidableEq K] [DecidableEq R]

/-- the pipeline (as labels) from response number `n` on -/
def labsFrom (n : Nat) (b : Sub K V R) : List (Lab K) :=
  (b.sent.drop n).map labR ++ sndLabs b.snd ++ b.items.map labI

/-- the current walk has not inserted its sync marker yet -/
def wdue (b : Sub K V R) : Nat := if b.walker = .done then 0 else 1

structure WalkInv (n : Nat) (sys : Sys K T R) (rq : Req K T R) (sh : Shared K V T R)
    (b : Sub K V R) : Prop where
  len : n ≤ b.sent.length
  pre_since : b.pc.pre = true → b.since = []
  since_present : b.walker ≠ .done → ∀ k ∈ b.since, sh.present k = true ∧ k ∈ sh.keys
  cnt : b.status = none → (labsFrom n b).count .sync + wdue b = 1
  last : b.status = none → b.walker = .done → (labsFrom n b).getLast? = some .sync
  cov : rq.updatesOnly = false → b.status = none → ∀ k ∈ b.since, rq.walks k = true →
    rq.allow (sys.tgt k) = true →
    (∃ todo vis, b.walker = .walking todo vis ∧ k ∈ todo) ∨ Lab.upd k ∈ labsFrom n b

theorem walkInv_init (sys : Sys K T R) (rq : Req K T R) (sh : Shared K V T R) :
    WalkInv 0 sys rq sh ({} : Sub K V R) := by
  constructor <;> simp [labsFrom, wdue, Sub.items, sndLabs]

theorem labsFrom_congr (n : Nat) {b b' : Sub K V R} (h1 : b'.sent = b.sent) (h2 : b'.snd = b.snd)
    (h3 : b'.q = b.q) : labsFrom n b' = labsFrom n b := by
  unfold labsFrom Sub.items; rw [h1, h2, h3]

theorem labsFrom_ins (n : Nat) (b : Sub K V R) (i : Item K R) :
    labsFrom n (b.ins i) = labsFrom n b ∨
      (labsFrom n (b.ins i) = labsFrom n b ++ [labI i] ∧ b.closed = false ∧
        ¬ (i.coal = true ∧ i ∈ b.items)) := by
  unfold labsFrom
  rw [ins_sent, ins_snd]
  rcases ins_items b i with e | ⟨e, hc, hn⟩
  · rw [e]; exact Or.inl rfl
  · rw [e]; exact Or.inr ⟨by simp, hc, hn⟩

theorem not_closed_of_running {rq : Req K T R} {b : Sub K V R} (hph : Phase rq b)
    (hst : b.status = none) (hw : b.walker ≠ .done) : b.closed = false := by
  cases hc : b.closed with
  | false => rfl
  | true =>
    rcases hph.closed_why hc with e | ⟨_, e⟩
    · exact absurd hst (by rw [hph.status_fin]; simp [e])
    · exact absurd e hw

theorem getLast?_remove {α : Type} {pre post : List α} {x s : α} (hx : x ≠ s)
    (h : (pre ++ x :: post).getLast? = some s) : (pre ++ post).getLast? = some s := by
  cases post with
  | nil =>
    rw [show pre ++ [x] = pre ++ [x] from rfl, List.getLast?_concat] at h
    exact absurd (Option.some.inj h) hx
  | cons y post =>
    simp only [List.getLast?_append, List.getLast?_cons_cons] at h ⊢
    exact h

section
variable {sys : Sys K T R} {rq : Req K T R} {sh : Shared K V T R} {b b' : Sub K V R} {l : SLabel K}
  {n : Nat}

theorem wi_same (hi : WalkInv n sys rq sh b) (hst : b'.status = b.status)
    (hl : labsFrom n b' = labsFrom n b) (hw : b'.walker = b.walker) (hs : b'.since = b.since)
    (hlen : b.sent.length ≤ b'.sent.length) (hp : b'.pc.pre = true → b.pc.pre = true) :
    WalkInv n sys rq sh b' := by
  refine ⟨Nat.le_trans hi.len hlen, fun h => hs ▸ hi.pre_since (hp h), ?_, ?_, ?_, ?_⟩
  · rw [hw, hs]; exact hi.since_present
  · intro h; rw [hl]; unfold wdue; rw [hw]; exact hi.cnt (hst ▸ h)
  · intro h h'; rw [hl]; exact hi.last (hst ▸ h) (hw ▸ h')
  · intro hu h k hk; rw [hl, hw]; exact hi.cov hu (hst ▸ h) k (hs ▸ hk)

theorem wi_fin (hi : WalkInv n sys rq sh b) (hst : b'.status ≠ none)
    (hw : b'.walker = b.walker) (hs : b'.since = b.since)
    (hlen : b.sent.length ≤ b'.sent.length) (hp : b'.pc.pre = false) :
    WalkInv n sys rq sh b' := by
  refine ⟨Nat.le_trans hi.len hlen, fun h => (by rw [hp] at h; cases h), ?_,
    fun h => absurd h hst, fun h => absurd h hst, fun _ h => absurd h hst⟩
  rw [hw, hs]; exact hi.since_present

theorem drop_snoc {α : Type} {l : List α} {n : Nat} (h : n ≤ l.length) (a : α) :
    (l ++ [a]).drop n = l.drop n ++ [a] := List.drop_append_of_le_length h

theorem walkInv_local (hsw : sys.swap = false) (wf : sys.WF) (hnm : rq.mode ≠ .stream)
    (hph : Phase rq b) (hl : l ≠ .poll) (h : SubStep sys rq sh b l b')
    (hi : WalkInv n sys rq sh b) : WalkInv n sys rq sh b' := by
  have hreg : b.registered = false := by
    cases hr : b.registered with
    | false => rfl
    | true => exact absurd (hph.reg_open hr).2 hnm
  cases h
  case fin l st why =>
    exact wi_fin hi (by simp [Sub.finish]) rfl rfl (Nat.le_refl _) rfl
  case h0 hpc _ =>
    exact wi_same hi rfl (labsFrom_congr n rfl rfl rfl) rfl rfl (Nat.le_refl _) (fun _ => by rw [hpc]; rfl)
  case h1 hpc _ =>
    exact wi_same hi rfl (labsFrom_congr n rfl rfl rfl) rfl rfl (Nat.le_refl _) (fun _ => by rw [hpc]; rfl)
  case h2 hpc _ =>
    exact wi_same hi rfl (labsFrom_congr n rfl rfl rfl) rfl rfl (Nat.le_refl _) (fun _ => by rw [hpc]; rfl)
  case h3 hpc _ =>
    exact wi_same hi rfl (labsFrom_congr n rfl rfl rfl) rfl rfl (Nat.le_refl _) (fun _ => by rw [hpc]; rfl)
  case h4poll hpc _ _ =>
    exact wi_same hi rfl (labsFrom_congr n rfl rfl rfl) rfl rfl (Nat.le_refl _) (fun _ => by rw [hpc]; rfl)
  case h4stream _ hm _ => exact absurd hm hnm
  case h4sync _ hm _ => exact absurd hm hnm
  case register hpc _ => exact absurd (hph.reg_mode hpc) hnm
  case spawnUO _ hm _ => exact absurd hm hnm
  case spawn hpc _ =>
    have hsnd : b.snd = .off := hph.pre_snd (by rw [hpc]; rfl)
    have hwi : b.walker = .idle := hph.pre_walker (by rw [hpc]; rfl)
    have hst : b.status = none := hph.status_fin.2 (by rw [hpc]; intro e; cases e)
    have hL : labsFrom n ({ (b.startWalk sh rq) with
        snd := .idle, held := heldNow sh,
        since := if b.registered then b.since else sh.keys.filter sh.present,
        pc := if sys.swap = true ∧ rq.mode = .stream then .reg else .run } : Sub K V R) = labsFrom n b := by
      unfold labsFrom Sub.items; simp [hsnd, sndLabs, Sub.startWalk]
    refine ⟨hi.len, ?_, ?_, ?_, ?_, ?_⟩
    · intro hp; simp [hsw, HPc.pre] at hp
    · intro _ k hk
      simp only [hreg, Bool.false_eq_true, if_false, List.mem_filter] at hk
      exact ⟨hk.2, hk.1⟩
    · intro _
      rw [hL]
      have := hi.cnt hst
      simpa [wdue, hwi, Sub.startWalk] using this
    · intro _ hw; simp [Sub.startWalk] at hw
    · intro hu _ k hk hw ha
      simp only [hreg, Bool.false_eq_true, if_false, List.mem_filter] at hk
      exact Or.inl ⟨snapshot sh rq, [], by simp [Sub.startWalk, hu], mem_snapshot hk.1 hk.2 hw⟩
  case visit k0 todo vis hwk hst huo hp0 hw0 _ =>
    have hL := labsFrom_ins n b (.handle k0 (sh.gen k0))
    have hL' : labsFrom n ({ b.ins (.handle k0 (sh.gen k0)) with
        walker := .walking (todo.filter (· ≠ k0)) (k0 :: vis) } : Sub K V R) =
        labsFrom n (b.ins (.handle k0 (sh.gen k0))) := labsFrom_congr n rfl rfl rfl
    have hclosed := not_closed_of_running hph hst (by rw [hwk]; intro e; cases e)
    refine ⟨by simpa using hi.len, fun hp => by simpa using hi.pre_since (by simpa using hp), ?_, ?_, ?_, ?_⟩
    · intro _ k hk
      exact hi.since_present (by rw [hwk]; intro e; cases e) k (by simpa using hk)
    · intro _
      have := hi.cnt hst
      rw [hL']
      simp only [wdue, hwk] at this ⊢
      rcases hL with e | ⟨e, _, _⟩
      · rw [e]; simpa using this
      · rw [e, List.count_append]; simpa [labI] using this
    · intro _ hw; simp at hw
    · intro hu _ k hk hw ha
      rw [hL']
      by_cases e : k0 = k
      · subst e
        refine Or.inr ?_
        unfold labsFrom
        rcases ins_items_open b (.handle k0 (sh.gen k0)) hclosed with ⟨_, hm, e⟩ | ⟨_, e⟩
        · rw [e]; exact List.mem_append_right _ (List.mem_map.2 ⟨_, hm, rfl⟩)
        · rw [e]; simp [labI]
      · rcases hi.cov hu hst k (by simpa using hk) hw ha with ⟨t, v, hwk', hm⟩ | hc
        · rw [hwk] at hwk'; cases hwk'
          exact Or.inl ⟨_, _, rfl, by simp [hm, Ne.symm e]⟩
        · refine Or.inr ?_
          rcases hL with e' | ⟨e', _, _⟩
          · rw [e']; exact hc
          · rw [e']; exact List.mem_append_left _ hc
  case finish vis hwk hst =>
    have hL := labsFrom_ins n b .syncMarker
    have hL' : labsFrom n ({ b.ins .syncMarker with
        walker := .done, closed := (b.ins .syncMarker).closed || decide (rq.mode = .once) } : Sub K V R) =
        labsFrom n (b.ins .syncMarker) := labsFrom_congr n rfl rfl rfl
    have hclosed := not_closed_of_running hph hst (by rw [hwk]; intro e; cases e)
    have hc0 : (labsFrom n b).count .sync = 0 := by
      have := hi.cnt hst; simp only [wdue, hwk] at this; simpa using this
    have happ : labsFrom n (b.ins .syncMarker) = labsFrom n b ++ [.sync] := by
      unfold labsFrom
      rw [ins_sent, ins_snd]
      rcases ins_items_open b .syncMarker hclosed with ⟨_, hm, _⟩ | ⟨_, e⟩
      · exfalso
        have : Lab.sync ∈ labsFrom n b :=
          List.mem_append_right _ (List.mem_map.2 ⟨_, hm, rfl⟩)
        have := List.count_pos_iff.2 this
        omega
      · rw [e]; simp [labI]
    refine ⟨by simpa using hi.len, fun hp => by simpa using hi.pre_since (by simpa using hp), ?_, ?_, ?_, ?_⟩
    · intro hx; exact absurd rfl hx
    · intro _
      rw [hL', happ, List.count_append, hc0]; simp [wdue]
    · intro _ _
      rw [hL', happ]; exact List.getLast?_concat
    · intro hu _ k hk hw ha
      rw [hL', happ]
      rcases hi.cov hu hst k (by simpa using hk) hw ha with ⟨t, v, hwk', hm⟩ | hc
      · rw [hwk] at hwk'; cases hwk'; cases hm
      · exact Or.inr (List.mem_append_left _ hc)
  case poll => exact absurd rfl hl
  case next i d rest hs hq =>
    refine wi_same hi rfl ?_ rfl rfl (Nat.le_refl _) (fun h => h)
    unfold labsFrom Sub.items; simp [hs, hq, sndLabs]
  case buildSync i d hs hmk =>
    refine wi_same hi rfl ?_ rfl rfl (Nat.le_refl _) (fun h => h)
    cases i <;> simp [mkResp] at hmk
    unfold labsFrom; simp [hs, sndLabs, labI, Sub.items]
  case buildArm i d r t hs hmk _ =>
    refine wi_same hi rfl ?_ rfl rfl (Nat.le_refl _) (fun h => h)
    unfold labsFrom; simp [hs, sndLabs, mkResp_lab hmk, Sub.items]
  case buildDrop i d r t hs hmk hd _ =>
    obtain ⟨_, hst⟩ := pc_run_of_snd hph (by rw [hs]; intro e; cases e) (by rw [hs]; intro e; cases e)
    have e1 : labsFrom n b = (b.sent.drop n).map labR ++ labI i :: b.items.map labI := by
      unfold labsFrom; simp [hs, sndLabs]
    have e2 : labsFrom n ({ b with snd := .idle } : Sub K V R) =
        (b.sent.drop n).map labR ++ b.items.map labI := by
      unfold labsFrom; simp [sndLabs, Sub.items]
    have hne := (mkResp_ne_sync hmk).2
    have hls : labI i ≠ .sync := fun e => hne (labI_sync e)
    refine ⟨hi.len, hi.pre_since, hi.since_present, ?_, ?_, ?_⟩
    · intro _
      have := hi.cnt hst
      rw [e2]; rw [e1] at this
      simp only [List.count_append, List.count_cons, wdue] at this ⊢
      have : (labI i == Lab.sync) = false := by simpa using hls
      simp_all
    · intro _ hw
      have := hi.last hst hw
      rw [e2]; rw [e1] at this
      exact getLast?_remove hls this
    · intro hu _ k hk hw ha
      rcases hi.cov hu hst k hk hw ha with hc | hc
      · exact Or.inl hc
      · refine Or.inr ?_
        rw [e2]; rw [e1] at hc
        have hne : labI i ≠ .upd k := by
          intro e
          have haff : i.aff sys k = true := by
            cases i <;> simp_all [labI, Item.aff]
          rw [mkResp_denied_noaff wf hmk hd ha] at haff; cases haff
        rcases List.mem_append.1 hc with hc | hc
        · exact List.mem_append_left _ hc
        · rcases List.mem_cons.1 hc with hc | hc
          · exact absurd hc.symm hne
          · exact List.mem_append_right _ hc
  case sentSync _ hs =>
    refine wi_same hi rfl ?_ rfl rfl (by simp) (fun h => h)
    unfold labsFrom; simp [hs, sndLabs, Sub.items, drop_snoc hi.len, labR]
  case sentResp r _ hs _ =>
    refine wi_same hi rfl ?_ rfl rfl (by simp) (fun h => h)
    unfold labsFrom; simp [hs, sndLabs, Sub.items, drop_snoc hi.len]
  case sentEnd r _ hs _ =>
    exact wi_fin hi (by simp [Sub.finish]) rfl rfl (by simp [Sub.finish]) rfl
  case gateClose =>
    exact wi_same hi rfl (labsFrom_congr n rfl rfl rfl) rfl rfl (Nat.le_refl _) (fun h => h)
  case gateOpen =>
    exact wi_same hi rfl (labsFrom_congr n rfl rfl rfl) rfl rfl (Nat.le_refl _) (fun h => h)

end

theorem walkInv_shared [DecidableEq T] {sys : Sys K T R} {rq : Req K T R} {sh sh' : Shared K V T R}
    {b : Sub K V R} {l : ShLabel K V T R} {n : Nat} (hreg : b.registered = false)
    (h : shFire sys sh l = some sh') (hi : WalkInv n sys rq sh b) :
    WalkInv n sys rq sh' (b.onShared sys rq l) := by
  have hL : labsFrom n (b.onShared sys rq l) = labsFrom n b := by
    unfold labsFrom Sub.items
    rw [onShared_sent, onShared_snd, (onShared_unreg sys rq b l hreg).1]
  have hwd : ((b.onShared sys rq l).walker = .done) ↔ (b.walker = .done) := by
    cases l with
    | w2 u => cases u <;> simp only [Sub.onShared] <;> split <;> simp
    | _ => simp [Sub.onShared]
  have hwdue : wdue (b.onShared sys rq l) = wdue b := by unfold wdue; simp only [hwd]
  -- what happens to `since`, `todo`, `present`, `keys`
  have key : ∀ k, k ∈ (b.onShared sys rq l).since →
      k ∈ b.since ∧
      (b.walker ≠ .done → sh.present k = true → k ∈ sh.keys → sh'.present k = true ∧ k ∈ sh'.keys) ∧
      (∀ t v, b.walker = .walking t v → k ∈ t →
        ∃ t', (b.onShared sys rq l).walker = .walking t' v ∧ k ∈ t') := by
    intro k hk
    cases l with
    | tAdd t =>
      simp only [shFire, Option.some.injEq] at h; subst h
      exact ⟨hk, fun _ hp hkeys => ⟨hp, hkeys⟩, fun t v hw hm => ⟨t, hw, hm⟩⟩
    | w1Upd k0 v0 =>
      simp only [shFire, Option.ite_none_right_eq_some, Option.some.injEq] at h
      obtain ⟨_, rfl⟩ := h
      exact ⟨hk, fun _ hp hkeys => ⟨hp, hkeys⟩, fun t v hw hm => ⟨t, hw, hm⟩⟩
    | w1Quiet k0 v0 =>
      simp only [shFire, Option.ite_none_right_eq_some, Option.some.injEq] at h
      obtain ⟨_, rfl⟩ := h
      exact ⟨hk, fun _ hp hkeys => ⟨hp, hkeys⟩, fun t v hw hm => ⟨t, hw, hm⟩⟩
    | w1Add k0 v0 =>
      simp only [shFire, Option.ite_none_right_eq_some, Option.some.injEq] at h
      obtain ⟨_, rfl⟩ := h
      refine ⟨hk, fun _ hp hkeys => ⟨?_, ?_⟩, fun t v hw hm => ⟨t, hw, hm⟩⟩
      · show setFn sh.present k0 true k = true
        unfold setFn; split
        · rfl
        · exact hp
      · show k ∈ (if k0 ∈ sh.keys then sh.keys else sh.keys ++ [k0])
        split
        · exact hkeys
        · exact List.mem_append_left _ hkeys
    | w1Del ks =>
      simp only [shFire, Option.ite_none_right_eq_some, Option.some.injEq] at h
      obtain ⟨_, rfl⟩ := h
      have hk' : k ∈ (if b.walker = .done then b.since
          else b.since.filter (fun k => !decide (k ∈ ks))) := hk
      have hsub : k ∈ b.since ∧ (b.walker ≠ .done → k ∉ ks) := by
        split at hk'
        · next hd => exact ⟨hk', fun hn => absurd hd hn⟩
        · have := List.mem_filter.1 hk'
          exact ⟨this.1, fun _ => by simpa using this.2⟩
      refine ⟨hsub.1, fun hw hp hkeys => ⟨by simp [hp, hsub.2 hw], hkeys⟩, ?_⟩
      intro t v hw hm
      refine ⟨t.filter (fun k => !decide (k ∈ ks)), ?_, ?_⟩
      · show b.walker.filter _ = _; rw [hw]; rfl
      · have := hsub.2 (by rw [hw]; intro e; cases e)
        simp [hm, this]
    | w1Reg r =>
      simp only [shFire, Option.ite_none_right_eq_some, Option.some.injEq] at h
      obtain ⟨_, rfl⟩ := h
      have hk' : k ∈ (if b.walker = .done then b.since
          else b.since.filter (fun k => !sys.covers r k)) := hk
      have hsub : k ∈ b.since ∧ (b.walker ≠ .done → sys.covers r k = false) := by
        split at hk'
        · next hd => exact ⟨hk', fun hn => absurd hd hn⟩
        · have := List.mem_filter.1 hk'
          exact ⟨this.1, fun _ => by simpa using this.2⟩
      refine ⟨hsub.1, fun hw hp hkeys => ⟨by simp [hp, hsub.2 hw], hkeys⟩, ?_⟩
      intro t v hw hm
      refine ⟨t.filter (fun k => !sys.covers r k), ?_, ?_⟩
      · show b.walker.filter _ = _; rw [hw]; rfl
      · have := hsub.2 (by rw [hw]; intro e; cases e)
        simp [hm, this]
    | w2 u =>
      simp only [shFire, Option.ite_none_right_eq_some, Option.some.injEq] at h
      obtain ⟨_, rfl⟩ := h
      have e : b.onShared sys rq (.w2 u) = b := by
        rw [onShared_w2, hreg]; simp
      rw [e] at hk ⊢
      exact ⟨hk, fun _ hp hkeys => ⟨hp, hkeys⟩, fun t v hw hm => ⟨t, hw, hm⟩⟩
  refine ⟨by rw [onShared_sent]; exact hi.len, ?_, ?_, ?_, ?_, ?_⟩
  · intro hp
    rw [onShared_pc] at hp
    have := hi.pre_since hp
    cases hs : (b.onShared sys rq l).since with
    | nil => rfl
    | cons x rest =>
      have hx := (key x (by rw [hs]; exact List.mem_cons_self ..)).1
      rw [this] at hx; cases hx
  · intro hw k hk
    have hw' : b.walker ≠ .done := fun e => hw (hwd.2 e)
    obtain ⟨hk1, hk2, _⟩ := key k hk
    obtain ⟨hp, hkeys⟩ := hi.since_present hw' k hk1
    exact hk2 hw' hp hkeys
  · intro hst; rw [hL, hwdue]; exact hi.cnt (by simpa using hst)
  · intro hst hw; rw [hL]; exact hi.last (by simpa using hst) (hwd.1 hw)
  · intro hu hst k hk hw ha
    obtain ⟨hk1, _, hk3⟩ := key k hk
    rw [hL]
    rcases hi.cov hu (by simpa using hst) k hk1 hw ha with ⟨t, v, hwk, hm⟩ | hc
    · obtain ⟨t', e1, e2⟩ := hk3 t v hwk hm
      exact Or.inl ⟨t', v, e1, e2⟩
    · exact Or.inr hc

/-- a POLL trigger received when everything of the previous rounds has been delivered starts a
new round: the invariant holds again, now counting from the current end of `sent` -/
theorem walkInv_poll {sys : Sys K T R} {rq : Req K T R} {sh : Shared K V T R} {b : Sub K V R}
    (hph : Phase rq b) (hq : b.q = []) (hs : b.snd = .idle) :
    WalkInv b.sent.length sys rq sh
      ({ b.startWalk sh rq with since := sh.keys.filter sh.present } : Sub K V R) := by
  have hL : labsFrom b.sent.length
      ({ b.startWalk sh rq with since := sh.keys.filter sh.present } : Sub K V R) = [] := by
    unfold labsFrom Sub.items; simp [Sub.startWalk, hq, hs, sndLabs]
  refine ⟨Nat.le_refl _, ?_, ?_, ?_, ?_, ?_⟩
  · intro hp
    -- the sender is running, so the handler is past `spawn`
    have hp' : b.pc.pre = true := hp
    rw [hph.pre_snd hp'] at hs; cases hs
  · intro _ k hk
    have := List.mem_filter.1 hk
    exact ⟨this.2, this.1⟩
  · intro _; rw [hL]; simp [wdue, Sub.startWalk]
  · intro _ hw; simp [Sub.startWalk] at hw
  · intro hu _ k hk hw ha
    have := List.mem_filter.1 hk
    exact Or.inl ⟨snapshot sh rq, [], by simp [Sub.startWalk, hu], mem_snapshot this.1 this.2 hw⟩


/-! ### ONCE / POLL: only matched leaves and syncs travel -/

def onlyUpdI (rq : Req K T R) (i : Item K R) : Prop :=
  i = .syncMarker ∨ ∃ k g, i = .handle k g ∧ rq.walks k = true

def onlyUpdR (rq : Req K T R) (r : Resp K V R) : Prop :=
  r = .sync ∨ ∃ k v d, r = .upd k v d ∧ rq.walks k = true

theorem lifted_shared_unreg {pI : Item K R → Prop} {pR : Resp K V R → Prop}
    (sys : Sys K T R) (rq : Req K T R) {b : Sub K V R} (l : ShLabel K V T R)
    (hreg : b.registered = false) (hi : Lifted pI pR b) : Lifted pI pR (b.onShared sys rq l) := by
  refine ⟨?_, ?_, ?_, ?_⟩
  · unfold Sub.items; rw [(onShared_unreg sys rq b l hreg).1]; exact hi.q
  · intro i d hs; rw [onShared_snd] at hs; exact hi.got i d hs
  · intro r hs; rw [onShared_snd] at hs; exact hi.sending r hs
  · intro r hr; rw [onShared_sent] at hr; exact hi.sent r hr

theorem onlyUpd_local {sys : Sys K T R} {rq : Req K T R} {sh : Shared K V T R} {b b' : Sub K V R}
    {l : SLabel K} (h : SubStep sys rq sh b l b') (hi : Lifted (onlyUpdI rq) (onlyUpdR (V := V) rq) b) :
    Lifted (onlyUpdI rq) (onlyUpdR (V := V) rq) b' := by
  refine lifted_local (Or.inl rfl) (Or.inl rfl) (fun k _ hw => Or.inr ⟨k, _, rfl, hw⟩) ?_ h hi
  intro i d r t hm _ hp
  rcases hp with rfl | ⟨k, g, rfl, hw⟩
  · simp [mkResp] at hm
  · simp only [mkResp, Option.some.injEq, Prod.mk.injEq] at hm
    exact Or.inr ⟨k, _, d, hm.1.symm, hw⟩

/-- a subscriber that is dead (RPC returned) only moves its gate -/
theorem substep_fin {sys : Sys K T R} {rq : Req K T R} {sh : Shared K V T R} {b b' : Sub K V R}
    {l : SLabel K} (hph : Phase rq b) (hfin : b.pc = .fin) (h : SubStep sys rq sh b l b') :
    b'.sent = b.sent ∧ b'.since = b.since ∧ b'.status = b.status ∧ b'.walker = b.walker ∧
      b'.held = b.held := by
  have hs := hph.fin_snd hfin
  have hst := hph.status_fin
  have ha := hph.armed
  cases h <;> simp_all [Sub.finish]
  all_goals (rename_i why; cases why <;> simp_all)

/-! ### values held during the call -/

structure HeldInv (sh : Shared K V T R) (b : Sub K V R) : Prop where
  pre_items : b.pc.pre = true → b.items = []
  cur : b.pc = .run → ∀ k, sh.present k = true → (k, sh.val k (sh.gen k)) ∈ b.held
  items : ∀ k g, Item.handle k g ∈ b.items → (k, sh.val k g) ∈ b.held
  got : ∀ k g d, b.snd = .got (.handle k g) d → (k, sh.val k g) ∈ b.held
  sending : ∀ k v d, b.snd = .sending (.upd k v d) → (k, v) ∈ b.held
  sent : ∀ k v d, Resp.upd k v d ∈ b.sent → (k, v) ∈ b.held

theorem heldInv_init (sh : Shared K V T R) : HeldInv sh ({} : Sub K V R) := by
  constructor <;> simp [Sub.items, HPc.pre]

theorem mem_heldNow {sh : Shared K V T R} {k : K} (hk : k ∈ sh.keys) (hp : sh.present k = true) :
    (k, sh.val k (sh.gen k)) ∈ heldNow sh := by
  unfold heldNow
  exact List.mem_map.2 ⟨k, List.mem_filter.2 ⟨hk, hp⟩, rfl⟩

theorem pc_run_of_walking {rq : Req K T R} {b : Sub K V R} (hph : Phase rq b)
    (hst : b.status = none) {t v : List K} (hw : b.walker = .walking t v) : b.pc = .run := by
  have hp : b.pc.pre = false := by
    cases hp : b.pc.pre with
    | false => rfl
    | true => rw [hph.pre_walker hp] at hw; cases hw
  have hf : b.pc ≠ .fin := hph.status_fin.1 hst
  revert hp hf; cases b.pc <;> simp [HPc.pre]

theorem heldInv_local {sys : Sys K T R} {rq : Req K T R} {sh : Shared K V T R} {b b' : Sub K V R}
    {l : SLabel K} (hsw : sys.swap = false) (hnm : rq.mode ≠ .stream)
    (hkeys : ∀ k, sh.present k = true → k ∈ sh.keys) (hph : Phase rq b)
    (h : SubStep sys rq sh b l b') (hi : HeldInv sh b) : HeldInv sh b' := by
  -- `held` only changes when the goroutines are spawned
  have hheld : b'.held = b.held ∨ (b.pc = .spawn ∧ b'.held = heldNow sh ∧ b'.items = b.items ∧
      b'.snd = .idle ∧ b'.sent = b.sent) := by
    cases h
    case spawn hpc _ => exact Or.inr ⟨hpc, rfl, rfl, rfl, rfl⟩
    case spawnUO hpc _ _ => exact Or.inr ⟨hpc, rfl, rfl, rfl, rfl⟩
    all_goals first | exact Or.inl rfl | exact Or.inl (by simp [Sub.finish])
  rcases hheld with hh | ⟨hpc, hh, hitems, hsnd, hsent⟩
  · refine ⟨?_, ?_, ?_, ?_, ?_, ?_⟩
    · -- before spawn nothing is inserted (the subscription is not a STREAM)
      intro hp
      have hp1 := hi.pre_items
      have p2 := hph.pre_walker
      have p3 := hph.pre_snd
      cases h <;> simp_all [Sub.finish, Sub.startWalk, HPc.pre, Sub.items]
    · intro hp k hk
      by_cases hsp : b.pc = .spawn
      · have : b'.held = heldNow sh := by
          clear hh
          cases h <;> simp_all [Sub.finish, Sub.startWalk]
          all_goals (rename_i why; cases why <;> simp_all)
        rw [this]; exact mem_heldNow (hkeys k hk) hk
      · rw [hh]
        have hp' : b.pc = .run := by
          have p4 := hph.reg_mode
          cases h <;> simp_all [Sub.finish, Sub.startWalk]
        exact hi.cur hp' k hk
    · intro k g hm
      rw [hh]
      rcases substep_items h with e | ⟨i, e, hi'⟩ | ⟨x, e⟩
      · rw [e] at hm; exact hi.items k g hm
      · rw [e] at hm
        rcases mem_ins_items hm with hm | hm
        · exact hi.items k g hm
        · rcases hi' with rfl | ⟨k2, rfl, hp, hrest⟩
          · cases hm
          · cases hm
            obtain ⟨_, hst, t, v, hwk⟩ := hrest
            exact hi.cur (pc_run_of_walking hph hst hwk) k hp
      · exact hi.items k g (e ▸ List.mem_cons_of_mem _ hm)
    · intro k g d hs
      rw [hh]
      rcases substep_got h _ d hs with h1 | ⟨_, hq⟩
      · exact hi.got k g d h1
      · exact hi.items k g (by simp [Sub.items, hq])
    · intro k v d hs
      rw [hh]
      rcases substep_sending h _ hs with h1 | ⟨i, d', t, hg, hm, _⟩
      · exact hi.sending k v d h1
      · cases i with
        | handle k' g =>
          simp only [mkResp, Option.some.injEq, Prod.mk.injEq, Resp.upd.injEq] at hm
          obtain ⟨⟨rfl, rfl, rfl⟩, _⟩ := hm
          exact hi.got k' g d' hg
        | delNote k' => simp [mkResp] at hm
        | regionDel r => simp [mkResp] at hm
        | syncMarker => simp [mkResp] at hm
    · intro k v d hm
      rw [hh]
      rcases substep_sent h with e | ⟨e, _⟩ | ⟨r', e, hs⟩
      · rw [e] at hm; exact hi.sent k v d hm
      · rw [e] at hm
        rcases List.mem_append.1 hm with hm | hm
        · exact hi.sent k v d hm
        · simp at hm
      · rw [e] at hm
        rcases List.mem_append.1 hm with hm | hm
        · exact hi.sent k v d hm
        · have : r' = .upd k v d := (List.mem_singleton.1 hm).symm
          subst this; exact hi.sending k v d hs
  · have hpre : b.pc.pre = true := by rw [hpc]; rfl
    have h0 := hi.pre_items hpre
    refine ⟨?_, ?_, ?_, ?_, ?_, ?_⟩
    · intro _; rw [hitems]; exact h0
    · intro _ k hk; rw [hh]; exact mem_heldNow (hkeys k hk) hk
    · intro k g hm; rw [hitems, h0] at hm; cases hm
    · intro k g d hs; rw [hsnd] at hs; cases hs
    · intro k v d hs; rw [hsnd] at hs; cases hs
    · intro k v d hm; rw [hsent, hph.pre_sent hpre] at hm; cases hm


theorem heldInv_shared [DecidableEq T] {sys : Sys K T R} {rq : Req K T R} {sh sh' : Shared K V T R}
    {b : Sub K V R} {l : ShLabel K V T R} (hreg : b.registered = false)
    (h : shFire sys sh l = some sh') (hi : HeldInv sh b) : HeldInv sh' (b.onShared sys rq l) := by
  have hitems : (b.onShared sys rq l).items = b.items := by
    unfold Sub.items; rw [(onShared_unreg sys rq b l hreg).1]
  -- (A) `held` grows, (B) a changed cell's new value is recorded, (C) present keys
  have key : (∀ x, x ∈ b.held → x ∈ (b.onShared sys rq l).held) ∧
      (∀ k g, sh'.val k g = sh.val k g ∨ (k, sh'.val k g) ∈ (b.onShared sys rq l).held) ∧
      (∀ k, sh'.present k = true → (sh.present k = true ∧ sh'.gen k = sh.gen k) ∨
        (k, sh'.val k (sh'.gen k)) ∈ (b.onShared sys rq l).held) := by
    cases l with
    | tAdd t =>
      simp only [shFire, Option.some.injEq] at h; subst h
      exact ⟨fun _ h => h, fun _ _ => Or.inl rfl, fun _ hp => Or.inl ⟨hp, rfl⟩⟩
    | w1Upd k0 v =>
      simp only [shFire, Option.ite_none_right_eq_some, Option.some.injEq] at h
      obtain ⟨_, rfl⟩ := h
      refine ⟨fun x hx => List.mem_append_left _ hx, ?_, fun _ hp => Or.inl ⟨hp, rfl⟩⟩
      intro k g
      show setFn sh.val k0 (setFn (sh.val k0) (sh.gen k0) v) k g = _ ∨ _ ∈ b.held ++ [(k0, v)]
      by_cases e : k = k0
      · subst e
        by_cases e' : g = sh.gen k
        · subst e'; exact Or.inr (by simp [setFn])
        · exact Or.inl (by simp [setFn, e'])
      · exact Or.inl (by simp [setFn, e])
    | w1Quiet k0 v =>
      simp only [shFire, Option.ite_none_right_eq_some, Option.some.injEq] at h
      obtain ⟨_, rfl⟩ := h
      refine ⟨fun x hx => List.mem_append_left _ hx, ?_, fun _ hp => Or.inl ⟨hp, rfl⟩⟩
      intro k g
      show setFn sh.val k0 (setFn (sh.val k0) (sh.gen k0) v) k g = _ ∨ _ ∈ b.held ++ [(k0, v)]
      by_cases e : k = k0
      · subst e
        by_cases e' : g = sh.gen k
        · subst e'; exact Or.inr (by simp [setFn])
        · exact Or.inl (by simp [setFn, e'])
      · exact Or.inl (by simp [setFn, e])
    | w1Add k0 v =>
      simp only [shFire, Option.ite_none_right_eq_some, Option.some.injEq] at h
      obtain ⟨_, rfl⟩ := h
      refine ⟨fun x hx => List.mem_append_left _ hx, ?_, ?_⟩
      · intro k g
        show setFn sh.val k0 (setFn (sh.val k0) (sh.gen k0 + 1) v) k g = _ ∨ _ ∈ b.held ++ [(k0, v)]
        by_cases e : k = k0
        · subst e
          by_cases e' : g = sh.gen k + 1
          · subst e'; exact Or.inr (by simp [setFn])
          · exact Or.inl (by simp [setFn, e'])
        · exact Or.inl (by simp [setFn, e])
      · intro k hp
        by_cases e : k = k0
        · subst e; exact Or.inr (by
            show (k, setFn sh.val k (setFn (sh.val k) (sh.gen k + 1) v) k
              (setFn sh.gen k (sh.gen k + 1) k)) ∈ b.held ++ [(k, v)]
            simp [setFn])
        · exact Or.inl ⟨by simpa [setFn, e] using hp, by simp [setFn, e]⟩
    | w1Del ks =>
      simp only [shFire, Option.ite_none_right_eq_some, Option.some.injEq] at h
      obtain ⟨_, rfl⟩ := h
      refine ⟨fun _ h => h, fun _ _ => Or.inl rfl, fun k hp => Or.inl ⟨?_, rfl⟩⟩
      simp only [Bool.and_eq_true] at hp; exact hp.1
    | w1Reg r =>
      simp only [shFire, Option.ite_none_right_eq_some, Option.some.injEq] at h
      obtain ⟨_, rfl⟩ := h
      refine ⟨fun _ h => h, fun _ _ => Or.inl rfl, fun k hp => Or.inl ⟨?_, rfl⟩⟩
      simp only [Bool.and_eq_true] at hp; exact hp.1
    | w2 u =>
      simp only [shFire, Option.ite_none_right_eq_some, Option.some.injEq] at h
      obtain ⟨_, rfl⟩ := h
      have e : b.onShared sys rq (.w2 u) = b := by rw [onShared_w2, hreg]; simp
      rw [e]
      exact ⟨fun _ h => h, fun _ _ => Or.inl rfl, fun _ hp => Or.inl ⟨hp, rfl⟩⟩
  obtain ⟨hA, hB, hC⟩ := key
  have hval : ∀ k g, (k, sh.val k g) ∈ b.held → (k, sh'.val k g) ∈ (b.onShared sys rq l).held := by
    intro k g hm
    rcases hB k g with e | e
    · rw [e]; exact hA _ hm
    · exact e
  refine ⟨?_, ?_, ?_, ?_, ?_, ?_⟩
  · intro hp; rw [hitems]; exact hi.pre_items (by simpa using hp)
  · intro hp k hk
    rcases hC k hk with ⟨hp', hg⟩ | e
    · rw [hg]; exact hval k _ (hi.cur (by simpa using hp) k hp')
    · exact e
  · intro k g hm; rw [hitems] at hm; exact hval k g (hi.items k g hm)
  · intro k g d hs; exact hval k g (hi.got k g d (by simpa using hs))
  · intro k v d hs; exact hA _ (hi.sending k v d (by simpa using hs))
  · intro k v d hm; exact hA _ (hi.sent k v d (by simpa using hm))

/-! ### what a finished ONCE call has delivered -/

/-- after response `n`: exactly one sync, it is the last response, and every matched, allowed
key present throughout the walk (`since`) has an update -/
def Concl (n : Nat) (sys : Sys K T R) (rq : Req K T R) (b : Sub K V R) : Prop :=
  b.walker = .done ∧ n ≤ b.sent.length ∧
  ((b.sent.drop n).map labR).count .sync = 1 ∧ ((b.sent.drop n).map labR).getLast? = some .sync ∧
  (rq.updatesOnly = false → ∀ k ∈ b.since, rq.walks k = true → rq.allow (sys.tgt k) = true →
    Lab.upd k ∈ (b.sent.drop n).map labR)

/-- the walk is over and everything has been delivered -/
theorem concl_of_drained {n : Nat} {sys : Sys K T R} {rq : Req K T R} {sh : Shared K V T R}
    {b : Sub K V R} (hi : WalkInv n sys rq sh b) (hst : b.status = none) (hw : b.walker = .done)
    (hq : b.q = []) (hs : b.snd = .idle) : Concl n sys rq b := by
  have hL : labsFrom n b = (b.sent.drop n).map labR := by
    unfold labsFrom Sub.items; simp [hq, hs, sndLabs]
  refine ⟨hw, hi.len, ?_, ?_, ?_⟩
  · have := hi.cnt hst; rw [hL] at this; simpa [wdue, hw] using this
  · have := hi.last hst hw; rw [hL] at this; exact this
  · intro hu k hk hwk ha
    rcases hi.cov hu hst k hk hwk ha with ⟨t, v, hwk', _⟩ | hc
    · rw [hw] at hwk'; cases hwk'
    · rw [hL] at hc; exact hc

end
end SubLTS
end Gnmi
