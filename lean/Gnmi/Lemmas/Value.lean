import Gnmi.Model.Value
/-!
Helper lemmas for C19 (value conversion and equality).  The list companions are proved
relative to an element-wise hypothesis; the main statements recurse on `sizeOf` through them.
-/
namespace Gnmi.PV
open List

variable {F D : Type} [FloatOps F D]

/-! ### equalList / specEqualList relative to the elements -/

theorem equalList_symm_of (as bs : List (TV F D))
    (h : ∀ a ∈ as, ∀ b, equal a b = equal b a) : equalList as bs = equalList bs as := by
  induction as generalizing bs with
  | nil => cases bs <;> simp [equalList]
  | cons a r ih =>
    cases bs with
    | nil => simp [equalList]
    | cons b r' =>
      simp only [equalList]
      rw [h a mem_cons_self b, ih r' (fun x hx => h x (mem_cons_of_mem _ hx))]

theorem equalList_sound_of (as bs : List (TV F D)) (hl : as.length = bs.length)
    (h : ∀ a ∈ as, ∀ b, equal a b = .ok true → a = b) : equalList as bs = .ok true → as = bs := by
  induction as generalizing bs with
  | nil => cases bs <;> simp at hl ⊢
  | cons a r ih =>
    cases bs with
    | nil => simp at hl
    | cons b r' =>
      simp only [equalList]
      intro he
      cases hab : equal a b with
      | ok v =>
        cases v with
        | true =>
          rw [hab] at he
          simp only at he
          rw [h a mem_cons_self b hab,
            ih r' (by simpa using hl) (fun x hx => h x (mem_cons_of_mem _ hx)) he]
        | false => rw [hab] at he; simp at he
      | err => rw [hab] at he; simp at he
      | panic => rw [hab] at he; simp at he

theorem specEqualList_false_of_length {as bs : List (TV F D)} (h : as.length ≠ bs.length) :
    specEqualList as bs = false := by
  induction as generalizing bs with
  | nil => cases bs <;> simp [specEqualList] at h ⊢
  | cons a r ih =>
    cases bs with
    | nil => simp [specEqualList]
    | cons b r' =>
      simp only [specEqualList, Bool.and_eq_false_imp]
      intro _
      exact ih (by simpa using h)

theorem equalList_eq_spec_of (as bs : List (TV F D)) (hl : as.length = bs.length)
    (h : ∀ a ∈ as, ∀ b ∈ bs, equal a b = .ok (specEqual a b)) :
    equalList as bs = .ok (specEqualList as bs) := by
  induction as generalizing bs with
  | nil => cases bs <;> simp [equalList, specEqualList] at hl ⊢
  | cons a r ih =>
    cases bs with
    | nil => simp at hl
    | cons b r' =>
      simp only [equalList, specEqualList]
      rw [h a mem_cons_self b mem_cons_self]
      cases hs : specEqual a b with
      | true =>
        simp only [Bool.true_and]
        exact ih r' (by simpa using hl)
          (fun x hx y hy => h x (mem_cons_of_mem _ hx) y (mem_cons_of_mem _ hy))
      | false => simp

omit [FloatOps F D] in
theorem payloadOKList_mem {l : List (TV F D)} (h : payloadOKList l = true) :
    ∀ a ∈ l, payloadOK a = true := by
  induction l with
  | nil => intro a ha; cases ha
  | cons x r ih =>
    simp only [payloadOKList, Bool.and_eq_true] at h
    intro a ha
    rcases mem_cons.mp ha with rfl | ha'
    · exact h.1
    · exact ih h.2 a ha'

omit [FloatOps F D] in
theorem sizeOf_lt_leaflist {a : TV F D} {l : List (TV F D)} (h : a ∈ l) :
    sizeOf a < sizeOf (TV.leaflistVal l) := by
  have := List.sizeOf_lt_of_mem h
  simp only [TV.leaflistVal.sizeOf_spec]
  omega

/-! ### the main statements about `equal` -/

/-- symmetric, including the failure outcome -/
theorem equal_comm [LawfulFloatEq F D] (a b : TV F D) : equal a b = equal b a := by
  cases a <;> cases b <;>
    simp only [equal, LawfulFloatEq.feq32_symm (F := F) (D := D), LawfulFloatEq.feq64_symm (F := F) (D := D)] <;>
    try (first | rfl | (congr 1; exact Bool.beq_comm) | (simp only [Bool.beq_comm]; done))
  case leaflistVal.leaflistVal ae be =>
    have hrec : ∀ a ∈ ae, ∀ b, equal a b = equal b a := fun a _ b => equal_comm a b
    rw [equalList_symm_of ae be hrec]
    by_cases hl : ae.length = be.length
    · simp [hl]
    · have hl' : ¬ be.length = ae.length := fun h => hl h.symm
      simp [hl, hl']
termination_by sizeOf a
decreasing_by exact sizeOf_lt_leaflist (by assumption)

/-- never reports two different values as equal -/
theorem equal_sound' [LawfulFloatEq F D] (a b : TV F D) : equal a b = .ok true → a = b := by
  cases a <;> cases b <;> simp only [equal] <;> try (intro h; simp at h; done)
  case stringVal.stringVal x y => simp
  case intVal.intVal x y => simp
  case uintVal.uintVal x y => simp
  case boolVal.boolVal x y => simp
  case bytesVal.bytesVal x y => simp
  case floatVal.floatVal x y =>
    intro h; simp only [Outcome.ok.injEq] at h
    rw [LawfulFloatEq.feq32_sound (F := F) (D := D) x y h]
  case doubleVal.doubleVal x y =>
    intro h; simp only [Outcome.ok.injEq] at h
    rw [LawfulFloatEq.feq64_sound (F := F) (D := D) x y h]
  case decimalVal.decimalVal d p d' p' => simp
  case leaflistVal.leaflistVal ae be =>
    by_cases hl : ae.length = be.length
    · simp only [hl, bne_self_eq_false, Bool.false_eq_true, if_false]
      intro h
      have hrec : ∀ a ∈ ae, ∀ b, equal a b = .ok true → a = b := fun a _ b => equal_sound' a b
      rw [equalList_sound_of ae be hl hrec h]
    · simp [hl]
termination_by sizeOf a
decreasing_by exact sizeOf_lt_leaflist (by assumption)

/-- on values without nil payloads `Equal` computes `specEqual` (in particular: no panic) -/
theorem equal_eq_spec' (a b : TV F D) (ha : payloadOK a = true) (hb : payloadOK b = true) :
    equal a b = .ok (specEqual a b) := by
  cases a <;> cases b <;> simp only [equal, specEqual] <;> try (simp [payloadOK] at ha hb; done)
  case leaflistVal.leaflistVal ae be =>
    simp only [payloadOK] at ha hb
    by_cases hl : ae.length = be.length
    · simp only [hl, bne_self_eq_false, Bool.false_eq_true, if_false]
      apply equalList_eq_spec_of ae be hl
      intro x hx y hy
      exact equal_eq_spec' x y (payloadOKList_mem ha x hx) (payloadOKList_mem hb y hy)
    · simp [hl, specEqualList_false_of_length hl]
termination_by sizeOf a
decreasing_by
  subst_vars
  exact sizeOf_lt_leaflist hx

/-! ### FromScalar / ToScalar -/

theorem toScalarList_strings (l : List String) :
    toScalarList (F := F) (D := D) (l.map TV.stringVal) = .ok (l.map Scalar.str) := by
  induction l with
  | nil => rfl
  | cons s r ih => simp only [map_cons, toScalarList, toScalar, ih]

theorem widenList_strs (l : List String) : widenList (F := F) (D := D) (l.map Scalar.str) = l.map Scalar.str := by
  induction l with
  | nil => rfl
  | cons s r ih => simp only [map_cons, widenList, widenScalar, ih]

mutual
theorem scalar_roundtrip' (s : Scalar F D) (h : supported s = true) :
    ∃ tv, fromScalar s = .ok tv ∧ toScalar tv = .ok (widenScalar s) := by
  match s, h with
  | .str x, _ => exact ⟨_, rfl, rfl⟩
  | .int k v, _ => exact ⟨_, rfl, rfl⟩
  | .uint k v, _ => exact ⟨_, rfl, rfl⟩
  | .f32 f, _ => exact ⟨_, rfl, rfl⟩
  | .f64 d, _ => exact ⟨_, rfl, rfl⟩
  | .bool b, _ => exact ⟨_, rfl, rfl⟩
  | .bytes b, _ => exact ⟨_, rfl, rfl⟩
  | .strs l, _ =>
    refine ⟨_, rfl, ?_⟩
    simp only [toScalar, toScalarList_strings, widenScalar]
  | .list l, h =>
    simp only [supported] at h
    obtain ⟨tvs, h1, h2⟩ := scalar_roundtripList' l h
    refine ⟨.leaflistVal tvs, ?_, ?_⟩
    · simp only [fromScalar, h1]
    · simp only [toScalar, h2, widenScalar]
theorem scalar_roundtripList' (l : List (Scalar F D)) (h : supportedList l = true) :
    ∃ tvs, fromScalarList l = .ok tvs ∧ toScalarList tvs = .ok (widenList l) := by
  match l, h with
  | [], _ => exact ⟨[], rfl, rfl⟩
  | s :: r, h =>
    simp only [supportedList, Bool.and_eq_true] at h
    obtain ⟨tv, h1, h2⟩ := scalar_roundtrip' s h.1
    obtain ⟨tvs, h3, h4⟩ := scalar_roundtripList' r h.2
    refine ⟨tv :: tvs, ?_, ?_⟩
    · simp only [fromScalarList, h1, h3]
    · simp only [toScalarList, h2, h4, widenList]
end

mutual
theorem fromScalar_ne_panic (s : Scalar F D) : fromScalar s ≠ .panic := by
  match s with
  | .str _ | .badStr | .int _ _ | .uint _ _ | .f32 _ | .f64 _ | .bool _ | .strs _ | .bytes _
  | .other | .json _ _ => simp [fromScalar]
  | .list l =>
    have := fromScalarList_ne_panic l
    simp only [fromScalar]
    split <;> simp_all
theorem fromScalarList_ne_panic (l : List (Scalar F D)) : fromScalarList l ≠ .panic := by
  match l with
  | [] => simp [fromScalarList]
  | s :: r =>
    have h1 := fromScalar_ne_panic s
    have h2 := fromScalarList_ne_panic r
    simp only [fromScalarList]
    split <;> (try split) <;> simp_all
end

mutual
theorem fromScalar_unsupported (s : Scalar F D) (h : supported s = false) : fromScalar s = .err := by
  match s, h with
  | .badStr, _ => rfl
  | .other, _ => rfl
  | .json _ _, _ => rfl
  | .list l, h =>
    simp only [supported] at h
    simp only [fromScalar, fromScalarList_unsupported l h]
theorem fromScalarList_unsupported (l : List (Scalar F D)) (h : supportedList l = false) :
    fromScalarList l = .err := by
  match l, h with
  | s :: r, h =>
    simp only [supportedList, Bool.and_eq_false_iff] at h
    rcases h with h | h
    · simp only [fromScalarList, fromScalar_unsupported s h]
    · have := fromScalar_ne_panic s
      simp only [fromScalarList, fromScalarList_unsupported r h]
      split <;> simp_all
end

end Gnmi.PV
