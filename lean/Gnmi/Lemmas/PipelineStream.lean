import Gnmi.Lemmas.PipelineOnce
import Gnmi.Lemmas.SubscribeOutP
import Gnmi.Lemmas.CacheFeedTrace
import Gnmi.Props.C04Seq
/-!
# C01, STREAM clause: helper lemmas

* the `CacheClient` tree of a STREAM client is the decoded replay (`SubStream.replay`) of what it
  was sent (`client_replay`), provided every update is a single decodable leaf and never finds a
  key that extends or is extended by its index (`ExtFreeR`, maintained by `C04Seq`'s invariant);
* the collector run (`Pipeline.Sys.run`) is a `C04Seq` history: the run invariant of
  `Lemmas/Pipeline.lean` (`Holds`) is carried together with `C04Seq.HInv`.
-/
namespace Gnmi
namespace C01S
open Cache Pipeline Relay SubStream

/-! ## the client's tree is the decoded replay -/

/-- what the client needs of the notification of an update response: a single decodable update of
a named target, filed under its own index -/
def PG (n : Noti) : Prop := n.target ≠ "" ∧ ∃ k, GoodLeaf n.target k n

theorem PG.key {n : Noti} (h : PG n) : GoodLeaf n.target (Feed.evKey n) n := by
  obtain ⟨_, k, h1, h2, h3, u, hu, hv, hk⟩ := h
  refine ⟨h1, h2, h3, u, hu, hv, ?_⟩
  unfold Feed.evKey updKey
  rw [hu]
  simp [h1]

structure CSim (c : Client) (W : PMap Noti) : Prop where
  failed : c.failed = false
  stopped : c.stopped = false
  get : ∀ κ, cget c.tree κ = (lookup W κ).bind decLeaf

theorem cget_some_of_mem {m : PMap CLeaf} {kv : Path × CLeaf} (h : kv ∈ m) : (cget m kv.1).isSome = true := by
  unfold cget
  cases hf : m.find? (fun x => x.1 == kv.1) with
  | some _ => rfl
  | none =>
    rw [List.find?_eq_none] at hf
    have := hf kv h
    simp at this

theorem csim_upd {c : Client} {W : PMap Noti} (h : CSim c W) {n : Noti} (d : Nat) (hp : PG n)
    (hx : extOK W (.upd n d)) : CSim (Client.recv false c (.upd n d)) (applyResp W (.upd n d)) ∧
      (Client.recv false c (.upd n d)).synced = c.synced := by
  have hgl := hp.key
  obtain ⟨leaf, hleaf, hrecv⟩ := recv_good false c h.failed h.stopped n.target hp.1 (Feed.evKey n) n d hgl
  have hkey : n.target :: Feed.evKey n = respKey n := (respKey_eq n).symm
  rw [hkey] at hrecv
  have hna : n.atomic = false := hgl.1
  have hconf : PMap.conflicts c.tree (respKey n) = false := by
    unfold PMap.conflicts
    rw [List.any_eq_false]
    intro kv hkv
    have hsome := cget_some_of_mem hkv
    rw [h.get kv.1] at hsome
    have hl : lookup W kv.1 ≠ none := by
      intro e; rw [e] at hsome; cases hsome
    by_cases hk : kv.1 = respKey n
    · simp [hk]
    · have hnp : ¬ (respKey n <+: kv.1 ∨ kv.1 <+: respKey n) := fun hor => hl (hx kv.1 hor hk)
      have h1 : kv.1.isPrefixOf (respKey n) = false := by
        cases hb : kv.1.isPrefixOf (respKey n) with
        | false => rfl
        | true => exact absurd (Or.inr (List.isPrefixOf_iff_prefix.1 hb)) hnp
      have h2 : (respKey n).isPrefixOf kv.1 = false := by
        cases hb : (respKey n).isPrefixOf kv.1 with
        | false => rfl
        | true => exact absurd (Or.inl (List.isPrefixOf_iff_prefix.1 hb)) hnp
      simp [h1, h2]
  rw [hrecv]
  refine ⟨⟨h.failed, h.stopped, ?_⟩, rfl⟩
  intro κ
  show cget (treeAdd c.tree (respKey n) leaf) κ = _
  rw [lookup_applyResp]
  simp only [eff, hna, Bool.false_and, Bool.false_eq_true, if_false]
  by_cases hk : respKey n = κ
  · subst hk
    rw [cget_treeAdd_same _ _ _ hconf]
    simp [hleaf]
  · rw [if_neg hk, cget_treeAdd_other _ _ _ _ (fun e => hk e.symm)]
    exact h.get κ

theorem clientPrefix_subIndex {t : String} (ht : t ≠ "") (o : String) (p : Path) :
    clientPrefix t o p = subIndex t o p := by
  unfold clientPrefix subIndex
  simp [ht]

theorem cget_treeDelete (m : PMap CLeaf) (q κ : Path) :
    cget (treeDelete m q) κ = if qmatches q κ = true then none else cget m κ := by
  unfold treeDelete PMap.delete cget
  have := find_filter_key m (fun k => !(qmatches q k && true)) κ
  simp only [Bool.and_true] at this ⊢
  rw [this]
  cases qmatches q κ <;> simp

theorem csim_del {c : Client} {W : PMap Noti} (h : CSim c W) {t : String} (ht : t ≠ "") (o : String) (p : Path)
    (ts : Int) (d : Nat) : CSim (Client.recv false c (.del t o p ts d)) (applyResp W (.del t o p ts d)) ∧
      (Client.recv false c (.del t o p ts d)).synced = c.synced := by
  unfold Client.recv
  simp only [h.failed, h.stopped, Bool.or_self, Bool.false_eq_true, if_false]
  refine ⟨⟨rfl, rfl, ?_⟩, trivial⟩
  intro κ
  show cget (treeDelete c.tree (clientPrefix t o p)) κ = _
  rw [clientPrefix_subIndex ht, cget_treeDelete, lookup_applyResp]
  simp only [eff]
  split
  · rfl
  · exact h.get κ

theorem csim_sync {c : Client} {W : PMap Noti} (h : CSim c W) :
    CSim (Client.recv false c .sync) (applyResp W .sync) ∧ (Client.recv false c .sync).synced = true := by
  unfold Client.recv
  simp only [h.failed, h.stopped, Bool.or_self, Bool.false_eq_true, if_false]
  exact ⟨⟨rfl, rfl, h.get⟩, trivial⟩

/-- the client after a list of responses, against their replay -/
theorem client_replay : ∀ (g : List (Sub.Resp × Bool)) (c : Client) (W : PMap Noti), CSim c W →
    (∀ x ∈ g, respP PG (fun t => t ≠ "") x.1) → ExtFreeR W g →
    CSim (Client.run false c (g.map (·.1))) (g.foldl (fun v r => applyResp v r.1) W) ∧
    ((c.synced = true ∨ Sub.Resp.sync ∈ g.map (·.1)) → (Client.run false c (g.map (·.1))).synced = true)
  | [], c, W, h, _, _ => ⟨h, fun hs => by
      rcases hs with hs | hs
      · exact hs
      · cases hs⟩
  | x :: g, c, W, h, hp, hx => by
    have hp' : ∀ y ∈ g, respP PG (fun t => t ≠ "") y.1 := fun y hy => hp y (List.mem_cons_of_mem _ hy)
    have hpx := hp x (List.mem_cons_self ..)
    show CSim (Client.run false (Client.recv false c x.1) (g.map (·.1))) _ ∧ _
    obtain ⟨r, b⟩ := x
    cases r with
    | upd n d =>
      obtain ⟨h1, h2⟩ := csim_upd h d hpx hx.1
      obtain ⟨i1, i2⟩ := client_replay g _ _ h1 hp' hx.2
      refine ⟨i1, ?_⟩
      intro hs
      apply i2
      rcases hs with hs | hs
      · left; rw [h2]; exact hs
      · right
        simp only [List.map_cons, List.mem_cons] at hs
        rcases hs with hs | hs
        · cases hs
        · exact hs
    | del t o p ts d =>
      obtain ⟨h1, h2⟩ := csim_del h hpx o p ts d
      obtain ⟨i1, i2⟩ := client_replay g _ _ h1 hp' hx.2
      refine ⟨i1, ?_⟩
      intro hs
      apply i2
      rcases hs with hs | hs
      · left; rw [h2]; exact hs
      · right
        simp only [List.map_cons, List.mem_cons] at hs
        rcases hs with hs | hs
        · cases hs
        · exact hs
    | sync =>
      obtain ⟨h1, h2⟩ := csim_sync h
      obtain ⟨i1, i2⟩ := client_replay g _ _ h1 hp' hx.2
      exact ⟨i1, fun _ => i2 (Or.inl h2)⟩

theorem csim_init : CSim {} [] := ⟨rfl, rfl, fun κ => by simp [cget, lookup]⟩

/-! ## the update events of one `Target.GnmiUpdate` are single decodable updates -/

/-- a single decodable, non-atomic update addressed to `T` -/
def PL (T : String) (nd : Noti) : Prop :=
  nd.atomic = false ∧ nd.del = [] ∧ nd.target = T ∧ ∃ u, nd.upd = [u] ∧ valueOK u.val = true

theorem PL.pg {T : String} {nd : Noti} (hT : T ≠ "") (h : PL T nd) : PG nd := by
  obtain ⟨h1, h2, h3, u, hu, hv⟩ := h
  refine ⟨by rw [h3]; exact hT, joinKey nd u.path, h1, h2, rfl, u, hu, hv, rfl⟩

theorem gnmiUpdate1_out (cfg : Cfg) (now : Int) (t : Target) (n : Noti) (u : Upd) (us : List Upd)
    (hu : n.upd = u :: us) (ht : n.target ≠ "") :
    ∀ nd, (Target.gnmiUpdate1 cfg now t n).2.2 = some nd → nd = n := by
  have he := gnmiUpdate1_effect cfg now t n u us hu ht
  generalize Target.gnmiUpdate1 cfg now t n = r at he
  cases he with
  | rejected => intro nd h; cases h
  | replaced => intro nd h; cases h; rfl
  | suppressed => intro nd h; cases h
  | added => intro nd h; cases h; rfl
  | panicOld => intro nd h; cases h

theorem multiUpdates_upds (cfg : Cfg) (now : Int) (T : String) (hT : T ≠ "") (hdr : Noti) (ht : hdr.target = T)
    (hna : hdr.atomic = false) :
    ∀ (us : List Upd) (acc : MultiAcc), (∀ nd, Event.upd nd ∈ acc.evs.flatten → PL T nd) →
      (∀ u ∈ us, valueOK u.val = true) →
      ∀ nd, Event.upd nd ∈ (multiUpdates cfg now hdr us acc).evs.flatten → PL T nd
  | [], acc, h, _ => by simpa [multiUpdates] using h
  | u :: us, acc, h, hv => by
    have hvs : ∀ x ∈ us, valueOK x.val = true := fun x hx => hv x (List.mem_cons_of_mem _ hx)
    unfold multiUpdates
    split
    · exact h
    · simp only
      split
      · exact h
      · split
        · exact multiUpdates_upds cfg now T hT hdr ht hna us _ h hvs
        · split
          · rename_i nd0 hnd
            apply multiUpdates_upds cfg now T hT hdr ht hna us _ _ hvs
            intro nd hmem
            have : (acc.evs ++ [[Event.upd nd0]]).flatten = acc.evs.flatten ++ [Event.upd nd0] := by simp
            rw [this] at hmem
            rcases List.mem_append.1 hmem with h1 | h1
            · exact h nd h1
            · simp only [List.mem_singleton, Event.upd.injEq] at h1
              subst h1
              have := gnmiUpdate1_out cfg now acc.t { hdr with upd := [u], del := [] } u [] rfl
                (by show hdr.target ≠ ""; rw [ht]; exact hT) nd hnd
              rw [this]
              exact ⟨hna, rfl, ht, u, rfl, hv u (List.mem_cons_self ..)⟩
          · exact multiUpdates_upds cfg now T hT hdr ht hna us _ h hvs

theorem allSome_no_upd (ts : Int) : ∀ (l : List (Path × Noti)) (evs : List Event),
    allSome (l.map (fun kv => toDeleteEvent? kv.2 ts)) = some evs → ∀ nd, Event.upd nd ∉ evs
  | [], evs, h => by
    simp only [List.map_nil, allSome] at h
    cases h
    intro nd hm; cases hm
  | kv :: l, evs, h => by
    simp only [List.map_cons] at h
    cases hd : toDeleteEvent? kv.2 ts with
    | none => rw [hd] at h; simp [allSome] at h
    | some e0 =>
      rw [hd] at h
      simp only [allSome, Option.map_eq_some_iff] at h
      obtain ⟨evs', h', rfl⟩ := h
      intro nd hm
      rcases List.mem_cons.1 hm with e | hm'
      · unfold toDeleteEvent? at hd
        split at hd
        · cases hd
        · simp only [Option.some.injEq] at hd
          rw [← hd] at e
          cases e
      · exact allSome_no_upd ts l evs' h' nd hm'

theorem remove1_no_upd (t : Target) (n : Noti) : ∀ nd, Event.upd nd ∉ (Target.gnmiRemove1 t n).2.1 := by
  intro nd hm
  unfold Target.gnmiRemove1 at hm
  split at hm
  · cases hm
  · split at hm
    · cases hm
    · unfold removeCore at hm
      simp only at hm
      split at hm
      · cases hm
      · split at hm
        · cases hm
        · rename_i evs hall
          exact allSome_no_upd _ _ _ hall nd hm

theorem multiDeletes_upds (T : String) (hdr : Noti) :
    ∀ (ds : List Del) (acc : MultiAcc), (∀ nd, Event.upd nd ∈ acc.evs.flatten → PL T nd) →
      ∀ nd, Event.upd nd ∈ (multiDeletes hdr ds acc).evs.flatten → PL T nd
  | [], acc, h => by simpa [multiDeletes] using h
  | d :: ds, acc, h => by
    unfold multiDeletes
    split
    · exact h
    · simp only
      split
      · exact h
      · apply multiDeletes_upds T hdr ds
        intro nd hmem
        split at hmem
        · exact h nd hmem
        · have : ∀ g : List Event, (acc.evs ++ [g]).flatten = acc.evs.flatten ++ g := by intro g; simp
          rw [this] at hmem
          rcases List.mem_append.1 hmem with h1 | h1
          · exact h nd h1
          · exact absurd h1 (remove1_no_upd _ _ nd)

theorem gnmiUpdate_upds (cfg : Cfg) (now : Int) (T : String) (hT : T ≠ "") (t : Target) (n : Noti)
    (ht : n.target = T) (hna : n.atomic = false) (hv : ∀ u ∈ n.upd, valueOK u.val = true) :
    ∀ nd, Event.upd nd ∈ (t.gnmiUpdate cfg now n).2.2.flatten → PL T nd := by
  have hne : n.target ≠ "" := by rw [ht]; exact hT
  obtain ⟨b, hb⟩ := tracksTimestamp?_isSome n hne
  unfold Target.gnmiUpdate
  rw [hb]
  simp only
  unfold Target.dispatch
  rw [if_neg (by rw [hna]; simp)]
  split
  · have ha := multiUpdates_upds cfg now T hT { n with upd := [], del := [] } ht hna n.upd { t := t }
      (fun nd h => by simp at h) hv
    have hb' := multiDeletes_upds T { n with upd := [], del := [] } n.del _ ha
    intro nd hmem
    simp only at hmem
    split at hmem <;> exact hb' nd hmem
  · rename_i hlen
    split
    · rename_i h1
      have hd1 : n.del = [] := by
        apply List.eq_nil_of_length_eq_zero
        omega
      match hu : n.upd with
      | [] => rw [hu] at h1; simp at h1
      | u :: us =>
        have hus : us = [] := by
          rw [hu] at h1
          simp only [List.length_cons, Nat.add_eq_right] at h1
          exact List.eq_nil_of_length_eq_zero h1
        subst hus
        intro nd hmem
        unfold singleArm at hmem
        split at hmem
        · simp at hmem
        · split at hmem
          · rename_i nd0 hnd
            simp only [List.flatten_cons, List.flatten_nil, List.append_nil, List.mem_singleton,
              Event.upd.injEq] at hmem
            subst hmem
            have := gnmiUpdate1_out cfg now t n u [] hu hne nd hnd
            rw [this]
            exact ⟨hna, hd1, ht, u, hu, hv u (by rw [hu]; exact List.mem_cons_self ..)⟩
          · simp at hmem
    · split
      · intro nd hmem
        simp only at hmem
        split at hmem
        · simp at hmem
        · split at hmem
          · simp at hmem
          · simp only [List.flatten_cons, List.flatten_nil, List.append_nil] at hmem
            exact absurd hmem (remove1_no_upd _ _ nd)
      · intro nd hmem
        simp at hmem

/-! ## the collector run as a `C04Seq` history -/

/-- the target of a delete response is named -/
def Dne (t : String) : Prop := t ≠ ""

theorem eventsP_append {a b : List Event} (ha : EventsP PG Dne a) (hb : EventsP PG Dne b) :
    EventsP PG Dne (a ++ b) :=
  ⟨fun n hn => by
      rcases List.mem_append.1 hn with h | h
      · exact ha.1 n h
      · exact hb.1 n h,
   fun t o p ts hn => by
      rcases List.mem_append.1 hn with h | h
      · exact ha.2 t o p ts h
      · exact hb.2 t o p ts h⟩

theorem eventsP_nil : EventsP PG Dne [] := ⟨(fun n hn => by cases hn), (fun t o p ts hn => by cases hn)⟩

theorem eventsP_gnmiUpdate {cfg : Cfg} {now : Int} {name : String} {t : Target} {n : Noti} (hn : name ≠ "")
    (hi : TInv t) (htn : t.name = name) (hg : Feed.GT cfg name t.tree t.tree) (ht : n.target = name)
    (hna : n.atomic = false) (hcl : Feed.Clean n) (hv : ∀ u ∈ n.upd, valueOK u.val = true) :
    EventsP PG Dne (t.gnmiUpdate cfg now n).2.2.flatten := by
  constructor
  · intro nd hnd
    exact (gnmiUpdate_upds cfg now name hn t n ht hna hv nd hnd).pg hn
  · intro t' o p ts hmem
    have := (Feed.gnmiUpdate_psim now t n hn hi htn ht hcl hg).2.to _ hmem
    show t' ≠ ""
    have h2 : t' = name := this
    rw [h2]; exact hn

theorem onTarget_eventsP {c : Cache.State} {name : String} {f : Target → Target × List Event}
    (hf : ∀ t, c.get name = some t → EventsP PG Dne (f t).2) : EventsP PG Dne (c.onTarget name f).2 := by
  unfold State.onTarget
  split
  · exact eventsP_nil
  · rename_i t hg
    exact hf t hg

theorem updatesOK_static {strict pn : Bool} {n : Noti} :
    ∀ {us : List Upd} {v : View}, updatesOK strict pn n us v = true →
      ∀ u ∈ us, (keyOf pn n u.path).contains glob = false
  | [], _, _, u, hu => by cases hu
  | x :: xs, v, h, u, hu => by
    unfold updatesOK at h
    simp only [Bool.and_eq_true] at h
    rcases List.mem_cons.1 hu with e | hm
    · subst e
      have := h.1
      unfold updOK at this
      simp only [Bool.and_eq_true, Bool.not_eq_true'] at this
      exact this.1.1.1.1.2
    · exact updatesOK_static h.2 u hm

theorem originOf_ne (pn : Bool) (n : Noti) : originOf pn n ≠ "" := by
  unfold originOf
  cases pn
  · simp only [Bool.false_eq_true, if_false]; split
    · exact defaultOrigin_ne
    · assumption
  · exact defaultOrigin_ne

/-- the stamped notification of an admissible response meets `C03`'s side condition -/
theorem stamp_clean (enc : String → String) (T : String) (pn : Bool) (n : Noti) (v : View)
    (hok : Relay.itemOK true v (.update pn n) = true) : Feed.Clean (stampTarget enc T pn n) := by
  unfold Relay.itemOK at hok
  simp only [Bool.and_eq_true, Bool.not_eq_true'] at hok
  have hna : n.atomic = false := hok.1.1
  have hst := updatesOK_static hok.1.2
  obtain ⟨_, f2, _, f4, _, _⟩ := stamp_fields enc T pn n
  intro u hu
  rw [f2] at hu
  have hrel := stamp_relayed enc T pn n hna
  have hkey : updKey (stampTarget enc T pn n) u = keyOf pn n u.path := by
    unfold updKey
    rw [hrel.notAtomic]
    simp only [Bool.false_eq_true, if_false]
    exact stamp_joinKey enc T pn n u.path
  refine ⟨?_, Or.inl hrel.origin, ?_⟩
  · rw [hkey]
    intro hm
    have := hst u hu
    rw [List.contains_iff_mem.2 hm] at this
    cases this
  · rw [hkey]
    unfold keyOf
    simp only [List.head?_cons, ne_eq, Option.some.injEq]
    exact originOf_ne pn n

theorem treesP_of_holds {names : List String} {s : Sys} {vw : String → View} (hne : ∀ x ∈ names, x ≠ "")
    (hh : Holds names s vw) (hnu : Feed.NamesUnique s.sub.cache)
    (htin : ∀ U, (s.sub.cache.get U).isSome = true → U ∈ names) : TreesP PG s.sub.cache := by
  intro kv hkv e he
  have hg : s.sub.cache.get kv.1 = some kv.2 := Feed.get_of_mem hnu (name := kv.1) (t := kv.2) hkv
  have hmem : kv.1 ∈ names := htin kv.1 (by rw [hg]; rfl)
  obtain ⟨t, g1, _, _, g4⟩ := hh.each kv.1 hmem
  rw [hg] at g1
  cases g1
  have hgl := g4 e he
  have htg : e.2.target = kv.1 := hgl.2.2.1
  refine ⟨by rw [htg]; exact hne _ hmem, e.1, ?_⟩
  rw [htg]; exact hgl

/-- what is carried along a collector run besides `Holds` -/
structure Inv2 (names : List String) (s : Sys) : Prop where
  h : C04Seq.HInv s.sub
  out : ∀ x ∈ s.sub.subs, OutP PG Dne x
  tin : ∀ U, (s.sub.cache.get U).isSome = true → U ∈ names

/-- one cache call (not `Add`) whose events reach the subscribers -/
theorem inv2_ca {names : List String} {s : Sys} {vw' : String → View} (enc : String → String) (op : Cache.Op)
    (hne : ∀ x ∈ names, x ≠ "") (i : Inv2 names s)
    (hok : Feed.Op.ok s.sub.cache op) (hns : NoStarOp op) (hnadd : ∀ name, op ≠ .add name)
    (hev : EventsP PG Dne (s.sub.cache.step enc op).2.2)
    (hh' : Holds names { s with sub := C04Seq.hstep enc s.sub (.ca op) } vw') :
    Inv2 names { s with sub := C04Seq.hstep enc s.sub (.ca op) } := by
  have h1 := C04Seq.hstep_inv enc s.sub (.ca op) i.h ⟨hok, hns⟩
  have htin : ∀ U, ((C04Seq.hstep enc s.sub (.ca op)).cache.get U).isSome = true → U ∈ names := by
    intro U hU
    apply i.tin
    cases hg : s.sub.cache.get U with
    | some _ => rfl
    | none =>
      have : (s.sub.cache.step enc op).1.get U = none :=
        step_get_none enc s.sub.cache op U (fun name e => absurd e (hnadd name)) hg
      have hc : (C04Seq.hstep enc s.sub (.ca op)).cache = (s.sub.cache.step enc op).1 := rfl
      rw [hc, this] at hU
      cases hU
  refine ⟨h1, ?_, htin⟩
  have htp : TreesP PG (s.sub.cache.step enc op).1 := treesP_of_holds hne hh' h1.cok.names htin
  exact feed_outP { s.sub with cache := (s.sub.cache.step enc op).1 } _ htp hev i.out

/-! ### the subscriber with a given id -/

def KProp (id : String) (R : Sub.Req) (st : Sub.State) : Prop :=
  ∀ x ∈ st.subs, x.id = id → Live x ∧ x.req = R ∧ x.acl = Sub.Acl.absent

def HasId (id : String) (st : Sub.State) : Prop := ∃ x ∈ st.subs, x.id = id

def NoId (id : String) (st : Sub.State) : Prop := ∀ x ∈ st.subs, x.id ≠ id

theorem ca_k (enc : String → String) (id : String) (R : Sub.Req) (st : Sub.State) (op : Cache.Op)
    (hi : C04Seq.HInv st) (hok : Feed.Op.ok st.cache op) (hns : NoStarOp op) (hnr : NotRemove op) :
    (KProp id R st → KProp id R (C04Seq.hstep enc st (.ca op))) ∧
    (HasId id st → HasId id (C04Seq.hstep enc st (.ca op))) ∧
    (NoId id st → NoId id (C04Seq.hstep enc st (.ca op))) := by
  have hsubs : (C04Seq.hstep enc st (.ca op)).subs =
      st.subs.map (feedSub (st.cache.step enc op).1 (st.cache.step enc op).2.2) := rfl
  obtain ⟨hgt, hntd⟩ := step_goodTr enc st.cache op hi.sinv hi.cok hok hns
  refine ⟨?_, ?_, ?_⟩
  · intro hk x' hx' hid
    rw [hsubs] at hx'
    obtain ⟨x, hx, rfl⟩ := List.mem_map.1 hx'
    rw [feedSub_id] at hid
    obtain ⟨hL, hr, ha⟩ := hk x hx hid
    refine ⟨⟨?_, ?_, ?_⟩, ?_, ?_⟩
    · exact feed_sub_alive hi.cok.vok hgt (hntd hnr) hL (hi.subs x hx hL)
    · rw [feedSub_req]; exact hL.2.1
    · rw [feedSub_req]; exact hL.2.2
    · rw [feedSub_req]; exact hr
    · rw [feedSub_acl]; exact ha
  · rintro ⟨x, hx, hid⟩
    refine ⟨feedSub (st.cache.step enc op).1 (st.cache.step enc op).2.2 x, ?_, by rw [feedSub_id]; exact hid⟩
    rw [hsubs]
    exact List.mem_map.2 ⟨x, hx, rfl⟩
  · intro hn x' hx'
    rw [hsubs] at hx'
    obtain ⟨x, hx, rfl⟩ := List.mem_map.1 hx'
    rw [feedSub_id]
    exact hn x hx

/-! ### the steps of the collector -/

theorem gt_self {cfg : Cfg} {nm : String} {v : Feed.View} {tree : PMap Noti} (g : Feed.GT cfg nm v tree) :
    Feed.GT cfg nm tree tree :=
  ⟨g.unique, g.pf, g.noGlob, g.storedAt, g.owner, g.head, ⟨g.unique, fun _ => sim_refl _ _⟩⟩

theorem connect_as_hstep (enc : String → String) (now : Int) (s : Sys) (name : String) (h : s.crashed = false) :
    s.connect enc now name = { s with sub := C04Seq.hstep enc s.sub (.ca (.connect name now)) } := by
  rw [connect_eq enc now s name h]; rfl

/-- the cache call behind a manager callback -/
def opOf (enc : String → String) (now : Int) : MCall → Cache.Op
  | .update name pn n => .update now false (stampTarget enc name pn n)
  | .sync name => .sync name now
  | .logged => .update now true {}

theorem deliver_as_hstep (enc : String → String) (now : Int) (s : Sys) (call : MCall) (h : s.crashed = false)
    (h' : (s.deliver enc now call).crashed = false) :
    s.deliver enc now call = { s with sub := C04Seq.hstep enc s.sub (.ca (opOf enc now call)) } := by
  have hp : (callback enc now s.sub.cache call).1 ≠ .panic := by
    intro e
    unfold Sys.deliver at h'
    rw [if_neg (by rw [h]; simp)] at h'
    simp only [e, if_true] at h'
    cases h'
  rw [deliver_eq enc now s call h hp]
  cases call <;> rfl

theorem valueOK_bool (b : Bool) : valueOK (.scalar (.bool b)) = true := rfl

theorem eventsP_connect (enc : String → String) (now : Int) (c : Cache.State) (name : String) (hn : name ≠ "")
    (hi : Cache.SInv c) (hc : CacheOK c) : EventsP PG Dne (c.step enc (.connect name now)).2.2 := by
  show EventsP PG Dne (c.connect enc name now).2
  apply onTarget_eventsP
  intro t hg
  obtain ⟨h1, h2, h3⟩ := hi name t hg
  have hcl := Feed.metaNoti_clean enc name "connected" (.bool true) now (by decide)
  have hgt := hc.gt name t hg
  have e1 := eventsP_gnmiUpdate (cfg := c.cfg) (now := now) hn h1 h2 hgt (n := metaNoti enc name "connected" (.bool true) now)
    rfl rfl hcl (by intro u hu; simp only [metaNoti, List.mem_singleton] at hu; subst hu; rfl)
  have p1 := (Feed.gnmiUpdate_psim (cfg := c.cfg) now t _ h3 h1 h2 rfl hcl hgt).2
  obtain ⟨_, a, _, b⟩ := gnmiUpdate_ok c.cfg now t (metaNoti enc name "connected" (.bool true) now) h1 h3
  have hcl2 := Feed.deleteNotiOf_clean enc name [metaRoot, "connectError"] now
  have e2 := eventsP_gnmiUpdate (cfg := c.cfg) (now := now) hn a (b.trans h2) (gt_self p1.g)
    (n := deleteNotiOf enc name [metaRoot, "connectError"] now) rfl rfl hcl2
    (by intro u hu; simp [deleteNotiOf] at hu)
  exact eventsP_append e1 e2

theorem eventsP_sync (enc : String → String) (now : Int) (c : Cache.State) (name : String) (hn : name ≠ "")
    (hi : Cache.SInv c) (hc : CacheOK c) : EventsP PG Dne (c.step enc (.sync name now)).2.2 := by
  show EventsP PG Dne (c.sync enc name now).2
  apply onTarget_eventsP
  intro t hg
  obtain ⟨h1, h2, h3⟩ := hi name t hg
  have hcl := Feed.metaNoti_clean enc name "sync" (.bool true) now (by decide)
  exact eventsP_gnmiUpdate (cfg := c.cfg) (now := now) hn h1 h2 (hc.gt name t hg)
    (n := metaNoti enc name "sync" (.bool true) now) rfl rfl hcl
    (by intro u hu; simp only [metaNoti, List.mem_singleton] at hu; subst hu; rfl)

theorem eventsP_update (enc : String → String) (now : Int) (c : Cache.State) (name : String) (hn : name ≠ "")
    (hi : Cache.SInv c) (hc : CacheOK c) (pn : Bool) (n : Noti) (v : View)
    (hok : Relay.itemOK true v (.update pn n) = true) :
    EventsP PG Dne (c.step enc (.update now false (stampTarget enc name pn n))).2.2 := by
  have htg : (stampTarget enc name pn n).target = name := (stamp_fields enc name pn n).2.2.2.2.2
  simp only [State.step, State.gnmiUpdate, Bool.false_eq_true, if_false, htg]
  cases hg : c.get name with
  | none => exact eventsP_nil
  | some t =>
    simp only
    obtain ⟨h1, h2, h3⟩ := hi name t hg
    have hna : n.atomic = false := by
      unfold Relay.itemOK at hok; simp only [Bool.and_eq_true, Bool.not_eq_true'] at hok; exact hok.1.1
    have hvs : ∀ u ∈ (stampTarget enc name pn n).upd, valueOK u.val = true := by
      rw [(stamp_fields enc name pn n).2.1]
      unfold Relay.itemOK at hok; simp only [Bool.and_eq_true] at hok
      exact updatesOK_values hok.1.2
    exact eventsP_gnmiUpdate (cfg := c.cfg) (now := now) hn h1 h2 (hc.gt name t hg) htg
      (stamp_relayed enc name pn n hna).notAtomic (stamp_clean enc name pn n v hok) hvs

/-- what one (or several) steps of the collector carry from `s` to `s'` -/
def Tr4 (names : List String) (id : String) (R : Sub.Req) (s s' : Sys) : Prop :=
  Inv2 names s' ∧ (KProp id R s.sub → KProp id R s'.sub) ∧ (HasId id s.sub → HasId id s'.sub) ∧
  (NoId id s.sub → NoId id s'.sub)

theorem Tr4.trans {names : List String} {id : String} {R : Sub.Req} {s s' s'' : Sys}
    (h1 : Tr4 names id R s s') (h2 : Tr4 names id R s' s'') : Tr4 names id R s s'' :=
  ⟨h2.1, fun h => h2.2.1 (h1.2.1 h), fun h => h2.2.2.1 (h1.2.2.1 h), fun h => h2.2.2.2 (h1.2.2.2 h)⟩

theorem Tr4.refl {names : List String} {id : String} {R : Sub.Req} {s : Sys} (i : Inv2 names s) :
    Tr4 names id R s s := ⟨i, fun h => h, fun h => h, fun h => h⟩

theorem sys_ca {names : List String} {s : Sys} {vw' : String → View} (enc : String → String) (op : Cache.Op)
    (hne : ∀ x ∈ names, x ≠ "") (i : Inv2 names s)
    (hok : Feed.Op.ok s.sub.cache op) (hns : NoStarOp op) (hnadd : ∀ name, op ≠ .add name) (hnr : NotRemove op)
    (hev : EventsP PG Dne (s.sub.cache.step enc op).2.2)
    (hh' : Holds names { s with sub := C04Seq.hstep enc s.sub (.ca op) } vw') (id : String) (R : Sub.Req) :
    Tr4 names id R s { s with sub := C04Seq.hstep enc s.sub (.ca op) } :=
  ⟨inv2_ca enc op hne i hok hns hnadd hev hh', ca_k enc id R s.sub op i.h hok hns hnr⟩

theorem sys_connect {names : List String} {s : Sys} {vw : String → View} (enc : String → String)
    (hne : ∀ x ∈ names, x ≠ "") (hh : Holds names s vw) (i : Inv2 names s) (now : Int) (name : String)
    (hn : name ≠ "") (id : String) (R : Sub.Req) : Tr4 names id R s (s.connect enc now name) := by
  have hh' := hh.connect enc now name hn
  rw [connect_as_hstep enc now s name hh.alive] at hh' ⊢
  exact sys_ca enc (.connect name now) hne i trivial trivial (fun nm e => by cases e) trivial
    (eventsP_connect enc now s.sub.cache name hn i.h.sinv i.h.cok) hh' id R

theorem sys_deliver {names : List String} {s : Sys} {vw : String → View} (enc : String → String)
    (hne : ∀ x ∈ names, x ≠ "") (hh : Holds names s vw) (i : Inv2 names s) (now : Int) (name : String)
    (hn : name ≠ "") (hmem : name ∈ names) (it : TItem) (hok : Relay.itemOK true (vw name) it = true)
    (id : String) (R : Sub.Req) :
    Tr4 names id R s (s.deliver enc now (handleGNMIUpdate name it)) := by
  have hh' := hh.deliver enc now name hn hmem it hok
  have heq := deliver_as_hstep enc now s (handleGNMIUpdate name it) hh.alive hh'.alive
  rw [heq] at hh' ⊢
  cases it with
  | update pn n =>
    exact sys_ca enc (.update now false (stampTarget enc name pn n)) hne i (stamp_clean enc name pn n _ hok)
      trivial (fun nm e => by cases e) trivial
      (eventsP_update enc now s.sub.cache name hn i.h.sinv i.h.cok pn n _ hok) hh' id R
  | sync =>
    exact sys_ca enc (.sync name now) hne i trivial trivial (fun nm e => by cases e) trivial
      (eventsP_sync enc now s.sub.cache name hn i.h.sinv i.h.cok) hh' id R
  | error =>
    exact sys_ca enc (.update now true {}) hne i (fun u hu => by cases hu) trivial (fun nm e => by cases e)
      trivial eventsP_nil hh' id R
  | nilResponse =>
    exact sys_ca enc (.update now true {}) hne i (fun u hu => by cases hu) trivial (fun nm e => by cases e)
      trivial eventsP_nil hh' id R

theorem inv2_subscribe {names : List String} {s : Sys} {vw : String → View} (enc : String → String)
    (hne : ∀ x ∈ names, x ≠ "") (hh : Holds names s vw) (i : Inv2 names s) (id' target : String)
    (queries : List Path) : Inv2 names (s.step enc (.subscribe id' target queries)) := by
  simp only [Sys.step]
  rw [if_neg (by rw [hh.alive]; simp)]
  have hcache : (Sub.subscribe s.sub id' .absent (some (clientReq target .stream queries))).cache = s.sub.cache :=
    subscribe_cache _ _ _ _
  refine ⟨?_, ?_, ?_⟩
  · exact C04Seq.hstep_inv enc s.sub (.sub id' .absent (some (clientReq target .stream queries))) i.h trivial
  · exact subscribe_outP s.sub id' .absent _ (treesP_of_holds hne hh i.h.cok.names i.tin) i.out
  · intro U hU
    apply i.tin
    show (s.sub.cache.get U).isSome = true
    rw [← hcache]; exact hU

theorem sys_subscribe {names : List String} {s : Sys} {vw : String → View} (enc : String → String)
    (hne : ∀ x ∈ names, x ≠ "") (hh : Holds names s vw) (i : Inv2 names s) (id' target : String)
    (queries : List Path) (id : String) (R : Sub.Req) (hid : id' ≠ id) :
    Tr4 names id R s (s.step enc (.subscribe id' target queries)) := by
  refine ⟨inv2_subscribe enc hne hh i id' target queries, ?_⟩
  simp only [Sys.step]
  rw [if_neg (by rw [hh.alive]; simp)]
  obtain ⟨snew, hs, _⟩ := subscribe_new s.sub id' .absent (some (clientReq target .stream queries)) i.h.pre
  have hidn := subscribe_new_id s.sub id' .absent (some (clientReq target .stream queries))
  refine ⟨?_, ?_, ?_⟩
  · intro hk x hx hxid
    rcases hidn x hx with h | ⟨h, _⟩
    · exact hk x h hxid
    · exact absurd (h.symm.trans hxid) hid
  · rintro ⟨x, hx, hxid⟩
    refine ⟨x, ?_, hxid⟩
    show x ∈ (Sub.subscribe s.sub id' .absent (some (clientReq target .stream queries))).subs
    rw [hs]
    exact List.mem_append_left _ hx
  · intro hn x hx
    rcases hidn x hx with h | ⟨h, _⟩
    · exact hn x h
    · rw [h]; exact hid

/-- the side condition on the ids of the other subscribers of a run -/
def idOK (id : String) : Step → Prop
  | .subscribe id' _ _ => id' ≠ id
  | _ => True

theorem run_tr4 {names : List String} (enc : String → String) (hne : ∀ x ∈ names, x ≠ "") (id : String)
    (R : Sub.Req) :
    ∀ (steps : List Step) (s : Sys) (vw : String → View), Holds names s vw → Inv2 names s →
      (∀ x ∈ senders steps, x ∈ names) →
      (∀ name ∈ names, wellFormedFrom true (vw name) (itemsOf name steps) = true) →
      (∀ st ∈ steps, idOK id st) →
      Tr4 names id R s (s.run enc steps)
  | [], s, vw, _, i, _, _, _ => by simpa [Sys.run] using Tr4.refl i
  | .recv name first now it :: r, s, vw, h, i, hs, hwf, hid => by
    have hmem : name ∈ names := hs name (by simp [senders])
    have hn := hne name hmem
    have hw := hwf name hmem
    simp only [itemsOf, if_true, wellFormedFrom, Bool.and_eq_true] at hw
    have hst := h.step enc hne (.recv name first now it) ⟨hmem, hw.1⟩
    simp only at hst
    have htr : Tr4 names id R s (s.step enc (.recv name first now it)) := by
      simp only [Sys.step, Sys.recv]
      cases first with
      | false => exact sys_deliver enc hne h i now name hn hmem it hw.1 id R
      | true =>
        have t1 := sys_connect enc hne h i now name hn id R
        have t2 := sys_deliver enc hne (h.connect enc now name hn) t1.1 now name hn hmem it hw.1 id R
        exact t1.trans t2
    have ih := run_tr4 enc hne id R r _ _ hst htr.1 (fun x hx => hs x (by simp [senders, hx]))
      (fun nm hnm => by
        by_cases e : nm = name
        · subst e; simpa using hw.2
        · have := hwf nm hnm
          simp only [itemsOf, Ne.symm e, if_false] at this
          simpa [e] using this)
      (fun st hst' => hid st (List.mem_cons_of_mem _ hst'))
    have hrun : s.run enc (.recv name first now it :: r) = (s.step enc (.recv name first now it)).run enc r := by
      simp [Sys.run]
    rw [hrun]
    exact htr.trans ih
  | .subscribe id' target queries :: r, s, vw, h, i, hs, hwf, hid => by
    have hst := h.step enc hne (.subscribe id' target queries) trivial
    simp only at hst
    have htr := sys_subscribe enc hne h i id' target queries id R (hid _ (List.mem_cons_self ..))
    have ih := run_tr4 enc hne id R r _ _ hst htr.1 (fun x hx => hs x (by simpa [senders] using hx))
      (fun nm hnm => by simpa [itemsOf] using hwf nm hnm)
      (fun st hst' => hid st (List.mem_cons_of_mem _ hst'))
    have hrun : s.run enc (.subscribe id' target queries :: r) =
        (s.step enc (.subscribe id' target queries)).run enc r := by
      simp [Sys.run]
    rw [hrun]
    exact htr.trans ih

end C01S
end Gnmi
