import Gnmi.Lemmas.CacheState
/-!
The connection-state part of a target's metadata (`sync`, `connected`, `connectedAddress`,
`connectError`) is not disturbed by the periodic metadata refresh: `generateMetaUpdates` writes
back, through `gnmiUpdate`, exactly the values it has just read.  Used by C14 (`Reset` returns the
metadata to its initial values).
-/
namespace Gnmi
namespace Cache

/-- the connection-state fields of the metadata -/
def Flags (t : Target) : Bool × Bool × String × Option String :=
  (t.md.sync, t.md.connected, t.md.connectedAddr, t.md.connectError)

theorem updateCore_flags (cfg : Cfg) (now : Int) (t : Target) (rd : Bool) (path : Path) (n : Noti) (u : Upd) :
    Flags (updateCore cfg now t rd path n u).2.1 = Flags t := by
  unfold updateCore
  split
  · split
    · rfl
    · rfl
    · simp only
      split
      · rfl
      · split
        · rfl
        · split <;> rfl
  · split
    · rfl
    · simp only
      cases rd <;> rfl

/-- `v` repeats what the metadata already says under `name` -/
def CurrentVal (t : Target) (name : String) (v : Val) : Prop :=
  (name = "sync" → v = .scalar (.bool t.md.sync)) ∧
  (name = "connected" → v = .scalar (.bool t.md.connected)) ∧
  (name = "connectedAddress" → v = .scalar (.str t.md.connectedAddr)) ∧
  (name = "connectError" → ∃ s, t.md.connectError = some s ∧ v = .scalar (.str s))

theorem metaSideEffect_same {t t' : Target} {name : String} {v : Val}
    (h : metaSideEffect t name v = some t') (hv : CurrentVal t name v) : Flags t' = Flags t := by
  obtain ⟨h1, h2, h3, h4⟩ := hv
  unfold metaSideEffect at h
  split at h
  · rename_i hn
    rw [h1 hn] at h
    cases h; rfl
  · split at h
    · rename_i _ hn
      rw [h2 hn] at h
      cases h; rfl
    · split at h
      · rename_i _ _ hn
        rw [h3 hn] at h
        cases h; rfl
      · split at h
        · rename_i _ _ _ hn
          obtain ⟨s, hs, hvs⟩ := h4 hn
          rw [hvs] at h
          cases h
          simp [Flags, hs]
        · cases h; rfl

theorem gnmiUpdate1_meta_flags (cfg : Cfg) (enc : String → String) (now : Int) (t : Target) (name : String)
    (v : Scalar) (hn : t.name ≠ "") (hv : CurrentVal t name (.scalar v)) :
    Flags (Target.gnmiUpdate1 cfg now t (metaNoti enc t.name name v now)).2.1 = Flags t := by
  have hk : updKey? (metaNoti enc t.name name v now)
      { origin := "", path := [metaRoot, name], val := .scalar v,
        raw := rawMetaUpdate name (rawScalar enc v) enc } = some [metaRoot, name] := by
    simp [updKey?, joinKey?, metaNoti, hn]
  unfold Target.gnmiUpdate1
  simp only [metaNoti] at hk ⊢
  simp only [hk]
  unfold metaPre
  simp only [if_true]
  cases hm : metaSideEffect t name (.scalar v) with
  | none => rfl
  | some t' =>
    simp only [Option.map_some]
    rw [updateCore_flags]
    exact metaSideEffect_same hm hv

theorem genMetaOne_flags (cfg : Cfg) (enc : String → String) (now : Int) (emit : Bool)
    (acc : Target × List Event) (name : String) (v : Scalar) (isCur : Val → Bool)
    (hn : acc.1.name ≠ "") (hv : CurrentVal acc.1 name (.scalar v)) :
    Flags (genMetaOne cfg enc now emit acc name v isCur).1 = Flags acc.1 := by
  unfold genMetaOne
  split
  · rfl
  · split
    · rfl
    · simp only
      have := gnmiUpdate1_meta_flags cfg enc now acc.1 name v hn hv
      split <;> exact this

/-- what the three folds of `generateMetaUpdates` maintain -/
structure FlagInv (a b : Int) (f : Bool × Bool × String × Option String) (t : Target) : Prop where
  inv : TInvD a b t
  name : t.name ≠ ""
  flags : Flags t = f

theorem foldl_flagInv {a b : Int} {f : Bool × Bool × String × Option String}
    (g : Target × List Event → String → Target × List Event)
    (hg : ∀ acc x, FlagInv a b f acc.1 → FlagInv a b f (g acc x).1) :
    ∀ (l : List String) (acc : Target × List Event), FlagInv a b f acc.1 → FlagInv a b f (l.foldl g acc).1
  | [], _, h => h
  | x :: l, acc, h => foldl_flagInv g hg l (g acc x) (hg acc x h)

theorem genMetaOne_flagInv {a b : Int} {f : Bool × Bool × String × Option String}
    (cfg : Cfg) (enc : String → String) (now : Int) (emit : Bool)
    (acc : Target × List Event) (name : String) (v : Scalar) (isCur : Val → Bool)
    (h : FlagInv a b f acc.1) (hv : CurrentVal acc.1 name (.scalar v)) :
    FlagInv a b f (genMetaOne cfg enc now emit acc name v isCur).1 := by
  have hm := genMetaOne_ok cfg enc now emit acc name v isCur h.inv h.name
  exact ⟨hm.inv, by rw [hm.name]; exact h.name,
    (genMetaOne_flags cfg enc now emit acc name v isCur h.name hv).trans h.flags⟩

theorem genServerName_flagInv {a b : Int} {f : Bool × Bool × String × Option String}
    (cfg : Cfg) (enc : String → String) (now : Int) (emit : Bool)
    (acc : Target × List Event) (h : FlagInv a b f acc.1) :
    FlagInv a b f (genServerName cfg enc now emit acc).1 := by
  unfold genServerName
  split
  · apply genMetaOne_flagInv cfg enc now emit acc _ _ _ h
    refine ⟨?_, ?_, ?_, ?_⟩ <;> (intro e; exact absurd e (by decide))
  · exact h

theorem generateMetaUpdates_flags {a b : Int} (cfg : Cfg) (enc : String → String) (now : Int) (emit : Bool)
    (t : Target) (hi : TInvD a b t) (hn : t.name ≠ "") :
    Flags (t.generateMetaUpdates cfg enc now emit).1 = Flags t := by
  unfold Target.generateMetaUpdates
  have s1 := foldl_flagInv (a := a) (b := b) (f := Flags t) (fun acc name =>
      match acc.1.md.getBool name with
      | some v => genMetaOne cfg enc now emit acc name (.bool v)
          (fun sv => match sv with | .scalar (.bool b) => b == v | _ => false)
      | none => acc)
    (by
      intro acc x h
      split
      · rename_i v hv
        apply genMetaOne_flagInv cfg enc now emit acc x _ _ h
        unfold Meta.getBool at hv
        refine ⟨?_, ?_, ?_, ?_⟩
        · intro e; subst e; simp at hv; rw [hv]
        · intro e; subst e; simp at hv; rw [hv]
        · intro e; subst e; simp at hv
        · intro e; subst e; simp at hv
      · exact h) boolNames (t, []) ⟨hi, hn, rfl⟩
  have s2 := foldl_flagInv (a := a) (b := b) (f := Flags t) (fun acc name =>
      match acc.1.md.getInt name with
      | some v => genMetaOne cfg enc now emit acc name (.int v)
          (fun sv => match sv with | .scalar (.int i) => i == v | _ => false)
      | none => acc)
    (by
      intro acc x h
      split
      · rename_i v hv
        apply genMetaOne_flagInv cfg enc now emit acc x _ _ h
        unfold Meta.getInt at hv
        refine ⟨?_, ?_, ?_, ?_⟩ <;> (intro e; subst e; simp at hv)
      · exact h) intNames _ s1
  have s3 := foldl_flagInv (a := a) (b := b) (f := Flags t) (fun acc name =>
      match acc.1.md.getStr name with
      | some v => genMetaOne cfg enc now emit acc name (.str v)
          (fun sv => match sv with | .scalar (.str s) => s == v | _ => false)
      | none => acc)
    (by
      intro acc x h
      split
      · rename_i v hv
        apply genMetaOne_flagInv cfg enc now emit acc x _ _ h
        unfold Meta.getStr at hv
        refine ⟨?_, ?_, ?_, ?_⟩
        · intro e; subst e; simp at hv
        · intro e; subst e; simp at hv
        · intro e; subst e; simp at hv; rw [hv]
        · intro e; subst e; simp at hv; exact ⟨v, hv, rfl⟩
      · exact h) strNames _ s2
  exact (genServerName_flagInv cfg enc now emit _ s3).flags

theorem updateMeta_flags {a b : Int} (cfg : Cfg) (enc : String → String) (now : Int) (emit : Bool)
    (t : Target) (hi : TInvD a b t) (hn : t.name ≠ "") :
    Flags (t.updateMeta cfg enc now emit).1 = Flags t := by
  unfold Target.updateMeta
  exact generateMetaUpdates_flags cfg enc now emit _ (hi.with_md _ ⟨rfl, rfl, rfl⟩) hn

/-- **`Reset` returns the connection state to its initial values.** -/
theorem reset_flags (cfg : Cfg) (enc : String → String) (now : Int) (t : Target) (hi : TInv t) (hn : t.name ≠ "") :
    (t.reset cfg enc now).1.md.sync = false ∧ (t.reset cfg enc now).1.md.connected = false ∧
    (t.reset cfg enc now).1.md.connectedAddr = "" ∧ (t.reset cfg enc now).1.md.connectError = none := by
  have h0 : TInvD (0 - (nm t.tree : Nat)) 0 { t with latest := none, md := Meta.clear } :=
    ⟨hi.unique, hi.hasUpd, hi.nonEmpty, by simp [Meta.clear], by simp [Meta.clear]⟩
  have hf := updateMeta_flags cfg enc now true { t with latest := none, md := Meta.clear } h0 hn
  rw [reset_eq]
  simp only
  obtain ⟨d1, _, _, _⟩ := dropRoots_spec t.name now
    ((rootChildren (Target.updateMeta cfg enc now true { t with latest := none, md := Meta.clear }).1.tree).filter
      (· != metaRoot)) (Target.updateMeta cfg enc now true { t with latest := none, md := Meta.clear })
  rw [d1]
  unfold Flags at hf
  simp only [Prod.mk.injEq] at hf
  obtain ⟨f1, f2, f3, f4⟩ := hf
  exact ⟨f1, f2, f3, f4⟩

end Cache
end Gnmi
