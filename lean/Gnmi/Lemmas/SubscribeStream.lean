import Gnmi.Model.Subscribe
import Gnmi.Lemmas.CacheFeedState
import Gnmi.Lemmas.SubscribeWF
import Gnmi.Props.C05
/-!
# The subscriber-side replay of a STREAM subscription (sequential Subscribe model)

`replay` turns the responses delivered to a subscriber into a view keyed by the subscriber index
(`target :: key`), with the replay rule of `Spec/Feed.lean` (`applyEvent`): an update sets its
leaf, an atomic update replaces its subtree, a delete removes every key it `qmatches`.

This file holds the subscriber-side half of the convergence argument (C04, sequential model):
the per-key reading of the replay (`eff`, `lookup_applyResp`), the simplification under
`ExtFree` (an update never finds extensions of its key: atomic and plain updates then act the
same way), what the sender does with an open gate (`pump_open`), and the invariant relating the
queue built by `enqueueEvent` during one cache operation to the view that applies the same events
(`QInv`, `qstep_inv`).
-/
namespace Gnmi
namespace SubStream
open Cache Sub Feed

/-! ## replay of responses -/

/-- the subscriber index of an update response (as `respKV` of `Driver/SU.lean`) -/
def respKey (n : Noti) : Path :=
  subIndex n.target n.origin (n.pfx ++ (if n.atomic then [] else (n.upd.headD {}).path))

theorem respKey_eq (n : Noti) : respKey n = n.target :: evKey n := by
  unfold respKey subIndex evKey
  cases hu : n.upd with
  | nil =>
    have : (({} : Upd)).path = [] := rfl
    simp [joinKey, this]
  | cons u us =>
    simp [updKey, joinKey, List.append_assoc]

def applyResp (v : PMap Noti) : Resp → PMap Noti
  | .upd n _ =>
    if n.atomic then (respKey n, n) :: v.filter (fun kv => !(respKey n).isPrefixOf kv.1)
    else (respKey n, n) :: v.filter (fun kv => kv.1 != respKey n)
  | .del t o p _ _ => v.filter (fun kv => !qmatches (subIndex t o p) kv.1)
  | .sync => v

/-- the view of a subscriber: everything it was sent, replayed from the empty view -/
def replay (out : List (Resp × Bool)) : PMap Noti := out.foldl (fun v r => applyResp v r.1) []

/-- what one response does to the value held at index `κ` -/
def eff (κ : Path) : Resp → Option Noti → Option Noti
  | .upd n _, cur =>
    if respKey n = κ then some n else if n.atomic && (respKey n).isPrefixOf κ then none else cur
  | .del t o p _ _, cur => if qmatches (subIndex t o p) κ then none else cur
  | .sync, cur => cur

theorem lookup_applyResp (v : PMap Noti) (r : Resp) (κ : Path) :
    lookup (applyResp v r) κ = eff κ r (lookup v κ) := by
  cases r with
  | upd n d =>
    simp only [applyResp, eff]
    by_cases ha : n.atomic = true
    · simp only [ha, if_true, Bool.true_and]
      rw [lookup_cons, lookup_filter_key (fun k => !(respKey n).isPrefixOf k)]
      by_cases hk : respKey n = κ
      · simp [hk]
      · simp only [hk, if_false]
        cases (respKey n).isPrefixOf κ <;> simp
    · have ha' : n.atomic = false := by simpa using ha
      simp only [ha', Bool.false_eq_true, if_false, Bool.false_and]
      rw [lookup_cons, lookup_filter_key (fun k => k != respKey n)]
      by_cases hk : respKey n = κ
      · simp [hk]
      · have : (κ != respKey n) = true := by
          simp only [bne_iff_ne, ne_eq]; exact fun e => hk e.symm
        simp [hk, this]
  | del t o p ts d =>
    simp only [applyResp, eff]
    rw [lookup_filter_key (fun k => !qmatches (subIndex t o p) k)]
    cases qmatches (subIndex t o p) κ <;> simp
  | sync => rfl

/-- the response may change what is held at `κ` (conservatively: any update at a prefix) -/
def touches (κ : Path) : Resp → Bool
  | .upd n _ => (respKey n).isPrefixOf κ
  | .del t o p _ _ => qmatches (subIndex t o p) κ
  | .sync => false

theorem eff_not_touches {κ : Path} {r : Resp} (h : touches κ r = false) (cur : Option Noti) :
    eff κ r cur = cur := by
  cases r with
  | upd n d =>
    simp only [touches] at h
    have hne : respKey n ≠ κ := by
      intro e; rw [e, List.isPrefixOf_iff_prefix.2 (List.prefix_refl κ)] at h; cases h
    simp [eff, hne, h]
  | del t o p ts d =>
    simp only [touches] at h
    simp [eff, h]
  | sync => rfl

/-- the queue applied to a view, in queue order -/
def applyQ (W : PMap Noti) (Q : List (Item × Nat)) : PMap Noti :=
  Q.foldl (fun w x => applyResp w (toResp x)) W

theorem applyQ_append (W : PMap Noti) (a b : List (Item × Nat)) :
    applyQ W (a ++ b) = applyQ (applyQ W a) b := by
  simp [applyQ, List.foldl_append]

theorem applyQ_cons (W : PMap Noti) (x : Item × Nat) (Q : List (Item × Nat)) :
    applyQ W (x :: Q) = applyQ (applyResp W (toResp x)) Q := rfl

theorem replay_append (out : List (Resp × Bool)) (Q : List (Item × Nat)) (g : Bool) :
    replay (out ++ Q.map (fun x => (toResp x, g))) = applyQ (replay out) Q := by
  simp [replay, applyQ, List.foldl_append, List.foldl_map]

/-! ## `ExtFree`: an update never finds a key that extends its index, or that its index extends -/

def extOK (W : PMap Noti) : Resp → Prop
  | .upd n _ => ∀ κ, (respKey n <+: κ ∨ κ <+: respKey n) → κ ≠ respKey n → lookup W κ = none
  | _ => True

def ExtFree : PMap Noti → List (Item × Nat) → Prop
  | _, [] => True
  | W, x :: rest => extOK W (toResp x) ∧ ExtFree (applyResp W (toResp x)) rest

theorem extFree_append : ∀ (Q : List (Item × Nat)) (W : PMap Noti) (b : List (Item × Nat)),
    ExtFree W (Q ++ b) ↔ ExtFree W Q ∧ ExtFree (applyQ W Q) b
  | [], W, b => by simp [ExtFree, applyQ]
  | x :: Q, W, b => by
    simp only [List.cons_append, ExtFree, applyQ_cons]
    rw [extFree_append Q]
    exact and_assoc.symm

/-- the same for a list of responses -/
def ExtFreeR : PMap Noti → List (Resp × Bool) → Prop
  | _, [] => True
  | W, x :: rest => extOK W x.1 ∧ ExtFreeR (applyResp W x.1) rest

theorem extFreeR_append : ∀ (g : List (Resp × Bool)) (W : PMap Noti) (g' : List (Resp × Bool)),
    ExtFreeR W (g ++ g') ↔ ExtFreeR W g ∧ ExtFreeR (g.foldl (fun v r => applyResp v r.1) W) g'
  | [], W, g' => by simp [ExtFreeR]
  | x :: g, W, g' => by
    simp only [List.cons_append, ExtFreeR, List.foldl_cons]
    rw [extFreeR_append g]
    exact and_assoc.symm

theorem extFreeR_map (b : Bool) : ∀ (Q : List (Item × Nat)) (W : PMap Noti),
    ExtFreeR W (Q.map (fun x => (toResp x, b))) ↔ ExtFree W Q
  | [], _ => Iff.rfl
  | x :: Q, W => by
    simp only [List.map_cons, ExtFreeR, ExtFree]
    rw [extFreeR_map b Q]

/-- the simple "last writer wins" effect (no subtree removal) -/
def eff' (κ : Path) : Resp → Option Noti → Option Noti
  | .upd n _, cur => if respKey n = κ then some n else cur
  | .del t o p _ _, cur => if qmatches (subIndex t o p) κ then none else cur
  | .sync, cur => cur

theorem eff_eq_eff' {W : PMap Noti} {r : Resp} (h : extOK W r) (κ : Path) :
    eff κ r (lookup W κ) = eff' κ r (lookup W κ) := by
  cases r with
  | upd n d =>
    simp only [eff, eff']
    by_cases hk : respKey n = κ
    · simp [hk]
    · simp only [hk, if_false]
      split
      · rename_i hp
        simp only [Bool.and_eq_true] at hp
        exact (h κ (Or.inl (List.isPrefixOf_iff_prefix.1 hp.2)) (fun e => hk e.symm)).symm
      · rfl
  | del t o p ts d => rfl
  | sync => rfl

theorem eff'_not_touches {κ : Path} {r : Resp} (h : touches κ r = false) (cur : Option Noti) :
    eff' κ r cur = cur := by
  cases r with
  | upd n d =>
    simp only [touches] at h
    have hne : respKey n ≠ κ := by
      intro e; rw [e, List.isPrefixOf_iff_prefix.2 (List.prefix_refl κ)] at h; cases h
    simp [eff', hne]
  | del t o p ts d =>
    simp only [touches] at h
    simp [eff', h]
  | sync => rfl

/-- per-key fold of the simple effect -/
def val (κ : Path) (Q : List (Item × Nat)) (cur : Option Noti) : Option Noti :=
  Q.foldl (fun c x => eff' κ (toResp x) c) cur

theorem val_cons (κ : Path) (x : Item × Nat) (Q : List (Item × Nat)) (cur : Option Noti) :
    val κ (x :: Q) cur = val κ Q (eff' κ (toResp x) cur) := rfl

theorem val_append (κ : Path) (a b : List (Item × Nat)) (cur : Option Noti) :
    val κ (a ++ b) cur = val κ b (val κ a cur) := by
  simp [val, List.foldl_append]

/-- under `ExtFree` the replayed value at `κ` is the per-key fold -/
theorem lookup_applyQ : ∀ (Q : List (Item × Nat)) (W : PMap Noti), ExtFree W Q → ∀ κ,
    lookup (applyQ W Q) κ = val κ Q (lookup W κ)
  | [], _, _, _ => rfl
  | x :: Q, W, h, κ => by
    rw [applyQ_cons, lookup_applyQ Q _ h.2 κ, lookup_applyResp, eff_eq_eff' h.1, val_cons]

theorem val_not_touched (κ : Path) : ∀ (Q : List (Item × Nat)) (cur : Option Noti),
    (∀ x ∈ Q, touches κ (toResp x) = false) → val κ Q cur = cur
  | [], _, _ => rfl
  | x :: Q, cur, h => by
    rw [val_cons, eff'_not_touches (h x (List.mem_cons_self ..))]
    exact val_not_touched κ Q cur (fun y hy => h y (List.mem_cons_of_mem _ hy))

/-! ### key-equivalent views and same-key queues -/

/-- the two views hold the same keys -/
def KeyEq (W W' : PMap Noti) : Prop := ∀ κ, (lookup W κ).isSome = (lookup W' κ).isSome

/-- the two responses act on the same keys: equal, or updates with the same index -/
def SameKey (r r' : Resp) : Prop :=
  r = r' ∨ ∃ n d n' d', r = .upd n d ∧ r' = .upd n' d' ∧ respKey n = respKey n'

theorem sameKey_extOK {W W' : PMap Noti} {r r' : Resp} (hk : KeyEq W W') (hs : SameKey r r')
    (h : extOK W r) : extOK W' r' := by
  have none_of : ∀ κ, lookup W κ = none → lookup W' κ = none := by
    intro κ hn
    have := hk κ
    rw [hn] at this
    cases hl : lookup W' κ with
    | none => rfl
    | some v => rw [hl] at this; cases this
  rcases hs with rfl | ⟨n, d, n', d', rfl, rfl, hkey⟩
  · cases r with
    | upd n d => intro κ hp hne; exact none_of κ (h κ hp hne)
    | del t o p ts d => trivial
    | sync => trivial
  · intro κ hp hne
    rw [← hkey] at hp hne
    exact none_of κ (h κ hp hne)

theorem sameKey_keyEq {W W' : PMap Noti} {r r' : Resp} (hk : KeyEq W W') (hs : SameKey r r')
    (h : extOK W r) : KeyEq (applyResp W r) (applyResp W' r') := by
  have h' := sameKey_extOK hk hs h
  intro κ
  rw [lookup_applyResp, lookup_applyResp, eff_eq_eff' h, eff_eq_eff' h']
  rcases hs with rfl | ⟨n, d, n', d', rfl, rfl, hkey⟩
  · cases r with
    | upd n d =>
      simp only [eff']
      split
      · rfl
      · exact hk κ
    | del t o p ts d =>
      simp only [eff']
      split
      · rfl
      · exact hk κ
    | sync => exact hk κ
  · simp only [eff', hkey]
    split
    · rfl
    · exact hk κ

theorem extFree_map (f : Item × Nat → Item × Nat) : ∀ (Q : List (Item × Nat)) (W W' : PMap Noti), KeyEq W W' →
    (∀ x ∈ Q, SameKey (toResp x) (toResp (f x))) → ExtFree W Q →
    ExtFree W' (Q.map f) ∧ KeyEq (applyQ W Q) (applyQ W' (Q.map f))
  | [], W, W', hk, _, _ => ⟨trivial, hk⟩
  | x :: Q, W, W', hk, hf, h => by
    have hx := hf x (List.mem_cons_self ..)
    have := extFree_map f Q _ _ (sameKey_keyEq hk hx h.1) (fun y hy => hf y (List.mem_cons_of_mem _ hy)) h.2
    exact ⟨⟨sameKey_extOK hk hx h.1, this.1⟩, this.2⟩

theorem KeyEq.refl (W : PMap Noti) : KeyEq W W := fun _ => rfl

/-! ## the sender with an open gate -/

/-- with flow control open and nothing held, the sender forwards the whole queue in order, minus
what the ACL denies (or the RPC ends at a whole-target delete) -/
theorem pump_open_mk : ∀ (q : List (Item × Nat)) (fuel : Nat) (id : String) (req : Req) (acl : Acl)
    (regs : List Path) (status : Option Code) (gsd : Bool) (out : List (Resp × Bool)),
    fuel ≥ q.length + 1 →
    (pump fuel (Subscriber.mk id req acl regs true status false gsd none q false out)).alive = false ∨
    pump fuel (Subscriber.mk id req acl regs true status false gsd none q false out) =
      Subscriber.mk id req acl regs true status false gsd none [] false
        (out ++ (q.filter (fun x => !denied acl (toResp x))).map (fun x => (toResp x, gsd)))
  | [], fuel + 1, id, req, acl, regs, status, gsd, out, _ => by
    right
    simp [pump]
  | x :: rest, fuel + 1, id, req, acl, regs, status, gsd, out, hf => by
    by_cases hdx : denied acl (toResp x) = true
    · have ih := pump_open_mk rest fuel id req acl regs status gsd out (by simp at hf ⊢; omega)
      have hstep : pump (fuel + 1) (Subscriber.mk id req acl regs true status false gsd none (x :: rest) false out) =
          pump fuel (Subscriber.mk id req acl regs true status false gsd none rest false out) := by
        simp [pump, hdx]
      rw [hstep]
      rcases ih with ih | ih
      · left; exact ih
      · right
        rw [ih]
        simp [hdx]
    · have hdx' : denied acl (toResp x) = false := by simpa using hdx
      by_cases htd : (isTargetDelete (toResp x) && req.target != "*") = true
      · left
        simp [pump, hdx', htd]
      · have ih := pump_open_mk rest fuel id req acl regs status gsd (out ++ [(toResp x, gsd)])
          (by simp at hf ⊢; omega)
        have hstep : pump (fuel + 1) (Subscriber.mk id req acl regs true status false gsd none (x :: rest) false out) =
            pump fuel (Subscriber.mk id req acl regs true status false gsd none rest false (out ++ [(toResp x, gsd)])) := by
          simp [pump, hdx', htd]
        rw [hstep]
        rcases ih with ih | ih
        · left; exact ih
        · right
          rw [ih]
          simp [hdx', List.append_assoc]
  | [], 0, _, _, _, _, _, _, _, hf => by simp at hf
  | _ :: _, 0, _, _, _, _, _, _, _, hf => by simp at hf

theorem pumpAll_open (s : Subscriber) (ha : s.alive = true) (hb : s.blocked = none) (hg : s.gateShut = false)
    (hc : s.closed = false) :
    (pumpAll s).alive = false ∨
    pumpAll s = { s with queue := [], out := s.out ++
      (s.queue.filter (fun x => !denied s.acl (toResp x))).map (fun x => (toResp x, s.gatedSinceDrain)) } := by
  obtain ⟨id, req, acl, regs, alive, status, gateShut, gsd, blocked, queue, closed, out⟩ := s
  simp only at ha hb hg hc
  subst ha hb hg hc
  exact pump_open_mk queue _ id req acl regs status gsd out (by simp)

/-- a subscriber that has ended stays as it is -/
theorem pump_dead (fuel : Nat) (s : Subscriber) (h : s.alive = false) : pump fuel s = s := by
  cases fuel with
  | zero => rfl
  | succ n => unfold pump; simp [h]

/-! ## the queue part of `feed` -/

def offeredR (regs : List Path) (e : Event) : Bool :=
  regs.any (fun q => (eventPaths e).any (fun p => compatible q p))

/-- `enqueueEvent` after `freezeCovered`, on the queue alone -/
def qstep (regs : List Path) (q : List (Item × Nat)) (e : Event) : List (Item × Nat) :=
  if offeredR regs e then
    match e with
    | .upd n => insertHandle (freezeCovered e q) n.target (eventKey n) n
    | .del .. => freezeCovered e q ++ [(Item.note e, 0)]
  else freezeCovered e q

theorem enqueue_one (s : Subscriber) (e : Event) (ha : s.alive = true) (hc : s.closed = false) :
    enqueueEvent { s with queue := freezeCovered e s.queue } e = { s with queue := qstep s.regs s.queue e } := by
  obtain ⟨id, req, acl, regs, alive, status, gateShut, gsd, blocked, queue, closed, out⟩ := s
  simp only at ha hc
  subst ha hc
  unfold enqueueEvent qstep
  simp only [offered, offeredR]
  by_cases hoff : regs.any (fun q => (eventPaths e).any (fun p => compatible q p)) = true
  · cases e with
    | upd n => simp [hoff]
    | del t o p ts => simp [hoff]
  · simp [hoff]

theorem enqueue_fold (evs : List Event) : ∀ (s : Subscriber), s.alive = true → s.closed = false →
    evs.foldl (fun s e => enqueueEvent { s with queue := freezeCovered e s.queue } e) s =
      { s with queue := evs.foldl (qstep s.regs) s.queue } := by
  induction evs with
  | nil => intro s _ _; rfl
  | cons e evs ih =>
    intro s ha hc
    simp only [List.foldl_cons]
    rw [enqueue_one s e ha hc]
    exact ih _ ha hc

theorem enqueue_fold_dead (evs : List Event) : ∀ (s : Subscriber), s.alive = false →
    (evs.foldl (fun s e => enqueueEvent { s with queue := freezeCovered e s.queue } e) s).alive = false := by
  induction evs with
  | nil => intro s h; exact h
  | cons e evs ih =>
    intro s h
    simp only [List.foldl_cons]
    apply ih
    unfold enqueueEvent
    simp [h]

theorem toResp_freeze (e : Event) (x : Item × Nat) :
    toResp (match x.1 with
      | .handle t k last => if coversKey e t k then (Item.detached t k last, x.2) else x
      | _ => x) = toResp x := by
  obtain ⟨it, d⟩ := x
  cases it with
  | handle t k last =>
    simp only
    split <;> rfl
  | _ => rfl

theorem freezeCovered_upd (n : Noti) (q : List (Item × Nat)) : freezeCovered (.upd n) q = q := by
  induction q with
  | nil => rfl
  | cons x q ih =>
    unfold freezeCovered at ih ⊢
    rw [List.map_cons, ih]
    obtain ⟨it, d⟩ := x
    cases it <;> simp [coversKey]

/-! ## `insertHandle` when no handle sits before a covering delete item -/

theorem lastCover_aux (t : String) (k : Path) : ∀ (q : List (Item × Nat)) (n acc : Nat),
    let r := (q.zipIdx n).foldl (fun acc (x : (Item × Nat) × Nat) =>
      match x.1.1 with
      | .note e => if coversKey e t k then x.2 + 1 else acc
      | _ => acc) acc
    r = acc ∨ ∃ a e d b, q = a ++ (Item.note e, d) :: b ∧ coversKey e t k = true ∧ r = n + a.length + 1
  | [], n, acc => Or.inl rfl
  | x :: q, n, acc => by
    intro r
    have hr : r = (q.zipIdx (n + 1)).foldl (fun acc (x : (Item × Nat) × Nat) =>
        match x.1.1 with
        | .note e => if coversKey e t k then x.2 + 1 else acc
        | _ => acc)
        (match x.1 with
          | .note e => if coversKey e t k then n + 1 else acc
          | _ => acc) := by
      simp only [r, List.zipIdx_cons, List.foldl_cons]
    rcases lastCover_aux t k q (n + 1) (match x.1 with
          | .note e => if coversKey e t k then n + 1 else acc
          | _ => acc) with h | ⟨a, e, d, b, h1, h2, h3⟩
    · rw [← hr] at h
      obtain ⟨it, dd⟩ := x
      cases it with
      | note e =>
        simp only at h
        by_cases hc : coversKey e t k = true
        · right
          refine ⟨[], e, dd, q, rfl, hc, ?_⟩
          rw [h]; simp [hc]
        · left
          rw [h]; simp [hc]
      | handle => left; exact h
      | detached => left; exact h
      | sync => left; exact h
    · right
      rw [← hr] at h3
      refine ⟨x :: a, e, d, b, by rw [h1]; rfl, h2, ?_⟩
      rw [h3]; simp; omega

theorem lastCover_spec (t : String) (k : Path) (q : List (Item × Nat)) :
    lastCover q t k = 0 ∨
    ∃ a e d b, q = a ++ (Item.note e, d) :: b ∧ coversKey e t k = true ∧ lastCover q t k = a.length + 1 := by
  have := lastCover_aux t k q 0 0
  simp only [Nat.zero_add] at this
  exact this

/-- no handle for `(t, k)` is queued before a delete item covering it -/
def NoHandleBeforeCover (q : List (Item × Nat)) (t : String) (k : Path) : Prop :=
  ∀ a e d b, q = a ++ (Item.note e, d) :: b → coversKey e t k = true → ∀ x ∈ a, isHandleFor t k x.1 = false

theorem insertHandle_eq (q : List (Item × Nat)) (t : String) (k : Path) (n : Noti)
    (h : NoHandleBeforeCover q t k) :
    insertHandle q t k n =
      if q.any (fun x => isHandleFor t k x.1) then
        q.map (fun x => if isHandleFor t k x.1 then (Item.handle t k n, x.2 + 1) else x)
      else q ++ [(Item.handle t k n, 0)] := by
  have hpre : ∀ x ∈ q.take (lastCover q t k), isHandleFor t k x.1 = false := by
    rcases lastCover_spec t k q with h0 | ⟨a, e, d, b, h1, h2, h3⟩
    · rw [h0]; simp
    · intro x hx
      have hq : q = (a ++ [(Item.note e, d)]) ++ b := by rw [h1]; simp
      rw [h3] at hx
      have ht : q.take (a.length + 1) = a ++ [(Item.note e, d)] := by
        rw [hq]; exact List.take_left' (by simp)
      rw [ht] at hx
      rcases List.mem_append.1 hx with hx | hx
      · exact h a e d b h1 h2 x hx
      · simp only [List.mem_singleton] at hx
        rw [hx]; rfl
  have hsplit := List.take_append_drop (lastCover q t k) q
  have hany : q.any (fun x => isHandleFor t k x.1) =
      (q.drop (lastCover q t k)).any (fun x => isHandleFor t k x.1) := by
    conv => lhs; rw [← hsplit]
    rw [List.any_append]
    have : (q.take (lastCover q t k)).any (fun x => isHandleFor t k x.1) = false := by
      rw [List.any_eq_false]
      intro x hx
      simp [hpre x hx]
    rw [this, Bool.false_or]
  have hmap : q.map (fun x => if isHandleFor t k x.1 then (Item.handle t k n, x.2 + 1) else x) =
      q.take (lastCover q t k) ++
        (q.drop (lastCover q t k)).map (fun x => if isHandleFor t k x.1 then (Item.handle t k n, x.2 + 1) else x) := by
    conv => lhs; rw [← hsplit]
    rw [List.map_append]
    congr 1
    conv => rhs; rw [← List.map_id (q.take (lastCover q t k))]
    apply List.map_congr_left
    intro x hx
    simp [hpre x hx]
  unfold insertHandle
  simp only
  rw [hany, hmap]

/-! ## path facts -/

theorem compatible_append_left : ∀ (q a b : Path), compatible q (a ++ b) = true → compatible q a = true
  | [], a, _, _ => Match.compatible_nil_left a
  | _ :: _, [], _, _ => Match.compatible_nil_right _
  | g :: q, x :: a, b, h => by
    rw [List.cons_append, Match.compatible_cons_cons] at h
    rw [Match.compatible_cons_cons]
    simp only [Bool.and_eq_true] at h ⊢
    exact ⟨h.1, compatible_append_left q a b h.2⟩

theorem compatible_of_qmatches_append : ∀ (q a b : Path), qmatches q a = true → compatible q (a ++ b) = true
  | [], _, _, _ => Match.compatible_nil_left _
  | [g], [], b, h => by
    cases b with
    | nil => exact Match.compatible_nil_right _
    | cons x b =>
      have hg : (g == glob) = true := h
      rw [List.nil_append, Match.compatible_cons_cons]
      simp [hg, Match.compatible_nil_left]
  | _ :: _ :: _, [], _, h => by cases h
  | g :: q, x :: a, b, h => by
    rw [C06.qmatches_cons_cons] at h
    rw [List.cons_append, Match.compatible_cons_cons]
    simp only [Bool.and_eq_true, Bool.or_eq_true] at h ⊢
    refine ⟨?_, compatible_of_qmatches_append q a b h.2⟩
    rcases h.1 with h1 | h1
    · exact Or.inl (Or.inl h1)
    · exact Or.inr h1

theorem globFree_of_not_mem {k : Path} (h : glob ∉ k) : SubLTS.globFree k = true := by
  unfold SubLTS.globFree
  rw [List.all_eq_true]
  intro x hx
  simp only [bne_iff_ne, ne_eq]
  intro e; rw [e] at hx; exact h hx

theorem subIndex_append (t o : String) (a b : Path) : subIndex t o (a ++ b) = subIndex t o a ++ b := by
  simp [subIndex, List.append_assoc]

theorem subIndex_eq (t o : String) (p : Path) : subIndex t o p = t :: ((if o = "" then [] else [o]) ++ p) := rfl

theorem qmatches_target {te t : String} (hte : te ≠ glob) (dq k : Path) :
    qmatches (te :: dq) (t :: k) = (decide (te = t) && qmatches dq k) := by
  rw [C06.qmatches_cons_cons]
  have : (te == glob) = false := by simpa using hte
  rw [this, Bool.false_or]
  congr 1

/-! ## the view side: one event on the per-target views -/

/-- the shape of an update event of the cache's feed, relative to the views before it: its
target is not the wildcard, its index holds no wildcard, a plain leaf carries exactly one update
(an atomic one at least one), and its index neither extends nor is extended by another key held -/
def GoodEv (V : Views) : Event → Prop
  | .upd n => n.target ≠ glob ∧ glob ∉ evKey n ∧
      ((n.atomic = true ∧ n.upd ≠ []) ∨ (n.atomic = false ∧ ∃ u, n.upd = [u])) ∧
      ∀ kv ∈ V n.target, kv.1 ≠ evKey n → ¬ evKey n <+: kv.1 ∧ ¬ kv.1 <+: evKey n
  | .del t _ _ _ => t ≠ glob

structure VOK (V : Views) : Prop where
  pf : ∀ t, PrefixFree (V t)
  noGlob : ∀ t, ∀ kv ∈ V t, glob ∉ kv.1
  star : V glob = []

theorem lookup_applyS_upd {V : Views} {n : Noti} (hg : GoodEv V (.upd n)) (t : String) (k : Path) :
    lookup (applyS V (.upd n) t) k = if t = n.target ∧ k = evKey n then some n else lookup (V t) k := by
  unfold applyS
  simp only [evTarget]
  by_cases ht : t = n.target
  · subst ht
    simp only [if_true, true_and]
    simp only [applyEvent]
    by_cases hk : k = evKey n
    · subst hk
      split <;> simp [lookup_cons]
    · have hk' : ¬ evKey n = k := fun e => hk e.symm
      simp only [hk, if_false]
      split
      · rw [lookup_cons, lookup_filter_key (fun k' => !(evKey n).isPrefixOf k')]
        simp only [hk', if_false]
        cases hp : (evKey n).isPrefixOf k with
        | false => simp
        | true =>
          simp only [Bool.not_true, Bool.false_eq_true, if_false]
          cases hl : lookup (V n.target) k with
          | none => rfl
          | some v =>
            exact absurd (List.isPrefixOf_iff_prefix.1 hp) (hg.2.2.2 (k, v) (mem_of_lookup_some hl) hk).1
      · rw [lookup_cons, lookup_filter_key (fun k' => k' != evKey n)]
        have : (k != evKey n) = true := by simpa using hk
        simp [hk', this]
  · simp [ht]

theorem lookup_applyS_del (V : Views) (te o : String) (p : Path) (ts : Int) (t : String) (k : Path) :
    lookup (applyS V (.del te o p ts) t) k =
      if t = te ∧ qmatches ((if o = "" then [] else [o]) ++ p) k = true then none else lookup (V t) k := by
  unfold applyS
  simp only [evTarget]
  by_cases ht : t = te
  · subst ht
    simp only [if_true, true_and, applyEvent]
    rw [lookup_filter_key (fun k' => !qmatches ((if o = "" then [] else [o]) ++ p) k')]
    cases qmatches ((if o = "" then [] else [o]) ++ p) k <;> simp
  · simp [ht]

theorem VOK.step {V : Views} {e : Event} (hV : VOK V) (hg : GoodEv V e) : VOK (applyS V e) := by
  cases e with
  | upd n =>
    have hmem : ∀ t, ∀ kv ∈ applyS V (.upd n) t, (t = n.target ∧ kv = (evKey n, n)) ∨ kv ∈ V t := by
      intro t kv hkv
      unfold applyS at hkv
      simp only [evTarget] at hkv
      by_cases ht : t = n.target
      · subst ht
        simp only [if_true, applyEvent] at hkv
        split at hkv
        · rcases List.mem_cons.1 hkv with h | h
          · exact Or.inl ⟨rfl, h⟩
          · exact Or.inr (List.mem_filter.1 h).1
        · rcases List.mem_cons.1 hkv with h | h
          · exact Or.inl ⟨rfl, h⟩
          · exact Or.inr (List.mem_filter.1 h).1
      · simp only [ht, if_false] at hkv
        exact Or.inr hkv
    refine ⟨?_, ?_, ?_⟩
    · intro t a ha b hb hab
      rcases hmem t a ha with ⟨hta, rfl⟩ | ha' <;> rcases hmem t b hb with ⟨ht, rfl⟩ | hb'
      · rfl
      · by_cases hbk : b.1 = evKey n
        · exact hbk.symm
        · rw [hta] at hb'
          exact absurd hab (hg.2.2.2 b hb' hbk).1
      · by_cases hak : a.1 = evKey n
        · exact hak
        · rw [ht] at ha'
          exact absurd hab (hg.2.2.2 a ha' hak).2
      · exact hV.pf t a ha' b hb' hab
    · intro t kv hkv
      rcases hmem t kv hkv with ⟨_, rfl⟩ | h
      · exact hg.2.1
      · exact hV.noGlob t kv h
    · unfold applyS
      have : glob ≠ evTarget (.upd n) := fun e => hg.1 e.symm
      simp only [this, if_false]
      exact hV.star
  | del te o p ts =>
    have hsub : ∀ t, ∀ kv ∈ applyS V (.del te o p ts) t, kv ∈ V t := by
      intro t kv hkv
      unfold applyS at hkv
      split at hkv
      · exact (List.mem_filter.1 hkv).1
      · exact hkv
    refine ⟨?_, ?_, ?_⟩
    · intro t a ha b hb; exact hV.pf t a (hsub t a ha) b (hsub t b hb)
    · intro t kv hkv; exact hV.noGlob t kv (hsub t kv hkv)
    · unfold applyS
      have : glob ≠ evTarget (.del te o p ts) := fun e => hg e.symm
      simp only [this, if_false]
      exact hV.star

/-! ## what is offered -/

/-- the targets a subscription for `T` concerns -/
def tOK (T t : String) : Prop := T = glob ∨ t = T

/-- every registered query starts with the subscription's target -/
def RegsOK (T : String) (regs : List Path) : Prop := ∀ q ∈ regs, ∃ q', q = T :: q'

/-- a plain leaf carries exactly one update, an atomic one at least one -/
def Shape (n : Noti) : Prop := (n.atomic = true ∧ n.upd ≠ []) ∨ (n.atomic = false ∧ ∃ u, n.upd = [u])

theorem eventKey_eq (n : Noti) : eventKey n = evKey n := rfl

theorem eventPaths_head {e : Event} {p : Path} (h : p ∈ eventPaths e) : ∃ rest, p = evTarget e :: rest := by
  cases e with
  | upd n =>
    simp only [eventPaths, List.mem_map] at h
    obtain ⟨u, _, rfl⟩ := h
    exact ⟨_, rfl⟩
  | del t o q ts =>
    simp only [eventPaths, List.mem_singleton] at h
    subst h
    exact ⟨_, rfl⟩

theorem offered_tOK {T : String} {regs : List Path} {e : Event} (hr : RegsOK T regs) (hne : evTarget e ≠ glob)
    (h : offeredR regs e = true) : tOK T (evTarget e) := by
  unfold offeredR at h
  obtain ⟨q, hq, hany⟩ := List.any_eq_true.1 h
  obtain ⟨p, hp, hc⟩ := List.any_eq_true.1 hany
  obtain ⟨q', rfl⟩ := hr q hq
  obtain ⟨rest, rfl⟩ := eventPaths_head hp
  rw [Match.compatible_cons_cons] at hc
  simp only [Bool.and_eq_true, Bool.or_eq_true, beq_iff_eq] at hc
  rcases hc.1 with (h1 | h1) | h1
  · exact Or.inl h1
  · exact absurd h1 hne
  · exact Or.inr h1.symm

theorem eventPaths_upd_ext {n : Noti} (hs : Shape n) :
    (∃ p, p ∈ eventPaths (.upd n)) ∧ ∀ p ∈ eventPaths (.upd n), ∃ ext, p = respKey n ++ ext := by
  rcases hs with ⟨ha, hu⟩ | ⟨ha, u, hu⟩
  · constructor
    · cases hup : n.upd with
      | nil => exact absurd hup hu
      | cons u us => exact ⟨_, by simp only [eventPaths, hup, List.map_cons]; exact List.mem_cons_self ..⟩
    · intro p hp
      simp only [eventPaths, List.mem_map] at hp
      obtain ⟨u, _, rfl⟩ := hp
      refine ⟨u.path, ?_⟩
      unfold respKey
      simp only [ha, if_true, List.append_nil]
      exact subIndex_append ..
  · constructor
    · exact ⟨_, by simp only [eventPaths, hu, List.map_cons]; exact List.mem_cons_self ..⟩
    · intro p hp
      simp only [eventPaths, hu, List.map_cons, List.map_nil, List.mem_singleton] at hp
      subst hp
      refine ⟨[], ?_⟩
      unfold respKey
      simp [ha, hu]

theorem offered_upd_compat {regs : List Path} {n : Noti} (hs : Shape n) (h : offeredR regs (.upd n) = true) :
    regs.any (fun q => compatible q (respKey n)) = true := by
  unfold offeredR at h
  obtain ⟨q, hq, hany⟩ := List.any_eq_true.1 h
  obtain ⟨p, hp, hc⟩ := List.any_eq_true.1 hany
  obtain ⟨ext, rfl⟩ := (eventPaths_upd_ext hs).2 p hp
  exact List.any_eq_true.2 ⟨q, hq, compatible_append_left _ _ _ hc⟩

theorem matched_offered {regs : List Path} {n : Noti} (hs : Shape n)
    (h : regs.any (fun q => qmatches q (respKey n)) = true) : offeredR regs (.upd n) = true := by
  obtain ⟨q, hq, hm⟩ := List.any_eq_true.1 h
  obtain ⟨⟨p, hp⟩, hall⟩ := eventPaths_upd_ext hs
  obtain ⟨ext, rfl⟩ := hall p hp
  unfold offeredR
  exact List.any_eq_true.2 ⟨q, hq, List.any_eq_true.2 ⟨_, hp, compatible_of_qmatches_append _ _ _ hm⟩⟩

theorem covers_offered {regs : List Path} {t o : String} {p : Path} (ts : Int) {κ : Path}
    (hc : qmatches (subIndex t o p) κ = true) (hg : glob ∉ κ)
    (hq : regs.any (fun q => compatible q κ) = true) : offeredR regs (.del t o p ts) = true := by
  obtain ⟨q, hq, hm⟩ := List.any_eq_true.1 hq
  unfold offeredR
  refine List.any_eq_true.2 ⟨q, hq, ?_⟩
  simp only [eventPaths, List.any_cons, List.any_nil, Bool.or_false]
  exact SubLTS.compatible_of_covers q _ κ (globFree_of_not_mem hg) hc hm

/-! ## the queue invariant during one cache operation -/

/-- a queued handle is not touched by what is queued behind it -/
def noAff (x y : Item × Nat) : Prop :=
  match x.1 with
  | .handle t k _ => touches (t :: k) (toResp y) = false
  | _ => True

def itemOK (T : String) (V : Views) : Item → Prop
  | .handle t k n => n.target = t ∧ evKey n = k ∧ (lookup (V t) k).isSome = true ∧ tOK T t
  | .detached t _ n => n.target = t ∧ tOK T t ∧ t ≠ glob
  | .note e => ∃ t o p ts, e = .del t o p ts ∧ tOK T t ∧ t ≠ glob
  | .sync => False

/-- `W0`: the subscriber's view before the operation; `V`: the views that have applied the
operation's events so far; `Q`: the queue built from them -/
structure QInv (cfg : Cfg) (T : String) (regs : List Path) (W0 : PMap Noti) (V : Views)
    (Q : List (Item × Nat)) : Prop where
  ext : ExtFree W0 Q
  pw : Q.Pairwise noAff
  items : ∀ x ∈ Q, itemOK T V x.1
  jv : ∀ κ, (lookup (applyQ W0 Q) κ).isSome = true →
    ∃ t k, κ = t :: k ∧ (lookup (V t) k).isSome = true ∧ regs.any (fun q => compatible q κ) = true
  jm : ∀ t k, regs.any (fun q => qmatches q (t :: k)) = true →
    Sim cfg (lookup (applyQ W0 Q) (t :: k)) (lookup (V t) k)

theorem sim_refl (cfg : Cfg) (a : Option Noti) : Sim cfg a a := by
  cases a with
  | none => trivial
  | some v => exact Or.inl rfl

theorem isSome_mono_upd {V : Views} {n : Noti} (hg : GoodEv V (.upd n)) {t : String} {k : Path}
    (h : (lookup (V t) k).isSome = true) : (lookup (applyS V (.upd n) t) k).isSome = true := by
  rw [lookup_applyS_upd hg]
  split
  · rfl
  · exact h

theorem itemOK_mono_upd {T : String} {V : Views} {n : Noti} (hg : GoodEv V (.upd n)) {it : Item}
    (h : itemOK T V it) : itemOK T (applyS V (.upd n)) it := by
  cases it with
  | handle t k m => exact ⟨h.1, h.2.1, isSome_mono_upd hg h.2.2.1, h.2.2.2⟩
  | detached t k m => exact h
  | note e => exact h
  | sync => exact h

theorem good_ext_none {V : Views} {n : Noti} (hg : GoodEv V (.upd n)) {t : String} {k : Path}
    (hp : respKey n <+: t :: k) (hne : t :: k ≠ respKey n) : lookup (V t) k = none := by
  rw [respKey_eq] at hp hne
  rw [List.cons_prefix_cons] at hp
  obtain ⟨rfl, hp⟩ := hp
  have hk : k ≠ evKey n := fun e => hne (by rw [e])
  cases hl : lookup (V n.target) k with
  | none => rfl
  | some v => exact absurd hp (hg.2.2.2 (k, v) (mem_of_lookup_some hl) hk).1

theorem good_pre_none {V : Views} {n : Noti} (hg : GoodEv V (.upd n)) {t : String} {k : Path}
    (hp : t :: k <+: respKey n) (hne : t :: k ≠ respKey n) : lookup (V t) k = none := by
  rw [respKey_eq] at hp hne
  rw [List.cons_prefix_cons] at hp
  obtain ⟨rfl, hp⟩ := hp
  have hk : k ≠ evKey n := fun e => hne (by rw [e])
  cases hl : lookup (V n.target) k with
  | none => rfl
  | some v => exact absurd hp (hg.2.2.2 (k, v) (mem_of_lookup_some hl) hk).2

theorem qinv_upd_skip {cfg : Cfg} {T : String} {regs : List Path} {W0 : PMap Noti} {V : Views}
    {Q : List (Item × Nat)} {n : Noti} (hg : GoodEv V (.upd n)) (hoff : offeredR regs (.upd n) = false)
    (h : QInv cfg T regs W0 V Q) : QInv cfg T regs W0 (applyS V (.upd n)) Q := by
  refine ⟨h.ext, h.pw, fun x hx => itemOK_mono_upd hg (h.items x hx), ?_, ?_⟩
  · intro κ hκ
    obtain ⟨t, k, e, hv, hc⟩ := h.jv κ hκ
    exact ⟨t, k, e, isSome_mono_upd hg hv, hc⟩
  · intro t k hm
    rw [lookup_applyS_upd hg]
    split
    · rename_i hc
      exfalso
      have : t :: k = respKey n := by rw [respKey_eq, hc.1, hc.2]
      rw [this] at hm
      rw [matched_offered hg.2.2.1 hm] at hoff
      cases hoff
    · exact h.jm t k hm

theorem isHandleFor_elim {t : String} {k : Path} {it : Item} (h : isHandleFor t k it = true) :
    ∃ m, it = .handle t k m := by
  cases it with
  | handle t' k' m =>
    simp only [isHandleFor, Bool.and_eq_true, beq_iff_eq] at h
    exact ⟨m, by rw [h.1, h.2]⟩
  | detached => cases h
  | note => cases h
  | sync => cases h

theorem lookup_snoc (W0 : PMap Noti) (Q : List (Item × Nat)) (x : Item × Nat) (κ : Path) :
    lookup (applyQ W0 (Q ++ [x])) κ = eff κ (toResp x) (lookup (applyQ W0 Q) κ) := by
  rw [applyQ_append]
  exact lookup_applyResp _ _ _

theorem lookup_upd_self {V : Views} {n : Noti} (hg : GoodEv V (.upd n)) :
    lookup (applyS V (.upd n) n.target) (evKey n) = some n := by
  rw [lookup_applyS_upd hg]; simp

/-- an offered update for a leaf without a pending handle is appended -/
theorem qinv_upd_new {cfg : Cfg} {T : String} {regs : List Path} {W0 : PMap Noti} {V : Views}
    {Q : List (Item × Nat)} {n : Noti} (hg : GoodEv V (.upd n)) (hr : RegsOK T regs)
    (hoff : offeredR regs (.upd n) = true)
    (hany : Q.any (fun x => isHandleFor n.target (evKey n) x.1) = false)
    (h : QInv cfg T regs W0 V Q) :
    QInv cfg T regs W0 (applyS V (.upd n)) (Q ++ [(Item.handle n.target (evKey n) n, 0)]) := by
  have hW : ∀ κ, lookup (applyQ W0 (Q ++ [(Item.handle n.target (evKey n) n, 0)])) κ =
      eff κ (.upd n 0) (lookup (applyQ W0 Q) κ) := fun κ => lookup_snoc W0 Q _ κ
  refine ⟨?_, ?_, ?_, ?_, ?_⟩
  · refine (extFree_append Q W0 _).2 ⟨h.ext, ?_, trivial⟩
    show extOK (applyQ W0 Q) (.upd n 0)
    intro κ hp hne
    cases hl : lookup (applyQ W0 Q) κ with
    | none => rfl
    | some v =>
      obtain ⟨t, k, rfl, hv, _⟩ := h.jv κ (by rw [hl]; rfl)
      rcases hp with hp | hp
      · rw [good_ext_none hg hp hne] at hv
        cases hv
      · rw [good_pre_none hg hp hne] at hv
        cases hv
  · refine List.pairwise_append.2 ⟨h.pw, List.pairwise_singleton _ _, ?_⟩
    intro a ha b hb
    simp only [List.mem_singleton] at hb
    subst hb
    have hi := h.items a ha
    have hna := List.any_eq_false.1 hany a ha
    obtain ⟨it, d⟩ := a
    cases it with
    | handle t' k' n' =>
      show touches (t' :: k') (.upd n 0) = false
      cases htc : touches (t' :: k') (.upd n 0) with
      | false => rfl
      | true =>
        exfalso
        have hp : respKey n <+: t' :: k' := List.isPrefixOf_iff_prefix.1 htc
        by_cases hk : t' :: k' = respKey n
        · rw [respKey_eq] at hk
          injection hk with h1 h2
          apply hna
          simp [isHandleFor, h1, h2]
        · have := good_ext_none hg hp hk
          have hv := hi.2.2.1
          rw [this] at hv
          cases hv
    | detached => trivial
    | note => trivial
    | sync => trivial
  · intro x hx
    rcases List.mem_append.1 hx with hx | hx
    · exact itemOK_mono_upd hg (h.items x hx)
    · simp only [List.mem_singleton] at hx
      subst hx
      exact ⟨rfl, rfl, by rw [lookup_upd_self hg]; rfl, offered_tOK (e := .upd n) hr hg.1 hoff⟩
  · intro κ hκ
    rw [hW] at hκ
    simp only [eff] at hκ
    split at hκ
    · rename_i hk
      refine ⟨n.target, evKey n, by rw [← hk, respKey_eq], by rw [lookup_upd_self hg]; rfl, ?_⟩
      rw [← hk]; exact offered_upd_compat hg.2.2.1 hoff
    · split at hκ
      · cases hκ
      · obtain ⟨t, k, e, hv, hc⟩ := h.jv κ hκ
        exact ⟨t, k, e, isSome_mono_upd hg hv, hc⟩
  · intro t k hm
    rw [hW]
    simp only [eff]
    by_cases hk : respKey n = t :: k
    · rw [if_pos hk]
      rw [respKey_eq] at hk
      injection hk with h1 h2
      subst h1 h2
      rw [lookup_upd_self hg]
      exact Or.inl rfl
    · rw [if_neg hk]
      have hcond : ¬ (t = n.target ∧ k = evKey n) := fun c => hk (by rw [respKey_eq, c.1, c.2])
      rw [lookup_applyS_upd hg, if_neg hcond]
      split
      · rename_i hp
        simp only [Bool.and_eq_true] at hp
        rw [good_ext_none hg (List.isPrefixOf_iff_prefix.1 hp.2) (fun e => hk e.symm)]
        trivial
      · exact h.jm t k hm

theorem sameKey_touches {r r' : Resp} (h : SameKey r r') (κ : Path) : touches κ r = touches κ r' := by
  rcases h with rfl | ⟨n, d, n', d', rfl, rfl, hk⟩
  · rfl
  · simp [touches, hk]

theorem val_map_congr (κ : Path) (f : Item × Nat → Item × Nat) : ∀ (Q : List (Item × Nat)) (cur : Option Noti),
    (∀ x ∈ Q, ∀ c, eff' κ (toResp (f x)) c = eff' κ (toResp x) c) → val κ (Q.map f) cur = val κ Q cur
  | [], _, _ => rfl
  | x :: Q, cur, h => by
    rw [List.map_cons, val_cons, val_cons, h x (List.mem_cons_self ..)]
    exact val_map_congr κ f Q _ (fun y hy => h y (List.mem_cons_of_mem _ hy))

/-! ### replacing the notification a queued handle shows (coalescing, `refreshQueue`) -/

/-- `x'` is `x`, or both are handles of the same leaf showing notifications stored at its index -/
def HRepl (x x' : Item × Nat) : Prop :=
  x' = x ∨ ∃ t k m m' d d', x = (Item.handle t k m, d) ∧ x' = (Item.handle t k m', d') ∧
    respKey m = t :: k ∧ respKey m' = t :: k

theorem HRepl.sameKey {x x' : Item × Nat} (h : HRepl x x') : SameKey (toResp x) (toResp x') := by
  rcases h with rfl | ⟨t, k, m, m', d, d', rfl, rfl, h1, h2⟩
  · exact Or.inl rfl
  · exact Or.inr ⟨m, d, m', d', rfl, rfl, h1.trans h2.symm⟩

theorem HRepl.noAff_left {x x' : Item × Nat} (h : HRepl x x') (y : Item × Nat) : noAff x' y ↔ noAff x y := by
  rcases h with rfl | ⟨t, k, m, m', d, d', rfl, rfl, _, _⟩
  · exact Iff.rfl
  · exact Iff.rfl

theorem noAff_right {y y' : Item × Nat} (h : SameKey (toResp y) (toResp y')) (x : Item × Nat) :
    noAff x y' ↔ noAff x y := by
  obtain ⟨it, d⟩ := x
  cases it with
  | handle t k m =>
    show touches (t :: k) (toResp y') = false ↔ touches (t :: k) (toResp y) = false
    rw [sameKey_touches h]
  | detached => exact Iff.rfl
  | note => exact Iff.rfl
  | sync => exact Iff.rfl

theorem pairwise_hrepl {Q : List (Item × Nat)} (f : Item × Nat → Item × Nat) (hf : ∀ x ∈ Q, HRepl x (f x))
    (h : Q.Pairwise noAff) : (Q.map f).Pairwise noAff := by
  rw [List.pairwise_map]
  refine h.imp_of_mem ?_
  intro a b ha hb hab
  rw [(hf a ha).noAff_left, noAff_right (hf b hb).sameKey]
  exact hab

theorem extFree_hrepl {Q : List (Item × Nat)} {W0 : PMap Noti} (f : Item × Nat → Item × Nat)
    (hf : ∀ x ∈ Q, HRepl x (f x)) (h : ExtFree W0 Q) :
    ExtFree W0 (Q.map f) ∧ KeyEq (applyQ W0 Q) (applyQ W0 (Q.map f)) :=
  extFree_map f Q W0 W0 (KeyEq.refl _) (fun x hx => (hf x hx).sameKey) h

/-- a key that is not the index of a replaced handle keeps its value -/
theorem lookup_hrepl_other {Q : List (Item × Nat)} {W0 : PMap Noti} (f : Item × Nat → Item × Nat)
    (hf : ∀ x ∈ Q, HRepl x (f x)) (h : ExtFree W0 Q) (κ : Path)
    (hκ : ∀ x ∈ Q, f x = x ∨ ∃ t k m, x.1 = Item.handle t k m ∧ t :: k ≠ κ) :
    lookup (applyQ W0 (Q.map f)) κ = lookup (applyQ W0 Q) κ := by
  rw [lookup_applyQ _ _ (extFree_hrepl f hf h).1, lookup_applyQ _ _ h]
  apply val_map_congr
  intro x hx c
  rcases hκ x hx with hfx | ⟨t, k, m, hxe, hne⟩
  · rw [hfx]
  · rcases hf x hx with hfx | ⟨t', k', m1, m', d, d', hx1, hx2, h1, h2⟩
    · rw [hfx]
    · rw [hx1] at hxe
      simp only [Item.handle.injEq] at hxe
      obtain ⟨rfl, rfl, rfl⟩ := hxe
      rw [hx2, hx1]
      simp only [toResp, eff', h1, h2, hne, if_false]

/-- a queued handle whose notification is stored at its index decides the value at that index -/
theorem lookup_handle {Q : List (Item × Nat)} {W0 : PMap Noti} (hext : ExtFree W0 Q) (hpw : Q.Pairwise noAff)
    {t : String} {k : Path} {m : Noti} {d : Nat} (hx : (Item.handle t k m, d) ∈ Q) (hk : respKey m = t :: k) :
    lookup (applyQ W0 Q) (t :: k) = some m := by
  obtain ⟨a, b, rfl⟩ := List.append_of_mem hx
  rw [lookup_applyQ _ _ hext, val_append, val_cons]
  have hb : ∀ y ∈ b, touches (t :: k) (toResp y) = false := by
    have := (List.pairwise_append.1 hpw).2.1
    rw [List.pairwise_cons] at this
    exact this.1
  rw [val_not_touched _ _ _ hb]
  simp [toResp, eff', hk]

/-- an offered update for a leaf with a pending handle is coalesced into it -/
theorem qinv_upd_coalesce {cfg : Cfg} {T : String} {regs : List Path} {W0 : PMap Noti} {V : Views}
    {Q : List (Item × Nat)} {n : Noti} (hg : GoodEv V (.upd n)) (hr : RegsOK T regs)
    (hoff : offeredR regs (.upd n) = true)
    (hany : Q.any (fun x => isHandleFor n.target (evKey n) x.1) = true)
    (h : QInv cfg T regs W0 V Q) :
    QInv cfg T regs W0 (applyS V (.upd n))
      (Q.map (fun x => if isHandleFor n.target (evKey n) x.1 then (Item.handle n.target (evKey n) n, x.2 + 1) else x)) := by
  have hf : ∀ x ∈ Q, HRepl x
      (if isHandleFor n.target (evKey n) x.1 then (Item.handle n.target (evKey n) n, x.2 + 1) else x) := by
    intro x hx
    by_cases hh : isHandleFor n.target (evKey n) x.1 = true
    · rw [if_pos hh]
      obtain ⟨m, hm⟩ := isHandleFor_elim hh
      have hi := h.items x hx
      rw [hm] at hi
      right
      refine ⟨n.target, evKey n, m, n, x.2, x.2 + 1, ?_, rfl, ?_, respKey_eq n⟩
      · obtain ⟨it, d⟩ := x
        simp only at hm
        rw [hm]
      · rw [respKey_eq, hi.1, hi.2.1]
    · rw [if_neg hh]
      exact Or.inl rfl
  obtain ⟨hext, hkeq⟩ := extFree_hrepl _ hf h.ext
  have hpw := pairwise_hrepl _ hf h.pw
  obtain ⟨x0, hx0, hh0⟩ := List.any_eq_true.1 hany
  have hself : lookup (applyQ W0 (Q.map (fun x => if isHandleFor n.target (evKey n) x.1 then
      (Item.handle n.target (evKey n) n, x.2 + 1) else x))) (n.target :: evKey n) = some n := by
    apply lookup_handle hext hpw (d := x0.2 + 1) _ (respKey_eq n)
    exact List.mem_map.2 ⟨x0, hx0, by rw [if_pos hh0]⟩
  have hother : ∀ κ, κ ≠ n.target :: evKey n →
      lookup (applyQ W0 (Q.map (fun x => if isHandleFor n.target (evKey n) x.1 then
        (Item.handle n.target (evKey n) n, x.2 + 1) else x))) κ = lookup (applyQ W0 Q) κ := by
    intro κ hκ
    apply lookup_hrepl_other _ hf h.ext
    intro x _
    by_cases hh : isHandleFor n.target (evKey n) x.1 = true
    · obtain ⟨m, hm⟩ := isHandleFor_elim hh
      exact Or.inr ⟨_, _, m, hm, fun e => hκ e.symm⟩
    · left; rw [if_neg hh]
  refine ⟨hext, hpw, ?_, ?_, ?_⟩
  · intro y hy
    obtain ⟨x, hx, rfl⟩ := List.mem_map.1 hy
    by_cases hh : isHandleFor n.target (evKey n) x.1 = true
    · rw [if_pos hh]
      exact ⟨rfl, rfl, by rw [lookup_upd_self hg]; rfl, offered_tOK (e := .upd n) hr hg.1 hoff⟩
    · rw [if_neg hh]
      exact itemOK_mono_upd hg (h.items x hx)
  · intro κ hκ
    by_cases hk : κ = n.target :: evKey n
    · refine ⟨n.target, evKey n, hk, by rw [lookup_upd_self hg]; rfl, ?_⟩
      rw [hk, ← respKey_eq]; exact offered_upd_compat hg.2.2.1 hoff
    · rw [hother κ hk] at hκ
      obtain ⟨t, k, e, hv, hc⟩ := h.jv κ hκ
      exact ⟨t, k, e, isSome_mono_upd hg hv, hc⟩
  · intro t k hm
    by_cases hk : t :: k = n.target :: evKey n
    · injection hk with h1 h2
      subst h1 h2
      rw [hself, lookup_upd_self hg]
      exact Or.inl rfl
    · rw [hother _ hk]
      have hcond : ¬ (t = n.target ∧ k = evKey n) := fun c => hk (by rw [c.1, c.2])
      rw [lookup_applyS_upd hg, if_neg hcond]
      exact h.jm t k hm

/-! ### a delete event -/

/-- `freezeCovered` on one entry -/
def frz (e : Event) (x : Item × Nat) : Item × Nat :=
  match x.1 with
  | .handle t k last => if coversKey e t k then (Item.detached t k last, x.2) else x
  | _ => x

theorem freezeCovered_eq (e : Event) (q : List (Item × Nat)) : freezeCovered e q = q.map (frz e) := rfl

theorem toResp_frz (e : Event) (x : Item × Nat) : toResp (frz e x) = toResp x := toResp_freeze e x

theorem applyQ_map_toResp (g : Item × Nat → Item × Nat) (hg : ∀ x, toResp (g x) = toResp x) :
    ∀ (Q : List (Item × Nat)) (W : PMap Noti), applyQ W (Q.map g) = applyQ W Q
  | [], _ => rfl
  | x :: Q, W => by
    rw [List.map_cons, applyQ_cons, applyQ_cons, hg x]
    exact applyQ_map_toResp g hg Q _

theorem extFree_map_toResp (g : Item × Nat → Item × Nat) (hg : ∀ x, toResp (g x) = toResp x) :
    ∀ (Q : List (Item × Nat)) (W : PMap Noti), ExtFree W Q → ExtFree W (Q.map g)
  | [], _, _ => trivial
  | x :: Q, W, h => by
    rw [List.map_cons]
    refine ⟨by rw [hg x]; exact h.1, ?_⟩
    rw [hg x]
    exact extFree_map_toResp g hg Q _ h.2

theorem frz_cases (e : Event) (x : Item × Nat) :
    (frz e x = x ∧ ∀ t k m, x.1 = Item.handle t k m → coversKey e t k = false) ∨
    (∃ t k m, x.1 = Item.handle t k m ∧ coversKey e t k = true ∧ frz e x = (Item.detached t k m, x.2)) := by
  obtain ⟨it, d⟩ := x
  cases it with
  | handle t k m =>
    by_cases hc : coversKey e t k = true
    · right
      exact ⟨t, k, m, rfl, hc, by simp [frz, hc]⟩
    · left
      refine ⟨by simp [frz, hc], ?_⟩
      intro t' k' m' he
      simp only [Item.handle.injEq] at he
      obtain ⟨rfl, rfl, rfl⟩ := he
      simpa using hc
  | detached t k m => left; exact ⟨rfl, fun _ _ _ he => by cases he⟩
  | note e' => left; exact ⟨rfl, fun _ _ _ he => by cases he⟩
  | sync => left; exact ⟨rfl, fun _ _ _ he => by cases he⟩

theorem coversKey_del {te : String} (hte : te ≠ glob) (o : String) (p : Path) (ts : Int) (t : String) (k : Path) :
    coversKey (.del te o p ts) t k = (decide (te = t) && qmatches ((if o = "" then [] else [o]) ++ p) k) := by
  simp only [coversKey, subIndex_eq]
  exact qmatches_target hte _ _

theorem qinv_del {cfg : Cfg} {T : String} {regs : List Path} {W0 : PMap Noti} {V : Views}
    {Q : List (Item × Nat)} {te o : String} {p : Path} {ts : Int} (hV : VOK V) (hte : te ≠ glob)
    (hr : RegsOK T regs) (h : QInv cfg T regs W0 V Q) :
    QInv cfg T regs W0 (applyS V (.del te o p ts)) (qstep regs Q (.del te o p ts)) := by
  have hA : applyQ W0 (Q.map (frz (.del te o p ts))) = applyQ W0 Q :=
    applyQ_map_toResp _ (toResp_frz _) Q W0
  have hE : ExtFree W0 (Q.map (frz (.del te o p ts))) := extFree_map_toResp _ (toResp_frz _) Q W0 h.ext
  have hP : (Q.map (frz (.del te o p ts))).Pairwise noAff := by
    rw [List.pairwise_map]
    refine h.pw.imp ?_
    intro a b hab
    rw [noAff_right (Or.inl (toResp_frz _ b).symm)]
    rcases frz_cases (.del te o p ts) a with ⟨ha, _⟩ | ⟨t, k, m, _, _, ha⟩
    · rw [ha]; exact hab
    · rw [ha]; trivial
  have hcov := coversKey_del hte o p ts
  have hV' := lookup_applyS_del V te o p ts
  have hkeep : ∀ t k, coversKey (.del te o p ts) t k = false →
      lookup (applyS V (.del te o p ts) t) k = lookup (V t) k := by
    intro t k hc
    rw [hV']
    rw [hcov] at hc
    have : ¬ (t = te ∧ qmatches ((if o = "" then [] else [o]) ++ p) k = true) := by
      rintro ⟨rfl, hq⟩
      simp [hq] at hc
    rw [if_neg this]
  have hI : ∀ y ∈ Q.map (frz (.del te o p ts)), itemOK T (applyS V (.del te o p ts)) y.1 ∧
      ∀ t k m, y.1 = Item.handle t k m → coversKey (.del te o p ts) t k = false := by
    intro y hy
    obtain ⟨x, hx, rfl⟩ := List.mem_map.1 hy
    have hi := h.items x hx
    rcases frz_cases (.del te o p ts) x with ⟨ha, hnc⟩ | ⟨t, k, m, hxe, _, ha⟩
    · rw [ha]
      refine ⟨?_, hnc⟩
      obtain ⟨it, d⟩ := x
      cases it with
      | handle t k m =>
        refine ⟨hi.1, hi.2.1, ?_, hi.2.2.2⟩
        rw [hkeep t k (hnc t k m rfl)]
        exact hi.2.2.1
      | detached t k m => exact hi
      | note e' => exact hi
      | sync => exact hi
    · rw [ha]
      rw [hxe] at hi
      refine ⟨⟨hi.1, hi.2.2.2, ?_⟩, fun _ _ _ he => by cases he⟩
      intro e
      have hv := hi.2.2.1
      rw [e, hV.star] at hv
      cases hv
  have htouch : ∀ t k, touches (t :: k) (.del te o p ts 0) = coversKey (.del te o p ts) t k := fun _ _ => rfl
  unfold qstep
  rw [freezeCovered_eq]
  by_cases hoff : offeredR regs (.del te o p ts) = true
  · rw [if_pos hoff]
    have hW : ∀ κ, lookup (applyQ W0 (Q.map (frz (.del te o p ts)) ++ [(Item.note (.del te o p ts), 0)])) κ =
        eff κ (.del te o p ts 0) (lookup (applyQ W0 Q) κ) := by
      intro κ
      rw [lookup_snoc, hA]
      rfl
    refine ⟨?_, ?_, ?_, ?_, ?_⟩
    · exact (extFree_append _ W0 _).2 ⟨hE, trivial, trivial⟩
    · refine List.pairwise_append.2 ⟨hP, List.pairwise_singleton _ _, ?_⟩
      intro a ha b hb
      simp only [List.mem_singleton] at hb
      subst hb
      have := (hI a ha).2
      obtain ⟨it, d⟩ := a
      cases it with
      | handle t k m => exact this t k m rfl
      | detached => trivial
      | note => trivial
      | sync => trivial
    · intro x hx
      rcases List.mem_append.1 hx with hx | hx
      · exact (hI x hx).1
      · simp only [List.mem_singleton] at hx
        subst hx
        exact ⟨te, o, p, ts, rfl, offered_tOK (e := .del te o p ts) hr hte hoff, hte⟩
    · intro κ hκ
      rw [hW] at hκ
      simp only [eff] at hκ
      split at hκ
      · cases hκ
      · rename_i hnc
        obtain ⟨t, k, rfl, hv, hc⟩ := h.jv κ hκ
        refine ⟨t, k, rfl, ?_, hc⟩
        rw [hkeep t k (show coversKey (.del te o p ts) t k = false by simpa [coversKey] using hnc)]
        exact hv
    · intro t k hm
      rw [hW]
      simp only [eff]
      split
      · rename_i hc
        have hc' : coversKey (.del te o p ts) t k = true := hc
        rw [hcov] at hc'
        simp only [Bool.and_eq_true, decide_eq_true_eq] at hc'
        rw [hV', if_pos ⟨hc'.1.symm, hc'.2⟩]
        trivial
      · rename_i hnc
        rw [hkeep t k (show coversKey (.del te o p ts) t k = false by simpa [coversKey] using hnc)]
        exact h.jm t k hm
  · rw [if_neg hoff]
    have hoff' : offeredR regs (.del te o p ts) = false := by simpa using hoff
    -- nothing the subscriber holds (or is owed) is covered
    have hnot : ∀ t k, (lookup (V t) k).isSome = true → regs.any (fun q => compatible q (t :: k)) = true →
        coversKey (.del te o p ts) t k = false := by
      intro t k hv hc
      cases hcv : coversKey (.del te o p ts) t k with
      | false => rfl
      | true =>
        exfalso
        have htg : t ≠ glob := by
          intro e
          rw [e, hV.star] at hv
          cases hv
        have hng : glob ∉ t :: k := by
          intro hmem
          rcases List.mem_cons.1 hmem with e | hmem
          · exact htg e.symm
          · cases hl : lookup (V t) k with
            | none => rw [hl] at hv; cases hv
            | some v => exact hV.noGlob t (k, v) (mem_of_lookup_some hl) hmem
        rw [covers_offered ts hcv hng hc] at hoff'
        cases hoff'
    refine ⟨hE, hP, fun x hx => (hI x hx).1, ?_, ?_⟩
    · intro κ hκ
      rw [hA] at hκ
      obtain ⟨t, k, rfl, hv, hc⟩ := h.jv κ hκ
      refine ⟨t, k, rfl, ?_, hc⟩
      rw [hkeep t k (hnot t k hv hc)]
      exact hv
    · intro t k hm
      rw [hA]
      have hold := h.jm t k hm
      cases hl : lookup (V t) k with
      | none =>
        rw [hl] at hold
        have : lookup (applyS V (.del te o p ts) t) k = none := by
          rw [hV']
          by_cases hcnd : t = te ∧ qmatches ((if o = "" then [] else [o]) ++ p) k = true
          · rw [if_pos hcnd]
          · rw [if_neg hcnd]; exact hl
        rw [this, sim_none_left hold]
        trivial
      | some v =>
        have hc : regs.any (fun q => compatible q (t :: k)) = true := by
          obtain ⟨q, hq, hqm⟩ := List.any_eq_true.1 hm
          exact List.any_eq_true.2 ⟨q, hq, C06.query_subset_stream _ _ hqm⟩
        rw [hkeep t k (hnot t k (by rw [hl]; rfl) hc)]
        exact hold

/-! ### one event, any kind; a whole operation -/

theorem noHandleBeforeCover_of_pw {Q : List (Item × Nat)} (hpw : Q.Pairwise noAff) (t : String) (k : Path) :
    NoHandleBeforeCover Q t k := by
  intro a e d b hq hc x hx
  cases hh : isHandleFor t k x.1 with
  | false => rfl
  | true =>
    exfalso
    obtain ⟨m, hm⟩ := isHandleFor_elim hh
    rw [hq] at hpw
    have := (List.pairwise_append.1 hpw).2.2 x hx (Item.note e, d) (List.mem_cons_self ..)
    obtain ⟨it, dx⟩ := x
    simp only at hm
    subst hm
    cases e with
    | upd n => simp [coversKey] at hc
    | del te o p ts =>
      have h1 : touches (t :: k) (.del te o p ts d) = false := this
      have h2 : touches (t :: k) (.del te o p ts d) = true := hc
      rw [h1] at h2
      cases h2

theorem qstep_inv {cfg : Cfg} {T : String} {regs : List Path} {W0 : PMap Noti} {V : Views}
    {Q : List (Item × Nat)} {e : Event} (hV : VOK V) (hg : GoodEv V e) (hr : RegsOK T regs)
    (h : QInv cfg T regs W0 V Q) : QInv cfg T regs W0 (applyS V e) (qstep regs Q e) := by
  cases e with
  | del te o p ts => exact qinv_del hV hg hr h
  | upd n =>
    unfold qstep
    rw [freezeCovered_upd]
    by_cases hoff : offeredR regs (.upd n) = true
    · rw [if_pos hoff]
      simp only
      rw [eventKey_eq, insertHandle_eq _ _ _ _ (noHandleBeforeCover_of_pw h.pw _ _)]
      by_cases hany : Q.any (fun x => isHandleFor n.target (evKey n) x.1) = true
      · rw [if_pos hany]
        exact qinv_upd_coalesce hg hr hoff hany h
      · rw [if_neg hany]
        exact qinv_upd_new hg hr hoff (by simpa using hany) h
    · rw [if_neg hoff]
      exact qinv_upd_skip hg (by simpa using hoff) h

/-- every event of the list is `GoodEv` for the views that have applied the events before it -/
def GoodTr : Views → List Event → Prop
  | _, [] => True
  | V, e :: es => GoodEv V e ∧ GoodTr (applyS V e) es

theorem qfold_inv {cfg : Cfg} {T : String} {regs : List Path} {W0 : PMap Noti} (hr : RegsOK T regs) :
    ∀ (evs : List Event) (V : Views) (Q : List (Item × Nat)), VOK V → GoodTr V evs → QInv cfg T regs W0 V Q →
      QInv cfg T regs W0 (applySs V evs) (evs.foldl (qstep regs) Q) ∧ VOK (applySs V evs)
  | [], _, _, hV, _, h => ⟨h, hV⟩
  | e :: evs, V, Q, hV, hg, h =>
    qfold_inv hr evs (applyS V e) (qstep regs Q e) (hV.step hg.1) hg.2 (qstep_inv hV hg.1 hr h)

theorem goodTr_append : ∀ (a : List Event) (V : Views) (b : List Event),
    GoodTr V (a ++ b) ↔ GoodTr V a ∧ GoodTr (applySs V a) b
  | [], V, b => by simp [GoodTr, applySs]
  | e :: a, V, b => by
    simp only [List.cons_append, GoodTr]
    rw [goodTr_append a]
    exact and_assoc.symm

/-! ## `refreshQueue` -/

/-- `refreshQueue` on one entry (when no delete item covering it is queued behind) -/
def rf (c : Cache.State) (x : Item × Nat) : Item × Nat :=
  match x.1 with
  | .handle t k last =>
    (match (c.get t).bind (fun tg => lookup tg.tree k) with
      | some n => Item.handle t k n
      | none => Item.handle t k last, x.2)
  | _ => x

theorem refreshQueue_eq (c : Cache.State) : ∀ (Q : List (Item × Nat)), Q.Pairwise noAff →
    refreshQueue c Q = Q.map (rf c)
  | [], _ => rfl
  | (it, d) :: rest, h => by
    rw [List.pairwise_cons] at h
    have ih := refreshQueue_eq c rest h.2
    cases it with
    | handle t k last =>
      simp only [refreshQueue, List.map_cons, rf, ih]
      split
      · rename_i hany
        exfalso
        obtain ⟨y, hy, hyc⟩ := List.any_eq_true.1 hany
        have hy' : touches (t :: k) (toResp y) = false := h.1 y hy
        obtain ⟨ity, dy⟩ := y
        cases ity with
        | note e =>
          cases e with
          | upd n => simp [coversKey] at hyc
          | del te o p ts =>
            have h1 : coversKey (.del te o p ts) t k = false := hy'
            simp only at hyc
            rw [h1] at hyc
            cases hyc
        | handle => simp at hyc
        | detached => simp at hyc
        | sync => simp at hyc
      · rfl
    | detached t k m => simp only [refreshQueue, List.map_cons, rf, ih]
    | note e => simp only [refreshQueue, List.map_cons, rf, ih]
    | sync => simp only [refreshQueue, List.map_cons, rf, ih]

/-! ## one cache operation, seen by one subscriber -/

/-- the per-target trees of a cache, as views -/
def treesOf (c : Cache.State) : Views := fun t =>
  match c.get t with
  | some tg => tg.tree
  | none => []

theorem lookup_treesOf (c : Cache.State) (t : String) (k : Path) :
    lookup (treesOf c t) k = (c.get t).bind (fun tg => lookup tg.tree k) := by
  unfold treesOf
  cases c.get t with
  | none => simp [lookup]
  | some tg => rfl

theorem sim_trans {cfg : Cfg} {a b c : Option Noti} (h1 : Sim cfg a b) (h2 : Sim cfg b c) : Sim cfg a c := by
  cases a with
  | none =>
    cases b with
    | none => exact h2
    | some n => exact h1.elim
  | some v =>
    cases b with
    | none => exact h1.elim
    | some n =>
      cases c with
      | none => exact h2.elim
      | some m =>
        rcases h1 with rfl | h1
        · exact h2
        · rcases h2 with rfl | h2
          · exact Or.inr h1
          · exact Or.inr ⟨h1.1, h1.2.1, h2.2.2.1, valueEqual_trans _ _ _ h1.2.2.2 h2.2.2.2⟩

theorem sim_isSome {cfg : Cfg} {a b : Option Noti} (h : Sim cfg a b) : a.isSome = b.isSome := by
  cases a <;> cases b <;> first | rfl | exact h.elim

/-- a live STREAM subscription that gets the snapshot -/
def Live (s : Subscriber) : Prop := s.alive = true ∧ s.req.mode = .stream ∧ s.req.updatesOnly = false

/-- the response names no wildcard target -/
def respNoStar (r : Resp) : Prop :=
  match respTarget r with
  | some t => t ≠ glob
  | none => True

/-- what holds of a live STREAM subscriber between operations (flow control never shut): its
queue is empty and the replay of what it was sent agrees with the views `V` (the cache's trees) -/
structure SubInv (cfg : Cfg) (V : Views) (s : Subscriber) : Prop where
  queue : s.queue = []
  blocked : s.blocked = none
  gate : s.gateShut = false
  closed : s.closed = false
  regs : RegsOK s.req.target s.regs
  /-- `g`: everything the sender dequeued, including what the per-response ACL check dropped -/
  ghost : ∃ g : List (Resp × Bool), s.out = g.filter (fun x => !denied s.acl x.1) ∧
    (∀ x ∈ g, respNoStar x.1) ∧ ExtFreeR [] g ∧ Resp.sync ∈ g.map (·.1) ∧
    QInv cfg s.req.target s.regs (replay g) V []
  status : s.status = none
  regsEq : s.regs = regQueries s.req

/-- `feed` on one subscriber (`c'`: the cache after the operation) -/
def feedSub (c' : Cache.State) (evs : List Event) (s : Subscriber) : Subscriber :=
  let s1 := evs.foldl (fun s e => enqueueEvent { s with queue := freezeCovered e s.queue } e) s
  pumpAll { s1 with queue := refreshQueue c' s1.queue }

theorem feed_eq (st : Sub.State) (evs : List Event) :
    feed st evs = { st with subs := st.subs.map (feedSub st.cache evs) } := rfl

theorem feedSub_dead (c' : Cache.State) (evs : List Event) (s : Subscriber) (h : s.alive = false) :
    (feedSub c' evs s).alive = false := by
  unfold feedSub pumpAll
  simp only
  rw [pump_dead]
  · exact enqueue_fold_dead evs s h
  · exact enqueue_fold_dead evs s h

theorem pump_req : ∀ (fuel : Nat) (s : Subscriber), (pump fuel s).req = s.req
  | 0, _ => rfl
  | fuel + 1, s => by
    unfold pump
    split
    · rfl
    · split
      · split <;> rfl
      · simp only
        split
        · rw [pump_req fuel]
        · split
          · rfl
          · split
            · rfl
            · rw [pump_req fuel]

theorem enqueue_fold_req (evs : List Event) : ∀ (s : Subscriber),
    (evs.foldl (fun s e => enqueueEvent { s with queue := freezeCovered e s.queue } e) s).req = s.req := by
  induction evs with
  | nil => intro s; rfl
  | cons e evs ih =>
    intro s
    simp only [List.foldl_cons]
    rw [ih]
    unfold enqueueEvent
    split
    · rfl
    · cases e <;> rfl

theorem pump_acl : ∀ (fuel : Nat) (s : Subscriber), (pump fuel s).acl = s.acl
  | 0, _ => rfl
  | fuel + 1, s => by
    unfold pump
    split
    · rfl
    · split
      · split <;> rfl
      · simp only
        split
        · rw [pump_acl fuel]
        · split
          · rfl
          · split
            · rfl
            · rw [pump_acl fuel]

theorem enqueue_fold_acl (evs : List Event) : ∀ (s : Subscriber),
    (evs.foldl (fun s e => enqueueEvent { s with queue := freezeCovered e s.queue } e) s).acl = s.acl := by
  induction evs with
  | nil => intro s; rfl
  | cons e evs ih =>
    intro s
    simp only [List.foldl_cons]
    rw [ih]
    unfold enqueueEvent
    split
    · rfl
    · cases e <;> rfl

theorem feedSub_acl (c' : Cache.State) (evs : List Event) (s : Subscriber) : (feedSub c' evs s).acl = s.acl := by
  unfold feedSub pumpAll
  simp only
  rw [pump_acl]
  exact enqueue_fold_acl evs s

theorem pump_id : ∀ (fuel : Nat) (s : Subscriber), (pump fuel s).id = s.id
  | 0, _ => rfl
  | fuel + 1, s => by
    unfold pump
    split
    · rfl
    · split
      · split <;> rfl
      · simp only
        split
        · rw [pump_id fuel]
        · split
          · rfl
          · split
            · rfl
            · rw [pump_id fuel]

theorem enqueue_fold_id (evs : List Event) : ∀ (s : Subscriber),
    (evs.foldl (fun s e => enqueueEvent { s with queue := freezeCovered e s.queue } e) s).id = s.id := by
  induction evs with
  | nil => intro s; rfl
  | cons e evs ih =>
    intro s
    simp only [List.foldl_cons]
    rw [ih]
    unfold enqueueEvent
    split
    · rfl
    · cases e <;> rfl

theorem feedSub_id (c' : Cache.State) (evs : List Event) (s : Subscriber) : (feedSub c' evs s).id = s.id := by
  unfold feedSub pumpAll
  simp only
  rw [pump_id]
  exact enqueue_fold_id evs s

theorem feedSub_req (c' : Cache.State) (evs : List Event) (s : Subscriber) : (feedSub c' evs s).req = s.req := by
  unfold feedSub pumpAll
  simp only
  rw [pump_req]
  exact enqueue_fold_req evs s

theorem ne_glob_of_isSome {V : Views} (hV : VOK V) {t : String} {k : Path}
    (h : (lookup (V t) k).isSome = true) : t ≠ glob := by
  intro e
  rw [e, hV.star] at h
  cases h

theorem feed_sub_inv {cfg : Cfg} {V : Views} {c' : Cache.State} {evs : List Event} {s : Subscriber}
    (hV : VOK V) (hg : GoodTr V evs)
    (hsim : ∀ t k, Sim cfg (lookup (applySs V evs t) k) (lookup (treesOf c' t) k))
    (hkey : ∀ t k n, lookup (treesOf c' t) k = some n → respKey n = t :: k)
    (hs : Live s → SubInv cfg V s) (hl' : Live (feedSub c' evs s)) :
    SubInv cfg (treesOf c') (feedSub c' evs s) := by
  have halive : s.alive = true := by
    cases ha : s.alive with
    | true => rfl
    | false =>
      have := hl'.1
      rw [feedSub_dead c' evs s ha] at this
      cases this
  -- the shape of the result
  have hshape : ∀ (hc : s.closed = false) (Qr : List (Item × Nat)),
      refreshQueue c' (evs.foldl (qstep s.regs) s.queue) = Qr →
      feedSub c' evs s = pumpAll { s with queue := Qr } := by
    intro hc Qr hQr
    unfold feedSub
    simp only
    rw [enqueue_fold evs s halive hc]
    simp only
    rw [hQr]
  have hL : Live s := by
    have h1 := hl'.2.1
    have h2 := hl'.2.2
    rw [feedSub_req] at h1 h2
    exact ⟨halive, h1, h2⟩
  have inv := hs hL
  obtain ⟨g, hgout, hgns, hgext, hgsync, hgq⟩ := inv.ghost
  obtain ⟨hq, hV'⟩ := qfold_inv (cfg := cfg) (W0 := replay g) inv.regs evs V [] hV hg hgq
  rw [← inv.queue] at hq
  generalize hQn : evs.foldl (qstep s.regs) s.queue = Qn at hq
  have hfeed := hshape inv.closed (Qn.map (rf c')) (by rw [hQn]; exact refreshQueue_eq c' Qn hq.pw)
  have hf : ∀ x ∈ Qn, HRepl x (rf c' x) := by
    intro x hx
    have hi := hq.items x hx
    obtain ⟨it, d⟩ := x
    cases it with
    | handle t k last =>
      simp only [rf]
      rw [← lookup_treesOf]
      cases hl : lookup (treesOf c' t) k with
      | none => exact Or.inl rfl
      | some m =>
        right
        refine ⟨t, k, last, m, d, d, rfl, rfl, ?_, hkey t k m hl⟩
        rw [respKey_eq, hi.1, hi.2.1]
    | detached => exact Or.inl rfl
    | note => exact Or.inl rfl
    | sync => exact Or.inl rfl
  obtain ⟨hext, hkeq⟩ := extFree_hrepl _ hf hq.ext
  have hpw := pairwise_hrepl _ hf hq.pw
  have hns : ∀ y ∈ Qn.map (rf c'), respNoStar (toResp y) := by
    intro y hy
    obtain ⟨x, hx, rfl⟩ := List.mem_map.1 hy
    have hi := hq.items x hx
    obtain ⟨it, d⟩ := x
    cases it with
    | handle t k last =>
      have htg := ne_glob_of_isSome hV' hi.2.2.1
      simp only [rf]
      rw [← lookup_treesOf]
      cases hl : lookup (treesOf c' t) k with
      | none =>
        show last.target ≠ glob
        rw [hi.1]; exact htg
      | some m =>
        have := hkey t k m hl
        rw [respKey_eq] at this
        injection this with h1 _
        show m.target ≠ glob
        rw [h1]; exact htg
    | detached t k m =>
      show m.target ≠ glob
      rw [hi.1]; exact hi.2.2
    | note e =>
      obtain ⟨t, o, p, ts, rfl, _, ht⟩ := hi
      exact ht
    | sync => exact hi.elim
  have hopen := pumpAll_open { s with queue := Qn.map (rf c') } halive inv.blocked inv.gate inv.closed
  rw [← hfeed] at hopen
  rcases hopen with hdead | hres
  · have := hl'.1
    rw [hdead] at this
    cases this
  · rw [hres]
    refine ⟨rfl, inv.blocked, inv.gate, inv.closed, inv.regs,
      ⟨g ++ (Qn.map (rf c')).map (fun x => (toResp x, s.gatedSinceDrain)), ?_, ?_, ?_, ?_, ?_⟩, inv.status,
      inv.regsEq⟩
    · have hfm : ∀ (Q : List (Item × Nat)),
          (Q.map (fun x => (toResp x, s.gatedSinceDrain))).filter (fun x => !denied s.acl x.1) =
          (Q.filter (fun x => !denied s.acl (toResp x))).map (fun x => (toResp x, s.gatedSinceDrain)) := by
        intro Q; rw [List.filter_map]; rfl
      show s.out ++ ((Qn.map (rf c')).filter (fun x => !denied s.acl (toResp x))).map
          (fun x => (toResp x, s.gatedSinceDrain)) =
        (g ++ (Qn.map (rf c')).map (fun x => (toResp x, s.gatedSinceDrain))).filter (fun x => !denied s.acl x.1)
      rw [List.filter_append, ← hgout, hfm]
    · intro x hx
      rcases List.mem_append.1 hx with hx | hx
      · exact hgns x hx
      · obtain ⟨y, hy, rfl⟩ := List.mem_map.1 hx
        exact hns y hy
    · exact (extFreeR_append g [] _).2 ⟨hgext, (extFreeR_map _ _ _).2 hext⟩
    · rw [List.map_append]
      exact List.mem_append_left _ hgsync
    · show QInv cfg s.req.target s.regs
        (replay (g ++ (Qn.map (rf c')).map (fun x => (toResp x, s.gatedSinceDrain)))) (treesOf c') []
      rw [replay_append]
      refine ⟨trivial, List.Pairwise.nil, (fun x hx => by cases hx), ?_, ?_⟩
      · intro κ hκ
        have : (lookup (applyQ (replay g) Qn) κ).isSome = true := by rw [hkeq κ]; exact hκ
        obtain ⟨t, k, e, hv, hc⟩ := hq.jv κ this
        refine ⟨t, k, e, ?_, hc⟩
        rw [← sim_isSome (hsim t k)]
        exact hv
      · intro t k hm
        show Sim cfg (lookup (applyQ (replay g) (Qn.map (rf c'))) (t :: k)) (lookup (treesOf c' t) k)
        by_cases hh : ∃ m d, (Item.handle t k m, d) ∈ Qn
        · obtain ⟨m, d, hmem⟩ := hh
          have hi := hq.items _ hmem
          have hv : (lookup (treesOf c' t) k).isSome = true := by
            rw [← sim_isSome (hsim t k)]; exact hi.2.2.1
          cases hl : lookup (treesOf c' t) k with
          | none => rw [hl] at hv; cases hv
          | some m' =>
            have hmem' : (Item.handle t k m', d) ∈ Qn.map (rf c') := by
              refine List.mem_map.2 ⟨_, hmem, ?_⟩
              simp only [rf]
              rw [← lookup_treesOf, hl]
            rw [lookup_handle hext hpw hmem' (hkey t k m' hl)]
            exact Or.inl rfl
        · have : lookup (applyQ (replay g) (Qn.map (rf c'))) (t :: k) =
              lookup (applyQ (replay g) Qn) (t :: k) := by
            apply lookup_hrepl_other _ hf hq.ext
            intro x hx
            obtain ⟨it, d⟩ := x
            cases it with
            | handle t' k' m =>
              right
              refine ⟨t', k', m, rfl, ?_⟩
              intro e
              injection e with h1 h2
              subst h1 h2
              exact hh ⟨m, d, hx⟩
            | detached => exact Or.inl rfl
            | note => exact Or.inl rfl
            | sync => exact Or.inl rfl
          rw [this]
          exact sim_trans (hq.jm t k hm) (hsim t k)

/-! ## what the per-response ACL check drops does not concern the targets the caller may see -/

theorem lookup_fold_filter (p : Resp × Bool → Bool) (κ : Path) : ∀ (g : List (Resp × Bool)) (W W' : PMap Noti),
    lookup W κ = lookup W' κ → (∀ x ∈ g, p x = false → touches κ x.1 = false) →
    lookup (g.foldl (fun v r => applyResp v r.1) W) κ =
      lookup ((g.filter p).foldl (fun v r => applyResp v r.1) W') κ
  | [], _, _, h, _ => h
  | x :: g, W, W', h, hp => by
    by_cases hx : p x = true
    · rw [List.filter_cons_of_pos hx]
      simp only [List.foldl_cons]
      apply lookup_fold_filter p κ g _ _ _ (fun y hy => hp y (List.mem_cons_of_mem _ hy))
      rw [lookup_applyResp, lookup_applyResp, h]
    · rw [List.filter_cons_of_neg hx]
      simp only [List.foldl_cons]
      apply lookup_fold_filter p κ g _ _ _ (fun y hy => hp y (List.mem_cons_of_mem _ hy))
      rw [lookup_applyResp, eff_not_touches (hp x (List.mem_cons_self ..) (by simpa using hx)), h]

theorem lookup_replay_filter (p : Resp × Bool → Bool) (κ : Path) (g : List (Resp × Bool))
    (hp : ∀ x ∈ g, p x = false → touches κ x.1 = false) :
    lookup (replay g) κ = lookup (replay (g.filter p)) κ :=
  lookup_fold_filter p κ g [] [] rfl hp

theorem denied_not_touch {acl : Acl} {r : Resp} {t : String} (k : Path) (hd : denied acl r = true)
    (hns : respNoStar r) (ht : acl.check t = true) : touches (t :: k) r = false := by
  cases r with
  | upd n d =>
    simp only [denied, respTarget, Bool.not_eq_true'] at hd
    have hne : n.target ≠ t := by intro e; rw [e, ht] at hd; cases hd
    simp only [touches, respKey_eq]
    cases hp : (n.target :: evKey n).isPrefixOf (t :: k) with
    | false => rfl
    | true =>
      have := List.isPrefixOf_iff_prefix.1 hp
      rw [List.cons_prefix_cons] at this
      exact absurd this.1 hne
  | del t' o p ts d =>
    simp only [denied, respTarget, Bool.not_eq_true'] at hd
    have hne : t' ≠ t := by intro e; rw [e, ht] at hd; cases hd
    have hg : t' ≠ glob := hns
    simp only [touches, subIndex_eq]
    rw [qmatches_target hg]
    simp [hne]
  | sync => rfl

theorem replay_keys : ∀ (g : List (Resp × Bool)) (W : PMap Noti) (κ : Path),
    (lookup (g.foldl (fun v r => applyResp v r.1) W) κ).isSome = true →
    (lookup W κ).isSome = true ∨ ∃ x ∈ g, ∃ n d, x.1 = .upd n d ∧ respKey n = κ
  | [], _, _, h => Or.inl h
  | x :: g, W, κ, h => by
    simp only [List.foldl_cons] at h
    rcases replay_keys g _ κ h with h1 | ⟨y, hy, n, d, h2, h3⟩
    · rw [lookup_applyResp] at h1
      cases hr : x.1 with
      | upd n d =>
        rw [hr] at h1
        simp only [eff] at h1
        split at h1
        · rename_i hk
          exact Or.inr ⟨x, List.mem_cons_self .., n, d, hr, hk⟩
        · split at h1
          · cases h1
          · exact Or.inl h1
      | del t o p ts d =>
        rw [hr] at h1
        simp only [eff] at h1
        split at h1
        · cases h1
        · exact Or.inl h1
      | sync =>
        rw [hr] at h1
        exact Or.inl h1
    · exact Or.inr ⟨y, List.mem_cons_of_mem _ hy, n, d, h2, h3⟩

/-- **What `SubInv` says about the subscriber's own view** (what it was really sent): on the keys
of targets its ACL allows that its queries match it agrees with the views; every key it holds is a
key of the views. -/
theorem SubInv.view {cfg : Cfg} {V : Views} {s : Subscriber} (inv : SubInv cfg V s) :
    (∀ t k, s.acl.check t = true → s.regs.any (fun q => qmatches q (t :: k)) = true →
      Sim cfg (lookup (replay s.out) (t :: k)) (lookup (V t) k)) ∧
    (∀ κ, (lookup (replay s.out) κ).isSome = true →
      ∃ t k, κ = t :: k ∧ (lookup (V t) k).isSome = true) := by
  obtain ⟨g, hgout, hgns, _, _, hgq⟩ := inv.ghost
  have hsame : ∀ t k, s.acl.check t = true → lookup (replay g) (t :: k) = lookup (replay s.out) (t :: k) := by
    intro t k ht
    rw [hgout]
    apply lookup_replay_filter
    intro x hx hpx
    exact denied_not_touch k (by simpa using hpx) (hgns x hx) ht
  constructor
  · intro t k ht hm
    rw [← hsame t k ht]
    exact hgq.jm t k hm
  · intro κ hκ
    rcases replay_keys s.out [] κ hκ with h0 | ⟨x, hx, n, d, hr, hk⟩
    · simp [lookup] at h0
    · rw [hgout] at hx
      have hnd := (List.mem_filter.1 hx).2
      rw [hr] at hnd
      have hchk : s.acl.check n.target = true := by simpa [denied, respTarget] using hnd
      rw [respKey_eq] at hk
      subst hk
      rw [← hsame _ _ hchk] at hκ
      obtain ⟨t, k, e, hv, _⟩ := hgq.jv _ hκ
      exact ⟨t, k, e, hv⟩

/-! ## staying alive: only a whole-target delete ends a STREAM subscription -/

/-- the whole-target delete (`isTargetDelete`), as an event -/
def isTDev : Event → Bool
  | .del _ o p _ => o == "" && p == [glob]
  | .upd _ => false

/-- no event is a whole-target delete -/
def NoTD (evs : List Event) : Prop := ∀ e ∈ evs, isTDev e = false

theorem pump_open_noTD_mk : ∀ (q : List (Item × Nat)) (fuel : Nat) (id : String) (req : Req) (acl : Acl)
    (regs : List Path) (status : Option Code) (gsd : Bool) (out : List (Resp × Bool)),
    fuel ≥ q.length + 1 → (∀ x ∈ q, isTargetDelete (toResp x) = false) →
    pump fuel (Subscriber.mk id req acl regs true status false gsd none q false out) =
      Subscriber.mk id req acl regs true status false gsd none [] false
        (out ++ (q.filter (fun x => !denied acl (toResp x))).map (fun x => (toResp x, gsd)))
  | [], fuel + 1, id, req, acl, regs, status, gsd, out, _, _ => by simp [pump]
  | x :: rest, fuel + 1, id, req, acl, regs, status, gsd, out, hf, htd => by
    have hx := htd x (List.mem_cons_self ..)
    by_cases hdx : denied acl (toResp x) = true
    · have ih := pump_open_noTD_mk rest fuel id req acl regs status gsd out (by simp at hf ⊢; omega)
        (fun y hy => htd y (List.mem_cons_of_mem _ hy))
      have hstep : pump (fuel + 1) (Subscriber.mk id req acl regs true status false gsd none (x :: rest) false out) =
          pump fuel (Subscriber.mk id req acl regs true status false gsd none rest false out) := by
        simp [pump, hdx]
      rw [hstep, ih]
      simp [hdx]
    · have hdx' : denied acl (toResp x) = false := by simpa using hdx
      have ih := pump_open_noTD_mk rest fuel id req acl regs status gsd (out ++ [(toResp x, gsd)])
        (by simp at hf ⊢; omega) (fun y hy => htd y (List.mem_cons_of_mem _ hy))
      have hstep : pump (fuel + 1) (Subscriber.mk id req acl regs true status false gsd none (x :: rest) false out) =
          pump fuel (Subscriber.mk id req acl regs true status false gsd none rest false (out ++ [(toResp x, gsd)])) := by
        simp [pump, hdx', hx]
      rw [hstep, ih]
      simp [hdx', List.append_assoc]
  | [], 0, _, _, _, _, _, _, _, hf, _ => by simp at hf
  | _ :: _, 0, _, _, _, _, _, _, _, hf, _ => by simp at hf

theorem pumpAll_open_noTD (s : Subscriber) (ha : s.alive = true) (hb : s.blocked = none) (hg : s.gateShut = false)
    (hc : s.closed = false) (htd : ∀ x ∈ s.queue, isTargetDelete (toResp x) = false) :
    pumpAll s = { s with queue := [], out := s.out ++
      (s.queue.filter (fun x => !denied s.acl (toResp x))).map (fun x => (toResp x, s.gatedSinceDrain)) } := by
  obtain ⟨id, req, acl, regs, alive, status, gateShut, gsd, blocked, queue, closed, out⟩ := s
  simp only at ha hb hg hc htd
  subst ha hb hg hc
  exact pump_open_noTD_mk queue _ id req acl regs status gsd out (by simp) htd

theorem mem_insertHandle {q : List (Item × Nat)} {t : String} {k : Path} {n : Noti} {x : Item × Nat}
    (h : x ∈ insertHandle q t k n) : x ∈ q ∨ ∃ d, x = (Item.handle t k n, d) := by
  unfold insertHandle at h
  simp only at h
  split at h
  · rcases List.mem_append.1 h with h | h
    · exact Or.inl (List.mem_of_mem_take h)
    · obtain ⟨y, hy, rfl⟩ := List.mem_map.1 h
      split
      · exact Or.inr ⟨_, rfl⟩
      · exact Or.inl (List.mem_of_mem_drop hy)
  · rcases List.mem_append.1 h with h | h
    · exact Or.inl h
    · simp only [List.mem_singleton] at h
      exact Or.inr ⟨0, h⟩

theorem qstep_notes {regs : List Path} {Q : List (Item × Nat)} {e : Event} {x : Item × Nat} {e' : Event}
    (h : x ∈ qstep regs Q e) (hx : x.1 = Item.note e') : e' = e ∨ ∃ y ∈ Q, y.1 = Item.note e' := by
  have hfrz : ∀ z ∈ freezeCovered e Q, z.1 = Item.note e' → ∃ y ∈ Q, y.1 = Item.note e' := by
    intro z hz hz1
    rw [freezeCovered_eq] at hz
    obtain ⟨y, hy, rfl⟩ := List.mem_map.1 hz
    rcases frz_cases e y with ⟨ha, _⟩ | ⟨t, k, m, _, _, ha⟩
    · rw [ha] at hz1; exact ⟨y, hy, hz1⟩
    · rw [ha] at hz1; cases hz1
  unfold qstep at h
  split at h
  · cases e with
    | upd n =>
      simp only at h
      rcases mem_insertHandle h with h | ⟨d, rfl⟩
      · exact Or.inr (hfrz x h hx)
      · cases hx
    | del t o p ts =>
      simp only at h
      rcases List.mem_append.1 h with h | h
      · exact Or.inr (hfrz x h hx)
      · simp only [List.mem_singleton] at h
        subst h
        simp only [Item.note.injEq] at hx
        exact Or.inl hx.symm
  · exact Or.inr (hfrz x h hx)

theorem qfold_notes {regs : List Path} : ∀ (evs : List Event) (Q : List (Item × Nat)) (x : Item × Nat) (e' : Event),
    x ∈ evs.foldl (qstep regs) Q → x.1 = Item.note e' → e' ∈ evs ∨ ∃ y ∈ Q, y.1 = Item.note e'
  | [], Q, x, e', h, hx => Or.inr ⟨x, h, hx⟩
  | e :: evs, Q, x, e', h, hx => by
    rcases qfold_notes evs _ x e' h hx with h1 | ⟨y, hy, hy1⟩
    · exact Or.inl (List.mem_cons_of_mem _ h1)
    · rcases qstep_notes hy hy1 with rfl | h2
      · exact Or.inl (List.mem_cons_self ..)
      · exact Or.inr h2

/-- a live STREAM subscriber is still alive after a cache operation that announces no whole-target
delete -/
theorem feed_sub_alive {cfg : Cfg} {V : Views} {c' : Cache.State} {evs : List Event} {s : Subscriber}
    (hV : VOK V) (hg : GoodTr V evs) (htd : NoTD evs) (hL : Live s) (inv : SubInv cfg V s) :
    (feedSub c' evs s).alive = true := by
  obtain ⟨g, _, _, _, _, hgq⟩ := inv.ghost
  obtain ⟨hq, _⟩ := qfold_inv (cfg := cfg) (W0 := replay g) inv.regs evs V [] hV hg hgq
  have hform : feedSub c' evs s = pumpAll { s with queue := (evs.foldl (qstep s.regs) []).map (rf c') } := by
    unfold feedSub
    simp only
    rw [enqueue_fold evs s hL.1 inv.closed]
    simp only
    rw [inv.queue, refreshQueue_eq c' _ hq.pw]
  have hnt : ∀ y ∈ (evs.foldl (qstep s.regs) []).map (rf c'), isTargetDelete (toResp y) = false := by
    intro y hy
    obtain ⟨x, hx, rfl⟩ := List.mem_map.1 hy
    have hi := hq.items x hx
    obtain ⟨it, d⟩ := x
    cases it with
    | handle t k last =>
      simp only [rf]
      cases (c'.get t).bind (fun tg => lookup tg.tree k) <;> rfl
    | detached => rfl
    | note e' =>
      obtain ⟨t, o, p, ts, rfl, _⟩ := hi
      rcases qfold_notes evs [] _ _ hx rfl with h1 | ⟨y, hy, _⟩
      · exact htd _ h1
      · cases hy
    | sync => exact hi.elim
  rw [hform, pumpAll_open_noTD { s with queue := (evs.foldl (qstep s.regs) []).map (rf c') }
    hL.1 inv.blocked inv.gate inv.closed hnt]
  exact hL.1

end SubStream
end Gnmi
