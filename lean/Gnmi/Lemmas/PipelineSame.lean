import Gnmi.Props.C01Stream
/-!
Helper lemmas for property C01 under the property's own stream hypothesis (`Relay.wellFormed
false`: per leaf *non-decreasing* timestamps) together with `C01.RawFaithful`.

An update that carries the stored timestamp is rejected by the cache as a duplicate iff the two
notifications are `proto.Equal` (`Noti.same`, decided on raw renderings), and replaces the stored
leaf otherwise.  To see that the rejection leaves the target presenting the right view one must know
that the stored notification's update is an update *of the same stream* (then `RawFaithful`: equal
raw renderings, equal values).  `From U t` is that extra component of the run invariant: every
update stored outside `meta/` is a member of `U`, the updates of the target's whole stream.

The chain mirrors `Lemmas/Pipeline.lean` (`relay_update` … `Holds.run`) and `Lemmas/PipelineStream.lean`
(`sys_deliver`, `run_tr4`), re-using everything there that does not depend on the strictness of the
timestamp hypothesis (`relay_update_accept`, `relay_delete`, `relay_multiDeletes`, `good_*`, `Holds.connect`, …).
-/
namespace Gnmi
namespace Relay
open Cache Pipeline

/-! ### provenance of the stored updates -/

/-- raw renderings are faithful on `U`: equal renderings, equal values -/
def RawOK (U : List Upd) : Prop := ∀ u ∈ U, ∀ u' ∈ U, u.raw = u'.raw → u.val = u'.val

/-- every update stored outside `meta/` is one of `U` -/
def From (U : List Upd) (t : Target) : Prop :=
  ∀ kv ∈ t.tree, isMetaKey kv.1 = false → ∀ u ∈ kv.2.upd, u ∈ U

theorem From.of_tree_eq {U : List Upd} {t t' : Target} (h : t'.tree = t.tree) (hf : From U t) : From U t' := by
  intro kv hkv; rw [h] at hkv; exact hf kv hkv

theorem from_fresh (U : List Upd) (name : String) : From U ({ name := name } : Target) := by
  intro kv hkv; cases hkv

theorem from_update1 (cfg : Cfg) (now : Int) (U : List Upd) (t : Target) (n : Noti) (u : Upd)
    (hi : TInv t) (hf : From U t) (ht : n.target ≠ "") (hu : n.upd = [u])
    (hn : u ∈ U ∨ isMetaKey (updKey n u) = true) :
    From U (Target.gnmiUpdate1 cfg now t n).2.1 := by
  have hleaf : isMetaKey (updKey n u) = false → ∀ x ∈ n.upd, x ∈ U := by
    intro hm x hx
    rw [hu] at hx
    rw [List.mem_singleton.1 hx]
    rcases hn with h | h
    · exact h
    · rw [h] at hm; cases hm
  have he := gnmiUpdate1_effect cfg now t n u [] hu ht
  generalize Target.gnmiUpdate1 cfg now t n = r at he
  cases he with
  | rejected r t' _ h1 => exact hf.of_tree_eq h1
  | replaced t' old _ hl _ h1 =>
    intro kv hkv
    have hkv' : kv ∈ setLeaf t.tree (updKey n u) n := by rw [← h1]; exact hkv
    rcases mem_setLeaf.1 hkv' with ⟨e1, e2, _⟩ | ⟨hm, _⟩
    · rw [e1, e2]; exact hleaf
    · exact hf kv hm
  | suppressed t' old _ _ _ hl _ h1 =>
    intro kv hkv
    have hkv' : kv ∈ setLeaf t.tree (updKey n u) n := by rw [← h1]; exact hkv
    rcases mem_setLeaf.1 hkv' with ⟨e1, e2, _⟩ | ⟨hm, _⟩
    · rw [e1, e2]; exact hleaf
    · exact hf kv hm
  | added t' _ _ hadd =>
    intro kv hkv
    have hkv' : kv ∈ t'.tree := hkv
    rw [add_eq_some hadd] at hkv'
    rcases List.mem_cons.1 hkv' with e | hm
    · rw [e]; exact hleaf
    · exact hf kv (List.mem_filter.1 hm).1
  | panicOld t' old hl ho => exact absurd ho (hi.hasUpd _ (mem_of_lookup_some hl))

theorem from_remove1 (U : List Upd) (t : Target) (n : Noti) (d : Del) (ds : List Del) (hd : n.del = d :: ds)
    (ht : n.target ≠ "") (hf : From U t) : From U (Target.gnmiRemove1 t n).1 := by
  intro kv hkv
  rw [(gnmiRemove1_spec t n d ds hd ht).1] at hkv
  exact hf kv (List.mem_filter.1 hkv).1

theorem from_multiUpdates (cfg : Cfg) (now : Int) (U : List Upd) (hdr : Noti) (ht : hdr.target ≠ "")
    (hna : hdr.atomic = false) :
    ∀ (us : List Upd) (acc : MultiAcc), TInv acc.t → From U acc.t →
      (∀ u ∈ us, u ∈ U ∨ isMetaKey (joinKey hdr u.path) = true) →
      TInv (multiUpdates cfg now hdr us acc).t ∧ From U (multiUpdates cfg now hdr us acc).t
  | [], acc, hi, hf, _ => by simpa [multiUpdates] using ⟨hi, hf⟩
  | u :: us, acc, hi, hf, hv => by
    unfold multiUpdates
    by_cases hp : acc.panicked = true
    · simp only [hp, if_true]; exact ⟨hi, hf⟩
    · have hc := gnmiUpdate1_consequences cfg now acc.t { hdr with upd := [u], del := [] } hi (by simp)
        (by show hdr.target ≠ ""; exact ht)
      simp only at hc
      obtain ⟨c1, c2, _, _, _⟩ := hc
      have hk : updKey { hdr with upd := [u], del := [] } u = joinKey hdr u.path := by
        unfold updKey; simp [hna]; rfl
      have g := from_update1 cfg now U acc.t { hdr with upd := [u], del := [] } u hi hf ht rfl
        (by rw [hk]; exact hv u (by simp))
      have hvs : ∀ x ∈ us, x ∈ U ∨ isMetaKey (joinKey hdr x.path) = true := fun x hx => hv x (by simp [hx])
      simp only [hp, Bool.false_eq_true, if_false, c1]
      split
      · exact from_multiUpdates cfg now U hdr ht hna us _ c2 g hvs
      · split
        · exact from_multiUpdates cfg now U hdr ht hna us _ (c2.with_md _ ⟨rfl, rfl, rfl⟩) (g.of_tree_eq rfl) hvs
        · exact from_multiUpdates cfg now U hdr ht hna us _ c2 g hvs

theorem from_multiDeletes (U : List Upd) (hdr : Noti) (ht : hdr.target ≠ "") :
    ∀ (ds : List Del) (acc : MultiAcc), TInv acc.t → From U acc.t →
      TInv (multiDeletes hdr ds acc).t ∧ From U (multiDeletes hdr ds acc).t
  | [], acc, hi, hf => by simpa [multiDeletes] using ⟨hi, hf⟩
  | d :: ds, acc, hi, hf => by
    unfold multiDeletes
    by_cases hp : acc.panicked = true
    · simp only [hp, if_true]; exact ⟨hi, hf⟩
    · have hne : ({ hdr with upd := [], del := [d] } : Noti).target ≠ "" := ht
      have hc := gnmiRemove1_consequences
        { acc.t with md := { acc.t.md with updated := acc.t.md.updated + 1 } }
        { hdr with upd := [], del := [d] } (hi.with_md _ ⟨rfl, rfl, rfl⟩) (by simp) hne
      simp only at hc
      obtain ⟨c1, c2, _, _, _⟩ := hc
      have g := from_remove1 U { acc.t with md := { acc.t.md with updated := acc.t.md.updated + 1 } }
        { hdr with upd := [], del := [d] } d [] rfl hne (hf.of_tree_eq rfl)
      simp only [hp, Bool.false_eq_true, if_false, c1]
      exact from_multiDeletes U hdr ht ds _ c2 g

/-- `Target.GnmiUpdate` of a non-atomic notification whose updates are all of `U` (or filed under
`meta/`) keeps every update stored outside `meta/` one of `U` -/
theorem from_gnmiUpdate (cfg : Cfg) (now : Int) (U : List Upd) (t : Target) (n : Noti)
    (hi : TInv t) (hf : From U t) (hne : n.target ≠ "") (hna : n.atomic = false)
    (hv : ∀ u ∈ n.upd, u ∈ U ∨ isMetaKey (joinKey n u.path) = true) :
    From U (t.gnmiUpdate cfg now n).2.1 := by
  apply From.of_tree_eq (gnmiUpdate_tree cfg now t n hne)
  unfold Target.dispatch
  rw [if_neg (by rw [hna]; simp)]
  by_cases hlen : n.upd.length + n.del.length > 1
  · simp only [hlen, if_true]
    obtain ⟨a1, a2⟩ := from_multiUpdates cfg now U { n with upd := [], del := [] } hne hna n.upd { t := t } hi hf hv
    obtain ⟨_, b2⟩ := from_multiDeletes U { n with upd := [], del := [] } hne n.del _ a1 a2
    split <;> exact b2
  · simp only [hlen, if_false]
    match hu : n.upd, hd : n.del with
    | [], [] =>
      simp only [List.length_nil, Nat.zero_ne_one, if_false]
      exact hf.of_tree_eq rfl
    | [u], [] =>
      simp only [List.length_cons, List.length_nil, Nat.zero_add, if_true]
      apply From.of_tree_eq (singleArm_tree _ _)
      have hk : updKey n u = joinKey n u.path := by unfold updKey; simp [hna]
      exact from_update1 cfg now U t n u hi hf hne hu (by rw [hk]; exact hv u (by rw [hu]; simp))
    | [], [d] =>
      simp only [List.length_nil, Nat.zero_ne_one, if_false, List.length_cons, Nat.zero_add, if_true]
      have g := from_remove1 U { t with md := { t.md with updated := t.md.updated + 1 } } n d [] hd hne
        (hf.of_tree_eq rfl)
      split <;> exact g
    | _ :: _ :: _, _ => rw [hu] at hlen; simp only [List.length_cons] at hlen; omega
    | _ :: _, _ :: _ => rw [hu, hd] at hlen; simp only [List.length_cons] at hlen; omega
    | _, _ :: _ :: _ => rw [hd] at hlen; simp only [List.length_cons] at hlen; omega

/-! ### one relayed update, non-decreasing timestamps -/

theorem same_head_raw {old n : Noti} {ou u : Upd} {ous us : List Upd} (hs : old.same n = true)
    (ho : old.upd = ou :: ous) (hu : n.upd = u :: us) : ou.raw = u.raw := by
  unfold Noti.same at hs
  simp only [Bool.and_eq_true, beq_iff_eq] at hs
  have h := hs.1.2
  rw [ho, hu] at h
  simp only [List.map_cons, List.cons.injEq] at h
  exact h.1

/-- **One relayed update, the property's own timestamp hypothesis.**  An update admissible in the
view (no prefix conflict; *not older* than what the view holds for its key) whose raw rendering is
faithful makes the target present the view with that key set: the cache accepts it, or — same
timestamp and `proto.Equal` to the stored notification, hence (raw renderings faithful, the stored
update being one of the same stream) the same value — rejects it as a duplicate, which changes
nothing. -/
theorem relay_update_nd (cfg : Cfg) (hthr : cfg.futureThr = 0) (now : Int) (T : String) (hT : T ≠ "")
    (t : Target) (v : View) (n : Noti) (u : Upd) (us : List Upd)
    (hr : Relayed T n) (hnm : n.origin ≠ metaRoot) (hu : n.upd = u :: us) (hi : TInv t) (ha : Agree t v)
    (U : List Upd) (hraw : RawOK U) (hf : From U t) (huU : u ∈ U)
    (hconf : keyConflicts v (joinKey n u.path) = false)
    (hts : ∀ ts val, v.get (joinKey n u.path) = some (ts, val) → ts ≤ n.ts)
    (key : Path) (hkeq : joinKey n u.path = key) (ts0 : Int) (hts0 : n.ts = ts0) :
    (Target.gnmiUpdate1 cfg now t n).1 ≠ .panic ∧
    Agree (Target.gnmiUpdate1 cfg now t n).2.1 (v.set key ts0 u.val) ∧
    TInv (Target.gnmiUpdate1 cfg now t n).2.1 := by
  have ht : n.target ≠ "" := by rw [hr.target]; exact hT
  have hjk := joinKey_relayed hr u.path
  have hmk := isMetaKey_joinKey hr hnm u.path
  have hview : ∀ old, lookup t.tree (joinKey n u.path) = some old → old.ts ≤ n.ts := by
    intro old hl
    have hg := ha (joinKey n u.path)
    unfold absGet at hg
    simp only [hmk, Bool.false_eq_true, if_false, hl, Option.map_some] at hg
    exact hts old.ts (headVal old) hg.symm
  by_cases hst : ∃ old, lookup t.tree (joinKey n u.path) = some old ∧ n.ts = old.ts ∧ old.same n = true
  · -- `proto.Equal` re-send: rejected, nothing changes, and the view already shows this value
    obtain ⟨old, hl, hte, hsame⟩ := hst
    have hval : headVal old = u.val := by
      have hmem := mem_of_lookup_some hl
      have hne : old.upd ≠ [] := hi.hasUpd _ hmem
      cases ho : old.upd with
      | nil => exact absurd ho hne
      | cons ou ous =>
        have hrw := same_head_raw hsame ho hu
        have hin : ou ∈ U := hf _ hmem hmk ou (by show ou ∈ old.upd; rw [ho]; simp)
        unfold headVal
        rw [ho]
        exact hraw ou hin u huU hrw
    have hkey : updKey n u = n.origin :: (n.pfx ++ u.path) := by unfold updKey; simp [hr.notAtomic, hjk]
    have hrej := C02.stale_rejected cfg now t n u us n.origin (n.pfx ++ u.path) old hu ht hkey hnm
      (by rw [← hjk]; exact hl) (Or.inr ⟨hte, hsame⟩)
    rw [hrej]
    subst hkeq hts0
    refine ⟨by simp, ?_, hi.with_md _ ⟨rfl, rfl, rfl⟩⟩
    apply Agree.of_tree_eq (t := t) rfl
    intro k
    rw [View.get_set]
    by_cases hk : k = joinKey n u.path
    · subst hk
      simp only [if_true]
      unfold absGet
      simp only [hmk, Bool.false_eq_true, if_false, hl, Option.map_some]
      rw [hte, hval]
    · simp only [hk, if_false]; exact ha k
  · -- otherwise the timestamp switch accepts it
    obtain ⟨r1, r2, r3⟩ := relay_update_accept cfg now T hT t v n u us hr hnm hu hi ha hconf
      (by
        intro old hl
        have h1 := hview old hl
        by_cases hlt : old.ts < n.ts
        · exact verdict_accept_of_newer cfg hthr now t.latest old n hlt
        · have he : old.ts = n.ts := by omega
          apply verdict_accept_of_same_ts cfg now t.latest old n he
          cases hs : old.same n with
          | false => rfl
          | true => exact absurd ⟨old, hl, he.symm, hs⟩ hst)
      key hkeq ts0 hts0
    exact ⟨by rw [r1]; simp, r2, r3⟩

/-! ### admissibility facts for either strictness -/

theorem updOK_facts_nd {strict pn : Bool} {n : Noti} {v : View} {u : Upd} (h : updOK strict pn n v u = true) :
    originOf pn n ≠ metaRoot ∧ keyConflicts v (keyOf pn n u.path) = false ∧
    (∀ ts val, v.get (keyOf pn n u.path) = some (ts, val) → ts ≤ n.ts) := by
  unfold updOK at h
  simp only [Bool.and_eq_true, bne_iff_ne, ne_eq, Bool.not_eq_true'] at h
  obtain ⟨⟨⟨⟨_, hm⟩, _⟩, hc⟩, hl⟩ := h
  refine ⟨hm, hc, ?_⟩
  intro ts val hg
  rw [hg] at hl
  cases strict
  · simpa using hl
  · simp only [if_true, Bool.or_eq_true, Bool.and_eq_true, decide_eq_true_eq] at hl
    rcases hl with h1 | ⟨h1, _⟩ <;> omega

/-- the update loop of `Target.GnmiUpdate` on a relayed header follows `applyUpdates` -/
theorem relay_multiUpdates_nd (cfg : Cfg) (hthr : cfg.futureThr = 0) (now : Int) (T : String) (hT : T ≠ "")
    (hdr : Noti) (hr : Relayed T hdr) (pn : Bool) (n0 : Noti)
    (hkey : ∀ p, joinKey hdr p = keyOf pn n0 p) (hts : hdr.ts = n0.ts) (ho : hdr.origin = originOf pn n0)
    (U : List Upd) (hraw : RawOK U) (strict : Bool) :
    ∀ (us : List Upd) (acc : MultiAcc) (v : View), acc.panicked = false → TInv acc.t → Agree acc.t v →
      From U acc.t → (∀ u ∈ us, u ∈ U) →
      updatesOK strict pn n0 us v = true →
      (multiUpdates cfg now hdr us acc).panicked = false ∧ TInv (multiUpdates cfg now hdr us acc).t ∧
      Agree (multiUpdates cfg now hdr us acc).t (applyUpdates pn n0 us v)
  | [], acc, v, hp, hi, ha, _, _, _ => by simpa [multiUpdates, applyUpdates] using ⟨hp, hi, ha⟩
  | u :: us, acc, v, hp, hi, ha, hf, hU, hok => by
    unfold updatesOK at hok
    simp only [Bool.and_eq_true] at hok
    obtain ⟨hnm, hc, hl⟩ := updOK_facts_nd hok.1
    have hr1 : Relayed T { hdr with upd := [u], del := [] } := relayed_with hr _ _
    have hj : joinKey { hdr with upd := [u], del := [] } u.path = keyOf pn n0 u.path := hkey u.path
    have huU : u ∈ U := hU u (by simp)
    have hUs : ∀ x ∈ us, x ∈ U := fun x hx => hU x (by simp [hx])
    obtain ⟨r1, r2, r3⟩ := relay_update_nd cfg hthr now T hT acc.t v { hdr with upd := [u], del := [] } u []
      hr1 (by rw [← ho] at hnm; exact hnm) rfl hi ha U hraw hf huU (by rw [hj]; exact hc)
      (by rw [hj]; intro ts val hg; have := hl ts val hg; rw [← hts] at this; exact this)
      (keyOf pn n0 u.path) hj n0.ts hts
    have htg : ({ hdr with upd := [u], del := [] } : Noti).target ≠ "" := by
      show hdr.target ≠ ""; rw [hr.target]; exact hT
    have r4 := from_update1 cfg now U acc.t { hdr with upd := [u], del := [] } u hi hf htg rfl (Or.inl huU)
    unfold multiUpdates applyUpdates
    simp only [hp, Bool.false_eq_true, if_false, r1]
    split
    · exact relay_multiUpdates_nd cfg hthr now T hT hdr hr pn n0 hkey hts ho U hraw strict us _ _ rfl r3 r2 r4 hUs hok.2
    · split
      · apply relay_multiUpdates_nd cfg hthr now T hT hdr hr pn n0 hkey hts ho U hraw strict us _ _ rfl
        · exact r3.with_md _ ⟨rfl, rfl, rfl⟩
        · exact Agree.of_tree_eq rfl r2
        · exact r4.of_tree_eq rfl
        · exact hUs
        · exact hok.2
      · exact relay_multiUpdates_nd cfg hthr now T hT hdr hr pn n0 hkey hts ho U hraw strict us _ _ rfl r3 r2 r4 hUs hok.2

/-- the switch of `Target.GnmiUpdate` on a relayed, non-atomic notification follows
`applyUpdates` then `applyDeletes` -/
theorem relay_dispatch_nd (cfg : Cfg) (hthr : cfg.futureThr = 0) (now : Int) (T : String) (hT : T ≠ "")
    (t : Target) (v : View) (n : Noti) (hr : Relayed T n) (pn : Bool) (n0 : Noti)
    (hkey : ∀ p, joinKey n p = keyOf pn n0 p) (hts : n.ts = n0.ts) (ho : n.origin = originOf pn n0)
    (hi : TInv t) (ha : Agree t v)
    (U : List Upd) (hraw : RawOK U) (hf : From U t) (hU : ∀ u ∈ n.upd, u ∈ U) (strict : Bool)
    (huok : updatesOK strict pn n0 n.upd v = true)
    (hdok : deletesOK pn n0 n.del (applyUpdates pn n0 n.upd v) = true) :
    Agree (t.dispatch cfg now n).2.1 (applyDeletes pn n0 n.del (applyUpdates pn n0 n.upd v)) := by
  unfold Target.dispatch
  rw [if_neg (by rw [hr.notAtomic]; simp)]
  by_cases hlen : n.upd.length + n.del.length > 1
  · simp only [hlen, if_true]
    have hrh : Relayed T { n with upd := [], del := [] } := relayed_with hr _ _
    obtain ⟨a1, a2, a3⟩ := relay_multiUpdates_nd cfg hthr now T hT { n with upd := [], del := [] } hrh pn n0
      hkey hts ho U hraw strict n.upd { t := t } v rfl hi ha hf hU huok
    obtain ⟨_, _, b3⟩ := relay_multiDeletes T hT { n with upd := [], del := [] } hrh pn n0 hkey hts n.del
      _ _ a1 a2 a3 hdok
    split <;> exact b3
  · simp only [hlen, if_false]
    match hu : n.upd, hd : n.del with
    | [], [] =>
      simp only [List.length_nil, Nat.zero_ne_one, if_false, applyUpdates, applyDeletes]
      exact Agree.of_tree_eq rfl ha
    | [u], [] =>
      rw [hu] at huok
      unfold updatesOK at huok
      simp only [Bool.and_eq_true] at huok
      obtain ⟨hnm, hc, hl⟩ := updOK_facts_nd huok.1
      obtain ⟨_, r2, _⟩ := relay_update_nd cfg hthr now T hT t v n u [] hr (by rw [ho]; exact hnm) hu hi ha
        U hraw hf (hU u (by rw [hu]; simp))
        (by rw [hkey]; exact hc) (by rw [hkey, hts]; exact hl) (keyOf pn n0 u.path) (hkey _) n0.ts hts
      simp only [List.length_cons, List.length_nil, Nat.zero_add, if_true, applyUpdates, applyDeletes]
      exact Agree.of_tree_eq (singleArm_tree _ _) r2
    | [], [d] =>
      rw [hd, hu] at hdok
      unfold deletesOK at hdok
      simp only [Bool.and_eq_true, applyUpdates] at hdok
      have hnew := delOK_facts hdok.1
      obtain ⟨r1, r2, _⟩ := relay_delete T hT { t with md := { t.md with updated := t.md.updated + 1 } } v n d []
        hr hd (hi.with_md _ ⟨rfl, rfl, rfl⟩) (Agree.of_tree_eq rfl ha)
        (by rw [hkey, hts]; exact hnew) (keyOf pn n0 d.path) (hkey _)
      simp only [List.length_nil, Nat.zero_ne_one, if_false, List.length_cons, Nat.zero_add, if_true, r1,
        Bool.false_eq_true, applyUpdates, applyDeletes]
      exact r2
    | _ :: _ :: _, _ => rw [hu] at hlen; simp only [List.length_cons] at hlen; omega
    | _ :: _, _ :: _ => rw [hu, hd] at hlen; simp only [List.length_cons] at hlen; omega
    | _, _ :: _ :: _ => rw [hd] at hlen; simp only [List.length_cons] at hlen; omega

/-- **One relayed notification, non-decreasing timestamps.**  `Target.GnmiUpdate` of the stamped
notification of an admissible response whose updates are of `U`: no panic, the invariant is kept,
and the target presents the next view. -/
theorem relay_notification_nd (cfg : Cfg) (hthr : cfg.futureThr = 0) (now : Int) (enc : String → String)
    (T : String) (hT : T ≠ "") (t : Target) (v : View) (pn : Bool) (n0 : Noti) (hi : TInv t) (ha : Agree t v)
    (U : List Upd) (hraw : RawOK U) (hf : From U t) (hU : ∀ u ∈ n0.upd, u ∈ U) (strict : Bool)
    (hok : itemOK strict v (.update pn n0) = true) :
    (t.gnmiUpdate cfg now (stampTarget enc T pn n0)).1 ≠ .panic ∧
    TInv (t.gnmiUpdate cfg now (stampTarget enc T pn n0)).2.1 ∧
    Agree (t.gnmiUpdate cfg now (stampTarget enc T pn n0)).2.1 (applyItem v (.update pn n0)) ∧
    From U (t.gnmiUpdate cfg now (stampTarget enc T pn n0)).2.1 := by
  unfold itemOK at hok
  simp only [Bool.and_eq_true, Bool.not_eq_true'] at hok
  obtain ⟨⟨hna, huok⟩, hdok⟩ := hok
  obtain ⟨f1, f2, f3, f4, _, f6⟩ := stamp_fields enc T pn n0
  have ht : (stampTarget enc T pn n0).target ≠ "" := by rw [f6]; exact hT
  obtain ⟨g1, g2, _, _⟩ := gnmiUpdate_ok cfg now t (stampTarget enc T pn n0) hi ht
  have hrel := stamp_relayed enc T pn n0 hna
  refine ⟨g1, g2, ?_, ?_⟩
  · have hd := relay_dispatch_nd cfg hthr now T hT t v (stampTarget enc T pn n0) hrel pn n0
      (stamp_joinKey enc T pn n0) f1 f4 hi ha U hraw hf (by rw [f2]; exact hU) strict
      (by rw [f2]; exact huok) (by rw [f2, f3]; exact hdok)
    rw [f2, f3] at hd
    exact Agree.of_tree_eq (gnmiUpdate_tree cfg now t _ ht) hd
  · exact from_gnmiUpdate cfg now U t _ hi hf ht hrel.notAtomic (by rw [f2]; exact fun u hu => Or.inl (hU u hu))

/-! ### whole runs of the collector -/

theorem updatesOf_head {it : TItem} {r : List TItem} {u : Upd} (h : u ∈ C01.updatesOf [it]) :
    u ∈ C01.updatesOf (it :: r) := by
  cases it with
  | update pn n =>
    simp only [C01.updatesOf, List.append_nil] at h
    simp only [C01.updatesOf, List.mem_append]
    exact Or.inl h
  | sync => simp [C01.updatesOf] at h
  | error => simp [C01.updatesOf] at h
  | nilResponse => simp [C01.updatesOf] at h

theorem updatesOf_tail {it : TItem} {r : List TItem} {u : Upd} (h : u ∈ C01.updatesOf r) :
    u ∈ C01.updatesOf (it :: r) := by
  cases it with
  | update pn n =>
    simp only [C01.updatesOf, List.mem_append]
    exact Or.inr h
  | sync => simpa [C01.updatesOf] using h
  | error => simpa [C01.updatesOf] using h
  | nilResponse => simpa [C01.updatesOf] using h

/-- `Holds` plus the provenance component: every update target `name` stores outside `meta/` is one
of `U name` -/
structure Holds2 (names : List String) (U : String → List Upd) (s : Sys) (vw : String → View) : Prop where
  alive : s.crashed = false
  thr : s.sub.cache.cfg.futureThr = 0
  each : ∀ name ∈ names, ∃ t, s.sub.cache.get name = some t ∧ TInv t ∧ Agree t (vw name) ∧ Good name t ∧
    From (U name) t

theorem Holds2.toHolds {names : List String} {U : String → List Upd} {s : Sys} {vw : String → View}
    (h : Holds2 names U s vw) : Holds names s vw :=
  ⟨h.alive, h.thr, fun name hn => by
    obtain ⟨t, g1, g2, g3, g4, _⟩ := h.each name hn
    exact ⟨t, g1, g2, g3, g4⟩⟩

theorem Holds2.onTarget {names : List String} {U : String → List Upd} {s : Sys} {vw : String → View}
    (h : Holds2 names U s vw)
    (name : String) (v' : View) (s' : Sys) (hcr : s'.crashed = false)
    (hcfg : s'.sub.cache.cfg = s.sub.cache.cfg)
    (hother : ∀ V, V ≠ name → s'.sub.cache.get V = s.sub.cache.get V)
    (hsame : ∀ t, s.sub.cache.get name = some t → TInv t → Agree t (vw name) → Good name t → From (U name) t →
      ∃ t', s'.sub.cache.get name = some t' ∧ TInv t' ∧ Agree t' v' ∧ Good name t' ∧ From (U name) t') :
    Holds2 names U s' (fun x => if x = name then v' else vw x) := by
  refine ⟨hcr, by rw [hcfg]; exact h.thr, ?_⟩
  intro V hV
  obtain ⟨t, g1, g2, g3, g4, g5⟩ := h.each V hV
  by_cases e : V = name
  · subst e
    obtain ⟨t', k1, k2, k3, k4, k5⟩ := hsame t g1 g2 g3 g4 g5
    exact ⟨t', k1, k2, by simpa using k3, k4, k5⟩
  · exact ⟨t, by rw [hother V e]; exact g1, g2, by simpa [e] using g3, g4, g5⟩

theorem Holds2.of_cache_eq {names : List String} {U : String → List Upd} {s s' : Sys} {vw : String → View}
    (h : Holds2 names U s vw) (hcr : s'.crashed = false) (hc : s'.sub.cache = s.sub.cache) :
    Holds2 names U s' vw :=
  ⟨hcr, by rw [hc]; exact h.thr, by rw [hc]; exact h.each⟩

theorem isMetaKey_metaNoti (enc : String → String) (name mname : String) (sv : Scalar) (now : Int) :
    ∀ u ∈ (metaNoti enc name mname sv now).upd,
      u ∈ ([] : List Upd) ∨ isMetaKey (joinKey (metaNoti enc name mname sv now) u.path) = true := by
  intro u hu
  simp only [metaNoti, List.mem_singleton] at hu
  subst hu
  exact Or.inr (by simp [metaNoti, joinKey, isMetaKey])

/-- `m.connect(name)`: the collector's `Connect` callback -/
theorem Holds2.connect {names : List String} {U : String → List Upd} {s : Sys} {vw : String → View}
    (enc : String → String) (h : Holds2 names U s vw) (now : Int) (name : String) (hn : name ≠ "") :
    Holds2 names U (s.connect enc now name) vw := by
  have hal := h.alive
  rw [connect_eq enc now s name hal]
  have hc : (connectedSys enc now s name).sub.cache = (s.sub.cache.connect enc name now).1 := rfl
  have hcr : (connectedSys enc now s name).crashed = false := hal
  cases hg : s.sub.cache.get name with
  | none =>
    refine h.of_cache_eq hcr ?_
    rw [hc]
    unfold State.connect State.onTarget
    simp only [hg]
  | some t =>
    have := h.onTarget name (vw name) (connectedSys enc now s name) hcr
      (by rw [hc]; unfold State.connect State.onTarget; simp only [hg]; exact set_cfg _ _ _)
      (fun V hV => by
        rw [hc]; unfold State.connect State.onTarget; simp only [hg]; exact get_set_other _ _ _ _ hV)
      (fun t0 h0 hi ha hgd hfr => by
        rw [hg] at h0; cases h0
        obtain ⟨i, a⟩ := connect_agree s.sub.cache.cfg enc now t (vw name) name hn hi ha
        have i1 := (metaNoti_agree s.sub.cache.cfg enc now t (vw name) name "connected" (.bool true) hn hi ha).1
        have gd1 := good_gnmiUpdate s.sub.cache.cfg now name hn t (metaNoti enc name "connected" (.bool true) now)
          hi hgd rfl rfl (by intro u hu; simp only [metaNoti, List.mem_singleton] at hu; subst hu; rfl)
        have gd2 := good_gnmiUpdate s.sub.cache.cfg now name hn _ (deleteNotiOf enc name [metaRoot, "connectError"] now)
          i1 gd1 rfl rfl (by intro u hu; simp [deleteNotiOf] at hu)
        have fr1 := from_gnmiUpdate s.sub.cache.cfg now (U name) t (metaNoti enc name "connected" (.bool true) now)
          hi hfr hn rfl (by
            intro u hu
            rcases isMetaKey_metaNoti enc name "connected" (.bool true) now u hu with h | h
            · cases h
            · exact Or.inr h)
        have fr2 := from_gnmiUpdate s.sub.cache.cfg now (U name) _ (deleteNotiOf enc name [metaRoot, "connectError"] now)
          i1 fr1 hn rfl (by intro u hu; simp [deleteNotiOf] at hu)
        refine ⟨_, ?_, i, a, gd2, fr2⟩
        rw [hc]; unfold State.connect State.onTarget; simp only [hg]; exact get_set_same _ _ _)
    rw [fun_update_self] at this
    exact this

/-- one response of target `name`, admissible in its view (either strictness), its updates among
`U name`, handled by the collector -/
theorem Holds2.deliver {names : List String} {U : String → List Upd} {s : Sys} {vw : String → View}
    (enc : String → String)
    (h : Holds2 names U s vw) (now : Int) (name : String) (hn : name ≠ "") (hmem : name ∈ names) (it : TItem)
    (hraw : RawOK (U name)) (hU : ∀ u ∈ C01.updatesOf [it], u ∈ U name) (strict : Bool)
    (hok : itemOK strict (vw name) it = true) :
    Holds2 names U (s.deliver enc now (handleGNMIUpdate name it))
      (fun x => if x = name then applyItem (vw name) it else vw x) := by
  have hal := h.alive
  obtain ⟨t, g1, g2, g3, g4, g5⟩ := h.each name hmem
  cases it with
  | update pn n =>
    have hUn : ∀ u ∈ n.upd, u ∈ U name := fun u hu => hU u (by simpa [C01.updatesOf] using hu)
    obtain ⟨r1, r2, r3, r4⟩ := relay_notification_nd s.sub.cache.cfg h.thr now enc name hn t (vw name) pn n g2 g3
      (U name) hraw g5 hUn strict hok
    have htg : (stampTarget enc name pn n).target = name := (stamp_fields enc name pn n).2.2.2.2.2
    have hcb : callback enc now s.sub.cache (handleGNMIUpdate name (.update pn n)) =
        ((t.gnmiUpdate s.sub.cache.cfg now (stampTarget enc name pn n)).1,
         s.sub.cache.set name (t.gnmiUpdate s.sub.cache.cfg now (stampTarget enc name pn n)).2.1,
         flattenGroups (t.gnmiUpdate s.sub.cache.cfg now (stampTarget enc name pn n)).2.2) := by
      simp only [handleGNMIUpdate, callback, updateClosure, State.gnmiUpdate, Bool.false_eq_true, if_false, htg, g1]
    rw [deliver_eq enc now s _ hal (by rw [hcb]; exact r1)]
    have hc : (deliveredSys enc now s (handleGNMIUpdate name (.update pn n))).sub.cache =
        s.sub.cache.set name (t.gnmiUpdate s.sub.cache.cfg now (stampTarget enc name pn n)).2.1 := by
      show (callback enc now s.sub.cache (handleGNMIUpdate name (.update pn n))).2.1 = _
      rw [hcb]
    exact h.onTarget name _ _ hal (by rw [hc]; exact set_cfg _ _ _)
      (fun V hV => by rw [hc]; exact get_set_other _ _ _ _ hV)
      (fun t0 h0 _ _ _ _ => by
        rw [g1] at h0; cases h0
        have hna : n.atomic = false := by
          unfold itemOK at hok; simp only [Bool.and_eq_true, Bool.not_eq_true'] at hok; exact hok.1.1
        have hvs : ∀ u ∈ (stampTarget enc name pn n).upd, valueOK u.val = true := by
          rw [(stamp_fields enc name pn n).2.1]
          unfold itemOK at hok; simp only [Bool.and_eq_true] at hok
          exact updatesOK_values hok.1.2
        have gd := good_gnmiUpdate s.sub.cache.cfg now name hn t (stampTarget enc name pn n) g2 g4 htg
          (stamp_relayed enc name pn n hna).notAtomic hvs
        exact ⟨_, by rw [hc]; exact get_set_same _ _ _, r2, r3, gd, r4⟩)
  | sync =>
    have hcb : callback enc now s.sub.cache (handleGNMIUpdate name .sync) =
        (.ok, s.sub.cache.set name (t.gnmiUpdate s.sub.cache.cfg now (metaNoti enc name "sync" (.bool true) now)).2.1,
         flattenGroups (t.gnmiUpdate s.sub.cache.cfg now (metaNoti enc name "sync" (.bool true) now)).2.2) := by
      simp only [handleGNMIUpdate, callback, State.sync, State.onTarget, g1]
    rw [deliver_eq enc now s _ hal (by rw [hcb]; simp)]
    have hc : (deliveredSys enc now s (handleGNMIUpdate name .sync)).sub.cache =
        s.sub.cache.set name (t.gnmiUpdate s.sub.cache.cfg now (metaNoti enc name "sync" (.bool true) now)).2.1 := by
      show (callback enc now s.sub.cache (handleGNMIUpdate name .sync)).2.1 = _
      rw [hcb]
    obtain ⟨i, a⟩ := sync_agree s.sub.cache.cfg enc now t (vw name) name hn g2 g3
    exact h.onTarget name _ _ hal (by rw [hc]; exact set_cfg _ _ _)
      (fun V hV => by rw [hc]; exact get_set_other _ _ _ _ hV)
      (fun t0 h0 _ _ _ _ => by
        rw [g1] at h0; cases h0
        have gd := good_gnmiUpdate s.sub.cache.cfg now name hn t (metaNoti enc name "sync" (.bool true) now)
          g2 g4 rfl rfl (by intro u hu; simp only [metaNoti, List.mem_singleton] at hu; subst hu; rfl)
        have fr := from_gnmiUpdate s.sub.cache.cfg now (U name) t (metaNoti enc name "sync" (.bool true) now)
          g2 g5 hn rfl (by
            intro u hu
            rcases isMetaKey_metaNoti enc name "sync" (.bool true) now u hu with h | h
            · cases h
            · exact Or.inr h)
        exact ⟨_, by rw [hc]; exact get_set_same _ _ _, i, a, gd, fr⟩)
  | error =>
    rw [deliver_eq enc now s _ hal (by simp [handleGNMIUpdate, callback])]
    have := h.of_cache_eq (s' := deliveredSys enc now s (handleGNMIUpdate name .error)) hal rfl
    simpa [applyItem, fun_update_self] using this
  | nilResponse =>
    rw [deliver_eq enc now s _ hal (by simp [handleGNMIUpdate, callback])]
    have := h.of_cache_eq (s' := deliveredSys enc now s (handleGNMIUpdate name .nilResponse)) hal rfl
    simpa [applyItem, fun_update_self] using this

/-- one step of a run -/
theorem Holds2.step {names : List String} {U : String → List Upd} {s : Sys} {vw : String → View}
    (enc : String → String) (h : Holds2 names U s vw) (hne : ∀ x ∈ names, x ≠ "")
    (hraw : ∀ name ∈ names, RawOK (U name)) (strict : Bool) :
    ∀ (st : Step),
      (match st with
       | .recv name _ _ it => name ∈ names ∧ itemOK strict (vw name) it = true ∧
           ∀ u ∈ C01.updatesOf [it], u ∈ U name
       | .subscribe _ _ _ => True) →
      Holds2 names U (s.step enc st)
        (match st with
         | .recv name _ _ it => fun x => if x = name then applyItem (vw name) it else vw x
         | .subscribe _ _ _ => vw)
  | .recv name first now it, hst => by
    obtain ⟨hmem, hok, hU⟩ := hst
    have hn := hne name hmem
    simp only [Sys.step, Sys.recv]
    cases first with
    | false => exact h.deliver enc now name hn hmem it (hraw name hmem) hU strict hok
    | true => exact (h.connect enc now name hn).deliver enc now name hn hmem it (hraw name hmem) hU strict hok
  | .subscribe id target queries, _ => by
    simp only [Sys.step]
    rw [if_neg (by rw [h.alive]; simp)]
    exact h.of_cache_eq h.alive (subscribe_cache _ _ _ _)

/-- **Whole runs, non-decreasing timestamps.**  Any interleaving of admissible sessions (either
strictness) whose updates are among the raw-faithful `U name` keeps the collector up and every
target presenting the view its own responses describe. -/
theorem Holds2.run {names : List String} {U : String → List Upd} (enc : String → String)
    (hne : ∀ x ∈ names, x ≠ "") (hraw : ∀ name ∈ names, RawOK (U name)) (strict : Bool) :
    ∀ (steps : List Step) (s : Sys) (vw : String → View), Holds2 names U s vw →
      (∀ x ∈ senders steps, x ∈ names) →
      (∀ name ∈ names, wellFormedFrom strict (vw name) (itemsOf name steps) = true) →
      (∀ name ∈ names, ∀ u ∈ C01.updatesOf (itemsOf name steps), u ∈ U name) →
      Holds2 names U (s.run enc steps) (fun name => (itemsOf name steps).foldl applyItem (vw name))
  | [], s, vw, h, _, _, _ => by simpa [Sys.run, itemsOf] using h
  | .recv name first now it :: r, s, vw, h, hs, hwf, hU => by
    have hmem : name ∈ names := hs name (by simp [senders])
    have hw := hwf name hmem
    simp only [itemsOf, if_true, wellFormedFrom, Bool.and_eq_true] at hw
    have hUn := hU name hmem
    simp only [itemsOf, if_true] at hUn
    have hst := h.step enc hne hraw strict (.recv name first now it)
      ⟨hmem, hw.1, fun u hu => hUn u (updatesOf_head hu)⟩
    simp only at hst
    have ih := Holds2.run enc hne hraw strict r _ _ hst (fun x hx => hs x (by simp [senders, hx]))
      (fun nm hnm => by
        by_cases e : nm = name
        · subst e; simpa using hw.2
        · have := hwf nm hnm
          simp only [itemsOf, Ne.symm e, if_false] at this
          simpa [e] using this)
      (fun nm hnm u hu => by
        by_cases e : nm = name
        · subst e; exact hUn u (updatesOf_tail hu)
        · have := hU nm hnm
          simp only [itemsOf, Ne.symm e, if_false] at this
          exact this u hu)
    have hrun : s.run enc (.recv name first now it :: r) = (s.step enc (.recv name first now it)).run enc r := by
      simp [Sys.run]
    rw [hrun]
    have hv : (fun nm => (itemsOf nm (.recv name first now it :: r)).foldl applyItem (vw nm)) =
        (fun nm => (itemsOf nm r).foldl applyItem (if nm = name then applyItem (vw name) it else vw nm)) := by
      funext nm
      by_cases e : nm = name
      · subst e; simp [itemsOf]
      · simp [itemsOf, Ne.symm e, e]
    rw [hv]
    exact ih
  | .subscribe id target queries :: r, s, vw, h, hs, hwf, hU => by
    have hst := h.step enc hne hraw strict (.subscribe id target queries) trivial
    simp only at hst
    have ih := Holds2.run enc hne hraw strict r _ _ hst (fun x hx => hs x (by simpa [senders] using hx))
      (fun nm hnm => by simpa [itemsOf] using hwf nm hnm)
      (fun nm hnm => by simpa [itemsOf] using hU nm hnm)
    have hrun : s.run enc (.subscribe id target queries :: r) = (s.step enc (.subscribe id target queries)).run enc r := by
      simp [Sys.run]
    rw [hrun]
    simpa [itemsOf] using ih

/-! ### views of well-formed streams, either strictness -/

theorem viewOK_updates_nd {strict pn : Bool} {n : Noti} :
    ∀ {us : List Upd} {v : View}, ViewOK v → updatesOK strict pn n us v = true → ViewOK (applyUpdates pn n us v)
  | [], _, h, _ => by simpa [applyUpdates] using h
  | u :: us, v, h, hok => by
    unfold updatesOK at hok
    simp only [Bool.and_eq_true] at hok
    unfold applyUpdates
    exact viewOK_updates_nd (h.set _ _ _ (updOK_facts_nd hok.1).2.1) hok.2

theorem viewOK_item_nd {strict : Bool} {v : View} {it : TItem} (h : ViewOK v) (hok : itemOK strict v it = true) :
    ViewOK (applyItem v it) := by
  cases it with
  | update pn n =>
    unfold itemOK at hok
    simp only [Bool.and_eq_true] at hok
    unfold applyItem
    exact viewOK_deletes (viewOK_updates_nd h hok.1.2)
  | sync => exact h
  | error => exact h
  | nilResponse => exact h

theorem viewOK_run_nd {strict : Bool} : ∀ (items : List TItem) (v : View), ViewOK v →
    wellFormedFrom strict v items = true → ViewOK (items.foldl applyItem v)
  | [], _, h, _ => h
  | it :: r, v, h, hw => by
    unfold wellFormedFrom at hw
    simp only [Bool.and_eq_true] at hw
    exact viewOK_run_nd r _ (viewOK_item_nd h hw.1) hw.2

/-- the final view of a well-formed stream (either strictness) is prefix free with unique keys -/
theorem viewOK_final_nd {strict : Bool} (items : List TItem) (h : wellFormed strict items = true) :
    ViewOK (finalView items) :=
  viewOK_run_nd items [] ViewOK.nil h

end Relay
/-! ### the STREAM side: the collector run as a `C04Seq` history, either strictness -/

namespace C01S
open Cache Pipeline Relay SubStream

/-- the stamped notification of an admissible response (either strictness) meets `C03`'s side condition -/
theorem stamp_clean_nd (enc : String → String) (T : String) (pn : Bool) (n : Noti) (v : View) (strict : Bool)
    (hok : Relay.itemOK strict v (.update pn n) = true) : Feed.Clean (stampTarget enc T pn n) := by
  unfold Relay.itemOK at hok
  simp only [Bool.and_eq_true, Bool.not_eq_true'] at hok
  have hna : n.atomic = false := hok.1.1
  have hst := updatesOK_static hok.1.2
  obtain ⟨_, f2, _, f4, _, _⟩ := stamp_fields enc T pn n
  intro u hu
  rw [f2] at hu
  have hrel := stamp_relayed enc T pn n hna
  have hkey : updKey (stampTarget enc T pn n) u = keyOf pn n u.path := by
    unfold updKey
    rw [hrel.notAtomic]
    simp only [Bool.false_eq_true, if_false]
    exact stamp_joinKey enc T pn n u.path
  refine ⟨?_, Or.inl hrel.origin, ?_⟩
  · rw [hkey]
    intro hm
    have := hst u hu
    rw [List.contains_iff_mem.2 hm] at this
    cases this
  · rw [hkey]
    unfold keyOf
    simp only [List.head?_cons, ne_eq, Option.some.injEq]
    exact originOf_ne pn n

theorem eventsP_update_nd (enc : String → String) (now : Int) (c : Cache.State) (name : String) (hn : name ≠ "")
    (hi : Cache.SInv c) (hc : CacheOK c) (pn : Bool) (n : Noti) (v : View) (strict : Bool)
    (hok : Relay.itemOK strict v (.update pn n) = true) :
    EventsP PG Dne (c.step enc (.update now false (stampTarget enc name pn n))).2.2 := by
  have htg : (stampTarget enc name pn n).target = name := (stamp_fields enc name pn n).2.2.2.2.2
  simp only [State.step, State.gnmiUpdate, Bool.false_eq_true, if_false, htg]
  cases hg : c.get name with
  | none => exact eventsP_nil
  | some t =>
    simp only
    obtain ⟨h1, h2, h3⟩ := hi name t hg
    have hna : n.atomic = false := by
      unfold Relay.itemOK at hok; simp only [Bool.and_eq_true, Bool.not_eq_true'] at hok; exact hok.1.1
    have hvs : ∀ u ∈ (stampTarget enc name pn n).upd, valueOK u.val = true := by
      rw [(stamp_fields enc name pn n).2.1]
      unfold Relay.itemOK at hok; simp only [Bool.and_eq_true] at hok
      exact updatesOK_values hok.1.2
    exact eventsP_gnmiUpdate (cfg := c.cfg) (now := now) hn h1 h2 (hc.gt name t hg) htg
      (stamp_relayed enc name pn n hna).notAtomic (stamp_clean_nd enc name pn n v strict hok) hvs

theorem sys_deliver_nd {names : List String} {U : String → List Upd} {s : Sys} {vw : String → View}
    (enc : String → String)
    (hne : ∀ x ∈ names, x ≠ "") (hh : Holds2 names U s vw) (i : Inv2 names s) (now : Int) (name : String)
    (hn : name ≠ "") (hmem : name ∈ names) (it : TItem)
    (hraw : RawOK (U name)) (hU : ∀ u ∈ C01.updatesOf [it], u ∈ U name) (strict : Bool)
    (hok : Relay.itemOK strict (vw name) it = true)
    (id : String) (R : Sub.Req) :
    Tr4 names id R s (s.deliver enc now (handleGNMIUpdate name it)) := by
  have hh' := (hh.deliver enc now name hn hmem it hraw hU strict hok).toHolds
  have heq := deliver_as_hstep enc now s (handleGNMIUpdate name it) hh.alive hh'.alive
  rw [heq] at hh' ⊢
  cases it with
  | update pn n =>
    exact sys_ca enc (.update now false (stampTarget enc name pn n)) hne i (stamp_clean_nd enc name pn n _ strict hok)
      trivial (fun nm e => by cases e) trivial
      (eventsP_update_nd enc now s.sub.cache name hn i.h.sinv i.h.cok pn n _ strict hok) hh' id R
  | sync =>
    exact sys_ca enc (.sync name now) hne i trivial trivial (fun nm e => by cases e) trivial
      (eventsP_sync enc now s.sub.cache name hn i.h.sinv i.h.cok) hh' id R
  | error =>
    exact sys_ca enc (.update now true {}) hne i (fun u hu => by cases hu) trivial (fun nm e => by cases e)
      trivial eventsP_nil hh' id R
  | nilResponse =>
    exact sys_ca enc (.update now true {}) hne i (fun u hu => by cases hu) trivial (fun nm e => by cases e)
      trivial eventsP_nil hh' id R

theorem run_tr4_nd {names : List String} {U : String → List Upd} (enc : String → String)
    (hne : ∀ x ∈ names, x ≠ "") (hraw : ∀ name ∈ names, RawOK (U name)) (strict : Bool) (id : String)
    (R : Sub.Req) :
    ∀ (steps : List Step) (s : Sys) (vw : String → View), Holds2 names U s vw → Inv2 names s →
      (∀ x ∈ senders steps, x ∈ names) →
      (∀ name ∈ names, wellFormedFrom strict (vw name) (itemsOf name steps) = true) →
      (∀ name ∈ names, ∀ u ∈ C01.updatesOf (itemsOf name steps), u ∈ U name) →
      (∀ st ∈ steps, idOK id st) →
      Tr4 names id R s (s.run enc steps)
  | [], s, vw, _, i, _, _, _, _ => by simpa [Sys.run] using Tr4.refl i
  | .recv name first now it :: r, s, vw, h, i, hs, hwf, hU, hid => by
    have hmem : name ∈ names := hs name (by simp [senders])
    have hn := hne name hmem
    have hw := hwf name hmem
    simp only [itemsOf, if_true, wellFormedFrom, Bool.and_eq_true] at hw
    have hUn := hU name hmem
    simp only [itemsOf, if_true] at hUn
    have hUit : ∀ u ∈ C01.updatesOf [it], u ∈ U name := fun u hu => hUn u (updatesOf_head hu)
    have hst := h.step enc hne hraw strict (.recv name first now it) ⟨hmem, hw.1, hUit⟩
    simp only at hst
    have htr : Tr4 names id R s (s.step enc (.recv name first now it)) := by
      simp only [Sys.step, Sys.recv]
      cases first with
      | false => exact sys_deliver_nd enc hne h i now name hn hmem it (hraw name hmem) hUit strict hw.1 id R
      | true =>
        have t1 := sys_connect enc hne h.toHolds i now name hn id R
        have t2 := sys_deliver_nd enc hne (h.connect enc now name hn) t1.1 now name hn hmem it (hraw name hmem)
          hUit strict hw.1 id R
        exact t1.trans t2
    have ih := run_tr4_nd enc hne hraw strict id R r _ _ hst htr.1 (fun x hx => hs x (by simp [senders, hx]))
      (fun nm hnm => by
        by_cases e : nm = name
        · subst e; simpa using hw.2
        · have := hwf nm hnm
          simp only [itemsOf, Ne.symm e, if_false] at this
          simpa [e] using this)
      (fun nm hnm u hu => by
        by_cases e : nm = name
        · subst e; exact hUn u (updatesOf_tail hu)
        · have := hU nm hnm
          simp only [itemsOf, Ne.symm e, if_false] at this
          exact this u hu)
      (fun st hst' => hid st (List.mem_cons_of_mem _ hst'))
    have hrun : s.run enc (.recv name first now it :: r) = (s.step enc (.recv name first now it)).run enc r := by
      simp [Sys.run]
    rw [hrun]
    exact htr.trans ih
  | .subscribe id' target queries :: r, s, vw, h, i, hs, hwf, hU, hid => by
    have hst := h.step enc hne hraw strict (.subscribe id' target queries) trivial
    simp only at hst
    have htr := sys_subscribe enc hne h.toHolds i id' target queries id R (hid _ (List.mem_cons_self ..))
    have ih := run_tr4_nd enc hne hraw strict id R r _ _ hst htr.1 (fun x hx => hs x (by simpa [senders] using hx))
      (fun nm hnm => by simpa [itemsOf] using hwf nm hnm)
      (fun nm hnm => by simpa [itemsOf] using hU nm hnm)
      (fun st hst' => hid st (List.mem_cons_of_mem _ hst'))
    have hrun : s.run enc (.subscribe id' target queries :: r) =
        (s.step enc (.subscribe id' target queries)).run enc r := by
      simp [Sys.run]
    rw [hrun]
    exact htr.trans ih

end C01S

namespace C01
open Cache Pipeline Relay

theorem updatesOf_append : ∀ (a b : List TItem), updatesOf (a ++ b) = updatesOf a ++ updatesOf b
  | [], _ => rfl
  | .update _ n :: a, b => by
    simp only [List.cons_append, updatesOf, List.append_assoc]
    rw [updatesOf_append a b]
  | .sync :: a, b => by simp only [List.cons_append, updatesOf]; exact updatesOf_append a b
  | .error :: a, b => by simp only [List.cons_append, updatesOf]; exact updatesOf_append a b
  | .nilResponse :: a, b => by simp only [List.cons_append, updatesOf]; exact updatesOf_append a b

theorem viewFacts_updates_nd {P : Val → Prop} {strict pn : Bool} {n : Noti} :
    ∀ (us : List Upd) (v : View), ViewFacts P v → updatesOK strict pn n us v = true → (∀ u ∈ us, P u.val) →
      ViewFacts P (applyUpdates pn n us v)
  | [], _, h, _, _ => h
  | u :: us, v, h, hok, hp => by
    unfold updatesOK at hok
    simp only [Bool.and_eq_true] at hok
    have hlen : (keyOf pn n u.path).length ≥ 2 := by
      have := hok.1
      unfold updOK at this
      simp only [Bool.and_eq_true, decide_eq_true_eq] at this
      exact this.1.1.1.1.1.2
    exact viewFacts_updates_nd us _ (viewFacts_set h _ _ _ hlen (hp u (List.mem_cons_self ..))) hok.2
      (fun x hx => hp x (List.mem_cons_of_mem _ hx))

theorem viewFacts_run_nd {P : Val → Prop} {strict : Bool} : ∀ (items : List TItem) (v : View), ViewFacts P v →
    wellFormedFrom strict v items = true → (∀ u ∈ updatesOf items, P u.val) →
    ViewFacts P (items.foldl applyItem v)
  | [], _, h, _, _ => h
  | it :: r, v, h, hw, hp => by
    simp only [wellFormedFrom, Bool.and_eq_true] at hw
    simp only [List.foldl_cons]
    cases it with
    | update pn n =>
      have hok := hw.1
      unfold Relay.itemOK at hok
      simp only [Bool.and_eq_true] at hok
      apply viewFacts_run_nd r _ _ hw.2 (fun u hu => hp u (by simp [updatesOf, hu]))
      exact viewFacts_deletes _ _ (viewFacts_updates_nd _ _ h hok.1.2 (fun u hu => hp u (by simp [updatesOf, hu])))
    | sync => exact viewFacts_run_nd r _ h hw.2 (fun u hu => hp u (by simpa [updatesOf] using hu))
    | error => exact viewFacts_run_nd r _ h hw.2 (fun u hu => hp u (by simpa [updatesOf] using hu))
    | nilResponse => exact viewFacts_run_nd r _ h hw.2 (fun u hu => hp u (by simpa [updatesOf] using hu))

end C01

end Gnmi
