import Gnmi.Lemmas.SubscribeStreamInit
import Gnmi.Props.C14
/-!
# The feed of one cache operation, event by event

`C03`'s simulation (`Feed.step_ssim`) relates the views before and after a whole API call.  The
Subscribe server sees the events one at a time and coalesces them, so the convergence argument
(C04, sequential model) also needs a property of every *intermediate* view: each update event
finds a view in which no other key extends, or is extended by, its index (`GoodE`), it names the
target, carries a wildcard-free index and has the shape the cache stores (`Shape`).  This file
re-walks the structure of `Lemmas/CacheFeed.lean` / `CacheFeedState.lean` and proves that
property (`GoodT`) for every primitive, every notification shape and every API call
(`step_goodTr`).
-/
namespace Gnmi
namespace SubStream
open Cache Feed

/-- one event of target `nm`'s feed against the view that has applied the events before it -/
def GoodE (nm : String) (v : View) : Event → Prop
  | .upd n => n.target = nm ∧ glob ∉ evKey n ∧ Shape n ∧
      ∀ kv ∈ v, kv.1 ≠ evKey n → ¬ evKey n <+: kv.1 ∧ ¬ kv.1 <+: evKey n
  | .del t o p _ => t = nm ∧ ¬ (o = "" ∧ p = [glob])     -- never the whole-target delete

def GoodT (nm : String) : View → List Event → Prop
  | _, [] => True
  | v, e :: es => GoodE nm v e ∧ GoodT nm (applyEvent v e) es

theorem goodT_append (nm : String) : ∀ (a : List Event) (v : View) (b : List Event),
    GoodT nm v (a ++ b) ↔ GoodT nm v a ∧ GoodT nm (applyEvents v a) b
  | [], v, b => by simp [GoodT, applyEvents]
  | e :: a, v, b => by
    simp only [List.cons_append, GoodT]
    rw [goodT_append nm a]
    exact and_assoc.symm

theorem goodT_dels (nm : String) : ∀ (g : List Event) (v : View),
    (∀ e ∈ g, ∃ o p ts, e = Event.del nm o p ts ∧ ¬ (o = "" ∧ p = [glob])) → GoodT nm v g
  | [], _, _ => trivial
  | e :: g, v, h => by
    obtain ⟨o, p, ts, rfl, hn⟩ := h e (List.mem_cons_self ..)
    exact ⟨⟨rfl, hn⟩, goodT_dels nm g _ (fun x hx => h x (List.mem_cons_of_mem _ hx))⟩

theorem goodT_snoc {nm : String} {v : View} {evs : List Event} {e : Event} (h : GoodT nm v evs)
    (he : GoodE nm (applyEvents v evs) e) : GoodT nm v (evs ++ [e]) :=
  (goodT_append nm evs v [e]).2 ⟨h, he, trivial⟩

theorem view_key_in_tree {cfg : Cfg} {nm : String} {view : View} {tree : PMap Noti} (hg : GT cfg nm view tree)
    {kv : Path × Noti} (h : kv ∈ view) : ∃ v, (kv.1, v) ∈ tree := by
  cases hl : lookup view kv.1 with
  | none => exact absurd rfl (lookup_none_iff.1 hl kv h)
  | some v =>
    have := hg.r.agree kv.1
    rw [hl] at this
    cases ht : lookup tree kv.1 with
    | none => rw [ht] at this; exact this.elim
    | some n => exact ⟨n, mem_of_lookup_some ht⟩

theorem effect_good {cfg : Cfg} {nm : String} {t : Target} {n : Noti} {u : Upd} {us : List Upd}
    {out : Res × Target × Option Noti} {view : View}
    (he : Effect cfg t n u (updKey n u) out) (hu : n.upd = u :: us) (hc : CleanU n u) (htg : n.target = nm)
    (hs : Shape n) (hg : GT cfg nm view t.tree) :
    ∀ nd, out.2.2 = some nd → GoodE nm view (.upd nd) := by
  have hek : evKey n = updKey n u := evKey_eq hu
  cases he with
  | rejected r t' hr h1 h2 h3 h4 => intro nd h; cases h
  | replaced t' old hk hl hts h1 h2 h3 h4 =>
    intro nd h
    cases h
    refine ⟨htg, by rw [hek]; exact hc.1, hs, ?_⟩
    intro kv hkv hne
    rw [hek] at hne ⊢
    obtain ⟨v, hv⟩ := view_key_in_tree hg hkv
    have hkm := mem_of_lookup_some hl
    constructor
    · intro hp; exact hne (hg.pf _ hkm _ hv hp).symm
    · intro hp; exact hne (hg.pf _ hv _ hkm hp)
  | suppressed t' old ou ous hk hl hts h1 h2 h3 h4 hna hoa hou hve hed => intro nd h; cases h
  | added t' hk hl ha h2 h3 m1 m2 m3 =>
    intro nd h
    cases h
    refine ⟨htg, by rw [hek]; exact hc.1, hs, ?_⟩
    intro kv hkv hne
    rw [hek] at hne ⊢
    obtain ⟨v, hv⟩ := view_key_in_tree hg hkv
    have hcf : PMap.conflicts t.tree (updKey n u) = false := by
      unfold PMap.add at ha
      cases hcf : PMap.conflicts t.tree (updKey n u) with
      | false => rfl
      | true => simp [hcf] at ha
    exact conflicts_false hcf (kv.1, v) hv hne
  | panicOld t' old hl ho => intro nd h; cases h

theorem gnmiUpdate1_good {cfg : Cfg} {nm : String} {view : View} (now : Int) (t : Target) (n : Noti) (u : Upd)
    (us : List Upd) (hu : n.upd = u :: us) (ht : nm ≠ "") (htg : n.target = nm) (hc : CleanU n u) (hs : Shape n)
    (hg : GT cfg nm view t.tree) :
    ∀ nd, (Target.gnmiUpdate1 cfg now t n).2.2 = some nd → GoodE nm view (.upd nd) :=
  effect_good (gnmiUpdate1_effect cfg now t n u us hu (by rw [htg]; exact ht)) hu hc htg hs hg

/-! ### delete events -/

theorem allSome_dels (nm : String) (ts : Int) : ∀ (rem : PMap Noti) (evs : List Event),
    (∀ kv ∈ rem, kv.2.target = nm ∧ StoredAt kv ∧ glob ∉ kv.1) →
    allSome (rem.map (fun kv => toDeleteEvent? kv.2 ts)) = some evs →
    ∀ e ∈ evs, ∃ o p ts', e = Event.del nm o p ts' ∧ ¬ (o = "" ∧ p = [glob])
  | [], evs, _, hall => by
    simp only [List.map_nil, allSome] at hall
    cases hall
    intro e he; cases he
  | kv :: rest, evs, hown, hall => by
    obtain ⟨h1, h2, h3⟩ := hown kv (List.mem_cons_self ..)
    obtain ⟨o, p, he0, hkey⟩ := toDeleteEvent_stored ts h2
    simp only [List.map_cons, he0, allSome, Option.map_eq_some_iff] at hall
    obtain ⟨evs', hall', rfl⟩ := hall
    intro e he
    rcases List.mem_cons.1 he with rfl | he'
    · refine ⟨o, p, ts, by rw [h1], ?_⟩
      rintro ⟨ho, hp⟩
      apply h3
      rw [← hkey, ho, hp]
      simp
    · exact allSome_dels nm ts rest evs' (fun x hx => hown x (List.mem_cons_of_mem _ hx)) hall' e he'

theorem gnmiRemove1_dels {cfg : Cfg} {nm : String} {view : View} (t : Target) (n : Noti) (hd : n.del ≠ [])
    (ht : n.target ≠ "") (hg : GT cfg nm view t.tree) :
    ∀ e ∈ (Target.gnmiRemove1 t n).2.1, ∃ o p ts, e = Event.del nm o p ts ∧ ¬ (o = "" ∧ p = [glob]) := by
  match hdd : n.del with
  | [] => exact absurd hdd hd
  | d :: ds =>
    obtain ⟨h1, _, _, h4, h5⟩ := gnmiRemove1_spec t n d ds hdd ht
    have hp := (gnmiRemove1_sim (cfg := cfg) (nm := nm) (view := view) t n hd ht hg).1
    refine allSome_dels nm n.ts _ _ ?_ (h4 hp).1
    intro kv hkv
    have hm := (List.mem_filter.1 hkv).1
    exact ⟨hg.owner kv hm, hg.storedAt kv hm, hg.noGlob kv hm⟩

/-! ### a whole notification -/

theorem multiUpdates_tr {cfg : Cfg} {nm : String} {view : View} (now : Int) (hdr : Noti) (hh : nm ≠ "")
    (htg : hdr.target = nm) (hna : hdr.atomic = false) :
    ∀ (us : List Upd) (acc : MultiAcc), (∀ u ∈ us, CleanU hdr u) → AccSim cfg nm view acc →
      GoodT nm view acc.evs.flatten → GoodT nm view (multiUpdates cfg now hdr us acc).evs.flatten
  | [], acc, _, _, htr => by simpa [multiUpdates] using htr
  | u :: us, acc, hc, h, htr => by
    have hs := gnmiUpdate1_sim (cfg := cfg) (nm := nm) (view := applyEvents view acc.evs.flatten) now acc.t
      { hdr with upd := [u], del := [] } u [] rfl hh htg (hc u (List.mem_cons_self ..)) h.g
    have hgood := gnmiUpdate1_good (cfg := cfg) (nm := nm) (view := applyEvents view acc.evs.flatten) now acc.t
      { hdr with upd := [u], del := [] } u [] rfl hh htg (hc u (List.mem_cons_self ..))
      (Or.inr ⟨hna, u, rfl⟩) h.g
    obtain ⟨s1, s2, s5, s3, _⟩ := hs
    have hp := h.noPanic
    have hc' : ∀ u ∈ us, CleanU hdr u := fun x hx => hc x (List.mem_cons_of_mem _ hx)
    unfold multiUpdates
    simp only [hp, Bool.false_eq_true, if_false, s1]
    split
    · rename_i herr
      refine multiUpdates_tr (cfg := cfg) now hdr hh htg hna us _ hc' ?_ htr
      rw [s2 herr] at s3
      exact ⟨rfl, h.to, s3⟩
    · split
      · rename_i nd hnd
        rw [hnd] at s3
        change GT cfg nm (applyEvent _ (.upd nd)) _ at s3
        rw [← applyEvents_snoc] at s3
        apply multiUpdates_tr (cfg := cfg) now hdr hh htg hna us _ hc'
        · refine ⟨rfl, ?_, s3⟩
          intro e he
          rcases mem_flatten_snoc he with h1 | rfl
          · exact h.to e h1
          · exact s5 nd hnd
        · show GoodT nm view (acc.evs ++ [[Event.upd nd]]).flatten
          have : (acc.evs ++ [[Event.upd nd]]).flatten = acc.evs.flatten ++ [Event.upd nd] := by simp
          rw [this]
          exact goodT_snoc htr (hgood nd hnd)
      · rename_i hnone
        refine multiUpdates_tr (cfg := cfg) now hdr hh htg hna us _ hc' ?_ htr
        rw [hnone] at s3
        exact ⟨rfl, h.to, s3⟩

theorem multiDeletes_tr {cfg : Cfg} {nm : String} {view : View} (hdr : Noti) (hh : hdr.target ≠ "") :
    ∀ (ds : List Del) (acc : MultiAcc), AccSim cfg nm view acc → GoodT nm view acc.evs.flatten →
      GoodT nm view (multiDeletes hdr ds acc).evs.flatten
  | [], acc, _, htr => by simpa [multiDeletes] using htr
  | d :: ds, acc, h, htr => by
    have hs := gnmiRemove1_sim (cfg := cfg) (nm := nm) (view := applyEvents view acc.evs.flatten)
      { acc.t with md := { acc.t.md with updated := acc.t.md.updated + 1 } }
      { hdr with upd := [], del := [d] } (by simp) hh h.g
    have hdels := gnmiRemove1_dels (cfg := cfg) (nm := nm) (view := applyEvents view acc.evs.flatten)
      { acc.t with md := { acc.t.md with updated := acc.t.md.updated + 1 } }
      { hdr with upd := [], del := [d] } (by simp) hh h.g
    obtain ⟨s1, s3, s2⟩ := hs
    have hp := h.noPanic
    unfold multiDeletes
    simp only [hp, Bool.false_eq_true, if_false, s1]
    apply multiDeletes_tr (cfg := cfg) hdr hh ds
    · refine ⟨rfl, ?_, ?_⟩
      · intro e he
        rcases mem_flatten_group he with h1 | h1
        · exact h.to e h1
        · exact s3 e h1
      · rw [← applyEvents_group] at s2
        exact s2
    · show GoodT nm view (if _ then acc.evs else acc.evs ++ [_]).flatten
      split
      · exact htr
      · have : ∀ g : List Event, (acc.evs ++ [g]).flatten = acc.evs.flatten ++ g := by intro g; simp
        rw [this]
        exact (goodT_append nm _ view _).2 ⟨htr, goodT_dels nm _ _ hdels⟩

theorem singleArm_tr {nm : String} {view : View} {r : Res × Target × Option Noti} (cnt : Int)
    (h : ∀ nd, r.2.2 = some nd → GoodE nm view (.upd nd)) :
    GoodT nm view (singleArm r cnt).2.2.1.flatten := by
  unfold singleArm
  split
  · trivial
  · split
    · rename_i nd hnd
      exact ⟨h nd hnd, trivial⟩
    · trivial

theorem dispatch_tr {cfg : Cfg} {nm : String} {view : View} (now : Int) (t : Target) (n : Noti) (ht : nm ≠ "")
    (htg : n.target = nm) (hc : Clean n) (hg : GT cfg nm view t.tree) :
    GoodT nm view (t.dispatch cfg now n).2.2.1.flatten := by
  have first : ∀ u us, n.upd = u :: us → CleanU n u := fun u us h => hc u (by rw [h]; exact List.mem_cons_self ..)
  have ht' : n.target ≠ "" := by rw [htg]; exact ht
  unfold Target.dispatch
  split
  · rename_i hat
    split
    · trivial
    · split
      · trivial
      · rename_i hne
        match hu : n.upd with
        | [] => rw [hu] at hne; simp at hne
        | u :: us =>
          exact singleArm_tr _ (gnmiUpdate1_good (cfg := cfg) now t n u us hu ht htg (first u us hu)
            (Or.inl ⟨hat, by rw [hu]; simp⟩) hg)
  · rename_i hat
    have hna : n.atomic = false := by simpa using hat
    split
    · have ha := multiUpdates_sim (cfg := cfg) (nm := nm) (view := view) now { n with upd := [], del := [] } ht htg
        n.upd { t := t } (fun u hu => hc u hu) ⟨rfl, fun e he => (by simp at he), hg⟩
      have hta := multiUpdates_tr (cfg := cfg) (nm := nm) (view := view) now { n with upd := [], del := [] } ht htg hna
        n.upd { t := t } (fun u hu => hc u hu) ⟨rfl, fun e he => (by simp at he), hg⟩ trivial
      have htb := multiDeletes_tr (cfg := cfg) (nm := nm) (view := view) { n with upd := [], del := [] } ht' n.del _ ha hta
      have hb := multiDeletes_sim (cfg := cfg) (nm := nm) (view := view) { n with upd := [], del := [] } ht' n.del _ ha
      simp only [hb.noPanic, Bool.false_eq_true, if_false]
      exact htb
    · split
      · rename_i h1
        match hu : n.upd with
        | [] => rw [hu] at h1; simp at h1
        | u :: us =>
          have hus : us = [] := by
            rw [hu] at h1
            simp only [List.length_cons, Nat.add_eq_right] at h1
            exact List.eq_nil_of_length_eq_zero h1
          exact singleArm_tr _ (gnmiUpdate1_good (cfg := cfg) now t n u us hu ht htg (first u us hu)
            (Or.inr ⟨hna, u, by rw [hu, hus]⟩) hg)
      · split
        · rename_i h1
          have hd : n.del ≠ [] := by
            intro e; rw [e] at h1; simp at h1
          have hs := gnmiRemove1_sim (cfg := cfg) (nm := nm) (view := view)
            { t with md := { t.md with updated := t.md.updated + 1 } } n hd ht' hg
          have hdels := gnmiRemove1_dels (cfg := cfg) (nm := nm) (view := view)
            { t with md := { t.md with updated := t.md.updated + 1 } } n hd ht' hg
          simp only [hs.1, Bool.false_eq_true, if_false]
          split
          · trivial
          · simp only [List.flatten_cons, List.flatten_nil, List.append_nil]
            exact goodT_dels nm _ _ hdels
        · trivial

theorem gnmiUpdate_tr {cfg : Cfg} {nm : String} {view : View} (now : Int) (t : Target) (n : Noti) (ht : nm ≠ "")
    (htg : n.target = nm) (hc : Clean n) (hg : GT cfg nm view t.tree) :
    GoodT nm view (t.gnmiUpdate cfg now n).2.2.flatten := by
  obtain ⟨b, hb⟩ := tracksTimestamp?_isSome n (by rw [htg]; exact ht)
  unfold Target.gnmiUpdate
  rw [hb]
  exact dispatch_tr now t n ht htg hc hg

/-! ### metadata refresh and `Reset` -/

structure PTr (cfg : Cfg) (nm : String) (view : View) (acc : Target × List Event) : Prop where
  p : PSim cfg nm view acc
  tr : GoodT nm view acc.2

theorem genMetaOne_tr {cfg : Cfg} {nm : String} {view : View} (enc : String → String) (now : Int)
    (acc : Target × List Event) (name : String) (v : Scalar) (isCur : Val → Bool)
    (hnm : nm ≠ "") (hname : name ≠ glob) (h : PTr cfg nm view acc) :
    PTr cfg nm view (genMetaOne cfg enc now true acc name v isCur) := by
  refine ⟨genMetaOne_sim enc now acc name v isCur hnm hname h.p, ?_⟩
  unfold genMetaOne
  split
  · exact h.tr
  · split
    · exact h.tr
    · simp only
      have hgood := gnmiUpdate1_good (cfg := cfg) (nm := nm) (view := applyEvents view acc.2) now acc.1
        (metaNoti enc acc.1.name name v now) _ [] rfl hnm h.p.name
        (metaNoti_clean enc acc.1.name name v now hname _ (List.mem_cons_self ..))
        (Or.inr ⟨rfl, _, rfl⟩) h.p.g
      split
      · rename_i nd hnd
        simp only [if_true]
        exact goodT_snoc h.tr (hgood nd hnd)
      · exact h.tr

theorem foldl_ptr {cfg : Cfg} {nm : String} {view : View}
    (f : Target × List Event → String → Target × List Event)
    (hf : ∀ acc x, x ≠ glob → PTr cfg nm view acc → PTr cfg nm view (f acc x)) :
    ∀ (l : List String) (acc : Target × List Event), (∀ x ∈ l, x ≠ glob) → PTr cfg nm view acc →
      PTr cfg nm view (l.foldl f acc)
  | [], _, _, h => h
  | x :: l, acc, hl, h =>
    foldl_ptr f hf l (f acc x) (fun y hy => hl y (List.mem_cons_of_mem _ hy))
      (hf acc x (hl x (List.mem_cons_self ..)) h)

theorem genServerName_tr {cfg : Cfg} {nm : String} {view : View} (enc : String → String) (now : Int)
    (acc : Target × List Event) (hnm : nm ≠ "") (h : PTr cfg nm view acc) :
    PTr cfg nm view (genServerName cfg enc now true acc) := by
  unfold genServerName
  split
  · exact genMetaOne_tr enc now acc _ _ _ hnm (by decide) h
  · exact h

theorem generateMetaUpdates_tr {cfg : Cfg} {nm : String} {view : View} (enc : String → String) (now : Int)
    (t : Target) (hnm : nm ≠ "") (h : PTr cfg nm view (t, [])) :
    PTr cfg nm view (t.generateMetaUpdates cfg enc now true) := by
  unfold Target.generateMetaUpdates
  have s1 := foldl_ptr (cfg := cfg) (nm := nm) (view := view) (fun acc name =>
      match acc.1.md.getBool name with
      | some v => genMetaOne cfg enc now true acc name (.bool v)
          (fun sv => match sv with | .scalar (.bool b) => b == v | _ => false)
      | none => acc)
    (by intro acc x hx hp; split
        · exact genMetaOne_tr enc now acc x _ _ hnm hx hp
        · exact hp) boolNames (t, []) (by decide) h
  have s2 := foldl_ptr (cfg := cfg) (nm := nm) (view := view) (fun acc name =>
      match acc.1.md.getInt name with
      | some v => genMetaOne cfg enc now true acc name (.int v)
          (fun sv => match sv with | .scalar (.int i) => i == v | _ => false)
      | none => acc)
    (by intro acc x hx hp; split
        · exact genMetaOne_tr enc now acc x _ _ hnm hx hp
        · exact hp) intNames _ (by decide) s1
  have s3 := foldl_ptr (cfg := cfg) (nm := nm) (view := view) (fun acc name =>
      match acc.1.md.getStr name with
      | some v => genMetaOne cfg enc now true acc name (.str v)
          (fun sv => match sv with | .scalar (.str s) => s == v | _ => false)
      | none => acc)
    (by intro acc x hx hp; split
        · exact genMetaOne_tr enc now acc x _ _ hnm hx hp
        · exact hp) strNames _ (by decide) s2
  exact genServerName_tr enc now _ hnm s3

theorem updateMeta_tr {cfg : Cfg} {nm : String} {view : View} (enc : String → String) (now : Int)
    (t : Target) (hnm : nm ≠ "") (hn : t.name = nm) (hg : GT cfg nm view t.tree) :
    PTr cfg nm view (t.updateMeta cfg enc now true) := by
  unfold Target.updateMeta
  exact generateMetaUpdates_tr enc now _ hnm ⟨⟨hn, fun e he => (by cases he), hg⟩, trivial⟩

theorem dropRoots_goodT {nm : String} {view : View} (name' : String) (now : Int) :
    ∀ (roots : List String) (acc : Target × List Event), (∀ r ∈ roots, r ≠ "") → acc.1.name = nm →
      GoodT nm view acc.2 → GoodT nm view (dropRoots name' now roots acc).2
  | [], _, _, _, h => h
  | root :: roots, acc, hr, hn, h => by
    simp only [dropRoots, List.foldl_cons]
    exact dropRoots_goodT name' now roots _ (fun r hr' => hr r (List.mem_cons_of_mem _ hr')) hn
      (goodT_snoc h ⟨hn, fun hc => hr root (List.mem_cons_self ..) hc.1⟩)

theorem reset_tr {cfg : Cfg} {nm : String} {view : View} (enc : String → String) (now : Int)
    (t : Target) (hnm : nm ≠ "") (hn : t.name = nm) (hg : GT cfg nm view t.tree) :
    GoodT nm view (t.reset cfg enc now).2 := by
  rw [reset_eq]
  simp only
  have hm := updateMeta_tr (cfg := cfg) (nm := nm) (view := view) enc now
    { t with latest := none, md := Meta.clear } hnm hn hg
  refine dropRoots_goodT t.name now _ _ ?_ hm.p.name hm.tr
  intro r hr e
  have hr' := (List.mem_filter.1 hr).1
  obtain ⟨kv, hkv, hk⟩ := rootChildren_mem hr'
  exact hm.p.g.head kv hkv (by rw [hk, e])

/-! ## the whole cache -/

theorem applyS_same {V : Views} {e : Event} {nm : String} (h : evTarget e = nm) :
    applyS V e nm = applyEvent (V nm) e := by
  unfold applyS; simp [h]

theorem goodT_noTD {nm : String} : ∀ (evs : List Event) (v : View), GoodT nm v evs → NoTD evs
  | [], _, _ => fun e he => by cases he
  | e :: evs, v, h => by
    intro x hx
    rcases List.mem_cons.1 hx with rfl | hx'
    · cases x with
      | upd n => rfl
      | del t o p ts =>
        have := h.1.2
        cases hb : isTDev (.del t o p ts) with
        | false => rfl
        | true =>
          simp only [isTDev, Bool.and_eq_true, beq_iff_eq] at hb
          exact absurd hb this
    · exact goodT_noTD evs _ h.2 x hx'

theorem goodTr_of_goodT {nm : String} (hnm : nm ≠ glob) : ∀ (evs : List Event) (V : Views),
    (∀ e ∈ evs, evTarget e = nm) → GoodT nm (V nm) evs → GoodTr V evs
  | [], _, _, _ => trivial
  | e :: evs, V, hto, h => by
    have he := hto e (List.mem_cons_self ..)
    refine ⟨?_, goodTr_of_goodT hnm evs _ (fun x hx => hto x (List.mem_cons_of_mem _ hx)) ?_⟩
    · cases e with
      | upd n =>
        obtain ⟨h1, h2, h3, h4⟩ := h.1
        refine ⟨by rw [h1]; exact hnm, h2, h3, ?_⟩
        rw [h1]; exact h4
      | del t o p ts =>
        have : t = nm := h.1.1
        show t ≠ glob
        rw [this]; exact hnm
    · rw [applyS_same he]; exact h.2

theorem CacheOK.ssim {c : State} (hc : CacheOK c) : SSim (treesOf c) c :=
  ⟨fun name t hg => by rw [treesOf_some hg]; exact hc.gt name t hg, fun name hg => treesOf_none hg⟩

theorem CacheOK.ne_glob {c : State} (hc : CacheOK c) {name : String} {t : Target} (hg : c.get name = some t) :
    name ≠ glob := by
  intro e; rw [e, hc.noStar] at hg; cases hg

theorem onTarget_goodTr {c : State} (hc : CacheOK c) {name : String} {f : Target → Target × List Event}
    (hf : ∀ t, c.get name = some t → (∀ e ∈ (f t).2, evTarget e = name) ∧ GoodT name t.tree (f t).2) :
    GoodTr (treesOf c) (c.onTarget name f).2 ∧ NoTD (c.onTarget name f).2 := by
  unfold State.onTarget
  split
  · exact ⟨trivial, fun e he => by cases he⟩
  · rename_i t hg
    obtain ⟨h1, h2⟩ := hf t hg
    refine ⟨?_, goodT_noTD _ _ h2⟩
    apply goodTr_of_goodT (hc.ne_glob hg) _ _ h1
    rw [treesOf_some hg]; exact h2

/-- no target is added, and no removal is announced, under the wildcard name -/
def NoStarOp : Op → Prop
  | .add name => name ≠ glob
  | .remove name _ => name ≠ glob
  | _ => True

theorem updateMetadata_goodTr (enc : String → String) (now : Int) (c : State) (hi : SInv c) (hc : CacheOK c) :
    GoodTr (treesOf c) (c.updateMetadata enc now).2 ∧ NoTD (c.updateMetadata enc now).2 := by
  unfold State.updateMetadata
  suffices ∀ (l : List (String × Target)) (acc : State × List Event), SInv acc.1 → acc.1.cfg = c.cfg →
      acc.1.get glob = none → SSim (applySs (treesOf c) acc.2) acc.1 → GoodTr (treesOf c) acc.2 ∧ NoTD acc.2 →
      GoodTr (treesOf c) (l.foldl (fun acc kv =>
        match acc.1.get kv.1 with
        | none => acc
        | some t =>
          let r := t.updateMeta c.cfg enc now true
          (acc.1.set kv.1 r.1, acc.2 ++ r.2)) acc).2 ∧
      NoTD (l.foldl (fun acc kv =>
        match acc.1.get kv.1 with
        | none => acc
        | some t =>
          let r := t.updateMeta c.cfg enc now true
          (acc.1.set kv.1 r.1, acc.2 ++ r.2)) acc).2 from
    this c.targets (c, []) hi rfl hc.noStar hc.ssim ⟨trivial, fun e he => by cases he⟩
  intro l
  induction l with
  | nil => intro acc _ _ _ _ h; exact h
  | cons kv l ih =>
    intro acc hinv hcfg hns hss htr
    simp only [List.foldl_cons]
    split
    · exact ih acc hinv hcfg hns hss htr
    · rename_i t hg
      obtain ⟨h1, h2, h3⟩ := hinv kv.1 t hg
      have hne : kv.1 ≠ glob := by
        intro e; rw [e, hns] at hg; cases hg
      have hm := updateMeta_ok c.cfg enc now true t h1 (by rw [h2]; exact h3)
      have hp := updateMeta_tr (cfg := c.cfg) (nm := kv.1) (view := applySs (treesOf c) acc.2 kv.1) enc now t h3 h2
        (by rw [← hcfg]; exact hss.1 kv.1 t hg)
      apply ih
      · exact hinv.set ⟨hm.inv, hm.name.trans h2, h3⟩
      · show (acc.1.set kv.1 _).cfg = c.cfg
        rw [set_cfg]; exact hcfg
      · show (acc.1.set kv.1 _).get glob = none
        rw [get_set_other _ _ _ _ (fun e => hne e.symm)]; exact hns
      · show SSim (applySs (treesOf c) (acc.2 ++ (t.updateMeta c.cfg enc now true).2))
          (acc.1.set kv.1 (t.updateMeta c.cfg enc now true).1)
        rw [← applySs_append]
        exact hss.setTarget (by rw [hcfg]; exact hp.p)
      · show GoodTr (treesOf c) (acc.2 ++ (t.updateMeta c.cfg enc now true).2) ∧
          NoTD (acc.2 ++ (t.updateMeta c.cfg enc now true).2)
        refine ⟨(goodTr_append _ _ _).2 ⟨htr.1, goodTr_of_goodT hne _ _ hp.p.to hp.tr⟩, ?_⟩
        intro e he
        rcases List.mem_append.1 he with h | h
        · exact htr.2 e h
        · exact goodT_noTD _ _ hp.tr e h

/-- every call but `Cache.Remove` -/
def NotRemove : Op → Prop
  | .remove _ _ => False
  | _ => True

/-- **Every event of every API call is good for the views that applied the events before it**, and
only `Cache.Remove` announces a whole-target delete. -/
theorem step_goodTr (enc : String → String) (c : State) (op : Op) (hi : SInv c) (hc : CacheOK c)
    (hv : Feed.Op.ok c op) (hns : NoStarOp op) :
    GoodTr (treesOf c) (c.step enc op).2.2 ∧ (NotRemove op → NoTD (c.step enc op).2.2) := by
  have wrap : ∀ {evs : List Event}, GoodTr (treesOf c) evs ∧ NoTD evs →
      GoodTr (treesOf c) evs ∧ (NotRemove op → NoTD evs) := fun h => ⟨h.1, fun _ => h.2⟩
  cases op with
  | add name => exact ⟨trivial, fun _ e he => by cases he⟩
  | remove name now => exact ⟨⟨hns, trivial⟩, fun h => h.elim⟩
  | reset name now =>
    apply wrap
    apply onTarget_goodTr hc
    intro t hg
    obtain ⟨_, h2, h3⟩ := hi name t hg
    exact ⟨(reset_sim enc now t h3 h2 (hc.gt name t hg)).to, reset_tr enc now t h3 h2 (hc.gt name t hg)⟩
  | sync name now =>
    apply wrap
    apply onTarget_goodTr hc
    intro t hg
    obtain ⟨h1, h2, h3⟩ := hi name t hg
    have hcl := metaNoti_clean enc name "sync" (.bool true) now (by decide)
    exact ⟨(gnmiUpdate_psim now t _ h3 h1 h2 rfl hcl (hc.gt name t hg)).2.to,
      gnmiUpdate_tr now t _ h3 rfl hcl (hc.gt name t hg)⟩
  | connect name now =>
    apply wrap
    apply onTarget_goodTr hc
    intro t hg
    obtain ⟨h1, h2, h3⟩ := hi name t hg
    have hcl := metaNoti_clean enc name "connected" (.bool true) now (by decide)
    have p1 := (gnmiUpdate_psim (cfg := c.cfg) now t _ h3 h1 h2 rfl hcl (hc.gt name t hg)).2
    have t1 := gnmiUpdate_tr (cfg := c.cfg) now t _ h3 rfl hcl (hc.gt name t hg)
    obtain ⟨_, a, _, b⟩ := gnmiUpdate_ok c.cfg now t (metaNoti enc name "connected" (.bool true) now) h1 h3
    have hcl2 := deleteNotiOf_clean enc name [metaRoot, "connectError"] now
    have p2 := (gnmiUpdate_psim (cfg := c.cfg) now _ (deleteNotiOf enc name [metaRoot, "connectError"] now) h3 a
      (b.trans h2) rfl hcl2 p1.g).2
    have t2 := gnmiUpdate_tr (cfg := c.cfg) now _ (deleteNotiOf enc name [metaRoot, "connectError"] now) h3 rfl hcl2 p1.g
    refine ⟨(p1.append p2).to, ?_⟩
    exact (goodT_append name _ _ _).2 ⟨t1, t2⟩
  | connectError name msg now =>
    apply wrap
    apply onTarget_goodTr hc
    intro t hg
    obtain ⟨h1, h2, h3⟩ := hi name t hg
    have hcl := metaNoti_clean enc name "connectError" (.str msg) now (by decide)
    exact ⟨(gnmiUpdate_psim now t _ h3 h1 h2 rfl hcl (hc.gt name t hg)).2.to,
      gnmiUpdate_tr now t _ h3 rfl hcl (hc.gt name t hg)⟩
  | update now pn n =>
    apply wrap
    simp only [State.step, State.gnmiUpdate]
    split
    · exact ⟨trivial, fun e he => by cases he⟩
    · split
      · exact ⟨trivial, fun e he => by cases he⟩
      · rename_i t hg
        obtain ⟨h1, h2, h3⟩ := hi n.target t hg
        have htr := gnmiUpdate_tr (cfg := c.cfg) now t n h3 rfl hv (hc.gt _ t hg)
        refine ⟨?_, goodT_noTD _ _ htr⟩
        apply goodTr_of_goodT (hc.ne_glob hg) _ _ (gnmiUpdate_psim now t n h3 h1 h2 rfl hv (hc.gt _ t hg)).2.to
        rw [treesOf_some hg]
        exact htr
  | updateMetadata now => exact wrap (updateMetadata_goodTr enc now c hi hc)

/-! ### `CacheOK` is an invariant; the views that applied an operation's events follow the new trees -/

theorem onTarget_get_none {c : State} {U : String} (name : String) (f : Target → Target × List Event)
    (h : c.get U = none) : (c.onTarget name f).1.get U = none := by
  unfold State.onTarget
  split
  · exact h
  · rename_i t hg
    by_cases hU : U = name
    · subst hU; rw [h] at hg; cases hg
    · show (c.set name _).get U = none
      rw [get_set_other _ _ _ _ hU]; exact h

theorem updateMetadata_get_none (enc : String → String) (now : Int) (c : State) {U : String}
    (h : c.get U = none) : (c.updateMetadata enc now).1.get U = none := by
  unfold State.updateMetadata
  suffices ∀ (l : List (String × Target)) (acc : State × List Event), acc.1.get U = none →
      (l.foldl (fun acc kv =>
        match acc.1.get kv.1 with
        | none => acc
        | some t =>
          let r := t.updateMeta c.cfg enc now true
          (acc.1.set kv.1 r.1, acc.2 ++ r.2)) acc).1.get U = none from this c.targets (c, []) h
  intro l
  induction l with
  | nil => intro acc h; exact h
  | cons kv l ih =>
    intro acc hacc
    simp only [List.foldl_cons]
    split
    · exact ih acc hacc
    · rename_i t hg
      apply ih
      by_cases hU : U = kv.1
      · subst hU; rw [hacc] at hg; cases hg
      · show (acc.1.set kv.1 _).get U = none
        rw [get_set_other _ _ _ _ hU]; exact hacc

theorem step_get_none (enc : String → String) (c : State) (op : Op) (U : String)
    (hna : ∀ name, op = .add name → name ≠ U) (h : c.get U = none) : (c.step enc op).1.get U = none := by
  cases op with
  | add name =>
    show (c.set name _).get U = none
    rw [get_set_other _ _ _ _ (fun e => hna name rfl e.symm)]; exact h
  | remove name now =>
    simp only [State.step, State.remove, State.get]
    by_cases hU : U = name
    · subst hU; rw [get_filter_same]; rfl
    · rw [get_filter_other _ _ _ hU]
      exact h
  | reset name now => exact onTarget_get_none name _ h
  | sync name now => exact onTarget_get_none name _ h
  | connect name now => exact onTarget_get_none name _ h
  | connectError name msg now => exact onTarget_get_none name _ h
  | update now pn n =>
    simp only [State.step, State.gnmiUpdate]
    split
    · exact h
    · split
      · exact h
      · rename_i t hg
        by_cases hU : U = n.target
        · rw [← hU, h] at hg; cases hg
        · show (c.set n.target _).get U = none
          rw [get_set_other _ _ _ _ hU]; exact h
  | updateMetadata now => exact updateMetadata_get_none enc now c h

theorem step_get_glob (enc : String → String) (c : State) (op : Op) (hns : NoStarOp op)
    (h : c.get glob = none) : (c.step enc op).1.get glob = none := by
  apply step_get_none enc c op glob _ h
  intro name e
  subst e
  exact hns

theorem step_cacheOK (enc : String → String) (c : State) (op : Op) (hi : SInv c) (hc : CacheOK c)
    (hv : Feed.Op.ok c op) (hns : NoStarOp op) :
    CacheOK (c.step enc op).1 ∧
    ∀ t k, Sim c.cfg (lookup (applySs (treesOf c) (c.step enc op).2.2 t) k) (lookup (treesOf (c.step enc op).1 t) k) := by
  have hss := step_ssim enc c (treesOf c) op hi hc.ssim hv
  have hcfg := C14.step_cfg enc c op
  refine ⟨⟨step_names enc c op hc.names, ?_, step_get_glob enc c op hns hc.noStar⟩, ?_⟩
  · intro t tg hg
    have g := hss.1 t tg hg
    exact ⟨g.unique, g.pf, g.noGlob, g.storedAt, g.owner, g.head, ⟨g.unique, fun k => sim_refl _ _⟩⟩
  · intro t k
    cases hg : (c.step enc op).1.get t with
    | some tg =>
      rw [treesOf_some hg, ← hcfg]
      exact (hss.1 t tg hg).r.agree k
    | none =>
      rw [treesOf_none hg, hss.2 t hg]
      simp [lookup, Sim]

theorem cacheOK_empty (cfg : Cfg) : CacheOK { cfg := cfg } :=
  ⟨NamesUnique.empty cfg, fun t tg h => by simp [State.get] at h, by simp [State.get]⟩

end SubStream
end Gnmi
