import Gnmi.Lemmas.SubscribeBasic
/-!
# Projection onto allowed targets (C07 `allowed_unaffected`)

`proj` erases from a subscriber everything that concerns a target its ACL denies: queue
entries, the item the sender has just dequeued, walk bookkeeping, ghost logs.  Every step of
the system with the ACL is, after projection, the same step or no step of the system in which
the subscriber has no ACL and asks only for the allowed targets.
-/
namespace Gnmi
namespace SubLTS
set_option linter.unusedSimpArgs false
set_option linter.unusedSectionVars false
set_option linter.unnecessarySimpa false

section
variable {K V T R : Type} [DecidableEq K] [DecidableEq R]

/-- the ACL allows the target the item is about -/
def okI (sys : Sys K T R) (allow : T → Bool) : Item K R → Bool
  | .handle k _ => allow (sys.tgt k)
  | .delNote k => allow (sys.tgt k)
  | .regionDel r => allow (sys.rtgt r)
  | .syncMarker => true

def projSnd (sys : Sys K T R) (allow : T → Bool) : Snd K V R → Snd K V R
  | .got i d => if okI sys allow i then .got i d else .idle
  | s => s

def projWalker (sys : Sys K T R) (allow : T → Bool) : Walker K → Walker K
  | .walking todo vis =>
    .walking (todo.filter fun k => allow (sys.tgt k)) (vis.filter fun k => allow (sys.tgt k))
  | w => w

def proj (sys : Sys K T R) (allow : T → Bool) (b : Sub K V R) : Sub K V R :=
  { b with
    q := b.q.filter fun x => okI sys allow x.1
    snd := projSnd sys allow b.snd
    walker := projWalker sys allow b.walker
    insLog := b.insLog.filter (okI sys allow)
    deliv := b.deliv.filter fun x => okI sys allow x.1 }

variable (sys : Sys K T R) (allow : T → Bool)

theorem bump_filter_ok (i : Item K R) (q : List (Item K R × Nat)) :
    (Coalesce.bump i q).filter (fun x => okI sys allow x.1) =
      Coalesce.bump i (q.filter fun x => okI sys allow x.1) := by
  induction q with
  | nil => rfl
  | cons a l ih =>
    obtain ⟨k, c⟩ := a
    simp only [Coalesce.bump]
    by_cases e : k = i
    · subst e
      cases h : okI sys allow k <;> simp [List.filter, h, ih, Coalesce.bump]
    · cases h : okI sys allow k <;> simp [List.filter, h, ih, Coalesce.bump, e]

theorem bump_filter_not_ok {i : Item K R} (hi : okI sys allow i = false) (q : List (Item K R × Nat)) :
    (Coalesce.bump i q).filter (fun x => okI sys allow x.1) = q.filter fun x => okI sys allow x.1 := by
  induction q with
  | nil => rfl
  | cons a l ih =>
    obtain ⟨k, c⟩ := a
    simp only [Coalesce.bump]
    by_cases e : k = i
    · subst e; simp [List.filter, hi, ih]
    · cases h : okI sys allow k <;> simp [List.filter, h, ih, e]

theorem mem_filter_fst {i : Item K R} (hi : okI sys allow i = true) (q : List (Item K R × Nat)) :
    i ∈ (q.filter fun x => okI sys allow x.1).map (·.1) ↔ i ∈ q.map (·.1) := by
  simp only [List.mem_map, List.mem_filter]
  constructor
  · rintro ⟨x, ⟨hx, _⟩, e⟩; exact ⟨x, hx, e⟩
  · rintro ⟨x, hx, e⟩; exact ⟨x, ⟨hx, by rw [e]; exact hi⟩, e⟩

theorem qins_filter_ok {i : Item K R} (hi : okI sys allow i = true) (q : List (Item K R × Nat)) :
    (qins q i).filter (fun x => okI sys allow x.1) = qins (q.filter fun x => okI sys allow x.1) i := by
  unfold qins
  by_cases h : i.coal = true ∧ i ∈ q.map (·.1)
  · have h' : i.coal = true ∧ i ∈ (q.filter fun x => okI sys allow x.1).map (·.1) :=
      ⟨h.1, (mem_filter_fst sys allow hi q).2 h.2⟩
    rw [if_pos h, if_pos h']
    exact bump_filter_ok sys allow i q
  · have h' : ¬ (i.coal = true ∧ i ∈ (q.filter fun x => okI sys allow x.1).map (·.1)) :=
      fun hx => h ⟨hx.1, (mem_filter_fst sys allow hi q).1 hx.2⟩
    rw [if_neg h, if_neg h']
    simp [List.filter_append, List.filter, hi]

theorem qins_filter_not_ok {i : Item K R} (hi : okI sys allow i = false) (q : List (Item K R × Nat)) :
    (qins q i).filter (fun x => okI sys allow x.1) = q.filter fun x => okI sys allow x.1 := by
  unfold qins
  split
  · exact bump_filter_not_ok sys allow hi q
  · simp [List.filter_append, List.filter, hi]

theorem proj_ins_ok {i : Item K R} (hi : okI sys allow i = true) (b : Sub K V R) :
    proj sys allow (b.ins i) = (proj sys allow b).ins i := by
  unfold Sub.ins
  by_cases hc : b.closed = true
  · simp [proj, hc]
  · simp [proj, hc, qins_filter_ok sys allow hi, List.filter_append, List.filter, hi]

theorem proj_ins_not_ok {i : Item K R} (hi : okI sys allow i = false) (b : Sub K V R) :
    proj sys allow (b.ins i) = proj sys allow b := by
  unfold Sub.ins
  by_cases hc : b.closed = true
  · simp [proj, hc]
  · simp [proj, hc, qins_filter_not_ok sys allow hi, List.filter_append, List.filter, hi]

theorem proj_finish (b : Sub K V R) (st : Status) :
    proj sys allow (b.finish st) = (proj sys allow b).finish st := by
  simp [proj, Sub.finish, projSnd]

@[simp] theorem projWalker_idle (w : Walker K) : projWalker sys allow w = .idle ↔ w = .idle := by
  cases w <;> simp [projWalker]
@[simp] theorem projWalker_done (w : Walker K) : projWalker sys allow w = .done ↔ w = .done := by
  cases w <;> simp [projWalker]

theorem projWalker_filter (w : Walker K) (f : K → Bool) :
    projWalker sys allow (w.filter f) = (projWalker sys allow w).filter f := by
  cases w <;> simp [projWalker, Walker.filter, List.filter_filter, Bool.and_comm]


/-- the request without ACL, asking only for what the ACL allowed -/
def allowedReq (sys : Sys K T R) (rq : Req K T R) : Req K T R :=
  { rq with
    allow := fun _ => true
    wants := fun k => rq.wants k && rq.allow (sys.tgt k)
    walks := fun k => rq.walks k && rq.allow (sys.tgt k)
    wantsR := fun r => rq.wantsR r && rq.allow (sys.rtgt r) }

theorem snapshot_allowed (sys : Sys K T R) (rq : Req K T R) (sh : Shared K V T R) :
    snapshot sh (allowedReq sys rq) = (snapshot sh rq).filter fun k => rq.allow (sys.tgt k) := by
  simp only [snapshot, allowedReq, List.filter_filter]
  congr 1
  funext k
  cases sh.present k <;> cases rq.walks k <;> cases rq.allow (sys.tgt k) <;> rfl

/-- writer steps commute with the projection -/
theorem proj_onShared (sys : Sys K T R) (rq : Req K T R) (b : Sub K V R) (l : ShLabel K V T R) :
    proj sys rq.allow (b.onShared sys rq l) =
      (proj sys rq.allow b).onShared sys (allowedReq sys rq) l := by
  cases l with
  | tAdd t => rfl
  | w1Upd k v => rfl
  | w1Add k v => rfl
  | w1Quiet k v => rfl
  | w1Del ks =>
    simp only [Sub.onShared, proj]
    simp [projWalker_filter]
  | w1Reg r =>
    simp only [Sub.onShared, proj]
    simp [projWalker_filter]
  | w2 u =>
    rw [onShared_w2, onShared_w2]
    have hreg : (proj sys rq.allow b).registered = b.registered := rfl
    rw [hreg]
    cases hr : b.registered with
    | false => simp
    | true =>
      simp only [Bool.true_and]
      cases u with
      | upd k g =>
        simp only [WUnit.offered, WUnit.item, allowedReq]
        by_cases hw : rq.wants k = true
        · by_cases ha : rq.allow (sys.tgt k) = true
          · simp only [hw, ha, Bool.and_self, if_true]
            exact proj_ins_ok sys rq.allow (by simp [okI, ha]) b
          · have ha' : rq.allow (sys.tgt k) = false := by simpa using ha
            simp only [hw, ha', Bool.and_false, Bool.false_eq_true, if_true, if_false]
            exact proj_ins_not_ok sys rq.allow (by simp [okI, ha']) b
        · have hw' : rq.wants k = false := by simpa using hw
          simp [hw']
      | del k =>
        simp only [WUnit.offered, WUnit.item, allowedReq]
        by_cases hw : rq.wants k = true
        · by_cases ha : rq.allow (sys.tgt k) = true
          · simp only [hw, ha, Bool.and_self, if_true]
            exact proj_ins_ok sys rq.allow (by simp [okI, ha]) b
          · have ha' : rq.allow (sys.tgt k) = false := by simpa using ha
            simp only [hw, ha', Bool.and_false, Bool.false_eq_true, if_true, if_false]
            exact proj_ins_not_ok sys rq.allow (by simp [okI, ha']) b
        · have hw' : rq.wants k = false := by simpa using hw
          simp [hw']
      | reg r =>
        simp only [WUnit.offered, WUnit.item, allowedReq]
        by_cases hw : rq.wantsR r = true
        · by_cases ha : rq.allow (sys.rtgt r) = true
          · simp only [hw, ha, Bool.and_self, if_true]
            exact proj_ins_ok sys rq.allow (by simp [okI, ha]) b
          · have ha' : rq.allow (sys.rtgt r) = false := by simpa using ha
            simp only [hw, ha', Bool.and_false, Bool.false_eq_true, if_true, if_false]
            exact proj_ins_not_ok sys rq.allow (by simp [okI, ha']) b
        · have hw' : rq.wantsR r = false := by simpa using hw
          simp [hw']


theorem okI_of_mkResp {sys : Sys K T R} {sh : Shared K V T R} {d : Nat} {i : Item K R}
    {r : Resp K V R} {t : T} (allow : T → Bool) (h : mkResp sys sh d i = some (r, t)) :
    okI sys allow i = allow t := by
  cases i <;> simp only [mkResp, Option.some.injEq, Prod.mk.injEq] at h
  all_goals first | (obtain ⟨_, h⟩ := h; subst h; rfl) | cases h

theorem filter_ne_of_not_ok {sys : Sys K T R} {allow : T → Bool} {k : K}
    (hk : allow (sys.tgt k) = false) (l : List K) :
    (l.filter (· ≠ k)).filter (fun x => allow (sys.tgt x)) = l.filter fun x => allow (sys.tgt x) := by
  rw [List.filter_filter]
  apply List.filter_congr
  intro x _
  by_cases e : x = k
  · subst e; simp [hk]
  · simp [e]

/-- a local step of a `*` subscriber, projected: no step, or the same step of the subscriber
without ACL that only asks for the allowed targets -/
theorem proj_local {sys : Sys K T R} {rq : Req K T R} {sh : Shared K V T R} {b b' : Sub K V R}
    {l : SLabel K} (hsingle : rq.single = none) (h : SubStep sys rq sh b l b') :
    proj sys rq.allow b' = proj sys rq.allow b ∨
    subFire sys (allowedReq sys rq) sh (proj sys rq.allow b) l = some (proj sys rq.allow b') := by
  cases h
  case fin l st why =>
    refine Or.inr ?_
    rw [proj_finish]
    cases why
    case unauth hpc ha => simp [subFire, hFire, proj, hpc, allowedReq, ha]
    case invalid hpc ha => simp [subFire, hFire, proj, hpc, allowedReq, ha]
    case badMode hpc hm => simp [subFire, hFire, proj, hpc, allowedReq, hm]
    case notFound t _ hs _ => rw [hsingle] at hs; cases hs
    case denied t _ hs _ => rw [hsingle] at hs; cases hs
    case eof hst hm hw => simp [subFire, proj, allowedReq, hst, hm, hw, projWalker]
    case drained hs hq hc => simp [subFire, proj, hs, hq, hc, projSnd]
    case dropEnd i d r t hs hmk _ hend =>
      cases i <;> simp [endsStream, hsingle] at hend
    case expire ha => simp [subFire, proj, ha]
    case cancel hpc => simp [subFire, proj, hpc]
  case h0 hpc ha => exact Or.inr (by simp [subFire, hFire, proj, hpc, allowedReq, ha])
  case h1 hpc ha => exact Or.inr (by simp [subFire, hFire, proj, hpc, allowedReq, ha])
  case h2 hpc _ => exact Or.inr (by simp [subFire, hFire, proj, hpc, allowedReq, hsingle])
  case h3 hpc _ => exact Or.inr (by simp [subFire, hFire, proj, hpc, allowedReq, hsingle])
  case h4poll hpc hm hno =>
    refine Or.inr ?_
    cases hmode : rq.mode with
    | stream => exact absurd hmode hm
    | once => simp [subFire, hFire, proj, hpc, allowedReq, hmode]
    | poll => simp [subFire, hFire, proj, hpc, allowedReq, hmode]
    | other => exact absurd hmode hno
  case h4stream hpc hm huo =>
    exact Or.inr (by simp [subFire, hFire, proj, hpc, allowedReq, hm, huo])
  case h4sync hpc hm huo =>
    refine Or.inr ?_
    have := proj_ins_ok sys rq.allow (i := .syncMarker) rfl b
    simp only [subFire, hFire, allowedReq, hm, huo, if_true]
    have hpc' : (proj sys rq.allow b).pc = .h4 := hpc
    rw [hpc']
    simp only [← this]
    rfl
  case register hpc hw =>
    refine Or.inr ?_
    have hpc' : (proj sys rq.allow b).pc = .reg := hpc
    simp only [subFire, hFire, hpc']
    by_cases hsw : sys.swap = true
    · have := hw hsw
      simp [proj, hsw, this, projWalker]
    · simp [proj, hsw]
  case spawnUO hpc hm huo =>
    refine Or.inr ?_
    have hpc' : (proj sys rq.allow b).pc = .spawn := hpc
    simp only [subFire, hFire, hpc']
    simp [proj, allowedReq, hm, huo, projSnd, projWalker]
    rfl
  case spawn hpc hn =>
    refine Or.inr ?_
    have hpc' : (proj sys rq.allow b).pc = .spawn := hpc
    simp only [subFire, hFire, hpc']
    have hn' : ¬ ((allowedReq sys rq).mode = .stream ∧ (allowedReq sys rq).updatesOnly = true) := hn
    rw [if_neg hn']
    simp only [Sub.startWalk, snapshot_allowed]
    cases huo : rq.updatesOnly <;>
      simp [proj, allowedReq, huo, projSnd, projWalker] <;> rfl
  case visit k todo vis hwk hst huo hp hw hv =>
    by_cases ha : rq.allow (sys.tgt k) = true
    · refine Or.inr ?_
      have hwk' : (proj sys rq.allow b).walker =
          .walking (todo.filter fun k => rq.allow (sys.tgt k)) (vis.filter fun k => rq.allow (sys.tgt k)) := by
        simp [proj, hwk, projWalker]
      have hv' : (vis.filter fun k => rq.allow (sys.tgt k)).count k ≤ (allowedReq sys rq).extra k := by
        rw [List.count_filter (by simpa using ha)]; exact hv
      have hst' : (proj sys rq.allow b).status = none := hst
      simp only [subFire, hwk']
      rw [if_pos ⟨hst', huo, hp, by simp [allowedReq, hw, ha], hv'⟩]
      rw [← proj_ins_ok sys rq.allow (by simp [okI, ha]) b]
      simp [proj, projWalker, ha, List.filter_filter, Bool.and_comm]
    · refine Or.inl ?_
      have ha' : rq.allow (sys.tgt k) = false := by simpa using ha
      have h1 := proj_ins_not_ok sys rq.allow (i := .handle k (sh.gen k)) (by simp [okI, ha']) b
      have : proj sys rq.allow { b.ins (.handle k (sh.gen k)) with
          walker := .walking (todo.filter (· ≠ k)) (k :: vis) } =
          { proj sys rq.allow (b.ins (.handle k (sh.gen k))) with
            walker := projWalker sys rq.allow (.walking (todo.filter (· ≠ k)) (k :: vis)) } := rfl
      rw [this, h1]
      simp [proj, projWalker, hwk, ha', List.filter_filter]
      apply List.filter_congr
      intro x _
      by_cases e : x = k
      · subst e; simp [ha']
      · simp [e]
  case finish vis hwk hst =>
    refine Or.inr ?_
    have hwk' : (proj sys rq.allow b).walker = .walking [] (vis.filter fun k => rq.allow (sys.tgt k)) := by
      simp [proj, hwk, projWalker]
    have hst' : (proj sys rq.allow b).status = none := hst
    simp only [subFire, hwk', hst', if_true]
    rw [← proj_ins_ok sys rq.allow (i := .syncMarker) rfl b]
    simp [proj, projWalker, allowedReq]
    rfl
  case poll hst hm hw =>
    refine Or.inr ?_
    have hst' : (proj sys rq.allow b).status = none := hst
    have hw' : (proj sys rq.allow b).walker = .done := by simp [proj, hw, projWalker]
    simp only [subFire]
    rw [if_pos ⟨hst', hm, hw'⟩]
    simp only [Sub.startWalk, snapshot_allowed]
    cases huo : rq.updatesOnly <;> simp [proj, allowedReq, huo, projSnd, projWalker]
  case next i d rest hs hq =>
    by_cases hi : okI sys rq.allow i = true
    · refine Or.inr ?_
      have hs' : (proj sys rq.allow b).snd = .idle := by simp [proj, hs, projSnd]
      have hq' : (proj sys rq.allow b).q = (i, d) :: rest.filter fun x => okI sys rq.allow x.1 := by
        simp [proj, hq, List.filter, hi]
      simp only [subFire, hs', hq']
      simp [proj, projSnd, hi, List.filter_append, List.filter]
    · refine Or.inl ?_
      have hi' : okI sys rq.allow i = false := by simpa using hi
      simp [proj, projSnd, hi', hs, hq, List.filter_append, List.filter]
  case buildSync i d hs hmk =>
    refine Or.inr ?_
    have hi : i = .syncMarker := by cases i <;> simp [mkResp] at hmk; rfl
    subst hi
    have hs' : (proj sys rq.allow b).snd = .got .syncMarker d := by simp [proj, hs, projSnd, okI]
    simp only [subFire, hs', mkResp]
    simp [proj, projSnd]
  case buildArm i d r t hs hmk ha =>
    refine Or.inr ?_
    have hi : okI sys rq.allow i = true := by rw [okI_of_mkResp rq.allow hmk]; exact ha
    have hs' : (proj sys rq.allow b).snd = .got i d := by simp [proj, hs, projSnd, hi]
    simp only [subFire, hs', hmk]
    simp [proj, projSnd, allowedReq]
  case buildDrop i d r t hs hmk hd _ =>
    refine Or.inl ?_
    have hi : okI sys rq.allow i = false := by rw [okI_of_mkResp rq.allow hmk]; exact hd
    simp [proj, projSnd, hs, hi]
  case sentSync hb hs =>
    refine Or.inr ?_
    have hs' : (proj sys rq.allow b).snd = .sendSync := by simp [proj, hs, projSnd]
    have hb' : (proj sys rq.allow b).blocked = false := hb
    simp only [subFire, hb', hs']
    simp [proj, projSnd, hb]
  case sentResp r hb hs hend =>
    refine Or.inr ?_
    have hs' : (proj sys rq.allow b).snd = .sending r := by simp [proj, hs, projSnd]
    have hb' : (proj sys rq.allow b).blocked = false := hb
    have hend' : endsStreamR sys (allowedReq sys rq) r = false := by
      cases r <;> simp [endsStreamR, allowedReq, hsingle]
    simp only [subFire, hb', hs', hend']
    simp [proj, projSnd, hb]
  case sentEnd r _ _ hend =>
    cases r <;> simp [endsStreamR, hsingle] at hend
  case gateClose => exact Or.inr (by simp [subFire, proj])
  case gateOpen => exact Or.inr (by simp [subFire, proj])

end
end SubLTS
end Gnmi
