import Gnmi.Spec.TargetCfg
/-!
Helper lemmas for C17 (`Props/C17.lean`): association lists as Go maps, `Validate` as a
predicate, `handleDiffs` equals the declarative difference of the effective views, replaying
calls with pairwise distinct names in any order.
-/
namespace Gnmi
namespace TargetCfg

variable {α β : Type}

/-! ## association lists -/

@[simp] theorem find_nil (k : String) : find k ([] : List (String × α)) = none := rfl

theorem find_cons (k k' : String) (v : α) (r : List (String × α)) :
    find k ((k', v) :: r) = if k' = k then some v else find k r := rfl

@[simp] theorem keys_nil : keys ([] : List (String × α)) = [] := rfl

@[simp] theorem keys_cons (kv : String × α) (r : List (String × α)) :
    keys (kv :: r) = kv.1 :: keys r := rfl

theorem mem_keys_of_mem {k : String} {v : α} {m : List (String × α)} (h : (k, v) ∈ m) :
    k ∈ keys m := List.mem_map.mpr ⟨(k, v), h, rfl⟩

theorem find_eq_none_iff {k : String} {m : List (String × α)} : find k m = none ↔ k ∉ keys m := by
  induction m with
  | nil => simp
  | cons kv r ih =>
    obtain ⟨k', v⟩ := kv
    rw [find_cons, keys_cons, List.mem_cons]
    by_cases h : k' = k
    · simp [h]
    · have h' : ¬ k = k' := fun e => h e.symm
      simp [h, h', ih]

theorem mem_of_find {k : String} {v : α} {m : List (String × α)} (h : find k m = some v) :
    (k, v) ∈ m := by
  induction m with
  | nil => simp at h
  | cons kv r ih =>
    obtain ⟨k', v'⟩ := kv
    rw [find_cons] at h
    by_cases e : k' = k
    · simp [e] at h
      simp [e, h]
    · simp [e] at h
      exact List.mem_cons_of_mem _ (ih h)

theorem find_of_mem {k : String} {v : α} {m : List (String × α)} (nd : (keys m).Nodup)
    (h : (k, v) ∈ m) : find k m = some v := by
  induction m with
  | nil => simp at h
  | cons kv r ih =>
    obtain ⟨k', v'⟩ := kv
    rw [keys_cons, List.nodup_cons] at nd
    rw [find_cons]
    rcases List.mem_cons.mp h with e | e
    · cases e; simp
    · have : k' ≠ k := fun e' => nd.1 (e' ▸ mem_keys_of_mem e)
      simp [this, ih nd.2 e]

theorem find_some_iff {k : String} {v : α} {m : List (String × α)} (nd : (keys m).Nodup) :
    find k m = some v ↔ (k, v) ∈ m := ⟨mem_of_find, find_of_mem nd⟩

theorem find_isSome_iff {k : String} {m : List (String × α)} : (find k m).isSome ↔ k ∈ keys m := by
  rw [← Decidable.not_iff_not, ← find_eq_none_iff]
  cases find k m <;> simp

theorem erase_eq_filter (k : String) (m : List (String × α)) :
    erase k m = m.filter (fun kv => decide (kv.1 ≠ k)) := by
  induction m with
  | nil => rfl
  | cons kv r ih =>
    obtain ⟨k', v⟩ := kv
    by_cases h : k' = k <;> simp [erase, h, ih]

@[simp] theorem find_erase_self (k : String) (m : List (String × α)) : find k (erase k m) = none := by
  induction m with
  | nil => rfl
  | cons kv r ih =>
    obtain ⟨k', v⟩ := kv
    by_cases h : k' = k <;> simp [erase, h, ih, find_cons]

theorem find_erase_ne {k k' : String} (h : k' ≠ k) (m : List (String × α)) :
    find k' (erase k m) = find k' m := by
  induction m with
  | nil => rfl
  | cons kv r ih =>
    obtain ⟨k'', v⟩ := kv
    by_cases e : k'' = k
    · have : k'' ≠ k' := fun e' => h (e' ▸ e)
      simp [erase, e, ih, find_cons, e ▸ this]
    · simp [erase, e, ih, find_cons]

theorem mem_keys_erase {k k' : String} {m : List (String × α)} :
    k' ∈ keys (erase k m) ↔ k' ∈ keys m ∧ k' ≠ k := by
  rw [← find_isSome_iff, ← find_isSome_iff]
  by_cases h : k' = k
  · simp [h]
  · simp [h, find_erase_ne h]

theorem nodup_keys_erase (k : String) {m : List (String × α)} (nd : (keys m).Nodup) :
    (keys (erase k m)).Nodup := by
  rw [erase_eq_filter]
  exact (List.filter_sublist.map Prod.fst).nodup nd

theorem find_mapVal (f : α → β) (k : String) (m : List (String × α)) :
    find k (m.map (fun kv => (kv.1, f kv.2))) = (find k m).map f := by
  induction m with
  | nil => rfl
  | cons kv r ih =>
    obtain ⟨k', v⟩ := kv
    by_cases h : k' = k <;> simp [find_cons, h, ih]

theorem keys_mapVal (f : α → β) (m : List (String × α)) :
    keys (m.map (fun kv => (kv.1, f kv.2))) = keys m := by
  simp [keys, List.map_map, Function.comp_def]

theorem find_perm {a b : List (String × α)} (nd : (keys a).Nodup) (p : a.Perm b) (k : String) :
    find k a = find k b := by
  have ndb : (keys b).Nodup := (p.map Prod.fst).nodup_iff.mp nd
  cases h : find k a with
  | none =>
    have : k ∉ keys b := fun hb => (find_eq_none_iff.mp h) ((p.map Prod.fst).mem_iff.mpr hb)
    exact (find_eq_none_iff.mpr this).symm
  | some v => exact (find_of_mem ndb (p.mem_iff.mp (mem_of_find h))).symm

theorem nodup_of_map {γ δ : Type} (f : γ → δ) {l : List γ} (h : (l.map f).Nodup) : l.Nodup :=
  List.Pairwise.of_map f (fun _ _ hne e => hne (e ▸ rfl)) h

/-- two association lists with distinct keys that agree as maps are permutations of each other -/
theorem perm_of_mapEq [DecidableEq α] {a b : List (String × α)} (na : (keys a).Nodup)
    (nb : (keys b).Nodup) (h : MapEq a b) : a.Perm b := by
  have na' : a.Nodup := nodup_of_map Prod.fst na
  have nb' : b.Nodup := nodup_of_map Prod.fst nb
  rw [List.perm_ext_iff_of_nodup na' nb']
  intro ⟨k, v⟩
  rw [← find_some_iff na, ← find_some_iff nb, h k]

/-! ## `Validate` and `checkRevision` as predicates -/

theorem validateTarget_ok_iff (reqs : List (String × Req)) (k : String) (t : TgtP) :
    validateTarget reqs k t = .ok () ↔ TargetOK reqs k t := by
  unfold validateTarget TargetOK
  by_cases hk : k = ""
  · simp [hk]
  · cases t with
    | none => simp [hk]
    | some tv =>
      by_cases ha : tv.addresses = []
      · simp [hk, ha]
      · have ha' : tv.addresses.length ≠ 0 := fun e => ha (List.length_eq_zero_iff.mp e)
        by_cases hr : tv.request = ""
        · simp [hk, ha', hr]
        · cases hf : find tv.request reqs with
          | none =>
            have := find_eq_none_iff.mp hf
            simp [hk, ha', hr, hf, this]
          | some r =>
            have : tv.request ∈ keys reqs := mem_keys_of_mem (mem_of_find hf)
            simp [hk, ha', ha, hr, hf, this]

theorem validateList_ok_iff (reqs : List (String × Req)) (ts : List (String × TgtP)) :
    validateList reqs ts = .ok () ↔ ∀ kt ∈ ts, TargetOK reqs kt.1 kt.2 := by
  induction ts with
  | nil => simp [validateList]
  | cons kt r ih =>
    obtain ⟨k, t⟩ := kt
    simp only [validateList, List.mem_cons, forall_eq_or_imp]
    cases h : validateTarget reqs k t with
    | error e =>
      have : ¬ TargetOK reqs k t := fun ok => by
        rw [(validateTarget_ok_iff reqs k t).mpr ok] at h; cases h
      simp [this]
    | ok u =>
      have : TargetOK reqs k t := (validateTarget_ok_iff reqs k t).mp h
      simp [this, ih]

theorem validate_ok_iff (c : Cfg) : validate c = .ok () ↔ Valid c :=
  validateList_ok_iff c.request c.target

theorem validB_iff (c : Cfg) : validB c = true ↔ Valid c := by
  unfold validB Valid TargetOK
  rw [List.all_eq_true]
  constructor
  · intro h kt hm
    have := h kt hm
    cases ht : kt.2 with
    | none => simp [ht] at this
    | some tv =>
      simp [ht] at this
      exact ⟨this.1, tv, rfl, this.2.1.1, this.2.1.2, this.2.2⟩
  · intro h kt hm
    obtain ⟨h1, tv, h2, h3, h4, h5⟩ := h kt hm
    simp [h1, h2, h3, h4, h5]

theorem checkRevision_iff (cur : Option Cfg) (c : Cfg) : checkRevision cur c = true ↔ Newer cur c := by
  unfold checkRevision Newer
  cases cur with
  | none => simp
  | some o =>
    by_cases h : c.revision ≤ o.revision
    · simp [h, Int.not_lt.mpr h]
    · simp [h, Int.not_le.mp h]

theorem newerB_iff (cur : Option Cfg) (c : Cfg) : newerB cur c = true ↔ Newer cur c := by
  unfold newerB Newer
  cases cur <;> simp

/-! ## `handleDiffs` is the declarative difference of the effective views -/

theorem filterMap_congr' {γ δ : Type} {f g : γ → Option δ} {l : List γ}
    (h : ∀ x ∈ l, f x = g x) : l.filterMap f = l.filterMap g := by
  induction l with
  | nil => rfl
  | cons x r ih =>
    rw [List.filterMap_cons, List.filterMap_cons, h x (List.mem_cons_self ..),
      ih (fun y hy => h y (List.mem_cons_of_mem _ hy))]

theorem filter_const_true {γ : Type} (l : List γ) : l.filter (fun _ => true) = l := by
  induction l with
  | nil => rfl
  | cons x r ih => simp

/-- `if h.X != nil { h.X(c) }` followed by more calls, as a filter -/
theorem emitIf_append (h : Handlers) (c : Call) (l : List Call) :
    emitIf (h.allows c) c ++ l.filter h.allows = (c :: l).filter h.allows := by
  unfold emitIf
  cases hc : h.allows c <;> simp [hc]

theorem tgtAt_erase_ne {k k' : String} (h : k' ≠ k) (nts : List (String × TgtP)) :
    tgtAt (erase k nts) k' = tgtAt nts k' := by
  simp [tgtAt, find_erase_ne h]

theorem not_mem_keys_of_tgtAt_none {nts : List (String × TgtP)} {k : String}
    (hs : ∀ kt ∈ nts, kt.2 ≠ none) (h : tgtAt nts k = none) : k ∉ keys nts := by
  unfold tgtAt at h
  cases hf : find k nts with
  | none => exact find_eq_none_iff.mp hf
  | some t =>
    rw [hf] at h
    exact absurd h (hs (k, t) (mem_of_find hf))

/-- what the second loop of `handleDiffs` does for one old target, in terms of the
*unmodified* map of new targets -/
def oldCall (nr : List (String × Req)) (ch : List String) (nts : List (String × TgtP))
    (kt : String × TgtP) : Option Call :=
  match tgtAt nts kt.1 with
  | none => some (.delete kt.1)
  | some nt =>
    if !ch.contains kt.2.getRequest && decide (kt.2 = some nt) then none
    else some (.update ⟨kt.1, reqAt nr nt.request, some nt⟩)

theorem oldCall_erase {nr : List (String × Req)} {ch : List String} {nts : List (String × TgtP)}
    {k : String} {kt : String × TgtP} (h : kt.1 ≠ k) :
    oldCall nr ch (erase k nts) kt = oldCall nr ch nts kt := by
  simp [oldCall, tgtAt_erase_ne h]

theorem diffOld_calls (h : Handlers) (nr : List (String × Req)) (ch : List String) :
    ∀ (olds nts : List (String × TgtP)), (keys olds).Nodup →
      (diffOld h nr ch olds nts).1 = (olds.filterMap (oldCall nr ch nts)).filter h.allows := by
  intro olds
  induction olds with
  | nil => intro nts _; simp [diffOld]
  | cons kt r ih =>
    intro nts nd
    obtain ⟨k, t⟩ := kt
    rw [keys_cons, List.nodup_cons] at nd
    have hne : ∀ x ∈ r, x.1 ≠ k := fun x hx e => nd.1 (e ▸ List.mem_map.mpr ⟨x, hx, rfl⟩)
    have hcongr : r.filterMap (oldCall nr ch (erase k nts)) = r.filterMap (oldCall nr ch nts) :=
      filterMap_congr' (fun x hx => oldCall_erase (hne x hx))
    cases hnt : tgtAt nts k with
    | none =>
      have e1 : oldCall nr ch nts (k, t) = some (.delete k) := by simp [oldCall, hnt]
      have e2 : h.delete = h.allows (.delete k) := rfl
      simp only [diffOld, hnt, List.filterMap_cons, e1, ih nts nd.2, e2, emitIf_append]
    | some nt =>
      by_cases hc : (!ch.contains t.getRequest && decide (t = some nt)) = true
      · have e1 : oldCall nr ch nts (k, t) = none := by
          simp only [oldCall, hnt]; exact if_pos hc
        simp only [diffOld, hnt, hc, if_true, List.filterMap_cons, e1, ih (erase k nts) nd.2, hcongr]
      · have e1 : oldCall nr ch nts (k, t) = some (.update ⟨k, reqAt nr nt.request, some nt⟩) := by
          simp only [oldCall, hnt]; exact if_neg hc
        have e2 : h.update = h.allows (.update ⟨k, reqAt nr nt.request, some nt⟩) := rfl
        simp only [diffOld, hnt, hc, List.filterMap_cons, e1, ih (erase k nts) nd.2, hcongr, e2,
          emitIf_append]
        rfl

theorem diffOld_rest (h : Handlers) (nr : List (String × Req)) (ch : List String) :
    ∀ (olds nts : List (String × TgtP)), (∀ kt ∈ nts, kt.2 ≠ none) →
      (diffOld h nr ch olds nts).2 = nts.filter (fun kt => !(keys olds).contains kt.1) := by
  intro olds
  induction olds with
  | nil => intro nts _; simp [diffOld, filter_const_true]
  | cons kt r ih =>
    intro nts hs
    obtain ⟨k, t⟩ := kt
    cases hnt : tgtAt nts k with
    | none =>
      have hk := not_mem_keys_of_tgtAt_none hs hnt
      simp only [diffOld, hnt, ih nts hs]
      apply List.filter_congr
      intro x hx
      have : x.1 ≠ k := fun e => hk (e ▸ List.mem_map.mpr ⟨x, hx, rfl⟩)
      simp [this]
    | some nt =>
      have hs' : ∀ kt ∈ erase k nts, kt.2 ≠ none := by
        intro kt hkt
        rw [erase_eq_filter] at hkt
        exact hs kt (List.mem_filter.mp hkt).1
      have hrest : (diffOld h nr ch ((k, t) :: r) nts).2 = (diffOld h nr ch r (erase k nts)).2 := by
        simp only [diffOld, hnt]
        split <;> rfl
      rw [hrest, ih (erase k nts) hs', erase_eq_filter, List.filter_filter]
      apply List.filter_congr
      intro x _
      by_cases e : x.1 = k <;> simp [e, Bool.and_comm]

theorem addLeft_eq (h : Handlers) (nr : List (String × Req)) (l : List (String × TgtP)) :
    addLeft h nr l =
      (l.map (fun kt => Call.add ⟨kt.1, reqAt nr kt.2.getRequest, kt.2⟩)).filter h.allows := by
  induction l with
  | nil => rfl
  | cons kt r ih =>
    obtain ⟨k, t⟩ := kt
    have e : h.add = h.allows (.add ⟨k, reqAt nr t.getRequest, t⟩) := rfl
    simp only [addLeft, ih, e, emitIf_append, List.map_cons]

theorem mem_requestChanged {old new : List (String × Req)} (nd : (keys new).Nodup) (k : String) :
    k ∈ requestChanged old new ↔ ∃ o n, find k old = some o ∧ find k new = some n ∧ o ≠ n := by
  unfold requestChanged
  rw [List.mem_filterMap]
  constructor
  · rintro ⟨⟨k', n⟩, hm, hf⟩
    cases ho : find k' old with
    | none => simp [ho] at hf
    | some o =>
      simp only [ho] at hf
      by_cases e : o = n
      · simp [e] at hf
      · simp [e] at hf
        subst hf
        exact ⟨o, n, ho, find_of_mem nd hm, e⟩
  · rintro ⟨o, n, ho, hn, e⟩
    exact ⟨(k, n), mem_of_find hn, by simp [ho, e]⟩

theorem map_filter_eq_filterMap {γ δ : Type} (p : γ → Bool) (f : γ → δ) (l : List γ) :
    (l.filter p).map f = l.filterMap (fun x => if p x then some (f x) else none) := by
  induction l with
  | nil => rfl
  | cons x r ih => by_cases h : p x <;> simp [h, ih]

/-- the heart of C17: on valid maps the three loops of `handleDiffs` compute exactly the
declarative difference of the two effective views (filtered by the callbacks that exist) -/
theorem diff_core (h : Handlers) (oreq nreq : List (String × Req)) (olds nts : List (String × TgtP))
    (ndo : (keys olds).Nodup) (ndr : (keys nreq).Nodup)
    (vo : ∀ kt ∈ olds, TargetOK oreq kt.1 kt.2) (vn : ∀ kt ∈ nts, TargetOK nreq kt.1 kt.2) :
    (diffOld h nreq (requestChanged oreq nreq) olds nts).1 ++
        addLeft h nreq (diffOld h nreq (requestChanged oreq nreq) olds nts).2 =
      (specDiff (olds.map (fun kt => (kt.1, resolve oreq kt.2)))
        (nts.map (fun kt => (kt.1, resolve nreq kt.2)))).filter h.allows := by
  have hs : ∀ kt ∈ nts, kt.2 ≠ none := by
    intro kt hkt e
    obtain ⟨_, tv, h2, _⟩ := vn kt hkt
    rw [e] at h2; cases h2
  rw [diffOld_calls h nreq _ olds nts ndo, diffOld_rest h nreq _ olds nts hs, addLeft_eq,
    map_filter_eq_filterMap]
  unfold specDiff
  rw [List.filter_append, List.filterMap_map, List.filterMap_map]
  congr 2
  · -- old targets: delete / unchanged / update
    apply filterMap_congr'
    intro ⟨k, t⟩ hkt
    simp only [Function.comp_def, oldCall, diffOldSpec, find_mapVal (resolve nreq)]
    cases hf : find k nts with
    | none => simp [tgtAt, hf]
    | some t' =>
      obtain ⟨_, nt, hnt, _, _, hrn⟩ := vn (k, t') (mem_of_find hf)
      simp only at hnt hrn
      subst hnt
      have hta : tgtAt nts k = some nt := by simp [tgtAt, hf]
      simp only [hta, Option.map_some]
      by_cases ht : t = some nt
      · subst ht
        obtain ⟨_, tv, htv, _, _, hro⟩ := vo (k, some nt) hkt
        simp only at htv hro
        cases htv
        obtain ⟨o, ho⟩ := Option.isSome_iff_exists.mp (find_isSome_iff.mpr hro)
        obtain ⟨n, hn⟩ := Option.isSome_iff_exists.mp (find_isSome_iff.mpr hrn)
        have hch : nt.request ∈ requestChanged oreq nreq ↔ o ≠ n := by
          rw [mem_requestChanged ndr]
          constructor
          · rintro ⟨o', n', ho', hn', e⟩
            rw [ho] at ho'; rw [hn] at hn'; cases ho'; cases hn'; exact e
          · intro e; exact ⟨o, n, ho, hn, e⟩
        by_cases e : o = n
        · have : nt.request ∉ requestChanged oreq nreq := fun hc => hch.mp hc e
          simp [TgtP.getRequest, this, resolve, reqAt, ho, hn, e]
        · have : nt.request ∈ requestChanged oreq nreq := hch.mpr e
          simp [TgtP.getRequest, this, resolve, reqAt, ho, hn, e]
      · have : ¬ resolve oreq t = resolve nreq (some nt) := fun e => ht (congrArg Prod.fst e)
        simp [ht, resolve, TgtP.getRequest]
  · -- new targets that were not there before: add
    apply filterMap_congr'
    intro ⟨k, t⟩ _
    simp only [Function.comp_def, diffNewSpec, find_mapVal (resolve oreq)]
    cases hf : find k olds with
    | none =>
      have := find_eq_none_iff.mp hf
      simp [this, resolve]
    | some t' =>
      have := mem_keys_of_mem (mem_of_find hf)
      simp [this]

/-! ## the declarative difference `specDiff` -/

theorem diffOldSpec_name {new : View} {ke : String × Eff} {c : Call}
    (h : diffOldSpec new ke = some c) : c.name = ke.1 := by
  unfold diffOldSpec at h
  split at h
  · cases h; rfl
  · split at h
    · cases h
    · cases h; rfl

theorem diffNewSpec_name {old : View} {ke : String × Eff} {c : Call}
    (h : diffNewSpec old ke = some c) : c.name = ke.1 := by
  unfold diffNewSpec at h
  split at h
  · cases h; rfl
  · cases h

theorem names_filterMap_sublist {f : String × Eff → Option Call}
    (hf : ∀ ke c, f ke = some c → c.name = ke.1) (l : View) :
    ((l.filterMap f).map Call.name).Sublist (keys l) := by
  induction l with
  | nil => simp
  | cons ke r ih =>
    rw [List.filterMap_cons, keys_cons]
    cases h : f ke with
    | none => exact List.Sublist.cons _ ih
    | some c =>
      simp only [List.map_cons, hf ke c h]
      exact List.Sublist.cons_cons _ ih

theorem specDiff_names_nodup {old new : View} (no : (keys old).Nodup) (nn : (keys new).Nodup) :
    ((specDiff old new).map Call.name).Nodup := by
  unfold specDiff
  rw [List.map_append, List.nodup_append]
  refine ⟨(names_filterMap_sublist (fun _ _ => diffOldSpec_name) old).nodup no,
    (names_filterMap_sublist (fun _ _ => diffNewSpec_name) new).nodup nn, ?_⟩
  intro a ha b hb e
  subst e
  have h1 : a ∈ keys old := (names_filterMap_sublist (fun _ _ => diffOldSpec_name) old).subset ha
  obtain ⟨c, hc, rfl⟩ := List.mem_map.mp hb
  obtain ⟨ke, _, hke⟩ := List.mem_filterMap.mp hc
  have hn := diffNewSpec_name hke
  unfold diffNewSpec at hke
  split at hke
  · rename_i hfind
    rw [hn] at h1
    exact find_eq_none_iff.mp hfind h1
  · cases hke

theorem mem_specDiff_delete {old new : View} (k : String) :
    Call.delete k ∈ specDiff old new ↔ k ∈ keys old ∧ k ∉ keys new := by
  unfold specDiff
  rw [List.mem_append, List.mem_filterMap, List.mem_filterMap]
  constructor
  · rintro (⟨ke, hm, h⟩ | ⟨ke, _, h⟩)
    · have hn := diffOldSpec_name h
      simp only [Call.name] at hn
      unfold diffOldSpec at h
      split at h
      · rename_i hf
        subst hn
        exact ⟨List.mem_map.mpr ⟨ke, hm, rfl⟩, find_eq_none_iff.mp hf⟩
      · split at h <;> cases h
    · unfold diffNewSpec at h
      split at h <;> cases h
  · rintro ⟨ho, hn⟩
    obtain ⟨ke, hm, rfl⟩ := List.mem_map.mp ho
    exact Or.inl ⟨ke, hm, by simp [diffOldSpec, find_eq_none_iff.mpr hn]⟩

theorem mem_specDiff_update {old new : View} (no : (keys old).Nodup) (u : Update) :
    Call.update u ∈ specDiff old new ↔
      ∃ e, find u.name old = some e ∧ find u.name new = some (u.target, u.request) ∧
        e ≠ (u.target, u.request) := by
  unfold specDiff
  rw [List.mem_append, List.mem_filterMap, List.mem_filterMap]
  constructor
  · rintro (⟨ke, hm, h⟩ | ⟨ke, _, h⟩)
    · have hn := diffOldSpec_name h
      simp only [Call.name] at hn
      unfold diffOldSpec at h
      split at h
      · cases h
      · rename_i e' hf
        split at h
        · cases h
        · rename_i hne
          cases h
          obtain ⟨k, e⟩ := ke
          exact ⟨e, find_of_mem no hm, hf, hne⟩
    · unfold diffNewSpec at h
      split at h <;> cases h
  · rintro ⟨e, ho, hn, hne⟩
    refine Or.inl ⟨(u.name, e), mem_of_find ho, ?_⟩
    simp [diffOldSpec, hn, hne]

theorem mem_specDiff_add {old new : View} (nn : (keys new).Nodup) (u : Update) :
    Call.add u ∈ specDiff old new ↔
      find u.name old = none ∧ find u.name new = some (u.target, u.request) := by
  unfold specDiff
  rw [List.mem_append, List.mem_filterMap, List.mem_filterMap]
  constructor
  · rintro (⟨ke, _, h⟩ | ⟨ke, hm, h⟩)
    · unfold diffOldSpec at h
      split at h
      · cases h
      · split at h <;> cases h
    · unfold diffNewSpec at h
      split at h
      · rename_i hf
        cases h
        obtain ⟨k, e⟩ := ke
        exact ⟨hf, find_of_mem nn hm⟩
      · cases h
  · rintro ⟨ho, hn⟩
    refine Or.inr ⟨(u.name, (u.target, u.request)), mem_of_find hn, ?_⟩
    simp [diffNewSpec, ho]

/-! ## replaying calls -/

theorem find_applyCall_self (m : View) (c : Call) : find c.name (applyCall m c) = c.effect := by
  cases c <;> simp [applyCall, Call.name, Call.effect, find_cons]

theorem find_applyCall_ne {k : String} (m : View) (c : Call) (h : k ≠ c.name) :
    find k (applyCall m c) = find k m := by
  cases c <;> simp only [Call.name] at h <;>
    simp [applyCall, find_cons, find_erase_ne h, Ne.symm h]

theorem nodup_keys_applyCall (m : View) (c : Call) (nd : (keys m).Nodup) :
    (keys (applyCall m c)).Nodup := by
  cases c <;> simp only [applyCall, keys_cons, List.nodup_cons, mem_keys_erase] <;>
    first
    | exact ⟨fun h => h.2 rfl, nodup_keys_erase _ nd⟩
    | exact nodup_keys_erase _ nd

theorem replay_cons (m : View) (c : Call) (cs : List Call) :
    replay m (c :: cs) = replay (applyCall m c) cs := rfl

theorem replay_append (m : View) (a b : List Call) : replay m (a ++ b) = replay (replay m a) b := by
  simp [replay, List.foldl_append]

theorem nodup_keys_replay (cs : List Call) : ∀ (m : View), (keys m).Nodup → (keys (replay m cs)).Nodup := by
  induction cs with
  | nil => intro m h; exact h
  | cons c r ih => intro m h; exact ih _ (nodup_keys_applyCall m c h)

/-- a name no call mentions keeps its entry -/
theorem find_replay_not_mem (cs : List Call) : ∀ (m : View) (k : String),
    k ∉ cs.map Call.name → find k (replay m cs) = find k m := by
  induction cs with
  | nil => intro m k _; rfl
  | cons c r ih =>
    intro m k h
    rw [List.map_cons, List.mem_cons, not_or] at h
    rw [replay_cons, ih _ k h.2, find_applyCall_ne m c h.1]

/-- with pairwise distinct names, the one call for a name decides its entry, wherever it
stands in the sequence -/
theorem find_replay_mem (cs : List Call) : ∀ (m : View) (c : Call),
    (cs.map Call.name).Nodup → c ∈ cs → find c.name (replay m cs) = c.effect := by
  induction cs with
  | nil => intro m c _ h; cases h
  | cons d r ih =>
    intro m c nd h
    rw [List.map_cons, List.nodup_cons] at nd
    rw [replay_cons]
    rcases List.mem_cons.mp h with e | e
    · subst e
      rw [find_replay_not_mem r _ _ nd.1, find_applyCall_self]
    · exact ih _ c nd.2 e

theorem replay_congr {m m' : View} (cs : List Call) (nd : (cs.map Call.name).Nodup)
    (h : MapEq m m') : MapEq (replay m cs) (replay m' cs) := by
  intro k
  by_cases hk : k ∈ cs.map Call.name
  · obtain ⟨c, hc, rfl⟩ := List.mem_map.mp hk
    rw [find_replay_mem cs m c nd hc, find_replay_mem cs m' c nd hc]
  · rw [find_replay_not_mem cs m k hk, find_replay_not_mem cs m' k hk, h k]

/-- applying the exact difference, in any order, turns the old view into the new one -/
theorem replay_specDiff {old new : View} (no : (keys old).Nodup) (nn : (keys new).Nodup)
    {cs : List Call} (p : cs.Perm (specDiff old new)) : MapEq (replay old cs) new := by
  have nd : (cs.map Call.name).Nodup := (p.map Call.name).nodup_iff.mpr (specDiff_names_nodup no nn)
  intro k
  have silent : (∀ c ∈ specDiff old new, c.name ≠ k) → find k (replay old cs) = find k old := by
    intro hs
    apply find_replay_not_mem
    intro hk
    obtain ⟨c, hc, e⟩ := List.mem_map.mp hk
    exact hs c (p.mem_iff.mp hc) e
  have loud : ∀ c, c ∈ specDiff old new → c.name = k → find k (replay old cs) = c.effect := by
    intro c hc e
    rw [← e]
    exact find_replay_mem cs old c nd (p.mem_iff.mpr hc)
  cases ho : find k old with
  | none =>
    cases hn : find k new with
    | none =>
      rw [silent, ho]
      intro c hc e
      cases c with
      | add u => rw [mem_specDiff_add nn] at hc; simp only [Call.name] at e; rw [e, hn] at hc; cases hc.2
      | update u => rw [mem_specDiff_update no] at hc; simp only [Call.name] at e
                    obtain ⟨_, h1, _⟩ := hc; rw [e, ho] at h1; cases h1
      | delete n => rw [mem_specDiff_delete] at hc; simp only [Call.name] at e
                    rw [e] at hc; exact find_eq_none_iff.mp ho hc.1
    | some e' =>
      rw [loud (.add ⟨k, e'.2, e'.1⟩) ((mem_specDiff_add nn _).mpr ⟨ho, hn⟩) rfl]
      rfl
  | some e =>
    cases hn : find k new with
    | none =>
      rw [loud (.delete k) ((mem_specDiff_delete k).mpr
        ⟨mem_keys_of_mem (mem_of_find ho), find_eq_none_iff.mp hn⟩) rfl]
      rfl
    | some e' =>
      by_cases hne : e = e'
      · subst hne
        rw [silent, ho]
        intro c hc ec
        cases c with
        | add u => rw [mem_specDiff_add nn] at hc; simp only [Call.name] at ec; rw [ec, ho] at hc; cases hc.1
        | update u =>
          rw [mem_specDiff_update no] at hc; simp only [Call.name] at ec
          obtain ⟨e0, h1, h2, h3⟩ := hc
          rw [ec, ho] at h1; rw [ec, hn] at h2; cases h1; cases h2; exact h3 rfl
        | delete n =>
          rw [mem_specDiff_delete] at hc; simp only [Call.name] at ec
          rw [ec] at hc; exact hc.2 (mem_keys_of_mem (mem_of_find hn))
      · rw [loud (.update ⟨k, e'.2, e'.1⟩) ((mem_specDiff_update no _).mpr ⟨e, ho, hn, hne⟩) rfl]
        rfl

/-! ## the three ways a non-nil `Load` can go -/

theorem load_cases (s : St) (cfg : Cfg) :
    (∃ e, ¬ Valid cfg ∧ load s (some cfg) = (s, .invalid e, [])) ∨
    (Valid cfg ∧ ¬ Newer s.cur cfg ∧ load s (some cfg) = (s, .revision, [])) ∨
    (Valid cfg ∧ Newer s.cur cfg ∧
      load s (some cfg) = ({ s with cur := some cfg }, .ok, handleDiffs s.h s.cur cfg)) := by
  cases hv : validate cfg with
  | error e =>
    have nv : ¬ Valid cfg := fun v => by rw [(validate_ok_iff cfg).mpr v] at hv; cases hv
    exact Or.inl ⟨e, nv, by simp [load, hv]⟩
  | ok u =>
    have v : Valid cfg := (validate_ok_iff cfg).mp hv
    cases hr : checkRevision s.cur cfg with
    | false =>
      have nn : ¬ Newer s.cur cfg := fun n => by
        rw [(checkRevision_iff _ _).mpr n] at hr; cases hr
      exact Or.inr (Or.inl ⟨v, nn, by simp [load, hv, hr]⟩)
    | true =>
      exact Or.inr (Or.inr ⟨v, (checkRevision_iff _ _).mp hr, by simp [load, hv, hr]⟩)

end TargetCfg
end Gnmi
