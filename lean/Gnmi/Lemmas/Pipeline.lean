import Gnmi.Spec.Relay
import Gnmi.Props.C02
import Gnmi.Lemmas.CacheState
/-!
Helper lemmas for property C01: views as finite maps, the abstraction of a cached target to
its view, and how one relayed notification moves both in step.
-/
namespace Gnmi
namespace Relay
open Cache Pipeline

/-! ### views as finite maps -/

theorem find_filter_key {β : Type} (l : List (Path × β)) (f : Path → Bool) (k : Path) :
    (l.filter (fun kv => f kv.1)).find? (fun kv => kv.1 == k) =
      if f k = true then l.find? (fun kv => kv.1 == k) else none := by
  induction l with
  | nil => simp
  | cons x l ih =>
    by_cases hx : x.1 = k
    · by_cases hf : f k = true
      · have : f x.1 = true := by rw [hx]; exact hf
        simp [List.filter_cons, this, List.find?_cons, hx, hf]
      · have hf' : f x.1 = false := by rw [hx]; simpa using hf
        simp only [List.filter_cons, hf', Bool.false_eq_true, if_false, ih, hf]
    · have hx' : (x.1 == k) = false := by simpa using hx
      by_cases hfx : f x.1 = true
      · simp only [List.filter_cons, hfx, if_true, List.find?_cons, hx', ih]
      · have hfx' : f x.1 = false := by simpa using hfx
        simp only [List.filter_cons, hfx', Bool.false_eq_true, if_false, ih, List.find?_cons, hx']

theorem View.get_set (v : View) (k k' : Path) (ts : Int) (val : Val) :
    (v.set k ts val).get k' = if k' = k then some (ts, val) else v.get k' := by
  unfold View.set View.get
  by_cases h : k' = k
  · subst h; simp
  · have h1 : (k == k') = false := by simpa using fun e => h e.symm
    simp only [List.find?_cons, h1, h, if_false]
    have := find_filter_key v (fun p => p != k) k'
    simp only [bne_iff_ne, ne_eq, h, not_false_eq_true, if_true] at this
    rw [this]

theorem View.get_remove (v : View) (q k : Path) :
    (v.remove q).get k = if qmatches q k = true then none else v.get k := by
  unfold View.remove View.get
  have := find_filter_key v (fun p => !qmatches q p) k
  rw [this]
  by_cases h : qmatches q k = true <;> simp [h]

theorem View.get_some_mem {v : View} {k : Path} {x : Int × Val} (h : v.get k = some x) : (k, x) ∈ v := by
  unfold View.get at h
  simp only [Option.map_eq_some_iff] at h
  obtain ⟨kv, hf, rfl⟩ := h
  have h1 := List.mem_of_find?_eq_some hf
  have h2 := List.find?_some hf
  have : kv.1 = k := by simpa using h2
  rw [← this]; exact h1

theorem View.mem_get_isSome {v : View} {kv : Path × (Int × Val)} (h : kv ∈ v) : (v.get kv.1).isSome = true := by
  unfold View.get
  cases hf : v.find? (fun x => x.1 == kv.1) with
  | some _ => rfl
  | none =>
    rw [List.find?_eq_none] at hf
    have := hf kv h
    simp at this

/-! ### the view of a cached target -/

/-- the value a stored leaf notification shows -/
def headVal (n : Noti) : Val :=
  match n.upd with
  | u :: _ => u.val
  | [] => .absent

/-- the view entry of key `k` in a cached target: its non-metadata leaf, as (timestamp, value) -/
def absGet (t : Target) (k : Path) : Option (Int × Val) :=
  if isMetaKey k = true then none else (lookup t.tree k).map (fun n => (n.ts, headVal n))

/-- the cached target presents exactly the view `v` (metadata leaves aside) -/
def Agree (t : Target) (v : View) : Prop := ∀ k, absGet t k = v.get k

theorem Agree.of_tree_eq {t t' : Target} {v : View} (h : t'.tree = t.tree) (ha : Agree t v) :
    Agree t' v := by
  intro k; rw [← ha k]; unfold absGet; rw [h]

/-- what the collector's `Update` closure guarantees of the notification it hands to the cache
(plus the two stream hypotheses: origin not `meta`, not atomic) -/
structure Relayed (T : String) (n : Noti) : Prop where
  target : n.target = T
  origin : n.origin ≠ ""
  notAtomic : n.atomic = false

theorem joinKey_relayed {T : String} {n : Noti} (hr : Relayed T n) (p : Path) :
    joinKey n p = n.origin :: (n.pfx ++ p) := by
  unfold joinKey; simp [hr.origin]

theorem isMetaKey_joinKey {T : String} {n : Noti} (hr : Relayed T n) (hnm : n.origin ≠ metaRoot) (p : Path) :
    isMetaKey (joinKey n p) = false := by
  rw [joinKey_relayed hr]; simp [isMetaKey, hnm]

theorem isPrefixOf_head {a b : String} {as bs : Path} (h : (a :: as).isPrefixOf (b :: bs) = true) : a = b := by
  simp [List.isPrefixOf] at h; exact h.1

/-- a key that collides with something stored collides with something in the view -/
theorem conflicts_false_of_agree {t : Target} {v : View} (hi : TInv t) (ha : Agree t v) (h : String)
    (rest : Path) (hm : isMetaKey (h :: rest) = false) (hc : keyConflicts v (h :: rest) = false) :
    PMap.conflicts t.tree (h :: rest) = false := by
  cases hcf : PMap.conflicts t.tree (h :: rest) with
  | false => rfl
  | true =>
    exfalso
    unfold PMap.conflicts at hcf
    rw [List.any_eq_true] at hcf
    obtain ⟨kv, hkv, hcond⟩ := hcf
    have hne := hi.nonEmpty kv hkv
    obtain ⟨k1, n1⟩ := kv
    cases k1 with
    | nil => exact hne rfl
    | cons h' r' =>
      simp only [Bool.and_eq_true, Bool.or_eq_true] at hcond
      have hh : h' = h := by
        rcases hcond.1 with hp | hp
        · exact isPrefixOf_head hp
        · exact (isPrefixOf_head hp).symm
      have hm' : isMetaKey (h' :: r') = false := by
        rw [hh]; simpa [isMetaKey] using hm
      have hl : lookup t.tree (h' :: r') = some n1 := lookup_some_of_mem hi.unique hkv
      have hg := ha (h' :: r')
      unfold absGet at hg
      simp only [hm', Bool.false_eq_true, if_false, hl, Option.map_some] at hg
      have hmem := View.get_some_mem hg.symm
      have : keyConflicts v (h :: rest) = true := by
        unfold keyConflicts
        rw [List.any_eq_true]
        exact ⟨_, hmem, by simpa using hcond⟩
      rw [hc] at this; cases this

theorem verdict_accept_of_newer (cfg : Cfg) (hthr : cfg.futureThr = 0) (now : Int) (l : Option Int)
    (old n : Noti) (h : old.ts < n.ts) : verdict cfg now l old n = .accept := by
  unfold verdict
  have h1 : ¬ n.ts < old.ts := by omega
  have h2 : ¬ n.ts = old.ts := by omega
  simp [h1, h2, hthr]

theorem verdict_accept_of_same_ts (cfg : Cfg) (now : Int) (l : Option Int)
    (old n : Noti) (h : old.ts = n.ts) (hs : old.same n = false) : verdict cfg now l old n = .accept := by
  unfold verdict
  have h1 : ¬ n.ts < old.ts := by omega
  simp [h1, h.symm, hs]

/-- an update the timestamp switch accepts is stored under its key, touching nothing else -/
theorem relay_update_accept (cfg : Cfg) (now : Int) (T : String) (hT : T ≠ "")
    (t : Target) (v : View) (n : Noti) (u : Upd) (us : List Upd)
    (hr : Relayed T n) (hnm : n.origin ≠ metaRoot) (hu : n.upd = u :: us) (hi : TInv t) (ha : Agree t v)
    (hconf : keyConflicts v (joinKey n u.path) = false)
    (hacc : ∀ old, lookup t.tree (joinKey n u.path) = some old → verdict cfg now t.latest old n = .accept)
    (key : Path) (hkeq : joinKey n u.path = key) (ts0 : Int) (hts0 : n.ts = ts0) :
    (Target.gnmiUpdate1 cfg now t n).1 = .ok ∧
    Agree (Target.gnmiUpdate1 cfg now t n).2.1 (v.set key ts0 u.val) ∧
    TInv (Target.gnmiUpdate1 cfg now t n).2.1 := by
  subst hkeq hts0
  have ht : n.target ≠ "" := by rw [hr.target]; exact hT
  have hkey : updKey n u = joinKey n u.path := by unfold updKey; simp [hr.notAtomic]
  have hjk := joinKey_relayed hr u.path
  have hmk := isMetaKey_joinKey hr hnm u.path
  have hk' : updKey? n u = some (n.origin :: (n.pfx ++ u.path)) := by
    unfold updKey?; simp only [hr.notAtomic, Bool.false_eq_true, if_false]
    rw [joinKey?_eq _ _ ht, hjk]
  -- the cache accepts it
  have hok : (Target.gnmiUpdate1 cfg now t n).1 = .ok := by
    unfold Target.gnmiUpdate1
    simp only [hu, hk', metaPre, hnm, if_false, updateCore]
    cases hl : lookup t.tree (n.origin :: (n.pfx ++ u.path)) with
    | some old =>
      have hv := hacc old (by rw [hjk]; exact hl)
      have hne : old.upd ≠ [] := hi.hasUpd _ (mem_of_lookup_some hl)
      simp only [hv]
      split
      · rfl
      · split
        · rename_i ho; exact absurd ho hne
        · split <;> rfl
    | none =>
      have hcf : PMap.conflicts t.tree (n.origin :: (n.pfx ++ u.path)) = false := by
        apply conflicts_false_of_agree hi ha
        · rw [← hjk]; exact hmk
        · rw [← hjk]; exact hconf
      simp only [PMap.add, hcf, Bool.false_eq_true, if_false]
  refine ⟨hok, ?_, (gnmiUpdate1_consequences cfg now t n hi (by rw [hu]; simp) ht).2.1⟩
  -- and stores it under its key, touching nothing else
  have hst := C02.accepted_is_stored cfg now t n u us hi hu ht hok
  have hfr : ∀ k, k ≠ updKey n u →
      lookup (Target.gnmiUpdate1 cfg now t n).2.1.tree k = lookup t.tree k := by
    intro k hk
    have he := gnmiUpdate1_effect cfg now t n u us hu ht
    generalize Target.gnmiUpdate1 cfg now t n = r at he hok
    cases he with
    | rejected r t' h => rcases h with rfl | rfl | rfl <;> cases hok
    | replaced t' old _ hl _ h1 => show lookup t'.tree k = _; rw [h1]; exact lookup_setLeaf_other hi.unique hk
    | suppressed t' old _ _ _ hl _ h1 => show lookup t'.tree k = _; rw [h1]; exact lookup_setLeaf_other hi.unique hk
    | added t' _ _ hadd => exact lookup_add_other hadd hk
    | panicOld => cases hok
  rw [hkey] at hst hfr
  intro k
  rw [View.get_set]
  by_cases hk : k = joinKey n u.path
  · subst hk
    unfold absGet
    simp [hmk, hst, headVal, hu]
  · simp only [hk, if_false]
    rw [← ha k]
    unfold absGet
    rw [hfr k hk]

/-- **One relayed update.**  An update that is admissible in the view (no prefix conflict; newer
than what the view holds for its key, or carrying the same timestamp *and* the same value) makes
the target present the view with that key set: the cache accepts it, or — same timestamp and
`proto.Equal` to the stored notification — rejects it as stale, which changes nothing. -/
theorem relay_update (cfg : Cfg) (hthr : cfg.futureThr = 0) (now : Int) (T : String) (hT : T ≠ "")
    (t : Target) (v : View) (n : Noti) (u : Upd) (us : List Upd)
    (hr : Relayed T n) (hnm : n.origin ≠ metaRoot) (hu : n.upd = u :: us) (hi : TInv t) (ha : Agree t v)
    (hconf : keyConflicts v (joinKey n u.path) = false)
    (hts : ∀ ts val, v.get (joinKey n u.path) = some (ts, val) → ts < n.ts ∨ (ts = n.ts ∧ val = u.val))
    (key : Path) (hkeq : joinKey n u.path = key) (ts0 : Int) (hts0 : n.ts = ts0) :
    (Target.gnmiUpdate1 cfg now t n).1 ≠ .panic ∧
    Agree (Target.gnmiUpdate1 cfg now t n).2.1 (v.set key ts0 u.val) ∧
    TInv (Target.gnmiUpdate1 cfg now t n).2.1 := by
  have ht : n.target ≠ "" := by rw [hr.target]; exact hT
  have hjk := joinKey_relayed hr u.path
  have hmk := isMetaKey_joinKey hr hnm u.path
  -- what the view says about a stored leaf under that key
  have hview : ∀ old, lookup t.tree (joinKey n u.path) = some old →
      old.ts < n.ts ∨ (old.ts = n.ts ∧ headVal old = u.val) := by
    intro old hl
    have hg := ha (joinKey n u.path)
    unfold absGet at hg
    simp only [hmk, Bool.false_eq_true, if_false, hl, Option.map_some] at hg
    exact hts old.ts (headVal old) hg.symm
  by_cases hst : ∃ old, lookup t.tree (joinKey n u.path) = some old ∧ n.ts = old.ts ∧ old.same n = true
  · -- identical re-send: stale, nothing changes, and the view already shows this value
    obtain ⟨old, hl, hte, hsame⟩ := hst
    have hkey : updKey n u = n.origin :: (n.pfx ++ u.path) := by unfold updKey; simp [hr.notAtomic, hjk]
    have hrej := C02.stale_rejected cfg now t n u us n.origin (n.pfx ++ u.path) old hu ht hkey hnm
      (by rw [← hjk]; exact hl) (Or.inr ⟨hte, hsame⟩)
    rw [hrej]
    subst hkeq hts0
    refine ⟨by simp, ?_, hi.with_md _ ⟨rfl, rfl, rfl⟩⟩
    apply Agree.of_tree_eq (t := t) rfl
    intro k
    rw [View.get_set]
    by_cases hk : k = joinKey n u.path
    · subst hk
      simp only [if_true]
      have hg := ha (joinKey n u.path)
      unfold absGet at hg ⊢
      simp only [hmk, Bool.false_eq_true, if_false, hl, Option.map_some] at hg ⊢
      rcases hview old hl with h1 | ⟨_, h2⟩
      · omega
      · rw [hte, h2]
    · simp only [hk, if_false]; exact ha k
  · -- otherwise the timestamp switch accepts it
    obtain ⟨r1, r2, r3⟩ := relay_update_accept cfg now T hT t v n u us hr hnm hu hi ha hconf
      (by
        intro old hl
        rcases hview old hl with h1 | ⟨h1, _⟩
        · exact verdict_accept_of_newer cfg hthr now t.latest old n h1
        · apply verdict_accept_of_same_ts cfg now t.latest old n h1
          cases hs : old.same n with
          | false => rfl
          | true => exact absurd ⟨old, hl, h1.symm, hs⟩ hst)
      key hkeq ts0 hts0
    exact ⟨by rw [r1]; simp, r2, r3⟩

/-- **One relayed delete.**  A delete newer than everything it selects in the view removes
exactly those leaves: afterwards the target presents the view without them. -/
theorem relay_delete (T : String) (hT : T ≠ "") (t : Target) (v : View) (n : Noti) (d : Del) (ds : List Del)
    (hr : Relayed T n) (hd : n.del = d :: ds) (hi : TInv t) (ha : Agree t v)
    (hnew : ∀ kv ∈ v, qmatches (joinKey n d.path) kv.1 = true → kv.2.1 < n.ts)
    (key : Path) (hkeq : joinKey n d.path = key) :
    (Target.gnmiRemove1 t n).2.2 = false ∧
    Agree (Target.gnmiRemove1 t n).1 (v.remove key) ∧
    TInv (Target.gnmiRemove1 t n).1 := by
  subst hkeq
  have ht : n.target ≠ "" := by rw [hr.target]; exact hT
  obtain ⟨c1, c2, _, _, _⟩ := gnmiRemove1_consequences t n hi (by rw [hd]; simp) ht
  refine ⟨c1, ?_, c2⟩
  have htree : (Target.gnmiRemove1 t n).1.tree = (PMap.delete (olderThan n.ts) t.tree (joinKey n d.path)).1 :=
    (gnmiRemove1_spec t n d ds hd ht).1
  intro k
  rw [View.get_remove]
  unfold absGet
  rw [htree]
  cases hm : isMetaKey k with
  | true =>
    have hg := ha k
    unfold absGet at hg
    simp only [hm, if_true] at hg
    simp only [if_true, ← hg]
    split <;> rfl
  | false =>
    simp only [Bool.false_eq_true, if_false]
    have hg := ha k
    unfold absGet at hg
    simp only [hm, Bool.false_eq_true, if_false] at hg
    cases hl : lookup t.tree k with
    | none =>
      rw [hl] at hg
      have : lookup (PMap.delete (olderThan n.ts) t.tree (joinKey n d.path)).1 k = none := by
        cases hx : lookup (PMap.delete (olderThan n.ts) t.tree (joinKey n d.path)).1 k with
        | none => rfl
        | some x => rw [lookup_delete_some hi.unique hx] at hl; cases hl
      rw [this, ← hg]
      simp
    | some old =>
      rw [hl] at hg
      simp only [Option.map_some] at hg
      by_cases hq : qmatches (joinKey n d.path) k = true
      · have hmem := View.get_some_mem hg.symm
        have hlt : old.ts < n.ts := hnew _ hmem hq
        have : lookup (PMap.delete (olderThan n.ts) t.tree (joinKey n d.path)).1 k = none :=
          lookup_delete_removed hi.unique hl (by simp [hq, olderThan, hlt])
        simp [this, hq]
      · have : lookup (PMap.delete (olderThan n.ts) t.tree (joinKey n d.path)).1 k = some old :=
          lookup_delete_kept hi.unique hl (by simp [hq])
        simp only [this, Option.map_some, hq, if_false]
        exact hg

/-! ### the loops of a multi-update notification -/

theorem relayed_with {T : String} {n : Noti} (hr : Relayed T n) (us : List Upd) (ds : List Del) :
    Relayed T { n with upd := us, del := ds } := ⟨hr.target, hr.origin, hr.notAtomic⟩

theorem updOK_facts {pn : Bool} {n : Noti} {v : View} {u : Upd} (h : updOK true pn n v u = true) :
    originOf pn n ≠ metaRoot ∧ keyConflicts v (keyOf pn n u.path) = false ∧
    (∀ ts val, v.get (keyOf pn n u.path) = some (ts, val) → ts < n.ts ∨ (ts = n.ts ∧ val = u.val)) := by
  unfold updOK at h
  simp only [Bool.and_eq_true, bne_iff_ne, ne_eq, Bool.not_eq_true', if_true] at h
  obtain ⟨⟨⟨⟨_, hm⟩, _⟩, hc⟩, hl⟩ := h
  refine ⟨hm, hc, ?_⟩
  intro ts val hg
  rw [hg] at hl
  simpa using hl

theorem delOK_facts {pn : Bool} {n : Noti} {v : View} {d : Del} (h : delOK pn n v d = true) :
    ∀ kv ∈ v, qmatches (keyOf pn n d.path) kv.1 = true → kv.2.1 < n.ts := by
  unfold delOK at h
  simp only [Bool.and_eq_true, List.all_eq_true, Bool.or_eq_true, Bool.not_eq_true', decide_eq_true_eq] at h
  intro kv hkv hq
  rcases h.2 kv hkv with h1 | h1
  · rw [hq] at h1; cases h1
  · exact h1

theorem updatesOK_values {strict pn : Bool} {n : Noti} :
    ∀ {us : List Upd} {v : View}, updatesOK strict pn n us v = true → ∀ u ∈ us, valueOK u.val = true
  | [], _, _, u, hu => by cases hu
  | x :: xs, v, h, u, hu => by
    unfold updatesOK at h
    simp only [Bool.and_eq_true] at h
    rcases List.mem_cons.1 hu with e | hm
    · subst e
      have := h.1
      unfold updOK at this
      simp only [Bool.and_eq_true] at this
      exact this.1.1.2
    · exact updatesOK_values h.2 u hm

/-- the update loop of `Target.GnmiUpdate` on a relayed header follows `applyUpdates` -/
theorem relay_multiUpdates (cfg : Cfg) (hthr : cfg.futureThr = 0) (now : Int) (T : String) (hT : T ≠ "")
    (hdr : Noti) (hr : Relayed T hdr) (pn : Bool) (n0 : Noti)
    (hkey : ∀ p, joinKey hdr p = keyOf pn n0 p) (hts : hdr.ts = n0.ts) (ho : hdr.origin = originOf pn n0) :
    ∀ (us : List Upd) (acc : MultiAcc) (v : View), acc.panicked = false → TInv acc.t → Agree acc.t v →
      updatesOK true pn n0 us v = true →
      (multiUpdates cfg now hdr us acc).panicked = false ∧ TInv (multiUpdates cfg now hdr us acc).t ∧
      Agree (multiUpdates cfg now hdr us acc).t (applyUpdates pn n0 us v)
  | [], acc, v, hp, hi, ha, _ => by simpa [multiUpdates, applyUpdates] using ⟨hp, hi, ha⟩
  | u :: us, acc, v, hp, hi, ha, hok => by
    unfold updatesOK at hok
    simp only [Bool.and_eq_true] at hok
    obtain ⟨hnm, hc, hl⟩ := updOK_facts hok.1
    have hr1 : Relayed T { hdr with upd := [u], del := [] } := relayed_with hr _ _
    have hj : joinKey { hdr with upd := [u], del := [] } u.path = keyOf pn n0 u.path := hkey u.path
    obtain ⟨r1, r2, r3⟩ := relay_update cfg hthr now T hT acc.t v { hdr with upd := [u], del := [] } u []
      hr1 (by rw [← ho] at hnm; exact hnm) rfl hi ha (by rw [hj]; exact hc)
      (by rw [hj]; intro ts val hg; have := hl ts val hg; rw [← hts] at this; exact this)
      (keyOf pn n0 u.path) hj n0.ts hts
    unfold multiUpdates applyUpdates
    simp only [hp, Bool.false_eq_true, if_false, r1]
    split
    · exact relay_multiUpdates cfg hthr now T hT hdr hr pn n0 hkey hts ho us _ _ rfl r3 r2 hok.2
    · split
      · apply relay_multiUpdates cfg hthr now T hT hdr hr pn n0 hkey hts ho us _ _ rfl
        · exact r3.with_md _ ⟨rfl, rfl, rfl⟩
        · exact Agree.of_tree_eq rfl r2
        · exact hok.2
      · exact relay_multiUpdates cfg hthr now T hT hdr hr pn n0 hkey hts ho us _ _ rfl r3 r2 hok.2

/-- the delete loop follows `applyDeletes` -/
theorem relay_multiDeletes (T : String) (hT : T ≠ "")
    (hdr : Noti) (hr : Relayed T hdr) (pn : Bool) (n0 : Noti)
    (hkey : ∀ p, joinKey hdr p = keyOf pn n0 p) (hts : hdr.ts = n0.ts) :
    ∀ (ds : List Del) (acc : MultiAcc) (v : View), acc.panicked = false → TInv acc.t → Agree acc.t v →
      deletesOK pn n0 ds v = true →
      (multiDeletes hdr ds acc).panicked = false ∧ TInv (multiDeletes hdr ds acc).t ∧
      Agree (multiDeletes hdr ds acc).t (applyDeletes pn n0 ds v)
  | [], acc, v, hp, hi, ha, _ => by simpa [multiDeletes, applyDeletes] using ⟨hp, hi, ha⟩
  | d :: ds, acc, v, hp, hi, ha, hok => by
    unfold deletesOK at hok
    simp only [Bool.and_eq_true] at hok
    have hnew := delOK_facts hok.1
    have hr1 : Relayed T { hdr with upd := [], del := [d] } := relayed_with hr _ _
    have hj : joinKey { hdr with upd := [], del := [d] } d.path = keyOf pn n0 d.path := hkey d.path
    obtain ⟨r1, r2, r3⟩ := relay_delete T hT
      { acc.t with md := { acc.t.md with updated := acc.t.md.updated + 1 } } v
      { hdr with upd := [], del := [d] } d [] hr1 rfl (hi.with_md _ ⟨rfl, rfl, rfl⟩) (Agree.of_tree_eq rfl ha)
      (by rw [hj]; intro kv hkv hq; have := hnew kv hkv hq; rw [← hts] at this; exact this)
      (keyOf pn n0 d.path) hj
    unfold multiDeletes applyDeletes
    simp only [hp, Bool.false_eq_true, if_false, r1]
    exact relay_multiDeletes T hT hdr hr pn n0 hkey hts ds _ _ rfl r3 r2 hok.2

/-! ### a whole relayed notification -/

theorem singleArm_tree (r : Res × Target × Option Noti) (cnt : Int) : (singleArm r cnt).2.1.tree = r.2.1.tree := by
  unfold singleArm
  split
  · rfl
  · split <;> rfl


/-- the switch of `Target.GnmiUpdate` on a relayed, non-atomic notification follows
`applyUpdates` then `applyDeletes` -/
theorem relay_dispatch (cfg : Cfg) (hthr : cfg.futureThr = 0) (now : Int) (T : String) (hT : T ≠ "")
    (t : Target) (v : View) (n : Noti) (hr : Relayed T n) (pn : Bool) (n0 : Noti)
    (hkey : ∀ p, joinKey n p = keyOf pn n0 p) (hts : n.ts = n0.ts) (ho : n.origin = originOf pn n0)
    (hi : TInv t) (ha : Agree t v)
    (huok : updatesOK true pn n0 n.upd v = true)
    (hdok : deletesOK pn n0 n.del (applyUpdates pn n0 n.upd v) = true) :
    Agree (t.dispatch cfg now n).2.1 (applyDeletes pn n0 n.del (applyUpdates pn n0 n.upd v)) := by
  unfold Target.dispatch
  rw [if_neg (by rw [hr.notAtomic]; simp)]
  by_cases hlen : n.upd.length + n.del.length > 1
  · -- several updates / deletes: the two loops
    simp only [hlen, if_true]
    have hrh : Relayed T { n with upd := [], del := [] } := relayed_with hr _ _
    obtain ⟨a1, a2, a3⟩ := relay_multiUpdates cfg hthr now T hT { n with upd := [], del := [] } hrh pn n0
      hkey hts ho n.upd { t := t } v rfl hi ha huok
    obtain ⟨_, _, b3⟩ := relay_multiDeletes T hT { n with upd := [], del := [] } hrh pn n0 hkey hts n.del
      _ _ a1 a2 a3 hdok
    split <;> exact b3
  · simp only [hlen, if_false]
    match hu : n.upd, hd : n.del with
    | [], [] =>
      simp only [List.length_nil, Nat.zero_ne_one, if_false, applyUpdates, applyDeletes]
      exact Agree.of_tree_eq rfl ha
    | [u], [] =>
      rw [hu] at huok
      unfold updatesOK at huok
      simp only [Bool.and_eq_true] at huok
      obtain ⟨hnm, hc, hl⟩ := updOK_facts huok.1
      obtain ⟨_, r2, _⟩ := relay_update cfg hthr now T hT t v n u [] hr (by rw [ho]; exact hnm) hu hi ha
        (by rw [hkey]; exact hc) (by rw [hkey, hts]; exact hl) (keyOf pn n0 u.path) (hkey _) n0.ts hts
      simp only [List.length_cons, List.length_nil, Nat.zero_add, if_true, applyUpdates, applyDeletes]
      exact Agree.of_tree_eq (singleArm_tree _ _) r2
    | [], [d] =>
      rw [hd, hu] at hdok
      unfold deletesOK at hdok
      simp only [Bool.and_eq_true, applyUpdates] at hdok
      have hnew := delOK_facts hdok.1
      obtain ⟨r1, r2, _⟩ := relay_delete T hT { t with md := { t.md with updated := t.md.updated + 1 } } v n d []
        hr hd (hi.with_md _ ⟨rfl, rfl, rfl⟩) (Agree.of_tree_eq rfl ha)
        (by rw [hkey, hts]; exact hnew) (keyOf pn n0 d.path) (hkey _)
      simp only [List.length_nil, Nat.zero_ne_one, if_false, List.length_cons, Nat.zero_add, if_true, r1,
        Bool.false_eq_true, applyUpdates, applyDeletes]
      exact r2
    | _ :: _ :: _, _ => rw [hu] at hlen; simp only [List.length_cons] at hlen; omega
    | _ :: _, _ :: _ => rw [hu, hd] at hlen; simp only [List.length_cons] at hlen; omega
    | _, _ :: _ :: _ => rw [hd] at hlen; simp only [List.length_cons] at hlen; omega

theorem defaultOrigin_ne : defaultOrigin ≠ "" := by decide

theorem stamp_relayed (enc : String → String) (T : String) (pn : Bool) (n0 : Noti) (hna : n0.atomic = false) :
    Relayed T (stampTarget enc T pn n0) := by
  unfold stampTarget
  cases pn
  · refine ⟨rfl, ?_, hna⟩
    simp only [Bool.false_eq_true, if_false]
    split
    · exact defaultOrigin_ne
    · assumption
  · exact ⟨rfl, defaultOrigin_ne, hna⟩

theorem stamp_fields (enc : String → String) (T : String) (pn : Bool) (n0 : Noti) :
    (stampTarget enc T pn n0).ts = n0.ts ∧ (stampTarget enc T pn n0).upd = n0.upd ∧
    (stampTarget enc T pn n0).del = n0.del ∧ (stampTarget enc T pn n0).origin = originOf pn n0 ∧
    (stampTarget enc T pn n0).pfx = (if pn then [] else n0.pfx) ∧ (stampTarget enc T pn n0).target = T := by
  unfold stampTarget originOf
  cases pn <;> simp

theorem stamp_joinKey (enc : String → String) (T : String) (pn : Bool) (n0 : Noti) (p : Path) :
    joinKey (stampTarget enc T pn n0) p = keyOf pn n0 p := by
  obtain ⟨_, _, _, h4, h5, _⟩ := stamp_fields enc T pn n0
  have hne : originOf pn n0 ≠ "" := by
    unfold originOf
    cases pn
    · simp only [Bool.false_eq_true, if_false]; split
      · exact defaultOrigin_ne
      · assumption
    · exact defaultOrigin_ne
  unfold joinKey keyOf
  rw [h4, h5]
  simp [hne]

/-- **One relayed notification.**  `Target.GnmiUpdate` of the stamped notification of an
admissible response: no panic, the invariant is kept, and the target presents the next view. -/
theorem relay_notification (cfg : Cfg) (hthr : cfg.futureThr = 0) (now : Int) (enc : String → String)
    (T : String) (hT : T ≠ "") (t : Target) (v : View) (pn : Bool) (n0 : Noti) (hi : TInv t) (ha : Agree t v)
    (hok : itemOK true v (.update pn n0) = true) :
    (t.gnmiUpdate cfg now (stampTarget enc T pn n0)).1 ≠ .panic ∧
    TInv (t.gnmiUpdate cfg now (stampTarget enc T pn n0)).2.1 ∧
    Agree (t.gnmiUpdate cfg now (stampTarget enc T pn n0)).2.1 (applyItem v (.update pn n0)) := by
  unfold itemOK at hok
  simp only [Bool.and_eq_true, Bool.not_eq_true'] at hok
  obtain ⟨⟨hna, huok⟩, hdok⟩ := hok
  obtain ⟨f1, f2, f3, f4, _, f6⟩ := stamp_fields enc T pn n0
  have ht : (stampTarget enc T pn n0).target ≠ "" := by rw [f6]; exact hT
  obtain ⟨g1, g2, _, _⟩ := gnmiUpdate_ok cfg now t (stampTarget enc T pn n0) hi ht
  refine ⟨g1, g2, ?_⟩
  have hd := relay_dispatch cfg hthr now T hT t v (stampTarget enc T pn n0) (stamp_relayed enc T pn n0 hna) pn n0
    (stamp_joinKey enc T pn n0) f1 f4 hi ha (by rw [f2]; exact huok) (by rw [f2, f3]; exact hdok)
  rw [f2, f3] at hd
  have htree : (t.gnmiUpdate cfg now (stampTarget enc T pn n0)).2.1.tree =
      (t.dispatch cfg now (stampTarget enc T pn n0)).2.1.tree := by
    obtain ⟨b, hb⟩ := tracksTimestamp?_isSome (stampTarget enc T pn n0) ht
    unfold Target.gnmiUpdate
    rw [hb]
    simp only
    split
    · exact (checkTimestamp_frame _ _).1
    · rfl
  exact Agree.of_tree_eq htree hd

/-! ### the collector's own metadata writes leave the view alone -/

theorem gnmiUpdate1_frame (cfg : Cfg) (now : Int) (t : Target) (n : Noti) (u : Upd) (us : List Upd)
    (hu : n.upd = u :: us) (ht : n.target ≠ "") (hi : TInv t) (k : Path) (hk : k ≠ updKey n u) :
    lookup (Target.gnmiUpdate1 cfg now t n).2.1.tree k = lookup t.tree k := by
  have he := gnmiUpdate1_effect cfg now t n u us hu ht
  generalize Target.gnmiUpdate1 cfg now t n = r at he
  cases he with
  | rejected r t' _ h1 => show lookup t'.tree k = _; rw [h1]
  | replaced t' old _ hl _ h1 => show lookup t'.tree k = _; rw [h1]; exact lookup_setLeaf_other hi.unique hk
  | suppressed t' old _ _ _ hl _ h1 => show lookup t'.tree k = _; rw [h1]; exact lookup_setLeaf_other hi.unique hk
  | added t' _ _ hadd => exact lookup_add_other hadd hk
  | panicOld t' old hl ho => exact absurd ho (hi.hasUpd _ (mem_of_lookup_some hl))

theorem gnmiUpdate_tree (cfg : Cfg) (now : Int) (t : Target) (n : Noti) (ht : n.target ≠ "") :
    (t.gnmiUpdate cfg now n).2.1.tree = (t.dispatch cfg now n).2.1.tree := by
  obtain ⟨b, hb⟩ := tracksTimestamp?_isSome n ht
  unfold Target.gnmiUpdate
  rw [hb]
  simp only
  split
  · exact (checkTimestamp_frame _ _).1
  · rfl

/-- a single update under `meta/` (the collector's `Sync` / `Connect` bookkeeping) -/
theorem meta_update_agree (cfg : Cfg) (now : Int) (t : Target) (v : View) (n : Noti) (u : Upd)
    (hi : TInv t) (ha : Agree t v) (ht : n.target ≠ "") (hu : n.upd = [u]) (hd : n.del = [])
    (hna : n.atomic = false) (hmeta : isMetaKey (updKey n u) = true) :
    Agree (t.gnmiUpdate cfg now n).2.1 v := by
  have htree : ∀ k, isMetaKey k = false → lookup (t.gnmiUpdate cfg now n).2.1.tree k = lookup t.tree k := by
    intro k hk
    rw [gnmiUpdate_tree cfg now t n ht]
    unfold Target.dispatch
    rw [if_neg (by rw [hna]; simp)]
    simp only [hu, hd, List.length_cons, List.length_nil, Nat.zero_add, Nat.add_zero, Nat.lt_irrefl, if_false,
      if_true, gt_iff_lt]
    rw [singleArm_tree]
    exact gnmiUpdate1_frame cfg now t n u [] hu ht hi k (by intro e; rw [e, hmeta] at hk; cases hk)
  intro k
  rw [← ha k]
  unfold absGet
  cases hm : isMetaKey k with
  | true => simp
  | false => simp only [Bool.false_eq_true, if_false]; rw [htree k hm]

/-- a single delete that selects metadata leaves only -/
theorem meta_delete_agree (cfg : Cfg) (now : Int) (t : Target) (v : View) (n : Noti) (d : Del)
    (hi : TInv t) (ha : Agree t v) (ht : n.target ≠ "") (hu : n.upd = []) (hd : n.del = [d])
    (hna : n.atomic = false) (hmeta : ∀ k, qmatches (joinKey n d.path) k = true → isMetaKey k = true) :
    Agree (t.gnmiUpdate cfg now n).2.1 v := by
  have htree : ∀ k, isMetaKey k = false → lookup (t.gnmiUpdate cfg now n).2.1.tree k = lookup t.tree k := by
    intro k hk
    rw [gnmiUpdate_tree cfg now t n ht]
    unfold Target.dispatch
    rw [if_neg (by rw [hna]; simp)]
    simp only [hu, hd, List.length_cons, List.length_nil, Nat.zero_add, Nat.lt_irrefl, if_false,
      if_true, gt_iff_lt, Nat.zero_ne_one]
    have hsp := (gnmiRemove1_spec { t with md := { t.md with updated := t.md.updated + 1 } } n d [] hd ht).1
    have hq : qmatches (joinKey n d.path) k = false := by
      cases hq : qmatches (joinKey n d.path) k with
      | false => rfl
      | true => rw [hmeta k hq] at hk; cases hk
    have : lookup (Target.gnmiRemove1 { t with md := { t.md with updated := t.md.updated + 1 } } n).1.tree k =
        lookup t.tree k := by
      rw [hsp]
      cases hl : lookup t.tree k with
      | some old => exact lookup_delete_kept hi.unique hl (by simp [hq])
      | none =>
        cases hx : lookup (PMap.delete (olderThan n.ts) t.tree (joinKey n d.path)).1 k with
        | none => rfl
        | some x => rw [lookup_delete_some hi.unique hx] at hl; cases hl
    split <;> exact this
  intro k
  rw [← ha k]
  unfold absGet
  cases hm : isMetaKey k with
  | true => simp
  | false => simp only [Bool.false_eq_true, if_false]; rw [htree k hm]

theorem metaNoti_agree (cfg : Cfg) (enc : String → String) (now : Int) (t : Target) (v : View)
    (name mname : String) (sv : Scalar) (hn : name ≠ "") (hi : TInv t) (ha : Agree t v) :
    TInv (t.gnmiUpdate cfg now (metaNoti enc name mname sv now)).2.1 ∧
    Agree (t.gnmiUpdate cfg now (metaNoti enc name mname sv now)).2.1 v := by
  have ht : (metaNoti enc name mname sv now).target ≠ "" := hn
  refine ⟨(gnmiUpdate_ok cfg now t _ hi ht).2.1, ?_⟩
  exact meta_update_agree cfg now t v _ _ hi ha ht rfl rfl rfl (by simp [metaNoti, updKey, joinKey, isMetaKey])

/-- `Cache.Sync(name)` on the target -/
theorem sync_agree (cfg : Cfg) (enc : String → String) (now : Int) (t : Target) (v : View)
    (name : String) (hn : name ≠ "") (hi : TInv t) (ha : Agree t v) :
    TInv (t.gnmiUpdate cfg now (metaNoti enc name "sync" (.bool true) now)).2.1 ∧
    Agree (t.gnmiUpdate cfg now (metaNoti enc name "sync" (.bool true) now)).2.1 v :=
  metaNoti_agree cfg enc now t v name "sync" _ hn hi ha

theorem qmatches_meta {name : String} {k : Path} (h : qmatches [metaRoot, name] k = true) : isMetaKey k = true := by
  cases k with
  | nil => simp [qmatches] at h
  | cons a r =>
    simp only [qmatches, Bool.and_eq_true, Bool.or_eq_true, beq_iff_eq] at h
    rcases h.1 with h1 | h1
    · exact absurd h1 (by decide)
    · simp [isMetaKey, h1]

/-- `Cache.Connect(name)` on the target: `meta/connected := true`, `meta/connectError` deleted -/
theorem connect_agree (cfg : Cfg) (enc : String → String) (now : Int) (t : Target) (v : View)
    (name : String) (hn : name ≠ "") (hi : TInv t) (ha : Agree t v) :
    let r := t.gnmiUpdate cfg now (metaNoti enc name "connected" (.bool true) now)
    let r2 := r.2.1.gnmiUpdate cfg now (deleteNotiOf enc name [metaRoot, "connectError"] now)
    TInv r2.2.1 ∧ Agree r2.2.1 v := by
  intro r r2
  obtain ⟨i1, a1⟩ := metaNoti_agree cfg enc now t v name "connected" (.bool true) hn hi ha
  have ht : (deleteNotiOf enc name [metaRoot, "connectError"] now).target ≠ "" := hn
  refine ⟨(gnmiUpdate_ok cfg now r.2.1 _ i1 ht).2.1, ?_⟩
  exact meta_delete_agree cfg now r.2.1 v _ _ i1 a1 ht rfl rfl rfl
    (by intro k hk; exact qmatches_meta (name := "connectError") (by simpa [deleteNotiOf, joinKey] using hk))

/-! ### every stored leaf is a single decodable update filed under its own index -/

/-- what a stored leaf notification looks like behind the collector -/
def GoodLeaf (T : String) (k : Path) (n : Noti) : Prop :=
  n.atomic = false ∧ n.del = [] ∧ n.target = T ∧
  ∃ u, n.upd = [u] ∧ valueOK u.val = true ∧ k = joinKey n u.path

def Good (T : String) (t : Target) : Prop := ∀ kv ∈ t.tree, GoodLeaf T kv.1 kv.2

theorem Good.of_tree_eq {T : String} {t t' : Target} (h : t'.tree = t.tree) (hg : Good T t) : Good T t' := by
  intro kv hkv; rw [h] at hkv; exact hg kv hkv

theorem good_update1 (cfg : Cfg) (now : Int) (T : String) (hT : T ≠ "") (t : Target) (n : Noti) (u : Upd)
    (hi : TInv t) (hg : Good T t) (ht : n.target = T) (hu : n.upd = [u]) (hd : n.del = [])
    (hna : n.atomic = false) (hv : valueOK u.val = true) :
    Good T (Target.gnmiUpdate1 cfg now t n).2.1 := by
  have hkey : updKey n u = joinKey n u.path := by unfold updKey; simp [hna]
  have hleaf : GoodLeaf T (updKey n u) n := ⟨hna, hd, ht, u, hu, hv, hkey⟩
  have he := gnmiUpdate1_effect cfg now t n u [] hu (by rw [ht]; exact hT)
  generalize Target.gnmiUpdate1 cfg now t n = r at he
  cases he with
  | rejected r t' _ h1 => exact hg.of_tree_eq h1
  | replaced t' old _ hl _ h1 =>
    intro kv hkv
    have hkv' : kv ∈ setLeaf t.tree (updKey n u) n := by rw [← h1]; exact hkv
    rcases mem_setLeaf.1 hkv' with ⟨e1, e2, _⟩ | ⟨hm, _⟩
    · rw [e1, e2]; exact hleaf
    · exact hg kv hm
  | suppressed t' old _ _ _ hl _ h1 =>
    intro kv hkv
    have hkv' : kv ∈ setLeaf t.tree (updKey n u) n := by rw [← h1]; exact hkv
    rcases mem_setLeaf.1 hkv' with ⟨e1, e2, _⟩ | ⟨hm, _⟩
    · rw [e1, e2]; exact hleaf
    · exact hg kv hm
  | added t' _ _ hadd =>
    intro kv hkv
    have hkv' : kv ∈ t'.tree := hkv
    rw [add_eq_some hadd] at hkv'
    rcases List.mem_cons.1 hkv' with e | hm
    · rw [e]; exact hleaf
    · exact hg kv (List.mem_filter.1 hm).1
  | panicOld t' old hl ho => exact absurd ho (hi.hasUpd _ (mem_of_lookup_some hl))

theorem good_remove1 (T : String) (t : Target) (n : Noti) (d : Del) (ds : List Del) (hd : n.del = d :: ds)
    (ht : n.target ≠ "") (hg : Good T t) : Good T (Target.gnmiRemove1 t n).1 := by
  intro kv hkv
  rw [(gnmiRemove1_spec t n d ds hd ht).1] at hkv
  exact hg kv (List.mem_filter.1 hkv).1

theorem good_multiUpdates (cfg : Cfg) (now : Int) (T : String) (hT : T ≠ "") (hdr : Noti) (ht : hdr.target = T)
    (hna : hdr.atomic = false) :
    ∀ (us : List Upd) (acc : MultiAcc), TInv acc.t → Good T acc.t → (∀ u ∈ us, valueOK u.val = true) →
      TInv (multiUpdates cfg now hdr us acc).t ∧ Good T (multiUpdates cfg now hdr us acc).t
  | [], acc, hi, hg, _ => by simpa [multiUpdates] using ⟨hi, hg⟩
  | u :: us, acc, hi, hg, hv => by
    unfold multiUpdates
    by_cases hp : acc.panicked = true
    · simp only [hp, if_true]; exact ⟨hi, hg⟩
    · have hc := gnmiUpdate1_consequences cfg now acc.t { hdr with upd := [u], del := [] } hi (by simp)
        (by show hdr.target ≠ ""; rw [ht]; exact hT)
      simp only at hc
      obtain ⟨c1, c2, _, _, _⟩ := hc
      have g := good_update1 cfg now T hT acc.t { hdr with upd := [u], del := [] } u hi hg ht rfl rfl hna
        (hv u (by simp))
      have hvs : ∀ x ∈ us, valueOK x.val = true := fun x hx => hv x (by simp [hx])
      simp only [hp, Bool.false_eq_true, if_false, c1]
      split
      · exact good_multiUpdates cfg now T hT hdr ht hna us _ c2 g hvs
      · split
        · exact good_multiUpdates cfg now T hT hdr ht hna us _ (c2.with_md _ ⟨rfl, rfl, rfl⟩) (g.of_tree_eq rfl) hvs
        · exact good_multiUpdates cfg now T hT hdr ht hna us _ c2 g hvs

theorem good_multiDeletes (T : String) (hT : T ≠ "") (hdr : Noti) (ht : hdr.target = T) :
    ∀ (ds : List Del) (acc : MultiAcc), TInv acc.t → Good T acc.t →
      TInv (multiDeletes hdr ds acc).t ∧ Good T (multiDeletes hdr ds acc).t
  | [], acc, hi, hg => by simpa [multiDeletes] using ⟨hi, hg⟩
  | d :: ds, acc, hi, hg => by
    unfold multiDeletes
    by_cases hp : acc.panicked = true
    · simp only [hp, if_true]; exact ⟨hi, hg⟩
    · have hne : ({ hdr with upd := [], del := [d] } : Noti).target ≠ "" := by show hdr.target ≠ ""; rw [ht]; exact hT
      have hc := gnmiRemove1_consequences
        { acc.t with md := { acc.t.md with updated := acc.t.md.updated + 1 } }
        { hdr with upd := [], del := [d] } (hi.with_md _ ⟨rfl, rfl, rfl⟩) (by simp) hne
      simp only at hc
      obtain ⟨c1, c2, _, _, _⟩ := hc
      have g := good_remove1 T { acc.t with md := { acc.t.md with updated := acc.t.md.updated + 1 } }
        { hdr with upd := [], del := [d] } d [] rfl hne (hg.of_tree_eq rfl)
      simp only [hp, Bool.false_eq_true, if_false, c1]
      exact good_multiDeletes T hT hdr ht ds _ c2 g

/-- `Target.GnmiUpdate` of a non-atomic notification addressed to `T` whose values decode keeps
every stored leaf a single decodable update filed under its own index -/
theorem good_gnmiUpdate (cfg : Cfg) (now : Int) (T : String) (hT : T ≠ "") (t : Target) (n : Noti)
    (hi : TInv t) (hg : Good T t) (ht : n.target = T) (hna : n.atomic = false)
    (hv : ∀ u ∈ n.upd, valueOK u.val = true) :
    Good T (t.gnmiUpdate cfg now n).2.1 := by
  have hne : n.target ≠ "" := by rw [ht]; exact hT
  apply Good.of_tree_eq (gnmiUpdate_tree cfg now t n hne)
  unfold Target.dispatch
  rw [if_neg (by rw [hna]; simp)]
  by_cases hlen : n.upd.length + n.del.length > 1
  · simp only [hlen, if_true]
    obtain ⟨a1, a2⟩ := good_multiUpdates cfg now T hT { n with upd := [], del := [] } ht hna n.upd { t := t } hi hg hv
    obtain ⟨_, b2⟩ := good_multiDeletes T hT { n with upd := [], del := [] } ht n.del _ a1 a2
    split <;> exact b2
  · simp only [hlen, if_false]
    match hu : n.upd, hd : n.del with
    | [], [] =>
      simp only [List.length_nil, Nat.zero_ne_one, if_false]
      exact hg.of_tree_eq rfl
    | [u], [] =>
      simp only [List.length_cons, List.length_nil, Nat.zero_add, if_true]
      apply Good.of_tree_eq (singleArm_tree _ _)
      exact good_update1 cfg now T hT t n u hi hg ht hu hd hna (hv u (by rw [hu]; simp))
    | [], [d] =>
      simp only [List.length_nil, Nat.zero_ne_one, if_false, List.length_cons, Nat.zero_add, if_true]
      have g := good_remove1 T { t with md := { t.md with updated := t.md.updated + 1 } } n d [] hd hne
        (hg.of_tree_eq rfl)
      split <;> exact g
    | _ :: _ :: _, _ => rw [hu] at hlen; simp only [List.length_cons] at hlen; omega
    | _ :: _, _ :: _ => rw [hu, hd] at hlen; simp only [List.length_cons] at hlen; omega
    | _, _ :: _ :: _ => rw [hd] at hlen; simp only [List.length_cons] at hlen; omega

/-! ### whole runs of the collector -/

/-- the responses target `name` streamed during a run, in order -/
def itemsOf (name : String) : List Step → List TItem
  | [] => []
  | .recv n _ _ it :: r => if n = name then it :: itemsOf name r else itemsOf name r
  | .subscribe _ _ _ :: r => itemsOf name r

/-- the targets a run receives from -/
def senders : List Step → List String
  | [] => []
  | .recv n _ _ _ :: r => n :: senders r
  | .subscribe _ _ _ :: r => senders r

/-- the collector is up, the future threshold is disabled, and every target of `names` is
registered, well formed and presents its view -/
structure Holds (names : List String) (s : Sys) (vw : String → View) : Prop where
  alive : s.crashed = false
  thr : s.sub.cache.cfg.futureThr = 0
  each : ∀ name ∈ names, ∃ t, s.sub.cache.get name = some t ∧ TInv t ∧ Agree t (vw name) ∧ Good name t

theorem feed_cache (st : Sub.State) (evs : List Event) : (Sub.feed st evs).cache = st.cache := rfl

theorem subscribe_cache (st : Sub.State) (id : String) (acl : Sub.Acl) (r : Option Sub.Req) :
    (Sub.subscribe st id acl r).cache = st.cache := by
  unfold Sub.subscribe
  simp only
  split
  · rfl
  · split
    · rfl
    · repeat' split
      all_goals rfl

/-- a cache operation on target `name` that keeps its invariant and view keeps `Holds` -/
theorem Holds.onTarget {names : List String} {s : Sys} {vw : String → View} (h : Holds names s vw)
    (name : String) (v' : View) (s' : Sys) (hcr : s'.crashed = false)
    (hcfg : s'.sub.cache.cfg = s.sub.cache.cfg)
    (hother : ∀ U, U ≠ name → s'.sub.cache.get U = s.sub.cache.get U)
    (hsame : ∀ t, s.sub.cache.get name = some t → TInv t → Agree t (vw name) → Good name t →
      ∃ t', s'.sub.cache.get name = some t' ∧ TInv t' ∧ Agree t' v' ∧ Good name t') :
    Holds names s' (fun x => if x = name then v' else vw x) := by
  refine ⟨hcr, by rw [hcfg]; exact h.thr, ?_⟩
  intro U hU
  obtain ⟨t, g1, g2, g3, g4⟩ := h.each U hU
  by_cases e : U = name
  · subst e
    obtain ⟨t', k1, k2, k3, k4⟩ := hsame t g1 g2 g3 g4
    exact ⟨t', k1, k2, by simpa using k3, k4⟩
  · exact ⟨t, by rw [hother U e]; exact g1, g2, by simpa [e] using g3, g4⟩

theorem fun_update_self (vw : String → View) (name : String) :
    (fun x => if x = name then vw name else vw x) = vw := by
  funext x; by_cases h : x = name <;> simp [h]

/-- a step that leaves the cache alone keeps `Holds` -/
theorem Holds.of_cache_eq {names : List String} {s s' : Sys} {vw : String → View} (h : Holds names s vw)
    (hcr : s'.crashed = false) (hc : s'.sub.cache = s.sub.cache) : Holds names s' vw :=
  ⟨hcr, by rw [hc]; exact h.thr, by rw [hc]; exact h.each⟩

/-- `Sys.connect` when the collector is up -/
def connectedSys (enc : String → String) (now : Int) (s : Sys) (name : String) : Sys :=
  let r := s.sub.cache.connect enc name now
  { s with sub := Sub.feed { s.sub with cache := r.1 } r.2 }

theorem connect_eq (enc : String → String) (now : Int) (s : Sys) (name : String) (h : s.crashed = false) :
    s.connect enc now name = connectedSys enc now s name := by
  unfold Sys.connect connectedSys
  rw [if_neg (by rw [h]; simp)]

/-- `m.connect(name)`: the collector's `Connect` callback -/
theorem Holds.connect {names : List String} {s : Sys} {vw : String → View} (enc : String → String)
    (h : Holds names s vw) (now : Int) (name : String) (hn : name ≠ "") :
    Holds names (s.connect enc now name) vw := by
  have hal := h.alive
  rw [connect_eq enc now s name hal]
  have hc : (connectedSys enc now s name).sub.cache = (s.sub.cache.connect enc name now).1 := rfl
  have hcr : (connectedSys enc now s name).crashed = false := hal
  cases hg : s.sub.cache.get name with
  | none =>
    refine h.of_cache_eq hcr ?_
    rw [hc]
    unfold State.connect State.onTarget
    simp only [hg]
  | some t =>
    have := h.onTarget name (vw name) (connectedSys enc now s name) hcr
      (by rw [hc]; unfold State.connect State.onTarget; simp only [hg]; exact set_cfg _ _ _)
      (fun U hU => by
        rw [hc]; unfold State.connect State.onTarget; simp only [hg]; exact get_set_other _ _ _ _ hU)
      (fun t0 h0 hi ha hgd => by
        rw [hg] at h0; cases h0
        obtain ⟨i, a⟩ := connect_agree s.sub.cache.cfg enc now t (vw name) name hn hi ha
        have i1 := (metaNoti_agree s.sub.cache.cfg enc now t (vw name) name "connected" (.bool true) hn hi ha).1
        have gd1 := good_gnmiUpdate s.sub.cache.cfg now name hn t (metaNoti enc name "connected" (.bool true) now)
          hi hgd rfl rfl (by intro u hu; simp only [metaNoti, List.mem_singleton] at hu; subst hu; rfl)
        have gd2 := good_gnmiUpdate s.sub.cache.cfg now name hn _ (deleteNotiOf enc name [metaRoot, "connectError"] now)
          i1 gd1 rfl rfl (by intro u hu; simp [deleteNotiOf] at hu)
        refine ⟨_, ?_, i, a, gd2⟩
        rw [hc]; unfold State.connect State.onTarget; simp only [hg]; exact get_set_same _ _ _)
    rw [fun_update_self] at this
    exact this

/-- `Sys.deliver` when the collector is up and the callback returns -/
def deliveredSys (enc : String → String) (now : Int) (s : Sys) (call : MCall) : Sys :=
  let r := callback enc now s.sub.cache call
  { s with sub := Sub.feed { s.sub with cache := r.2.1 } r.2.2 }

theorem deliver_eq (enc : String → String) (now : Int) (s : Sys) (call : MCall) (h : s.crashed = false)
    (hp : (callback enc now s.sub.cache call).1 ≠ .panic) :
    s.deliver enc now call = deliveredSys enc now s call := by
  unfold Sys.deliver deliveredSys
  rw [if_neg (by rw [h]; simp)]
  simp only [hp, if_false]

/-- one response of target `name`, admissible in its view, handled by the collector -/
theorem Holds.deliver {names : List String} {s : Sys} {vw : String → View} (enc : String → String)
    (h : Holds names s vw) (now : Int) (name : String) (hn : name ≠ "") (hmem : name ∈ names) (it : TItem)
    (hok : itemOK true (vw name) it = true) :
    Holds names (s.deliver enc now (handleGNMIUpdate name it))
      (fun x => if x = name then applyItem (vw name) it else vw x) := by
  have hal := h.alive
  obtain ⟨t, g1, g2, g3, g4⟩ := h.each name hmem
  cases it with
  | update pn n =>
    obtain ⟨r1, r2, r3⟩ := relay_notification s.sub.cache.cfg h.thr now enc name hn t (vw name) pn n g2 g3 hok
    have htg : (stampTarget enc name pn n).target = name := (stamp_fields enc name pn n).2.2.2.2.2
    have hcb : callback enc now s.sub.cache (handleGNMIUpdate name (.update pn n)) =
        ((t.gnmiUpdate s.sub.cache.cfg now (stampTarget enc name pn n)).1,
         s.sub.cache.set name (t.gnmiUpdate s.sub.cache.cfg now (stampTarget enc name pn n)).2.1,
         flattenGroups (t.gnmiUpdate s.sub.cache.cfg now (stampTarget enc name pn n)).2.2) := by
      simp only [handleGNMIUpdate, callback, updateClosure, State.gnmiUpdate, Bool.false_eq_true, if_false, htg, g1]
    rw [deliver_eq enc now s _ hal (by rw [hcb]; exact r1)]
    have hc : (deliveredSys enc now s (handleGNMIUpdate name (.update pn n))).sub.cache =
        s.sub.cache.set name (t.gnmiUpdate s.sub.cache.cfg now (stampTarget enc name pn n)).2.1 := by
      show (callback enc now s.sub.cache (handleGNMIUpdate name (.update pn n))).2.1 = _
      rw [hcb]
    exact h.onTarget name _ _ hal (by rw [hc]; exact set_cfg _ _ _)
      (fun U hU => by rw [hc]; exact get_set_other _ _ _ _ hU)
      (fun t0 h0 _ _ _ => by
        rw [g1] at h0; cases h0
        have hna : n.atomic = false := by
          unfold itemOK at hok; simp only [Bool.and_eq_true, Bool.not_eq_true'] at hok; exact hok.1.1
        have hvs : ∀ u ∈ (stampTarget enc name pn n).upd, valueOK u.val = true := by
          rw [(stamp_fields enc name pn n).2.1]
          unfold itemOK at hok; simp only [Bool.and_eq_true] at hok
          exact updatesOK_values hok.1.2
        have gd := good_gnmiUpdate s.sub.cache.cfg now name hn t (stampTarget enc name pn n) g2 g4 htg
          (stamp_relayed enc name pn n hna).notAtomic hvs
        exact ⟨_, by rw [hc]; exact get_set_same _ _ _, r2, r3, gd⟩)
  | sync =>
    have hcb : callback enc now s.sub.cache (handleGNMIUpdate name .sync) =
        (.ok, s.sub.cache.set name (t.gnmiUpdate s.sub.cache.cfg now (metaNoti enc name "sync" (.bool true) now)).2.1,
         flattenGroups (t.gnmiUpdate s.sub.cache.cfg now (metaNoti enc name "sync" (.bool true) now)).2.2) := by
      simp only [handleGNMIUpdate, callback, State.sync, State.onTarget, g1]
    rw [deliver_eq enc now s _ hal (by rw [hcb]; simp)]
    have hc : (deliveredSys enc now s (handleGNMIUpdate name .sync)).sub.cache =
        s.sub.cache.set name (t.gnmiUpdate s.sub.cache.cfg now (metaNoti enc name "sync" (.bool true) now)).2.1 := by
      show (callback enc now s.sub.cache (handleGNMIUpdate name .sync)).2.1 = _
      rw [hcb]
    obtain ⟨i, a⟩ := sync_agree s.sub.cache.cfg enc now t (vw name) name hn g2 g3
    exact h.onTarget name _ _ hal (by rw [hc]; exact set_cfg _ _ _)
      (fun U hU => by rw [hc]; exact get_set_other _ _ _ _ hU)
      (fun t0 h0 _ _ _ => by
        rw [g1] at h0; cases h0
        have gd := good_gnmiUpdate s.sub.cache.cfg now name hn t (metaNoti enc name "sync" (.bool true) now)
          g2 g4 rfl rfl (by intro u hu; simp only [metaNoti, List.mem_singleton] at hu; subst hu; rfl)
        exact ⟨_, by rw [hc]; exact get_set_same _ _ _, i, a, gd⟩)
  | error =>
    rw [deliver_eq enc now s _ hal (by simp [handleGNMIUpdate, callback])]
    have := h.of_cache_eq (s' := deliveredSys enc now s (handleGNMIUpdate name .error)) hal rfl
    simpa [applyItem, fun_update_self] using this
  | nilResponse =>
    rw [deliver_eq enc now s _ hal (by simp [handleGNMIUpdate, callback])]
    have := h.of_cache_eq (s' := deliveredSys enc now s (handleGNMIUpdate name .nilResponse)) hal rfl
    simpa [applyItem, fun_update_self] using this

/-- one step of a run -/
theorem Holds.step {names : List String} {s : Sys} {vw : String → View} (enc : String → String)
    (h : Holds names s vw) (hne : ∀ x ∈ names, x ≠ "") :
    ∀ (st : Step),
      (match st with
       | .recv name _ _ it => name ∈ names ∧ itemOK true (vw name) it = true
       | .subscribe _ _ _ => True) →
      Holds names (s.step enc st)
        (match st with
         | .recv name _ _ it => fun x => if x = name then applyItem (vw name) it else vw x
         | .subscribe _ _ _ => vw)
  | .recv name first now it, hst => by
    obtain ⟨hmem, hok⟩ := hst
    have hn := hne name hmem
    simp only [Sys.step, Sys.recv]
    cases first with
    | false => exact h.deliver enc now name hn hmem it hok
    | true => exact (h.connect enc now name hn).deliver enc now name hn hmem it hok
  | .subscribe id target queries, _ => by
    simp only [Sys.step]
    rw [if_neg (by rw [h.alive]; simp)]
    exact h.of_cache_eq h.alive (subscribe_cache _ _ _ _)

/-- **Whole runs.**  Any interleaving of admissible sessions keeps the collector up and every
target presenting the view its own responses describe. -/
theorem Holds.run {names : List String} (enc : String → String) (hne : ∀ x ∈ names, x ≠ "") :
    ∀ (steps : List Step) (s : Sys) (vw : String → View), Holds names s vw →
      (∀ x ∈ senders steps, x ∈ names) →
      (∀ name ∈ names, wellFormedFrom true (vw name) (itemsOf name steps) = true) →
      Holds names (s.run enc steps) (fun name => (itemsOf name steps).foldl applyItem (vw name))
  | [], s, vw, h, _, _ => by simpa [Sys.run, itemsOf] using h
  | .recv name first now it :: r, s, vw, h, hs, hwf => by
    have hmem : name ∈ names := hs name (by simp [senders])
    have hw := hwf name hmem
    simp only [itemsOf, if_true, wellFormedFrom, Bool.and_eq_true] at hw
    have hst := h.step enc hne (.recv name first now it) ⟨hmem, hw.1⟩
    simp only at hst
    have ih := Holds.run enc hne r _ _ hst (fun x hx => hs x (by simp [senders, hx]))
      (fun nm hnm => by
        by_cases e : nm = name
        · subst e; simpa using hw.2
        · have := hwf nm hnm
          simp only [itemsOf, Ne.symm e, if_false] at this
          simpa [e] using this)
    have hrun : s.run enc (.recv name first now it :: r) = (s.step enc (.recv name first now it)).run enc r := by
      simp [Sys.run]
    rw [hrun]
    have hv : (fun nm => (itemsOf nm (.recv name first now it :: r)).foldl applyItem (vw nm)) =
        (fun nm => (itemsOf nm r).foldl applyItem (if nm = name then applyItem (vw name) it else vw nm)) := by
      funext nm
      by_cases e : nm = name
      · subst e; simp [itemsOf]
      · simp [itemsOf, Ne.symm e, e]
    rw [hv]
    exact ih
  | .subscribe id target queries :: r, s, vw, h, hs, hwf => by
    have hst := h.step enc hne (.subscribe id target queries) trivial
    simp only at hst
    have ih := Holds.run enc hne r _ _ hst (fun x hx => hs x (by simpa [senders] using hx))
      (fun nm hnm => by simpa [itemsOf] using hwf nm hnm)
    have hrun : s.run enc (.subscribe id target queries :: r) = (s.step enc (.subscribe id target queries)).run enc r := by
      simp [Sys.run]
    rw [hrun]
    simpa [itemsOf] using ih

/-! ### nobody's stream starts gated in a run of the pipeline model -/

theorem subscribe_pregated (st : Sub.State) (id : String) (acl : Sub.Acl) (r : Option Sub.Req) :
    (Sub.subscribe st id acl r).pregated = st.pregated := by
  unfold Sub.subscribe
  simp only
  split
  · rfl
  · split
    · rfl
    · repeat' split
      all_goals rfl

theorem step_pregated (enc : String → String) (s : Sys) (st : Step) :
    (s.step enc st).sub.pregated = s.sub.pregated := by
  cases st with
  | recv name first now it =>
    simp only [Sys.step, Sys.recv]
    have hc : ∀ (s : Sys), (s.connect enc now name).sub.pregated = s.sub.pregated := by
      intro s; unfold Sys.connect; split <;> rfl
    have hd : ∀ (s : Sys) (c : MCall), (s.deliver enc now c).sub.pregated = s.sub.pregated := by
      intro s c; unfold Sys.deliver; split
      · rfl
      · simp only; split <;> rfl
    cases first
    · exact hd _ _
    · simp only [if_true]; rw [hd, hc]
  | subscribe id target queries =>
    simp only [Sys.step]
    split
    · rfl
    · exact subscribe_pregated _ _ _ _

theorem run_pregated (enc : String → String) : ∀ (steps : List Step) (s : Sys),
    (s.run enc steps).sub.pregated = s.sub.pregated
  | [], _ => rfl
  | st :: r, s => by
    have : s.run enc (st :: r) = (s.step enc st).run enc r := by simp [Sys.run]
    rw [this, run_pregated enc r, step_pregated]

end Relay
end Gnmi
