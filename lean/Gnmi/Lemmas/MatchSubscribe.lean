import Gnmi.Props.C06
import Gnmi.Lemmas.SubscribeStreamInit
import Gnmi.Lemmas.PipelineStream
/-!
# Glue between the `match` trie model (`Model/Match.lean`) and the Subscribe model
# (`Model/Subscribe.lean`): helper lemmas of `Props/C06Glue.lean`

* the translation of a Subscribe request (`Sub.Req`) into the `*gnmi.SubscriptionList` fields the
  Match model reads (`toSubList`) and of a cache feed event (`Cache.Event`) into the
  `*gnmi.Notification` fields `UpdateNotification` reads (`eventNoti`);
* `Registered` of a fresh client after `addSubscription` inside any history;
* path lemmas: `qmatches ⊆ compatible` also for every extension of the key
  (`compatible_of_qmatches_append`), a query compatible with a key is compatible with every
  delete path selecting that key (`compatible_of_qmatches_cover`, no glob-freeness needed),
  `compatible` as position-wise agreement (`compatible_iff_agree`);
* what `Cache.Query` / the initial walk return, without any hypothesis on the cache
  (`query_mem_elim`, `walked_spec`).
-/
namespace Gnmi
namespace MatchSub
open Match

/-! ## translations -/

/-- the `*gnmi.Path` of a subscription as the Match model reads it (`none` = `GetPath() == nil`) -/
def toGPath (s : Sub.SubPath) : Option GPath :=
  if s.isNil then none else some { origin := s.origin, idx := s.path }

/-- the prefix of the subscription list (`none` = nil prefix: `Subscribe` rejects it) -/
def toPrefix (r : Sub.Req) : Option GPath :=
  if r.prefixNil then none else some { target := r.target, origin := r.origin, idx := r.pfx }

/-- the `*gnmi.SubscriptionList` of a request -/
def toSubList (r : Sub.Req) : SubList := { pfx := toPrefix r, subs := r.subs.map toGPath }

/-- a subscription without a path has no origin and no elements (`GetOrigin()` / `ToStrings` of a
nil `*gnmi.Path`): the well-formedness of the `isNil` flag of `Sub.SubPath` -/
def NilOK (r : Sub.Req) : Prop := ∀ s ∈ r.subs, s.isNil = true → s.origin = "" ∧ s.path = []

instance (r : Sub.Req) : Decidable (NilOK r) := by unfold NilOK; infer_instance

/-- the `*gnmi.Notification` a feed event is carried by, as `UpdateNotification` reads it.  A
delete event is `Prefix{Target, Origin}` + one delete path (`deleteNoti`; for
`toDeleteNotification` the split between prefix elements and path differs, the concatenation —
all the trie sees — is the same: `offered_iff_trie_paths` is stated for any split). -/
def eventNoti : Cache.Event → Noti
  | .upd n => { pfx := some { target := n.target, origin := n.origin, idx := n.pfx },
                upd := n.upd.map (·.path), del := n.del.map (·.path) }
  | .del t o p _ => { pfx := some { target := t, origin := o, idx := [] }, upd := [], del := [p] }

/-- the shape of every event the cache feeds: it names its target, and a leaf notification
carries no deletes (the three arms of `Target.dispatch`: atomic ⇒ `del` empty, multi ⇒ split
into `{upd := [u], del := []}`, single ⇒ one update and nothing else).  `Sub.eventPaths` reads
only the updates of a leaf notification. -/
def EventOK : Cache.Event → Prop
  | .upd n => n.target ≠ "" ∧ n.del = []
  | .del t _ _ _ => t ≠ ""

instance (e : Cache.Event) : Decidable (EventOK e) := by
  cases e <;> (unfold EventOK; infer_instance)

theorem subscriptionQueryOpt_toGPath (r : Sub.Req) (hp : r.prefixNil = false) (ht : r.target ≠ "")
    (s : Sub.SubPath) (hs : s.isNil = true → s.origin = "" ∧ s.path = []) :
    subscriptionQueryOpt (toPrefix r) (toGPath s) =
      (r.target :: ((if r.origin = "" then [] else [r.origin]) ++ r.pfx)) ++
        (if r.origin = "" ∧ s.origin ≠ "" then [s.origin] else []) ++ s.path := by
  unfold toPrefix toGPath
  rw [hp]
  cases hn : s.isNil with
  | true =>
    obtain ⟨h1, h2⟩ := hs hn
    by_cases ho : r.origin = "" <;>
      simp [subscriptionQueryOpt, toStrings, ht, ho, h1, h2]
  | false =>
    by_cases ho : r.origin = "" <;> by_cases hso : s.origin = "" <;>
      simp [subscriptionQueryOpt, subscriptionQuery, originElem, originOf, toStrings, ht, ho, hso]

/-- `path.CompletePath` of the two models agree (no side condition on the target) -/
theorem completePath_eq (r : Sub.Req) (hp : r.prefixNil = false) (s : Sub.SubPath)
    (hs : s.isNil = true → s.origin = "" ∧ s.path = []) :
    Sub.completePath r s = Match.completePath (toPrefix r) (toGPath s) := by
  unfold toPrefix toGPath Sub.completePath Match.completePath
  rw [hp]
  cases hn : s.isNil with
  | true =>
    obtain ⟨h1, h2⟩ := hs hn
    by_cases ho : r.origin = "" <;> simp [originOf, toStrings, ho, h1, h2]
  | false =>
    by_cases ho : r.origin = "" <;> by_cases hso : s.origin = "" <;>
      simp [originOf, toStrings, ho, hso]

/-! ## a fresh client inside any history -/

section
variable {C : Type} [DecidableEq C]

theorem registered_adds (c : C) (qs : List Path) (q : Path) :
    Registered (qs.map (Op.add c)) c q ↔ q ∈ qs := by
  constructor
  · intro h
    have := add_mem_of_registered h
    simp only [List.mem_map, Op.add.injEq] at this
    obtain ⟨q', hq', _, rfl⟩ := this
    exact hq'
  · intro h
    obtain ⟨a, b, rfl⟩ := List.append_of_mem h
    refine ⟨a.map (Op.add c), b.map (Op.add c), by simp, ?_⟩
    simp

/-- The registrations of a client that registers only through one `addSubscription` (as
`Subscribe` does: a fresh `matchClient` per RPC), whatever the other clients did before
(`ops`) and do while the stream is up (`during`): exactly the queries of its list. -/
theorem registered_fresh (ops during : List (Op C)) (qs : List Path) (c : C)
    (h1 : ∀ q, Op.add c q ∉ ops) (h2 : ∀ q, Op.add c q ∉ during) (h3 : ∀ q, Op.remove c q ∉ during)
    (q : Path) :
    Registered (ops ++ qs.map (Op.add c) ++ during) c q ↔ q ∈ qs := by
  rw [← mem_runSpec, runSpec_append, mem_foldl_spec, runSpec_append, mem_foldl_spec, mem_runSpec,
    registered_adds]
  constructor
  · rintro (⟨⟨h, _⟩ | h, _⟩ | h)
    · exact absurd (add_mem_of_registered h) (h1 q)
    · exact h
    · exact absurd (add_mem_of_registered h) (h2 q)
  · intro h
    exact Or.inl ⟨Or.inr h, h3 q⟩

theorem trie_fresh (ops during : List (Op C)) (s : SubList) (c : C) :
    during.foldl stepTrie (addSubscription (runTrie ops) s c) =
      runTrie (ops ++ (subscriptionQueries s).map (Op.add c) ++ during) := by
  simp only [C06.addSubscription_eq, runTrie, List.foldl_append]

end

/-! ## path relations -/

/-- `qmatches ⊆ compatible`, also against every extension of the key (an atomic leaf is stored
at its prefix, its notification's update paths extend it) -/
theorem compatible_of_qmatches_append : ∀ (q k ext : Path), qmatches q k = true →
    compatible q (k ++ ext) = true
  | [], _, _, _ => compatible_nil_left _
  | [g], [], ext, h => by
      have hg : (g == glob) = true := h
      cases ext with
      | nil => rfl
      | cons e ext => simp [compatible, hg]
  | _ :: _ :: _, [], _, h => by cases h
  | g :: q, e :: k, ext, h => by
      rw [C06.qmatches_cons_cons] at h
      rw [List.cons_append, compatible_cons_cons]
      simp only [Bool.and_eq_true, Bool.or_eq_true] at h ⊢
      refine ⟨?_, compatible_of_qmatches_append q k ext h.2⟩
      rcases h.1 with h1 | h1
      · exact Or.inl (Or.inl h1)
      · exact Or.inr h1

/-- a query compatible with a key is compatible with every (delete) path selecting that key —
`SubLTS.compatible_of_covers` without its glob-freeness hypothesis -/
theorem compatible_of_qmatches_cover : ∀ (q r k : Path), qmatches r k = true →
    compatible q k = true → compatible q r = true
  | q, [], _, _, _ => compatible_nil_right q
  | [], _ :: _, _, _, _ => rfl
  | g :: q, r :: rs, [], hr, _ => by
      cases rs with
      | nil =>
        have : (r == glob) = true := hr
        simp [compatible, this]
      | cons _ _ => cases hr
  | g :: q, r :: rs, x :: ks, hr, hq => by
      rw [C06.qmatches_cons_cons] at hr
      rw [compatible_cons_cons] at hq ⊢
      simp only [Bool.and_eq_true, Bool.or_eq_true, beq_iff_eq] at hr hq ⊢
      refine ⟨?_, compatible_of_qmatches_cover q rs ks hr.2 hq.2⟩
      rcases hr.1 with h1 | h1
      · exact Or.inl (Or.inr h1)
      · subst h1
        rcases hq.1 with (h2 | h2) | h2
        · exact Or.inl (Or.inl h2)
        · exact Or.inl (Or.inr h2)
        · exact Or.inr h2

/-- two paths agree on every element they share, a wildcard on either side agreeing with anything -/
def Agree (q p : Path) : Prop :=
  ∀ (i : Nat) (h1 : i < q.length) (h2 : i < p.length), q[i] = glob ∨ p[i] = glob ∨ q[i] = p[i]

theorem compatible_iff_agree : ∀ (q p : Path), compatible q p = true ↔ Agree q p
  | [], p => by
      rw [compatible_nil_left]
      exact ⟨fun _ i h1 _ => absurd h1 (Nat.not_lt_zero _), fun _ => rfl⟩
  | _ :: _, [] => by
      rw [compatible_nil_right]
      exact ⟨fun _ i _ h2 => absurd h2 (Nat.not_lt_zero _), fun _ => rfl⟩
  | g :: q, e :: p => by
      rw [compatible_cons_cons]
      simp only [Bool.and_eq_true, Bool.or_eq_true, beq_iff_eq]
      rw [compatible_iff_agree q p]
      constructor
      · rintro ⟨h0, hr⟩ i h1 h2
        cases i with
        | zero =>
          rcases h0 with (h | h) | h
          · exact Or.inl h
          · exact Or.inr (Or.inl h)
          · exact Or.inr (Or.inr h)
        | succ i =>
          simpa using hr i (by simpa using h1) (by simpa using h2)
      · intro h
        constructor
        · rcases h 0 (by simp) (by simp) with h0 | h0 | h0
          · exact Or.inl (Or.inl h0)
          · exact Or.inl (Or.inr h0)
          · exact Or.inr h0
        · intro i h1 h2
          have := h (i + 1) (by simpa using h1) (by simpa using h2)
          simpa only [List.getElem_cons_succ] using this

/-! ## what `Cache.Query` and the walk return (no hypothesis on the cache) -/

/-- every element of a `Cache.Query(target, q)` answer is a leaf of a tree of the cache, its key
selected by `q`, its target the queried one (any, for `*`) -/
theorem query_mem_elim {c : Cache.State} {target : String} {q : Path}
    {found : List (String × Path × Cache.Noti)} (h : c.query target q = some found)
    {t : String} {k : Path} {n : Cache.Noti} (hm : (t, k, n) ∈ found) :
    (target = glob ∨ target = t) ∧ qmatches q k = true ∧
      ∃ tg, (t, tg) ∈ c.targets ∧ (k, n) ∈ tg.tree := by
  unfold Cache.State.query at h
  by_cases h0 : target = ""
  · simp [h0] at h
  · by_cases h1 : target = "*"
    · rw [if_neg h0, if_pos h1] at h
      simp only [Option.some.injEq] at h
      subst h
      simp only [List.mem_flatMap, List.mem_map] at hm
      obtain ⟨kv, hkv, e, he, heq⟩ := hm
      simp only [Prod.mk.injEq] at heq
      obtain ⟨rfl, rfl, rfl⟩ := heq
      have := List.mem_filter.1 he
      exact ⟨Or.inl h1, this.2, kv.2, hkv, this.1⟩
    · rw [if_neg h0, if_neg h1] at h
      cases hg : c.get target with
      | none => rw [hg] at h; cases h
      | some tg =>
        rw [hg] at h
        simp only [Option.some.injEq] at h
        subst h
        simp only [List.mem_map] at hm
        obtain ⟨e, he, heq⟩ := hm
        simp only [Prod.mk.injEq] at heq
        obtain ⟨rfl, rfl, rfl⟩ := heq
        have := List.mem_filter.1 he
        refine ⟨Or.inr rfl, this.2, tg, ?_, this.1⟩
        unfold Cache.State.get at hg
        cases hf : c.targets.find? (fun kv => kv.1 == target) with
        | none => rw [hf] at hg; cases hg
        | some kv =>
          rw [hf] at hg
          simp only [Option.map_some, Option.some.injEq] at hg
          have hm' := List.mem_of_find?_eq_some hf
          have hk := List.find?_some hf
          simp only [beq_iff_eq] at hk
          rw [← hk, ← hg]
          exact hm'

/-- **what the initial walk returns**: every item is a leaf of the cache selected by the
completed path of one of the subscriptions, in the requested target -/
theorem walked_spec {c : Cache.State} {r : Sub.Req} {items : List (String × Path × Cache.Noti)}
    (hw : Sub.walkItems c r = some items) {t : String} {k : Path} {n : Cache.Noti}
    (hm : (t, k, n) ∈ items) :
    r.updatesOnly = false ∧ ∃ sp ∈ r.subs, ∃ full, Sub.completePath r sp = some full ∧
      (r.target = glob ∨ r.target = t) ∧ qmatches full k = true ∧
      ∃ tg, (t, tg) ∈ c.targets ∧ (k, n) ∈ tg.tree := by
  cases huo : r.updatesOnly with
  | true =>
    unfold Sub.walkItems at hw
    simp only [huo, if_true, Option.some.injEq] at hw
    subst hw
    cases hm
  | false =>
    obtain ⟨sp, hsp, full, found, hcp, hq, hf⟩ := (C05.walkItems_mem c r items huo hw (t, k, n)).1 hm
    obtain ⟨h1, h2, h3⟩ := query_mem_elim hq hf
    exact ⟨rfl, sp, hsp, full, hcp, h1, h2, h3⟩

/-! ## the index path of an event vs the key of the leaf it concerns -/

/-- the path `UpdateNotification` matches for an update of a leaf notification is the target
followed by the leaf's key — followed, for an atomic notification (stored at its prefix), by the
update's own path -/
theorem eventPath_upd (n : Cache.Noti) (u : Cache.Upd) :
    Cache.subIndex n.target n.origin (n.pfx ++ u.path) =
      n.target :: (Cache.updKey n u ++ (if n.atomic then u.path else [])) := by
  unfold Cache.subIndex Cache.updKey Cache.joinKey
  cases n.atomic <;> simp

/-! ## the leaf notifications `Cache.GnmiUpdate` feeds carry no deletes (`EventOK`, second clause)

No hypothesis on the cache or on the notification: the leaf handed to the feed by
`Target.gnmiUpdate` is the notification `gnmiUpdate1` was called with, and the three arms of
`Target.dispatch` call it with a delete-free one. -/

open Cache in
theorem gnmiUpdate1_some_eq (cfg : Cfg) (now : Int) (t : Target) (n nd : Cache.Noti)
    (h : (Target.gnmiUpdate1 cfg now t n).2.2 = some nd) : nd = n := by
  unfold Target.gnmiUpdate1 at h
  split at h
  · cases h
  · split at h
    · cases h
    · cases h
    · split at h
      · cases h
      · unfold updateCore at h
        split at h
        · split at h
          · cases h
          · cases h
          · simp only at h
            split at h
            · cases h; rfl
            · split at h
              · cases h
              · split at h
                · cases h
                · cases h; rfl
        · split at h
          · cases h
          · cases h; rfl

/-- target and delete-freeness of an update event -/
def UpdShape (T : String) (nd : Cache.Noti) : Prop := nd.target = T ∧ nd.del = []

open Cache in
theorem multiUpdates_shape (cfg : Cfg) (now : Int) (hdr : Cache.Noti) :
    ∀ (us : List Upd) (acc : MultiAcc), (∀ nd, Event.upd nd ∈ acc.evs.flatten → UpdShape hdr.target nd) →
      ∀ nd, Event.upd nd ∈ (multiUpdates cfg now hdr us acc).evs.flatten → UpdShape hdr.target nd
  | [], acc, h => by simpa [multiUpdates] using h
  | u :: us, acc, h => by
    unfold multiUpdates
    split
    · exact h
    · simp only
      split
      · exact h
      · split
        · exact multiUpdates_shape cfg now hdr us _ h
        · split
          · rename_i nd0 hnd
            apply multiUpdates_shape cfg now hdr us _ _
            intro nd hmem
            have : (acc.evs ++ [[Event.upd nd0]]).flatten = acc.evs.flatten ++ [Event.upd nd0] := by simp
            rw [this] at hmem
            rcases List.mem_append.1 hmem with h1 | h1
            · exact h nd h1
            · simp only [List.mem_singleton, Event.upd.injEq] at h1
              subst h1
              rw [gnmiUpdate1_some_eq cfg now acc.t _ nd hnd]
              exact ⟨rfl, rfl⟩
          · exact multiUpdates_shape cfg now hdr us _ h

open Cache in
theorem multiDeletes_shape (T : String) (hdr : Cache.Noti) :
    ∀ (ds : List Del) (acc : MultiAcc), (∀ nd, Event.upd nd ∈ acc.evs.flatten → UpdShape T nd) →
      ∀ nd, Event.upd nd ∈ (multiDeletes hdr ds acc).evs.flatten → UpdShape T nd
  | [], acc, h => by simpa [multiDeletes] using h
  | d :: ds, acc, h => by
    unfold multiDeletes
    split
    · exact h
    · simp only
      split
      · exact h
      · apply multiDeletes_shape T hdr ds
        intro nd hmem
        split at hmem
        · exact h nd hmem
        · have : ∀ g : List Event, (acc.evs ++ [g]).flatten = acc.evs.flatten ++ g := by intro g; simp
          rw [this] at hmem
          rcases List.mem_append.1 hmem with h1 | h1
          · exact h nd h1
          · exact absurd h1 (C01S.remove1_no_upd _ _ nd)

open Cache in
theorem singleArm_shape (cfg : Cfg) (now : Int) (t : Target) (n : Cache.Noti) (cnt : Int) (hd : n.del = []) :
    ∀ nd, Event.upd nd ∈ (singleArm (Target.gnmiUpdate1 cfg now t n) cnt).2.2.1.flatten →
      UpdShape n.target nd := by
  intro nd hmem
  unfold singleArm at hmem
  split at hmem
  · simp at hmem
  · split at hmem
    · rename_i nd0 hnd
      simp only [List.flatten_cons, List.flatten_nil, List.append_nil, List.mem_singleton,
        Event.upd.injEq] at hmem
      subst hmem
      rw [gnmiUpdate1_some_eq cfg now t n nd hnd]
      exact ⟨rfl, hd⟩
    · simp at hmem

open Cache in
/-- every leaf `Target.GnmiUpdate(n)` hands to the feed is addressed to `n`'s target and carries
no deletes -/
theorem target_gnmiUpdate_shape (cfg : Cfg) (now : Int) (t : Target) (n : Cache.Noti) :
    ∀ nd, Event.upd nd ∈ (t.gnmiUpdate cfg now n).2.2.flatten → UpdShape n.target nd := by
  unfold Target.gnmiUpdate
  split
  · intro nd h; simp at h
  · simp only
    unfold Target.dispatch
    split
    · rename_i hat
      split
      · intro nd h; simp at h
      · rename_i hde
        split
        · intro nd h; simp at h
        · have hd : n.del = [] := by simpa using hde
          exact singleArm_shape cfg now t n _ hd
    · split
      · have ha := multiUpdates_shape cfg now { n with upd := [], del := [] } n.upd { t := t }
          (fun nd h => by simp at h)
        have hb := multiDeletes_shape n.target { n with upd := [], del := [] } n.del _ ha
        intro nd hmem
        simp only at hmem
        split at hmem <;> exact hb nd hmem
      · rename_i hlen
        split
        · rename_i h1
          have hd : n.del = [] := by
            apply List.eq_nil_of_length_eq_zero
            omega
          exact singleArm_shape cfg now t n _ hd
        · split
          · intro nd hmem
            simp only at hmem
            split at hmem
            · simp at hmem
            · split at hmem
              · simp at hmem
              · simp only [List.flatten_cons, List.flatten_nil, List.append_nil] at hmem
                exact absurd hmem (C01S.remove1_no_upd _ _ nd)
          · intro nd hmem
            simp at hmem

/-- `Cache.GnmiUpdate`: every update event it feeds satisfies `EventOK` (the notification must
name a target — it is rejected otherwise unless a target is literally named `""`) -/
theorem cache_gnmiUpdate_eventOK (s : Cache.State) (now : Int) (pn : Bool) (n : Cache.Noti)
    (ht : n.target ≠ "") :
    ∀ nd, Cache.Event.upd nd ∈ (s.gnmiUpdate now pn n).2.2.flatten → EventOK (.upd nd) := by
  intro nd hmem
  unfold Cache.State.gnmiUpdate at hmem
  split at hmem
  · simp at hmem
  · split at hmem
    · simp at hmem
    · obtain ⟨h1, h2⟩ := target_gnmiUpdate_shape _ _ _ _ nd hmem
      exact ⟨by rw [h1]; exact ht, h2⟩

end MatchSub
end Gnmi
