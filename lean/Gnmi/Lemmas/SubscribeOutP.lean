import Gnmi.Lemmas.SubscribeStream
import Gnmi.Props.C05
/-!
# Every update a subscriber is sent shows a notification of the cache

A general fact about the sequential Subscribe model (no hypothesis on the subscriber): if every
leaf of the cache and every update event of the feed satisfies `P`, so does every notification in
an update response — queued, held or sent.  (The pattern of `C07.never_sends_denied`.)  Used by the
C01 STREAM clause, where `P` says "a single decodable update".
-/
namespace Gnmi
namespace SubStream
open Cache Sub Feed

variable (P : Noti → Prop) (D : String → Prop)

/-- `P` for the notification of an update response, `D` for the target of a delete response -/
def respP : Resp → Prop
  | .upd n _ => P n
  | .del t _ _ _ _ => D t
  | .sync => True

def itemP : Item → Prop
  | .handle _ _ n => P n
  | .detached _ _ n => P n
  | .note (.upd n) => P n
  | .note (.del t _ _ _) => D t
  | .sync => True

structure OutP (s : Subscriber) : Prop where
  out : ∀ x ∈ s.out, respP P D x.1
  queue : ∀ x ∈ s.queue, itemP P D x.1
  blocked : ∀ r, s.blocked = some r → respP P D r

/-- every stored leaf satisfies `P` -/
def TreesP (c : Cache.State) : Prop := ∀ kv ∈ c.targets, ∀ e ∈ kv.2.tree, P e.2

/-- every event satisfies `P` -/
def EventsP (evs : List Event) : Prop :=
  (∀ n, Event.upd n ∈ evs → P n) ∧ (∀ t o p ts, Event.del t o p ts ∈ evs → D t)

variable {P D}

theorem respP_toResp {x : Item × Nat} (h : itemP P D x.1) : respP P D (toResp x) := by
  obtain ⟨it, d⟩ := x
  cases it with
  | handle t k n => exact h
  | detached t k n => exact h
  | note e =>
    cases e with
    | upd n => exact h
    | del t o p ts => exact h
  | sync => trivial

theorem pump_outP : ∀ (fuel : Nat) (s : Subscriber), OutP P D s → OutP P D (pump fuel s)
  | 0, _, h => h
  | fuel + 1, s, h => by
    unfold pump
    split
    · exact h
    · split
      · split
        · exact ⟨h.out, h.queue, h.blocked⟩
        · exact h
      · rename_i it rest hq
        simp only
        have hit : respP P D (toResp it) := respP_toResp (h.queue it (by rw [hq]; exact List.mem_cons_self ..))
        have hrest : ∀ x ∈ rest, itemP P D x.1 := fun x hx => h.queue x (by rw [hq]; exact List.mem_cons_of_mem _ hx)
        split
        · exact pump_outP fuel _ ⟨h.out, hrest, h.blocked⟩
        · have hout : ∀ x ∈ s.out ++ [(toResp it, s.gatedSinceDrain)], respP P D x.1 := by
            intro x hx
            rcases List.mem_append.1 hx with h1 | h1
            · exact h.out x h1
            · simp only [List.mem_singleton] at h1; rw [h1]; exact hit
          split
          · refine ⟨h.out, hrest, ?_⟩
            intro r hr
            simp only [Option.some.injEq] at hr
            rw [← hr]; exact hit
          · split
            · exact ⟨hout, hrest, h.blocked⟩
            · exact pump_outP fuel _ ⟨hout, hrest, h.blocked⟩

theorem pumpAll_outP (s : Subscriber) (h : OutP P D s) : OutP P D (pumpAll s) := pump_outP _ s h

theorem itemP_frz (e : Event) {x : Item × Nat} (h : itemP P D x.1) : itemP P D (frz e x).1 := by
  rcases frz_cases e x with ⟨ha, _⟩ | ⟨t, k, m, hx, _, ha⟩
  · rw [ha]; exact h
  · rw [ha]; rw [hx] at h; exact h

theorem enqueue_outP (s : Subscriber) (e : Event) (h : OutP P D s) (he : ∀ n, e = .upd n → P n)
    (hd : ∀ t o p ts, e = .del t o p ts → D t) :
    OutP P D (enqueueEvent { s with queue := freezeCovered e s.queue } e) := by
  have hq : ∀ x ∈ freezeCovered e s.queue, itemP P D x.1 := by
    intro x hx
    rw [freezeCovered_eq] at hx
    obtain ⟨y, hy, rfl⟩ := List.mem_map.1 hx
    exact itemP_frz e (h.queue y hy)
  unfold enqueueEvent
  split
  · exact ⟨h.out, hq, h.blocked⟩
  · cases e with
    | upd n =>
      refine ⟨h.out, ?_, h.blocked⟩
      intro x hx
      rcases mem_insertHandle hx with h1 | ⟨d, rfl⟩
      · exact hq x h1
      · exact he n rfl
    | del t o p ts =>
      refine ⟨h.out, ?_, h.blocked⟩
      intro x hx
      rcases List.mem_append.1 hx with h1 | h1
      · exact hq x h1
      · simp only [List.mem_singleton] at h1; rw [h1]; exact hd t o p ts rfl

theorem enqueueAll_outP : ∀ (evs : List Event) (s : Subscriber), OutP P D s → EventsP P D evs →
    OutP P D (evs.foldl (fun s e => enqueueEvent { s with queue := freezeCovered e s.queue } e) s)
  | [], _, h, _ => h
  | e :: evs, s, h, he => by
    simp only [List.foldl_cons]
    apply enqueueAll_outP evs _ (enqueue_outP s e h
      (fun n hn => he.1 n (by rw [hn]; exact List.mem_cons_self ..))
      (fun t o p ts hn => he.2 t o p ts (by rw [hn]; exact List.mem_cons_self ..)))
    exact ⟨fun n hn => he.1 n (List.mem_cons_of_mem _ hn),
      fun t o p ts hn => he.2 t o p ts (List.mem_cons_of_mem _ hn)⟩

theorem get_mem_targets {c : Cache.State} {name : String} {t : Target} (h : c.get name = some t) :
    ∃ kv ∈ c.targets, kv.2 = t := by
  unfold State.get at h
  simp only [Option.map_eq_some_iff] at h
  obtain ⟨kv, hf, rfl⟩ := h
  exact ⟨kv, List.mem_of_find?_eq_some hf, rfl⟩

theorem refresh_outP (c : Cache.State) (hc : TreesP P c) : ∀ (q : List (Item × Nat)),
    (∀ x ∈ q, itemP P D x.1) → ∀ x ∈ refreshQueue c q, itemP P D x.1
  | [], _ => fun x hx => by cases hx
  | (it, d) :: rest, h => by
    intro x hx
    have ih := refresh_outP c hc rest (fun y hy => h y (List.mem_cons_of_mem _ hy))
    have hit := h (it, d) (List.mem_cons_self ..)
    cases it with
    | handle t k last =>
      simp only [refreshQueue] at hx
      rcases List.mem_cons.1 hx with rfl | hx'
      · simp only
        split
        · exact hit
        · split
          · rename_i n hn
            obtain ⟨tg, hg, hl⟩ := Option.bind_eq_some_iff.1 hn
            obtain ⟨kv, hkv, rfl⟩ := get_mem_targets hg
            exact hc kv hkv _ (mem_of_lookup_some hl)
          · exact hit
      · exact ih x hx'
    | detached t k m =>
      simp only [refreshQueue] at hx
      rcases List.mem_cons.1 hx with rfl | hx'
      · exact hit
      · exact ih x hx'
    | note e =>
      simp only [refreshQueue] at hx
      rcases List.mem_cons.1 hx with rfl | hx'
      · exact hit
      · exact ih x hx'
    | sync =>
      simp only [refreshQueue] at hx
      rcases List.mem_cons.1 hx with rfl | hx'
      · exact hit
      · exact ih x hx'

theorem feed_outP (st : Sub.State) (evs : List Event) (hc : TreesP P st.cache) (he : EventsP P D evs)
    (h : ∀ s ∈ st.subs, OutP P D s) : ∀ s ∈ (feed st evs).subs, OutP P D s := by
  intro s hs
  unfold feed at hs
  obtain ⟨x, hx, rfl⟩ := List.mem_map.1 hs
  apply pumpAll_outP
  have h1 := enqueueAll_outP evs x (h x hx) he
  exact ⟨h1.out, refresh_outP st.cache hc _ h1.queue, h1.blocked⟩

/-! ### the walk -/

theorem query_treesP {c : Cache.State} (hc : TreesP P c) {target : String} {q : Path}
    {found : List (String × Path × Noti)} (h : c.query target q = some found) : ∀ it ∈ found, P it.2.2 := by
  unfold State.query at h
  split at h
  · cases h
  · split at h
    · simp only [Option.some.injEq] at h
      subst h
      intro it hit
      obtain ⟨kv, hkv, hin⟩ := List.mem_flatMap.1 hit
      obtain ⟨e, he, rfl⟩ := List.mem_map.1 hin
      exact hc kv hkv e (List.mem_filter.1 he).1
    · cases hg : c.get target with
      | none => rw [hg] at h; cases h
      | some t =>
        rw [hg] at h
        simp only [Option.some.injEq] at h
        subst h
        intro it hit
        obtain ⟨e, he, rfl⟩ := List.mem_map.1 hit
        obtain ⟨kv, hkv, rfl⟩ := get_mem_targets hg
        exact hc kv hkv e (List.mem_filter.1 he).1

theorem insertSync_itemP {q : List (Item × Nat)} (h : ∀ x ∈ q, itemP P D x.1) : ∀ x ∈ insertSync q, itemP P D x.1 := by
  intro x hx
  unfold insertSync at hx
  split at hx
  · obtain ⟨y, hy, rfl⟩ := List.mem_map.1 hx
    split
    · rename_i hs
      have : y.1 = Item.sync := by simpa using hs
      rw [this]; trivial
    · exact h y hy
  · rcases List.mem_append.1 hx with h1 | h1
    · exact h x h1
    · simp only [List.mem_singleton] at h1; rw [h1]; trivial

theorem doWalk_outP (c : Cache.State) (hc : TreesP P c) (s : Subscriber) (h : OutP P D s) : OutP P D (doWalk c s) := by
  unfold doWalk
  cases hw : walkItems c s.req with
  | none => exact ⟨h.out, h.queue, h.blocked⟩
  | some items =>
    simp only
    refine ⟨h.out, ?_, h.blocked⟩
    apply insertSync_itemP
    have hitems : ∀ it ∈ items, P it.2.2 := by
      by_cases huo : s.req.updatesOnly = true
      · unfold walkItems at hw
        simp only [huo, if_true, Option.some.injEq] at hw
        subst hw
        intro it hit; cases hit
      · have huo' : s.req.updatesOnly = false := by simpa using huo
        intro it hit
        obtain ⟨sp, _, full, found, _, hq, hin⟩ := (C05.walkItems_mem c s.req items huo' hw it).1 hit
        exact query_treesP hc hq it hin
    suffices ∀ (l : List (String × Path × Noti)) (q : List (Item × Nat)), (∀ it ∈ l, P it.2.2) →
        (∀ x ∈ q, itemP P D x.1) →
        ∀ x ∈ l.foldl (fun q it => insertHandle q it.1 it.2.1 it.2.2) q, itemP P D x.1 from
      this items s.queue hitems h.queue
    intro l
    induction l with
    | nil => intro q _ hq; exact hq
    | cons it l ih =>
      intro q hl hq
      simp only [List.foldl_cons]
      apply ih _ (fun y hy => hl y (List.mem_cons_of_mem _ hy))
      intro x hx
      rcases mem_insertHandle hx with h1 | ⟨d, rfl⟩
      · exact hq x h1
      · exact hl it (List.mem_cons_self ..)

theorem fresh_outP (g : Bool) (id : String) (r : Req) (a : Acl) : OutP P D (newSubscriber g id r a) :=
  ⟨by simp [newSubscriber], by simp [newSubscriber], by simp [newSubscriber]⟩

theorem subscribe_outP (st : Sub.State) (id : String) (a : Acl) (req : Option Req) (hc : TreesP P st.cache)
    (h : ∀ s ∈ st.subs, OutP P D s) : ∀ s ∈ (subscribe st id a req).subs, OutP P D s := by
  have ended : ∀ c : Code, ∀ s ∈ st.subs ++
      [({ id := id, req := {}, acl := a, alive := false, status := some c } : Subscriber)], OutP P D s := by
    intro c s hs
    rcases List.mem_append.1 hs with h1 | h1
    · exact h s h1
    · simp only [List.mem_singleton] at h1; rw [h1]; exact ⟨by simp, by simp, by simp⟩
  have added : ∀ s : Subscriber, OutP P D s → ∀ x ∈ st.subs ++ [s], OutP P D x := by
    intro s hs x hx
    rcases List.mem_append.1 hx with h1 | h1
    · exact h x h1
    · simp only [List.mem_singleton] at h1; rw [h1]; exact hs
  unfold subscribe
  split
  · exact ended _
  · split
    · exact ended _
    · rename_i r
      simp only
      split
      · exact ended _
      · split
        · exact ended _
        · split
          · exact ended _
          · split
            · exact ended _
            · split
              · exact ended _
              · split
                · apply added
                  apply pumpAll_outP
                  have := doWalk_outP st.cache hc _ (fresh_outP (P := P) (D := D) (st.pregated.contains id) id r a)
                  split <;> first | exact ⟨this.out, this.queue, this.blocked⟩ | exact this
                · apply added
                  exact pumpAll_outP _ (doWalk_outP _ hc _ (fresh_outP _ id r a))
                · apply added
                  apply pumpAll_outP
                  have h0 : OutP P D (if r.updatesOnly = true then
                      { newSubscriber (st.pregated.contains id) id r a with
                        queue := insertSync (newSubscriber (st.pregated.contains id) id r a).queue }
                      else newSubscriber (st.pregated.contains id) id r a) := by
                    split
                    · refine ⟨(fresh_outP (P := P) (D := D) (st.pregated.contains id) id r a).out, ?_,
                        (fresh_outP (P := P) (D := D) (st.pregated.contains id) id r a).blocked⟩
                      exact insertSync_itemP (fresh_outP (P := P) (D := D) (st.pregated.contains id) id r a).queue
                    · exact fresh_outP (st.pregated.contains id) id r a
                  generalize (if r.updatesOnly = true then
                      { newSubscriber (st.pregated.contains id) id r a with
                        queue := insertSync (newSubscriber (st.pregated.contains id) id r a).queue }
                      else newSubscriber (st.pregated.contains id) id r a) = s0 at h0
                  have h1 : OutP P D { s0 with regs := regQueries r } := ⟨h0.out, h0.queue, h0.blocked⟩
                  split
                  · exact h1
                  · exact doWalk_outP _ hc _ h1
                · exact ended _

end SubStream
end Gnmi
