import Gnmi.Model.Latency
import Gnmi.Spec.Latency
/-!
Helper lemmas for `Props/C15Latency.lean`: the running statistics of `Compute` as folds over the
sample list, the slot/window bookkeeping invariant (`WInv`, `LInv`) relating a `Latency` to the
digested history, and the arithmetic of the truncated average.
-/
namespace Gnmi.Latency

/-! ## Folds over a sample list: what `Compute` accumulates -/

/-- the running `max` of `Compute` (starts at `0`) -/
def runMax (S : List Int) : Int := S.foldl (fun m x => if x > m then x else m) 0

/-- the running `min` of `Compute` (starts at `0`; overwritten whenever it is `0`) -/
def runMin (S : List Int) : Int := S.foldl (fun m x => if x < m ∨ m = 0 then x else m) 0

/-- the running `totalDiff` of `Compute`: every sample divided (truncating) by the scale factor -/
def sumTr (sf : Int) (S : List Int) : Int := (S.map (fun x => Int.tdiv x sf)).sum

theorem runMax_snoc (S : List Int) (x : Int) :
    runMax (S ++ [x]) = if x > runMax S then x else runMax S := by
  unfold runMax; rw [List.foldl_append]; rfl

theorem runMin_snoc (S : List Int) (x : Int) :
    runMin (S ++ [x]) = if x < runMin S ∨ runMin S = 0 then x else runMin S := by
  unfold runMin; rw [List.foldl_append]; rfl

theorem sumTr_snoc (sf : Int) (S : List Int) (x : Int) :
    sumTr sf (S ++ [x]) = sumTr sf S + Int.tdiv x sf := by
  simp [sumTr, List.sum_append]

theorem sumTr_append (sf : Int) (A B : List Int) : sumTr sf (A ++ B) = sumTr sf A + sumTr sf B := by
  simp [sumTr, List.sum_append]

/-- generic "keep the larger" fold -/
theorem foldl_max_spec {α : Type} (g : α → Int) (l : List α) (m0 : Int) :
    let r := l.foldl (fun m s => if g s > m then g s else m) m0
    m0 ≤ r ∧ (∀ s ∈ l, g s ≤ r) ∧ (r = m0 ∨ ∃ s ∈ l, r = g s) := by
  induction l generalizing m0 with
  | nil => simp
  | cons a l ih =>
    simp only [List.foldl_cons]
    by_cases hc : g a > m0
    · simp only [hc, if_true]
      obtain ⟨h1, h2, h3⟩ := ih (g a)
      refine ⟨by omega, ?_, ?_⟩
      · intro s hs
        rcases List.mem_cons.1 hs with rfl | hs
        · exact h1
        · exact h2 s hs
      · rcases h3 with h3 | ⟨s, hs, h3⟩
        · exact Or.inr ⟨a, List.mem_cons_self, h3⟩
        · exact Or.inr ⟨s, List.mem_cons_of_mem _ hs, h3⟩
    · simp only [hc, if_false]
      obtain ⟨h1, h2, h3⟩ := ih m0
      refine ⟨h1, ?_, ?_⟩
      · intro s hs
        rcases List.mem_cons.1 hs with rfl | hs
        · omega
        · exact h2 s hs
      · rcases h3 with h3 | ⟨s, hs, h3⟩
        · exact Or.inl h3
        · exact Or.inr ⟨s, List.mem_cons_of_mem _ hs, h3⟩

/-- generic "keep the smaller" fold -/
theorem foldl_min_spec {α : Type} (g : α → Int) (l : List α) (m0 : Int) :
    let r := l.foldl (fun m s => if g s < m then g s else m) m0
    r ≤ m0 ∧ (∀ s ∈ l, r ≤ g s) ∧ (r = m0 ∨ ∃ s ∈ l, r = g s) := by
  induction l generalizing m0 with
  | nil => simp
  | cons a l ih =>
    simp only [List.foldl_cons]
    by_cases hc : g a < m0
    · simp only [hc, if_true]
      obtain ⟨h1, h2, h3⟩ := ih (g a)
      refine ⟨by omega, ?_, ?_⟩
      · intro s hs
        rcases List.mem_cons.1 hs with rfl | hs
        · exact h1
        · exact h2 s hs
      · rcases h3 with h3 | ⟨s, hs, h3⟩
        · exact Or.inr ⟨a, List.mem_cons_self, h3⟩
        · exact Or.inr ⟨s, List.mem_cons_of_mem _ hs, h3⟩
    · simp only [hc, if_false]
      obtain ⟨h1, h2, h3⟩ := ih m0
      refine ⟨h1, ?_, ?_⟩
      · intro s hs
        rcases List.mem_cons.1 hs with rfl | hs
        · omega
        · exact h2 s hs
      · rcases h3 with h3 | ⟨s, hs, h3⟩
        · exact Or.inl h3
        · exact Or.inr ⟨s, List.mem_cons_of_mem _ hs, h3⟩

theorem runMax_spec (S : List Int) :
    0 ≤ runMax S ∧ (∀ x ∈ S, x ≤ runMax S) ∧ (runMax S = 0 ∨ runMax S ∈ S) := by
  have h := foldl_max_spec (fun x : Int => x) S 0
  simp only [] at h
  obtain ⟨h1, h2, h3⟩ := h
  refine ⟨h1, h2, ?_⟩
  rcases h3 with h3 | ⟨s, hs, h3⟩
  · exact Or.inl h3
  · exact Or.inr (by unfold runMax; rw [h3]; exact hs)

/-- the running minimum from an arbitrary start value: it is the start value or a sample -/
theorem foldl_runMin_mem (S : List Int) (m0 : Int) :
    let r := S.foldl (fun m x => if x < m ∨ m = 0 then x else m) m0
    (r = m0 ∨ r ∈ S) := by
  induction S generalizing m0 with
  | nil => simp
  | cons a l ih =>
    simp only [List.foldl_cons]
    by_cases hc : a < m0 ∨ m0 = 0
    · simp only [hc, if_true]
      rcases ih a with h | h
      · exact Or.inr (by rw [h]; exact List.mem_cons_self)
      · exact Or.inr (List.mem_cons_of_mem _ h)
    · simp only [hc, if_false]
      rcases ih m0 with h | h
      · exact Or.inl h
      · exact Or.inr (List.mem_cons_of_mem _ h)

/-- after at least one sample the running minimum is one of the samples -/
theorem runMin_mem {S : List Int} (h : S ≠ []) : runMin S ∈ S := by
  cases S with
  | nil => exact absurd rfl h
  | cons a l =>
    unfold runMin
    simp only [List.foldl_cons, or_true, if_true]
    rcases foldl_runMin_mem l a with h | h
    · rw [h]; exact List.mem_cons_self
    · exact List.mem_cons_of_mem _ h

/-- without a sample equal to `0`, a non-zero running minimum stays the true minimum -/
theorem foldl_runMin_exact (S : List Int) (m0 : Int) (h0 : m0 ≠ 0) (hS : ∀ x ∈ S, x ≠ 0) :
    let r := S.foldl (fun m x => if x < m ∨ m = 0 then x else m) m0
    r ≤ m0 ∧ (∀ x ∈ S, r ≤ x) := by
  induction S generalizing m0 with
  | nil => simp
  | cons a l ih =>
    simp only [List.foldl_cons]
    have ha : a ≠ 0 := hS a List.mem_cons_self
    have hl : ∀ x ∈ l, x ≠ 0 := fun x hx => hS x (List.mem_cons_of_mem _ hx)
    by_cases hc : a < m0
    · simp only [hc, true_or, if_true]
      obtain ⟨h1, h2⟩ := ih a ha hl
      refine ⟨by omega, ?_⟩
      intro x hx
      rcases List.mem_cons.1 hx with rfl | hx
      · exact h1
      · exact h2 x hx
    · have : ¬ (a < m0 ∨ m0 = 0) := by simp [hc, h0]
      simp only [this, if_false]
      obtain ⟨h1, h2⟩ := ih m0 h0 hl
      refine ⟨h1, ?_⟩
      intro x hx
      rcases List.mem_cons.1 hx with rfl | hx
      · omega
      · exact h2 x hx

theorem runMin_exact {S : List Int} (hS : ∀ x ∈ S, x ≠ 0) : ∀ x ∈ S, runMin S ≤ x := by
  cases S with
  | nil => simp
  | cons a l =>
    unfold runMin
    simp only [List.foldl_cons, or_true, if_true]
    have ha : a ≠ 0 := hS a List.mem_cons_self
    have hl : ∀ x ∈ l, x ≠ 0 := fun x hx => hS x (List.mem_cons_of_mem _ hx)
    obtain ⟨h1, h2⟩ := foldl_runMin_exact l a ha hl
    intro x hx
    rcases List.mem_cons.1 hx with rfl | hx
    · exact h1
    · exact h2 x hx

/-! ## `lmin` / `lmax` -/

theorem lmax_spec {S : List Int} (h : S ≠ []) : lmax S ∈ S ∧ ∀ x ∈ S, x ≤ lmax S := by
  cases S with
  | nil => exact absurd rfl h
  | cons a l =>
    have hh := foldl_max_spec (fun x : Int => x) l a
    simp only [] at hh
    obtain ⟨h1, h2, h3⟩ := hh
    refine ⟨?_, ?_⟩
    · rcases h3 with h3 | ⟨s, hs, h3⟩
      · simp only [lmax]; rw [h3]; exact List.mem_cons_self
      · simp only [lmax]; rw [h3]; exact List.mem_cons_of_mem _ hs
    · intro x hx
      rcases List.mem_cons.1 hx with rfl | hx
      · exact h1
      · exact h2 x hx

theorem lmin_spec {S : List Int} (h : S ≠ []) : lmin S ∈ S ∧ ∀ x ∈ S, lmin S ≤ x := by
  cases S with
  | nil => exact absurd rfl h
  | cons a l =>
    have hh := foldl_min_spec (fun x : Int => x) l a
    simp only [] at hh
    obtain ⟨h1, h2, h3⟩ := hh
    refine ⟨?_, ?_⟩
    · rcases h3 with h3 | ⟨s, hs, h3⟩
      · simp only [lmin]; rw [h3]; exact List.mem_cons_self
      · simp only [lmin]; rw [h3]; exact List.mem_cons_of_mem _ hs
    · intro x hx
      rcases List.mem_cons.1 hx with rfl | hx
      · exact h1
      · exact h2 x hx

theorem lmax_eq_of {S : List Int} {v : Int} (hv : v ∈ S) (hub : ∀ x ∈ S, x ≤ v) : v = lmax S := by
  have hne : S ≠ [] := List.ne_nil_of_mem hv
  obtain ⟨h1, h2⟩ := lmax_spec hne
  have := hub _ h1
  have := h2 _ hv
  omega

theorem lmin_eq_of {S : List Int} {v : Int} (hv : v ∈ S) (hlb : ∀ x ∈ S, v ≤ x) : v = lmin S := by
  have hne : S ≠ [] := List.ne_nil_of_mem hv
  obtain ⟨h1, h2⟩ := lmin_spec hne
  have := hlb _ h1
  have := h2 _ hv
  omega

theorem lmin_le_lmax {S : List Int} (h : S ≠ []) : lmin S ≤ lmax S :=
  (lmax_spec h).2 _ (lmin_spec h).1

/-! ## Arithmetic of the truncated average -/

/-- bounds of a sum of truncated samples -/
theorem sumTr_bounds (sf : Int) (hsf : 0 < sf) (S : List Int) (lo hi : Int)
    (hlo : ∀ x ∈ S, lo ≤ x) (hhi : ∀ x ∈ S, x ≤ hi) :
    Int.tdiv lo sf * S.length ≤ sumTr sf S ∧ sumTr sf S ≤ Int.tdiv hi sf * S.length := by
  induction S with
  | nil => simp [sumTr]
  | cons a l ih =>
    have h1 := ih (fun x hx => hlo x (List.mem_cons_of_mem _ hx)) (fun x hx => hhi x (List.mem_cons_of_mem _ hx))
    have ha1 : Int.tdiv lo sf ≤ Int.tdiv a sf := Int.tdiv_le_tdiv hsf (hlo a List.mem_cons_self)
    have ha2 : Int.tdiv a sf ≤ Int.tdiv hi sf := Int.tdiv_le_tdiv hsf (hhi a List.mem_cons_self)
    have e : sumTr sf (a :: l) = Int.tdiv a sf + sumTr sf l := by simp [sumTr]
    rw [e]
    simp only [List.length_cons, Int.natCast_add, Int.mul_add]
    omega

/-- the exported average `(total / count) * sf` lies between the smallest and the largest sample,
each rounded towards zero to a multiple of `sf` -/
theorem avg_bounds (sf : Int) (hsf : 0 < sf) (S : List Int) (hS : S ≠ []) :
    trunc sf (lmin S) ≤ Int.tdiv (sumTr sf S) S.length * sf ∧
    Int.tdiv (sumTr sf S) S.length * sf ≤ trunc sf (lmax S) := by
  have hn : (0 : Int) < S.length := by
    cases S with
    | nil => exact absurd rfl hS
    | cons a l => simp only [List.length_cons]; omega
  obtain ⟨b1, b2⟩ := sumTr_bounds sf hsf S (lmin S) (lmax S) (lmin_spec hS).2 (lmax_spec hS).2
  have c1 : Int.tdiv (lmin S) sf ≤ Int.tdiv (sumTr sf S) S.length := by
    have := Int.tdiv_le_tdiv hn b1
    rwa [Int.mul_tdiv_cancel _ (by omega)] at this
  have c2 : Int.tdiv (sumTr sf S) S.length ≤ Int.tdiv (lmax S) sf := by
    have := Int.tdiv_le_tdiv hn b2
    rwa [Int.mul_tdiv_cancel _ (by omega)] at this
  exact ⟨Int.mul_le_mul_of_nonneg_right c1 (by omega), Int.mul_le_mul_of_nonneg_right c2 (by omega)⟩

/-- truncation towards zero moves a value by less than the precision, towards zero -/
theorem trunc_bounds (sf : Int) (hsf : 0 < sf) (x : Int) :
    x - sf < trunc sf x ∧ trunc sf x < x + sf ∧ (0 ≤ x → trunc sf x ≤ x) ∧ (x ≤ 0 → x ≤ trunc sf x) := by
  unfold trunc
  have h1 := Int.tdiv_mul_add_tmod x sf
  have h2 := Int.tmod_lt_of_pos x hsf
  have h3 := Int.lt_tmod_of_pos x hsf
  refine ⟨by omega, by omega, ?_, ?_⟩
  · intro hx
    have := Int.tmod_nonneg sf hx
    omega
  · intro hx
    have : 0 ≤ Int.tmod (-x) sf := Int.tmod_nonneg sf (by omega)
    rw [Int.neg_tmod] at this
    omega

theorem trunc_one (x : Int) : trunc 1 x = x := by simp [trunc]

/-! ## Slots and windows against the history -/

/-- a model slot is the digest of a closed batch of the history -/
structure SlotRel (sf : Int) (s : Slot) (hs : HSlot) : Prop where
  stop : s.stop = hs.stop
  ne : hs.samples ≠ []
  count : s.count = hs.samples.length
  total : s.total = sumTr sf hs.samples
  max : s.max = runMax hs.samples
  min : s.min = runMin hs.samples

def sumCount (l : List Slot) : Int := (l.map (·.count)).sum
def sumTotal (l : List Slot) : Int := (l.map (·.total)).sum

@[simp] theorem sumCount_nil : sumCount [] = 0 := rfl
@[simp] theorem sumTotal_nil : sumTotal [] = 0 := rfl
@[simp] theorem sumCount_cons (a : Slot) (l : List Slot) : sumCount (a :: l) = a.count + sumCount l := rfl
@[simp] theorem sumTotal_cons (a : Slot) (l : List Slot) : sumTotal (a :: l) = a.total + sumTotal l := rfl
theorem sumCount_append (a b : List Slot) : sumCount (a ++ b) = sumCount a + sumCount b := by
  simp [sumCount, List.sum_append]
theorem sumTotal_append (a b : List Slot) : sumTotal (a ++ b) = sumTotal a + sumTotal b := by
  simp [sumTotal, List.sum_append]

/-- the slide loop, in closed form: it subtracts the expired slots and counts them -/
theorem slideLoop_eq (cutoff : Int) (l : List Slot) (c t : Int) (k : Nat) :
    slideLoop cutoff l c t k =
      (c - sumCount (l.filter (fun s => decide (s.stop ≤ cutoff))),
       t - sumTotal (l.filter (fun s => decide (s.stop ≤ cutoff))),
       k + (l.filter (fun s => decide (s.stop ≤ cutoff))).length) := by
  induction l generalizing c t k with
  | nil => simp [slideLoop]
  | cons a l ih =>
    by_cases h : a.stop ≤ cutoff
    · simp only [slideLoop, h, if_true, ih, List.filter_cons, decide_true, sumCount_cons,
        sumTotal_cons, List.length_cons]
      refine Prod.ext (by simp only []; omega) (Prod.ext (by simp only []; omega) (by simp only []; omega))
    · simp only [slideLoop, h, if_false, ih, List.filter_cons, decide_false]
      rfl

/-- `w.slots[start:]` never panics -/
theorem slideLoop_le (cutoff : Int) (l : List Slot) (c t : Int) :
    (slideLoop cutoff l c t 0).2.2 ≤ l.length := by
  rw [slideLoop_eq]; simp only [Nat.zero_add]; exact List.length_filter_le _ _

/-- in a list sorted by `key`, the elements with `key ≤ c` form a prefix -/
theorem sorted_split {α : Type} (key : α → Int) (c : Int) (l : List α)
    (h : l.Pairwise (fun a b => key a ≤ key b)) :
    l = l.filter (fun a => decide (key a ≤ c)) ++ l.filter (fun a => !decide (key a ≤ c)) := by
  induction l with
  | nil => simp
  | cons a l ih =>
    rw [List.pairwise_cons] at h
    by_cases hc : key a ≤ c
    · simp only [List.filter_cons, hc, decide_true, if_true, Bool.not_true, Bool.false_eq_true,
        if_false, List.cons_append]
      exact congrArg _ (ih h.2)
    · have h1 : l.filter (fun a => decide (key a ≤ c)) = [] := by
        rw [List.filter_eq_nil_iff]
        intro b hb
        have := h.1 b hb
        simp only [decide_eq_true_eq]; omega
      have h2 : l.filter (fun a => !decide (key a ≤ c)) = l := by
        rw [List.filter_eq_self]
        intro b hb
        have := h.1 b hb
        simp only [Bool.not_eq_eq_eq_not, Bool.not_true, decide_eq_false_iff_not]; omega
      simp only [List.filter_cons, hc, decide_false, Bool.false_eq_true, if_false, Bool.not_false,
        if_true, h1, h2, List.nil_append]

theorem sumCount_filter (p : Slot → Bool) (l : List Slot) :
    sumCount l = sumCount (l.filter p) + sumCount (l.filter (fun s => !p s)) := by
  induction l with
  | nil => simp
  | cons a l ih =>
    cases hp : p a <;> simp [hp, ih] <;> omega

theorem sumTotal_filter (p : Slot → Bool) (l : List Slot) :
    sumTotal l = sumTotal (l.filter p) + sumTotal (l.filter (fun s => !p s)) := by
  induction l with
  | nil => simp
  | cons a l ih =>
    cases hp : p a <;> simp [hp, ih] <;> omega

/-- `slide` on a window whose slots are sorted by closing time and whose `count`/`total` add up:
exactly the expired slots go, and `count`/`total` still add up. -/
theorem slide_sorted (w : Window) (ts : Int)
    (hs : w.slots.Pairwise (fun a b => a.stop ≤ b.stop))
    (hc : w.count = sumCount w.slots) (ht : w.total = sumTotal w.slots) :
    (w.slide ts).slots = w.slots.filter (fun s => !decide (s.stop ≤ ts - w.size)) ∧
    (w.slide ts).count = sumCount (w.slide ts).slots ∧
    (w.slide ts).total = sumTotal (w.slide ts).slots ∧
    (w.slide ts).sf = w.sf ∧ (w.slide ts).size = w.size := by
  have hsplit := sorted_split (fun s : Slot => s.stop) (ts - w.size) w.slots hs
  have hdrop : w.slots.drop (w.slots.filter (fun s => decide (s.stop ≤ ts - w.size))).length
      = w.slots.filter (fun s => !decide (s.stop ≤ ts - w.size)) := by
    conv => lhs; arg 2; rw [hsplit]
    exact List.drop_left
  have e1 : (w.slide ts).slots = w.slots.filter (fun s => !decide (s.stop ≤ ts - w.size)) := by
    simp only [Window.slide, slideLoop_eq, Nat.zero_add]; exact hdrop
  refine ⟨e1, ?_, ?_, rfl, rfl⟩
  · rw [e1]
    simp only [Window.slide, slideLoop_eq]
    have := sumCount_filter (fun s => decide (s.stop ≤ ts - w.size)) w.slots
    omega
  · rw [e1]
    simp only [Window.slide, slideLoop_eq]
    have := sumTotal_filter (fun s => decide (s.stop ≤ ts - w.size)) w.slots
    omega

/-- the bookkeeping invariant of one window against the closed batches `C` of the history;
`T` is the clock reading of the latest update (a lower bound for all later ones):
the window's slots are the digests of a suffix of `C`, every batch before that suffix had already
left the window at `T`, and `count`/`total` are the sums over the slots. -/
structure WInv (sf : Int) (w : Window) (C : List HSlot) (T : Int) : Prop where
  sf_eq : w.sf = sf
  count : w.count = sumCount w.slots
  total : w.total = sumTotal w.slots
  rel : ∃ (D : List HSlot) (P : List (Slot × HSlot)),
    C = D ++ P.map (·.2) ∧ w.slots = P.map (·.1) ∧ (∀ p ∈ P, SlotRel sf p.1 p.2) ∧
    ∀ hs ∈ D, hs.stop ≤ T - w.size

theorem WInv.mono {sf : Int} {w : Window} {C : List HSlot} {T T' : Int}
    (h : WInv sf w C T) (hT : T ≤ T') : WInv sf w C T' := by
  obtain ⟨a, b, c, D, P, h1, h2, h3, h4⟩ := h
  exact ⟨a, b, c, D, P, h1, h2, h3, fun hs hh => by have := h4 hs hh; omega⟩

theorem WInv.add {sf : Int} {w : Window} {C : List HSlot} {T : Int} (h : WInv sf w C T)
    {s : Slot} {hs : HSlot} (hr : SlotRel sf s hs) :
    WInv sf (w.add s) (C ++ [hs]) T := by
  obtain ⟨a, b, c, D, P, h1, h2, h3, h4⟩ := h
  have hne : s.count ≠ 0 := by
    rw [hr.count]
    have := hr.ne
    cases hq : hs.samples with
    | nil => exact absurd hq this
    | cons x l => simp only [List.length_cons]; omega
  simp only [Window.add, hne, if_false]
  refine ⟨a, ?_, ?_, D, P ++ [(s, hs)], ?_, ?_, ?_, h4⟩
  · simp only [sumCount_append, sumCount_cons, sumCount_nil]; omega
  · simp only [sumTotal_append, sumTotal_cons, sumTotal_nil]; omega
  · simp [h1]
  · simp [h2]
  · intro p hp
    rcases List.mem_append.1 hp with hp | hp
    · exact h3 p hp
    · simp only [List.mem_singleton] at hp; subst hp; exact hr

theorem WInv.isCovered {sf : Int} {w : Window} {C : List HSlot} {T : Int} (h : WInv sf w C T)
    (ts : Int) : WInv sf (w.isCovered ts).1 C T ∧ (w.isCovered ts).1.size = w.size := by
  unfold Window.isCovered
  split
  · exact ⟨h, rfl⟩
  · split
    · exact ⟨h, rfl⟩
    · split
      · exact ⟨⟨h.sf_eq, h.count, h.total, h.rel⟩, rfl⟩
      · exact ⟨h, rfl⟩

theorem pairwise_stop_of_rel {sf : Int} (P : List (Slot × HSlot))
    (h3 : ∀ p ∈ P, SlotRel sf p.1 p.2)
    (hs : (P.map (·.2)).Pairwise (fun a b => a.stop ≤ b.stop)) :
    (P.map (·.1)).Pairwise (fun a b => a.stop ≤ b.stop) := by
  induction P with
  | nil => simp
  | cons p P ih =>
    simp only [List.map_cons, List.pairwise_cons] at hs ⊢
    refine ⟨?_, ih (fun q hq => h3 q (List.mem_cons_of_mem _ hq)) hs.2⟩
    intro a ha
    obtain ⟨q, hq, rfl⟩ := List.mem_map.1 ha
    have := hs.1 q.2 (List.mem_map.2 ⟨q, hq, rfl⟩)
    rw [(h3 p List.mem_cons_self).stop, (h3 q (List.mem_cons_of_mem _ hq)).stop]
    exact this

/-- what a window looks like right after `slide ts`: its slots are exactly the digests of the
closed batches with `ts − size < stop` -/
structure WSlid (sf : Int) (w : Window) (C : List HSlot) (ts : Int) : Prop where
  sf_eq : w.sf = sf
  count : w.count = sumCount w.slots
  total : w.total = sumTotal w.slots
  rel : ∃ (P : List (Slot × HSlot)),
    C.filter (fun hs => decide (ts - w.size < hs.stop)) = P.map (·.2) ∧
    w.slots = P.map (·.1) ∧ (∀ p ∈ P, SlotRel sf p.1 p.2)

theorem WInv.slide {sf : Int} {w : Window} {C : List HSlot} {T ts : Int} (h : WInv sf w C T)
    (hT : T ≤ ts) (hC : C.Pairwise (fun a b => a.stop ≤ b.stop)) :
    WInv sf (w.slide ts) C ts ∧ WSlid sf (w.slide ts) C ts := by
  obtain ⟨a, b, c, D, P, h1, h2, h3, h4⟩ := h
  have hPs : (P.map (·.2)).Pairwise (fun a b => a.stop ≤ b.stop) := by
    rw [h1, List.pairwise_append] at hC; exact hC.2.1
  have hws : w.slots.Pairwise (fun a b => a.stop ≤ b.stop) := by
    rw [h2]; exact pairwise_stop_of_rel P h3 hPs
  obtain ⟨e1, e2, e3, e4, e5⟩ := slide_sorted w ts hws b c
  -- the pairs that stay / go
  let keep : Slot × HSlot → Bool := fun p => !decide (p.2.stop ≤ ts - w.size)
  have hk1 : (w.slide ts).slots = (P.filter keep).map (·.1) := by
    rw [e1, h2, List.filter_map]
    congr 1
    apply List.filter_congr
    intro p hp
    simp only [Function.comp, keep, (h3 p hp).stop]
  have hsplitP := sorted_split (fun hs : HSlot => hs.stop) (ts - w.size) (P.map (·.2)) hPs
  have hk2 : (P.map (·.2)).filter (fun hs => !decide (hs.stop ≤ ts - w.size)) = (P.filter keep).map (·.2) := by
    rw [List.filter_map]; rfl
  have hk3 : ∀ p ∈ P.filter keep, SlotRel sf p.1 p.2 := fun p hp => h3 p (List.mem_filter.1 hp).1
  refine ⟨⟨by rw [e4]; exact a, e2, e3,
      D ++ (P.map (·.2)).filter (fun hs => decide (hs.stop ≤ ts - w.size)), P.filter keep, ?_, hk1, hk3, ?_⟩,
    ⟨by rw [e4]; exact a, e2, e3, P.filter keep, ?_, hk1, hk3⟩⟩
  · rw [h1, List.append_assoc, ← hk2]; exact congrArg _ hsplitP
  · intro hs hh
    rw [e5]
    rcases List.mem_append.1 hh with hh | hh
    · have := h4 hs hh; omega
    · have := (List.mem_filter.1 hh).2
      simpa using this
  · rw [e5, h1, List.filter_append, ← hk2]
    have hD : D.filter (fun hs => decide (ts - w.size < hs.stop)) = [] := by
      rw [List.filter_eq_nil_iff]
      intro hs hh
      have := h4 hs hh
      simp only [decide_eq_true_eq]; omega
    rw [hD, List.nil_append]
    conv => lhs; arg 2; rw [hsplitP]
    rw [List.filter_append]
    have hA : ((P.map (·.2)).filter (fun hs => decide (hs.stop ≤ ts - w.size))).filter
        (fun hs => decide (ts - w.size < hs.stop)) = [] := by
      rw [List.filter_eq_nil_iff]
      intro hs hh
      have := (List.mem_filter.1 hh).2
      simp only [decide_eq_true_eq] at this ⊢; omega
    have hB : ((P.map (·.2)).filter (fun hs => !decide (hs.stop ≤ ts - w.size))).filter
        (fun hs => decide (ts - w.size < hs.stop)) =
        (P.map (·.2)).filter (fun hs => !decide (hs.stop ≤ ts - w.size)) := by
      rw [List.filter_eq_self]
      intro hs hh
      have := (List.mem_filter.1 hh).2
      simp only [Bool.not_eq_eq_eq_not, Bool.not_true, decide_eq_false_iff_not, decide_eq_true_eq] at this ⊢
      omega
    rw [hA, hB, List.nil_append]

/-! ## The three statistics of a slid window -/

/-- all samples of the batches a list of pairs stands for -/
def samplesOf (P : List (Slot × HSlot)) : List Int := (P.map (·.2)).flatMap (·.samples)

theorem samplesOf_cons (p : Slot × HSlot) (P : List (Slot × HSlot)) :
    samplesOf (p :: P) = p.2.samples ++ samplesOf P := by
  simp [samplesOf]

theorem mem_samplesOf {P : List (Slot × HSlot)} {x : Int} :
    x ∈ samplesOf P ↔ ∃ p ∈ P, x ∈ p.2.samples := by
  simp only [samplesOf, List.mem_flatMap, List.mem_map]
  constructor
  · rintro ⟨hs, ⟨p, hp, rfl⟩, hx⟩; exact ⟨p, hp, hx⟩
  · rintro ⟨p, hp, hx⟩; exact ⟨p.2, ⟨p, hp, rfl⟩, hx⟩

theorem sumCount_rel {sf : Int} (P : List (Slot × HSlot)) (h : ∀ p ∈ P, SlotRel sf p.1 p.2) :
    sumCount (P.map (·.1)) = (samplesOf P).length := by
  induction P with
  | nil => simp [samplesOf]
  | cons p P ih =>
    rw [samplesOf_cons, List.length_append, List.map_cons, sumCount_cons,
      ih (fun q hq => h q (List.mem_cons_of_mem _ hq)), (h p List.mem_cons_self).count]
    omega

theorem sumTotal_rel {sf : Int} (P : List (Slot × HSlot)) (h : ∀ p ∈ P, SlotRel sf p.1 p.2) :
    sumTotal (P.map (·.1)) = sumTr sf (samplesOf P) := by
  induction P with
  | nil => simp [samplesOf, sumTr]
  | cons p P ih =>
    rw [samplesOf_cons, sumTr_append, List.map_cons, sumTotal_cons,
      ih (fun q hq => h q (List.mem_cons_of_mem _ hq)), (h p List.mem_cons_self).total]

theorem samplesOf_ne_nil {sf : Int} {P : List (Slot × HSlot)} (h : ∀ p ∈ P, SlotRel sf p.1 p.2)
    (hP : P ≠ []) : samplesOf P ≠ [] := by
  cases P with
  | nil => exact absurd rfl hP
  | cons p P =>
    rw [samplesOf_cons]
    have := (h p List.mem_cons_self).ne
    intro hh
    exact this (List.append_eq_nil_iff.1 hh).1

/-- `setMax` writes exactly the largest covered sample, and only when it is positive -/
theorem setMax_bounded {sf : Int} {w : Window} {P : List (Slot × HSlot)}
    (hw : w.slots = P.map (·.1)) (h : ∀ p ∈ P, SlotRel sf p.1 p.2) :
    ∀ wr ∈ w.setMax, wr.size = w.size ∧ wr.stat = .max ∧ 0 < wr.val ∧
      Bounded sf (samplesOf P) .max wr.val := by
  intro wr hwr
  unfold Window.setMax at hwr
  simp only [] at hwr
  split at hwr
  · rename_i hn
    simp only [List.mem_singleton] at hwr
    subst hwr
    have hspec := foldl_max_spec (fun s : Slot => s.max) w.slots 0
    simp only [] at hspec
    obtain ⟨g1, g2, g3⟩ := hspec
    change 0 ≤ maxOver w.slots at g1
    change ∀ s ∈ w.slots, s.max ≤ maxOver w.slots at g2
    change maxOver w.slots = 0 ∨ ∃ s ∈ w.slots, maxOver w.slots = s.max at g3
    have hmem : maxOver w.slots ∈ samplesOf P := by
      rcases g3 with g3 | ⟨s, hs, g3⟩
      · exact absurd g3 hn
      · rw [hw] at hs
        obtain ⟨p, hp, rfl⟩ := List.mem_map.1 hs
        have hr := h p hp
        rcases (runMax_spec p.2.samples).2.2 with h0 | hm
        · rw [g3, hr.max] at hn; exact absurd h0 hn
        · rw [g3, hr.max]; exact mem_samplesOf.2 ⟨p, hp, hm⟩
    have hub : ∀ x ∈ samplesOf P, x ≤ maxOver w.slots := by
      intro x hx
      obtain ⟨p, hp, hxp⟩ := mem_samplesOf.1 hx
      have hr := h p hp
      have h1 := (runMax_spec p.2.samples).2.1 x hxp
      have h2 := g2 p.1 (by rw [hw]; exact List.mem_map.2 ⟨p, hp, rfl⟩)
      rw [hr.max] at h2
      omega
    have hpos : 0 < maxOver w.slots := by omega
    exact ⟨rfl, rfl, hpos, List.ne_nil_of_mem hmem, hn, lmax_eq_of hmem hub⟩
  · simp at hwr

/-- `setMin` writes one of the covered samples (never `0`) -/
theorem setMin_bounded {sf : Int} {w : Window} {P : List (Slot × HSlot)}
    (hw : w.slots = P.map (·.1)) (h : ∀ p ∈ P, SlotRel sf p.1 p.2) :
    ∀ wr ∈ w.setMin, wr.size = w.size ∧ wr.stat = .min ∧ Bounded sf (samplesOf P) .min wr.val := by
  intro wr hwr
  unfold Window.setMin at hwr
  split at hwr
  · simp at hwr
  · rename_i s0 r hsl
    simp only [] at hwr
    split at hwr
    · rename_i hn
      simp only [List.mem_singleton] at hwr
      subst hwr
      have hspec := foldl_min_spec (fun s : Slot => s.min) r s0.min
      simp only [] at hspec
      obtain ⟨g1, g2, g3⟩ := hspec
      change minOver s0.min r ≤ s0.min at g1
      change ∀ s ∈ r, minOver s0.min r ≤ s.min at g2
      change minOver s0.min r = s0.min ∨ ∃ s ∈ r, minOver s0.min r = s.min at g3
      have hle : ∀ s ∈ w.slots, minOver s0.min r ≤ s.min := by
        intro s hs
        rw [hsl] at hs
        rcases List.mem_cons.1 hs with rfl | hs
        · exact g1
        · exact g2 s hs
      have hex : ∃ s ∈ w.slots, minOver s0.min r = s.min := by
        rcases g3 with g3 | ⟨s, hs, g3⟩
        · exact ⟨s0, by rw [hsl]; exact List.mem_cons_self, g3⟩
        · exact ⟨s, by rw [hsl]; exact List.mem_cons_of_mem _ hs, g3⟩
      obtain ⟨s, hs, g⟩ := hex
      rw [hw] at hs
      obtain ⟨p, hp, rfl⟩ := List.mem_map.1 hs
      have hr := h p hp
      have hm : minOver s0.min r ∈ samplesOf P := by
        rw [g, hr.min]; exact mem_samplesOf.2 ⟨p, hp, runMin_mem hr.ne⟩
      refine ⟨rfl, rfl, List.ne_nil_of_mem hm, hn, hm, ?_⟩
      intro hnz
      apply lmin_eq_of hm
      intro x hx
      obtain ⟨q, hq, hxq⟩ := mem_samplesOf.1 hx
      have hrq := h q hq
      have h1 := runMin_exact (fun y hy => hnz y (mem_samplesOf.2 ⟨q, hq, hy⟩)) x hxq
      have h2 := hle q.1 (by rw [hw]; exact List.mem_map.2 ⟨q, hq, rfl⟩)
      rw [hrq.min] at h2
      exact Int.le_trans h2 h1
    · simp at hwr

/-- `setAvg` writes a value between the truncated smallest and the truncated largest sample -/
theorem setAvg_bounded {sf : Int} (hsf : 0 < sf) {w : Window} {P : List (Slot × HSlot)}
    (hw : w.slots = P.map (·.1)) (h : ∀ p ∈ P, SlotRel sf p.1 p.2)
    (hsfw : w.sf = sf) (hc : w.count = sumCount w.slots) (ht : w.total = sumTotal w.slots) :
    ∀ wr ∈ w.setAvg, wr.size = w.size ∧ wr.stat = .avg ∧ Bounded sf (samplesOf P) .avg wr.val := by
  intro wr hwr
  unfold Window.setAvg at hwr
  split at hwr
  · simp at hwr
  · rename_i hc0
    simp only [] at hwr
    split at hwr
    · rename_i hn
      simp only [List.mem_singleton] at hwr
      subst hwr
      have ec : w.count = (samplesOf P).length := by rw [hc, hw]; exact sumCount_rel P h
      have et : w.total = sumTr sf (samplesOf P) := by rw [ht, hw]; exact sumTotal_rel P h
      have hne : samplesOf P ≠ [] := by
        intro hh; rw [hh] at ec; simp at ec; exact hc0 ec
      obtain ⟨b1, b2⟩ := avg_bounds sf hsf (samplesOf P) hne
      rw [ec, et] at hn
      rw [ec, et, hsfw]
      refine ⟨rfl, rfl, hne, ?_, b1, b2⟩
      intro h0
      rcases Int.mul_eq_zero.1 h0 with h0 | h0
      · exact hn h0
      · omega
    · simp at hwr

theorem setAvg_stat (w : Window) : ∀ wr ∈ w.setAvg, wr.stat = .avg := by
  intro wr hwr
  unfold Window.setAvg at hwr
  split at hwr
  · simp at hwr
  · simp only [] at hwr
    split at hwr
    · simp only [List.mem_singleton] at hwr; subst hwr; rfl
    · simp at hwr

theorem setMin_stat (w : Window) : ∀ wr ∈ w.setMin, wr.stat = .min := by
  intro wr hwr
  unfold Window.setMin at hwr
  split at hwr
  · simp at hwr
  · simp only [] at hwr
    split at hwr
    · simp only [List.mem_singleton] at hwr; subst hwr; rfl
    · simp at hwr

/-- for any window whatsoever: a written maximum is positive -/
theorem setMax_pos (w : Window) : ∀ wr ∈ w.setMax, 0 < wr.val := by
  intro wr hwr
  unfold Window.setMax at hwr
  simp only [] at hwr
  split at hwr
  · rename_i hn
    simp only [List.mem_singleton] at hwr; subst hwr
    have := (foldl_max_spec (fun s : Slot => s.max) w.slots 0).1
    change 0 ≤ maxOver w.slots at this
    have hpos : 0 < maxOver w.slots := by omega
    exact hpos
  · simp at hwr

theorem updateMeta_writes_cases (w : Window) (ts : Int) (ign : Bool) :
    ∀ wr ∈ (w.updateMeta ts ign).2, ∃ w' : Window, wr ∈ w'.setAvg ∨ wr ∈ w'.setMax ∨ wr ∈ w'.setMin := by
  intro wr hwr
  have key : ∀ w1 : Window, wr ∈ w1.setAvg ++ w1.setMax ++ w1.setMin →
      ∃ w' : Window, wr ∈ w'.setAvg ∨ wr ∈ w'.setMax ∨ wr ∈ w'.setMin := by
    intro w1 hwr
    rcases List.mem_append.1 hwr with hwr | hwr
    · rcases List.mem_append.1 hwr with hwr | hwr
      · exact ⟨_, Or.inl hwr⟩
      · exact ⟨_, Or.inr (Or.inl hwr)⟩
    · exact ⟨_, Or.inr (Or.inr hwr)⟩
  unfold Window.updateMeta at hwr
  simp only [] at hwr
  cases ign with
  | true =>
    simp only [if_true] at hwr
    exact key _ hwr
  | false =>
    simp only [Bool.false_eq_true, if_false] at hwr
    by_cases hc : (w.isCovered ts).2 = true
    · simp only [hc, if_true] at hwr
      exact key _ hwr
    · simp only [hc] at hwr
      simp at hwr

/-- the window of the history, for a slid window -/
theorem WSlid.writes {sf : Int} (hsf : 0 < sf) {w : Window} {C : List HSlot} {ts : Int}
    (h : WSlid sf w C ts) :
    ∀ wr ∈ w.setAvg ++ w.setMax ++ w.setMin, wr.size = w.size ∧
      Bounded sf ((C.filter (fun hs => decide (ts - w.size < hs.stop))).flatMap (·.samples)) wr.stat wr.val := by
  obtain ⟨a, b, c, P, h1, h2, h3⟩ := h
  have e : (C.filter (fun hs => decide (ts - w.size < hs.stop))).flatMap (·.samples) = samplesOf P := by
    rw [h1]; rfl
  rw [e]
  intro wr hwr
  rcases List.mem_append.1 hwr with hwr | hwr
  · rcases List.mem_append.1 hwr with hwr | hwr
    · obtain ⟨g1, g2, g3⟩ := setAvg_bounded hsf h2 h3 a b c wr hwr
      exact ⟨g1, by rw [g2]; exact g3⟩
    · obtain ⟨g1, g2, _, g3⟩ := setMax_bounded h2 h3 wr hwr
      exact ⟨g1, by rw [g2]; exact g3⟩
  · obtain ⟨g1, g2, g3⟩ := setMin_bounded h2 h3 wr hwr
    exact ⟨g1, by rw [g2]; exact g3⟩

/-- `updateMeta` at `ts ≥ T`: the invariant is kept (with `T := ts`) and every write is bounded by
the samples the window covers at `ts` -/
theorem WInv.updateMeta {sf : Int} (hsf : 0 < sf) {w : Window} {C : List HSlot} {T ts : Int}
    (h : WInv sf w C T) (hT : T ≤ ts) (hC : C.Pairwise (fun a b => a.stop ≤ b.stop)) (ign : Bool) :
    WInv sf (w.updateMeta ts ign).1 C ts ∧ (w.updateMeta ts ign).1.size = w.size ∧
    ∀ wr ∈ (w.updateMeta ts ign).2,
      Bounded sf ((C.filter (fun hs => decide (ts - wr.size < hs.stop))).flatMap (·.samples)) wr.stat wr.val := by
  unfold Window.updateMeta
  simp only []
  have key : ∀ w1 : Window, WInv sf w1 C T → w1.size = w.size →
      WInv sf (w1.slide ts) C ts ∧ (w1.slide ts).size = w.size ∧
      ∀ wr ∈ (w1.slide ts).setAvg ++ (w1.slide ts).setMax ++ (w1.slide ts).setMin,
        Bounded sf ((C.filter (fun hs => decide (ts - wr.size < hs.stop))).flatMap (·.samples)) wr.stat wr.val := by
    intro w1 h1 hz
    obtain ⟨i1, i2⟩ := h1.slide hT hC
    refine ⟨i1, hz, ?_⟩
    intro wr hwr
    obtain ⟨g1, g2⟩ := i2.writes hsf wr hwr
    rw [g1]; exact g2
  cases ign with
  | true =>
    simp only [if_true]
    exact key w h rfl
  | false =>
    simp only [Bool.false_eq_true, if_false]
    obtain ⟨c1, c2⟩ := h.isCovered ts
    split
    · exact key _ c1 c2
    · exact ⟨c1.mono hT, c2, by simp⟩

theorem isCovered_flag (w : Window) (ts : Int) : (w.isCovered ts).1.covered = (w.isCovered ts).2 := by
  unfold Window.isCovered
  split
  · rename_i h; simpa using h
  · rename_i h
    split
    · simpa using h
    · split
      · rfl
      · simpa using h

theorem WSlid.recent {sf : Int} {w : Window} {C : List HSlot} {ts : Int} (h : WSlid sf w C ts)
    (hle : ∀ hs ∈ C, hs.stop ≤ ts) : ∀ s ∈ w.slots, ts - w.size < s.stop ∧ s.stop ≤ ts := by
  obtain ⟨_, _, _, P, h1, h2, h3⟩ := h
  intro s hs
  rw [h2] at hs
  obtain ⟨p, hp, rfl⟩ := List.mem_map.1 hs
  have hm : p.2 ∈ C.filter (fun hs => decide (ts - w.size < hs.stop)) := by
    rw [h1]; exact List.mem_map.2 ⟨p, hp, rfl⟩
  obtain ⟨m1, m2⟩ := List.mem_filter.1 hm
  rw [(h3 p hp).stop]
  exact ⟨by simpa using m2, hle _ m1⟩

/-- a window whose statistics were (re)computed at `ts` holds no slot older than its size -/
theorem WInv.updateMeta_recent {sf : Int} {w : Window} {C : List HSlot} {T ts : Int}
    (h : WInv sf w C T) (hT : T ≤ ts) (hC : C.Pairwise (fun a b => a.stop ≤ b.stop))
    (hle : ∀ hs ∈ C, hs.stop ≤ ts) (ign : Bool)
    (hcov : ign = true ∨ (w.updateMeta ts ign).1.covered = true) :
    ∀ s ∈ (w.updateMeta ts ign).1.slots, ts - w.size < s.stop ∧ s.stop ≤ ts := by
  unfold Window.updateMeta at hcov ⊢
  simp only [] at hcov ⊢
  cases ign with
  | true =>
    simp only [if_true]
    exact (h.slide hT hC).2.recent hle
  | false =>
    simp only [Bool.false_eq_true, if_false, false_or] at hcov ⊢
    obtain ⟨c1, c2⟩ := h.isCovered ts
    split
    · have := ((c1.slide hT hC).2.recent hle)
      have e : ((w.isCovered ts).1.slide ts).size = w.size := c2
      rw [e] at this; exact this
    · rename_i hf
      simp only [hf, Bool.false_eq_true, if_false] at hcov
      rw [isCovered_flag] at hcov
      exact absurd hcov hf

/-! ## The `Latency` object against the history -/

/-- the invariant of a `Latency` against the digested history `h`; `T` = clock reading of the
latest update call (any value before the first one) -/
structure LInv (sf : Int) (l : L) (h : Hist) (T : Int) : Prop where
  sf_eq : l.sf = sf
  nopanic : l.panicked = false
  count : l.count = h.cur.length
  total : l.totalDiff = sumTr sf h.cur
  max : l.max = runMax h.cur
  min : l.min = runMin h.cur
  sorted : h.closed.Pairwise (fun a b => a.stop ≤ b.stop)
  le_T : ∀ hs ∈ h.closed, hs.stop ≤ T
  wins : ∀ w ∈ l.windows, WInv sf w h.closed T

theorem LInv.new (sizes : List Int) (prec : Option Int) (T : Int) :
    LInv (sfOf prec) (L.new sizes prec) {} T := by
  refine ⟨rfl, rfl, rfl, rfl, rfl, rfl, List.Pairwise.nil, by simp, ?_⟩
  intro w hw
  simp only [L.new, List.mem_map] at hw
  obtain ⟨z, _, rfl⟩ := hw
  exact ⟨rfl, rfl, rfl, [], [], rfl, rfl, by simp, by simp⟩

theorem LInv.compute {sf : Int} (hsf : sf ≠ 0) {l : L} {h : Hist} {T : Int} (hi : LInv sf l h T)
    (now lat : Int) : LInv sf (l.computeLat now lat) (h.step (.compute now lat)) T := by
  obtain ⟨a, b, c, d, e, f, g, i, j⟩ := hi
  have hsf' : ¬ l.sf = 0 := by rw [a]; exact hsf
  simp only [L.computeLat, hsf', if_false, Hist.step]
  refine ⟨a, b, ?_, ?_, ?_, ?_, g, i, j⟩
  · simp only [List.length_append, List.length_cons, List.length_nil]; omega
  · simp only [sumTr_snoc, a]; omega
  · simp only [runMax_snoc, e]
  · simp only [runMin_snoc, f]

theorem cur_eq_nil_iff {sf : Int} {l : L} {h : Hist} {T : Int} (hi : LInv sf l h T) :
    l.count = 0 ↔ h.cur = [] := by
  rw [hi.count]
  cases h.cur with
  | nil => simp
  | cons a r => simp only [List.length_cons]; constructor <;> intro hh <;> simp at hh <;> omega

theorem LInv.closeSlot {sf : Int} {l : L} {h : Hist} {T : Int} (hi : LInv sf l h T)
    {now : Int} (hT : T ≤ now) (ign : Bool) :
    LInv sf (l.closeSlot now) (h.step (.update now ign)) now := by
  have hiff := cur_eq_nil_iff hi
  obtain ⟨a, b, c, d, e, f, g, i, j⟩ := hi
  by_cases h0 : l.count = 0
  · have hc : h.cur = [] := hiff.1 h0
    simp only [L.closeSlot, h0, if_true, Hist.step, hc]
    exact ⟨a, b, by rw [c, hc], by rw [d, hc], by rw [e, hc], by rw [f, hc], g,
      fun hs hh => by have := i hs hh; omega, fun w hw => (j w hw).mono hT⟩
  · have hc : ¬ h.cur = [] := fun hh => h0 (hiff.2 hh)
    simp only [L.closeSlot, h0, if_false, Hist.step, hc]
    have hr : SlotRel sf (l.curSlot now) ⟨h.cur, now⟩ := ⟨rfl, hc, c, d, e, f⟩
    refine ⟨a, b, rfl, rfl, rfl, rfl, ?_, ?_, ?_⟩
    · rw [List.pairwise_append]
      refine ⟨g, by simp, ?_⟩
      intro x hx y hy
      simp only [List.mem_singleton] at hy; subst hy
      have := i x hx
      simp only []; omega
    · intro hs hh
      rcases List.mem_append.1 hh with hh | hh
      · have := i hs hh; omega
      · simp only [List.mem_singleton] at hh; subst hh; simp
    · intro w hw
      obtain ⟨w0, hw0, rfl⟩ := List.mem_map.1 hw
      exact ((j w0 hw0).add hr).mono hT

theorem LInv.flush {sf : Int} (hsf : 0 < sf) {l : L} {h : Hist} {now : Int} (hi : LInv sf l h now)
    (ign : Bool) :
    LInv sf (l.flush now ign).1 h now ∧
    ∀ wr ∈ (l.flush now ign).2, Bounded sf (h.window wr.size now) wr.stat wr.val := by
  obtain ⟨a, b, c, d, e, f, g, i, j⟩ := hi
  refine ⟨⟨a, b, c, d, e, f, g, i, ?_⟩, ?_⟩
  · intro w hw
    simp only [L.flush, List.map_map, List.mem_map, Function.comp] at hw
    obtain ⟨w0, hw0, rfl⟩ := hw
    exact ((j w0 hw0).updateMeta hsf (Int.le_refl _) g ign).1
  · intro wr hwr
    simp only [L.flush, List.flatMap_map, List.mem_flatMap] at hwr
    obtain ⟨w0, hw0, hwr⟩ := hwr
    exact ((j w0 hw0).updateMeta hsf (Int.le_refl _) g ign).2.2 wr hwr

theorem LInv.flush_recent {sf : Int} {l : L} {h : Hist} {now : Int} (hi : LInv sf l h now)
    (ign : Bool) :
    ∀ w ∈ (l.flush now ign).1.windows, (ign = true ∨ w.covered = true) →
      ∀ s ∈ w.slots, now - w.size < s.stop ∧ s.stop ≤ now := by
  obtain ⟨a, b, c, d, e, f, g, i, j⟩ := hi
  intro w hw
  simp only [L.flush, List.map_map, List.mem_map, Function.comp] at hw
  obtain ⟨w0, hw0, rfl⟩ := hw
  intro hcov s hs
  have hsz : (w0.updateMeta now ign).1.size = w0.size := by
    unfold Window.updateMeta
    simp only []
    cases ign with
    | true => simp [Window.slide]
    | false =>
      simp only [Bool.false_eq_true, if_false]
      have := ((j w0 hw0).isCovered now).2
      split
      · simpa [Window.slide] using this
      · exact this
  rw [hsz]
  exact (j w0 hw0).updateMeta_recent (Int.le_refl _) g i ign hcov s hs

/-- one update call at a clock reading not before the previous update -/
theorem LInv.update {sf : Int} (hsf : 0 < sf) {l : L} {h : Hist} {T : Int} (hi : LInv sf l h T)
    {now : Int} (hT : T ≤ now) (ign : Bool) :
    LInv sf (l.update now ign).1 (h.step (.update now ign)) now ∧
    ∀ wr ∈ (l.update now ign).2,
      Bounded sf ((h.step (.update now ign)).window wr.size now) wr.stat wr.val :=
  (hi.closeSlot hT ign).flush hsf ign

/-- update clock readings never decrease, starting from `T` -/
def chainFrom : Int → List Op → Prop
  | _, [] => True
  | T, .compute _ _ :: r => chainFrom T r
  | T, .update now _ :: r => T ≤ now ∧ chainFrom now r

/-- the latest update clock reading (`T` if there is none) -/
def lastT : Int → List Op → Int
  | T, [] => T
  | T, .compute _ _ :: r => lastT T r
  | _, .update now _ :: r => lastT now r

theorem run_inv {sf : Int} (hsf : 0 < sf) (ops : List Op) {l : L} {h : Hist} {T : Int}
    (hi : LInv sf l h T) (hc : chainFrom T ops) :
    LInv sf (l.run ops) (ops.foldl Hist.step h) (lastT T ops) := by
  induction ops generalizing l h T with
  | nil => exact hi
  | cons op r ih =>
    cases op with
    | compute now lat =>
      simp only [L.run, List.foldl_cons, L.step, lastT]
      exact ih (hi.compute (by omega) now lat) hc
    | update now ign =>
      simp only [L.run, List.foldl_cons, L.step, lastT]
      exact ih (hi.update hsf hc.1 ign).1 hc.2

theorem chainFrom_snoc_update (ops : List Op) (T now : Int) (ign : Bool) :
    chainFrom T (ops ++ [.update now ign]) ↔ chainFrom T ops ∧ lastT T ops ≤ now := by
  induction ops generalizing T with
  | nil => simp [chainFrom, lastT]
  | cons op r ih =>
    cases op with
    | compute n lat => simp only [List.cons_append, chainFrom, lastT, ih]
    | update n i => simp only [List.cons_append, chainFrom, lastT, ih, and_assoc]

theorem chainFrom_of_updMono (ops : List Op) (T : Int) (hm : UpdMono ops)
    (hT : ∀ t ∈ updTimes ops, T ≤ t) : chainFrom T ops := by
  induction ops generalizing T with
  | nil => trivial
  | cons op r ih =>
    cases op with
    | compute n lat => exact ih T hm hT
    | update n i =>
      simp only [UpdMono, updTimes, List.pairwise_cons] at hm
      exact ⟨hT n (by simp [updTimes]), ih n hm.2 hm.1⟩

theorem exists_chain (ops : List Op) (hm : UpdMono ops) : ∃ T, chainFrom T ops := by
  induction ops with
  | nil => exact ⟨0, trivial⟩
  | cons op r ih =>
    cases op with
    | compute n lat => exact ih hm
    | update n i =>
      simp only [UpdMono, updTimes, List.pairwise_cons] at hm
      exact ⟨n, Int.le_refl _, chainFrom_of_updMono r n hm.2 hm.1⟩

theorem updMono_of_clockMono (ops : List Op) (h : ClockMono ops) : UpdMono ops := by
  induction ops with
  | nil => exact List.Pairwise.nil
  | cons op r ih =>
    simp only [ClockMono, List.map_cons, List.pairwise_cons] at h
    have hr := ih h.2
    cases op with
    | compute n lat => exact hr
    | update n i =>
      simp only [UpdMono, updTimes, List.pairwise_cons]
      refine ⟨?_, hr⟩
      intro t ht
      have : ∃ o ∈ r, o.now = t := by
        clear h hr ih
        induction r with
        | nil => simp [updTimes] at ht
        | cons o r ih2 =>
          cases o with
          | compute m lat => 
            obtain ⟨o, ho, e⟩ := ih2 ht
            exact ⟨o, List.mem_cons_of_mem _ ho, e⟩
          | update m j =>
            simp only [updTimes, List.mem_cons] at ht
            rcases ht with rfl | ht
            · exact ⟨_, List.mem_cons_self, rfl⟩
            · obtain ⟨o, ho, e⟩ := ih2 ht
              exact ⟨o, List.mem_cons_of_mem _ ho, e⟩
      obtain ⟨o, ho, rfl⟩ := this
      exact h.1 o.now (List.mem_map.2 ⟨o, ho, rfl⟩)

end Gnmi.Latency
