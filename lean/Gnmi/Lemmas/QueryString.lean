import Gnmi.Model.QueryString
import Gnmi.Spec.PathIndex
/-!
Helper lemmas for C19 (client query → SubscribeRequest path): what the transcribed `ygot`
loops do on the output of `pathToString` for *plain* elements.
-/
namespace Gnmi.PV
open List

/-- the characters that change the state of ygot's scanners -/
def NoMeta (e : Str) : Prop := ∀ c ∈ e, c ≠ '[' ∧ c ≠ ']' ∧ c ≠ '\\'

theorem NoMeta.tail {c : Char} {e : Str} (h : NoMeta (c :: e)) : NoMeta e :=
  fun x hx => h x (mem_cons_of_mem _ hx)

theorem NoMeta.head {c : Char} {e : Str} (h : NoMeta (c :: e)) : c ≠ '[' ∧ c ≠ ']' ∧ c ≠ '\\' :=
  h c mem_cons_self

theorem plainStr_noMeta {e : Str} (h : plainStr e = true) : NoMeta e := by
  intro c hc
  simp only [plainStr, Bool.and_eq_true, all_eq_true] at h
  have := h.2 c hc
  simp only [plainChar, Bool.and_eq_true, bne_iff_ne, ne_eq] at this
  exact ⟨this.1.1.1, this.1.1.2, this.1.2⟩

theorem plainStr_ne_nil {e : Str} (h : plainStr e = true) : e ≠ [] := by
  simp only [plainStr, Bool.and_eq_true, bne_iff_ne, ne_eq] at h
  exact h.1

theorem plainStr_noSpace {e : Str} (h : plainStr e = true) : e.contains ' ' = false := by
  simp only [plainStr, Bool.and_eq_true, all_eq_true] at h
  apply Bool.eq_false_iff.mpr
  intro hc
  have hm : ' ' ∈ e := by simpa using hc
  have := h.2 ' ' hm
  simp [plainChar] at this

/-! ### SplitPath -/

/-- scanning an escaped plain element outside key/escape state only appends it to `buf` -/
theorem foldl_splitStep_escape (e : Str) (he : NoMeta e) (s : SplitSt)
    (hk : s.inKey = false) (hx : s.inEscape = false) :
    (escapeSlash e).foldl splitStep s = { s with buf := s.buf ++ e } := by
  induction e generalizing s with
  | nil => simp [escapeSlash]
  | cons c r ih =>
    obtain ⟨h1, h2, h3⟩ := he.head
    unfold escapeSlash
    by_cases hc : c = '/'
    · subst hc
      simp only [if_true, foldl_cons]
      have e1 : splitStep s '\\' = { s with inEscape := true } := by
        simp [splitStep, hk, hx]
      have e2 : splitStep { s with inEscape := true } '/' = { s with buf := s.buf ++ ['/'] } := by
        simp [splitStep, hx]
      rw [e1, e2, ih he.tail { s with buf := s.buf ++ ['/'] } hk hx]
      simp
    · simp only [hc, if_false, foldl_cons]
      have e1 : splitStep s c = { s with buf := s.buf ++ [c] } := by
        simp [splitStep, h1, h2, h3, hc, hx]
      rw [e1, ih he.tail { s with buf := s.buf ++ [c] } hk hx]
      simp

/-- scanning the joined escaped elements: all but the last end up in `parts`, the last in `buf` -/
theorem foldl_splitStep_join (e : Str) (r : List Str) (h : ∀ x ∈ e :: r, NoMeta x) (s : SplitSt)
    (hk : s.inKey = false) (hx : s.inEscape = false) (hb : s.buf = []) :
    (joinSlash ((e :: r).map escapeSlash)).foldl splitStep s =
      { s with parts := s.parts ++ (e :: r).dropLast, buf := (e :: r).getLast (cons_ne_nil _ _) } := by
  induction r generalizing e s with
  | nil =>
    simp only [map_cons, map_nil, joinSlash]
    rw [foldl_splitStep_escape e (h e mem_cons_self) s hk hx]
    simp [hb]
  | cons e' r' ih =>
    simp only [map_cons, joinSlash, foldl_append, foldl_cons]
    rw [foldl_splitStep_escape e (h e mem_cons_self) s hk hx]
    have e1 : splitStep { s with buf := s.buf ++ e } '/' = { s with parts := s.parts ++ [e], buf := [] } := by
      simp [splitStep, hk, hx, hb]
    rw [e1]
    have := ih e' (fun x hx => h x (mem_cons_of_mem _ hx)) { s with parts := s.parts ++ [e], buf := [] } hk hx rfl
    simp only [map_cons] at this
    rw [this]
    simp

theorem splitPath_nil : splitPath [] = [] := by decide

theorem splitPath_pathToString (q : List Str) (h : ∀ e ∈ q, plainStr e = true) :
    splitPath (pathToString q) = q := by
  cases q with
  | nil => simp [pathToString, joinSlash, splitPath_nil]
  | cons e r =>
    unfold splitPath pathToString
    rw [foldl_splitStep_join e r (fun x hx => plainStr_noMeta (h x hx)) {} rfl rfl rfl]
    have hne : (e :: r).getLast (cons_ne_nil _ _) ≠ [] :=
      plainStr_ne_nil (h _ (getLast_mem _))
    have : (((e :: r).getLast (cons_ne_nil _ _)).length != 0) = true := by
      simpa [length_eq_zero_iff] using hne
    simp only [this, Bool.true_or, if_true, nil_append]
    exact dropLast_concat_getLast (cons_ne_nil _ _)

/-! ### the last character of the query string -/

theorem getLast?_escapeSlash (e : Str) : (escapeSlash e).getLast? = e.getLast? := by
  induction e with
  | nil => rfl
  | cons c r ih =>
    unfold escapeSlash
    by_cases hc : c = '/'
    · subst hc
      simp only [if_true, getLast?_cons_cons]
      rw [getLast?_cons, getLast?_cons, ih]
    · simp only [hc, if_false]
      rw [getLast?_cons, getLast?_cons, ih]

theorem escapeSlash_ne_nil {e : Str} (h : e ≠ []) : escapeSlash e ≠ [] := by
  cases e with
  | nil => exact absurd rfl h
  | cons c r => unfold escapeSlash; split <;> simp

theorem getLast?_joinSlash (e : Str) (r : List Str) (h : (e :: r).getLast (cons_ne_nil _ _) ≠ []) :
    (joinSlash (e :: r)).getLast? = ((e :: r).getLast (cons_ne_nil _ _)).getLast? := by
  induction r generalizing e with
  | nil => simp [joinSlash]
  | cons e' r' ih =>
    have h' : (e' :: r').getLast (cons_ne_nil _ _) ≠ [] := by simpa using h
    obtain ⟨x, hx⟩ : ∃ x, ((e' :: r').getLast (cons_ne_nil _ _)).getLast? = some x :=
      ⟨_, getLast?_eq_some_getLast h'⟩
    simp only [joinSlash, getLast?_append, getLast?_cons, ih e' h', hx, Option.getD_some,
      Option.some_or, getLast_cons_cons]

theorem getLast?_pathToString (e : Str) (r : List Str) (h : (e :: r).getLast (cons_ne_nil _ _) ≠ []) :
    (pathToString (e :: r)).getLast? = ((e :: r).getLast (cons_ne_nil _ _)).getLast? := by
  unfold pathToString
  have hm : (e :: r).map escapeSlash = escapeSlash e :: r.map escapeSlash := rfl
  have hl : (escapeSlash e :: r.map escapeSlash).getLast (cons_ne_nil _ _) =
      escapeSlash ((e :: r).getLast (cons_ne_nil _ _)) := by
    have := getLast_map (f := escapeSlash) (l := e :: r) (by simp)
    simpa using this
  rw [hm, getLast?_joinSlash _ _ (by rw [hl]; exact escapeSlash_ne_nil h), hl, getLast?_escapeSlash]

/-! ### PathStringToElements -/

/-- the checked index `path[len(path)-1]` never fires: `parts` is non-empty only for a non-empty
string (holds for every input) -/
theorem pathStringToElements_ne_panic (path : Str) : pathStringToElements path ≠ .panic := by
  cases path with
  | nil => simp [pathStringToElements, splitPath_nil]
  | cons c r =>
    unfold pathStringToElements
    simp only [getLast?_cons]
    repeat' split
    all_goals simp

/-- D18 hypothesis: the last element of the query does not end in `/` -/
def LastOK (q : List Str) : Prop := ∀ e, q.getLast? = some e → e.getLast? ≠ some '/'

theorem pathStringToElements_pathToString (q : List Str) (h : ∀ e ∈ q, plainStr e = true)
    (hl : LastOK q) : pathStringToElements (pathToString q) = .ok q := by
  unfold pathStringToElements
  rw [splitPath_pathToString q h]
  cases q with
  | nil => simp
  | cons e r =>
    have hne : e ≠ [] := plainStr_ne_nil (h e mem_cons_self)
    have hlast : (e :: r).getLast (cons_ne_nil _ _) ≠ [] := plainStr_ne_nil (h _ (getLast_mem _))
    simp only [hne, if_false, length_cons, Nat.zero_lt_succ, if_true]
    rw [getLast?_pathToString e r hlast]
    have h1 := hl _ (getLast?_eq_some_getLast (cons_ne_nil e r))
    rw [getLast?_eq_some_getLast hlast] at h1 ⊢
    simp only [ne_eq, Option.some.injEq] at h1
    simp [h1]

/-! ### extractKV on a plain element -/

theorem foldlM_kvStep_plain (e : Str) (he : NoMeta e) (s : KVSt) (hk : s.inKey = false)
    (hx : s.inEscape = false) :
    e.foldlM kvStep s = .ok { s with buf := s.buf ++ e } := by
  induction e generalizing s with
  | nil => simp [pure, Except.pure]
  | cons c r ih =>
    obtain ⟨h1, h2, h3⟩ := he.head
    have e1 : kvStep s c = .ok { s with buf := s.buf ++ [c] } := by
      simp [kvStep, h1, h2, h3, hk, hx]
    simp only [foldlM_cons, e1, bind, Except.bind]
    rw [ih he.tail { s with buf := s.buf ++ [c] } hk hx]
    simp

theorem extractKV_plain (e : Str) (h : plainStr e = true) : extractKV e = .ok (e, []) := by
  unfold extractKV
  rw [foldlM_kvStep_plain e (plainStr_noMeta h) {} rfl rfl]
  have hs : ' ' ∉ e := by
    have := plainStr_noSpace h
    simpa using this
  simp [hs]

theorem elemToString_plain (e : Str) (h : plainStr e = true) : elemToString e [] = .ok e := by
  simp [elemToString, plainStr_ne_nil h]

theorem structuredElems_plain (q : List Str) (h : ∀ e ∈ q, plainStr e = true) :
    structuredElems q = .ok (q.map (fun e => (e, []))) := by
  induction q with
  | nil => rfl
  | cons e r ih =>
    simp only [structuredElems, extractKV_plain e (h e mem_cons_self),
      ih (fun x hx => h x (mem_cons_of_mem _ hx)), map_cons]

theorem sliceElems_plain (q : List Str) (h : ∀ e ∈ q, plainStr e = true) :
    sliceElems q = .ok q := by
  induction q with
  | nil => rfl
  | cons e r ih =>
    simp only [sliceElems, extractKV_plain e (h e mem_cons_self), elemToString_plain e (h e mem_cons_self),
      ih (fun x hx => h x (mem_cons_of_mem _ hx))]

/-- a query of plain elements whose last element does not end in `/` arrives as itself -/
theorem queryToCPath_plain (q : List Str) (h : ∀ e ∈ q, plainStr e = true) (hl : LastOK q) :
    queryToCPath q = .ok { elem := q.map (fun e => (e, [])), element := q } := by
  unfold queryToCPath stringToPath
  simp only [pathStringToElements_pathToString q h hl, structuredElems_plain q h, sliceElems_plain q h]

/-- `StringToPath` cannot panic, whatever the string -/
theorem stringToPath_ne_panic (path : Str) : stringToPath path ≠ .panic := by
  unfold stringToPath
  have := pathStringToElements_ne_panic path
  cases hp : pathStringToElements path with
  | panic => exact absurd hp this
  | err => simp
  | ok parts => simp only; split <;> simp

end Gnmi.PV
