import Gnmi.Lemmas.CacheState
/-!
The kept `serverName` string of a target (`Target.serverName`, the `ResetAction: Keep` entry of the
metadata object) is not written by any per-target operation of the cache model: updates, deletes,
the metadata refresh and `Reset` all leave it alone.
-/
namespace Gnmi
namespace Cache

theorem metaSideEffect_serverName {t t' : Target} {name : String} {v : Val}
    (h : metaSideEffect t name v = some t') : t'.serverName = t.serverName := by
  unfold metaSideEffect at h
  repeat' split at h
  all_goals first
    | (cases h; rfl)
    | (simp at h)

theorem updateCore_serverName (cfg : Cfg) (now : Int) (t : Target) (rd : Bool) (path : Path) (n : Noti)
    (u : Upd) : (updateCore cfg now t rd path n u).2.1.serverName = t.serverName := by
  unfold updateCore
  repeat' split
  all_goals rfl

theorem metaPre_serverName {t t' : Target} {h : String} {rest : Path} {v : Val} {rd : Bool}
    (hm : metaPre t h rest v = some (t', rd)) : t'.serverName = t.serverName := by
  unfold metaPre at hm
  split at hm
  · split at hm
    · cases hm
    · rename_i name _
      cases hs : metaSideEffect t name v with
      | none => simp [hs] at hm
      | some t'' =>
        simp only [hs, Option.map_some, Option.some.injEq, Prod.mk.injEq] at hm
        obtain ⟨h1, _⟩ := hm
        subst h1
        exact metaSideEffect_serverName hs
  · cases hm; rfl

theorem gnmiUpdate1_serverName (cfg : Cfg) (now : Int) (t : Target) (n : Noti) :
    (Target.gnmiUpdate1 cfg now t n).2.1.serverName = t.serverName := by
  unfold Target.gnmiUpdate1
  split
  · rfl
  · split
    · rfl
    · rfl
    · split
      · rfl
      · rename_i heq
        rw [updateCore_serverName]
        exact metaPre_serverName heq

theorem genMetaOne_serverName (cfg : Cfg) (enc : String → String) (now : Int) (emit : Bool)
    (acc : Target × List Event) (name : String) (v : Scalar) (isCur : Val → Bool) :
    (genMetaOne cfg enc now emit acc name v isCur).1.serverName = acc.1.serverName := by
  unfold genMetaOne
  split
  · rfl
  · split
    · rfl
    · simp only
      split <;> exact gnmiUpdate1_serverName ..

theorem foldl_serverName {α : Type} (f : Target × List Event → α → Target × List Event)
    (hf : ∀ acc x, (f acc x).1.serverName = acc.1.serverName) :
    ∀ (l : List α) (acc : Target × List Event), (l.foldl f acc).1.serverName = acc.1.serverName
  | [], _ => rfl
  | x :: l, acc => (foldl_serverName f hf l (f acc x)).trans (hf acc x)

theorem genServerName_serverName (cfg : Cfg) (enc : String → String) (now : Int) (emit : Bool)
    (acc : Target × List Event) : (genServerName cfg enc now emit acc).1.serverName = acc.1.serverName := by
  unfold genServerName
  split
  · exact genMetaOne_serverName ..
  · rfl

theorem generateMetaUpdates_serverName (cfg : Cfg) (enc : String → String) (now : Int) (emit : Bool)
    (t : Target) : (t.generateMetaUpdates cfg enc now emit).1.serverName = t.serverName := by
  unfold Target.generateMetaUpdates
  have s1 := foldl_serverName (fun acc name =>
      match acc.1.md.getBool name with
      | some v => genMetaOne cfg enc now emit acc name (.bool v)
          (fun sv => match sv with | .scalar (.bool b) => b == v | _ => false)
      | none => acc)
    (by intro acc x; split
        · exact genMetaOne_serverName ..
        · rfl) boolNames (t, [])
  have s2 := foldl_serverName (fun acc name =>
      match acc.1.md.getInt name with
      | some v => genMetaOne cfg enc now emit acc name (.int v)
          (fun sv => match sv with | .scalar (.int i) => i == v | _ => false)
      | none => acc)
    (by intro acc x; split
        · exact genMetaOne_serverName ..
        · rfl) intNames
  have s3 := foldl_serverName (fun acc name =>
      match acc.1.md.getStr name with
      | some v => genMetaOne cfg enc now emit acc name (.str v)
          (fun sv => match sv with | .scalar (.str s) => s == v | _ => false)
      | none => acc)
    (by intro acc x; split
        · exact genMetaOne_serverName ..
        · rfl) strNames
  exact (genServerName_serverName ..).trans ((s3 _).trans ((s2 _).trans s1))

theorem updateMeta_serverName (cfg : Cfg) (enc : String → String) (now : Int) (emit : Bool) (t : Target) :
    (t.updateMeta cfg enc now emit).1.serverName = t.serverName := by
  unfold Target.updateMeta
  rw [generateMetaUpdates_serverName]

/-- **`Reset` keeps the server name** (the `Keep` reset action, at the level of the cache model) -/
theorem reset_serverName (cfg : Cfg) (enc : String → String) (now : Int) (t : Target) :
    (t.reset cfg enc now).1.serverName = t.serverName := by
  unfold Target.reset
  refine Eq.trans (foldl_serverName _ ?_ _ _)
    (updateMeta_serverName cfg enc now true { t with latest := none, md := Meta.clear })
  intro _ _; rfl

end Cache
end Gnmi
