import Gnmi.Lemmas.SubscribeConv
/-!
# Frame lemmas and the simple invariants of the Subscribe LTS
(ACL, "nothing unwanted", pending handles are distinct, duplicate accounting)
-/
namespace Gnmi
namespace SubLTS
set_option linter.unusedSimpArgs false
set_option linter.unnecessarySimpa false
set_option linter.unusedSectionVars false

section
variable {K V T R : Type} [DecidableEq K] [DecidableEq R]

/-! ### what shared steps leave alone -/

section
variable (sys : Sys K T R) (rq : Req K T R) (b : Sub K V R) (l : ShLabel K V T R)

@[simp] theorem onShared_sent : (b.onShared sys rq l).sent = b.sent := by
  cases l with
  | w2 u => cases u <;> simp only [Sub.onShared] <;> split <;> simp
  | _ => rfl
@[simp] theorem onShared_snd : (b.onShared sys rq l).snd = b.snd := by
  cases l with
  | w2 u => cases u <;> simp only [Sub.onShared] <;> split <;> simp
  | _ => rfl
@[simp] theorem onShared_pc : (b.onShared sys rq l).pc = b.pc := by
  cases l with
  | w2 u => cases u <;> simp only [Sub.onShared] <;> split <;> simp
  | _ => rfl
@[simp] theorem onShared_registered : (b.onShared sys rq l).registered = b.registered := by
  cases l with
  | w2 u => cases u <;> simp only [Sub.onShared] <;> split <;> simp
  | _ => rfl
@[simp] theorem onShared_closed : (b.onShared sys rq l).closed = b.closed := by
  cases l with
  | w2 u => cases u <;> simp only [Sub.onShared] <;> split <;> simp
  | _ => rfl
@[simp] theorem onShared_armed : (b.onShared sys rq l).armed = b.armed := by
  cases l with
  | w2 u => cases u <;> simp only [Sub.onShared] <;> split <;> simp
  | _ => rfl
@[simp] theorem onShared_blocked : (b.onShared sys rq l).blocked = b.blocked := by
  cases l with
  | w2 u => cases u <;> simp only [Sub.onShared] <;> split <;> simp
  | _ => rfl
@[simp] theorem onShared_status : (b.onShared sys rq l).status = b.status := by
  cases l with
  | w2 u => cases u <;> simp only [Sub.onShared] <;> split <;> simp
  | _ => rfl
@[simp] theorem onShared_deliv : (b.onShared sys rq l).deliv = b.deliv := by
  cases l with
  | w2 u => cases u <;> simp only [Sub.onShared] <;> split <;> simp
  | _ => rfl
@[simp] theorem onShared_rounds : (b.onShared sys rq l).rounds = b.rounds := by
  cases l with
  | w2 u => cases u <;> simp only [Sub.onShared] <;> split <;> simp
  | _ => rfl

/-- a shared step changes a subscriber's queue only by the `Insert` of `W2` -/
theorem onShared_q : (b.onShared sys rq l).q = b.q ∧ (b.onShared sys rq l).insLog = b.insLog ∨
    ∃ u, l = .w2 u ∧ b.registered = true ∧ u.offered rq = true ∧
      b.onShared sys rq l = b.ins u.item := by
  cases l with
  | w2 u =>
    rw [onShared_w2]
    split
    · next h =>
      simp only [Bool.and_eq_true] at h
      exact Or.inr ⟨u, rfl, h.1, h.2, rfl⟩
    · exact Or.inl ⟨rfl, rfl⟩
  | _ => exact Or.inl ⟨rfl, rfl⟩

end

/-- an unregistered subscriber's queue is not touched by writers -/
theorem onShared_unreg (sys : Sys K T R) (rq : Req K T R) (b : Sub K V R) (l : ShLabel K V T R)
    (hr : b.registered = false) :
    (b.onShared sys rq l).q = b.q ∧ (b.onShared sys rq l).insLog = b.insLog := by
  rcases onShared_q sys rq b l with h | ⟨u, _, hr', _⟩
  · exact h
  · rw [hr] at hr'; cases hr'

theorem onShared_walker_idle (sys : Sys K T R) (rq : Req K T R) (b : Sub K V R) (l : ShLabel K V T R)
    (hw : b.walker = .idle) : (b.onShared sys rq l).walker = .idle := by
  cases l with
  | w2 u => cases u <;> simp only [Sub.onShared] <;> split <;> simp [hw]
  | _ => simp [Sub.onShared, hw]

/-! ### frame lemmas for local steps -/

section
variable {sys : Sys K T R} {rq : Req K T R} {sh : Shared K V T R} {b b' : Sub K V R} {l : SLabel K}

theorem substep_sent (h : SubStep sys rq sh b l b') :
    b'.sent = b.sent ∨ (b'.sent = b.sent ++ [.sync] ∧ b.snd = .sendSync) ∨
    ∃ r, b'.sent = b.sent ++ [r] ∧ b.snd = .sending r := by
  cases h
  case sentSync _ hs => exact Or.inr (Or.inl ⟨rfl, hs⟩)
  case sentResp r _ hs _ => exact Or.inr (Or.inr ⟨r, rfl, hs⟩)
  case sentEnd r _ hs _ => exact Or.inr (Or.inr ⟨r, rfl, hs⟩)
  all_goals first | exact Or.inl rfl | exact Or.inl (by simp)

theorem substep_sending (h : SubStep sys rq sh b l b') (r : Resp K V R) (hs : b'.snd = .sending r) :
    b.snd = .sending r ∨
    ∃ i d t, b.snd = .got i d ∧ mkResp sys sh d i = some (r, t) ∧ rq.allow t = true := by
  cases h
  case buildArm i d r' t hg hm ha =>
    cases hs; exact Or.inr ⟨i, d, t, hg, hm, ha⟩
  all_goals first | exact Or.inl hs | exact Or.inl (by simpa using hs) | (simp [Sub.finish] at hs)

theorem substep_got (h : SubStep sys rq sh b l b') (i : Item K R) (d : Nat) (hs : b'.snd = .got i d) :
    b.snd = .got i d ∨ (b.snd = .idle ∧ b.q = (i, d) :: b'.q) := by
  cases h
  case next i' d' rest hi hq => cases hs; exact Or.inr ⟨hi, hq⟩
  all_goals first | exact Or.inl hs | exact Or.inl (by simpa using hs) | (simp [Sub.finish] at hs)

/-- queue, insert log and delivery log change together -/
theorem substep_acct (h : SubStep sys rq sh b l b') :
    (b'.q = b.q ∧ b'.insLog = b.insLog ∧ b'.deliv = b.deliv) ∨
    (∃ i, b'.q = (b.ins i).q ∧ b'.insLog = (b.ins i).insLog ∧ b'.deliv = b.deliv) ∨
    (∃ i d, b.q = (i, d) :: b'.q ∧ b'.deliv = b.deliv ++ [(i, d)] ∧ b'.insLog = b.insLog) := by
  cases h
  case h4sync => exact Or.inr (Or.inl ⟨_, rfl, rfl, by simp⟩)
  case visit => exact Or.inr (Or.inl ⟨_, rfl, rfl, by simp⟩)
  case finish => exact Or.inr (Or.inl ⟨_, rfl, rfl, by simp⟩)
  case next i d rest _ hq => exact Or.inr (Or.inr ⟨i, d, hq, rfl, rfl⟩)
  all_goals exact Or.inl ⟨rfl, rfl, rfl⟩

end

theorem mem_ins_items {b : Sub K V R} {i j : Item K R} (h : j ∈ (b.ins i).items) :
    j ∈ b.items ∨ j = i := by
  rcases ins_items b i with e | ⟨e, _, _⟩
  · rw [e] at h; exact Or.inl h
  · rw [e] at h
    rcases List.mem_append.1 h with h | h
    · exact Or.inl h
    · exact Or.inr (by simpa using h)

/-! ### a predicate on everything a subscriber holds or has sent -/

structure Lifted (pI : Item K R → Prop) (pR : Resp K V R → Prop) (b : Sub K V R) : Prop where
  q : ∀ i ∈ b.items, pI i
  got : ∀ i d, b.snd = .got i d → pI i
  sending : ∀ r, b.snd = .sending r → pR r
  sent : ∀ r ∈ b.sent, pR r

theorem Lifted.mono {pI pI' : Item K R → Prop} {pR pR' : Resp K V R → Prop} {b : Sub K V R}
    (h1 : ∀ i, pI i → pI' i) (h2 : ∀ r, pR r → pR' r) (hi : Lifted pI pR b) : Lifted pI' pR' b :=
  ⟨fun i hm => h1 i (hi.q i hm), fun i d hs => h1 i (hi.got i d hs), fun r hs => h2 r (hi.sending r hs),
    fun r hm => h2 r (hi.sent r hm)⟩

theorem lifted_init (pI : Item K R → Prop) (pR : Resp K V R → Prop) :
    Lifted pI pR ({} : Sub K V R) := by
  constructor <;> simp [Sub.items]

theorem lifted_local {pI : Item K R → Prop} {pR : Resp K V R → Prop}
    {sys : Sys K T R} {rq : Req K T R} {sh : Shared K V T R} {b b' : Sub K V R} {l : SLabel K}
    (hsyncI : pI .syncMarker) (hsync : pR .sync)
    (hvisit : ∀ k, sh.present k = true → rq.walks k = true → pI (.handle k (sh.gen k)))
    (hmk : ∀ i d r t, mkResp sys sh d i = some (r, t) → rq.allow t = true → pI i → pR r)
    (h : SubStep sys rq sh b l b') (hi : Lifted pI pR b) : Lifted pI pR b' := by
  refine ⟨?_, ?_, ?_, ?_⟩
  · rcases substep_items h with e | ⟨i, e, hi'⟩ | ⟨x, e⟩
    · rw [e]; exact hi.q
    · rw [e]; intro j hj
      rcases mem_ins_items hj with hj | rfl
      · exact hi.q j hj
      · rcases hi' with rfl | ⟨k, rfl, hp, hw, _, _⟩
        · exact hsyncI
        · exact hvisit k hp hw
    · intro j hj; exact hi.q j (e ▸ List.mem_cons_of_mem _ hj)
  · intro i d hs
    rcases substep_got h i d hs with h1 | ⟨_, hq⟩
    · exact hi.got i d h1
    · exact hi.q i (by simp [Sub.items, hq])
  · intro r hs
    rcases substep_sending h r hs with h1 | ⟨i, d, t, hg, hm, ha⟩
    · exact hi.sending r h1
    · exact hmk i d r t hm ha (hi.got i d hg)
  · intro r hr
    rcases substep_sent h with e | ⟨e, _⟩ | ⟨r', e, hs⟩
    · rw [e] at hr; exact hi.sent r hr
    · rw [e] at hr
      rcases List.mem_append.1 hr with hr | hr
      · exact hi.sent r hr
      · rw [List.mem_singleton.1 hr]; exact hsync
    · rw [e] at hr
      rcases List.mem_append.1 hr with hr | hr
      · exact hi.sent r hr
      · rw [List.mem_singleton.1 hr]; exact hi.sending r' hs

theorem lifted_shared {pI : Item K R → Prop} {pR : Resp K V R → Prop}
    (sys : Sys K T R) (rq : Req K T R) {b : Sub K V R} (l : ShLabel K V T R)
    (hoff : ∀ u : WUnit K R, l = .w2 u → u.offered rq = true → pI u.item)
    (hi : Lifted pI pR b) : Lifted pI pR (b.onShared sys rq l) := by
  refine ⟨?_, ?_, ?_, ?_⟩
  · rcases onShared_q sys rq b l with ⟨e, _⟩ | ⟨u, hl, _, ho, e⟩
    · unfold Sub.items; rw [e]; exact hi.q
    · rw [e]; intro j hj
      rcases mem_ins_items hj with hj | rfl
      · exact hi.q j hj
      · exact hoff u hl ho
  · intro i d hs; rw [onShared_snd] at hs; exact hi.got i d hs
  · intro r hs; rw [onShared_snd] at hs; exact hi.sending r hs
  · intro r hr; rw [onShared_sent] at hr; exact hi.sent r hr

/-! ### C07: nothing for a denied target -/

/-- the response is a sync or names a target the ACL allows -/
def respOk (sys : Sys K T R) (rq : Req K T R) : Resp K V R → Prop
  | .upd k _ _ => rq.allow (sys.tgt k) = true
  | .del k => rq.allow (sys.tgt k) = true
  | .rdel r => rq.allow (sys.rtgt r) = true
  | .sync => True

theorem mkResp_ok {sys : Sys K T R} {rq : Req K T R} {sh : Shared K V T R} {i : Item K R} {d : Nat}
    {r : Resp K V R} {t : T} (h : mkResp sys sh d i = some (r, t)) (ha : rq.allow t = true) :
    respOk sys rq r := by
  cases i <;> simp only [mkResp, Option.some.injEq, Prod.mk.injEq] at h
  all_goals first | (obtain ⟨rfl, rfl⟩ := h; exact ha) | cases h

/-! ### "nothing unwanted" -/

def itemWanted (rq : Req K T R) : Item K R → Prop
  | .handle k _ => rq.wants k = true
  | .delNote k => rq.wants k = true
  | .regionDel r => rq.wantsR r = true
  | .syncMarker => True

def respWanted (rq : Req K T R) : Resp K V R → Prop
  | .upd k _ _ => rq.wants k = true
  | .del k => rq.wants k = true
  | .rdel r => rq.wantsR r = true
  | .sync => True

theorem mkResp_wanted {sys : Sys K T R} {rq : Req K T R} {sh : Shared K V T R} {i : Item K R} {d : Nat}
    {r : Resp K V R} {t : T} (h : mkResp sys sh d i = some (r, t)) (hw : itemWanted rq i) :
    respWanted rq r := by
  cases i <;> simp only [mkResp, Option.some.injEq, Prod.mk.injEq] at h
  all_goals first | (obtain ⟨rfl, rfl⟩ := h; exact hw) | cases h

theorem offered_wanted (rq : Req K T R) (u : WUnit K R) (h : u.offered rq = true) :
    itemWanted rq u.item := by
  cases u <;> exact h

/-! ### pending coalescable items are distinct (C11 `pending_nodup` at LTS level) -/

def NodupCoal (b : Sub K V R) : Prop := (b.items.filter Item.coal).Nodup

theorem nodupCoal_ins {b : Sub K V R} (hi : NodupCoal b) (i : Item K R) : NodupCoal (b.ins i) := by
  unfold NodupCoal at *
  rcases ins_items b i with e | ⟨e, _, hn⟩
  · rw [e]; exact hi
  · rw [e, List.filter_append]
    cases hc : i.coal with
    | false => simpa [List.filter, hc] using hi
    | true =>
      have hni : i ∉ b.items := fun hm => hn ⟨hc, hm⟩
      simp only [List.filter, hc]
      rw [List.nodup_append]
      refine ⟨hi, by simp, ?_⟩
      intro a ha b' hb
      have : b' = i := by simpa using hb
      subst this
      intro e; subst e
      exact hni (List.mem_filter.1 ha).1

theorem nodupCoal_local {sys : Sys K T R} {rq : Req K T R} {sh : Shared K V T R} {b b' : Sub K V R}
    {l : SLabel K} (h : SubStep sys rq sh b l b') (hi : NodupCoal b) : NodupCoal b' := by
  rcases substep_items h with e | ⟨i, e, _⟩ | ⟨x, e⟩
  · unfold NodupCoal; rw [e]; exact hi
  · unfold NodupCoal; rw [e]; exact nodupCoal_ins hi i
  · unfold NodupCoal at *
    rw [e] at hi
    exact List.Nodup.sublist (List.Sublist.filter _ (List.sublist_cons_self _ _)) hi

theorem nodupCoal_shared (sys : Sys K T R) (rq : Req K T R) {b : Sub K V R} (l : ShLabel K V T R)
    (hi : NodupCoal b) : NodupCoal (b.onShared sys rq l) := by
  rcases onShared_q sys rq b l with ⟨e, _⟩ | ⟨u, _, _, _, e⟩
  · unfold NodupCoal Sub.items; rw [e]; exact hi
  · rw [e]; exact nodupCoal_ins hi _


/-! ### duplicate accounting (C11 `dup_exact` / `item_conservation` at LTS level) -/

/-- number of `Insert`s represented by the entries of item `j` in a list of `(item, dups)` -/
def wt (j : Item K R) : List (Item K R × Nat) → Nat
  | [] => 0
  | (i, d) :: l => (if i = j then d + 1 else 0) + wt j l

theorem wt_append (j : Item K R) (l m : List (Item K R × Nat)) : wt j (l ++ m) = wt j l + wt j m := by
  induction l with
  | nil => simp [wt]
  | cons a l ih => obtain ⟨i, d⟩ := a; simp only [List.cons_append, wt, ih]; omega

theorem wt_bump (i j : Item K R) (q : List (Item K R × Nat)) :
    wt j (Coalesce.bump i q) = wt j q + (if i = j then (q.map (·.1)).count i else 0) := by
  induction q with
  | nil => simp [wt, Coalesce.bump]
  | cons a l ih =>
    obtain ⟨k, c⟩ := a
    simp only [Coalesce.bump, List.map_cons]
    by_cases e : k = i
    · subst e
      by_cases e' : k = j
      · subst e'; simp [wt, ih]; omega
      · simp [wt, ih, e']
    · by_cases e' : i = j
      · subst e'; simp [wt, ih, e]
      · simp [wt, ih, e, e']

theorem wt_qins {q : List (Item K R × Nat)} (hn : ((q.map (·.1)).filter Item.coal).Nodup)
    (i j : Item K R) : wt j (qins q i) = wt j q + (if i = j then 1 else 0) := by
  unfold qins
  split
  · next h =>
    rw [wt_bump]
    have : (q.map (·.1)).count i = 1 := by
      rw [← List.count_filter (p := Item.coal) h.1, hn.count]
      simp [List.mem_filter, h.1, h.2]
    rw [this]
  · rw [wt_append]; simp [wt]

/-- every accepted insert of `j` is represented by a delivery of `j` (dups + 1 each) or by
the pending entry of `j` -/
def Acct (b : Sub K V R) : Prop := ∀ j, b.insLog.count j = wt j b.deliv + wt j b.q

theorem acct_ins {b : Sub K V R} (hn : NodupCoal b) (hi : Acct b) (i : Item K R) : Acct (b.ins i) := by
  intro j
  rw [ins_insLog, ins_q, ins_deliv]
  cases hc : b.closed with
  | true => simpa using hi j
  | false =>
    simp only [Bool.false_eq_true, if_false]
    rw [wt_qins hn, List.count_append, hi j, List.count_singleton]
    by_cases e : i = j
    · subst e; simp; omega
    · have : (i == j) = false := by simpa using e
      simp [e, this]

theorem acct_local {sys : Sys K T R} {rq : Req K T R} {sh : Shared K V T R} {b b' : Sub K V R}
    {l : SLabel K} (h : SubStep sys rq sh b l b') (hn : NodupCoal b) (hi : Acct b) : Acct b' := by
  rcases substep_acct h with ⟨e1, e2, e3⟩ | ⟨i, e1, e2, e3⟩ | ⟨i, d, e1, e2, e3⟩
  · intro j; rw [e1, e2, e3]; exact hi j
  · intro j
    have := acct_ins hn hi i j
    rw [e1, e2, e3]; rw [ins_deliv] at this; exact this
  · intro j
    have := hi j
    rw [e1] at this
    rw [e2, e3, wt_append, this]
    simp only [wt]; omega

theorem acct_shared (sys : Sys K T R) (rq : Req K T R) {b : Sub K V R} (l : ShLabel K V T R)
    (hn : NodupCoal b) (hi : Acct b) : Acct (b.onShared sys rq l) := by
  rcases onShared_q sys rq b l with ⟨e1, e2⟩ | ⟨u, _, _, _, e⟩
  · intro j; rw [e1, e2, onShared_deliv]; exact hi j
  · rw [e]; exact acct_ins hn hi _


/-! ### the bundle, in every reachable configuration -/

structure Basic (sys : Sys K T R) (rq : Req K T R) (b : Sub K V R) : Prop where
  phase : Phase rq b
  acl : Lifted (fun _ => True) (respOk sys rq) b
  wanted : Lifted (itemWanted rq) (respWanted rq) b
  nodup : NodupCoal b
  acct : Acct b

theorem basic_reach [DecidableEq T] [Inhabited V] {sys : Sys K T R} (hsw : sys.swap = false)
    (wf : sys.WF) {c : Cfg K V T R} (h : Reach sys c) (s : Nat) :
    Basic sys (sys.req s) (c.subs s) := by
  refine (reach_inv sys (fun _ => True) (fun s _ b => Basic sys (sys.req s) b) trivial ?_ ?_ ?_ ?_ h).2 s
  · intro s
    exact ⟨phase_init _, lifted_init _ _, lifted_init _ _, by simp [NodupCoal, Sub.items],
      by intro j; simp [wt]⟩
  · intros; trivial
  · intro s sh l sh' b _ hb _
    exact ⟨phase_shared l hb.phase, lifted_shared sys _ l (fun _ _ _ => trivial) hb.acl,
      lifted_shared sys _ l (fun u _ => offered_wanted _ u) hb.wanted, nodupCoal_shared sys _ l hb.nodup,
      acct_shared sys _ l hb.nodup hb.acct⟩
  · intro s sh b l b' _ hb hst
    exact ⟨phase_local hsw hst hb.phase,
      lifted_local trivial trivial (fun _ _ _ => trivial) (fun _ _ _ _ hm ha _ => mkResp_ok hm ha) hst hb.acl,
      lifted_local trivial trivial (fun k _ hk => wf.walks_wants s k hk)
        (fun _ _ _ _ hm _ hw => mkResp_wanted hm hw) hst hb.wanted,
      nodupCoal_local hst hb.nodup, acct_local hst hb.nodup hb.acct⟩


/-! ### every handle a subscriber holds is of an existing generation -/

def HandleOk (sh : Shared K V T R) (i : Item K R) : Prop :=
  ∀ k g, i = .handle k g → 1 ≤ g ∧ g ≤ sh.gen k

theorem handles_reach [DecidableEq T] [Inhabited V] {sys : Sys K T R} {c : Cfg K V T R}
    (h : Reach sys c) :
    (ShInv sys c.sh ∧ ShInv2 c.sh) ∧
      ∀ s, Lifted (HandleOk c.sh) (fun _ => True) (c.subs s) := by
  refine reach_inv sys (fun sh => ShInv sys sh ∧ ShInv2 sh)
    (fun _ sh b => Lifted (HandleOk sh) (fun _ => True) b) ⟨shInv_init sys, shInv2_init⟩ ?_ ?_ ?_ ?_ h
  · intro s; exact lifted_init _ _
  · intro sh l sh' hq hf; exact ⟨shInv_step hq.1 hf, shInv2_step hq.2 hf⟩
  · intro s sh l sh' b hq hb hf
    have hb' : Lifted (HandleOk sh') (fun _ => True) b :=
      hb.mono (fun i hi k g e => ⟨(hi k g e).1, Nat.le_trans (hi k g e).2 (shFire_gen_mono hf k)⟩)
        (fun _ h => h)
    refine lifted_shared sys _ l ?_ hb'
    intro u hl _ k g e
    subst hl
    simp only [shFire, Option.ite_none_right_eq_some, Option.some.injEq] at hf
    obtain ⟨hu, rfl⟩ := hf
    cases u with
    | upd k' g' =>
      cases e
      obtain ⟨hp, hg⟩ := hq.1.upd_cur k g hu
      subst hg
      exact ⟨hq.2.gen_pos k hp, Nat.le_refl _⟩
    | del k' => cases e
    | reg r => cases e
  · intro s sh b l b' hq hb hst
    refine lifted_local ?_ trivial ?_ (fun _ _ _ _ _ _ _ => trivial) hst hb
    · intro k g e; cases e
    · intro k hp _ k' g' e
      cases e
      exact ⟨hq.2.gen_pos k hp, Nat.le_refl _⟩

end
end SubLTS
end Gnmi
