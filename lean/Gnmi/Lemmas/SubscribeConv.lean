import Gnmi.Lemmas.SubscribeInv
/-!
# The convergence invariant of the Subscribe LTS (DESIGN Appendix E.1)

`view` replays a response sequence for one key; `expect` continues the replay through the
response in flight and the pending queue, a handle item reading the handle's **current**
value.  `Conv` is the invariant (A) of E.1; (B) turned out to be unnecessary in this
formulation: while a unit touching `k` is between `W1` and `W2` nothing is claimed about
`k`, and the `W2` insert alone re-establishes (A) thanks to `CurLast` (no item concerning `k`
is queued behind a pending handle of the current generation of `k`).

Event-driven suppression (`ShLabel.w1Quiet`: a write stored but not announced): the invariant is
stated **modulo the quiet writes** — `ORel (QChain sh.qlog)`: the expectation and the cache's value
are both absent, or linked by a chain of logged quiet rewrites `(old, new)`.  With an empty log this
is equality (`ORel.eq_of_nil`); if every logged pair is related by an equivalence `E` (the code:
`value.Equal`), it is `E` (`ORel.of_equiv`).
-/
namespace Gnmi
namespace SubLTS
set_option linter.unusedSimpArgs false
set_option linter.unusedSectionVars false

section
variable {K V T R : Type} [DecidableEq K] [DecidableEq R]

/-- the queue item concerns key `k` -/
def Item.aff (sys : Sys K T R) (k : K) : Item K R → Bool
  | .handle k' _ => k' = k
  | .delNote k' => k' = k
  | .regionDel r => sys.covers r k
  | .syncMarker => false

/-- what delivering the item does to the subscriber's view of `k` (value read now) -/
def applyItem (sys : Sys K T R) (sh : Shared K V T R) (k : K) (cur : Option V) : Item K R → Option V
  | .handle k' g => if k' = k then some (sh.val k g) else cur
  | .delNote k' => if k' = k then none else cur
  | .regionDel r => if sys.covers r k then none else cur
  | .syncMarker => cur

/-- what a response does to the subscriber's view of `k` -/
def applyResp (sys : Sys K T R) (k : K) (cur : Option V) : Resp K V R → Option V
  | .upd k' v _ => if k' = k then some v else cur
  | .del k' => if k' = k then none else cur
  | .rdel r => if sys.covers r k then none else cur
  | .sync => cur

/-- replay of a response sequence, for key `k` -/
def view (sys : Sys K T R) (k : K) (sent : List (Resp K V R)) : Option V :=
  sent.foldl (applyResp sys k) none

def sndApply (sys : Sys K T R) (sh : Shared K V T R) (k : K) (cur : Option V) : Snd K V R → Option V
  | .got i _ => applyItem sys sh k cur i
  | .sending r => applyResp sys k cur r
  | _ => cur

def expectQ (sys : Sys K T R) (sh : Shared K V T R) (k : K) (base : Option V)
    (l : List (Item K R)) : Option V :=
  l.foldl (applyItem sys sh k) base

/-- E.1: the view of `k` the subscriber will have once everything pending is delivered,
with no further writes -/
def expect (sys : Sys K T R) (sh : Shared K V T R) (b : Sub K V R) (k : K) : Option V :=
  expectQ sys sh k (sndApply sys sh k (view sys k b.sent) b.snd) (b.q.map (·.1))

/-! ### equality modulo quiet writes -/

/-- `a` and `b` are linked by a chain of quiet rewrites `(old, new)` of the log -/
inductive QChain (log : List (V × V)) : V → V → Prop where
  | refl (a : V) : QChain log a a
  | tail {a b c : V} : QChain log a b → (b, c) ∈ log → QChain log a c

/-- both absent, or both present and related -/
def ORel (E : V → V → Prop) : Option V → Option V → Prop
  | none, none => True
  | some a, some b => E a b
  | _, _ => False

theorem QChain.mono {log log' : List (V × V)} (h : ∀ p ∈ log, p ∈ log') {a b : V}
    (hc : QChain log a b) : QChain log' a b := by
  induction hc with
  | refl => exact .refl _
  | tail _ hm ih => exact .tail ih (h _ hm)

theorem QChain.eq_of_nil {a b : V} (h : QChain ([] : List (V × V)) a b) : a = b := by
  induction h with
  | refl => rfl
  | tail _ hm _ => cases hm

/-- if every logged pair is related by a reflexive, transitive `E`, so are the ends of a chain -/
theorem QChain.rel {log : List (V × V)} {E : V → V → Prop} (hr : ∀ a, E a a)
    (ht : ∀ a b c, E a b → E b c → E a c) (hl : ∀ p ∈ log, E p.1 p.2) {a b : V}
    (h : QChain log a b) : E a b := by
  induction h with
  | refl => exact hr _
  | tail _ hm ih => exact ht _ _ _ ih (hl _ hm)

theorem ORel.of_eq {E : V → V → Prop} (hr : ∀ a, E a a) {a b : Option V} (h : a = b) : ORel E a b := by
  subst h; cases a
  · trivial
  · exact hr _

theorem ORel.qrefl {log : List (V × V)} {a b : Option V} (h : a = b) : ORel (QChain log) a b :=
  ORel.of_eq QChain.refl h

theorem ORel.imp {E E' : V → V → Prop} (h : ∀ a b, E a b → E' a b) {a b : Option V}
    (hr : ORel E a b) : ORel E' a b := by
  cases a <;> cases b
  · trivial
  · exact hr.elim
  · exact hr.elim
  · exact h _ _ hr

theorem ORel.eq_of_nil {a b : Option V} (h : ORel (QChain ([] : List (V × V))) a b) : a = b := by
  cases a <;> cases b
  · rfl
  · exact h.elim
  · exact h.elim
  · exact congrArg some (QChain.eq_of_nil h)

theorem ORel.none_right {E : V → V → Prop} {a : Option V} (h : ORel E a none) : a = none := by
  cases a
  · rfl
  · exact h.elim

theorem ORel.none_left {E : V → V → Prop} {b : Option V} (h : ORel E none b) : b = none := by
  cases b
  · rfl
  · exact h.elim

theorem applyItem_noaff {sys : Sys K T R} {sh : Shared K V T R} {k : K} {i : Item K R}
    (cur : Option V) (h : i.aff sys k = false) : applyItem sys sh k cur i = cur := by
  cases i <;> simp_all [applyItem, Item.aff]

theorem applyItem_aff {sys : Sys K T R} {sh : Shared K V T R} {k : K} {i : Item K R}
    (cur cur' : Option V) (h : i.aff sys k = true) :
    applyItem sys sh k cur i = applyItem sys sh k cur' i := by
  cases i <;> simp_all [applyItem, Item.aff]

theorem expectQ_append (sys : Sys K T R) (sh : Shared K V T R) (k : K) (base : Option V)
    (l m : List (Item K R)) :
    expectQ sys sh k base (l ++ m) = expectQ sys sh k (expectQ sys sh k base l) m := by
  simp [expectQ, List.foldl_append]

theorem expectQ_noaff {sys : Sys K T R} {sh : Shared K V T R} {k : K} (base : Option V)
    {l : List (Item K R)} (h : ∀ j ∈ l, Item.aff sys k j = false) : expectQ sys sh k base l = base := by
  induction l generalizing base with
  | nil => rfl
  | cons a l ih =>
    show expectQ sys sh k (applyItem sys sh k base a) l = base
    rw [ih _ (fun j hj => h j (List.mem_cons_of_mem _ hj)), applyItem_noaff _ (h a (List.mem_cons_self ..))]

/-- no item concerning `k` is queued behind an occurrence of `h` -/
def noAffAfter (sys : Sys K T R) (k : K) (h : Item K R) : List (Item K R) → Prop
  | [] => True
  | i :: l => (i = h → ∀ j ∈ l, Item.aff sys k j = false) ∧ noAffAfter sys k h l

theorem noAffAfter_of_not_mem {sys : Sys K T R} {k : K} {h : Item K R} {l : List (Item K R)}
    (hn : h ∉ l) : noAffAfter sys k h l := by
  induction l with
  | nil => trivial
  | cons a l ih =>
    refine ⟨fun e => absurd (e ▸ List.mem_cons_self ..) hn, ih (fun hm => hn (List.mem_cons_of_mem _ hm))⟩

theorem noAffAfter_snoc {sys : Sys K T R} {k : K} {h : Item K R} {l : List (Item K R)} {j : Item K R}
    (hl : noAffAfter sys k h l) (hj : h ∈ l → Item.aff sys k j = false) :
    noAffAfter sys k h (l ++ [j]) := by
  induction l with
  | nil =>
    show noAffAfter sys k h [j]
    exact ⟨fun _ x hm => (by cases hm), trivial⟩
  | cons a l ih =>
    refine ⟨?_, ih hl.2 (fun hm => hj (List.mem_cons_of_mem _ hm))⟩
    intro e x hx
    rcases List.mem_append.1 hx with hx | hx
    · exact hl.1 e x hx
    · have : x = j := by simpa using hx
      rw [this]; exact hj (e ▸ List.mem_cons_self ..)

/-- behind a pending current handle nothing concerns `k`: draining gives the handle's value -/
theorem expectQ_handle {sys : Sys K T R} {sh : Shared K V T R} {k : K} {g : Nat} (base : Option V)
    {l : List (Item K R)} (hm : Item.handle k g ∈ l) (hl : noAffAfter sys k (.handle k g) l) :
    expectQ sys sh k base l = some (sh.val k g) := by
  induction l generalizing base with
  | nil => cases hm
  | cons a l ih =>
    show expectQ sys sh k (applyItem sys sh k base a) l = _
    by_cases e : a = .handle k g
    · rw [expectQ_noaff _ (hl.1 e), e]; simp [applyItem]
    · rcases List.mem_cons.1 hm with hm | hm
      · exact absurd hm.symm e
      · exact ih _ hm hl.2

/-! ### items of the queue after `ins` -/

def Sub.items (b : Sub K V R) : List (Item K R) := b.q.map (·.1)

theorem ins_items (b : Sub K V R) (i : Item K R) :
    (b.ins i).items = b.items ∨
      ((b.ins i).items = b.items ++ [i] ∧ b.closed = false ∧ ¬ (i.coal = true ∧ i ∈ b.items)) := by
  unfold Sub.items
  rw [ins_q]
  by_cases hc : b.closed = true
  · rw [if_pos hc]; exact Or.inl rfl
  · rw [if_neg hc, qins_items]
    split
    · exact Or.inl rfl
    · next hn => exact Or.inr ⟨rfl, by simpa using hc, hn⟩

theorem ins_items_open (b : Sub K V R) (i : Item K R) (hc : b.closed = false) :
    (i.coal = true ∧ i ∈ b.items ∧ (b.ins i).items = b.items) ∨
      (¬ (i.coal = true ∧ i ∈ b.items) ∧ (b.ins i).items = b.items ++ [i]) := by
  unfold Sub.items
  rw [ins_q, hc]
  simp only [Bool.false_eq_true, if_false]
  rw [qins_items]
  split
  · next h => exact Or.inl ⟨h.1, h.2, rfl⟩
  · next h => exact Or.inr ⟨h, rfl⟩

theorem expect_def (sys : Sys K T R) (sh : Shared K V T R) (b : Sub K V R) (k : K) :
    expect sys sh b k = expectQ sys sh k (sndApply sys sh k (view sys k b.sent) b.snd) b.items := rfl

/-- `expect` only reads `q`, `snd` and `sent` -/
theorem expect_congr {sys : Sys K T R} {sh : Shared K V T R} {b b' : Sub K V R} (k : K)
    (hq : b'.q = b.q) (hs : b'.snd = b.snd) (ht : b'.sent = b.sent) :
    expect sys sh b' k = expect sys sh b k := by
  unfold expect; rw [hq, hs, ht]

/-- `expect` for key `k` only reads the values of `k` -/
theorem expect_sh_congr {sys : Sys K T R} {sh sh' : Shared K V T R} (b : Sub K V R) (k : K)
    (hv : sh'.val k = sh.val k) : expect sys sh' b k = expect sys sh b k := by
  have h1 : ∀ cur i, applyItem sys sh' k cur i = applyItem sys sh k cur i := by
    intro cur i; cases i <;> simp [applyItem, hv]
  have h2 : ∀ cur s, sndApply sys sh' k cur s = sndApply sys sh k cur s := by
    intro cur s; cases s <;> simp [sndApply, h1]
  unfold expect expectQ
  rw [h2]
  congr 1
  funext cur i; exact h1 cur i

/-- the value of the leaf object `(k, g)` is replaced by `v`, nothing else changes for `k`: the
expectation is unchanged, or it is the value read through that handle — `some v` now, `some old` before -/
theorem expect_setVal {sys : Sys K T R} {sh sh' : Shared K V T R} (b : Sub K V R) (k : K) (g : Nat) (v : V)
    (hv : sh'.val k = setFn (sh.val k) g v) :
    expect sys sh' b k = expect sys sh b k ∨
      (expect sys sh' b k = some v ∧ expect sys sh b k = some (sh.val k g)) := by
  have step : ∀ (i : Item K R) (c' c : Option V), (c' = c ∨ (c' = some v ∧ c = some (sh.val k g))) →
      (applyItem sys sh' k c' i = applyItem sys sh k c i ∨
        (applyItem sys sh' k c' i = some v ∧ applyItem sys sh k c i = some (sh.val k g))) := by
    intro i c' c hc
    cases i with
    | handle k' g' =>
      simp only [applyItem]
      by_cases e : k' = k
      · simp only [e, if_true, hv]
        by_cases eg : g' = g
        · subst eg; right; simp [setFn]
        · left; simp [setFn, eg]
      · simp only [e, if_false]; exact hc
    | delNote k' =>
      simp only [applyItem]
      by_cases e : k' = k
      · simp [e]
      · simp only [e, if_false]; exact hc
    | regionDel r =>
      simp only [applyItem]
      cases sys.covers r k
      · simp only [Bool.false_eq_true, if_false]; exact hc
      · simp
    | syncMarker => exact hc
  have fold : ∀ (l : List (Item K R)) (c' c : Option V), (c' = c ∨ (c' = some v ∧ c = some (sh.val k g))) →
      (expectQ sys sh' k c' l = expectQ sys sh k c l ∨
        (expectQ sys sh' k c' l = some v ∧ expectQ sys sh k c l = some (sh.val k g))) := by
    intro l
    induction l with
    | nil => intro c' c hc; exact hc
    | cons i l ih => intro c' c hc; exact ih _ _ (step i c' c hc)
  unfold expect
  refine fold _ _ _ ?_
  cases hs : b.snd with
  | got i d => exact step i _ _ (Or.inl rfl)
  | _ => exact Or.inl rfl

theorem expect_ins_noaff {sys : Sys K T R} {sh : Shared K V T R} (b : Sub K V R) {k : K}
    {i : Item K R} (h : i.aff sys k = false) : expect sys sh (b.ins i) k = expect sys sh b k := by
  rw [expect_def, expect_def, ins_snd, ins_sent]
  rcases ins_items b i with e | ⟨e, _, _⟩
  · rw [e]
  · rw [e, expectQ_append]; exact applyItem_noaff _ h

/-- appending an item that concerns `k` (a delete) determines the expectation -/
theorem expect_ins_append {sys : Sys K T R} {sh : Shared K V T R} (b : Sub K V R) {k : K}
    {i : Item K R} (hc : b.closed = false) (hn : i.coal = false) :
    expect sys sh (b.ins i) k = applyItem sys sh k (expect sys sh b k) i := by
  rw [expect_def, expect_def, ins_snd, ins_sent]
  rcases ins_items_open b i hc with ⟨h, _⟩ | ⟨_, e⟩
  · rw [hn] at h; cases h
  · rw [e, expectQ_append]; rfl

/-- inserting the current handle of `k` determines the expectation -/
theorem expect_ins_handle {sys : Sys K T R} {sh : Shared K V T R} (b : Sub K V R) {k : K} {g : Nat}
    (hc : b.closed = false) (hl : noAffAfter sys k (.handle k g) b.items) :
    expect sys sh (b.ins (.handle k g)) k = some (sh.val k g) := by
  rw [expect_def, ins_snd, ins_sent]
  rcases ins_items_open b (.handle k g) hc with ⟨_, hm, e⟩ | ⟨_, e⟩
  · rw [e]; exact expectQ_handle _ hm hl
  · rw [e, expectQ_append]; simp [expectQ, applyItem]


/-! ### what a step does to the queue's items -/

/-- the queue item a pending writer unit is announced with -/
def WUnit.item : WUnit K R → Item K R
  | .upd k g => .handle k g
  | .del k => .delNote k
  | .reg r => .regionDel r

/-- the subscriber's registered paths are compatible with the unit's notification (C06) -/
def WUnit.offered (rq : Req K T R) : WUnit K R → Bool
  | .upd k _ => rq.wants k
  | .del k => rq.wants k
  | .reg r => rq.wantsR r

theorem onShared_w2 (sys : Sys K T R) (rq : Req K T R) (b : Sub K V R) (u : WUnit K R) :
    b.onShared sys rq (.w2 u) = if b.registered && u.offered rq then b.ins u.item else b := by
  cases u <;> rfl

theorem item_aff_touches (sys : Sys K T R) (k : K) (u : WUnit K R) :
    u.item.aff sys k = u.touches sys k := by
  cases u <;> rfl

theorem walker_filter_items (b : Sub K V R) (w : Walker K) (s : List K) :
    ({ b with walker := w, since := s } : Sub K V R).items = b.items := rfl

/-- the items of a subscriber's queue change only by `ins` of a sync marker / of the current
handle of a present key, or by the sender taking the head -/
theorem substep_items {sys : Sys K T R} {rq : Req K T R} {sh : Shared K V T R} {b b' : Sub K V R}
    {l : SLabel K} (h : SubStep sys rq sh b l b') :
    b'.items = b.items ∨
    (∃ i, b'.items = (b.ins i).items ∧
      (i = .syncMarker ∨ ∃ k, i = .handle k (sh.gen k) ∧ sh.present k = true ∧ rq.walks k = true ∧
        b.status = none ∧ ∃ todo vis, b.walker = .walking todo vis)) ∨
    (∃ x, b.items = x :: b'.items) := by
  cases h
  case h4sync => exact Or.inr (Or.inl ⟨_, rfl, Or.inl rfl⟩)
  case visit k t v hwk hst _ hp hw _ =>
    exact Or.inr (Or.inl ⟨_, rfl, Or.inr ⟨k, rfl, hp, hw, hst, t, v, hwk⟩⟩)
  case finish => exact Or.inr (Or.inl ⟨_, rfl, Or.inl rfl⟩)
  case next i d rest _ hq => exact Or.inr (Or.inr ⟨i, by simp [Sub.items, hq]⟩)
  all_goals exact Or.inl rfl

/-! ### `GenInv`: queued handles are of existing generations -/

def GenInv (sh : Shared K V T R) (b : Sub K V R) : Prop :=
  ∀ k g, Item.handle k g ∈ b.items → g ≤ sh.gen k

theorem genInv_ins {sh : Shared K V T R} {b : Sub K V R} (hi : GenInv sh b) (i : Item K R)
    (h : ∀ k g, i = .handle k g → g ≤ sh.gen k) : GenInv sh (b.ins i) := by
  intro k g hm
  rcases ins_items b i with e | ⟨e, _, _⟩
  · rw [e] at hm; exact hi k g hm
  · rw [e] at hm
    rcases List.mem_append.1 hm with hm | hm
    · exact hi k g hm
    · exact h k g (by simpa using (List.mem_singleton.1 hm).symm)

theorem genInv_local {sys : Sys K T R} {rq : Req K T R} {sh : Shared K V T R} {b b' : Sub K V R}
    {l : SLabel K} (h : SubStep sys rq sh b l b') (hi : GenInv sh b) : GenInv sh b' := by
  rcases substep_items h with e | ⟨i, e, hi'⟩ | ⟨x, e⟩
  · intro k g hm; rw [e] at hm; exact hi k g hm
  · intro k g hm; rw [e] at hm
    refine genInv_ins hi i ?_ k g hm
    intro k' g' e'
    rcases hi' with rfl | ⟨k2, rfl, _, _, _, _⟩
    · cases e'
    · cases e'; exact Nat.le_refl _
  · intro k g hm; exact hi k g (e ▸ List.mem_cons_of_mem _ hm)

/-! ### `CurLast` -/

def CurLast (sys : Sys K T R) (sh : Shared K V T R) (b : Sub K V R) : Prop :=
  ∀ k, sh.present k = true → noAffAfter sys k (.handle k (sh.gen k)) b.items

theorem curLast_ins {sys : Sys K T R} {sh : Shared K V T R} {b : Sub K V R} (hi : CurLast sys sh b)
    (i : Item K R)
    (h : ∀ k, sh.present k = true → i ≠ .handle k (sh.gen k) → Item.aff sys k i = false) :
    CurLast sys sh (b.ins i) := by
  intro k hp
  rcases ins_items b i with e | ⟨e, _, hn⟩
  · rw [e]; exact hi k hp
  · rw [e]
    refine noAffAfter_snoc (hi k hp) ?_
    intro hm
    by_cases e' : i = .handle k (sh.gen k)
    · exact absurd ⟨by rw [e']; rfl, e' ▸ hm⟩ hn
    · exact h k hp e'

theorem noAffAfter_tail {sys : Sys K T R} {k : K} {h x : Item K R} {l : List (Item K R)}
    (hl : noAffAfter sys k h (x :: l)) : noAffAfter sys k h l := hl.2

theorem curLast_local {sys : Sys K T R} {rq : Req K T R} {sh : Shared K V T R} {b b' : Sub K V R}
    {l : SLabel K} (h : SubStep sys rq sh b l b') (hi : CurLast sys sh b) : CurLast sys sh b' := by
  rcases substep_items h with e | ⟨i, e, hi'⟩ | ⟨x, e⟩
  · intro k hp; rw [e]; exact hi k hp
  · intro k hp; rw [e]
    refine curLast_ins hi i ?_ k hp
    intro k' hp' hne
    rcases hi' with rfl | ⟨k2, rfl, _, _, _, _⟩
    · rfl
    · by_cases ek : k2 = k'
      · subst ek; exact absurd rfl hne
      · simp [Item.aff, ek]
  · intro k hp
    have := hi k hp
    rw [e] at this
    exact this.2


/-! ### The convergence invariant (E.1 (A)) -/

/-- the initial walk of the subscription will still visit `k` -/
def walkPending (b : Sub K V R) (k : K) : Prop :=
  b.pc = .spawn ∨ ∃ todo vis, b.walker = .walking todo vis ∧ k ∈ todo

def Good (sys : Sys K T R) (rq : Req K T R) (sh : Shared K V T R) (b : Sub K V R) (k : K) : Prop :=
  ORel (QChain sh.qlog) (expect sys sh b k) (sh.cache k) ∨
  (sh.present k = true ∧ rq.walks k = true ∧ walkPending b k) ∨
  (rq.walks k = false ∧ expect sys sh b k = none)

/-- E.1 (A), for a registered STREAM subscription without `updates_only`, for every key its
registered paths are compatible with and its ACL allows: unless a writer is between `W1`
and `W2` on `k`, draining the subscriber gives the cache's value of `k`, or the initial walk
will still visit `k`, or (`k` is streamed but not part of the snapshot) nothing is known yet.
"gives the cache's value": up to the quiet writes logged in `sh.qlog` (`ORel (QChain sh.qlog)`). -/
def Conv (sys : Sys K T R) (rq : Req K T R) (sh : Shared K V T R) (b : Sub K V R) : Prop :=
  b.registered = true → rq.updatesOnly = false → ∀ k, rq.wants k = true →
    rq.allow (sys.tgt k) = true → sh.inflight sys k = false → Good sys rq sh b k

theorem good_mono {sys : Sys K T R} {rq : Req K T R} {sh : Shared K V T R} {b b' : Sub K V R} {k : K}
    (he : expect sys sh b' k = expect sys sh b k) (hw : walkPending b k → walkPending b' k)
    (h : Good sys rq sh b k) : Good sys rq sh b' k := by
  rcases h with h | ⟨h1, h2, h3⟩ | ⟨h1, h2⟩
  · exact Or.inl (he ▸ h)
  · exact Or.inr (Or.inl ⟨h1, h2, hw h3⟩)
  · exact Or.inr (Or.inr ⟨h1, he ▸ h2⟩)

theorem expect_congr2 {sys : Sys K T R} {sh : Shared K V T R} {b b' : Sub K V R} (k : K)
    (hq : b'.q = b.q) (ht : b'.sent = b.sent)
    (hs : ∀ cur, sndApply sys sh k cur b'.snd = sndApply sys sh k cur b.snd) :
    expect sys sh b' k = expect sys sh b k := by
  unfold expect; rw [hq, ht, hs]

theorem view_snoc (sys : Sys K T R) (k : K) (l : List (Resp K V R)) (r : Resp K V R) :
    view sys k (l ++ [r]) = applyResp sys k (view sys k l) r := by
  simp [view, List.foldl_append]

theorem mkResp_apply {sys : Sys K T R} {sh : Shared K V T R} {d : Nat} {i : Item K R}
    {r : Resp K V R} {t : T} (k : K) (cur : Option V) (h : mkResp sys sh d i = some (r, t)) :
    applyResp sys k cur r = applyItem sys sh k cur i := by
  cases i with
  | handle k' g =>
    simp only [mkResp, Option.some.injEq, Prod.mk.injEq] at h
    obtain ⟨rfl, _⟩ := h
    simp only [applyResp, applyItem]
    split
    · next e => subst e; rfl
    · rfl
  | delNote k' =>
    simp only [mkResp, Option.some.injEq, Prod.mk.injEq] at h
    obtain ⟨rfl, _⟩ := h; rfl
  | regionDel r' =>
    simp only [mkResp, Option.some.injEq, Prod.mk.injEq] at h
    obtain ⟨rfl, _⟩ := h; rfl
  | syncMarker => simp [mkResp] at h

theorem mkResp_denied_noaff {sys : Sys K T R} (wf : sys.WF) {rq : Req K T R} {sh : Shared K V T R}
    {d : Nat} {i : Item K R} {r : Resp K V R} {t : T} {k : K}
    (h : mkResp sys sh d i = some (r, t)) (hd : rq.allow t = false)
    (ha : rq.allow (sys.tgt k) = true) : i.aff sys k = false := by
  cases i with
  | handle k' g =>
    simp only [mkResp, Option.some.injEq, Prod.mk.injEq] at h
    obtain ⟨_, rfl⟩ := h
    by_cases e : k' = k
    · subst e; rw [ha] at hd; cases hd
    · simp [Item.aff, e]
  | delNote k' =>
    simp only [mkResp, Option.some.injEq, Prod.mk.injEq] at h
    obtain ⟨_, rfl⟩ := h
    by_cases e : k' = k
    · subst e; rw [ha] at hd; cases hd
    · simp [Item.aff, e]
  | regionDel r' =>
    simp only [mkResp, Option.some.injEq, Prod.mk.injEq] at h
    obtain ⟨_, rfl⟩ := h
    cases hc : sys.covers r' k with
    | true => rw [← wf.covers_tgt r' k hc, ha] at hd; cases hd
    | false => simp [Item.aff, hc]
  | syncMarker => rfl

theorem mem_snapshot {sh : Shared K V T R} {rq : Req K T R} {k : K} (hk : k ∈ sh.keys)
    (hp : sh.present k = true) (hw : rq.walks k = true) : k ∈ snapshot sh rq := by
  simp [snapshot, hk, hp, hw]

theorem conv_local {sys : Sys K T R} {rq : Req K T R} {sh : Shared K V T R} {b b' : Sub K V R}
    {l : SLabel K} (hsw : sys.swap = false) (wf : sys.WF) (hsh : ShInv sys sh) (hph : Phase rq b)
    (hcl : CurLast sys sh b) (hi : Conv sys rq sh b) (h : SubStep sys rq sh b l b') :
    Conv sys rq sh b' := by
  intro hr huo k hw ha hf
  cases h
  case fin l st why => simp [Sub.finish] at hr
  case h0 hpc _ => rw [show b.registered = false from hph.pre_reg (by rw [hpc]; rfl)] at hr; cases hr
  case h1 hpc _ => rw [show b.registered = false from hph.pre_reg (by rw [hpc]; rfl)] at hr; cases hr
  case h2 hpc _ => rw [show b.registered = false from hph.pre_reg (by rw [hpc]; rfl)] at hr; cases hr
  case h3 hpc _ => rw [show b.registered = false from hph.pre_reg (by rw [hpc]; rfl)] at hr; cases hr
  case h4poll hpc _ _ =>
    rw [show b.registered = false from hph.pre_reg (by rw [hpc]; rfl)] at hr; cases hr
  case h4stream hpc _ _ =>
    rw [show b.registered = false from hph.pre_reg (by rw [hpc]; rfl)] at hr; cases hr
  case h4sync hpc _ _ =>
    have hr' : b.registered = true := by simpa using hr
    rw [hph.pre_reg (by rw [hpc]; rfl)] at hr'; cases hr'
  case register hpc _ =>
    have h1 := hph.pre_snd (by rw [hpc]; rfl)
    have h2 := hph.pre_sent (by rw [hpc]; rfl)
    have h3 := hph.pre_q (by rw [hpc]; rfl)
    have he : expect sys sh
        { b with registered := true, pc := if sys.swap then .run else .spawn,
                 since := if b.walker = .idle then sh.keys.filter sh.present else b.since } k = none := by
      show expectQ sys sh k (sndApply sys sh k (view sys k b.sent) b.snd) b.items = none
      rw [h1, h2, expectQ_noaff]
      · rfl
      · intro j hj
        obtain ⟨x, hx, rfl⟩ := List.mem_map.1 hj
        rw [h3 x hx]; rfl
    cases hp : sh.present k with
    | false => exact Or.inl (ORel.qrefl (by rw [he]; simp [Shared.cache, hp]))
    | true =>
      cases hwk : rq.walks k with
      | false => exact Or.inr (Or.inr ⟨hwk, he⟩)
      | true => exact Or.inr (Or.inl ⟨hp, hwk, Or.inl (by simp [hsw])⟩)
  case spawnUO _ _ huo' => rw [huo'] at huo; cases huo
  case spawn hpc _ =>
    have hr' : b.registered = true := hr
    have h1 := hph.pre_snd (by rw [hpc]; rfl)
    have old := hi hr' huo k hw ha hf
    have he : expect sys sh
        { (b.startWalk sh rq) with
          snd := .idle, held := heldNow sh,
          since := if b.registered then b.since else sh.keys.filter sh.present,
          pc := if sys.swap = true ∧ rq.mode = .stream then .reg else .run } k = expect sys sh b k := by
      refine expect_congr2 (b := b) k rfl rfl ?_
      intro cur; rw [h1]; rfl
    rcases old with h | ⟨hp, hwk, _⟩ | ⟨hwk, h⟩
    · exact Or.inl (he ▸ h)
    · refine Or.inr (Or.inl ⟨hp, hwk, Or.inr ⟨snapshot sh rq, [], ?_, mem_snapshot (hsh.keys k hp) hp hwk⟩⟩)
      simp [Sub.startWalk, huo]
    · exact Or.inr (Or.inr ⟨hwk, he ▸ h⟩)
  case visit k0 todo vis hwalk _ _ hp0 _ _ =>
    have hr' : b.registered = true := by simpa using hr
    have hcl0 := (hph.reg_open hr').1
    by_cases e : k0 = k
    · subst e
      refine Or.inl (ORel.qrefl ?_)
      refine (expect_congr (b := b.ins (.handle k0 (sh.gen k0))) k0 rfl rfl rfl).trans ?_
      rw [expect_ins_handle b hcl0 (hcl k0 hp0)]
      simp [Shared.cache, hp0]
    · refine good_mono (b := b) ?_ ?_ (hi hr' huo k hw ha hf)
      · refine (expect_congr (b := b.ins (.handle k0 (sh.gen k0))) k rfl rfl rfl).trans ?_
        exact expect_ins_noaff b (by simp [Item.aff, e])
      · rintro (hpc | ⟨todo', vis', hw', hk⟩)
        · exact Or.inl (by simpa using hpc)
        · rw [hwalk] at hw'; cases hw'
          exact Or.inr ⟨_, _, rfl, by simp [hk, Ne.symm e]⟩
  case finish vis hwalk _ =>
    have hr' : b.registered = true := by simpa using hr
    refine good_mono (b := b) ?_ ?_ (hi hr' huo k hw ha hf)
    · refine (expect_congr (b := b.ins .syncMarker) k rfl rfl rfl).trans ?_
      exact expect_ins_noaff b rfl
    · rintro (hpc | ⟨todo', vis', hw', hk⟩)
      · exact Or.inl (by simpa using hpc)
      · rw [hwalk] at hw'; cases hw'; cases hk
  case poll _ hm _ =>
    have hr' : b.registered = true := hr
    rw [(hph.reg_open hr').2] at hm; cases hm
  case next i d rest hs hq =>
    have hr' : b.registered = true := hr
    refine good_mono (b := b) ?_ (fun h => h) (hi hr' huo k hw ha hf)
    show expectQ sys sh k (sndApply sys sh k (view sys k b.sent) (.got i d)) (rest.map (·.1)) =
      expectQ sys sh k (sndApply sys sh k (view sys k b.sent) b.snd) (b.q.map (·.1))
    rw [hs, hq]; rfl
  case buildSync i d hs hm =>
    have hr' : b.registered = true := hr
    refine good_mono (b := b) ?_ (fun h => h) (hi hr' huo k hw ha hf)
    refine expect_congr2 (b := b) k rfl rfl ?_
    intro cur; rw [hs]
    cases i <;> simp [mkResp] at hm
    rfl
  case buildArm i d r t hs hm _ =>
    have hr' : b.registered = true := hr
    refine good_mono (b := b) ?_ (fun h => h) (hi hr' huo k hw ha hf)
    refine expect_congr2 (b := b) k rfl rfl ?_
    intro cur; rw [hs]
    exact mkResp_apply k cur hm
  case buildDrop i d r t hs hm hd _ =>
    have hr' : b.registered = true := hr
    refine good_mono (b := b) ?_ (fun h => h) (hi hr' huo k hw ha hf)
    refine expect_congr2 (b := b) k rfl rfl ?_
    intro cur; rw [hs]
    exact (applyItem_noaff cur (mkResp_denied_noaff wf hm hd ha)).symm
  case sentSync _ hs =>
    have hr' : b.registered = true := hr
    refine good_mono (b := b) ?_ (fun h => h) (hi hr' huo k hw ha hf)
    show expectQ sys sh k (sndApply sys sh k (view sys k (b.sent ++ [.sync])) .idle) b.items =
      expectQ sys sh k (sndApply sys sh k (view sys k b.sent) b.snd) b.items
    rw [hs, view_snoc]; rfl
  case sentResp r _ hs _ =>
    have hr' : b.registered = true := hr
    refine good_mono (b := b) ?_ (fun h => h) (hi hr' huo k hw ha hf)
    show expectQ sys sh k (sndApply sys sh k (view sys k (b.sent ++ [r])) .idle) b.items =
      expectQ sys sh k (sndApply sys sh k (view sys k b.sent) b.snd) b.items
    rw [hs, view_snoc]; rfl
  case sentEnd => simp [Sub.finish] at hr
  case gateClose => exact good_mono (b := b) (expect_congr k rfl rfl rfl) (fun h => h) (hi hr huo k hw ha hf)
  case gateOpen => exact good_mono (b := b) (expect_congr k rfl rfl rfl) (fun h => h) (hi hr huo k hw ha hf)

/-! ### shared steps -/

variable [DecidableEq T]

theorem onShared_items_w1 (sys : Sys K T R) (rq : Req K T R) (b : Sub K V R) (l : ShLabel K V T R)
    (h : ∀ u, l ≠ .w2 u) : (b.onShared sys rq l).items = b.items := by
  cases l with
  | w2 u => exact absurd rfl (h u)
  | _ => rfl

theorem genInv_shared {sys : Sys K T R} {rq : Req K T R} {sh sh' : Shared K V T R} {b : Sub K V R}
    {l : ShLabel K V T R} (hsh : ShInv sys sh) (h : shFire sys sh l = some sh') (hi : GenInv sh b) :
    GenInv sh' (b.onShared sys rq l) := by
  cases l with
  | tAdd t =>
    simp only [shFire, Option.some.injEq] at h; subst h; exact hi
  | w1Upd k v =>
    simp only [shFire, Option.ite_none_right_eq_some, Option.some.injEq] at h
    obtain ⟨_, rfl⟩ := h; exact hi
  | w1Quiet k v =>
    simp only [shFire, Option.ite_none_right_eq_some, Option.some.injEq] at h
    obtain ⟨_, rfl⟩ := h; exact hi
  | w1Add k v =>
    simp only [shFire, Option.ite_none_right_eq_some, Option.some.injEq] at h
    obtain ⟨_, rfl⟩ := h
    intro k' g hm
    have := hi k' g hm
    show g ≤ setFn sh.gen k (sh.gen k + 1) k'
    unfold setFn; split
    · next e => rw [e] at this; omega
    · exact this
  | w1Del ks =>
    simp only [shFire, Option.ite_none_right_eq_some, Option.some.injEq] at h
    obtain ⟨_, rfl⟩ := h; exact hi
  | w1Reg r =>
    simp only [shFire, Option.ite_none_right_eq_some, Option.some.injEq] at h
    obtain ⟨_, rfl⟩ := h; exact hi
  | w2 u =>
    simp only [shFire, Option.ite_none_right_eq_some, Option.some.injEq] at h
    obtain ⟨hu, rfl⟩ := h
    rw [onShared_w2]
    split
    · refine genInv_ins hi _ ?_
      intro k g e
      cases u with
      | upd k' g' => cases e; exact Nat.le_of_eq (hsh.upd_cur k g hu).2.symm
      | del k' => cases e
      | reg r => cases e
    · exact hi

theorem curLast_shared {sys : Sys K T R} {rq : Req K T R} {sh sh' : Shared K V T R} {b : Sub K V R}
    {l : ShLabel K V T R} (hsh : ShInv sys sh) (hgen : GenInv sh b)
    (h : shFire sys sh l = some sh') (hi : CurLast sys sh b) :
    CurLast sys sh' (b.onShared sys rq l) := by
  cases l with
  | tAdd t =>
    simp only [shFire, Option.some.injEq] at h; subst h; exact hi
  | w1Upd k v =>
    simp only [shFire, Option.ite_none_right_eq_some, Option.some.injEq] at h
    obtain ⟨_, rfl⟩ := h; exact hi
  | w1Quiet k v =>
    simp only [shFire, Option.ite_none_right_eq_some, Option.some.injEq] at h
    obtain ⟨_, rfl⟩ := h; exact hi
  | w1Add k v =>
    simp only [shFire, Option.ite_none_right_eq_some, Option.some.injEq] at h
    obtain ⟨_, rfl⟩ := h
    intro k' hp
    show noAffAfter sys k' (.handle k' (setFn sh.gen k (sh.gen k + 1) k')) b.items
    by_cases e : k' = k
    · subst e
      apply noAffAfter_of_not_mem
      intro hm
      have := hgen _ _ hm
      simp [setFn] at this
      omega
    · have hp' : sh.present k' = true := by simpa [setFn, e] using hp
      rw [setFn_other _ _ e]
      exact hi k' hp'
  | w1Del ks =>
    simp only [shFire, Option.ite_none_right_eq_some, Option.some.injEq] at h
    obtain ⟨_, rfl⟩ := h
    intro k' hp
    have hp' : sh.present k' = true := by
      simp only [Bool.and_eq_true] at hp; exact hp.1
    exact hi k' hp'
  | w1Reg r =>
    simp only [shFire, Option.ite_none_right_eq_some, Option.some.injEq] at h
    obtain ⟨_, rfl⟩ := h
    intro k' hp
    have hp' : sh.present k' = true := by
      simp only [Bool.and_eq_true] at hp; exact hp.1
    exact hi k' hp'
  | w2 u =>
    simp only [shFire, Option.ite_none_right_eq_some, Option.some.injEq] at h
    obtain ⟨hu, rfl⟩ := h
    rw [onShared_w2]
    split
    · refine curLast_ins hi _ ?_
      intro k hp hne
      cases u with
      | upd k' g' =>
        have := (hsh.upd_cur k' g' hu).2
        by_cases e : k' = k
        · subst e; subst this; exact absurd rfl hne
        · simp [WUnit.item, Item.aff, e]
      | del k' =>
        by_cases e : k' = k
        · subst e; rw [hsh.del_abs k' hu] at hp; cases hp
        · simp [WUnit.item, Item.aff, e]
      | reg r =>
        cases hc : sys.covers r k with
        | true => rw [hsh.reg_abs r k hu hc] at hp; cases hp
        | false => simp [WUnit.item, Item.aff, hc]
    · exact hi


theorem good_transfer {sys : Sys K T R} {rq : Req K T R} {sh sh' : Shared K V T R} {b b' : Sub K V R}
    {k : K} (he : expect sys sh' b' k = expect sys sh b k) (hc : sh'.cache k = sh.cache k)
    (hp : sh'.present k = sh.present k) (hw : walkPending b k → walkPending b' k)
    (hq : ∀ p ∈ sh.qlog, p ∈ sh'.qlog)
    (h : Good sys rq sh b k) : Good sys rq sh' b' k := by
  rcases h with h | ⟨h1, h2, h3⟩ | ⟨h1, h2⟩
  · exact Or.inl (by rw [he, hc]; exact h.imp (fun _ _ => QChain.mono hq))
  · exact Or.inr (Or.inl ⟨hp ▸ h1, h2, hw h3⟩)
  · exact Or.inr (Or.inr ⟨h1, he ▸ h2⟩)

/-- a quiet write of `k` (the leaf object of the current generation now holds `v`, nobody is told):
`Good` is kept, through one more link `(old, v)` of the log -/
theorem good_quiet {sys : Sys K T R} {rq : Req K T R} {sh : Shared K V T R} {b : Sub K V R} {k : K} {v : V}
    (hp0 : sh.present k = true) (sh' : Shared K V T R)
    (hval : sh'.val k = setFn (sh.val k) (sh.gen k) v) (hpres : sh'.present = sh.present)
    (hgen : sh'.gen = sh.gen) (hq : sh'.qlog = sh.qlog ++ [(sh.val k (sh.gen k), v)])
    (b' : Sub K V R) (hbq : b'.q = b.q) (hbs : b'.snd = b.snd) (hbt : b'.sent = b.sent)
    (hw : walkPending b k → walkPending b' k) (old : Good sys rq sh b k) : Good sys rq sh' b' k := by
  have hc' : sh'.cache k = some v := by
    simp [Shared.cache, hpres, hp0, hval, hgen, setFn]
  have hc : sh.cache k = some (sh.val k (sh.gen k)) := by simp [Shared.cache, hp0]
  have hex := expect_setVal (sys := sys) (sh := sh) (sh' := sh') b k (sh.gen k) v hval
  have hb : expect sys sh' b' k = expect sys sh' b k := expect_congr k hbq hbs hbt
  rcases old with h | ⟨h1, h2, h3⟩ | ⟨h1, h2⟩
  · refine Or.inl ?_
    rw [hb, hc', hq]
    rcases hex with he | ⟨he, _⟩
    · rw [he]
      rw [hc] at h
      cases hx : expect sys sh b k with
      | none => rw [hx] at h; exact h.elim
      | some a =>
        rw [hx] at h
        exact QChain.tail (QChain.mono (fun p hp => List.mem_append_left _ hp) h)
          (List.mem_append_right _ (List.mem_singleton.2 rfl))
    · rw [he]; exact QChain.refl v
  · exact Or.inr (Or.inl ⟨by rw [hpres]; exact h1, h2, hw h3⟩)
  · refine Or.inr (Or.inr ⟨h1, ?_⟩)
    rw [hb]
    rcases hex with he | ⟨_, he⟩
    · rw [he]; exact h2
    · rw [h2] at he; cases he

theorem inflight_snoc (sys : Sys K T R) (sh : Shared K V T R) (k : K) (us : List (WUnit K R))
    (h : (sh.pend ++ us).any (WUnit.touches sys k) = false) :
    sh.inflight sys k = false ∧ ∀ u ∈ us, WUnit.touches sys k u = false := by
  simp only [List.any_append, Bool.or_eq_false_iff] at h
  exact ⟨h.1, by simpa using h.2⟩

theorem inflight_erase {sys : Sys K T R} {k : K} {l : List (WUnit K R)} {u : WUnit K R}
    (h : (l.erase u).any (WUnit.touches sys k) = false) (hu : WUnit.touches sys k u = false) :
    l.any (WUnit.touches sys k) = false := by
  rw [List.any_eq_false] at h ⊢
  intro x hx
  by_cases e : x = u
  · rw [e, hu]; simp
  · exact h x ((List.mem_erase_of_ne e).2 hx)

theorem walkPending_filter {b : Sub K V R} {k : K} (f : K → Bool) (s : List K) (hk : f k = true)
    (h : walkPending b k) :
    walkPending ({ b with walker := b.walker.filter f, since := s } : Sub K V R) k := by
  rcases h with h | ⟨todo, vis, hw, hm⟩
  · exact Or.inl h
  · refine Or.inr ⟨todo.filter f, vis, ?_, by simp [hm, hk]⟩
    show b.walker.filter f = _
    rw [hw]; rfl

theorem conv_shared {sys : Sys K T R} {rq : Req K T R} {sh sh' : Shared K V T R} {b : Sub K V R}
    {l : ShLabel K V T R} (hrq : ∀ k r, rq.wants k = true → sys.covers r k = true →
      rq.wantsR r = true) (hsh : ShInv sys sh) (hph : Phase rq b)
    (hcl : CurLast sys sh b) (h : shFire sys sh l = some sh') (hi : Conv sys rq sh b) :
    Conv sys rq sh' (b.onShared sys rq l) := by
  cases l with
  | tAdd t =>
    simp only [shFire, Option.some.injEq] at h; subst h
    intro hr huo k hw ha hf
    exact good_transfer (sh := sh) (b := b) (expect_sh_congr (sh := sh) b k rfl) rfl rfl (fun h => h) (fun _ h => h) (hi hr huo k hw ha hf)
  | w1Upd k0 v =>
    simp only [shFire, Option.ite_none_right_eq_some, Option.some.injEq] at h
    obtain ⟨_, rfl⟩ := h
    intro hr huo k hw ha hf
    obtain ⟨hf1, hf2⟩ := inflight_snoc sys sh k _ hf
    have hne : k ≠ k0 := by
      intro e
      have := hf2 _ (List.mem_singleton.2 rfl)
      simp [WUnit.touches, e] at this
    refine good_transfer (sh := sh) (b := b) ?_ ?_ rfl (fun h => h) (fun _ h => h) (hi hr huo k hw ha hf1)
    · refine (expect_congr (b := b) k rfl rfl rfl).trans (expect_sh_congr (sh := sh) b k ?_)
      exact setFn_other _ _ hne
    · simp [Shared.cache, setFn_other _ _ hne]
  | w1Quiet k0 v =>
    simp only [shFire, Option.ite_none_right_eq_some, Option.some.injEq] at h
    obtain ⟨⟨hp0, _⟩, rfl⟩ := h
    intro hr huo k hw ha hf
    have hf1 : sh.inflight sys k = false := hf
    have old := hi hr huo k hw ha hf1
    have hsub : ∀ p ∈ sh.qlog, p ∈ sh.qlog ++ [(sh.val k0 (sh.gen k0), v)] :=
      fun p hp => List.mem_append_left _ hp
    by_cases hne : k = k0
    · subst hne
      refine good_quiet (b := b) (v := v) hp0 _ ?_ ?_ ?_ ?_ _ ?_ ?_ ?_ (fun h => h) old
      · exact setFn_same _ _ _
      all_goals rfl
    · refine good_transfer (sh := sh) (b := b) ?_ ?_ rfl (fun h => h) hsub old
      · refine (expect_congr (b := b) k rfl rfl rfl).trans (expect_sh_congr (sh := sh) b k ?_)
        exact setFn_other _ _ hne
      · simp [Shared.cache, setFn_other _ _ hne]
  | w1Add k0 v =>
    simp only [shFire, Option.ite_none_right_eq_some, Option.some.injEq] at h
    obtain ⟨_, rfl⟩ := h
    intro hr huo k hw ha hf
    obtain ⟨hf1, hf2⟩ := inflight_snoc sys sh k _ hf
    have hne : k ≠ k0 := by
      intro e
      have := hf2 _ (List.mem_singleton.2 rfl)
      simp [WUnit.touches, e] at this
    refine good_transfer (sh := sh) (b := b) ?_ ?_ ?_ (fun h => h) (fun _ h => h) (hi hr huo k hw ha hf1)
    · refine (expect_congr (b := b) k rfl rfl rfl).trans (expect_sh_congr (sh := sh) b k ?_)
      exact setFn_other _ _ hne
    · simp [Shared.cache, setFn_other _ _ hne]
    · exact setFn_other _ _ hne
  | w1Del ks =>
    simp only [shFire, Option.ite_none_right_eq_some, Option.some.injEq] at h
    obtain ⟨_, rfl⟩ := h
    intro hr huo k hw ha hf
    obtain ⟨hf1, hf2⟩ := inflight_snoc sys sh k _ hf
    have hnk : k ∉ ks := by
      intro hk
      have := hf2 (.del k) (List.mem_map_of_mem hk)
      simp [WUnit.touches] at this
    refine good_transfer (sh := sh) (b := b) ?_ ?_ ?_ ?_ (fun _ h => h) (hi hr huo k hw ha hf1)
    · exact (expect_congr (b := b) k rfl rfl rfl).trans (expect_sh_congr (sh := sh) b k rfl)
    · simp [Shared.cache, hnk]
    · simp [hnk]
    · exact walkPending_filter _ _ (by simp [hnk])
  | w1Reg r =>
    simp only [shFire, Option.ite_none_right_eq_some, Option.some.injEq] at h
    obtain ⟨_, rfl⟩ := h
    intro hr huo k hw ha hf
    obtain ⟨hf1, hf2⟩ := inflight_snoc sys sh k _ hf
    have hnk : sys.covers r k = false := by
      have := hf2 _ (List.mem_singleton.2 rfl)
      simpa [WUnit.touches] using this
    refine good_transfer (sh := sh) (b := b) ?_ ?_ ?_ ?_ (fun _ h => h) (hi hr huo k hw ha hf1)
    · exact (expect_congr (b := b) k rfl rfl rfl).trans (expect_sh_congr (sh := sh) b k rfl)
    · simp [Shared.cache, hnk]
    · simp [hnk]
    · exact walkPending_filter _ _ (by simp [hnk])
  | w2 u =>
    simp only [shFire, Option.ite_none_right_eq_some, Option.some.injEq] at h
    obtain ⟨hu, rfl⟩ := h
    rw [onShared_w2]
    intro hr huo k hw ha hf
    have hr' : b.registered = true := by
      split at hr
      · simpa using hr
      · exact hr
    have hopen := (hph.reg_open hr').1
    cases ht : WUnit.touches sys k u with
    | false =>
      have hf1 : sh.inflight sys k = false := inflight_erase hf ht
      have old := hi hr' huo k hw ha hf1
      split
      · refine good_transfer (sh := sh) (b := b) ?_ rfl rfl ?_ (fun _ h => h) old
        · exact (expect_ins_noaff b (by rw [item_aff_touches]; exact ht)).trans
            (expect_sh_congr (sh := sh) b k rfl)
        · rintro (hpc | ⟨todo, vis, hwk, hm⟩)
          · exact Or.inl (by simpa using hpc)
          · exact Or.inr ⟨todo, vis, by simpa using hwk, hm⟩
      · exact good_transfer (sh := sh) (b := b) (expect_sh_congr (sh := sh) b k rfl) rfl rfl (fun h => h) (fun _ h => h) old
    | true =>
      have hoff : u.offered rq = true := by
        cases u with
        | upd k' g => have : k' = k := by simpa [WUnit.touches] using ht
                      subst this; exact hw
        | del k' => have : k' = k := by simpa [WUnit.touches] using ht
                    subst this; exact hw
        | reg r => exact hrq k r hw (by simpa [WUnit.touches] using ht)
      rw [if_pos (by simp [hr', hoff])]
      refine Or.inl (ORel.qrefl ?_)
      cases u with
      | upd k' g =>
        have : k' = k := by simpa [WUnit.touches] using ht
        subst this
        obtain ⟨hp, hg⟩ := hsh.upd_cur k' g hu
        subst hg
        show expect sys _ (b.ins (.handle k' (sh.gen k'))) k' = _
        refine Eq.trans (expect_sh_congr (sh := sh) _ k' ?_) ?_
        · rfl
        rw [expect_ins_handle b hopen (hcl k' hp)]
        simp [Shared.cache, hp]
      | del k' =>
        have : k' = k := by simpa [WUnit.touches] using ht
        subst this
        have hp := hsh.del_abs k' hu
        show expect sys _ (b.ins (.delNote k')) k' = _
        refine Eq.trans (expect_sh_congr (sh := sh) _ k' ?_) ?_
        · rfl
        rw [expect_ins_append b hopen rfl]
        simp [Shared.cache, hp, applyItem]
      | reg r =>
        have hc : sys.covers r k = true := by simpa [WUnit.touches] using ht
        have hp := hsh.reg_abs r k hu hc
        show expect sys _ (b.ins (.regionDel r)) k = _
        refine Eq.trans (expect_sh_congr (sh := sh) _ k ?_) ?_
        · rfl
        rw [expect_ins_append b hopen rfl]
        simp [Shared.cache, hp, applyItem, hc]

end
end SubLTS
end Gnmi
