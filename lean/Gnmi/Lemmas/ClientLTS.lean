import Gnmi.Model.ClientRun
/-!
Helper lemmas for `Props/C18.lean`: soundness of the executable scenario schedule with respect
to the transition relation, and the inductive invariants of the client LTS.
-/
set_option linter.unusedSimpArgs false
set_option linter.unusedVariables false
namespace Gnmi
namespace ClientLTS

variable {N : Type}

/-! ## The executable schedule only takes transitions of the LTS -/

theorem sNext_sound {wrap : Bool} {s : Script N} {b : Bool} {c c' : Cfg N} {l : Label}
    (h : sNext wrap s b c = some (l, c')) : Step wrap s c l c' := by
  unfold sNext at h
  split at h
  next hp =>
    cases wrap <;> simp at h <;> obtain ⟨rfl, rfl⟩ := h
    · exact .plainStart rfl hp
    · exact .subInit rfl hp
  next hp =>
    split at h
    next hd => simp at h; obtain ⟨rfl, rfl⟩ := h; exact .connAbort hp hd
    next hd =>
      split at h <;> simp at h
      next hc => obtain ⟨rfl, rfl⟩ := h; exact .connFail hp hc
      next hc => obtain ⟨rfl, rfl⟩ := h; exact .connSubFail hp hc
      next hc => obtain ⟨rfl, rfl⟩ := h; exact .connOk hp hc
  next hp => simp at h; obtain ⟨rfl, rfl⟩ := h; exact .install hp
  next hp =>
    split at h
    next rest hi =>
      split at h <;> simp at h
      next hr => obtain ⟨rfl, rfl⟩ := h; exact .recvWait hp hi hr
    next m rest hi =>
      split at h <;> simp at h
      next hr => obtain ⟨rfl, rfl⟩ := h; simp at hr; exact .recvAbort hp hr.1
      next hr => obtain ⟨rfl, rfl⟩ := h; exact .recvMsg hp hi
    next hi =>
      split at h
      next hr => simp at h; obtain ⟨rfl, rfl⟩ := h; simp at hr; exact .recvAbort hp hr.1
      next hr =>
        split at h <;> simp at h
        next ht => obtain ⟨rfl, rfl⟩ := h; exact .recvTermErr hp hi ht
        next ht => obtain ⟨rfl, rfl⟩ := h; exact .recvEof hp hi ht
  next e rest r hp => simp at h; obtain ⟨rfl, rfl⟩ := h; exact .handle hp
  next r hp => simp at h; obtain ⟨rfl, rfl⟩ := h; exact .handled hp
  next hp => simp at h; obtain ⟨rfl, rfl⟩ := h; exact .check hp
  next hp => simp at h; obtain ⟨rfl, rfl⟩ := h; exact .runErr hp
  next e hp =>
    cases wrap <;> simp at h <;> obtain ⟨rfl, rfl⟩ := h
    · exact .plainRet rfl hp
    · exact .disc rfl hp
  next e hp =>
    split at h <;> simp at h <;> obtain ⟨rfl, rfl⟩ := h
    next hd => exact .ctxExit hp hd
    next hd => exact .sleepStart hp (by simpa using hd)
  next hp => simp at h; obtain ⟨rfl, rfl⟩ := h; exact .wake hp
  next hp => simp at h; obtain ⟨rfl, rfl⟩ := h; exact .reset hp
  next hp => simp at h; obtain ⟨rfl, rfl⟩ := h; exact .finish hp
  next => simp at h

theorem kNext_sound {wrap : Bool} {s : Script N} {c c' : Cfg N} {l : Label}
    (h : kNext wrap c = some (l, c')) : Step wrap s c l c' := by
  unfold kNext at h
  split at h
  next hp =>
    cases wrap <;> simp at h <;> obtain ⟨rfl, rfl⟩ := h
    · exact .plainClose rfl hp
    · exact .closeCs rfl hp
  next sd hp => simp at h; obtain ⟨rfl, rfl⟩ := h; exact .closeInner hp
  next sd e hp =>
    split at h <;> simp at h
    next hc =>
      obtain ⟨rfl, rfl⟩ := h
      refine .closeWait hp ?_
      intro hs; subst hs; simpa using hc
  next => simp at h

theorem envCancel_sound {wrap : Bool} {s : Script N} {c c' : Cfg N} {l : Label}
    (h : envCancel c = some (l, c')) : Step wrap s c l c' := by
  unfold envCancel at h
  split at h <;> simp at h
  next hp => obtain ⟨rfl, rfl⟩ := h; exact .parentCancel (by simpa using hp)

theorem runS_reach {wrap : Bool} {s : Script NKind} {b : Bool} {stop : Cfg NKind → Bool} :
    ∀ (fuel : Nat) (c : Cfg NKind), Reach wrap s c → Reach wrap s (runS wrap s b stop fuel c)
  | 0, c, h => by simpa [runS] using h
  | fuel + 1, c, h => by
      unfold runS
      split
      · exact h
      · split
        · exact h
        · next l c' hn => exact runS_reach fuel c' (.step h (sNext_sound hn))

theorem runK_reach {wrap : Bool} {s : Script NKind} :
    ∀ (fuel : Nat) (c : Cfg NKind), Reach wrap s c → Reach wrap s (runK wrap fuel c)
  | 0, c, h => by simpa [runK] using h
  | fuel + 1, c, h => by
      unfold runK
      split
      · exact h
      · next l c' hn => exact runK_reach fuel c' (.step h (kNext_sound hn))

theorem cancelNow_reach {wrap : Bool} {s : Script NKind} {c : Cfg NKind} (h : Reach wrap s c) :
    Reach wrap s (cancelNow c) := by
  unfold cancelNow
  split
  · exact h
  · next l c' hn => exact .step h (envCancel_sound hn)

/-- every configuration the driver's scenario schedule ends in is reachable in the LTS -/
theorem exec_reach (sc : Scenario) : Reach sc.wrap (scriptOf sc) (runScenario sc).final := by
  unfold runScenario
  simp only
  apply runK_reach
  apply runS_reach
  split
  · exact cancelNow_reach (runS_reach _ _ .init)
  · exact runK_reach _ _ (runS_reach _ _ .init)

/-! ## Small vocabulary on program counters -/

@[simp] def SPc.isIdle : SPc N → Bool
  | .idle => true
  | _ => false

@[simp] def SPc.isReturned : SPc N → Bool
  | .returned _ => true
  | _ => false

/-- pcs of the reconnect loop proper (never reached by the plain clients) -/
@[simp] def SPc.isLoop : SPc N → Bool
  | .ctxCheck _ => true
  | .sleeping => true
  | .resetCb => true
  | .finishing => true
  | _ => false

@[simp] def KPc.isIdle : KPc → Bool
  | .idle => true
  | _ => false

/-- the `subscribeDone` value `Close` read in its critical section was non-nil -/
@[simp] def KPc.sd : KPc → Bool
  | .idle => false
  | .inner sd => sd
  | .waiting sd _ => sd
  | .returned sd _ => sd

@[simp] def KPc.isReturned : KPc → Bool
  | .returned _ _ => true
  | _ => false

/-- split a goal about the successor of a transition into one goal per branch of the atomic
section, with every state update unfolded (`t` closes each) -/
macro "lts_cases " h:ident " => " t:tacticSeq : tactic =>
  `(tactic| (
    cases $h:ident
    case handled r _ => cases r <;> (simp only [Cfg.doHandled] at *; ($t))
    case check _ => unfold Cfg.doCheck; split <;> ($t)
    case closeInner _ _ => unfold Cfg.doBcClose; split <;> ($t)
    case plainClose _ _ => unfold Cfg.doBcClose; split <;> ($t)
    all_goals ($t)))

/-! ## Invariant A: the `initDone` / `Close` hand-shake -/

structure InvA (wrap : Bool) (c : Cfg N) : Prop where
  cancelSet : c.cancelSet = (wrap && !c.spc.isIdle)
  sdSet : c.sdSet = c.cancelSet
  rcClosed : c.rcClosed = (wrap && !c.kpc.isIdle)
  cancelled : c.cancelled = (c.rcClosed && c.cancelSet)
  calls : c.cancelCalls = if c.cancelled then 1 else 0
  sdClosed : wrap = true → c.sdClosed = c.spc.isReturned
  sdCaptured : c.kpc.sd = true → c.cancelSet = true
  plainK : wrap = false → c.kpc.isIdle = true ∨ c.kpc.isReturned = true

theorem invA_init (wrap : Bool) : InvA wrap (init : Cfg N) := by
  constructor <;> simp [init]

theorem invA_step {wrap : Bool} {s : Script N} {c c' : Cfg N} {l : Label}
    (hi : InvA wrap c) (hs : Step wrap s c l c') : InvA wrap c' := by
  obtain ⟨h1, h2, h3, h4, h5, h6, h7, h8⟩ := hi
  lts_cases hs =>
    constructor <;>
    simp_all [Cfg.doSubInit, Cfg.doPlainStart, Cfg.doConnFail, Cfg.doConnOk, Cfg.doInstall,
      Cfg.doRecvMsg, Cfg.doRecvWait, Cfg.doHandle, Cfg.doRunErr, Cfg.doEof,
      Cfg.doPlainRet, Cfg.doDisc, Cfg.doReset, Cfg.doFinish, Cfg.doCloseCs]

/-- the plain clients never enter the reconnect loop -/
theorem plainS_step {s : Script N} {c c' : Cfg N} {l : Label}
    (hi : c.spc.isLoop = false) (hs : Step false s c l c') : c'.spc.isLoop = false := by
  lts_cases hs =>
    simp_all [Cfg.doSubInit, Cfg.doPlainStart, Cfg.doConnFail, Cfg.doConnOk, Cfg.doInstall,
      Cfg.doRecvMsg, Cfg.doRecvWait, Cfg.doHandle, Cfg.doRunErr, Cfg.doEof,
      Cfg.doPlainRet, Cfg.doDisc, Cfg.doReset, Cfg.doFinish, Cfg.doCloseCs]

theorem plainS_reach {s : Script N} {c : Cfg N} (h : Reach false s c) : c.spc.isLoop = false := by
  induction h with
  | init => simp [init]
  | step _ hs ih => exact plainS_step ih hs

theorem invA_reach {wrap : Bool} {s : Script N} {c : Cfg N} (h : Reach wrap s c) : InvA wrap c := by
  induction h with
  | init => exact invA_init wrap
  | step _ hs ih => exact invA_step ih hs

/-! ## The variant (ranking function) -/

def wItem : Item N → Nat
  | .msg m => m.notis.length + 5
  | .wait => 1

def wItems : List (Item N) → Nat
  | [] => 0
  | i :: r => wItem i + wItems r

/-- remaining work of goroutine S up to its return, *assuming no further backoff sleep is
started*: remaining loop phases, plus the messages the current (or, while sleeping / before the
reset callback, the next) stream can still hand out -/
def sRank (s : Script N) (c : Cfg N) : Nat :=
  match c.spc with
  | .returned _ => 0
  | .finishing => 1
  | .ctxCheck _ => 2
  | .innerRet _ => 3
  | .runErr => 4
  | .recv => 6 + wItems c.items
  | .check => 7 + wItems c.items
  | .handling evs _ => 8 + wItems c.items + evs.length
  | .install => 7 + wItems c.items
  | .connect => 8 + wItems (s c.att).items
  | .resetCb => 9 + wItems (s (c.att + 1)).items
  | .sleeping => 10 + wItems (s (c.att + 1)).items
  | .idle => 9 + wItems (s c.att).items

def kRank (c : Cfg N) : Nat :=
  match c.kpc with
  | .idle => 3
  | .inner _ => 2
  | .waiting _ _ => 1
  | .returned _ _ => 0

/-- the variant: S's remaining phases + K's remaining phases + the one-shot environment step -/
def variant (s : Script N) (c : Cfg N) : Nat :=
  sRank s c + kRank c + (!c.parentC).toNat

theorem msgEvents_length_le (a i : Nat) (b : Bool) (m : Msg N) :
    (msgEvents a i b m).length ≤ m.notis.length + 1 := by
  unfold msgEvents; cases b <;> simp <;> omega

/-- every transition except the start of a backoff sleep strictly decreases the variant -/
theorem variant_step {wrap : Bool} {s : Script N} {c c' : Cfg N} {l : Label}
    (hs : Step wrap s c l c') (hl : l ≠ .sleepStart) : variant s c' < variant s c := by
  cases hs
  case sleepStart => exact absurd rfl hl
  case recvMsg m rest hp hi =>
    have := msgEvents_length_le c.att c.mi c.connected m
    simp only [variant, sRank, kRank, Cfg.doRecvMsg, hp, hi, wItems, wItem]
    omega
  case handled r hp => cases r <;> simp [variant, sRank, kRank, Cfg.doHandled, hp] <;> omega
  case check hp => unfold Cfg.doCheck; split <;> simp [variant, sRank, kRank, hp] <;> omega
  case closeInner sd hp => unfold Cfg.doBcClose; split <;> simp [variant, sRank, kRank, hp]
  case plainClose hw hp => unfold Cfg.doBcClose; split <;> simp [variant, sRank, kRank, hp]
  all_goals
    simp_all [variant, sRank, kRank, wItems, wItem, Cfg.doSubInit, Cfg.doPlainStart, Cfg.doConnFail,
      Cfg.doConnOk, Cfg.doInstall, Cfg.doRecvWait, Cfg.doHandle, Cfg.doRunErr, Cfg.doEof,
      Cfg.doPlainRet, Cfg.doDisc, Cfg.doReset, Cfg.doFinish, Cfg.doCloseCs] <;> omega

/-- the loop can only be re-entered through a backoff sleep, and that needs a live context -/
theorem sleepStart_live {wrap : Bool} {s : Script N} {c c' : Cfg N}
    (hs : Step wrap s c .sleepStart c') : c.ctxDone = false ∧ ∃ e, c.spc = .ctxCheck e := by
  cases hs; exact ⟨by assumption, _, by assumption⟩

/-- *doomed*: the context of the inner Subscribe is done, or will be as soon as `initDone` runs
(Close went first) -/
def Doomed (wrap : Bool) (c : Cfg N) : Prop :=
  c.ctxDone = true ∨ (wrap = true ∧ c.rcClosed = true ∧ c.spc.isIdle = true)

theorem doomed_step {wrap : Bool} {s : Script N} {c c' : Cfg N} {l : Label}
    (hd : Doomed wrap c) (hs : Step wrap s c l c') : Doomed wrap c' := by
  unfold Doomed Cfg.ctxDone at *
  lts_cases hs =>
    simp_all [Cfg.doSubInit, Cfg.doPlainStart, Cfg.doConnFail, Cfg.doConnOk, Cfg.doInstall,
      Cfg.doRecvMsg, Cfg.doRecvWait, Cfg.doHandle, Cfg.doRunErr, Cfg.doEof,
      Cfg.doPlainRet, Cfg.doDisc, Cfg.doReset, Cfg.doFinish, Cfg.doCloseCs] <;> grind

theorem doomed_no_sleepStart {wrap : Bool} {s : Script N} {c c' : Cfg N} {l : Label}
    (hd : Doomed wrap c) (hs : Step wrap s c l c') : l ≠ .sleepStart := by
  rintro rfl
  obtain ⟨h1, e, h2⟩ := sleepStart_live hs
  rcases hd with h | ⟨_, _, h⟩
  · simp [h1] at h
  · simp [h2] at h

/-- once doomed, every run is shorter than the variant -/
theorem doomed_run_bounded {wrap : Bool} {s : Script N} {c c' : Cfg N} {ls : List Label}
    (hr : Run wrap s c ls c') (hd : Doomed wrap c) :
    ls.length + variant s c' ≤ variant s c ∧ Doomed wrap c' ∧ Label.sleepStart ∉ ls := by
  induction hr with
  | nil => simp [hd]
  | cons hs _ ih =>
      have hne := doomed_no_sleepStart hd hs
      have hv := variant_step hs hne
      obtain ⟨h1, h2, h3⟩ := ih (doomed_step hd hs)
      refine ⟨by simp; omega, h2, ?_⟩
      simp [h3]; exact fun h => hne h.symm

end ClientLTS
end Gnmi
