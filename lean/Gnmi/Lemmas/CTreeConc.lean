import Gnmi.Model.CTreeConc
import Gnmi.Lemmas.CTree
import Gnmi.Props.C09
/-!
Helper lemmas for `Props/C10.lean`: algebra of `get`/`put`/`add` on the trie, and the
inductive invariant of the locking-protocol LTS of `Model/CTreeConc.lean`.
-/
namespace Gnmi
namespace CC
open Trie

section Algebra
variable {V : Type}

@[simp] theorem get_nil (t : Trie V) : get t [] = some t := by cases t <;> rfl

mutual
theorem get_append : ∀ (t : Trie V) (a b : Path), get t (a ++ b) = (get t a).bind (fun n => get n b)
  | t, [], b => by simp
  | .branch cs, k :: a, b => by
      simp only [List.cons_append, Trie.get]
      exact getL_append cs k a b
  | .empty, _ :: _, b => by simp [Trie.get]
  | .leaf _, _ :: _, b => by simp [Trie.get]
theorem getL_append : ∀ (cs : List (String × Trie V)) (k : String) (a b : Path),
    getL cs k (a ++ b) = (getL cs k a).bind (fun n => get n b)
  | [], _, _, _ => by simp [getL]
  | (k', t) :: cs, k, a, b => by
      simp only [getL]
      split
      · exact get_append t a b
      · exact getL_append cs k a b
end

theorem getL_none_of_nil : ∀ (cs : List (String × Trie V)) (k : String) (z : Path),
    getL cs k [] = none → getL cs k z = none
  | [], _, _, _ => by simp [getL]
  | (k', t) :: cs, k, z, h => by
      simp only [getL] at h ⊢
      split
      · rename_i hk; simp [hk] at h
      · rename_i hk; simp only [hk, if_false] at h; exact getL_none_of_nil cs k z h

theorem keys_of_getL : ∀ (cs : List (String × Trie V)) (k : String),
    (getL cs k []).isSome = true ↔ k ∈ cs.map (·.1)
  | [], _ => by simp [getL]
  | (k', t) :: cs, k => by
      simp only [getL, List.map_cons, List.mem_cons]
      by_cases hk : k' = k
      · simp [hk]
      · simp only [hk, if_false, keys_of_getL cs k]
        constructor
        · exact Or.inr
        · rintro (h | h)
          · exact absurd h.symm hk
          · exact h

mutual
theorem add_local : ∀ (t : Trie V) (x r : Path) (v : V) (nd : Trie V), get t x = some nd →
    add t (x ++ r) v = (add nd r v).map (put t x)
  | t, [], r, v, nd, h => by
      simp only [get_nil, Option.some.injEq] at h; subst h
      simp only [List.nil_append]
      cases add t r v <;> simp [put]
  | .branch cs, k :: x, r, v, nd, h => by
      simp only [Trie.get] at h
      simp only [List.cons_append, add, addL_local cs k x r v nd h, Option.map_map]
      congr 1
  | .empty, _ :: _, _, _, _, h => by simp [Trie.get] at h
  | .leaf _, _ :: _, _, _, _, h => by simp [Trie.get] at h
theorem addL_local : ∀ (cs : List (String × Trie V)) (k : String) (x r : Path) (v : V) (nd : Trie V),
    getL cs k x = some nd → addL cs k (x ++ r) v = (add nd r v).map (putL cs k x)
  | [], _, _, _, _, _, h => by simp [getL] at h
  | (k', t) :: cs, k, x, r, v, nd, h => by
      simp only [getL] at h
      simp only [addL]
      by_cases hk : k' = k
      · simp only [hk, if_true] at h ⊢
        rw [add_local t x r v nd h, Option.map_map]
        congr 1
        funext n'
        simp [putL]
      · simp only [hk, if_false] at h ⊢
        rw [addL_local cs k x r v nd h, Option.map_map]
        congr 1
        funext n'
        simp [putL, hk]
end

mutual
theorem get_put_prefix : ∀ (t : Trie V) (x z : Path) (nd nd' : Trie V), get t x = some nd →
    get (put t x nd') (x ++ z) = get nd' z
  | t, [], z, nd, nd', _ => by simp [put]
  | .branch cs, k :: x, z, nd, nd', h => by
      simp only [Trie.get] at h
      simp only [put, List.cons_append, Trie.get]
      exact getL_putL_prefix cs k x z nd nd' h
  | .empty, _ :: _, _, _, _, h => by simp [Trie.get] at h
  | .leaf _, _ :: _, _, _, _, h => by simp [Trie.get] at h
theorem getL_putL_prefix : ∀ (cs : List (String × Trie V)) (k : String) (x z : Path) (nd nd' : Trie V),
    getL cs k x = some nd → getL (putL cs k x nd') k (x ++ z) = get nd' z
  | [], _, _, _, _, _, h => by simp [getL] at h
  | (k', t) :: cs, k, x, z, nd, nd', h => by
      simp only [getL] at h
      simp only [putL]
      by_cases hk : k' = k
      · simp only [hk, if_true] at h ⊢
        simp only [getL, if_true]
        exact get_put_prefix t x z nd nd' h
      · simp only [hk, if_false] at h ⊢
        simp only [getL, hk, if_false]
        exact getL_putL_prefix cs k x z nd nd' h
end

theorem putL_keys : ∀ (cs : List (String × Trie V)) (k : String) (x : Path) (nd' : Trie V),
    (putL cs k x nd').map (·.1) = cs.map (·.1)
  | [], _, _, _ => by simp [putL]
  | (k', t) :: cs, k, x, nd' => by
      simp only [putL]
      split
      · simp
      · simp [putL_keys cs k x nd']

theorem addL_fresh : ∀ (cs : List (String × Trie V)) (k : String) (r : Path) (v : V),
    getL cs k [] = none → addL cs k r v = some (cs ++ [(k, chain r v)])
  | [], _, _, _, _ => by simp [addL]
  | (k', t) :: cs, k, r, v, h => by
      simp only [getL] at h
      by_cases hk : k' = k
      · simp [hk] at h
      · simp only [hk, if_false] at h
        simp [addL, hk, addL_fresh cs k r v h]

/-- `slowAdd` after a successful re-check is the sequential `add` on the locked node -/
theorem add_attach (nd : Trie V) (k : String) (r : Path) (v : V)
    (h1 : isLeaf nd = false) (h2 : hasChild nd k = false) :
    add nd (k :: r) v = some (attach nd k (chain r v)) := by
  cases nd with
  | empty => rfl
  | leaf w => simp [isLeaf] at h1
  | branch cs =>
    simp only [hasChild, Option.isSome_eq_false_iff, Option.isNone_iff_eq_none] at h2
    simp [add, attach, addL_fresh cs k r v h2]

theorem getL_append_other : ∀ (cs : List (String × Trie V)) (k k' : String) (c : Trie V) (z : Path),
    k' ≠ k → getL (cs ++ [(k, c)]) k' z = getL cs k' z
  | [], k, k', c, z, h => by simp [getL, Ne.symm h]
  | (k0, t) :: cs, k, k', c, z, h => by
      simp only [List.cons_append, getL]
      split
      · rfl
      · exact getL_append_other cs k k' c z h

/-- what a local write at a node leaves alone: everything strictly below that exists -/
def LocalOK (nd nd' : Trie V) : Prop :=
  ∀ z, z ≠ [] → (Trie.get nd z).isSome = true → Trie.get nd' z = Trie.get nd z

theorem localOK_attach (nd : Trie V) (k : String) (c : Trie V) (h2 : hasChild nd k = false) :
    LocalOK nd (attach nd k c) := by
  intro z hz hex
  cases z with
  | nil => exact absurd rfl hz
  | cons k' z' =>
    cases nd with
    | empty => simp [Trie.get] at hex
    | leaf w => simp [Trie.get] at hex
    | branch cs =>
      simp only [hasChild, Option.isSome_eq_false_iff, Option.isNone_iff_eq_none] at h2
      simp only [Trie.get] at hex
      have hk : k' ≠ k := by
        intro e; subst e
        rw [getL_none_of_nil cs k' z' h2] at hex; cases hex
      simp only [attach, Trie.get]
      exact getL_append_other cs k k' c z' hk

theorem localOK_of_not_branch (nd nd' : Trie V) (h : isBranch nd = false) : LocalOK nd nd' := by
  intro z hz hex
  cases z with
  | nil => exact absurd rfl hz
  | cons k' z' =>
    cases nd with
    | empty => simp [Trie.get] at hex
    | leaf w => simp [Trie.get] at hex
    | branch cs => simp [isBranch] at h

theorem get_child (t : Trie V) (x : Path) (k : String) (nd : Trie V) (h : Trie.get t x = some nd) :
    (Trie.get t (x ++ [k])).isSome = hasChild nd k := by
  rw [get_append, h]
  cases nd <;> simp [hasChild, Trie.get]

end Algebra

/-- the part of `get` the lock protocol freezes: the node's own field -/
theorem shallow_branch (cs : List (String × Trie Nat)) :
    shallow (some (.branch cs)) = .branch (cs.map (·.1)) := rfl

mutual
theorem shallow_put_other : ∀ (t : Trie Nat) (x y : Path) (nd nd' : Trie Nat), get t x = some nd →
    ¬ x <+: y → shallow (get (put t x nd') y) = shallow (get t y)
  | t, [], y, _, _, _, hp => absurd (List.nil_prefix) hp
  | .branch cs, k :: x, [], nd, nd', _, _ => by
      simp only [put, get_nil, shallow_branch, putL_keys]
  | .branch cs, k :: x, k2 :: y, nd, nd', h, hp => by
      simp only [Trie.get] at h
      simp only [put, Trie.get]
      apply shallowL_put_other cs k x k2 y nd nd' h
      by_cases hk : k2 = k
      · right
        intro hxy
        apply hp
        rw [hk]
        exact List.cons_prefix_cons.2 ⟨rfl, hxy⟩
      · exact Or.inl hk
  | .empty, _ :: _, _, _, _, h, _ => by simp [Trie.get] at h
  | .leaf _, _ :: _, _, _, _, h, _ => by simp [Trie.get] at h
theorem shallowL_put_other : ∀ (cs : List (String × Trie Nat)) (k : String) (x : Path) (k2 : String)
    (y : Path) (nd nd' : Trie Nat), getL cs k x = some nd → (k2 ≠ k ∨ ¬ x <+: y) →
    shallow (getL (putL cs k x nd') k2 y) = shallow (getL cs k2 y)
  | [], _, _, _, _, _, _, h, _ => by simp [getL] at h
  | (k', t) :: cs, k, x, k2, y, nd, nd', h, hp => by
      simp only [getL] at h
      simp only [putL]
      by_cases hk : k' = k
      · simp only [hk, if_true] at h ⊢
        simp only [getL]
        by_cases hk2 : k = k2
        · simp only [hk2, if_true]
          rcases hp with hp | hp
          · exact absurd hk2.symm hp
          · exact shallow_put_other t x y nd nd' h hp
        · simp only [hk2, if_false]
      · simp only [hk, if_false] at h ⊢
        simp only [getL]
        by_cases hk2 : k' = k2
        · simp only [hk2, if_true]
        · simp only [hk2, if_false]
          exact shallowL_put_other cs k x k2 y nd nd' h hp
end

/-! ## The inductive invariant of the locking protocol -/

section Invariant
variable {n : Nat}

@[simp] theorem track_thr (s : Cfg n) : (track s).thr = s.thr := rfl
@[simp] theorem track_trie (s : Cfg n) : (track s).trie = s.trie := rfl
@[simp] theorem track_log (s : Cfg n) : (track s).log = s.log := rfl
@[simp] theorem track_gens (s : Cfg n) : (track s).gens = s.gens := rfl
@[simp] theorem track_dead (s : Cfg n) : (track s).dead = s.dead := rfl

theorem wOK_iff (s : Cfg n) (τ : Fin n) (x : Path) :
    wOK s τ x = true ↔ ∀ σ : Fin n, σ ≠ τ → ∀ f ∈ (s.thr σ).stack, f.node ≠ x := by
  simp [wOK]

theorem rOK_iff (s : Cfg n) (τ : Fin n) (x : Path) :
    rOK s τ x = true ↔ ∀ σ : Fin n, σ ≠ τ → ∀ f ∈ (s.thr σ).stack, ¬ (f.node = x ∧ f.mode = .W) := by
  simp [rOK]

/-- every step changes only the acting thread -/
theorem eff_thr_other (s : Cfg n) (l : Label n) (σ : Fin n) (h : σ ≠ l.tid) :
    (eff s l).thr σ = s.thr σ := by
  unfold eff
  rw [track_thr]
  cases l <;> simp only [Label.tid] at h <;> simp only [eff0, termAt, addDone] <;>
    (repeat' split) <;> simp [setThr, h, addLog]

/-- the locks a thread holds are the chain of prefixes of one path, root at the bottom -/
def Chain : List Frame → Prop
  | [] => True
  | [f] => f.node = []
  | f :: g :: r => (∃ k, f.node = g.node ++ [k]) ∧ Chain (g :: r)

def isAddGet : Call → Bool
  | .add _ _ => true
  | .get _ => true
  | _ => false

structure WinOK (s : Cfg n) (th : Thread) : Prop where
  ex : (Trie.get s.trie th.cur).isSome = true
  chain : Chain (⟨th.cur, .W, []⟩ :: th.stack)
  call : ∃ p v, th.call = .add p v ∧ th.cur <+: p

structure Inv (s : Cfg n) : Prop where
  chain : ∀ σ, Chain (s.thr σ).stack
  excl : ∀ σ σ' f f', f ∈ (s.thr σ).stack → f' ∈ (s.thr σ').stack → f.node = f'.node →
    f.mode = .W → σ = σ'
  ex : ∀ σ f, f ∈ (s.thr σ).stack → (Trie.get s.trie f.node).isSome = true
  idle : ∀ σ, (s.thr σ).pc = .idle ∨ (s.thr σ).pc = .start → (s.thr σ).stack = []
  win : ∀ σ, (s.thr σ).pc = .window → WinOK s (s.thr σ)
  pre : ∀ σ f, f ∈ (s.thr σ).stack → isAddGet (s.thr σ).call = true → f.node <+: (s.thr σ).call.path
  wf : WFRoot s.trie
  hinv : ∀ σ h, h ∈ (s.thr σ).hs → s.gens h.path = h.gen → ∃ w, Trie.get s.trie h.path = some (.leaf w)
  hgen : ∀ σ h, h ∈ (s.thr σ).hs → h.gen ≤ s.gens h.path

/-- how a step can change the shared trie: a local write at a node nobody else holds (and
below all of the writer's own locks), or a delete while nobody holds the root -/
inductive Mut (s : Cfg n) (τ : Fin n) (t' : Trie Nat) (g' : Path → Nat) : Prop where
  | put (y : Path) (nd nd' : Trie Nat) : Trie.get s.trie y = some nd →
      (∀ σ, σ ≠ τ → ∀ f ∈ (s.thr σ).stack, f.node ≠ y) →
      (∀ f ∈ (s.thr τ).stack, f.node <+: y) →
      LocalOK nd nd' → (isLeaf nd = true → isLeaf nd' = true) →
      t' = put s.trie y nd' → g' = s.gens → Mut s τ t' g'
  | del (c : Nat → Bool) (q : Path) : (∀ σ, ∀ f ∈ (s.thr σ).stack, f.node ≠ []) →
      t' = (Trie.del c s.trie q).1 → g' = bumpGens s.gens (Trie.del c s.trie q).2 → Mut s τ t' g'

theorem addDone_trie (s : Cfg n) (τ : Fin n) (t' : Trie Nat) (ok : Bool) (p : Path) (v : Nat)
    (hc : (s.thr τ).call = .add p v) : (addDone s τ t' ok).trie = t' := by
  simp [addDone, hc, setThr, addLog]

theorem addDone_gens (s : Cfg n) (τ : Fin n) (t' : Trie Nat) (ok : Bool) :
    (addDone s τ t' ok).gens = s.gens := by
  simp only [addDone]; split <;> simp [setThr, addLog]

theorem mem_of_top {th : Thread} {f : Frame} (h : th.top = some f) : f ∈ th.stack := by
  simp only [Thread.top] at h
  exact List.mem_of_mem_head? h

theorem stack_of_top {th : Thread} {f : Frame} (h : th.top = some f) : ∃ r, th.stack = f :: r := by
  simp only [Thread.top] at h
  cases hs : th.stack with
  | nil => simp [hs] at h
  | cons g r => simp [hs] at h; exact ⟨r, by rw [h]⟩

/-- in a chain every held node is a prefix of the deepest one -/
theorem chain_prefix : ∀ (st : List Frame) (f : Frame) (r : List Frame), st = f :: r → Chain st →
    ∀ g ∈ st, g.node <+: f.node
  | _, f, [], rfl, _, g, hg => by
      simp only [List.mem_singleton] at hg; subst hg; exact List.prefix_refl _
  | _, f, f2 :: r, rfl, hc, g, hg => by
      obtain ⟨⟨k, hk⟩, hc2⟩ := hc
      rcases List.mem_cons.1 hg with h | h
      · subst h; exact List.prefix_refl _
      · have := chain_prefix (f2 :: r) f2 r rfl hc2 g h
        rw [hk]
        exact this.trans (List.prefix_append _ _)

theorem chain_root : ∀ (st : List Frame), st ≠ [] → Chain st → ∃ g ∈ st, g.node = []
  | [], h, _ => absurd rfl h
  | [f], _, hc => ⟨f, by simp, hc⟩
  | f :: f2 :: r, _, hc => by
      obtain ⟨g, hg, hn⟩ := chain_root (f2 :: r) (by simp) hc.2
      exact ⟨g, List.mem_cons_of_mem _ hg, hn⟩

theorem termAt_mut (s : Cfg n) (τ : Fin n) (y : Path) (p : Path) (v : Nat)
    (hc : (s.thr τ).call = .add p v) (hex : (Trie.get s.trie y).isSome = true)
    (hw : ∀ σ, σ ≠ τ → ∀ f ∈ (s.thr σ).stack, f.node ≠ y)
    (hown : ∀ f ∈ (s.thr τ).stack, f.node <+: y) :
    (termAt s τ y).trie = s.trie ∧ (termAt s τ y).gens = s.gens ∨
      Mut s τ (termAt s τ y).trie (termAt s τ y).gens := by
  obtain ⟨nd, hnd⟩ := Option.isSome_iff_exists.1 hex
  simp only [termAt, hc, hnd]
  by_cases hb : isBranch nd = true
  · left; simp [hb, addDone_trie s τ _ _ p v hc, addDone_gens]
  · right
    simp only [hb, Bool.false_eq_true, if_false, addDone_trie s τ _ _ p v hc, addDone_gens]
    exact Mut.put y nd (.leaf v) hnd hw hown (localOK_of_not_branch _ _ (by simpa using hb))
      (fun _ => rfl) rfl rfl

theorem trie_step {s s' : Cfg n} {l : Label n} (hi : Inv s) (h : Step true s l s') :
    (s'.trie = s.trie ∧ s'.gens = s.gens) ∨ Mut s l.tid s'.trie s'.gens := by
  obtain ⟨hg, rfl⟩ := h
  unfold eff
  rw [track_trie, track_gens]
  cases l with
  | termRoot τ =>
    simp only [guard, Bool.and_eq_true, beq_iff_eq, wOK_iff] at hg
    obtain ⟨⟨hpc, hw⟩, hg⟩ := hg
    simp only [eff0, Label.tid]
    split at hg
    · rename_i p v hcall
      refine termAt_mut s τ [] p v hcall (by simp) hw ?_
      rw [hi.idle τ (Or.inr hpc)]; simp
    · cases hg
  | termWrite τ =>
    simp only [guard, Bool.and_eq_true, beq_iff_eq, Bool.true_or, Bool.true_and] at hg
    obtain ⟨hpc, hg⟩ := hg
    simp only [eff0, Label.tid]
    split at hg
    · rename_i p v f hcall htop
      split at hg
      · rename_i k nd hrest hget
        simp only [Bool.and_eq_true, wOK_iff] at hg
        simp only [htop, hrest]
        refine termAt_mut s τ _ p v hcall (by rw [get_child _ _ _ _ hget]; exact hg.1) hg.2 ?_
        obtain ⟨r, hr⟩ := stack_of_top htop
        intro g hgm
        exact (chain_prefix _ f r hr (hi.chain τ) g hgm).trans (List.prefix_append _ _)
      · cases hg
    · cases hg
  | insert τ =>
    simp only [guard, Bool.and_eq_true, beq_iff_eq] at hg
    obtain ⟨hpc, hg⟩ := hg
    simp only [eff0, Label.tid]
    split at hg
    · rename_i p v f hcall htop
      simp only [Bool.and_eq_true, beq_iff_eq] at hg
      obtain ⟨hm, hg⟩ := hg
      split at hg
      · rename_i k r nd hrest hget
        simp only [Bool.and_eq_true, Bool.not_eq_true'] at hg
        right
        rw [addDone_trie s τ _ _ p v hcall, addDone_gens]
        obtain ⟨r', hr'⟩ := stack_of_top htop
        refine Mut.put f.node nd _ hget ?_ (chain_prefix _ f r' hr' (hi.chain τ))
          (localOK_attach nd k _ hg.2) (by simp [hg.1]) rfl rfl
        intro σ hσ g hgm hgn
        exact hσ (hi.excl τ σ f g (mem_of_top htop) hgm hgn.symm hm).symm
      · cases hg
    · cases hg
  | clobber τ => simp [guard] at hg
  | delete τ =>
    simp only [guard, Bool.and_eq_true, beq_iff_eq, wOK_iff] at hg
    obtain ⟨⟨hpc, hw⟩, hg⟩ := hg
    simp only [eff0, Label.tid]
    split at hg
    · rename_i q m hcall
      right
      refine Mut.del (delCond m) q ?_ (by simp [setThr, addLog]) (by simp [setThr, addLog])
      intro σ f hf
      by_cases hσ : σ = τ
      · subst hσ; rw [hi.idle σ (Or.inr hpc)] at hf; cases hf
      · exact hw σ hσ f hf
    · cases hg
  | hupd τ h v =>
    simp only [guard, Bool.and_eq_true, beq_iff_eq, Bool.or_eq_true, Bool.not_eq_true', wOK_iff] at hg
    obtain ⟨⟨hpc, his⟩, hg⟩ := hg
    simp only [eff0, Label.tid]
    by_cases ha : attached s h = true
    · simp only [ha, if_true]
      right
      rcases hg with hg | hg
      · rw [ha] at hg; cases hg
      · simp only [issued, decide_eq_true_eq] at his
        obtain ⟨σ, hσ⟩ := his
        simp only [attached, beq_iff_eq] at ha
        obtain ⟨w, hw⟩ := hi.hinv σ h hσ ha
        refine Mut.put h.path (.leaf w) (.leaf v) hw hg ?_ (localOK_of_not_branch _ _ rfl)
          (fun _ => rfl) (by simp [setThr, addLog]) (by simp [setThr, addLog])
        rw [hi.idle τ (Or.inl hpc)]; simp
    · left
      simp [ha, setThr]
  | _ =>
    left
    simp only [eff0, addDone]
    repeat' split
    all_goals first | exact ⟨rfl, rfl⟩ | simp [setThr, addLog]

def childIn : Shallow → String → Bool
  | .branch keys, k => decide (k ∈ keys)
  | _, _ => false

theorem get_child_shallow (t : Trie Nat) (x : Path) (k : String) :
    (Trie.get t (x ++ [k])).isSome = childIn (shallow (Trie.get t x)) k := by
  rw [get_append]
  cases h : Trie.get t x with
  | none => simp [shallow, childIn]
  | some nd =>
    cases nd with
    | empty => simp [shallow, childIn, Trie.get]
    | leaf w => simp [shallow, childIn, Trie.get]
    | branch cs =>
      simp only [Option.bind_some, Trie.get, shallow, childIn]
      rw [Bool.eq_iff_iff, keys_of_getL]
      simp

theorem isSome_of_shallow_eq {a b : Option (Trie Nat)} (h : shallow a = shallow b) :
    a.isSome = b.isSome := by
  cases a with
  | none => cases b with
    | none => rfl
    | some y => cases y <;> simp [shallow] at h
  | some x => cases b with
    | none => cases x <;> simp [shallow] at h
    | some y => rfl

theorem leaf_of_shallow_eq {a : Option (Trie Nat)} {w : Nat} (h : shallow a = shallow (some (.leaf w))) :
    a = some (.leaf w) := by
  cases a with
  | none => simp [shallow] at h
  | some x => cases x <;> simp [shallow] at h; rw [h]

/-- the frozen-ancestors core: a mutation by `τ` does not touch the own field of any node on
which another thread holds a lock -/
theorem frozen_of_mut {s : Cfg n} {τ : Fin n} {t' : Trie Nat} {g' : Path → Nat} (hi : Inv s) (hm : Mut s τ t' g')
    (σ : Fin n) (hσ : σ ≠ τ) (f : Frame) (hf : f ∈ (s.thr σ).stack) :
    shallow (Trie.get t' f.node) = shallow (Trie.get s.trie f.node) := by
  cases hm with
  | put y nd nd' hget hw hown hloc hleaf ht _ =>
    subst ht
    by_cases hp : y <+: f.node
    · obtain ⟨z, hz⟩ := hp
      have hzne : z ≠ [] := by
        intro e; subst e
        exact hw σ hσ f hf (by simpa using hz.symm)
      have hex := hi.ex σ f hf
      rw [← hz, get_put_prefix _ _ _ _ _ hget, get_append, hget, Option.bind_some]
      rw [← hz, get_append, hget, Option.bind_some] at hex
      rw [hloc z hzne hex]
    · exact shallow_put_other _ _ _ _ _ hget hp
  | del c q hroot ht _ =>
    have hne : (s.thr σ).stack ≠ [] := by intro e; rw [e] at hf; cases hf
    obtain ⟨g, hg, hgn⟩ := chain_root _ hne (hi.chain σ)
    exact absurd hgn (hroot σ g hg)

theorem ex_of_mut {s : Cfg n} {τ : Fin n} {t' : Trie Nat} {g' : Path → Nat} (hi : Inv s) (hm : Mut s τ t' g')
    (σ : Fin n) (f : Frame) (hf : f ∈ (s.thr σ).stack) :
    (Trie.get t' f.node).isSome = true := by
  by_cases hσ : σ = τ
  · subst hσ
    cases hm with
    | put y nd nd' hget hw hown hloc hleaf ht _ =>
      subst ht
      by_cases he : f.node = y
      · have := get_put_prefix s.trie y [] nd nd' hget
        rw [List.append_nil] at this
        rw [he, this]; simp
      · have hp : ¬ y <+: f.node := by
          intro h
          exact he (List.IsPrefix.eq_of_length_le (hown f hf) h.length_le)
        rw [isSome_of_shallow_eq (shallow_put_other _ _ _ _ _ hget hp)]
        exact hi.ex σ f hf
    | del c q hroot ht _ =>
      have hne : (s.thr σ).stack ≠ [] := by intro e; rw [e] at hf; cases hf
      obtain ⟨g, hg, hgn⟩ := chain_root _ hne (hi.chain σ)
      exact absurd hgn (hroot σ g hg)
  · rw [isSome_of_shallow_eq (frozen_of_mut hi hm σ hσ f hf)]
    exact hi.ex σ f hf

/-- a step either leaves log and trie alone or appends one sequential operation to the log and
applies exactly that operation to the trie, with the sequential result -/
def Lin (s : Cfg n) (τ : Fin n) (s' : Cfg n) : Prop :=
  (s'.log = s.log ∧ s'.trie = s.trie) ∨
  ∃ op, s'.log = s.log ++ [⟨τ.val, (s.thr τ).seq, op, (C09.stepTrie s.trie op).2⟩] ∧
    s'.trie = (C09.stepTrie s.trie op).1

theorem addDone_log (s : Cfg n) (τ : Fin n) (t' : Trie Nat) (ok : Bool) (p : Path) (v : Nat)
    (hc : (s.thr τ).call = .add p v) :
    (addDone s τ t' ok).log = s.log ++ [⟨τ.val, (s.thr τ).seq, .add p v, .status ok⟩] := by
  simp [addDone, hc, setThr, addLog]

theorem restAt_eq {c : Call} {x : Path} (h : x <+: c.path) : x ++ restAt c x = c.path := by
  obtain ⟨z, hz⟩ := h
  simp [restAt, ← hz]

theorem addDone_lin (s : Cfg n) (τ : Fin n) (t' : Trie Nat) (ok : Bool) (p : Path) (v : Nat)
    (hc : (s.thr τ).call = .add p v)
    (h : C09.stepTrie s.trie (.add p v) = (t', .status ok)) : Lin s τ (addDone s τ t' ok) := by
  right
  refine ⟨.add p v, ?_, ?_⟩
  · rw [addDone_log s τ t' ok p v hc, h]
  · rw [addDone_trie s τ t' ok p v hc, h]

theorem termAt_lin (s : Cfg n) (τ : Fin n) (p : Path) (v : Nat) (cnd : Trie Nat)
    (hc : (s.thr τ).call = .add p v) (hget : Trie.get s.trie p = some cnd) :
    Lin s τ (termAt s τ p) := by
  have hl := add_local s.trie p [] v cnd hget
  rw [List.append_nil] at hl
  simp only [termAt, hc, hget]
  cases cnd with
  | branch cs =>
    simp only [isBranch, if_true]
    apply addDone_lin s τ _ _ p v hc
    simp [C09.stepTrie, hl, Trie.add]
  | empty =>
    simp only [isBranch, Bool.false_eq_true, if_false]
    apply addDone_lin s τ _ _ p v hc
    simp [C09.stepTrie, hl, Trie.add]
  | leaf w =>
    simp only [isBranch, Bool.false_eq_true, if_false]
    apply addDone_lin s τ _ _ p v hc
    simp [C09.stepTrie, hl, Trie.add]

theorem get_miss (nd : Trie Nat) (k : String) (r : Path) (h : hasChild nd k = false) :
    Trie.get nd (k :: r) = none := by
  cases nd with
  | empty => rfl
  | leaf w => rfl
  | branch cs =>
    simp only [hasChild, Option.isSome_eq_false_iff, Option.isNone_iff_eq_none] at h
    simp only [Trie.get]
    exact getL_none_of_nil cs k r h

theorem lin_step {s s' : Cfg n} {l : Label n} (hi : Inv s) (h : Step true s l s') :
    Lin s l.tid s' := by
  obtain ⟨hg, rfl⟩ := h
  suffices h0 : Lin s l.tid (eff0 s l) from h0
  cases l with
  | termRoot τ =>
    simp only [guard, Bool.and_eq_true, beq_iff_eq, wOK_iff] at hg
    obtain ⟨⟨hpc, hw⟩, hg⟩ := hg
    simp only [eff0, Label.tid]
    split at hg
    · rename_i p v hcall
      have hp : p = [] := by simpa using hg
      subst hp
      exact termAt_lin s τ [] v s.trie hcall (by simp)
    · cases hg
  | termWrite τ =>
    simp only [guard, Bool.and_eq_true, beq_iff_eq, Bool.true_or, Bool.true_and] at hg
    obtain ⟨hpc, hg⟩ := hg
    simp only [eff0, Label.tid]
    split at hg
    · rename_i p v f hcall htop
      split at hg
      · rename_i k nd hrest hget
        simp only [Bool.and_eq_true, wOK_iff] at hg
        simp only [htop, hrest]
        have hpre := hi.pre τ f (mem_of_top htop) (by rw [hcall]; rfl)
        have hp : f.node ++ [k] = p := by
          have := restAt_eq hpre
          rw [hrest, hcall] at this; exact this
        have hex : (Trie.get s.trie (f.node ++ [k])).isSome = true := by
          rw [get_child _ _ _ _ hget]; exact hg.1
        obtain ⟨cnd, hcnd⟩ := Option.isSome_iff_exists.1 hex
        rw [hp] at hcnd ⊢
        exact termAt_lin s τ p v cnd hcall hcnd
      · cases hg
    · cases hg
  | insert τ =>
    simp only [guard, Bool.and_eq_true, beq_iff_eq] at hg
    obtain ⟨hpc, hg⟩ := hg
    simp only [eff0, Label.tid]
    split at hg
    · rename_i p v f hcall htop
      simp only [Bool.and_eq_true, beq_iff_eq] at hg
      obtain ⟨hm, hg⟩ := hg
      split at hg
      · rename_i k r nd hrest hget
        simp only [Bool.and_eq_true, Bool.not_eq_true'] at hg
        have hpre := hi.pre τ f (mem_of_top htop) (by rw [hcall]; rfl)
        have hp : f.node ++ k :: r = p := by
          have := restAt_eq hpre
          rw [hrest, hcall] at this; exact this
        apply addDone_lin s τ _ _ p v hcall
        have hl := add_local s.trie f.node (k :: r) v nd hget
        rw [hp, add_attach nd k r v hg.1 hg.2] at hl
        simp [C09.stepTrie, hl]
      · cases hg
    · cases hg
  | clobber τ => simp [guard] at hg
  | addErr τ =>
    simp only [guard, Bool.and_eq_true, beq_iff_eq] at hg
    obtain ⟨hpc, hg⟩ := hg
    simp only [eff0, Label.tid]
    split at hg
    · rename_i p v f hcall htop
      split at hg
      · rename_i k r nd hrest hget
        have hpre := hi.pre τ f (mem_of_top htop) (by rw [hcall]; rfl)
        have hp : f.node ++ k :: r = p := by
          have := restAt_eq hpre
          rw [hrest, hcall] at this; exact this
        apply addDone_lin s τ _ _ p v hcall
        have hl := add_local s.trie f.node (k :: r) v nd hget
        rw [hp] at hl
        cases nd with
        | leaf w => simp [C09.stepTrie, hl, Trie.add]
        | empty => simp [isLeaf] at hg
        | branch cs => simp [isLeaf] at hg
      · cases hg
    · cases hg
  | getHit τ =>
    simp only [guard, Bool.and_eq_true, beq_iff_eq] at hg
    obtain ⟨hpc, hg⟩ := hg
    simp only [eff0, Label.tid]
    split at hg
    · rename_i p f hcall htop
      have hrest : restAt (s.thr τ).call f.node = [] := by simpa using hg
      have hpre := hi.pre τ f (mem_of_top htop) (by rw [hcall]; rfl)
      have hp : f.node = p := by
        have := restAt_eq hpre
        rw [hrest, hcall, List.append_nil] at this; exact this
      right
      refine ⟨.get p, ?_, ?_⟩
      · simp [setThr, addLog, C09.stepTrie, hp]
      · simp [setThr, addLog, C09.stepTrie]
    · cases hg
  | getMiss τ =>
    simp only [guard, Bool.and_eq_true, beq_iff_eq] at hg
    obtain ⟨hpc, hg⟩ := hg
    simp only [eff0, Label.tid]
    split at hg
    · rename_i p f hcall htop
      split at hg
      · rename_i k r nd hrest hget
        have hpre := hi.pre τ f (mem_of_top htop) (by rw [hcall]; rfl)
        have hp : f.node ++ k :: r = p := by
          have := restAt_eq hpre
          rw [hrest, hcall] at this; exact this
        have hnone : Trie.get s.trie p = none := by
          rw [← hp, get_append, hget, Option.bind_some]
          exact get_miss nd k r (by simpa using hg)
        right
        refine ⟨.get p, ?_, ?_⟩
        · simp [hcall, setThr, addLog, C09.stepTrie, hnone, C09.kindOfTrie]
        · simp [hcall, setThr, addLog, C09.stepTrie]
      · cases hg
    · cases hg
  | delete τ =>
    simp only [guard, Bool.and_eq_true, beq_iff_eq, wOK_iff] at hg
    obtain ⟨⟨hpc, hw⟩, hg⟩ := hg
    simp only [eff0, Label.tid]
    split at hg
    · rename_i q m hcall
      right
      cases m with
      | none => exact ⟨.del q, by simp [setThr, addLog, C09.stepTrie, delOp, delCond], by simp [setThr, addLog, C09.stepTrie, delCond]⟩
      | some m => exact ⟨.delIf q m, by simp [setThr, addLog, C09.stepTrie, delOp, delCond], by simp [setThr, addLog, C09.stepTrie, delCond]⟩
    · cases hg
  | hval τ h =>
    simp only [eff0, Label.tid]
    by_cases ha : attached s h = true
    · right
      exact ⟨.get h.path, by simp [ha, setThr, addLog, C09.stepTrie], by simp [ha, setThr, addLog, C09.stepTrie]⟩
    · left
      simp [ha, setThr]
  | hupd τ h v =>
    simp only [guard, Bool.and_eq_true, beq_iff_eq, Bool.or_eq_true, Bool.not_eq_true', wOK_iff] at hg
    obtain ⟨⟨hpc, his⟩, hg⟩ := hg
    simp only [eff0, Label.tid]
    by_cases ha : attached s h = true
    · right
      simp only [issued, decide_eq_true_eq] at his
      obtain ⟨σ, hσ⟩ := his
      have ha' := ha
      simp only [attached, beq_iff_eq] at ha'
      obtain ⟨w, hw⟩ := hi.hinv σ h hσ ha'
      have hl := add_local s.trie h.path [] v (.leaf w) hw
      rw [List.append_nil] at hl
      refine ⟨.upd h.path v, ?_, ?_⟩
      · simp [ha, setThr, addLog, C09.stepTrie, Trie.upd, hw, hl, Trie.add]
      · simp [ha, setThr, addLog, C09.stepTrie, Trie.upd, hw, hl, Trie.add]
    · left
      simp [ha, setThr]
  | _ =>
    left
    simp only [eff0]
    repeat' split
    all_goals first | exact ⟨rfl, rfl⟩ | simp [setThr, addLog]

theorem get_leaf_mem (t : Trie Nat) (hw : WFRoot t) (p : Path) (w : Nat) :
    Trie.get t p = some (.leaf w) ↔ (p, w) ∈ walk t := by
  constructor
  · intro hg
    obtain ⟨_, h2⟩ := get_walk t p _ hw hg
    have : ([], w) ∈ (walk t).filterMap (strip p) := by rw [← h2]; simp [Trie.walk]
    obtain ⟨kv, hkv, hs⟩ := List.mem_filterMap.1 this
    simp only [strip] at hs
    split at hs
    · rename_i hp
      simp only [Option.some.injEq, Prod.mk.injEq, List.drop_eq_nil_iff] at hs
      have hpre := List.isPrefixOf_iff_prefix.1 hp
      have : kv.1 = p := (List.IsPrefix.eq_of_length_le hpre hs.1).symm
      obtain ⟨a, b⟩ := kv
      simp only at this hs
      rw [← this, ← hs.2]; exact hkv
    · cases hs
  · intro hm
    obtain ⟨v0, hv0⟩ := (C09.get_leaf_iff t p hw).2 ⟨(p, w), hm, rfl⟩
    obtain ⟨_, h2⟩ := get_walk t p _ hw hv0
    have h3 : ([], w) ∈ (walk t).filterMap (strip p) :=
      List.mem_filterMap.2 ⟨(p, w), hm, by simp [strip]⟩
    rw [← h2] at h3
    simp only [Trie.walk, List.mem_singleton, Prod.mk.injEq, true_and] at h3
    rw [hv0, h3]

theorem wf_stepTrie (t : Trie Nat) (op : C09.Op) (h : WFRoot t) : WFRoot (C09.stepTrie t op).1 :=
  (C09.step_refines t (C09.content t) op ⟨h, List.Perm.refl _⟩).2.1

theorem wf_of_lin {s s' : Cfg n} {τ : Fin n} (hw : WFRoot s.trie) (h : Lin s τ s') : WFRoot s'.trie := by
  rcases h with ⟨_, h⟩ | ⟨op, _, h⟩
  · rw [h]; exact hw
  · rw [h]; exact wf_stepTrie _ _ hw

/-- a leaf survives (as a leaf, with its value unless it is the node written) any local write -/
theorem leaf_of_put {t : Trie Nat} {y : Path} {nd nd' : Trie Nat} (hget : Trie.get t y = some nd)
    (hloc : LocalOK nd nd') (hleaf : isLeaf nd = true → isLeaf nd' = true)
    {x : Path} {w : Nat} (hx : Trie.get t x = some (.leaf w)) :
    ∃ w', Trie.get (put t y nd') x = some (.leaf w') := by
  by_cases hp : y <+: x
  · obtain ⟨z, hz⟩ := hp
    subst hz
    rw [get_put_prefix _ _ _ _ _ hget]
    rw [get_append, hget, Option.bind_some] at hx
    by_cases hzn : z = []
    · subst hzn
      simp only [get_nil, Option.some.injEq] at hx ⊢
      have := hleaf (by rw [hx]; rfl)
      cases nd' with
      | leaf w' => exact ⟨w', rfl⟩
      | empty => simp [isLeaf] at this
      | branch cs => simp [isLeaf] at this
    · rw [hloc z hzn (by rw [hx]; rfl), hx]; exact ⟨w, rfl⟩
  · have := shallow_put_other t y x nd nd' hget hp
    rw [hx] at this
    exact ⟨w, leaf_of_shallow_eq this⟩

theorem bumpGens_ge (g : Path → Nat) (r : List (Path × Nat)) (x : Path) : g x ≤ bumpGens g r x := by
  simp only [bumpGens]; split <;> omega

/-- an attached leaf that a delete does not report stays where it is -/
theorem leaf_of_del {t : Trie Nat} (hw : WFRoot t) (c : Nat → Bool) (q : Path) {x : Path} {w : Nat}
    (hx : Trie.get t x = some (.leaf w)) (hnr : (Trie.del c t q).2.any (fun kv => kv.1 == x) = false) :
    Trie.get (Trie.del c t q).1 x = some (.leaf w) := by
  obtain ⟨hwf', hspec⟩ := del_spec c t q hw
  have hm := (get_leaf_mem t hw x w).1 hx
  rw [get_leaf_mem _ hwf' x w, hspec.rest_eq]
  rw [hspec.removed_eq] at hnr
  simp only [List.any_eq_false, List.mem_filter, beq_iff_eq, and_imp] at hnr
  simp only [List.mem_filter, Bool.not_eq_true']
  refine ⟨hm, ?_⟩
  cases hf : (qmatches q (x, w).1 && c (x, w).2) with
  | false => rfl
  | true => exact absurd rfl (hnr (x, w) hm hf)

/-- what the acting thread looks like after its step -/
structure OwnOK (s : Cfg n) (τ : Fin n) (s' : Cfg n) : Prop where
  chain : Chain (s'.thr τ).stack
  frames : ∀ f ∈ (s'.thr τ).stack,
    (∃ g ∈ (s.thr τ).stack, g.node = f.node ∧ g.mode = f.mode) ∨
    ((Trie.get s.trie f.node).isSome = true ∧ s'.trie = s.trie ∧
      ∀ σ, σ ≠ τ → ∀ g ∈ (s.thr σ).stack, g.node = f.node → g.mode = .R ∧ f.mode = .R)
  idle : (s'.thr τ).pc = .idle ∨ (s'.thr τ).pc = .start → (s'.thr τ).stack = []
  win : (s'.thr τ).pc = .window → s'.trie = s.trie ∧ WinOK s (s'.thr τ)
  pre : ∀ f ∈ (s'.thr τ).stack, isAddGet (s'.thr τ).call = true → f.node <+: (s'.thr τ).call.path
  hs : ∀ h ∈ (s'.thr τ).hs, h ∈ (s.thr τ).hs ∨
    (s'.trie = s.trie ∧ s'.gens = s.gens ∧ h.gen = s.gens h.path ∧
      ∃ w, Trie.get s.trie h.path = some (.leaf w))

theorem chain_cons_mem {f : Frame} {st : List Frame} (h : Chain (f :: st)) (hne : st ≠ []) :
    ∃ g k, g ∈ st ∧ f.node = g.node ++ [k] := by
  cases st with
  | nil => exact absurd rfl hne
  | cons g r => obtain ⟨⟨k, hk⟩, _⟩ := h; exact ⟨g, k, by simp, hk⟩

theorem inv_of_own {s s' : Cfg n} {l : Label n} (hi : Inv s) (h : Step true s l s')
    (ho : OwnOK s l.tid s') : Inv s' := by
  have hother : ∀ σ, σ ≠ l.tid → s'.thr σ = s.thr σ := by
    intro σ hσ; rw [h.2]; exact eff_thr_other s l σ hσ
  have hex' : ∀ σ f, f ∈ (s.thr σ).stack → (Trie.get s'.trie f.node).isSome = true := by
    intro σ f hf
    rcases trie_step hi h with ht | hm
    · rw [ht.1]; exact hi.ex σ f hf
    · exact ex_of_mut hi hm σ f hf
  have hwf' : WFRoot s'.trie := wf_of_lin hi.wf (lin_step hi h)
  have hgens : ∀ x, s.gens x ≤ s'.gens x := by
    intro x
    rcases trie_step hi h with ht | hm
    · rw [ht.2]; exact Nat.le_refl _
    · cases hm with
      | put y nd nd' _ _ _ _ _ _ hg => rw [hg]; exact Nat.le_refl _
      | del c q _ _ hg => rw [hg]; exact bumpGens_ge _ _ _
  -- handles issued before the step
  have hold : ∀ hd : Handle, (s.gens hd.path = hd.gen → ∃ w, Trie.get s.trie hd.path = some (.leaf w)) →
      hd.gen ≤ s.gens hd.path → s'.gens hd.path = hd.gen →
      ∃ w, Trie.get s'.trie hd.path = some (.leaf w) := by
    intro hd hleaf hle hatt'
    have hatt : s.gens hd.path = hd.gen := Nat.le_antisymm (hatt' ▸ hgens hd.path) hle
    obtain ⟨w, hw⟩ := hleaf hatt
    rcases trie_step hi h with ht | hm
    · rw [ht.1]; exact ⟨w, hw⟩
    · cases hm with
      | put y nd nd' hget _ _ hloc hleaf ht _ =>
        rw [ht]; exact leaf_of_put hget hloc hleaf hw
      | del c q _ ht hg =>
        rw [ht]
        refine ⟨w, leaf_of_del hi.wf c q hw ?_⟩
        rw [hg] at hatt'
        simp only [bumpGens] at hatt'
        split at hatt'
        · omega
        · rename_i hany
          rw [Bool.not_eq_true] at hany
          exact hany
  constructor
  · -- chain
    intro σ
    by_cases hσ : σ = l.tid
    · subst hσ; exact ho.chain
    · rw [hother σ hσ]; exact hi.chain σ
  · -- excl
    intro σ σ' f f' hf hf' hn hm
    by_cases hσ : σ = l.tid <;> by_cases hσ' : σ' = l.tid
    · rw [hσ, hσ']
    · subst hσ
      rw [hother σ' hσ'] at hf'
      rcases ho.frames f hf with ⟨g, hg, hgn, hgm⟩ | ⟨_, _, hnew⟩
      · exact hi.excl _ σ' g f' hg hf' (hgn.trans hn) (hgm.trans hm)
      · have := (hnew σ' hσ' f' hf' hn.symm).2
        rw [hm] at this; cases this
    · subst hσ'
      rw [hother σ hσ] at hf
      rcases ho.frames f' hf' with ⟨g, hg, hgn, hgm⟩ | ⟨_, _, hnew⟩
      · exact hi.excl σ _ f g hf hg (hn.trans hgn.symm) hm
      · have := (hnew σ hσ f hf hn).1
        rw [hm] at this; cases this
    · rw [hother σ hσ] at hf
      rw [hother σ' hσ'] at hf'
      exact hi.excl σ σ' f f' hf hf' hn hm
  · -- ex
    intro σ f hf
    by_cases hσ : σ = l.tid
    · subst hσ
      rcases ho.frames f hf with ⟨g, hg, hgn, _⟩ | ⟨hex, ht, _⟩
      · rw [← hgn]; exact hex' _ g hg
      · rw [ht]; exact hex
    · rw [hother σ hσ] at hf; exact hex' σ f hf
  · -- idle
    intro σ
    by_cases hσ : σ = l.tid
    · subst hσ; exact ho.idle
    · rw [hother σ hσ]; exact hi.idle σ
  · -- win
    intro σ hpc
    by_cases hσ : σ = l.tid
    · subst hσ
      obtain ⟨ht, hw⟩ := ho.win hpc
      exact ⟨by rw [ht]; exact hw.ex, hw.chain, hw.call⟩
    · rw [hother σ hσ] at hpc ⊢
      have hw := hi.win σ hpc
      refine ⟨?_, hw.chain, hw.call⟩
      by_cases hst : (s.thr σ).stack = []
      · have : (s.thr σ).cur = [] := by
          have := hw.chain; rw [hst] at this; exact this
        rw [this]; simp
      · obtain ⟨g, k, hg, hk⟩ := chain_cons_mem hw.chain hst
        simp only at hk
        have hexo := hw.ex
        rw [hk, get_child_shallow] at hexo ⊢
        rcases trie_step hi h with ht | hm
        · rw [ht.1]; exact hexo
        · rw [frozen_of_mut hi hm σ hσ g hg]; exact hexo
  · -- pre
    intro σ f hf
    by_cases hσ : σ = l.tid
    · subst hσ; exact ho.pre f hf
    · rw [hother σ hσ] at hf ⊢; exact hi.pre σ f hf
  · exact hwf'
  · -- hinv
    intro σ hd hh hatt'
    by_cases hσ : σ = l.tid
    · subst hσ
      rcases ho.hs hd hh with hh | ⟨ht, hg, hgen, w, hw⟩
      · exact hold hd (hi.hinv _ hd hh) (hi.hgen _ hd hh) hatt'
      · rw [ht]; exact ⟨w, hw⟩
    · rw [hother σ hσ] at hh
      exact hold hd (hi.hinv σ hd hh) (hi.hgen σ hd hh) hatt'
  · -- hgen
    intro σ hd hh
    by_cases hσ : σ = l.tid
    · subst hσ
      rcases ho.hs hd hh with hh | ⟨ht, hg, hgen, _⟩
      · exact Nat.le_trans (hi.hgen _ hd hh) (hgens _)
      · rw [hg, hgen]; exact Nat.le_refl _
    · rw [hother σ hσ] at hh
      exact Nat.le_trans (hi.hgen σ hd hh) (hgens _)

theorem own_nil {s s' : Cfg n} {τ : Fin n} (hst : (s'.thr τ).stack = [])
    (hpc : (s'.thr τ).pc ≠ .window)
    (hhs : ∀ h ∈ (s'.thr τ).hs, h ∈ (s.thr τ).hs) : OwnOK s τ s' where
  chain := by rw [hst]; trivial
  frames := by intro f hf; rw [hst] at hf; cases hf
  idle := fun _ => hst
  win := fun h => absurd h hpc
  pre := by intro f hf; rw [hst] at hf; cases hf
  hs := fun h hh => Or.inl (hhs h hh)

theorem own_same {s s' : Cfg n} {τ : Fin n} (hi : Inv s) (hst : (s'.thr τ).stack = (s.thr τ).stack)
    (hcall : (s'.thr τ).call = (s.thr τ).call) (hpc : (s'.thr τ).pc = .unwind)
    (hhs : ∀ h ∈ (s'.thr τ).hs, h ∈ (s.thr τ).hs ∨
      (s'.trie = s.trie ∧ s'.gens = s.gens ∧ h.gen = s.gens h.path ∧
        ∃ w, Trie.get s.trie h.path = some (.leaf w))) : OwnOK s τ s' where
  chain := by rw [hst]; exact hi.chain τ
  frames := by intro f hf; rw [hst] at hf; exact Or.inl ⟨f, hf, rfl, rfl⟩
  idle := by rw [hpc]; rintro (h | h) <;> cases h
  win := by rw [hpc]; intro h; cases h
  pre := by rw [hst, hcall]; exact hi.pre τ
  hs := hhs

theorem addDone_thr (s : Cfg n) (τ : Fin n) (t' : Trie Nat) (ok : Bool) (p : Path) (v : Nat)
    (hc : (s.thr τ).call = .add p v) :
    ((addDone s τ t' ok).thr τ).stack = (s.thr τ).stack ∧ ((addDone s τ t' ok).thr τ).call = (s.thr τ).call ∧
    ((addDone s τ t' ok).thr τ).pc = .unwind ∧ ((addDone s τ t' ok).thr τ).hs = (s.thr τ).hs := by
  simp [addDone, hc, setThr, addLog]

theorem termAt_thr (s : Cfg n) (τ : Fin n) (y : Path) (p : Path) (v : Nat)
    (hc : (s.thr τ).call = .add p v) (hex : (Trie.get s.trie y).isSome = true) :
    ((termAt s τ y).thr τ).stack = (s.thr τ).stack ∧ ((termAt s τ y).thr τ).call = (s.thr τ).call ∧
    ((termAt s τ y).thr τ).pc = .unwind ∧ ((termAt s τ y).thr τ).hs = (s.thr τ).hs := by
  obtain ⟨nd, hnd⟩ := Option.isSome_iff_exists.1 hex
  simp only [termAt, hc, hnd]
  split
  · exact hc ▸ addDone_thr s τ _ _ p v hc
  · exact hc ▸ addDone_thr s τ _ _ p v hc

theorem own_unwound {s s' : Cfg n} {τ : Fin n} (hi : Inv s)
    (h : (s'.thr τ).stack = (s.thr τ).stack ∧ (s'.thr τ).call = (s.thr τ).call ∧
      (s'.thr τ).pc = .unwind ∧ (s'.thr τ).hs = (s.thr τ).hs) : OwnOK s τ s' :=
  own_same hi h.1 h.2.1 h.2.2.1 (fun _ hh => Or.inl (h.2.2.2 ▸ hh))

theorem chain_tail {f : Frame} {r : List Frame} (h : Chain (f :: r)) : Chain r := by
  cases r with
  | nil => trivial
  | cons g r => exact h.2

theorem chain_congr_head {f f' : Frame} {r : List Frame} (hn : f'.node = f.node) (h : Chain (f :: r)) :
    Chain (f' :: r) := by
  cases r with
  | nil => exact hn.trans h
  | cons g r => exact ⟨by rw [hn]; exact h.1, h.2⟩

theorem pushR_spec (s : Cfg n) (th : Thread) (x : Path) :
    ∃ F, (pushR s th x).stack = F :: th.stack ∧ F.node = x ∧ F.mode = .R ∧
      (pushR s th x).pc = .run ∧ (pushR s th x).call = th.call ∧
      ∀ h ∈ (pushR s th x).hs, h ∈ th.hs ∨
        (h.gen = s.gens h.path ∧ ∃ w, Trie.get s.trie h.path = some (.leaf w)) := by
  unfold pushR
  split
  · rename_i q hq
    split
    · rename_i v hv
      refine ⟨_, rfl, rfl, rfl, rfl, rfl, ?_⟩
      intro h hh
      simp only [List.mem_append] at hh
      rcases hh with hh | hh
      · exact Or.inl hh
      · right
        simp only [newHandles] at hh
        split at hh
        · cases hh
        · simp only [List.mem_singleton] at hh
          subst hh
          refine ⟨rfl, ?_⟩
          simp only [queryVisit] at hv
          split at hv
          · rename_i nd hnd
            cases nd with
            | leaf w => exact ⟨w, hnd⟩
            | empty => simp [visitFor] at hv
            | branch cs => simp [visitFor] at hv
          · cases hv
    · exact ⟨_, rfl, rfl, rfl, rfl, rfl, fun h hh => Or.inl hh⟩
  · exact ⟨_, rfl, rfl, rfl, rfl, rfl, fun h hh => Or.inl hh⟩

theorem popTodo_spec (th : Thread) (f : Frame) (r : List Frame) (h : th.stack = f :: r) :
    ∃ f', popTodo th = f' :: r ∧ f'.node = f.node ∧ f'.mode = f.mode := by
  unfold popTodo
  split
  · rename_i q g r' hq hst
    rw [h] at hst; cases hst
    exact ⟨_, rfl, rfl, rfl⟩
  · exact ⟨f, h, rfl, rfl⟩

/-- the acting thread pushed one lock on top of (a relabelling of) its old stack -/
theorem own_push {s s' : Cfg n} {τ : Fin n} (hi : Inv s) (F : Frame) (st0 : List Frame)
    (hst : (s'.thr τ).stack = F :: st0)
    (hst0 : ∀ g ∈ st0, ∃ g0 ∈ (s.thr τ).stack, g0.node = g.node ∧ g0.mode = g.mode)
    (hch : Chain (F :: st0))
    (hpc : (s'.thr τ).pc = .run) (hcall : (s'.thr τ).call = (s.thr τ).call)
    (htrie : s'.trie = s.trie) (hgens : s'.gens = s.gens)
    (hex : (Trie.get s.trie F.node).isSome = true)
    (hlock : ∀ σ, σ ≠ τ → ∀ g ∈ (s.thr σ).stack, g.node = F.node → g.mode = .R ∧ F.mode = .R)
    (hpre : isAddGet (s.thr τ).call = true → F.node <+: (s.thr τ).call.path)
    (hhs : ∀ h ∈ (s'.thr τ).hs, h ∈ (s.thr τ).hs ∨
        (h.gen = s.gens h.path ∧ ∃ w, Trie.get s.trie h.path = some (.leaf w))) : OwnOK s τ s' where
  chain := by rw [hst]; exact hch
  frames := by
    intro f hf
    rw [hst] at hf
    rcases List.mem_cons.1 hf with h | h
    · subst h; exact Or.inr ⟨hex, htrie, hlock⟩
    · exact Or.inl (hst0 f h)
  idle := by rw [hpc]; rintro (h | h) <;> cases h
  win := by rw [hpc]; intro h; cases h
  pre := by
    intro f hf hag
    rw [hst] at hf
    rw [hcall] at hag ⊢
    rcases List.mem_cons.1 hf with h | h
    · subst h; exact hpre hag
    · obtain ⟨g0, hg0, hn, _⟩ := hst0 f h
      rw [← hn]; exact hi.pre τ g0 hg0 hag
  hs := by
    intro h hh
    rcases hhs h hh with h1 | h1
    · exact Or.inl h1
    · exact Or.inr ⟨htrie, hgens, h1⟩

theorem own_sub {s s' : Cfg n} {τ : Fin n} (hi : Inv s)
    (hch : Chain (s'.thr τ).stack)
    (hst : ∀ g ∈ (s'.thr τ).stack, g ∈ (s.thr τ).stack)
    (hpc : (s'.thr τ).pc = .run ∨ (s'.thr τ).pc = .unwind)
    (hcall : (s'.thr τ).call = (s.thr τ).call)
    (hhs : (s'.thr τ).hs = (s.thr τ).hs) : OwnOK s τ s' where
  chain := hch
  frames := fun f hf => Or.inl ⟨f, hst f hf, rfl, rfl⟩
  idle := by rcases hpc with h | h <;> rw [h] <;> rintro (h | h) <;> cases h
  win := by rcases hpc with h | h <;> rw [h] <;> intro h <;> cases h
  pre := by
    intro f hf
    rw [hcall]; exact hi.pre τ f (hst f hf)
  hs := fun h hh => Or.inl (hhs ▸ hh)

theorem head_rest_prefix {c : Call} {x : Path} {k : String} (hx : x <+: c.path)
    (hk : (restAt c x).head? = some k) : x ++ [k] <+: c.path := by
  have := restAt_eq hx
  cases hr : restAt c x with
  | nil => rw [hr] at hk; cases hk
  | cons k' r =>
    rw [hr] at hk this
    simp only [List.head?_cons, Option.some.injEq] at hk
    subst hk
    exact ⟨r, by rw [← this]; simp⟩

set_option linter.unusedSimpArgs false in
theorem own_step {s s' : Cfg n} {l : Label n} (hi : Inv s) (h : Step true s l s') :
    OwnOK s l.tid s' := by
  obtain ⟨hg, rfl⟩ := h
  cases l with
  | invoke τ c =>
    apply own_nil
    · simp only [eff, track_thr, eff0, Label.tid]; split <;> simp [setThr]
    · simp only [eff, track_thr, eff0, Label.tid]; split <;> simp [setThr]
    · simp only [eff, track_thr, eff0, Label.tid]; split <;> simp [setThr]
  | termRoot τ =>
    simp only [guard, Bool.and_eq_true, beq_iff_eq, wOK_iff] at hg
    obtain ⟨⟨hpc, hw⟩, hg⟩ := hg
    split at hg
    · rename_i p v hcall
      exact own_unwound hi (termAt_thr s τ [] p v hcall (by simp))
    · cases hg
  | termWrite τ =>
    simp only [guard, Bool.and_eq_true, beq_iff_eq, Bool.true_or, Bool.true_and] at hg
    obtain ⟨hpc, hg⟩ := hg
    split at hg
    · rename_i p v f hcall htop
      split at hg
      · rename_i k nd hrest hget
        simp only [Bool.and_eq_true, wOK_iff] at hg
        have hex : (Trie.get s.trie (f.node ++ [k])).isSome = true := by
          rw [get_child _ _ _ _ hget]; exact hg.1
        have := termAt_thr s τ _ p v hcall hex
        apply own_unwound hi
        simp only [eff, track_thr, eff0, Label.tid, htop, hrest]
        exact this
      · cases hg
    · cases hg
  | insert τ =>
    simp only [guard, Bool.and_eq_true, beq_iff_eq] at hg
    obtain ⟨hpc, hg⟩ := hg
    split at hg
    · rename_i p v f hcall htop
      simp only [Bool.and_eq_true, beq_iff_eq] at hg
      obtain ⟨hm, hg⟩ := hg
      split at hg
      · rename_i k r nd hrest hget
        apply own_unwound hi
        have h1 := addDone_thr s τ (put s.trie f.node (attach nd k (chain r v))) true p v hcall
        simp only [eff, track_thr, eff0, Label.tid, htop, hcall]
        rw [hcall] at hrest h1
        simp only [hrest, hget]
        exact h1
      · cases hg
    · cases hg
  | clobber τ => simp [guard] at hg
  | addErr τ =>
    simp only [guard, Bool.and_eq_true, beq_iff_eq] at hg
    obtain ⟨hpc, hg⟩ := hg
    split at hg
    · rename_i p v f hcall htop
      apply own_unwound hi
      simp only [eff, track_thr, eff0, Label.tid]
      exact addDone_thr s τ _ _ p v hcall
    · cases hg
  | getHit τ =>
    simp only [guard, Bool.and_eq_true, beq_iff_eq] at hg
    obtain ⟨hpc, hg⟩ := hg
    split at hg
    · rename_i p f hcall htop
      apply own_same hi
      · simp [eff, eff0, Label.tid, htop, hcall, setThr]
      · simp [eff, eff0, Label.tid, htop, hcall, setThr]
      · simp [eff, eff0, Label.tid, htop, hcall, setThr]
      · intro hd hh
        simp only [eff, track_thr, eff0, Label.tid, htop, hcall, setThr, if_true] at hh
        split at hh
        · rename_i w hw
          simp only [List.mem_append] at hh
          rcases hh with hh | hh
          · exact Or.inl hh
          · right
            simp only [newHandles] at hh
            split at hh
            · cases hh
            · simp only [List.mem_singleton] at hh
              subst hh
              exact ⟨by simp [eff, eff0, htop, hcall, setThr, addLog],
                by simp [eff, eff0, htop, hcall, setThr, addLog], rfl, w, hw⟩
        · exact Or.inl hh
    · cases hg
  | getMiss τ =>
    simp only [guard, Bool.and_eq_true, beq_iff_eq] at hg
    obtain ⟨hpc, hg⟩ := hg
    split at hg
    · rename_i p f hcall htop
      apply own_unwound hi
      simp [eff, eff0, Label.tid, hcall, setThr]
    · cases hg
  | delete τ =>
    simp only [guard, Bool.and_eq_true, beq_iff_eq, wOK_iff] at hg
    obtain ⟨⟨hpc, hw⟩, hg⟩ := hg
    split at hg
    · rename_i q m hcall
      apply own_unwound hi
      simp [eff, eff0, Label.tid, hcall, setThr]
    · cases hg
  | hval τ h =>
    simp only [guard, Bool.and_eq_true, beq_iff_eq] at hg
    have hst := hi.idle τ (Or.inl hg.1.1)
    apply own_nil
    · simp only [eff, track_thr, eff0, Label.tid]; split <;> simp [setThr, hst]
    · simp only [eff, track_thr, eff0, Label.tid]; split <;> simp [setThr, hg.1.1]
    · simp only [eff, track_thr, eff0, Label.tid]; split <;> simp [setThr]
  | hupd τ h v =>
    simp only [guard, Bool.and_eq_true, beq_iff_eq] at hg
    have hst := hi.idle τ (Or.inl hg.1.1)
    apply own_nil
    · simp only [eff, track_thr, eff0, Label.tid]; split <;> simp [setThr, hst]
    · simp only [eff, track_thr, eff0, Label.tid]; split <;> simp [setThr, hg.1.1]
    · simp only [eff, track_thr, eff0, Label.tid]; split <;> simp [setThr]
  | ret τ =>
    simp only [guard, Bool.and_eq_true, beq_iff_eq] at hg
    apply own_nil
    · simpa [eff, eff0, Label.tid, setThr] using hg.1
    · simp [eff, eff0, Label.tid, setThr]
    · simp [eff, eff0, Label.tid, setThr]
  | unlock τ =>
    show OwnOK s τ _
    simp only [guard] at hg
    split at hg
    · cases hg
    · rename_i f htop
      obtain ⟨r, hr⟩ := stack_of_top htop
      have hth : ((eff s (.unlock τ)).thr τ) = { s.thr τ with stack := r } := by
        simp [eff, eff0, setThr, hr]
      apply own_sub hi
      · simp only [Label.tid, hth]; exact chain_tail (hr ▸ hi.chain τ)
      · simp only [Label.tid, hth]; intro g hg'; rw [hr]; exact List.mem_cons_of_mem _ hg'
      · simp only [Label.tid, hth]
        simp only [Bool.or_eq_true, beq_iff_eq, Bool.and_eq_true] at hg
        rcases hg with hg | hg
        · exact Or.inr hg
        · exact Or.inl hg.1.1
      · simp only [Label.tid, hth]
      · simp only [Label.tid, hth]
  | upgRelease τ =>
    show OwnOK s τ _
    simp only [guard, Bool.and_eq_true, beq_iff_eq] at hg
    obtain ⟨hpc, hg⟩ := hg
    split at hg
    · rename_i p v f hcall htop
      obtain ⟨r, hr⟩ := stack_of_top htop
      have hth : ((eff s (.upgRelease τ)).thr τ) = { s.thr τ with pc := .window, stack := r, cur := f.node } := by
        simp [eff, eff0, setThr, hr]
      have hfm : f ∈ (s.thr τ).stack := mem_of_top htop
      constructor
      · simp only [Label.tid, hth]; exact chain_tail (hr ▸ hi.chain τ)
      · simp only [Label.tid, hth]; intro g hg'
        exact Or.inl ⟨g, by rw [hr]; exact List.mem_cons_of_mem _ hg', rfl, rfl⟩
      · simp only [Label.tid, hth]; rintro (h | h) <;> cases h
      · simp only [Label.tid, hth]
        intro _
        refine ⟨by simp [eff, eff0, setThr, hr], ?_, ?_, ?_⟩
        · exact hi.ex τ f hfm
        · exact chain_congr_head (f := f) rfl (hr ▸ hi.chain τ)
        · exact ⟨p, v, hcall, by have := hi.pre τ f hfm (by rw [hcall]; rfl); rwa [hcall] at this⟩
      · simp only [Label.tid, hth]; intro g hg'
        exact hi.pre τ g (by rw [hr]; exact List.mem_cons_of_mem _ hg')
      · simp only [Label.tid, hth]; intro hd hh; exact Or.inl hh
    · cases hg
  | upgAcquire τ =>
    show OwnOK s τ _
    simp only [guard, Bool.and_eq_true, beq_iff_eq, wOK_iff] at hg
    obtain ⟨hpc, hw⟩ := hg
    have hwin := hi.win τ hpc
    have hth : ((eff s (.upgAcquire τ)).thr τ) =
        { s.thr τ with pc := .run, stack := ⟨(s.thr τ).cur, .W, []⟩ :: (s.thr τ).stack } := by
      simp [eff, eff0, setThr]
    apply own_push hi ⟨(s.thr τ).cur, .W, []⟩ (s.thr τ).stack
    · simp only [Label.tid, hth]
    · intro g hg'; exact ⟨g, hg', rfl, rfl⟩
    · exact hwin.chain
    · simp only [Label.tid, hth]
    · simp only [Label.tid, hth]
    · simp [eff, eff0, setThr]
    · simp [eff, eff0, setThr]
    · exact hwin.ex
    · intro σ hσ g hg' hn; exact absurd hn (hw σ hσ g hg')
    · intro _
      obtain ⟨p, v, hc, hp⟩ := hwin.call
      show (s.thr τ).cur <+: (s.thr τ).call.path
      rw [hc]; exact hp
    · simp only [Label.tid, hth]; intro hd hh; exact Or.inl hh
  | rlockRoot τ =>
    show OwnOK s τ _
    simp only [guard, Bool.and_eq_true, beq_iff_eq, rOK_iff] at hg
    obtain ⟨⟨hpc, hr⟩, hg⟩ := hg
    have hst := hi.idle τ (Or.inr hpc)
    obtain ⟨F, hF, hFn, hFm, hFpc, hFc, hFh⟩ := pushR_spec s (s.thr τ) []
    have hth : ((eff s (.rlockRoot τ)).thr τ) = pushR s (s.thr τ) [] := by
      simp [eff, eff0, setThr]
    apply own_push hi F []
    · simp only [Label.tid, hth, hF, hst]
    · intro g hg'; cases hg'
    · exact hFn
    · simp only [Label.tid, hth, hFpc]
    · simp only [Label.tid, hth, hFc]
    · simp [eff, eff0, setThr]
    · simp [eff, eff0, setThr]
    · rw [hFn]; simp
    · intro σ hσ g hg' hn
      refine ⟨?_, hFm⟩
      cases hm : g.mode with
      | R => rfl
      | W => exact absurd ⟨hn.trans hFn, hm⟩ (hr σ hσ g hg')
    · intro _; rw [hFn]; exact List.nil_prefix
    · simp only [Label.tid, hth]; exact hFh
  | rlockChild τ =>
    show OwnOK s τ _
    simp only [guard, Bool.and_eq_true, beq_iff_eq] at hg
    obtain ⟨hpc, hg⟩ := hg
    split at hg
    · cases hg
    · rename_i f htop
      simp only [Bool.true_or, Bool.true_and] at hg
      split at hg
      · rename_i k nd hnext hget
        simp only [Bool.and_eq_true, rOK_iff] at hg
        obtain ⟨⟨hch, hr⟩, hcc⟩ := hg
        obtain ⟨r, hst⟩ := stack_of_top htop
        obtain ⟨f', hpop, hfn, hfm⟩ := popTodo_spec (s.thr τ) f r hst
        obtain ⟨th0, hth0⟩ : ∃ th0 : Thread, th0 = { s.thr τ with stack := popTodo (s.thr τ) } := ⟨_, rfl⟩
        have h0s : th0.stack = f' :: r := by rw [hth0]; exact hpop
        have h0c : th0.call = (s.thr τ).call := by rw [hth0]
        have h0h : th0.hs = (s.thr τ).hs := by rw [hth0]
        obtain ⟨F, hF, hFn, hFm, hFpc, hFc, hFh⟩ := pushR_spec s th0 (f.node ++ [k])
        rw [h0s] at hF
        rw [h0c] at hFc
        rw [h0h] at hFh
        have hth : ((eff s (.rlockChild τ)).thr τ) = pushR s th0 (f.node ++ [k]) := by
          rw [hth0]; simp [eff, eff0, setThr, htop, hnext]
        have hfmem : f ∈ (s.thr τ).stack := mem_of_top htop
        apply own_push hi F (f' :: r)
        · simp only [Label.tid, hth, hF]
        · intro g hg'
          rcases List.mem_cons.1 hg' with h | h
          · subst h; exact ⟨f, hfmem, hfn.symm, hfm.symm⟩
          · exact ⟨g, by rw [hst]; exact List.mem_cons_of_mem _ h, rfl, rfl⟩
        · refine ⟨⟨k, by rw [hFn, hfn]⟩, ?_⟩
          exact chain_congr_head hfn (hst ▸ hi.chain τ)
        · simp only [Label.tid, hth, hFpc]
        · simp only [Label.tid, hth, hFc]
        · simp [eff, eff0, setThr, htop, hnext]
        · simp [eff, eff0, setThr, htop, hnext]
        · rw [hFn, get_child _ _ _ _ hget]; exact hch
        · intro σ hσ g hg' hn
          refine ⟨?_, hFm⟩
          cases hm : g.mode with
          | R => rfl
          | W => exact absurd ⟨hn.trans hFn, hm⟩ (hr σ hσ g hg')
        · intro hag
          rw [hFn]
          have hp := hi.pre τ f hfmem hag
          apply head_rest_prefix hp
          simp only [nextChild] at hnext
          split at hnext
          · rename_i q hq; rw [hq] at hag; cases hag
          · exact hnext
        · simp only [Label.tid, hth]; exact hFh
      · cases hg

theorem inv_init : Inv (init n) where
  chain := fun _ => trivial
  excl := by intro σ σ' f f' hf; cases hf
  ex := by intro σ f hf; cases hf
  idle := fun _ _ => rfl
  win := by intro σ h; cases h
  pre := by intro σ f hf; cases hf
  wf := Or.inl rfl
  hinv := by intro σ h hh; cases hh
  hgen := by intro σ h hh; cases hh

theorem inv_step {s s' : Cfg n} {l : Label n} (hi : Inv s) (h : Step true s l s') : Inv s' :=
  inv_of_own hi h (own_step hi h)

theorem inv_reach {s : Cfg n} (h : Reach true s) : Inv s := by
  induction h with
  | init => exact inv_init
  | step _ hs ih => exact inv_step ih hs

/-- the sequential operation a tree-rooted call stands for -/
def callOp : Call → C09.Op
  | .add p v => .add p v
  | .get p => .get p
  | .query q => .query q
  | .del q m => delOp q m

def notQuery : Call → Prop
  | .query _ => False
  | _ => True

/-- what one step does to the log and to the acting thread's result bookkeeping -/
inductive LogStep (s : Cfg n) (τ : Fin n) (s' : Cfg n) : Prop where
  | quiet : s'.log = s.log → (s'.thr τ).seq = (s.thr τ).seq →
      ((s'.thr τ).pc = .unwind ↔ (s.thr τ).pc = .unwind) →
      ((s.thr τ).pc = .unwind → (s'.thr τ).res = (s.thr τ).res ∧ (s'.thr τ).call = (s.thr τ).call) →
      LogStep s τ s'
  | bump : s'.log = s.log → (s'.thr τ).seq = (s.thr τ).seq + 1 → (s'.thr τ).pc = .idle → LogStep s τ s'
  | call (e : Entry) : s'.log = s.log ++ [e] → e.tid = τ.val → e.seq = (s.thr τ).seq →
      (s.thr τ).pc ≠ .unwind → (s'.thr τ).pc = .unwind → (s'.thr τ).seq = (s.thr τ).seq →
      (s'.thr τ).res = e.obs → e.op = callOp (s'.thr τ).call → notQuery (s'.thr τ).call →
      (s'.thr τ).call = (s.thr τ).call → LogStep s τ s'
  | handle (e : Entry) : s'.log = s.log ++ [e] → e.tid = τ.val → e.seq = (s.thr τ).seq →
      (s.thr τ).pc = .idle → (s'.thr τ).seq = (s.thr τ).seq + 1 → (s'.thr τ).pc = .idle →
      (s'.thr τ).res = e.obs → LogStep s τ s'

theorem addDone_logstep (s : Cfg n) (τ : Fin n) (t' : Trie Nat) (ok : Bool) (p : Path) (v : Nat)
    (hc : (s.thr τ).call = .add p v) (hpc : (s.thr τ).pc ≠ .unwind) :
    LogStep s τ (track (addDone s τ t' ok)) := by
  refine LogStep.call ⟨τ.val, (s.thr τ).seq, .add p v, .status ok⟩ ?_ rfl rfl hpc ?_ ?_ ?_ ?_ ?_ ?_ <;>
    simp [addDone, hc, setThr, addLog, callOp, notQuery]

theorem termAt_logstep (s : Cfg n) (τ : Fin n) (y : Path) (p : Path) (v : Nat)
    (hc : (s.thr τ).call = .add p v) (hex : (Trie.get s.trie y).isSome = true)
    (hpc : (s.thr τ).pc ≠ .unwind) :
    LogStep s τ (track (termAt s τ y)) := by
  obtain ⟨nd, hnd⟩ := Option.isSome_iff_exists.1 hex
  simp only [termAt, hc, hnd]
  split
  · exact addDone_logstep s τ _ _ p v hc hpc
  · exact addDone_logstep s τ _ _ p v hc hpc

set_option linter.unusedSimpArgs false in
theorem log_step {s s' : Cfg n} {l : Label n} (h : Step true s l s') : LogStep s l.tid s' := by
  obtain ⟨hg, rfl⟩ := h
  cases l with
  | invoke τ c =>
    show LogStep s τ _
    simp only [guard, beq_iff_eq] at hg
    apply LogStep.quiet
    · simp only [eff, track_log, eff0]; split <;> simp [setThr]
    · simp only [eff, track_thr, eff0, Label.tid]; split <;> simp [setThr]
    · simp only [eff, track_thr, eff0, Label.tid]; split <;> simp [setThr, hg]
    · intro hu; rw [hg] at hu; cases hu
  | termRoot τ =>
    show LogStep s τ _
    simp only [guard, Bool.and_eq_true, beq_iff_eq, wOK_iff] at hg
    obtain ⟨⟨hpc, hw⟩, hg⟩ := hg
    split at hg
    · rename_i p v hcall
      exact termAt_logstep s τ [] p v hcall (by simp) (by rw [hpc]; simp)
    · cases hg
  | termWrite τ =>
    show LogStep s τ _
    simp only [guard, Bool.and_eq_true, beq_iff_eq, Bool.true_or, Bool.true_and] at hg
    obtain ⟨hpc, hg⟩ := hg
    split at hg
    · rename_i p v f hcall htop
      split at hg
      · rename_i k nd hrest hget
        simp only [Bool.and_eq_true, wOK_iff] at hg
        have hex : (Trie.get s.trie (f.node ++ [k])).isSome = true := by
          rw [get_child _ _ _ _ hget]; exact hg.1
        have := termAt_logstep s τ _ p v hcall hex (by rw [hpc]; simp)
        simp only [eff, eff0, Label.tid, htop, hrest]
        exact this
      · cases hg
    · cases hg
  | insert τ =>
    show LogStep s τ _
    simp only [guard, Bool.and_eq_true, beq_iff_eq] at hg
    obtain ⟨hpc, hg⟩ := hg
    split at hg
    · rename_i p v f hcall htop
      simp only [Bool.and_eq_true, beq_iff_eq] at hg
      obtain ⟨hm, hg⟩ := hg
      split at hg
      · rename_i k r nd hrest hget
        have h1 := addDone_logstep s τ (put s.trie f.node (attach nd k (chain r v))) true p v hcall
          (by rw [hpc]; simp)
        simp only [eff, eff0, Label.tid, htop, hcall]
        rw [hcall] at hrest
        simp only [hrest, hget]
        exact h1
      · cases hg
    · cases hg
  | clobber τ => simp [guard] at hg
  | addErr τ =>
    show LogStep s τ _
    simp only [guard, Bool.and_eq_true, beq_iff_eq] at hg
    obtain ⟨hpc, hg⟩ := hg
    split at hg
    · rename_i p v f hcall htop
      exact addDone_logstep s τ _ _ p v hcall (by rw [hpc]; simp)
    · cases hg
  | getHit τ =>
    show LogStep s τ _
    simp only [guard, Bool.and_eq_true, beq_iff_eq] at hg
    obtain ⟨hpc, hg⟩ := hg
    split at hg
    · rename_i p f hcall htop
      refine LogStep.call ⟨τ.val, (s.thr τ).seq, .get p, .node (C09.kindOfTrie (Trie.get s.trie f.node))⟩
        ?_ rfl rfl (by rw [hpc]; simp) ?_ ?_ ?_ ?_ ?_ ?_ <;>
        simp [eff, eff0, Label.tid, htop, hcall, setThr, addLog, callOp, notQuery]
    · cases hg
  | getMiss τ =>
    show LogStep s τ _
    simp only [guard, Bool.and_eq_true, beq_iff_eq] at hg
    obtain ⟨hpc, hg⟩ := hg
    split at hg
    · rename_i p f hcall htop
      refine LogStep.call ⟨τ.val, (s.thr τ).seq, .get p, .node .none⟩
        ?_ rfl rfl (by rw [hpc]; simp) ?_ ?_ ?_ ?_ ?_ ?_ <;>
        simp [eff, eff0, Label.tid, hcall, setThr, addLog, callOp, notQuery]
    · cases hg
  | delete τ =>
    show LogStep s τ _
    simp only [guard, Bool.and_eq_true, beq_iff_eq, wOK_iff] at hg
    obtain ⟨⟨hpc, hw⟩, hg⟩ := hg
    split at hg
    · rename_i q m hcall
      refine LogStep.call ⟨τ.val, (s.thr τ).seq, delOp q m, .set (Trie.del (delCond m) s.trie q).2⟩
        ?_ rfl rfl (by rw [hpc]; simp) ?_ ?_ ?_ ?_ ?_ ?_ <;>
        simp [eff, eff0, Label.tid, hcall, setThr, addLog, callOp, notQuery]
    · cases hg
  | hval τ h =>
    show LogStep s τ _
    simp only [guard, Bool.and_eq_true, beq_iff_eq] at hg
    by_cases ha : attached s h = true
    · refine LogStep.handle ⟨τ.val, (s.thr τ).seq, .get h.path, .node (C09.kindOfTrie (Trie.get s.trie h.path))⟩
        ?_ rfl rfl hg.1.1 ?_ ?_ ?_ <;>
        simp [eff, eff0, Label.tid, ha, setThr, addLog, hg.1.1]
    · apply LogStep.bump <;> simp [eff, eff0, Label.tid, ha, setThr, hg.1.1]
  | hupd τ h v =>
    show LogStep s τ _
    simp only [guard, Bool.and_eq_true, beq_iff_eq] at hg
    by_cases ha : attached s h = true
    · refine LogStep.handle ⟨τ.val, (s.thr τ).seq, .upd h.path v, .status true⟩
        ?_ rfl rfl hg.1.1 ?_ ?_ ?_ <;>
        simp [eff, eff0, Label.tid, ha, setThr, addLog, hg.1.1]
    · apply LogStep.bump <;> simp [eff, eff0, Label.tid, ha, setThr, hg.1.1]
  | ret τ =>
    show LogStep s τ _
    apply LogStep.bump <;> simp [eff, eff0, Label.tid, setThr]
  | unlock τ =>
    show LogStep s τ _
    apply LogStep.quiet <;> simp [eff, eff0, Label.tid, setThr]
  | upgRelease τ =>
    show LogStep s τ _
    simp only [guard, Bool.and_eq_true, beq_iff_eq] at hg
    obtain ⟨hpc, hg⟩ := hg
    split at hg
    · rename_i p v f hcall htop
      obtain ⟨r, hr⟩ := stack_of_top htop
      apply LogStep.quiet <;> simp [eff, eff0, Label.tid, setThr, hr, hpc]
    · cases hg
  | upgAcquire τ =>
    show LogStep s τ _
    simp only [guard, Bool.and_eq_true, beq_iff_eq, wOK_iff] at hg
    apply LogStep.quiet <;> simp [eff, eff0, Label.tid, setThr, hg.1]
  | rlockRoot τ =>
    show LogStep s τ _
    simp only [guard, Bool.and_eq_true, beq_iff_eq, rOK_iff] at hg
    have hpc := hg.1.1
    apply LogStep.quiet
    · simp [eff, eff0, setThr]
    · simp only [eff, track_thr, eff0, Label.tid, setThr, if_true, pushR]; (repeat' split) <;> rfl
    · simp only [eff, track_thr, eff0, Label.tid, setThr, if_true, pushR, hpc]; (repeat' split) <;> simp
    · intro hu; rw [hpc] at hu; cases hu
  | rlockChild τ =>
    show LogStep s τ _
    simp only [guard, Bool.and_eq_true, beq_iff_eq] at hg
    obtain ⟨hpc, hg⟩ := hg
    apply LogStep.quiet
    · simp only [eff, track_log, eff0]; (repeat' split) <;> simp [setThr]
    · simp only [eff, track_thr, eff0, Label.tid, pushR]; (repeat' split) <;> simp [setThr]
    · simp only [eff, track_thr, eff0, Label.tid, pushR, hpc]; (repeat' split) <;> simp [setThr, hpc]
    · intro hu; rw [hpc] at hu; cases hu

/-- per-thread program order of the linearisation log, and the link between a finished call's
result and its log entry -/
structure PO (s : Cfg n) : Prop where
  bound : ∀ e ∈ s.log, ∀ τ : Fin n, e.tid = τ.val →
    e.seq < (s.thr τ).seq ∨ (e.seq = (s.thr τ).seq ∧ (s.thr τ).pc = .unwind)
  order : s.log.Pairwise (fun a b => a.tid = b.tid → a.seq < b.seq)
  res : ∀ τ, (s.thr τ).pc = .unwind → notQuery (s.thr τ).call →
    ∃ e ∈ s.log, e.tid = τ.val ∧ e.seq = (s.thr τ).seq ∧ e.obs = (s.thr τ).res ∧
      e.op = callOp (s.thr τ).call

theorem po_init : PO (init n) where
  bound := by intro e he; cases he
  order := List.Pairwise.nil
  res := by intro τ h; cases h

theorem po_step {s s' : Cfg n} {l : Label n} (hp : PO s) (h : Step true s l s') : PO s' := by
  have hother : ∀ σ, σ ≠ l.tid → s'.thr σ = s.thr σ := by
    intro σ hσ; rw [h.2]; exact eff_thr_other s l σ hσ
  have hval : ∀ σ : Fin n, σ.val = l.tid.val → σ = l.tid := fun σ hσ => Fin.ext hσ
  cases log_step h with
  | quiet hl hseq hpc hres =>
    refine ⟨?_, by rw [hl]; exact hp.order, ?_⟩
    · intro e he σ hσ
      rw [hl] at he
      by_cases hs : σ = l.tid
      · subst hs
        rw [hseq]
        rcases hp.bound e he _ hσ with h1 | h1
        · exact Or.inl h1
        · exact Or.inr ⟨h1.1, hpc.2 h1.2⟩
      · rw [hother σ hs]; exact hp.bound e he σ hσ
    · intro σ hu hq
      by_cases hs : σ = l.tid
      · subst hs
        have hu0 := hpc.1 hu
        obtain ⟨hr, hc⟩ := hres hu0
        rw [hl, hseq, hr, hc]
        rw [hc] at hq
        exact hp.res _ hu0 hq
      · rw [hother σ hs] at hu hq ⊢; rw [hl]; exact hp.res σ hu hq
  | bump hl hseq hpc =>
    refine ⟨?_, by rw [hl]; exact hp.order, ?_⟩
    · intro e he σ hσ
      rw [hl] at he
      by_cases hs : σ = l.tid
      · subst hs
        rw [hseq]
        rcases hp.bound e he _ hσ with h1 | h1
        · exact Or.inl (by omega)
        · exact Or.inl (by omega)
      · rw [hother σ hs]; exact hp.bound e he σ hσ
    · intro σ hu hq
      by_cases hs : σ = l.tid
      · subst hs; rw [hpc] at hu; cases hu
      · rw [hother σ hs] at hu hq ⊢; rw [hl]; exact hp.res σ hu hq
  | call e hl htid hes hpc0 hpc hseq hres hop hnq hcall =>
    have hlt : ∀ a ∈ s.log, a.tid = l.tid.val → a.seq < (s.thr l.tid).seq := by
      intro a ha hat
      rcases hp.bound a ha _ hat with h1 | h1
      · exact h1
      · exact absurd h1.2 hpc0
    refine ⟨?_, ?_, ?_⟩
    · intro a ha σ hσ
      rw [hl] at ha
      rcases List.mem_append.1 ha with ha | ha
      · by_cases hs : σ = l.tid
        · subst hs; rw [hseq]; exact Or.inl (hlt a ha hσ)
        · rw [hother σ hs]; exact hp.bound a ha σ hσ
      · simp only [List.mem_singleton] at ha; subst ha
        have hs : σ = l.tid := hval σ (hσ.symm.trans htid)
        subst hs
        exact Or.inr ⟨by rw [hseq]; exact hes, hpc⟩
    · rw [hl, List.pairwise_append]
      refine ⟨hp.order, List.pairwise_singleton _ _, ?_⟩
      intro a ha b hb hab
      simp only [List.mem_singleton] at hb; subst hb
      rw [hes]; exact hlt a ha (hab.trans htid)
    · intro σ hu hq
      by_cases hs : σ = l.tid
      · subst hs
        exact ⟨e, by rw [hl]; simp, htid, by rw [hseq]; exact hes, hres.symm, hop⟩
      · rw [hother σ hs] at hu hq ⊢
        obtain ⟨a, ha, h1⟩ := hp.res σ hu hq
        exact ⟨a, by rw [hl]; exact List.mem_append_left _ ha, h1⟩
  | handle e hl htid hes hpc0 hseq hpc hres =>
    have hlt : ∀ a ∈ s.log, a.tid = l.tid.val → a.seq < (s.thr l.tid).seq := by
      intro a ha hat
      rcases hp.bound a ha _ hat with h1 | h1
      · exact h1
      · rw [hpc0] at h1; cases h1.2
    refine ⟨?_, ?_, ?_⟩
    · intro a ha σ hσ
      rw [hl] at ha
      rcases List.mem_append.1 ha with ha | ha
      · by_cases hs : σ = l.tid
        · subst hs; rw [hseq]; exact Or.inl (Nat.lt_succ_of_lt (hlt a ha hσ))
        · rw [hother σ hs]; exact hp.bound a ha σ hσ
      · simp only [List.mem_singleton] at ha; subst ha
        have hs : σ = l.tid := hval σ (hσ.symm.trans htid)
        subst hs
        exact Or.inl (by rw [hseq, hes]; exact Nat.lt_succ_self _)
    · rw [hl, List.pairwise_append]
      refine ⟨hp.order, List.pairwise_singleton _ _, ?_⟩
      intro a ha b hb hab
      simp only [List.mem_singleton] at hb; subst hb
      rw [hes]; exact hlt a ha (hab.trans htid)
    · intro σ hu hq
      by_cases hs : σ = l.tid
      · subst hs; rw [hpc] at hu; cases hu
      · rw [hother σ hs] at hu hq ⊢
        obtain ⟨a, ha, h1⟩ := hp.res σ hu hq
        exact ⟨a, by rw [hl]; exact List.mem_append_left _ ha, h1⟩

theorem po_reach {s : Cfg n} (h : Reach true s) : PO s := by
  induction h with
  | init => exact po_init
  | step _ hs ih => exact po_step ih hs

/-! ### sequential replay of the log -/

def replayFrom (t : Trie Nat) (log : List Entry) : Trie Nat :=
  log.foldl (fun t e => (C09.stepTrie t e.op).1) t

/-- every logged observation is the one the sequential tree gives at that point -/
def LegalFrom : Trie Nat → List Entry → Prop
  | _, [] => True
  | t, e :: es => e.obs = (C09.stepTrie t e.op).2 ∧ LegalFrom (C09.stepTrie t e.op).1 es

theorem replayFrom_append (t : Trie Nat) (l : List Entry) (e : Entry) :
    replayFrom t (l ++ [e]) = (C09.stepTrie (replayFrom t l) e.op).1 := by
  simp [replayFrom, List.foldl_append]

theorem legalFrom_append : ∀ (t : Trie Nat) (l : List Entry) (e : Entry),
    LegalFrom t (l ++ [e]) ↔ LegalFrom t l ∧ e.obs = (C09.stepTrie (replayFrom t l) e.op).2
  | t, [], e => by simp [LegalFrom, replayFrom]
  | t, a :: l, e => by
      simp only [List.cons_append, LegalFrom, legalFrom_append _ l e, replayFrom, List.foldl_cons, and_assoc]

theorem replay_reach {s : Cfg n} (h : Reach true s) :
    s.trie = replayFrom .empty s.log ∧ LegalFrom .empty s.log := by
  induction h with
  | init => exact ⟨rfl, trivial⟩
  | step hr hs ih =>
    rcases lin_step (inv_reach hr) hs with ⟨hl, ht⟩ | ⟨op, hl, ht⟩
    · rw [hl, ht]; exact ih
    · rw [hl, ht, replayFrom_append, legalFrom_append, ← ih.1]
      exact ⟨rfl, ih.2, rfl⟩

def isQuery : Call → Bool
  | .query _ => true
  | _ => false

def isDel : Call → Bool
  | .del _ _ => true
  | _ => false

/-- second invariant: the shape facts the progress argument needs -/
structure Inv2 (s : Cfg n) : Prop where
  runStack : ∀ σ, (s.thr σ).pc = .run → isQuery (s.thr σ).call = true ∨ (s.thr σ).stack ≠ []
  notDel : ∀ σ, (s.thr σ).pc = .run → isDel (s.thr σ).call = false
  addTop : ∀ σ p v f, (s.thr σ).pc = .run → (s.thr σ).call = .add p v → (s.thr σ).top = some f →
    f.node.length < p.length
  winLen : ∀ σ p v, (s.thr σ).pc = .window → (s.thr σ).call = .add p v → (s.thr σ).cur.length < p.length
  todoOK : ∀ σ f, f ∈ (s.thr σ).stack → ∀ k ∈ f.todo, childIn (shallow (Trie.get s.trie f.node)) k = true
  todoNil : ∀ σ f, f ∈ (s.thr σ).stack → isQuery (s.thr σ).call = false → f.todo = []

theorem inv2_init : Inv2 (init n) where
  runStack := by intro σ h; cases h
  notDel := by intro σ h; cases h
  addTop := by intro σ p v f h; cases h
  winLen := by intro σ p v h; cases h
  todoOK := by intro σ f hf; cases hf
  todoNil := by intro σ f hf; cases hf

theorem todoFor_childIn (nd : Trie Nat) (qr : Path) (k : String) (hk : k ∈ todoFor nd qr) :
    childIn (shallow (some nd)) k = true := by
  cases nd with
  | empty => cases qr <;> simp [todoFor] at hk
  | leaf w => cases qr <;> simp [todoFor] at hk
  | branch cs =>
    simp only [shallow, childIn, decide_eq_true_eq]
    cases qr with
    | nil => simpa [todoFor] using hk
    | cons g q =>
      simp only [todoFor] at hk
      split at hk
      · exact hk
      · split at hk
        · rename_i h
          simp only [List.mem_singleton] at hk
          rw [hk]; exact (keys_of_getL cs g).1 h
        · cases hk

theorem queryFrame_todo (t : Trie Nat) (q x : Path) (k : String) (hk : k ∈ (queryFrame t q x).todo) :
    childIn (shallow (Trie.get t x)) k = true := by
  simp only [queryFrame] at hk
  split at hk
  · rename_i nd hnd; rw [hnd]; exact todoFor_childIn nd _ k hk
  · cases hk

/-- the frames of `pushR`: the new top frame's todo are children of its node; a non-query
thread's new frame has an empty todo -/
theorem pushR_top (s : Cfg n) (th : Thread) (x : Path) :
    ∃ F, (pushR s th x).stack = F :: th.stack ∧ F.node = x ∧
      (∀ k ∈ F.todo, childIn (shallow (Trie.get s.trie x)) k = true) ∧
      (isQuery th.call = false → F.todo = []) ∧ (pushR s th x).call = th.call ∧ (pushR s th x).pc = .run := by
  unfold pushR
  split
  · rename_i q hq
    split
    · exact ⟨_, rfl, rfl, fun k hk => queryFrame_todo _ _ _ k hk, by rw [hq]; simp [isQuery], rfl, rfl⟩
    · exact ⟨_, rfl, rfl, fun k hk => queryFrame_todo _ _ _ k hk, by rw [hq]; simp [isQuery], rfl, rfl⟩
  · exact ⟨_, rfl, rfl, by simp, fun _ => rfl, rfl, rfl⟩

structure Own2 (s : Cfg n) (τ : Fin n) (s' : Cfg n) : Prop where
  runStack : (s'.thr τ).pc = .run → isQuery (s'.thr τ).call = true ∨ (s'.thr τ).stack ≠ []
  notDel : (s'.thr τ).pc = .run → isDel (s'.thr τ).call = false
  addTop : ∀ p v f, (s'.thr τ).pc = .run → (s'.thr τ).call = .add p v → (s'.thr τ).top = some f →
    f.node.length < p.length
  winLen : ∀ p v, (s'.thr τ).pc = .window → (s'.thr τ).call = .add p v → (s'.thr τ).cur.length < p.length
  todoOK : ∀ f, f ∈ (s'.thr τ).stack → ∀ k ∈ f.todo, childIn (shallow (Trie.get s'.trie f.node)) k = true
  todoNil : ∀ f, f ∈ (s'.thr τ).stack → isQuery (s'.thr τ).call = false → f.todo = []

theorem inv2_of_own {s s' : Cfg n} {l : Label n} (hi : Inv s) (h2 : Inv2 s) (h : Step true s l s')
    (ho : Own2 s l.tid s') : Inv2 s' := by
  have hother : ∀ σ, σ ≠ l.tid → s'.thr σ = s.thr σ := by
    intro σ hσ; rw [h.2]; exact eff_thr_other s l σ hσ
  constructor
  · intro σ; by_cases hσ : σ = l.tid
    · subst hσ; exact ho.runStack
    · rw [hother σ hσ]; exact h2.runStack σ
  · intro σ; by_cases hσ : σ = l.tid
    · subst hσ; exact ho.notDel
    · rw [hother σ hσ]; exact h2.notDel σ
  · intro σ; by_cases hσ : σ = l.tid
    · subst hσ; exact ho.addTop
    · rw [hother σ hσ]; exact h2.addTop σ
  · intro σ; by_cases hσ : σ = l.tid
    · subst hσ; exact ho.winLen
    · rw [hother σ hσ]; exact h2.winLen σ
  · intro σ; by_cases hσ : σ = l.tid
    · subst hσ; exact ho.todoOK
    · rw [hother σ hσ]
      intro f hf k hk
      rcases trie_step hi h with ht | hm
      · rw [ht.1]; exact h2.todoOK σ f hf k hk
      · rw [frozen_of_mut hi hm σ hσ f hf]; exact h2.todoOK σ f hf k hk
  · intro σ; by_cases hσ : σ = l.tid
    · subst hσ; exact ho.todoNil
    · rw [hother σ hσ]; exact h2.todoNil σ

theorem own2_flat {s s' : Cfg n} {τ : Fin n} (hst : (s'.thr τ).stack = [])
    (hpc : (s'.thr τ).pc = .idle ∨ (s'.thr τ).pc = .start ∨ (s'.thr τ).pc = .unwind) : Own2 s τ s' where
  runStack := by intro h; rcases hpc with h' | h' | h' <;> rw [h'] at h <;> cases h
  notDel := by intro h; rcases hpc with h' | h' | h' <;> rw [h'] at h <;> cases h
  addTop := by intro p v f h; rcases hpc with h' | h' | h' <;> rw [h'] at h <;> cases h
  winLen := by intro p v h; rcases hpc with h' | h' | h' <;> rw [h'] at h <;> cases h
  todoOK := by intro f hf; rw [hst] at hf; cases hf
  todoNil := by intro f hf; rw [hst] at hf; cases hf

theorem own2_unwound3 {s s' : Cfg n} {τ : Fin n} (h2 : Inv2 s)
    (hst : (s'.thr τ).stack = (s.thr τ).stack) (hpc : (s'.thr τ).pc = .unwind)
    (hq : isQuery (s.thr τ).call = false) : Own2 s τ s' where
  runStack := by intro h'; rw [hpc] at h'; cases h'
  notDel := by intro h'; rw [hpc] at h'; cases h'
  addTop := by intro p v f h'; rw [hpc] at h'; cases h'
  winLen := by intro p v h'; rw [hpc] at h'; cases h'
  todoOK := by
    intro f hf k hk
    rw [hst] at hf
    rw [h2.todoNil τ f hf hq] at hk; cases hk
  todoNil := by
    intro f hf _
    rw [hst] at hf
    exact h2.todoNil τ f hf hq

theorem own2_unwound {s s' : Cfg n} {τ : Fin n} (h2 : Inv2 s)
    (h : (s'.thr τ).stack = (s.thr τ).stack ∧ (s'.thr τ).call = (s.thr τ).call ∧
      (s'.thr τ).pc = .unwind ∧ (s'.thr τ).hs = (s.thr τ).hs)
    (hq : isQuery (s.thr τ).call = false) : Own2 s τ s' :=
  own2_unwound3 h2 h.1 h.2.2.1 hq

theorem length_lt_of_rest {c : Call} {x : Path} {k : String} {r : Path} (h : restAt c x = k :: r) :
    x.length + r.length + 1 = c.path.length ∨ x.length + r.length + 1 ≤ c.path.length := by
  right
  simp only [restAt] at h
  have := congrArg List.length h
  simp only [List.length_drop, List.length_cons] at this
  omega

theorem rest_len {c : Call} {x : Path} {k : String} {r : Path} (h : restAt c x = k :: r) :
    x.length + (r.length + 1) = c.path.length := by
  simp only [restAt] at h
  have := congrArg List.length h
  simp only [List.length_drop, List.length_cons] at this
  omega

set_option linter.unusedSimpArgs false in
theorem own2_step {s s' : Cfg n} {l : Label n} (hi : Inv s) (h2 : Inv2 s) (h : Step true s l s') :
    Own2 s l.tid s' := by
  obtain ⟨hg, rfl⟩ := h
  cases l with
  | invoke τ c =>
    show Own2 s τ _
    apply own2_flat
    · simp only [eff, track_thr, eff0]; split <;> simp [setThr]
    · right; left; simp only [eff, track_thr, eff0]; split <;> simp [setThr]
  | termRoot τ =>
    show Own2 s τ _
    simp only [guard, Bool.and_eq_true, beq_iff_eq, wOK_iff] at hg
    obtain ⟨⟨hpc, hw⟩, hg⟩ := hg
    split at hg
    · rename_i p v hcall
      exact own2_unwound h2 (termAt_thr s τ [] p v hcall (by simp)) (by rw [hcall]; rfl)
    · cases hg
  | termWrite τ =>
    show Own2 s τ _
    simp only [guard, Bool.and_eq_true, beq_iff_eq, Bool.true_or, Bool.true_and] at hg
    obtain ⟨hpc, hg⟩ := hg
    split at hg
    · rename_i p v f hcall htop
      split at hg
      · rename_i k nd hrest hget
        simp only [Bool.and_eq_true, wOK_iff] at hg
        have hex : (Trie.get s.trie (f.node ++ [k])).isSome = true := by
          rw [get_child _ _ _ _ hget]; exact hg.1
        have := termAt_thr s τ _ p v hcall hex
        apply own2_unwound h2 _ (by rw [hcall]; rfl)
        simp only [eff, track_thr, eff0, htop, hrest]
        exact this
      · cases hg
    · cases hg
  | insert τ =>
    show Own2 s τ _
    simp only [guard, Bool.and_eq_true, beq_iff_eq] at hg
    obtain ⟨hpc, hg⟩ := hg
    split at hg
    · rename_i p v f hcall htop
      simp only [Bool.and_eq_true, beq_iff_eq] at hg
      obtain ⟨hm, hg⟩ := hg
      split at hg
      · rename_i k r nd hrest hget
        apply own2_unwound h2 _ (by rw [hcall]; rfl)
        have h1 := addDone_thr s τ (put s.trie f.node (attach nd k (chain r v))) true p v hcall
        simp only [eff, track_thr, eff0, htop, hcall]
        rw [hcall] at hrest h1
        simp only [hrest, hget]
        exact h1
      · cases hg
    · cases hg
  | clobber τ => simp [guard] at hg
  | addErr τ =>
    show Own2 s τ _
    simp only [guard, Bool.and_eq_true, beq_iff_eq] at hg
    obtain ⟨hpc, hg⟩ := hg
    split at hg
    · rename_i p v f hcall htop
      apply own2_unwound h2 _ (by rw [hcall]; rfl)
      simp only [eff, track_thr, eff0]
      exact addDone_thr s τ _ _ p v hcall
    · cases hg
  | getHit τ =>
    show Own2 s τ _
    simp only [guard, Bool.and_eq_true, beq_iff_eq] at hg
    obtain ⟨hpc, hg⟩ := hg
    split at hg
    · rename_i p f hcall htop
      apply own2_unwound3 h2 _ _ (by rw [hcall]; rfl)
      · simp [eff, eff0, htop, hcall, setThr]
      · simp [eff, eff0, htop, hcall, setThr]
    · cases hg
  | getMiss τ =>
    show Own2 s τ _
    simp only [guard, Bool.and_eq_true, beq_iff_eq] at hg
    obtain ⟨hpc, hg⟩ := hg
    split at hg
    · rename_i p f hcall htop
      apply own2_unwound h2 _ (by rw [hcall]; rfl)
      simp [eff, eff0, hcall, setThr]
    · cases hg
  | delete τ =>
    show Own2 s τ _
    simp only [guard, Bool.and_eq_true, beq_iff_eq, wOK_iff] at hg
    obtain ⟨⟨hpc, hw⟩, hg⟩ := hg
    split at hg
    · rename_i q m hcall
      apply own2_unwound h2 _ (by rw [hcall]; rfl)
      simp [eff, eff0, hcall, setThr]
    · cases hg
  | hval τ h =>
    show Own2 s τ _
    simp only [guard, Bool.and_eq_true, beq_iff_eq] at hg
    have hst := hi.idle τ (Or.inl hg.1.1)
    apply own2_flat
    · simp only [eff, track_thr, eff0]; split <;> simp [setThr, hst]
    · left; simp only [eff, track_thr, eff0]; split <;> simp [setThr, hg.1.1]
  | hupd τ h v =>
    show Own2 s τ _
    simp only [guard, Bool.and_eq_true, beq_iff_eq] at hg
    have hst := hi.idle τ (Or.inl hg.1.1)
    apply own2_flat
    · simp only [eff, track_thr, eff0]; split <;> simp [setThr, hst]
    · left; simp only [eff, track_thr, eff0]; split <;> simp [setThr, hg.1.1]
  | ret τ =>
    show Own2 s τ _
    simp only [guard, Bool.and_eq_true, beq_iff_eq] at hg
    apply own2_flat
    · simpa [eff, eff0, setThr] using hg.1
    · left; simp [eff, eff0, setThr]
  | unlock τ =>
    show Own2 s τ _
    simp only [guard] at hg
    split at hg
    · cases hg
    · rename_i f htop
      obtain ⟨r, hr⟩ := stack_of_top htop
      have hth : ((eff s (.unlock τ)).thr τ) = { s.thr τ with stack := r } := by
        simp [eff, eff0, setThr, hr]
      simp only [Bool.or_eq_true, beq_iff_eq, Bool.and_eq_true] at hg
      have hsub : ∀ g ∈ r, g ∈ (s.thr τ).stack := fun g hg' => by rw [hr]; exact List.mem_cons_of_mem _ hg'
      have htrie : (eff s (.unlock τ)).trie = s.trie := by simp [eff, eff0, setThr]
      constructor
      · rw [hth]; intro hrun
        rcases hg with hg | hg
        · simp only at hrun; rw [hg] at hrun; cases hrun
        · left
          simp only
          cases hc : (s.thr τ).call <;> simp [hc] at hg <;> rfl
      · rw [hth]; intro hrun; exact h2.notDel τ hrun
      · rw [hth]; intro p v f' hrun hcall
        rcases hg with hg | hg
        · simp only at hrun; rw [hg] at hrun; cases hrun
        · simp only at hcall; simp [hcall] at hg
      · rw [hth]; intro p v hw
        rcases hg with hg | hg
        · simp only at hw; rw [hg] at hw; cases hw
        · simp only at hw; rw [hg.1.1] at hw; cases hw
      · rw [hth, htrie]; intro g hg'; exact h2.todoOK τ g (hsub g hg')
      · rw [hth]; intro g hg'; exact h2.todoNil τ g (hsub g hg')
  | upgRelease τ =>
    show Own2 s τ _
    simp only [guard, Bool.and_eq_true, beq_iff_eq] at hg
    obtain ⟨hpc, hg⟩ := hg
    split at hg
    · rename_i p v f hcall htop
      obtain ⟨r, hr⟩ := stack_of_top htop
      have hth : ((eff s (.upgRelease τ)).thr τ) = { s.thr τ with pc := .window, stack := r, cur := f.node } := by
        simp [eff, eff0, setThr, hr]
      have hsub : ∀ g ∈ r, g ∈ (s.thr τ).stack := fun g hg' => by rw [hr]; exact List.mem_cons_of_mem _ hg'
      have htrie : (eff s (.upgRelease τ)).trie = s.trie := by simp [eff, eff0, setThr, hr]
      simp only [Bool.and_eq_true, beq_iff_eq] at hg
      constructor
      · rw [hth]; intro h'; cases h'
      · rw [hth]; intro h'; cases h'
      · rw [hth]; intro p' v' f' h'; cases h'
      · rw [hth]; intro p' v' _ hc
        simp only at hc ⊢
        obtain ⟨_, hg⟩ := hg
        split at hg
        · rename_i k r' nd hrest hget
          have := rest_len hrest
          rw [hc] at this
          simp only [Call.path] at this
          omega
        · cases hg
      · rw [hth, htrie]; intro g hg'; exact h2.todoOK τ g (hsub g hg')
      · rw [hth]; intro g hg'; exact h2.todoNil τ g (hsub g hg')
    · cases hg
  | upgAcquire τ =>
    show Own2 s τ _
    simp only [guard, Bool.and_eq_true, beq_iff_eq, wOK_iff] at hg
    obtain ⟨hpc, hw⟩ := hg
    have hwin := hi.win τ hpc
    obtain ⟨p, v, hcall, hpre⟩ := hwin.call
    have hth : ((eff s (.upgAcquire τ)).thr τ) =
        { s.thr τ with pc := .run, stack := ⟨(s.thr τ).cur, .W, []⟩ :: (s.thr τ).stack } := by
      simp [eff, eff0, setThr]
    have htrie : (eff s (.upgAcquire τ)).trie = s.trie := by simp [eff, eff0, setThr]
    constructor
    · rw [hth]; intro _; right; simp
    · rw [hth]; intro _; simp only; rw [hcall]; rfl
    · rw [hth]; intro p' v' f' _ hc htop
      simp only [Thread.top, List.head?_cons, Option.some.injEq] at htop
      subst htop
      simp only at hc ⊢
      exact h2.winLen τ p' v' hpc hc
    · rw [hth]; intro p' v' h'; cases h'
    · rw [hth, htrie]; intro g hg' k hk
      rcases List.mem_cons.1 hg' with h' | h'
      · subst h'; cases hk
      · exact h2.todoOK τ g h' k hk
    · rw [hth]; intro g hg' hq
      rcases List.mem_cons.1 hg' with h' | h'
      · subst h'; rfl
      · exact h2.todoNil τ g h' hq
  | rlockRoot τ =>
    show Own2 s τ _
    simp only [guard, Bool.and_eq_true, beq_iff_eq, rOK_iff] at hg
    obtain ⟨⟨hpc, hr⟩, hg⟩ := hg
    have hst := hi.idle τ (Or.inr hpc)
    obtain ⟨F, hF, hFn, hFt, hFq, hFc, hFpc⟩ := pushR_top s (s.thr τ) []
    have hth : ((eff s (.rlockRoot τ)).thr τ) = pushR s (s.thr τ) [] := by
      simp [eff, eff0, setThr]
    have htrie : (eff s (.rlockRoot τ)).trie = s.trie := by simp [eff, eff0, setThr]
    rw [hst] at hF
    constructor
    · rw [hth, hF]; intro _; right; simp
    · rw [hth, hFc]; intro _
      cases hc : (s.thr τ).call <;> simp [hc] at hg <;> rfl
    · rw [hth, hFc]; intro p v f _ hc htop
      simp only [Thread.top, hF, List.head?_cons, Option.some.injEq] at htop
      subst htop
      rw [hFn]
      simp only [hc, bne_iff_ne, ne_eq] at hg
      cases p with
      | nil => exact absurd rfl hg
      | cons a p => simp
    · rw [hth, hFpc]; intro p v h'; cases h'
    · rw [hth, htrie, hF]; intro g hg' k hk
      simp only [List.mem_singleton] at hg'; subst hg'
      rw [hFn]; exact hFt k hk
    · rw [hth, hF, hFc]; intro g hg' hq
      simp only [List.mem_singleton] at hg'; subst hg'
      exact hFq hq
  | rlockChild τ =>
    show Own2 s τ _
    simp only [guard, Bool.and_eq_true, beq_iff_eq] at hg
    obtain ⟨hpc, hg⟩ := hg
    split at hg
    · cases hg
    · rename_i f htop
      simp only [Bool.true_or, Bool.true_and] at hg
      split at hg
      · rename_i k nd hnext hget
        simp only [Bool.and_eq_true, rOK_iff] at hg
        obtain ⟨⟨hch, hr⟩, hcc⟩ := hg
        obtain ⟨r, hst⟩ := stack_of_top htop
        obtain ⟨th0, hth0⟩ : ∃ th0 : Thread, th0 = { s.thr τ with stack := popTodo (s.thr τ) } := ⟨_, rfl⟩
        have h0c : th0.call = (s.thr τ).call := by rw [hth0]
        have h0s : th0.stack = popTodo (s.thr τ) := by rw [hth0]
        obtain ⟨F, hF, hFn, hFt, hFq, hFc, hFpc⟩ := pushR_top s th0 (f.node ++ [k])
        rw [h0c] at hFq hFc
        rw [h0s] at hF
        have hth : ((eff s (.rlockChild τ)).thr τ) = pushR s th0 (f.node ++ [k]) := by
          rw [hth0]; simp [eff, eff0, setThr, htop, hnext]
        have htrie : (eff s (.rlockChild τ)).trie = s.trie := by simp [eff, eff0, setThr, htop, hnext]
        have hfmem : f ∈ (s.thr τ).stack := mem_of_top htop
        -- the popped frames: same nodes, todo a suffix
        have hpop : ∀ g ∈ popTodo (s.thr τ), ∃ g0 ∈ (s.thr τ).stack, g0.node = g.node ∧
            (∀ k ∈ g.todo, k ∈ g0.todo) ∧ (isQuery (s.thr τ).call = false → g = g0) := by
          intro g hg'
          unfold popTodo at hg'
          split at hg'
          · rename_i q g1 r1 hq hst1
            rcases List.mem_cons.1 hg' with h' | h'
            · subst h'
              refine ⟨g1, by rw [hst1]; simp, rfl, fun k hk => List.mem_of_mem_tail hk, ?_⟩
              intro hq'; rw [hq] at hq'; cases hq'
            · exact ⟨g, by rw [hst1]; exact List.mem_cons_of_mem _ h', rfl, fun k hk => hk, fun _ => rfl⟩
          · exact ⟨g, hg', rfl, fun k hk => hk, fun _ => rfl⟩
        constructor
        · rw [hth, hF]; intro _; right; simp
        · rw [hth, hFc]; intro _
          cases hc : (s.thr τ).call <;> simp [hc] at hcc <;> rfl
        · rw [hth, hFc]; intro p v f' _ hc htop'
          simp only [Thread.top, hF, List.head?_cons, Option.some.injEq] at htop'
          subst htop'
          rw [hFn]
          simp only [hc, bne_iff_ne, ne_eq] at hcc
          simp only [nextChild, hc] at hnext
          cases hrest : restAt (Call.add p v) f.node with
          | nil => rw [hrest] at hnext; cases hnext
          | cons k' r' =>
            have hl := rest_len hrest
            rw [hrest] at hcc
            simp only [Call.path] at hl
            simp only [List.length_cons] at hcc
            simp only [List.length_append, List.length_singleton]
            omega
        · rw [hth, hFpc]; intro p v h'; cases h'
        · rw [hth, htrie, hF]; intro g hg' k' hk'
          rcases List.mem_cons.1 hg' with h' | h'
          · subst h'; rw [hFn]; exact hFt k' hk'
          · obtain ⟨g0, hg0, hn, hsub, _⟩ := hpop g h'
            rw [← hn]; exact h2.todoOK τ g0 hg0 k' (hsub k' hk')
        · rw [hth, hF, hFc]; intro g hg' hq
          rcases List.mem_cons.1 hg' with h' | h'
          · subst h'; exact hFq hq
          · obtain ⟨g0, hg0, _, _, heq⟩ := hpop g h'
            rw [heq hq]; exact h2.todoNil τ g0 hg0 hq
      · cases hg

theorem inv2_step {s s' : Cfg n} {l : Label n} (hi : Inv s) (h2 : Inv2 s) (h : Step true s l s') :
    Inv2 s' := inv2_of_own hi h2 h (own2_step hi h2 h)

theorem inv2_reach {s : Cfg n} (h : Reach true s) : Inv2 s := by
  induction h with
  | init => exact inv2_init
  | step hr hs ih => exact inv2_step (inv_reach hr) ih hs

/-- number of locks held = depth of the deepest held node + 1 -/
def hgt (s : Cfg n) (σ : Fin n) : Nat := (s.thr σ).stack.length

theorem chain_top_len : ∀ (r : List Frame) (f : Frame), Chain (f :: r) → f.node.length = r.length
  | [], f, h => by simp [show f.node = [] from h]
  | g :: r, f, h => by
      obtain ⟨⟨k, hk⟩, hc⟩ := h
      rw [hk, List.length_append, chain_top_len r g hc]; simp

theorem chain_mem_len : ∀ (st : List Frame), Chain st → ∀ f ∈ st, f.node.length < st.length
  | [], _, f, hf => by cases hf
  | g :: r, hc, f, hf => by
      rcases List.mem_cons.1 hf with h | h
      · subst h; rw [chain_top_len r f hc]; simp
      · have := chain_mem_len r (chain_tail hc) f h
        simp only [List.length_cons]; omega

/-- a refused write lock: somebody deeper holds the node -/
theorem blocked_w {s : Cfg n} (hi : Inv s) {τ : Fin n} {y : Path} (h : wOK s τ y = false) :
    ∃ σ, (s.thr σ).pc ≠ .idle ∧ y.length < hgt s σ := by
  have : ¬ (∀ σ : Fin n, σ ≠ τ → ∀ f ∈ (s.thr σ).stack, f.node ≠ y) := by
    intro h'; rw [(wOK_iff s τ y).2 h'] at h; cases h
  simp only [Classical.not_forall, not_imp, Decidable.not_not] at this
  obtain ⟨σ, _, f, hf, hn⟩ := this
  refine ⟨σ, ?_, ?_⟩
  · intro hp
    rw [hi.idle σ (Or.inl hp)] at hf; cases hf
  · rw [← hn]; exact chain_mem_len _ (hi.chain σ) f hf

theorem blocked_r {s : Cfg n} (hi : Inv s) {τ : Fin n} {y : Path} (h : rOK s τ y = false) :
    ∃ σ, (s.thr σ).pc ≠ .idle ∧ y.length < hgt s σ := by
  have : ¬ (∀ σ : Fin n, σ ≠ τ → ∀ f ∈ (s.thr σ).stack, ¬ (f.node = y ∧ f.mode = .W)) := by
    intro h'; rw [(rOK_iff s τ y).2 h'] at h; cases h
  simp only [Classical.not_forall, not_imp, Decidable.not_not] at this
  obtain ⟨σ, _, f, hf, hn, _⟩ := this
  refine ⟨σ, ?_, ?_⟩
  · intro hp
    rw [hi.idle σ (Or.inl hp)] at hf; cases hf
  · rw [← hn]; exact chain_mem_len _ (hi.chain σ) f hf

/-- an unfinished operation either has an enabled transition or waits for a lock held by a
thread that holds strictly more locks (is strictly deeper in the tree) -/
theorem progress_or_blocked {s : Cfg n} (hi : Inv s) (h2 : Inv2 s) (τ : Fin n)
    (hpc : (s.thr τ).pc ≠ .idle) :
    (∃ l : Label n, l.tid = τ ∧ guard true s l = true) ∨
    (∃ σ, (s.thr σ).pc ≠ .idle ∧ hgt s τ < hgt s σ) := by
  cases hp : (s.thr τ).pc with
  | idle => exact absurd hp hpc
  | start =>
    have hst := hi.idle τ (Or.inr hp)
    have h0 : hgt s τ = 0 := by simp [hgt, hst]
    cases hc : (s.thr τ).call with
    | add p v =>
      cases p with
      | nil =>
        cases hw : wOK s τ [] with
        | true => exact Or.inl ⟨.termRoot τ, rfl, by simp [guard, hp, hw, hc]⟩
        | false =>
          obtain ⟨σ, h1, h2'⟩ := blocked_w hi hw
          exact Or.inr ⟨σ, h1, by rw [h0]; exact Nat.lt_of_le_of_lt (Nat.zero_le _) h2'⟩
      | cons a p =>
        cases hw : rOK s τ [] with
        | true => exact Or.inl ⟨.rlockRoot τ, rfl, by simp [guard, hp, hw, hc]⟩
        | false =>
          obtain ⟨σ, h1, h2'⟩ := blocked_r hi hw
          exact Or.inr ⟨σ, h1, by rw [h0]; exact Nat.lt_of_le_of_lt (Nat.zero_le _) h2'⟩
    | get p =>
      cases hw : rOK s τ [] with
      | true => exact Or.inl ⟨.rlockRoot τ, rfl, by simp [guard, hp, hw, hc]⟩
      | false =>
        obtain ⟨σ, h1, h2'⟩ := blocked_r hi hw
        exact Or.inr ⟨σ, h1, by rw [h0]; exact Nat.lt_of_le_of_lt (Nat.zero_le _) h2'⟩
    | query q =>
      cases hw : rOK s τ [] with
      | true => exact Or.inl ⟨.rlockRoot τ, rfl, by simp [guard, hp, hw, hc]⟩
      | false =>
        obtain ⟨σ, h1, h2'⟩ := blocked_r hi hw
        exact Or.inr ⟨σ, h1, by rw [h0]; exact Nat.lt_of_le_of_lt (Nat.zero_le _) h2'⟩
    | del q m =>
      cases hw : wOK s τ [] with
      | true => exact Or.inl ⟨.delete τ, rfl, by simp [guard, hp, hw, hc]⟩
      | false =>
        obtain ⟨σ, h1, h2'⟩ := blocked_w hi hw
        exact Or.inr ⟨σ, h1, by rw [h0]; exact Nat.lt_of_le_of_lt (Nat.zero_le _) h2'⟩
  | unwind =>
    left
    cases hst : (s.thr τ).stack with
    | nil => exact ⟨.ret τ, rfl, by simp [guard, hp, hst]⟩
    | cons f r => exact ⟨.unlock τ, rfl, by simp [guard, hp, Thread.top, hst]⟩
  | window =>
    have hwin := hi.win τ hp
    have hlen : (s.thr τ).cur.length = hgt s τ := chain_top_len _ _ hwin.chain
    cases hw : wOK s τ (s.thr τ).cur with
    | true => exact Or.inl ⟨.upgAcquire τ, rfl, by simp [guard, hp, hw]⟩
    | false =>
      obtain ⟨σ, h1, h2'⟩ := blocked_w hi hw
      exact Or.inr ⟨σ, h1, by rw [← hlen]; exact h2'⟩
  | run =>
    have hnd := h2.notDel τ hp
    cases hst : (s.thr τ).stack with
    | nil =>
      -- only a query can be running with no lock: it is about to return
      rcases h2.runStack τ hp with hq | hne
      · left
        refine ⟨.ret τ, rfl, ?_⟩
        cases hc : (s.thr τ).call <;> simp [hc, isQuery] at hq
        simp [guard, hp, hst, hc]
      · exact absurd hst hne
    | cons f r =>
      have htop : (s.thr τ).top = some f := by simp [Thread.top, hst]
      have hfm : f ∈ (s.thr τ).stack := by rw [hst]; simp
      have hflen : f.node.length = r.length := chain_top_len r f (hst ▸ hi.chain τ)
      have hh : hgt s τ = r.length + 1 := by simp [hgt, hst]
      obtain ⟨nd, hget⟩ := Option.isSome_iff_exists.1 (hi.ex τ f hfm)
      -- blocked on the child `f.node ++ [k]`
      have hblk : ∀ {σ : Fin n} {k : String}, (s.thr σ).pc ≠ .idle → (f.node ++ [k]).length < hgt s σ →
          ∃ σ, (s.thr σ).pc ≠ .idle ∧ hgt s τ < hgt s σ := by
        intro σ k h1 h2'
        refine ⟨σ, h1, ?_⟩
        rw [hh]
        simp only [List.length_append, List.length_singleton, hflen] at h2'
        exact h2'
      cases hc : (s.thr τ).call with
      | del q m => rw [hc] at hnd; cases hnd
      | query q =>
        cases htd : f.todo with
        | nil => exact Or.inl ⟨.unlock τ, rfl, by simp [guard, hp, htop, htd, hc]⟩
        | cons k ks =>
          have hchild : hasChild nd k = true := by
            have := h2.todoOK τ f hfm k (by rw [htd]; simp)
            rw [← get_child_shallow, get_child _ _ _ _ hget] at this
            exact this
          cases hw : rOK s τ (f.node ++ [k]) with
          | true =>
            exact Or.inl ⟨.rlockChild τ, rfl, by simp [guard, hp, htop, nextChild, hc, htd, hget, hchild, hw]⟩
          | false =>
            obtain ⟨σ, h1, h2'⟩ := blocked_r hi hw
            exact Or.inr (hblk h1 h2')
      | get p =>
        cases hrest : restAt (s.thr τ).call f.node with
        | nil => exact Or.inl ⟨.getHit τ, rfl, by rw [hc] at hrest; simp [guard, hp, htop, hc, hrest]⟩
        | cons k rr =>
          cases hchild : hasChild nd k with
          | false =>
            exact Or.inl ⟨.getMiss τ, rfl, by
              simp only [guard, hp, htop, hc, beq_self_eq_true, Bool.true_and]
              rw [hc] at hrest
              simp [hrest, hget, hchild]⟩
          | true =>
            cases hw : rOK s τ (f.node ++ [k]) with
            | true =>
              exact Or.inl ⟨.rlockChild τ, rfl, by
                rw [hc] at hrest
                simp [guard, hp, htop, nextChild, hc, hrest, hget, hchild, hw]⟩
            | false =>
              obtain ⟨σ, h1, h2'⟩ := blocked_r hi hw
              exact Or.inr (hblk h1 h2')
      | add p v =>
        have hlt := h2.addTop τ p v f hp hc htop
        cases hrest : restAt (Call.add p v) f.node with
        | nil =>
          exfalso
          simp only [restAt, Call.path, List.drop_eq_nil_iff] at hrest
          omega
        | cons k rr =>
          cases hleaf : isLeaf nd with
          | true =>
            exact Or.inl ⟨.addErr τ, rfl, by simp [guard, hp, htop, hc, hrest, hget, hleaf]⟩
          | false =>
            cases hchild : hasChild nd k with
            | false =>
              cases hm : f.mode with
              | R => exact Or.inl ⟨.upgRelease τ, rfl, by simp [guard, hp, htop, hc, hrest, hget, hleaf, hchild, hm]⟩
              | W => exact Or.inl ⟨.insert τ, rfl, by simp [guard, hp, htop, hc, hrest, hget, hleaf, hchild, hm]⟩
            | true =>
              cases rr with
              | nil =>
                cases hw : wOK s τ (f.node ++ [k]) with
                | true =>
                  exact Or.inl ⟨.termWrite τ, rfl, by simp [guard, hp, htop, hc, hrest, hget, hchild, hw]⟩
                | false =>
                  obtain ⟨σ, h1, h2'⟩ := blocked_w hi hw
                  exact Or.inr (hblk h1 h2')
              | cons k2 rr2 =>
                cases hw : rOK s τ (f.node ++ [k]) with
                | true =>
                  exact Or.inl ⟨.rlockChild τ, rfl, by
                    simp [guard, hp, htop, nextChild, hc, hrest, hget, hchild, hw]⟩
                | false =>
                  obtain ⟨σ, h1, h2'⟩ := blocked_r hi hw
                  exact Or.inr (hblk h1 h2')

theorem le_sum_of_mem {α : Type} (f : α → Nat) : ∀ (l : List α) (a : α), a ∈ l → f a ≤ (l.map f).sum
  | [], _, h => by cases h
  | b :: l, a, h => by
      simp only [List.map_cons, List.sum_cons]
      rcases List.mem_cons.1 h with h | h
      · subst h; omega
      · have := le_sum_of_mem f l a h; omega

/-- some unfinished operation can always take a step -/
theorem progress {s : Cfg n} (hi : Inv s) (h2 : Inv2 s) (τ : Fin n) (hpc : (s.thr τ).pc ≠ .idle) :
    ∃ l : Label n, (s.thr l.tid).pc ≠ .idle ∧ guard true s l = true := by
  let B := ((List.finRange n).map (hgt s)).sum
  have hB : ∀ σ, hgt s σ ≤ B := fun σ => le_sum_of_mem (hgt s) _ σ (List.mem_finRange σ)
  suffices ∀ d τ, (s.thr τ).pc ≠ .idle → B - hgt s τ ≤ d →
      ∃ l : Label n, (s.thr l.tid).pc ≠ .idle ∧ guard true s l = true from this _ τ hpc (Nat.le_refl _)
  intro d
  induction d with
  | zero =>
    intro τ hpc hd
    rcases progress_or_blocked hi h2 τ hpc with ⟨l, hl, hg⟩ | ⟨σ, _, hlt⟩
    · exact ⟨l, by rw [hl]; exact hpc, hg⟩
    · have := hB σ; have := hB τ; omega
  | succ d ih =>
    intro τ hpc hd
    rcases progress_or_blocked hi h2 τ hpc with ⟨l, hl, hg⟩ | ⟨σ, hσ, hlt⟩
    · exact ⟨l, by rw [hl]; exact hpc, hg⟩
    · exact ih σ hσ (by have := hB σ; omega)

/-! ## query stability: lemmas about the depth-first visit -/

/-- `q` is compatible with the node path `x` as far as both go -/
def pm : Path → Path → Bool
  | [], _ => true
  | _ :: _, [] => true
  | g :: q, a :: x => (g == glob || g == a) && pm q x

theorem getL_some_nil : ∀ (cs : List (String × Trie Nat)) (k : String) (z : Path),
    (getL cs k z).isSome = true → (getL cs k []).isSome = true := by
  intro cs k z h
  cases h0 : getL cs k [] with
  | none => rw [getL_none_of_nil cs k z h0] at h; cases h
  | some x => rfl

/-- a stored key runs through branch nodes that have the next element as a child -/
theorem mem_walk_structure {t : Trie Nat} (hw : WFRoot t) {k : Path} {v : Nat} (hk : (k, v) ∈ walk t)
    (x : Path) (c : String) (z : Path) (hx : k = x ++ c :: z) :
    ∃ cs, Trie.get t x = some (.branch cs) ∧ c ∈ cs.map (·.1) := by
  have hg := (get_leaf_mem t hw k v).2 hk
  rw [hx, get_append] at hg
  cases hgx : Trie.get t x with
  | none => rw [hgx] at hg; cases hg
  | some nd =>
    rw [hgx, Option.bind_some] at hg
    cases nd with
    | empty => simp [Trie.get] at hg
    | leaf w => simp [Trie.get] at hg
    | branch cs =>
      refine ⟨cs, rfl, ?_⟩
      simp only [Trie.get] at hg
      exact (keys_of_getL cs c).1 (getL_some_nil cs c z (by rw [hg]; rfl))

theorem qmatches_append : ∀ (x q y : Path), qmatches q (x ++ y) = true →
    pm q x = true ∧ qmatches (q.drop x.length) y = true
  | [], q, y, h => by
      refine ⟨?_, by simpa using h⟩
      cases q <;> rfl
  | a :: x, [], y, _ => by simp [pm, qmatches]
  | a :: x, g :: q, y, h => by
      have h' : ((g == glob || g == a) && qmatches q (x ++ y)) = true := by
        cases q <;> simpa [qmatches] using h
      simp only [Bool.and_eq_true] at h'
      obtain ⟨h1, h2⟩ := qmatches_append x q y h'.2
      exact ⟨by simp only [pm, Bool.and_eq_true]; exact ⟨h'.1, h1⟩, by simpa using h2⟩

theorem qmatches_of_pm : ∀ (x q : Path), pm q x = true → qmatches (q.drop x.length) [] = true →
    qmatches q x = true
  | [], q, _, h => by simpa using h
  | a :: x, [], _, _ => by simp [qmatches]
  | a :: x, g :: q, hp, h => by
      simp only [pm, Bool.and_eq_true] at hp
      have := qmatches_of_pm x q hp.2 (by simpa using h)
      cases q with
      | nil => simp only [qmatches, Bool.and_eq_true]; exact ⟨hp.1, by simp [qmatches]⟩
      | cons g2 q2 => simp only [qmatches, Bool.and_eq_true]; exact ⟨hp.1, this⟩

theorem visitFor_of_match (v : Nat) (qr : Path) (h : qmatches qr [] = true) :
    visitFor (.leaf v) qr = some v := by
  match qr, h with
  | [], _ => rfl
  | [g], h => simp only [qmatches, beq_iff_eq] at h; simp [visitFor, h]
  | _ :: _ :: _, h => simp [qmatches] at h

theorem visitFor_some {nd : Trie Nat} {qr : Path} {v : Nat} (h : visitFor nd qr = some v) :
    nd = .leaf v ∧ qmatches qr [] = true := by
  match nd, qr, h with
  | .leaf w, [], h => simp only [visitFor, Option.some.injEq] at h; subst h; exact ⟨rfl, rfl⟩
  | .leaf w, [g], h =>
    simp only [visitFor] at h
    split at h
    · rename_i hg
      simp only [Option.some.injEq] at h; subst h
      exact ⟨rfl, by simp [qmatches, hg]⟩
    · cases h
  | .leaf w, _ :: _ :: _, h => simp [visitFor] at h
  | .empty, qr, h => cases qr <;> simp [visitFor] at h
  | .branch cs, qr, h => cases qr <;> simp [visitFor] at h

theorem todoFor_of_match (cs : List (String × Trie Nat)) (qr : Path) (c : String) (z : Path)
    (h : qmatches qr (c :: z) = true) (hc : c ∈ cs.map (·.1)) : c ∈ todoFor (.branch cs) qr := by
  cases qr with
  | nil => exact hc
  | cons g q' =>
    have h' : ((g == glob || g == c) && qmatches q' z) = true := by
      cases q' <;> simpa [qmatches] using h
    simp only [Bool.and_eq_true, Bool.or_eq_true, beq_iff_eq] at h'
    simp only [todoFor]
    by_cases hg : g = glob
    · simp [hg]; simpa using hc
    · rcases h'.1 with h1 | h1
      · exact absurd h1 hg
      · subst h1
        simp only [hg, if_false]
        rw [if_pos ((keys_of_getL cs g).2 hc)]
        simp

theorem pm_todo : ∀ (x q : Path) (nd : Trie Nat) (c : String), pm q x = true →
    c ∈ todoFor nd (q.drop x.length) → pm q (x ++ [c]) = true
  | [], [], _, _, _, _ => rfl
  | [], g :: q, nd, c, _, h => by
      simp only [List.length_nil, List.drop_zero] at h
      cases nd with
      | empty => simp [todoFor] at h
      | leaf w => simp [todoFor] at h
      | branch cs =>
        simp only [todoFor] at h
        have hq : pm q [] = true := by cases q <;> rfl
        simp only [List.nil_append, pm, Bool.and_eq_true, Bool.or_eq_true, beq_iff_eq]
        refine ⟨?_, hq⟩
        split at h
        · rename_i hg; exact Or.inl hg
        · split at h
          · simp only [List.mem_singleton] at h; exact Or.inr h.symm
          · cases h
  | a :: x, [], _, _, _, _ => rfl
  | a :: x, g :: q, nd, c, hp, h => by
      simp only [pm, Bool.and_eq_true] at hp
      simp only [List.cons_append, pm, Bool.and_eq_true]
      exact ⟨hp.1, pm_todo x q nd c hp.2 (by simpa using h)⟩

theorem wfl_keys_nodup : ∀ (cs : List (String × Trie Nat)), WFL cs → (cs.map (·.1)).Nodup
  | [], _ => List.nodup_nil
  | (k, t) :: cs, h => by
      simp only [List.map_cons, List.nodup_cons]
      refine ⟨?_, wfl_keys_nodup cs h.2.2⟩
      intro hm
      obtain ⟨kt, hkt, hk⟩ := List.mem_map.1 hm
      exact h.2.1 kt hkt hk

theorem todoFor_nodup (nd : Trie Nat) (qr : Path) (h : nd = .empty ∨ WF nd) : (todoFor nd qr).Nodup := by
  cases nd with
  | empty => cases qr <;> simp [todoFor]
  | leaf w => cases qr <;> simp [todoFor]
  | branch cs =>
    have hw : WFL cs := by
      rcases h with h | h
      · cases h
      · exact h.2
    cases qr with
    | nil => exact wfl_keys_nodup cs hw
    | cons g q =>
      simp only [todoFor]
      split
      · exact wfl_keys_nodup cs hw
      · split <;> simp

/-! ### the ghost bookkeeping -/

def isInvokeQuery : Label n → Bool
  | .invoke _ (.query _) => true
  | _ => false

theorem eff0_q (s : Cfg n) (l : Label n) (h : isInvokeQuery l = false) :
    (eff0 s l).qmust = s.qmust ∧ (eff0 s l).qmay = s.qmay := by
  cases l with
  | invoke τ c =>
    cases c with
    | query q => simp [isInvokeQuery] at h
    | add p v => simp [eff0, setThr]
    | get p => simp [eff0, setThr]
    | del q m => simp [eff0, setThr]
  | _ =>
    simp only [eff0, addDone, termAt]
    repeat' split
    all_goals first | exact ⟨rfl, rfl⟩ | simp [setThr, addLog]

/-- every transition except the invocation of a query: `qmust` keeps the keys still present,
`qmay` collects the content of the new configuration -/
theorem eff_q (s : Cfg n) (l : Label n) (h : isInvokeQuery l = false) (σ : Fin n) :
    (eff s l).qmust σ = (s.qmust σ).filter (hasKey (eff s l).trie) ∧
    (eff s l).qmay σ = s.qmay σ ++ walk (eff s l).trie := by
  obtain ⟨h1, h2⟩ := eff0_q s l h
  simp [eff, track, h1, h2]

theorem eff_q_invoke (s : Cfg n) (τ : Fin n) (q : Path) (σ : Fin n) :
    (eff s (.invoke τ (.query q))).trie = s.trie ∧
    (eff s (.invoke τ (.query q))).qmust σ =
      (if σ = τ then ((walk s.trie).map (·.1)).filter (qmatches q) else s.qmust σ).filter (hasKey s.trie) ∧
    (eff s (.invoke τ (.query q))).qmay σ = (if σ = τ then [] else s.qmay σ) ++ walk s.trie := by
  refine ⟨by simp [eff, eff0, setThr], ?_, ?_⟩
  · simp only [eff, track, eff0, setThr]
  · simp only [eff, track, eff0, setThr]

/-! ### what a transition does to the acting thread's pc and call -/

def pcAfter (pc : PC) : Label n → PC
  | .invoke _ _ => .start
  | .rlockRoot _ | .rlockChild _ | .upgAcquire _ => .run
  | .upgRelease _ => .window
  | .unlock _ => pc
  | .hval _ _ | .hupd _ _ _ | .ret _ => .idle
  | _ => .unwind

theorem termAt_pc_call (s : Cfg n) (τ : Fin n) (y : Path) (p : Path) (v : Nat)
    (hc : (s.thr τ).call = .add p v) (hex : (Trie.get s.trie y).isSome = true) :
    ((termAt s τ y).thr τ).pc = .unwind ∧ ((termAt s τ y).thr τ).call = (s.thr τ).call :=
  ⟨(termAt_thr s τ y p v hc hex).2.2.1, (termAt_thr s τ y p v hc hex).2.1⟩

set_option linter.unusedSimpArgs false in
theorem pc_call_after {s s' : Cfg n} {l : Label n} (h : Step true s l s') :
    (s'.thr l.tid).pc = pcAfter (s.thr l.tid).pc l ∧
    (isInvokeQuery l = false → (∀ τ c, l ≠ .invoke τ c) → (s'.thr l.tid).call = (s.thr l.tid).call) := by
  obtain ⟨hg, rfl⟩ := h
  cases l with
  | invoke τ c =>
    refine ⟨?_, fun _ h => absurd rfl (h τ c)⟩
    show ((eff s (.invoke τ c)).thr τ).pc = .start
    simp only [eff, track_thr, eff0]; split <;> simp [setThr]
  | termRoot τ =>
    show ((eff s (.termRoot τ)).thr τ).pc = .unwind ∧ (_ → _ → ((eff s (.termRoot τ)).thr τ).call = (s.thr τ).call)
    simp only [guard, Bool.and_eq_true, beq_iff_eq, wOK_iff] at hg
    obtain ⟨⟨hpc, hw⟩, hg⟩ := hg
    split at hg
    · rename_i p v hcall
      have := termAt_pc_call s τ [] p v hcall (by simp)
      exact ⟨this.1, fun _ _ => this.2⟩
    · cases hg
  | termWrite τ =>
    show ((eff s (.termWrite τ)).thr τ).pc = .unwind ∧ (_ → _ → ((eff s (.termWrite τ)).thr τ).call = (s.thr τ).call)
    simp only [guard, Bool.and_eq_true, beq_iff_eq, Bool.true_or, Bool.true_and] at hg
    obtain ⟨hpc, hg⟩ := hg
    split at hg
    · rename_i p v f hcall htop
      split at hg
      · rename_i k nd hrest hget
        simp only [Bool.and_eq_true, wOK_iff] at hg
        have hex : (Trie.get s.trie (f.node ++ [k])).isSome = true := by
          rw [get_child _ _ _ _ hget]; exact hg.1
        have := termAt_pc_call s τ _ p v hcall hex
        simp only [eff, track_thr, eff0, htop, hrest]
        exact ⟨this.1, fun _ _ => this.2⟩
      · cases hg
    · cases hg
  | insert τ =>
    show ((eff s (.insert τ)).thr τ).pc = .unwind ∧ (_ → _ → ((eff s (.insert τ)).thr τ).call = (s.thr τ).call)
    simp only [guard, Bool.and_eq_true, beq_iff_eq] at hg
    obtain ⟨hpc, hg⟩ := hg
    split at hg
    · rename_i p v f hcall htop
      simp only [Bool.and_eq_true, beq_iff_eq] at hg
      obtain ⟨hm, hg⟩ := hg
      split at hg
      · rename_i k r nd hrest hget
        have h1 := addDone_thr s τ (put s.trie f.node (attach nd k (chain r v))) true p v hcall
        simp only [eff, track_thr, eff0, htop, hcall]
        rw [hcall] at hrest h1
        simp only [hrest, hget]
        exact ⟨h1.2.2.1, fun _ _ => h1.2.1⟩
      · cases hg
    · cases hg
  | clobber τ => simp [guard] at hg
  | addErr τ =>
    show ((eff s (.addErr τ)).thr τ).pc = .unwind ∧ (_ → _ → ((eff s (.addErr τ)).thr τ).call = (s.thr τ).call)
    simp only [guard, Bool.and_eq_true, beq_iff_eq] at hg
    obtain ⟨hpc, hg⟩ := hg
    split at hg
    · rename_i p v f hcall htop
      have h1 := addDone_thr s τ s.trie false p v hcall
      simp only [eff, track_thr, eff0]
      exact ⟨h1.2.2.1, fun _ _ => h1.2.1⟩
    · cases hg
  | getHit τ =>
    show ((eff s (.getHit τ)).thr τ).pc = .unwind ∧ (_ → _ → ((eff s (.getHit τ)).thr τ).call = (s.thr τ).call)
    simp only [guard, Bool.and_eq_true, beq_iff_eq] at hg
    obtain ⟨hpc, hg⟩ := hg
    split at hg
    · rename_i p f hcall htop
      exact ⟨by simp [eff, eff0, htop, hcall, setThr], fun _ _ => by simp [eff, eff0, htop, hcall, setThr]⟩
    · cases hg
  | getMiss τ =>
    show ((eff s (.getMiss τ)).thr τ).pc = .unwind ∧ (_ → _ → ((eff s (.getMiss τ)).thr τ).call = (s.thr τ).call)
    simp only [guard, Bool.and_eq_true, beq_iff_eq] at hg
    obtain ⟨hpc, hg⟩ := hg
    split at hg
    · rename_i p f hcall htop
      exact ⟨by simp [eff, eff0, hcall, setThr], fun _ _ => by simp [eff, eff0, hcall, setThr]⟩
    · cases hg
  | delete τ =>
    show ((eff s (.delete τ)).thr τ).pc = .unwind ∧ (_ → _ → ((eff s (.delete τ)).thr τ).call = (s.thr τ).call)
    simp only [guard, Bool.and_eq_true, beq_iff_eq, wOK_iff] at hg
    obtain ⟨⟨hpc, hw⟩, hg⟩ := hg
    split at hg
    · rename_i q m hcall
      exact ⟨by simp [eff, eff0, hcall, setThr], fun _ _ => by simp [eff, eff0, hcall, setThr]⟩
    · cases hg
  | hval τ h =>
    show ((eff s (.hval τ h)).thr τ).pc = .idle ∧ (_ → _ → ((eff s (.hval τ h)).thr τ).call = (s.thr τ).call)
    simp only [guard, Bool.and_eq_true, beq_iff_eq] at hg
    refine ⟨?_, fun _ _ => ?_⟩
    · simp only [eff, track_thr, eff0]; split <;> simp [setThr, hg.1.1]
    · simp only [eff, track_thr, eff0]; split <;> simp [setThr]
  | hupd τ h v =>
    show ((eff s (.hupd τ h v)).thr τ).pc = .idle ∧ (_ → _ → ((eff s (.hupd τ h v)).thr τ).call = (s.thr τ).call)
    simp only [guard, Bool.and_eq_true, beq_iff_eq] at hg
    refine ⟨?_, fun _ _ => ?_⟩
    · simp only [eff, track_thr, eff0]; split <;> simp [setThr, hg.1.1]
    · simp only [eff, track_thr, eff0]; split <;> simp [setThr]
  | ret τ =>
    show ((eff s (.ret τ)).thr τ).pc = .idle ∧ (_ → _ → ((eff s (.ret τ)).thr τ).call = (s.thr τ).call)
    exact ⟨by simp [eff, eff0, setThr], fun _ _ => by simp [eff, eff0, setThr]⟩
  | unlock τ =>
    show ((eff s (.unlock τ)).thr τ).pc = (s.thr τ).pc ∧ (_ → _ → ((eff s (.unlock τ)).thr τ).call = (s.thr τ).call)
    exact ⟨by simp [eff, eff0, setThr], fun _ _ => by simp [eff, eff0, setThr]⟩
  | upgRelease τ =>
    show ((eff s (.upgRelease τ)).thr τ).pc = .window ∧ (_ → _ → ((eff s (.upgRelease τ)).thr τ).call = (s.thr τ).call)
    simp only [guard, Bool.and_eq_true, beq_iff_eq] at hg
    obtain ⟨hpc, hg⟩ := hg
    split at hg
    · rename_i p v f hcall htop
      obtain ⟨r, hr⟩ := stack_of_top htop
      exact ⟨by simp [eff, eff0, setThr, hr], fun _ _ => by simp [eff, eff0, setThr, hr]⟩
    · cases hg
  | upgAcquire τ =>
    show ((eff s (.upgAcquire τ)).thr τ).pc = .run ∧ (_ → _ → ((eff s (.upgAcquire τ)).thr τ).call = (s.thr τ).call)
    exact ⟨by simp [eff, eff0, setThr], fun _ _ => by simp [eff, eff0, setThr]⟩
  | rlockRoot τ =>
    show ((eff s (.rlockRoot τ)).thr τ).pc = .run ∧ (_ → _ → ((eff s (.rlockRoot τ)).thr τ).call = (s.thr τ).call)
    obtain ⟨F, _, _, _, _, hFc, hFpc⟩ := pushR_top s (s.thr τ) []
    have hth : ((eff s (.rlockRoot τ)).thr τ) = pushR s (s.thr τ) [] := by simp [eff, eff0, setThr]
    exact ⟨by rw [hth, hFpc], fun _ _ => by rw [hth, hFc]⟩
  | rlockChild τ =>
    show ((eff s (.rlockChild τ)).thr τ).pc = .run ∧ (_ → _ → ((eff s (.rlockChild τ)).thr τ).call = (s.thr τ).call)
    simp only [guard, Bool.and_eq_true, beq_iff_eq] at hg
    obtain ⟨hpc, hg⟩ := hg
    split at hg
    · cases hg
    · rename_i f htop
      simp only [Bool.true_or, Bool.true_and] at hg
      split at hg
      · rename_i k nd hnext hget
        obtain ⟨th0, hth0⟩ : ∃ th0 : Thread, th0 = { s.thr τ with stack := popTodo (s.thr τ) } := ⟨_, rfl⟩
        have h0c : th0.call = (s.thr τ).call := by rw [hth0]
        obtain ⟨F, _, _, _, _, hFc, hFpc⟩ := pushR_top s th0 (f.node ++ [k])
        have hth : ((eff s (.rlockChild τ)).thr τ) = pushR s th0 (f.node ++ [k]) := by
          rw [hth0]; simp [eff, eff0, setThr, htop, hnext]
        exact ⟨by rw [hth, hFpc], fun _ _ => by rw [hth, hFc, h0c]⟩
      · cases hg

/-! ### the invariant of a running query -/

/-- key `k` lies below a child of `f.node` the query has still to visit -/
def Pend (f : Frame) (k : Path) : Prop := ∃ c z, k = f.node ++ c :: z ∧ c ∈ f.todo

/-- the child followed from a frame to the frame above it has been taken off `todo` -/
def FollowOK : List Frame → Prop
  | [] => True
  | [_] => True
  | F :: g :: r => (∀ c, F.node = g.node ++ [c] → c ∉ g.todo) ∧ FollowOK (g :: r)

structure QInv (s : Cfg n) (τ : Fin n) (q : Path) : Prop where
  must_ok : ∀ k ∈ s.qmust τ, hasKey s.trie k = true ∧ qmatches q k = true
  covered : (s.thr τ).pc = .run → ∀ k ∈ s.qmust τ,
    (∃ v, (k, v) ∈ (s.thr τ).out) ∨ ∃ f ∈ (s.thr τ).stack, Pend f k
  sound : ∀ kv ∈ (s.thr τ).out, kv ∈ s.qmay τ ∧ qmatches q kv.1 = true
  pmOK : ∀ f ∈ (s.thr τ).stack, pm q f.node = true ∧ ∀ c ∈ f.todo, pm q (f.node ++ [c]) = true
  nodupOut : ((s.thr τ).out.map (·.1)).Nodup
  notPend : ∀ kv ∈ (s.thr τ).out, ∀ f ∈ (s.thr τ).stack, ¬ Pend f kv.1
  todoNodup : ∀ f ∈ (s.thr τ).stack, f.todo.Nodup
  follow : FollowOK (s.thr τ).stack
  startOut : (s.thr τ).pc = .start → (s.thr τ).out = []

def QAll (s : Cfg n) : Prop :=
  ∀ τ q, (s.thr τ).call = .query q → ((s.thr τ).pc = .start ∨ (s.thr τ).pc = .run) → QInv s τ q

theorem qall_init : QAll (init n) := by
  intro τ q _ h
  rcases h with h | h <;> cases h

theorem hasKey_iff (t : Trie Nat) (k : Path) : hasKey t k = true ↔ ∃ v, (k, v) ∈ walk t := by
  simp only [hasKey, List.any_eq_true, beq_iff_eq]
  constructor
  · rintro ⟨⟨k', v⟩, hm, rfl⟩; exact ⟨v, hm⟩
  · rintro ⟨v, hm⟩; exact ⟨(k, v), hm, rfl⟩

/-- the ghost fields of a thread that does not invoke a query in this step -/
theorem q_fields {s s' : Cfg n} {l : Label n} (h : Step true s l s') (σ : Fin n)
    (hσ : isInvokeQuery l = false ∨ σ ≠ l.tid) :
    s'.qmust σ = (s.qmust σ).filter (hasKey s'.trie) ∧ s'.qmay σ = s.qmay σ ++ walk s'.trie := by
  obtain ⟨_, rfl⟩ := h
  by_cases hl : isInvokeQuery l = false
  · exact eff_q s l hl σ
  · cases l with
    | invoke τ c =>
      cases c with
      | query q =>
        have hne : σ ≠ τ := by
          rcases hσ with h | h
          · exact absurd h hl
          · exact h
        obtain ⟨h1, h2, h3⟩ := eff_q_invoke s τ q σ
        rw [h1, h2, h3]
        simp [hne]
      | add p v => simp [isInvokeQuery] at hl
      | get p => simp [isInvokeQuery] at hl
      | del q m => simp [isInvokeQuery] at hl
    | _ => simp [isInvokeQuery] at hl

/-- a query thread that does not act keeps its invariant (its `qmust` shrinks to the keys still
present, its `qmay` grows) -/
theorem qinv_other {s s' : Cfg n} {l : Label n} (h : Step true s l s') (τ : Fin n) (q : Path)
    (hτ : τ ≠ l.tid) (hq : QInv s τ q) : QInv s' τ q := by
  have hth : s'.thr τ = s.thr τ := by rw [h.2]; exact eff_thr_other s l τ hτ
  obtain ⟨hm, hy⟩ := q_fields h τ (Or.inr hτ)
  constructor
  · intro k hk
    rw [hm, List.mem_filter] at hk
    exact ⟨hk.2, (hq.must_ok k hk.1).2⟩
  · rw [hth]; intro hpc k hk
    rw [hm, List.mem_filter] at hk
    exact hq.covered hpc k hk.1
  · rw [hth]; intro kv hkv
    rw [hy]
    exact ⟨List.mem_append_left _ (hq.sound kv hkv).1, (hq.sound kv hkv).2⟩
  · rw [hth]; exact hq.pmOK
  · rw [hth]; exact hq.nodupOut
  · rw [hth]; exact hq.notPend
  · rw [hth]; exact hq.todoNodup
  · rw [hth]; exact hq.follow
  · rw [hth]; exact hq.startOut

theorem qinv_invoke (s : Cfg n) (τ : Fin n) (q : Path) (hg : guard true s (.invoke τ (.query q)) = true) :
    QInv (eff s (.invoke τ (.query q))) τ q := by
  obtain ⟨h1, h2, h3⟩ := eff_q_invoke s τ q τ
  have hth : (eff s (.invoke τ (.query q))).thr τ =
      { s.thr τ with pc := .start, call := .query q, stack := [], cur := [], out := [] } := by
    simp [eff, eff0, setThr]
  constructor
  · intro k hk
    rw [h2, h1] at *
    simp only [if_true, List.mem_filter, List.mem_map] at hk
    exact ⟨hk.2, hk.1.2⟩
  · rw [hth]; intro h; cases h
  · rw [hth]; intro kv hkv; cases hkv
  · rw [hth]; intro f hf; cases hf
  · rw [hth]; exact List.nodup_nil
  · rw [hth]; intro kv hkv; cases hkv
  · rw [hth]; intro f hf; cases hf
  · rw [hth]; trivial
  · rw [hth]; intro _; rfl

/-- what pushing the frame of node `x` gives for a key `x ++ z` that is present and matches -/
theorem push_cover {t : Trie Nat} (hw : WFRoot t) {q x z : Path} {v : Nat}
    (hk : (x ++ z, v) ∈ walk t) (hm : qmatches q (x ++ z) = true) :
    (z = [] → queryVisit t q x = some v) ∧
    (∀ c z', z = c :: z' → c ∈ (queryFrame t q x).todo) := by
  obtain ⟨_, hdrop⟩ := qmatches_append x q z hm
  constructor
  · intro hz
    subst hz
    rw [List.append_nil] at hk
    have hg := (get_leaf_mem t hw x v).2 hk
    simp only [queryVisit, hg]
    exact visitFor_of_match v _ hdrop
  · intro c z' hz
    subst hz
    obtain ⟨cs, hg, hc⟩ := mem_walk_structure hw hk x c z' rfl
    simp only [queryFrame, hg]
    exact todoFor_of_match cs _ c z' hdrop hc

theorem queryVisit_spec {t : Trie Nat} (hw : WFRoot t) {q x : Path} {v : Nat}
    (h : queryVisit t q x = some v) : (x, v) ∈ walk t ∧ qmatches (q.drop x.length) [] = true := by
  simp only [queryVisit] at h
  split at h
  · rename_i nd hnd
    obtain ⟨h1, h2⟩ := visitFor_some h
    subst h1
    exact ⟨(get_leaf_mem t hw x v).1 hnd, h2⟩
  · cases h

theorem queryFrame_spec {t : Trie Nat} (hw : WFRoot t) (q x : Path) :
    (queryFrame t q x).node = x ∧ (queryFrame t q x).todo.Nodup ∧
    (pm q x = true → ∀ c ∈ (queryFrame t q x).todo, pm q (x ++ [c]) = true) := by
  refine ⟨rfl, ?_, ?_⟩
  · simp only [queryFrame]
    split
    · rename_i nd hnd
      exact todoFor_nodup nd _ (get_walk t x nd hw hnd).1
    · exact List.nodup_nil
  · intro hp c hc
    simp only [queryFrame] at hc
    split at hc
    · rename_i nd hnd
      exact pm_todo x q nd c hp hc
    · cases hc

/-- the thread after `pushR` for a query: new frame, possibly one more reported leaf -/
theorem pushR_query (s : Cfg n) (th : Thread) (x q : Path) (hc : th.call = .query q) :
    (pushR s th x).stack = queryFrame s.trie q x :: th.stack ∧
    (pushR s th x).out = th.out ++ (match queryVisit s.trie q x with
      | some v => [(x, v)]
      | none => []) := by
  unfold pushR
  simp only [hc]
  split <;> rename_i h <;> simp [h]

theorem followOK_tail {f : Frame} {r : List Frame} (h : FollowOK (f :: r)) : FollowOK r := by
  cases r with
  | nil => trivial
  | cons g r => exact h.2

theorem followOK_congr_head {f f' : Frame} {r : List Frame} (hn : f'.node = f.node)
    (h : FollowOK (f :: r)) : FollowOK (f' :: r) := by
  cases r with
  | nil => trivial
  | cons g r => exact ⟨by rw [hn]; exact h.1, h.2⟩

/-- a key below the top frame's node is not pending at any frame underneath -/
theorem follow_notPend : ∀ (rest : List Frame) (F0 : Frame), Chain (F0 :: rest) → FollowOK (F0 :: rest) →
    ∀ g ∈ rest, ∀ k, F0.node <+: k → ¬ Pend g k
  | [], _, _, _, g, hg, _, _ => by cases hg
  | g1 :: r1, F0, hc, hf, g, hg, k, hk => by
      obtain ⟨⟨d, hd⟩, hc'⟩ := hc
      rcases List.mem_cons.1 hg with h | h
      · subst h
        rintro ⟨c', z, hkz, hc'm⟩
        obtain ⟨w, hw⟩ := hk
        rw [hd, hkz, List.append_assoc] at hw
        have := List.append_cancel_left hw
        simp only [List.singleton_append, List.cons.injEq] at this
        exact hf.1 d hd (this.1 ▸ hc'm)
      · exact follow_notPend r1 g1 hc' hf.2 g h k
          ((show g1.node <+: F0.node from ⟨[d], hd.symm⟩).trans hk)

theorem qinv_rlockRoot {s : Cfg n} (hi : Inv s) {τ : Fin n} {q : Path}
    (hg : guard true s (.rlockRoot τ) = true) (hc : (s.thr τ).call = .query q)
    (hq : QInv s τ q) : QInv (eff s (.rlockRoot τ)) τ q := by
  have hg0 := hg
  simp only [guard, Bool.and_eq_true, beq_iff_eq, rOK_iff] at hg
  obtain ⟨⟨hpc, _⟩, _⟩ := hg
  have hst := hi.idle τ (Or.inr hpc)
  have hout := hq.startOut hpc
  have hw := hi.wf
  obtain ⟨hm, hy⟩ := q_fields (s := s) (l := .rlockRoot τ) ⟨hg0, rfl⟩ τ (Or.inl rfl)
  have htrie : (eff s (.rlockRoot τ)).trie = s.trie := by simp [eff, eff0, setThr]
  have hth : ((eff s (.rlockRoot τ)).thr τ) = pushR s (s.thr τ) [] := by simp [eff, eff0, setThr]
  obtain ⟨hstk, hou⟩ := pushR_query s (s.thr τ) [] q hc
  rw [hst] at hstk
  rw [hout, List.nil_append] at hou
  obtain ⟨hFn, hFnd, hFpm⟩ := queryFrame_spec hw q []
  have hpm0 : pm q [] = true := by cases q <;> rfl
  rw [htrie] at hm hy
  constructor
  · intro k hk
    rw [hm, List.mem_filter] at hk
    rw [htrie]
    exact ⟨hk.2, (hq.must_ok k hk.1).2⟩
  · intro _ k hk
    rw [hm, List.mem_filter] at hk
    obtain ⟨v, hv⟩ := (hasKey_iff _ _).1 hk.2
    have hmk := (hq.must_ok k hk.1).2
    obtain ⟨h1, h2⟩ := push_cover (x := []) (z := k) hw (by simpa using hv) (by simpa using hmk)
    rw [hth, hstk, hou]
    cases k with
    | nil => left; exact ⟨v, by rw [h1 rfl]; simp⟩
    | cons c z' =>
      right
      exact ⟨_, by simp, c, z', by simp [queryFrame], h2 c z' rfl⟩
  · rw [hth, hou]
    intro kv hkv
    split at hkv
    · rename_i v hv
      simp only [List.mem_singleton] at hkv; subst hkv
      obtain ⟨h1, h2⟩ := queryVisit_spec hw hv
      rw [hy]
      exact ⟨List.mem_append_right _ h1, by simpa using h2⟩
    · cases hkv
  · rw [hth, hstk]
    intro f hf
    simp only [List.mem_singleton] at hf; subst hf
    exact ⟨hpm0, hFpm hpm0⟩
  · rw [hth, hou]
    split <;> simp
  · rw [hth, hou, hstk]
    intro kv hkv f hf
    simp only [List.mem_singleton] at hf; subst hf
    split at hkv
    · simp only [List.mem_singleton] at hkv; subst hkv
      rintro ⟨c, z, h, _⟩
      simp [queryFrame] at h
    · cases hkv
  · rw [hth, hstk]
    intro f hf
    simp only [List.mem_singleton] at hf; subst hf
    exact hFnd
  · rw [hth, hstk]; trivial
  · rw [hth]
    obtain ⟨F, _, _, _, _, _, hFpc⟩ := pushR_top s (s.thr τ) []
    rw [hFpc]; intro h; cases h

theorem qinv_unlock {s : Cfg n} {τ : Fin n} {q : Path}
    (hg : guard true s (.unlock τ) = true) (hc : (s.thr τ).call = .query q)
    (hpc : (s.thr τ).pc = .run) (hq : QInv s τ q) : QInv (eff s (.unlock τ)) τ q := by
  have hg0 := hg
  simp only [guard] at hg
  split at hg
  · cases hg
  · rename_i f htop
    obtain ⟨r, hr⟩ := stack_of_top htop
    have htd : f.todo = [] := by
      simp only [hpc, Bool.or_eq_true, beq_iff_eq, Bool.and_eq_true] at hg
      rcases hg with hg | hg
      · cases hg
      · exact hg.1.2
    obtain ⟨hm, hy⟩ := q_fields (s := s) (l := .unlock τ) ⟨hg0, rfl⟩ τ (Or.inl rfl)
    have htrie : (eff s (.unlock τ)).trie = s.trie := by simp [eff, eff0, setThr]
    have hth : ((eff s (.unlock τ)).thr τ) = { s.thr τ with stack := r } := by
      simp [eff, eff0, setThr, hr]
    have hsub : ∀ g ∈ r, g ∈ (s.thr τ).stack := fun g hg' => by rw [hr]; exact List.mem_cons_of_mem _ hg'
    rw [htrie] at hm hy
    constructor
    · intro k hk
      rw [hm, List.mem_filter] at hk
      rw [htrie]
      exact ⟨hk.2, (hq.must_ok k hk.1).2⟩
    · rw [hth]; intro _ k hk
      rw [hm, List.mem_filter] at hk
      rcases hq.covered hpc k hk.1 with h | ⟨g, hg', hp⟩
      · exact Or.inl h
      · right
        rw [hr] at hg'
        rcases List.mem_cons.1 hg' with h | h
        · subst h
          obtain ⟨c, z, _, hcm⟩ := hp
          rw [htd] at hcm; cases hcm
        · exact ⟨g, h, hp⟩
    · rw [hth]; intro kv hkv
      rw [hy]
      exact ⟨List.mem_append_left _ (hq.sound kv hkv).1, (hq.sound kv hkv).2⟩
    · rw [hth]; intro g hg'; exact hq.pmOK g (hsub g hg')
    · rw [hth]; exact hq.nodupOut
    · rw [hth]; intro kv hkv g hg'; exact hq.notPend kv hkv g (hsub g hg')
    · rw [hth]; intro g hg'; exact hq.todoNodup g (hsub g hg')
    · rw [hth]; exact followOK_tail (hr ▸ hq.follow)
    · rw [hth]; intro h; simp only at h; rw [hpc] at h; cases h

theorem qinv_rlockChild {s : Cfg n} (hi : Inv s) {τ : Fin n} {q : Path}
    (hg : guard true s (.rlockChild τ) = true) (hc : (s.thr τ).call = .query q)
    (hq : QInv s τ q) : QInv (eff s (.rlockChild τ)) τ q := by
  have hg0 := hg
  simp only [guard, Bool.and_eq_true, beq_iff_eq] at hg
  obtain ⟨hpc, hg⟩ := hg
  split at hg
  · cases hg
  · rename_i f htop
    simp only [Bool.true_or, Bool.true_and] at hg
    split at hg
    · rename_i c nd hnext hget
      obtain ⟨r, hst⟩ := stack_of_top htop
      have hw := hi.wf
      -- the todo of the top frame
      simp only [nextChild, hc] at hnext
      obtain ⟨cs, htd⟩ : ∃ cs, f.todo = c :: cs := by
        cases h : f.todo with
        | nil => rw [h] at hnext; cases hnext
        | cons a cs => rw [h] at hnext; simp at hnext; exact ⟨cs, by rw [hnext]⟩
      have hfm : f ∈ (s.thr τ).stack := mem_of_top htop
      have hnd : (c :: cs).Nodup := htd ▸ hq.todoNodup f hfm
      have hcn : c ∉ cs := (List.nodup_cons.1 hnd).1
      obtain ⟨hm, hy⟩ := q_fields (s := s) (l := .rlockChild τ) ⟨hg0, rfl⟩ τ (Or.inl rfl)
      have htrie : (eff s (.rlockChild τ)).trie = s.trie := by simp [eff, eff0, setThr, htop, nextChild, hc, hnext]
      obtain ⟨th0, hth0⟩ : ∃ th0 : Thread, th0 = { s.thr τ with stack := popTodo (s.thr τ) } := ⟨_, rfl⟩
      have hth : ((eff s (.rlockChild τ)).thr τ) = pushR s th0 (f.node ++ [c]) := by
        rw [hth0]; simp [eff, eff0, setThr, htop, nextChild, hc, hnext]
      have h0c : th0.call = .query q := by rw [hth0]; exact hc
      have hpopq : popTodo (s.thr τ) = { f with todo := cs } :: r := by
        unfold popTodo
        rw [hc, hst]
        simp [htd]
      have h0s : th0.stack = { f with todo := cs } :: r := by rw [hth0]; exact hpopq
      have h0o : th0.out = (s.thr τ).out := by rw [hth0]
      obtain ⟨hstk, hou⟩ := pushR_query s th0 (f.node ++ [c]) q h0c
      rw [h0s] at hstk
      rw [h0o] at hou
      generalize hx : f.node ++ [c] = x at *
      obtain ⟨hFn, hFnd, hFpm⟩ := queryFrame_spec hw q x
      have hpmx : pm q x = true := by
        rw [← hx]; exact (hq.pmOK f hfm).2 c (by rw [htd]; simp)
      have hchain : Chain (f :: r) := hst ▸ hi.chain τ
      have hfollow : FollowOK (f :: r) := hst ▸ hq.follow
      rw [htrie] at hm hy
      -- Pend at the old top frame splits into: below the child now visited / still pending
      have hpend_f : ∀ k, Pend f k → (∃ z, k = x ++ z) ∨ Pend { f with todo := cs } k := by
        rintro k ⟨c', z, hk, hc'⟩
        rw [htd] at hc'
        rcases List.mem_cons.1 hc' with h | h
        · left; subst h; exact ⟨z, by rw [hk, ← hx]; simp⟩
        · right; exact ⟨c', z, hk, h⟩
      have hpend_f' : ∀ k, Pend { f with todo := cs } k → Pend f k := by
        rintro k ⟨c', z, hk, hc'⟩
        exact ⟨c', z, hk, by rw [htd]; exact List.mem_cons_of_mem _ hc'⟩
      have hpend_F : ∀ k, Pend (queryFrame s.trie q x) k → Pend f k := by
        rintro k ⟨c', z, hk, _⟩
        refine ⟨c, c' :: z, ?_, by rw [htd]; simp⟩
        rw [hk]; simp only [queryFrame]; rw [← hx]; simp
      constructor
      · intro k hk
        rw [hm, List.mem_filter] at hk
        rw [htrie]
        exact ⟨hk.2, (hq.must_ok k hk.1).2⟩
      · intro _ k hk
        rw [hm, List.mem_filter] at hk
        rw [hth, hstk, hou]
        rcases hq.covered hpc k hk.1 with ⟨v, hv⟩ | ⟨g, hg', hp⟩
        · exact Or.inl ⟨v, List.mem_append_left _ hv⟩
        · rw [hst] at hg'
          rcases List.mem_cons.1 hg' with h | h
          · subst h
            rcases hpend_f k hp with ⟨z, hz⟩ | hp'
            · obtain ⟨v, hv⟩ := (hasKey_iff _ _).1 hk.2
              have hmk := (hq.must_ok k hk.1).2
              rw [hz] at hv hmk
              obtain ⟨h1, h2⟩ := push_cover hw hv hmk
              cases z with
              | nil =>
                left
                refine ⟨v, ?_⟩
                rw [h1 rfl, hz]; simp
              | cons c2 z2 =>
                right
                exact ⟨_, by simp, c2, z2, by rw [hz]; simp [queryFrame], h2 c2 z2 rfl⟩
            · right; exact ⟨_, by simp, hp'⟩
          · right; exact ⟨g, by simp [h], hp⟩
      · rw [hth, hou]
        intro kv hkv
        rw [hy]
        rcases List.mem_append.1 hkv with h | h
        · exact ⟨List.mem_append_left _ (hq.sound kv h).1, (hq.sound kv h).2⟩
        · split at h
          · rename_i v hv
            simp only [List.mem_singleton] at h; subst h
            obtain ⟨h1, h2⟩ := queryVisit_spec hw hv
            exact ⟨List.mem_append_right _ h1, qmatches_of_pm x q hpmx h2⟩
          · cases h
      · rw [hth, hstk]
        intro g hg'
        rcases List.mem_cons.1 hg' with h | h
        · subst h; exact ⟨hpmx, hFpm hpmx⟩
        · rcases List.mem_cons.1 h with h | h
          · subst h
            exact ⟨(hq.pmOK f hfm).1, fun c' hc' => (hq.pmOK f hfm).2 c' (by rw [htd]; exact List.mem_cons_of_mem _ hc')⟩
          · exact hq.pmOK g (by rw [hst]; exact List.mem_cons_of_mem _ h)
      · rw [hth, hou, List.map_append, List.nodup_append]
        refine ⟨hq.nodupOut, by split <;> simp, ?_⟩
        intro a ha b hb hab
        split at hb
        · rename_i v hv
          simp only [List.map_cons, List.map_nil, List.mem_singleton] at hb
          obtain ⟨kv, hkv, hkv1⟩ := List.mem_map.1 ha
          apply hq.notPend kv hkv f hfm
          rw [hkv1, hab, hb]
          exact ⟨c, [], by rw [← hx], by rw [htd]; simp⟩
        · cases hb
      · rw [hth, hou, hstk]
        intro kv hkv g hg'
        rcases List.mem_append.1 hkv with hold | hnew
        · rcases List.mem_cons.1 hg' with h | h
          · subst h; exact fun hp => hq.notPend kv hold f hfm (hpend_F _ hp)
          · rcases List.mem_cons.1 h with h | h
            · subst h; exact fun hp => hq.notPend kv hold f hfm (hpend_f' _ hp)
            · exact hq.notPend kv hold g (by rw [hst]; exact List.mem_cons_of_mem _ h)
        · split at hnew
          · rename_i v hv
            simp only [List.mem_singleton] at hnew; subst hnew
            rcases List.mem_cons.1 hg' with h | h
            · subst h
              rintro ⟨c', z, hk, _⟩
              simp only [queryFrame] at hk
              have := congrArg List.length hk
              simp at this
            · rcases List.mem_cons.1 h with h | h
              · subst h
                rintro ⟨c', z, hk, hc'⟩
                simp only at hk hc'
                rw [← hx] at hk
                have := List.append_cancel_left hk
                simp only [List.cons.injEq] at this
                exact hcn (this.1 ▸ hc')
              · exact follow_notPend r f hchain hfollow g h x ⟨[c], hx⟩
          · cases hnew
      · rw [hth, hstk]
        intro g hg'
        rcases List.mem_cons.1 hg' with h | h
        · subst h; exact hFnd
        · rcases List.mem_cons.1 h with h | h
          · subst h; exact (List.nodup_cons.1 hnd).2
          · exact hq.todoNodup g (by rw [hst]; exact List.mem_cons_of_mem _ h)
      · rw [hth, hstk]
        refine ⟨?_, followOK_congr_head (f := f) rfl hfollow⟩
        intro c0 hc0
        simp only [queryFrame] at hc0
        rw [← hx] at hc0
        have := List.append_cancel_left hc0
        simp only [List.cons.injEq, and_true] at this
        exact this ▸ hcn
      · rw [hth]
        obtain ⟨F, _, _, _, _, _, hFpc⟩ := pushR_top s th0 x
        rw [hFpc]; intro h; cases h
    · cases hg

theorem qall_step {s s' : Cfg n} {l : Label n} (hi : Inv s) (hq : QAll s) (h : Step true s l s') :
    QAll s' := by
  intro τ q hcall' hpc'
  by_cases hτ : τ = l.tid
  · subst hτ
    obtain ⟨hpcA, hcallA⟩ := pc_call_after h
    have hs' := h.2
    have hg := h.1
    cases l with
    | invoke τ c =>
      cases c with
      | query q0 =>
        have : ((eff s (.invoke τ (.query q0))).thr τ).call = .query q0 := by simp [eff, eff0, setThr]
        rw [hs'] at hcall'
        simp only [Label.tid] at hcall'
        rw [this] at hcall'
        cases hcall'
        rw [hs']
        exact qinv_invoke s τ q hg
      | add p v => rw [hs'] at hcall'; simp [eff, eff0, setThr, Label.tid] at hcall'
      | get p => rw [hs'] at hcall'; simp [eff, eff0, setThr, Label.tid] at hcall'
      | del q0 m => rw [hs'] at hcall'; simp [eff, eff0, setThr, Label.tid] at hcall'
    | rlockRoot τ =>
      have hc := hcallA rfl (by intro τ' c hh; cases hh)
      simp only [Label.tid] at hc hcall'
      rw [hc] at hcall'
      have hpc : (s.thr τ).pc = .start := by
        simp only [guard, Bool.and_eq_true, beq_iff_eq] at hg; exact hg.1.1
      rw [hs']
      exact qinv_rlockRoot hi hg hcall' (hq τ q hcall' (Or.inl hpc))
    | rlockChild τ =>
      have hc := hcallA rfl (by intro τ' c hh; cases hh)
      simp only [Label.tid] at hc hcall'
      rw [hc] at hcall'
      have hpc : (s.thr τ).pc = .run := by
        simp only [guard, Bool.and_eq_true, beq_iff_eq] at hg; exact hg.1
      rw [hs']
      exact qinv_rlockChild hi hg hcall' (hq τ q hcall' (Or.inr hpc))
    | unlock τ =>
      have hc := hcallA rfl (by intro τ' c hh; cases hh)
      simp only [Label.tid, pcAfter] at hc hcall' hpcA hpc'
      rw [hc] at hcall'
      rw [hpcA] at hpc'
      have hpc : (s.thr τ).pc = .run := by
        rcases hpc' with h' | h'
        · exfalso
          have := hi.idle τ (Or.inr h')
          simp only [guard, Thread.top, this] at hg
          cases hg
        · exact h'
      rw [hs']
      exact qinv_unlock hg hcall' hpc (hq τ q hcall' (Or.inr hpc))
    | upgAcquire τ =>
      exfalso
      have hc := hcallA rfl (by intro τ' c hh; cases hh)
      simp only [Label.tid] at hc hcall'
      rw [hc] at hcall'
      simp only [guard, Bool.and_eq_true, beq_iff_eq] at hg
      obtain ⟨p, v, hcw, _⟩ := (hi.win τ hg.1).call
      rw [hcw] at hcall'; cases hcall'
    | termRoot τ => exfalso; simp only [Label.tid, pcAfter] at hpcA hpc'; rw [hpcA] at hpc'; rcases hpc' with h' | h' <;> cases h'
    | termWrite τ => exfalso; simp only [Label.tid, pcAfter] at hpcA hpc'; rw [hpcA] at hpc'; rcases hpc' with h' | h' <;> cases h'
    | upgRelease τ => exfalso; simp only [Label.tid, pcAfter] at hpcA hpc'; rw [hpcA] at hpc'; rcases hpc' with h' | h' <;> cases h'
    | insert τ => exfalso; simp only [Label.tid, pcAfter] at hpcA hpc'; rw [hpcA] at hpc'; rcases hpc' with h' | h' <;> cases h'
    | clobber τ => exfalso; simp only [Label.tid, pcAfter] at hpcA hpc'; rw [hpcA] at hpc'; rcases hpc' with h' | h' <;> cases h'
    | addErr τ => exfalso; simp only [Label.tid, pcAfter] at hpcA hpc'; rw [hpcA] at hpc'; rcases hpc' with h' | h' <;> cases h'
    | getHit τ => exfalso; simp only [Label.tid, pcAfter] at hpcA hpc'; rw [hpcA] at hpc'; rcases hpc' with h' | h' <;> cases h'
    | getMiss τ => exfalso; simp only [Label.tid, pcAfter] at hpcA hpc'; rw [hpcA] at hpc'; rcases hpc' with h' | h' <;> cases h'
    | delete τ => exfalso; simp only [Label.tid, pcAfter] at hpcA hpc'; rw [hpcA] at hpc'; rcases hpc' with h' | h' <;> cases h'
    | hval τ hd => exfalso; simp only [Label.tid, pcAfter] at hpcA hpc'; rw [hpcA] at hpc'; rcases hpc' with h' | h' <;> cases h'
    | hupd τ hd v => exfalso; simp only [Label.tid, pcAfter] at hpcA hpc'; rw [hpcA] at hpc'; rcases hpc' with h' | h' <;> cases h'
    | ret τ => exfalso; simp only [Label.tid, pcAfter] at hpcA hpc'; rw [hpcA] at hpc'; rcases hpc' with h' | h' <;> cases h'
  · have hth : s'.thr τ = s.thr τ := by rw [h.2]; exact eff_thr_other s l τ hτ
    rw [hth] at hcall' hpc'
    exact qinv_other h τ q hτ (hq τ q hcall' hpc')

theorem qall_reach {s : Cfg n} (h : Reach true s) : QAll s := by
  induction h with
  | init => exact qall_init
  | step hr hs ih => exact qall_step (inv_reach hr) ih hs

end Invariant

end CC
end Gnmi
