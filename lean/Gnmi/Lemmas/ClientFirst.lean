import Gnmi.Model.ClientFirst
/-!
Helper lemmas for `Props/C18First.lean`: weighted sums over the goroutine list, the variant, the
inductive invariant of the `getFirst` LTS (`Model/ClientFirst.lean`), soundness of the
executable schedule.
-/
set_option linter.unusedSimpArgs false
set_option linter.unusedVariables false
namespace Gnmi
namespace ClientFirst

/-! ## Weighted sums over the goroutine list -/

def wsum (f : GPc → Nat) : List GPc → Nat
  | [] => 0
  | p :: ps => f p + wsum f ps

theorem wsum_set {f : GPc → Nat} : ∀ {l : List GPc} {i : Nat} {p : GPc} (q : GPc), l[i]? = some p →
    wsum f (l.set i q) + f p = wsum f l + f q
  | [], i, p, q, h => by simp at h
  | a :: l, 0, p, q, h => by
      simp at h; subst h; simp [wsum]; omega
  | a :: l, i + 1, p, q, h => by
      simp at h
      have := wsum_set (f := f) q h
      simp [wsum]; omega

theorem wsum_set_le {f : GPc → Nat} (l : List GPc) (i : Nat) (q : GPc) :
    wsum f (l.set i q) ≤ wsum f l + f q := by
  cases h : l[i]? with
  | none =>
      have : l.length ≤ i := by simpa using h
      rw [List.set_eq_of_length_le this]; omega
  | some p => have := wsum_set (f := f) q h; omega

theorem wsum_le {f : GPc → Nat} (hf : ∀ p, f p ≤ 1) : ∀ l : List GPc, wsum f l ≤ l.length
  | [] => by simp [wsum]
  | a :: l => by have := wsum_le hf l; have := hf a; simp [wsum]; omega

/-- an element of weight 0 makes the sum of an indicator strictly smaller than the length -/
theorem wsum_lt {f : GPc → Nat} (hf : ∀ p, f p ≤ 1) : ∀ {l : List GPc} {i : Nat} {p : GPc},
    l[i]? = some p → f p = 0 → wsum f l < l.length
  | [], i, p, h, _ => by simp at h
  | a :: l, 0, p, h, h0 => by
      simp at h; subst h; have := wsum_le hf l; simp [wsum, h0]; omega
  | a :: l, i + 1, p, h, h0 => by
      simp at h; have := wsum_lt hf h h0; have := hf a; simp [wsum]; omega

theorem wsum_all {f : GPc → Nat} : ∀ {l : List GPc}, (∀ (i : Nat) (p : GPc), l[i]? = some p → f p = 1) →
    wsum f l = l.length
  | [], _ => by simp [wsum]
  | a :: l, h => by
      have h0 := h 0 a (by simp)
      have := wsum_all (f := f) (l := l) (fun i p hp => h (i + 1) p (by simpa using hp))
      simp [wsum]; omega

/-- if an indicator sums to the length, every element has weight 1 -/
theorem wsum_full {f : GPc → Nat} (hf : ∀ p, f p ≤ 1) {l : List GPc} (h : l.length ≤ wsum f l)
    {i : Nat} {p : GPc} (hp : l[i]? = some p) : f p = 1 := by
  have := hf p
  cases h0 : f p with
  | zero => have := wsum_lt hf hp h0; omega
  | succ k => omega

theorem get_set {l : List GPc} {i : Nat} {p : GPc} (h : l[i]? = some p) (q : GPc) (j : Nat) :
    (l.set i q)[j]? = if i = j then some q else l[j]? := by
  have hi : i < l.length := by
    cases hl : decide (i < l.length) with
    | true => simpa using hl
    | false =>
        have : l.length ≤ i := by simpa using hl
        simp [List.getElem?_eq_none this] at h
  rw [List.getElem?_set]
  by_cases hij : i = j
  · subst hij; simp [hi]
  · simp [hij]

/-! ## Vocabulary -/

/-- the goroutine has returned -/
@[simp] def GPc.exited : GPc → Bool
  | .exitedErr _ => true
  | .exitedRecv => true
  | .exitedClosed => true
  | _ => false

/-- `fn` returned an Impl for this type -/
@[simp] def GPc.succeeded : GPc → Bool
  | .offering => true
  | .exitedRecv => true
  | .exitedClosed => true
  | _ => false

/-- indicator: the goroutine has sent its error on errC -/
@[simp] def sentInd : GPc → Nat
  | .exitedErr true => 1
  | _ => 0

theorem sentInd_le (p : GPc) : sentInd p ≤ 1 := by
  cases p <;> simp
  next b => cases b <;> simp

@[simp] def MPc.isReturned : MPc → Bool
  | .returned _ => true
  | _ => false

/-- the result main has decided on (`closing`) or returned -/
@[simp] def MPc.res : MPc → Option Res
  | .closing r => some r
  | .returned r => some r
  | _ => none

/-! ## The variant: every transition decreases it -/

def GPc.rank : GPc → Nat
  | .calling => 3
  | .failed => 2
  | .offering => 2
  | _ => 0

def MPc.rank (n : Nat) : MPc → Nat
  | .entry => 4 * n + 4
  | .spawn k => 4 * (n - k) + 3
  | .loop => 2
  | .closing _ => 1
  | .returned _ => 0

/-- weight of the one-shot cancellation of ctx -/
def cw : Bool → Nat
  | true => 0
  | false => 1

def variant (n : Nat) (c : Cfg) : Nat :=
  wsum GPc.rank c.g + c.errC.length + c.main.rank n + cw c.cancelled

theorem variant_init (n : Nat) : variant n (init n) = 4 * n + 5 := by
  have : ∀ n, wsum GPc.rank (List.replicate n .unborn) = 0 := by
    intro n; induction n with
    | zero => rfl
    | succ n ih => simp [List.replicate_succ, wsum, ih, GPc.rank]
  simp [variant, init, this, MPc.rank, cw]

theorem variant_step {mu : Bool} {outs : List Out} {c c' : Cfg} {l : Label}
    (hs : Step mu outs c l c') : variant outs.length c' < variant outs.length c := by
  cases hs
  case entry0 h1 h2 => simp [variant, MPc.rank, GPc.rank, h1]
  case entry h1 h2 => simp [variant, MPc.rank, GPc.rank, h1]
  case spawn k h1 h2 =>
      have := wsum_set_le (f := GPc.rank) c.g k .calling
      simp [variant, MPc.rank, GPc.rank, h1, Cfg.doSpawn] at *; omega
  case enterLoop h1 => simp [variant, MPc.rank, GPc.rank, h1]
  case recvErr e rest h1 h2 =>
      simp only [variant, Cfg.doRecvErr, h1, h2]
      split <;> simp [MPc.rank] <;> omega
  case recvImpl i h1 h2 =>
      have := wsum_set (f := GPc.rank) .exitedRecv h2
      simp [variant, MPc.rank, GPc.rank, h1, Cfg.doRecvImpl] at *; omega
  case closeDone r h1 => simp [variant, MPc.rank, GPc.rank, h1]
  case fnImpl i h1 h2 =>
      have := wsum_set (f := GPc.rank) .offering h1
      simp [variant, MPc.rank, GPc.rank, Cfg.setG] at *; omega
  case fnErr i h1 h2 =>
      have := wsum_set (f := GPc.rank) .failed h1
      simp [variant, MPc.rank, GPc.rank, Cfg.setG] at *; omega
  case fnAbort i h1 h2 =>
      have := wsum_set (f := GPc.rank) .failed h1
      simp [variant, MPc.rank, GPc.rank, Cfg.setG] at *; omega
  case sendErr i h1 h2 h3 =>
      have := wsum_set (f := GPc.rank) (.exitedErr true) h1
      simp [variant, MPc.rank, GPc.rank, Cfg.doSendErr] at *; omega
  case dropErr i h1 h2 h3 =>
      have := wsum_set (f := GPc.rank) (.exitedErr false) h1
      simp [variant, MPc.rank, GPc.rank, Cfg.setG] at *; omega
  case doneArm i h1 h2 =>
      have := wsum_set (f := GPc.rank) .exitedClosed h1
      simp [variant, MPc.rank, GPc.rank, Cfg.doDoneArm] at *; omega
  case cancel h1 => simp [variant, h1, cw]

theorem run_bounded {mu : Bool} {outs : List Out} {c c' : Cfg} {ls : List Label}
    (hr : Run mu outs c ls c') : ls.length + variant outs.length c' ≤ variant outs.length c := by
  induction hr with
  | nil => simp
  | cons hs _ ih => have := variant_step hs; simp; omega

theorem run_reach {mu : Bool} {outs : List Out} {c c' : Cfg} {ls : List Label}
    (h : Reach mu outs c) (hr : Run mu outs c ls c') : Reach mu outs c' := by
  induction hr with
  | nil => exact h
  | cons hs _ ih => exact ih (.step h hs)

/-! ## The inductive invariant -/

structure Inv (mu : Bool) (outs : List Out) (c : Cfg) : Prop where
  len : c.g.length = outs.length
  /-- every error sent is in the buffer or collected -/
  cnt : c.errs.length + c.errC.length = wsum sentInd c.g
  ptErr : ∀ i : Nat, (c.errs ++ c.errC).count i = if c.g[i]? = some (GPc.exitedErr true) then 1 else 0
  ptClosed : ∀ i : Nat, c.closedLog.count i = if c.g[i]? = some GPc.exitedClosed then 1 else 0
  succ : ∀ (i : Nat) (p : GPc), c.g[i]? = some p → p.succeeded = true → outs[i]? = some Out.impl
  noDrop : mu = false → ∀ i : Nat, c.g[i]? ≠ some (GPc.exitedErr false)
  done : c.doneClosed = true ↔ ∃ r, c.main = .returned r ∧ r ≠ .noTypes
  recv : ∀ i : Nat, c.g[i]? = some GPc.exitedRecv ↔ c.main.res = some (.impl i)
  mEntry : c.main = .entry →
    (∀ (i : Nat) (p : GPc), c.g[i]? = some p → p = GPc.unborn) ∧ c.errs = [] ∧ c.errC = []
  mSpawn : ∀ k, c.main = .spawn k → k ≤ outs.length ∧ 0 < outs.length ∧ c.errs = [] ∧
    (∀ (i : Nat) (p : GPc), k ≤ i → c.g[i]? = some p → p = GPc.unborn) ∧
    (∀ i : Nat, i < k → c.g[i]? ≠ some GPc.unborn)
  mLoop : c.main = .loop → c.errs.length < outs.length
  noTypes : (c.main ≠ .closing .noTypes) ∧ (c.main = .returned .noTypes → outs = [])
  noUnborn : (c.main = .loop ∨ ∃ r, c.main.res = some r ∧ r ≠ .noTypes) →
    ∀ i : Nat, c.g[i]? ≠ some GPc.unborn
  mErrs : ∀ l, c.main.res = some (.errs l) → l = c.errs ∧ c.errs.length = outs.length

theorem replicate_get {n i : Nat} {p : GPc} (h : (List.replicate n GPc.unborn)[i]? = some p) :
    p = .unborn := by
  rw [List.getElem?_replicate] at h
  split at h <;> simp at h
  exact h.symm

theorem wsum_replicate_unborn (n : Nat) : wsum sentInd (List.replicate n .unborn) = 0 := by
  induction n with
  | zero => rfl
  | succ n ih => simp [List.replicate_succ, wsum, ih]

theorem replicate_ne {n i : Nat} {p : GPc} (hp : p ≠ .unborn) :
    (List.replicate n GPc.unborn)[i]? ≠ some p := fun h => hp (replicate_get h)

theorem inv_init (mu : Bool) (outs : List Out) : Inv mu outs (init outs.length) := by
  constructor
  case ptErr =>
    intro i
    have : (init outs.length).g[i]? ≠ some (GPc.exitedErr true) := replicate_ne (by simp)
    rw [if_neg this]; rfl
  case ptClosed =>
    intro i
    have : (init outs.length).g[i]? ≠ some GPc.exitedClosed := replicate_ne (by simp)
    rw [if_neg this]; rfl
  all_goals simp [init, wsum_replicate_unborn]
  · intro i p h hs; have := replicate_get h; subst this; simp at hs
  · intro _ i h; have := replicate_get h; cases this
  · intro i h; have := replicate_get h; cases this
  · intro i p h; exact replicate_get h

theorem get_ge {l : List GPc} {i : Nat} {p : GPc} (h : l[i]? = some p) : i < l.length := by
  cases hl : decide (i < l.length) with
  | true => simpa using hl
  | false =>
      have : l.length ≤ i := by simpa using hl
      simp [List.getElem?_eq_none this] at h

theorem sentInd_zero {p : GPc} (h : p ≠ .exitedErr true) : sentInd p = 0 := by
  cases p with
  | exitedErr b => cases b <;> simp_all
  | _ => simp

/-- a goroutine-local move (main, errs, doneClosed untouched) out of a state that is neither
`unborn` nor an exit, with the bookkeeping of errC / closedLog done by the caller -/
theorem inv_local {mu : Bool} {outs : List Out} {c c' : Cfg} {i : Nat} {p q : GPc}
    (hi : Inv mu outs c) (h : c.g[i]? = some p)
    (eg : c'.g = c.g.set i q) (ee : c'.errs = c.errs) (em : c'.main = c.main)
    (ed : c'.doneClosed = c.doneClosed)
    (hp : p ≠ .unborn ∧ p ≠ .exitedRecv ∧ p ≠ .exitedErr true ∧ p ≠ .exitedClosed)
    (hq : q ≠ .unborn ∧ q ≠ .exitedRecv)
    (hqs : q.succeeded = true → outs[i]? = some .impl)
    (hqd : mu = false → q ≠ .exitedErr false)
    (hcnt : c'.errC.length = c.errC.length + sentInd q)
    (hptE : ∀ j : Nat, (c'.errs ++ c'.errC).count j =
      (c.errs ++ c.errC).count j + (if i = j ∧ q = .exitedErr true then 1 else 0))
    (hptC : ∀ j : Nat, c'.closedLog.count j =
      c.closedLog.count j + (if i = j ∧ q = .exitedClosed then 1 else 0)) : Inv mu outs c' := by
  obtain ⟨i1, i2, i3, i4, i5, i6, i7, i8, i9, i10, i11, i12, i13, i14⟩ := hi
  obtain ⟨p1, p2, p3, p4⟩ := hp
  obtain ⟨q1, q2⟩ := hq
  have hg := get_set h q
  refine ⟨?_, ?_, ?_, ?_, ?_, ?_, ?_, ?_, ?_, ?_, ?_, ?_, ?_, ?_⟩
  · rw [eg]; simpa using i1
  · have := wsum_set (f := sentInd) q h
    rw [sentInd_zero p3] at this
    rw [eg, ee, hcnt]; omega
  · intro j
    rw [hptE j, eg, hg j, i3 j]
    by_cases hij : i = j
    · subst hij
      by_cases hq3 : q = .exitedErr true
      · subst hq3; simp [h, p3]
      · simp [h, p3, hq3]
    · simp [hij]
  · intro j
    rw [hptC j, eg, hg j, i4 j]
    by_cases hij : i = j
    · subst hij
      by_cases hq4 : q = .exitedClosed
      · subst hq4; simp [h, p4]
      · simp [h, p4, hq4]
    · simp [hij]
  · intro j r hr hs
    rw [eg, hg j] at hr
    by_cases hij : i = j
    · subst hij; simp at hr; subst hr; exact hqs hs
    · simp [hij] at hr; exact i5 j r hr hs
  · intro hm j hj
    rw [eg, hg j] at hj
    by_cases hij : i = j
    · subst hij; simp at hj; exact hqd hm hj
    · simp [hij] at hj; exact i6 hm j hj
  · rw [ed, em]; exact i7
  · intro j
    rw [eg, em, hg j]
    by_cases hij : i = j
    · subst hij
      have := i8 i
      simp [h, p2] at this
      simp [q2]; exact this
    · simp [hij]; exact i8 j
  · intro hm
    rw [em] at hm
    exact absurd ((i9 hm).1 i p h) p1
  · intro k hk
    rw [em] at hk
    obtain ⟨k1, k2, k3, k4, k5⟩ := i10 k hk
    refine ⟨k1, k2, by rw [ee]; exact k3, ?_, ?_⟩
    · intro j r hkj hr
      rw [eg, hg j] at hr
      by_cases hij : i = j
      · subst hij; exact absurd (k4 i p hkj h) p1
      · simp [hij] at hr; exact k4 j r hkj hr
    · intro j hjk hj
      rw [eg, hg j] at hj
      by_cases hij : i = j
      · subst hij; simp at hj; exact q1 hj
      · simp [hij] at hj; exact k5 j hjk hj
  · rw [em, ee]; exact i11
  · rw [em]; exact i12
  · intro hm j hj
    rw [em] at hm
    rw [eg, hg j] at hj
    by_cases hij : i = j
    · subst hij; simp at hj; exact q1 hj
    · simp [hij] at hj; exact i13 hm j hj
  · rw [em, ee]; exact i14

theorem inv_setG {mu : Bool} {outs : List Out} {c : Cfg} {i : Nat} {p q : GPc}
    (hi : Inv mu outs c) (h : c.g[i]? = some p)
    (hp : p ≠ .unborn ∧ p ≠ .exitedRecv ∧ p ≠ .exitedErr true ∧ p ≠ .exitedClosed)
    (hq : q ≠ .unborn ∧ q ≠ .exitedRecv ∧ q ≠ .exitedErr true ∧ q ≠ .exitedClosed)
    (hqs : q.succeeded = true → outs[i]? = some .impl)
    (hqd : mu = false → q ≠ .exitedErr false) : Inv mu outs (c.setG i q) :=
  inv_local hi h rfl rfl rfl rfl hp ⟨hq.1, hq.2.1⟩ hqs hqd
    (by show _ = _ + sentInd q; rw [sentInd_zero hq.2.2.1]; rfl)
    (by intro j; simp [Cfg.setG, hq.2.2.1])
    (by intro j; simp [Cfg.setG, hq.2.2.2])

/-- the six main-independent clauses after a change of one goroutine's state that touches
neither errC/errs nor closedLog -/
theorem local6 {mu : Bool} {outs : List Out} {c c' : Cfg} {i : Nat} {p q : GPc}
    (hi : Inv mu outs c) (h : c.g[i]? = some p)
    (eg : c'.g = c.g.set i q) (ee : c'.errs = c.errs) (ec : c'.errC = c.errC)
    (el : c'.closedLog = c.closedLog)
    (hp : p ≠ .exitedErr true ∧ p ≠ .exitedClosed) (hq : q ≠ .exitedErr true ∧ q ≠ .exitedClosed)
    (hqs : q.succeeded = true → outs[i]? = some .impl)
    (hqd : mu = false → q ≠ .exitedErr false) :
    c'.g.length = outs.length ∧ c'.errs.length + c'.errC.length = wsum sentInd c'.g ∧
    (∀ j : Nat, (c'.errs ++ c'.errC).count j = if c'.g[j]? = some (GPc.exitedErr true) then 1 else 0) ∧
    (∀ j : Nat, c'.closedLog.count j = if c'.g[j]? = some GPc.exitedClosed then 1 else 0) ∧
    (∀ (j : Nat) (r : GPc), c'.g[j]? = some r → r.succeeded = true → outs[j]? = some Out.impl) ∧
    (mu = false → ∀ j : Nat, c'.g[j]? ≠ some (GPc.exitedErr false)) := by
  obtain ⟨i1, i2, i3, i4, i5, i6, i7, i8, i9, i10, i11, i12, i13, i14⟩ := hi
  have hg := get_set h q
  refine ⟨?_, ?_, ?_, ?_, ?_, ?_⟩
  · rw [eg]; simpa using i1
  · have := wsum_set (f := sentInd) q h
    rw [sentInd_zero hp.1, sentInd_zero hq.1] at this
    rw [eg, ee, ec]; omega
  · intro j
    rw [eg, ee, ec, hg j, i3 j]
    by_cases hij : i = j
    · subst hij; simp [h, hp.1, hq.1]
    · simp [hij]
  · intro j
    rw [eg, el, hg j, i4 j]
    by_cases hij : i = j
    · subst hij; simp [h, hp.2, hq.2]
    · simp [hij]
  · intro j r hr hs
    rw [eg, hg j] at hr
    by_cases hij : i = j
    · subst hij; simp at hr; subst hr; exact hqs hs
    · simp [hij] at hr; exact i5 j r hr hs
  · intro hm j hj
    rw [eg, hg j] at hj
    by_cases hij : i = j
    · subst hij; simp at hj; exact hqd hm hj
    · simp [hij] at hj; exact i6 hm j hj

theorem inv_step {mu : Bool} {outs : List Out} {c c' : Cfg} {l : Label}
    (hi : Inv mu outs c) (hs : Step mu outs c l c') : Inv mu outs c' := by
  obtain ⟨i1, i2, i3, i4, i5, i6, i7, i8, i9, i10, i11, i12, i13, i14⟩ := hi
  cases hs
  case entry0 h1 h2 =>
    refine ⟨i1, i2, i3, i4, i5, i6, ?_, ?_, ?_, ?_, ?_, ?_, ?_, ?_⟩ <;> clear i2 i3 i4 i5 i6 <;> simp_all
  case entry h1 h2 =>
    have hn : 0 < outs.length := by
      cases outs with
      | nil => exact absurd rfl h2
      | cons _ _ => simp
    refine ⟨i1, i2, i3, i4, i5, i6, ?_, ?_, ?_, ?_, ?_, ?_, ?_, ?_⟩
    · simpa [h1] using i7
    · simpa [h1] using i8
    · simp
    · intro k hk; simp at hk; subst hk
      exact ⟨Nat.zero_le _, hn, (i9 h1).2.1, fun i p _ hp => (i9 h1).1 i p hp, fun i hi => absurd hi (by omega)⟩
    · simp
    · simp
    · simp
    · simp
  case spawn k h1 h2 =>
    have hi : Inv mu outs c := ⟨i1, i2, i3, i4, i5, i6, i7, i8, i9, i10, i11, i12, i13, i14⟩
    obtain ⟨k1, k2, k3, k4, k5⟩ := i10 k h1
    have hk : c.g[k]? = some .unborn := by
      have hlt : k < c.g.length := by omega
      have : c.g[k]? = some c.g[k] := List.getElem?_eq_getElem hlt
      rw [this]; congr 1; exact k4 k _ (Nat.le_refl _) this
    have hg := get_set hk .calling
    obtain ⟨l1, l2, l3, l4, l5, l6⟩ := local6 (c' := c.doSpawn k) hi hk rfl rfl rfl rfl
      (by simp) (by simp) (by simp) (by simp)
    have hd : c.doneClosed = false := by
      cases hdc : c.doneClosed with
      | false => rfl
      | true => obtain ⟨r, hr, _⟩ := i7.mp hdc; rw [h1] at hr; cases hr
    refine ⟨l1, l2, l3, l4, l5, l6, ?_, ?_, ?_, ?_, ?_, ?_, ?_, ?_⟩
    · simp [Cfg.doSpawn, hd]
    · intro j
      have := i8 j
      simp [h1] at this
      simp only [Cfg.doSpawn, hg j, MPc.res]
      by_cases hkj : k = j
      · simp [hkj]
      · simp [hkj, this]
    · simp [Cfg.doSpawn]
    · intro k' hk'
      simp [Cfg.doSpawn] at hk'
      subst hk'
      refine ⟨by omega, k2, k3, ?_, ?_⟩
      · intro j r hkj hr
        simp only [Cfg.doSpawn, hg j] at hr
        have hne : ¬ k = j := by omega
        simp [hne] at hr
        exact k4 j r (by omega) hr
      · intro j hjk hj
        simp only [Cfg.doSpawn, hg j] at hj
        by_cases hkj : k = j
        · simp [hkj] at hj
        · simp [hkj] at hj; exact k5 j (by omega) hj
    · simp [Cfg.doSpawn]
    · simp [Cfg.doSpawn]
    · simp [Cfg.doSpawn]
    · simp [Cfg.doSpawn]
  case enterLoop h1 =>
    obtain ⟨k1, k2, k3, k4, k5⟩ := i10 _ h1
    refine ⟨i1, i2, i3, i4, i5, i6, ?_, ?_, ?_, ?_, ?_, ?_, ?_, ?_⟩
    · simpa [h1] using i7
    · simpa [h1] using i8
    · simp
    · simp
    · intro _; simp [k3]; exact k2
    · simp
    · intro _ i hi
      have : i < c.g.length := get_ge hi
      exact k5 i (by omega) hi
    · simp
  case recvErr e rest h1 h2 =>
    have hd : c.doneClosed = false := by
      cases hdc : c.doneClosed with
      | false => rfl
      | true => obtain ⟨r, hr, _⟩ := i7.mp hdc; rw [h1] at hr; cases hr
    have h8 : ∀ j : Nat, c.g[j]? ≠ some GPc.exitedRecv := by
      intro j hj; have := (i8 j).mp hj; simp [h1] at this
    have hlt := i11 h1
    refine ⟨i1, ?_, ?_, i4, i5, i6, ?_, ?_, ?_, ?_, ?_, ?_, ?_, ?_⟩
    · simp [Cfg.doRecvErr]; rw [h2] at i2; simp at i2; omega
    · intro j; have := i3 j; rw [h2] at this; simpa [Cfg.doRecvErr] using this
    · simp only [Cfg.doRecvErr]; split <;> simp [hd]
    · intro j
      simp only [Cfg.doRecvErr]; split <;> simp [h8 j]
    · simp only [Cfg.doRecvErr]; split <;> simp
    · simp only [Cfg.doRecvErr]; split <;> simp
    · simp only [Cfg.doRecvErr]; split
      · simp
      · next hne => intro _; simp at hne ⊢; omega
    · simp only [Cfg.doRecvErr]; split <;> simp
    · intro _; exact i13 (.inl h1)
    · simp only [Cfg.doRecvErr]; split
      · next heq => intro l hl; simp at hl; subst hl; exact ⟨rfl, heq⟩
      · simp
  case recvImpl i h1 h2 =>
    have hi : Inv mu outs c := ⟨i1, i2, i3, i4, i5, i6, i7, i8, i9, i10, i11, i12, i13, i14⟩
    have hg := get_set h2 .exitedRecv
    obtain ⟨l1, l2, l3, l4, l5, l6⟩ := local6 (c' := c.doRecvImpl i) hi h2 rfl rfl rfl rfl
      (by simp) (by simp) (fun _ => i5 i _ h2 rfl) (by simp)
    have hd : c.doneClosed = false := by
      cases hdc : c.doneClosed with
      | false => rfl
      | true => obtain ⟨r, hr, _⟩ := i7.mp hdc; rw [h1] at hr; cases hr
    refine ⟨l1, l2, l3, l4, l5, l6, ?_, ?_, ?_, ?_, ?_, ?_, ?_, ?_⟩
    · simp [Cfg.doRecvImpl, hd]
    · intro j
      have := i8 j
      simp [h1] at this
      simp only [Cfg.doRecvImpl, hg j, MPc.res]
      by_cases hij : i = j
      · simp [hij]
      · simp [hij, this]
    · simp [Cfg.doRecvImpl]
    · simp [Cfg.doRecvImpl]
    · simp [Cfg.doRecvImpl]
    · simp [Cfg.doRecvImpl]
    · intro _ j hj
      simp only [Cfg.doRecvImpl, hg j] at hj
      by_cases hij : i = j
      · simp [hij] at hj
      · simp [hij] at hj; exact i13 (.inl h1) j hj
    · simp [Cfg.doRecvImpl]
  case closeDone r h1 =>
    refine ⟨i1, i2, i3, i4, i5, i6, ?_, ?_, ?_, ?_, ?_, ?_, ?_, ?_⟩
    · have := i12.1; simp [h1] at this ⊢; exact this
    · simpa [h1] using i8
    · simp
    · simp
    · simp
    · have := i12.1; simp [h1] at this ⊢; intro hr; exact absurd hr this
    · simpa [h1] using i13
    · simpa [h1] using i14
  case fnImpl i h1 h2 =>
    exact inv_setG ⟨i1, i2, i3, i4, i5, i6, i7, i8, i9, i10, i11, i12, i13, i14⟩ h1
      (by simp) (by simp) (fun _ => h2) (by simp)
  case fnErr i h1 h2 =>
    exact inv_setG ⟨i1, i2, i3, i4, i5, i6, i7, i8, i9, i10, i11, i12, i13, i14⟩ h1
      (by simp) (by simp) (by simp) (by simp)
  case fnAbort i h1 h2 =>
    exact inv_setG ⟨i1, i2, i3, i4, i5, i6, i7, i8, i9, i10, i11, i12, i13, i14⟩ h1
      (by simp) (by simp) (by simp) (by simp)
  case sendErr i h1 h2 h3 =>
    refine inv_local ⟨i1, i2, i3, i4, i5, i6, i7, i8, i9, i10, i11, i12, i13, i14⟩ h1 rfl rfl rfl rfl
      (by simp) (by simp) (by simp) (by simp) (by simp [Cfg.doSendErr]) ?_ (by intro j; simp [Cfg.doSendErr])
    intro j
    simp only [Cfg.doSendErr, List.count_append, List.count_singleton]
    by_cases hij : i = j
    · subst hij; simp; omega
    · have hji : ¬ j = i := fun h => hij h.symm
      simp [hij, hji]
  case dropErr i h1 h2 h3 =>
    exact inv_setG ⟨i1, i2, i3, i4, i5, i6, i7, i8, i9, i10, i11, i12, i13, i14⟩ h1
      (by simp) (by simp) (by simp) (by simp [h2])
  case doneArm i h1 h2 =>
    refine inv_local ⟨i1, i2, i3, i4, i5, i6, i7, i8, i9, i10, i11, i12, i13, i14⟩ h1 rfl rfl rfl rfl
      (by simp) (by simp) (fun _ => i5 i _ h1 rfl) (by simp) (by simp [Cfg.doDoneArm])
      (by intro j; simp [Cfg.doDoneArm]) ?_
    intro j
    simp only [Cfg.doDoneArm, List.count_append, List.count_singleton]
    by_cases hij : i = j
    · subst hij; simp
    · have hji : ¬ j = i := fun h => hij h.symm
      simp [hij, hji]
  case cancel h1 => exact ⟨i1, i2, i3, i4, i5, i6, i7, i8, i9, i10, i11, i12, i13, i14⟩

theorem inv_reach {mu : Bool} {outs : List Out} {c : Cfg} (h : Reach mu outs c) : Inv mu outs c := by
  induction h with
  | init => exact inv_init mu outs
  | step _ hs ih => exact inv_step ih hs

/-! ## The executable schedule only takes transitions of the LTS -/

theorem firstOffering_sound : ∀ {l : List GPc} {i : Nat}, firstOffering l = some i → l[i]? = some .offering
  | [], i, h => by simp [firstOffering] at h
  | p :: ps, i, h => by
      unfold firstOffering at h
      split at h
      · next hp => simp at h; subst h; simp [hp]
      · cases hf : firstOffering ps with
        | none => simp [hf] at h
        | some k =>
            simp [hf] at h; subst h
            simpa using firstOffering_sound hf

theorem fnRet_sound {mu : Bool} {outs : List Out} {c c' : Cfg} {i : Nat} {l : Label}
    (h : fnRet outs c i = some (l, c')) : Step mu outs c l c' := by
  unfold fnRet at h
  split at h
  · next hg =>
    split at h
    · next ho => simp at h; obtain ⟨rfl, rfl⟩ := h; exact .fnImpl hg ho
    · next ho => simp at h; obtain ⟨rfl, rfl⟩ := h; exact .fnErr hg ho
    · next ho =>
      split at h
      · next hc => simp at h; obtain ⟨rfl, rfl⟩ := h; exact .fnAbort hg hc
      · simp at h
    · simp at h
  · simp at h

theorem mainNext_sound {mu : Bool} {outs : List Out} {c c' : Cfg} {l : Label}
    (h : mainNext outs c = some (l, c')) : Step mu outs c l c' := by
  unfold mainNext at h
  split at h
  · next hm =>
    split at h <;> simp at h <;> obtain ⟨rfl, rfl⟩ := h
    · next ho => exact .entry0 hm ho
    · next ho => exact .entry hm ho
  · next k hm =>
    split at h
    · next hk => simp at h; obtain ⟨rfl, rfl⟩ := h; exact .spawn hm hk
    · split at h
      · next hk => simp at h; obtain ⟨rfl, rfl⟩ := h; subst hk; exact .enterLoop hm
      · simp at h
  · next hm =>
    split at h
    · next e rest he => simp at h; obtain ⟨rfl, rfl⟩ := h; exact .recvErr hm he
    · split at h
      · next i hf => simp at h; obtain ⟨rfl, rfl⟩ := h; exact .recvImpl hm (firstOffering_sound hf)
      · simp at h
  · next r hm => simp at h; obtain ⟨rfl, rfl⟩ := h; exact .closeDone hm
  · simp at h

theorem gNext_sound {mu : Bool} {outs : List Out} {c c' : Cfg} {i : Nat} {l : Label}
    (h : gNext mu outs c i = some (l, c')) : Step mu outs c l c' := by
  unfold gNext at h
  split at h
  · next hg =>
    split at h
    · next hc => simp at h; obtain ⟨rfl, rfl⟩ := h; simp at hc; exact .fnAbort hg hc.2
    · simp at h
  · next hg =>
    split at h
    · next hc => simp at h; obtain ⟨rfl, rfl⟩ := h; simp at hc; exact .dropErr hg hc.1 hc.2
    · next hc =>
      split at h
      · next hl => simp at h; obtain ⟨rfl, rfl⟩ := h; exact .sendErr hg hl (by simpa using hc)
      · simp at h
  · next hg =>
    split at h
    · next hd => simp at h; obtain ⟨rfl, rfl⟩ := h; exact .doneArm hg hd
    · simp at h
  · simp at h

theorem firstSome_some {α β : Type} {f : α → Option β} : ∀ {l : List α} {b : β},
    firstSome f l = some b → ∃ a, f a = some b
  | [], b, h => by simp [firstSome] at h
  | a :: as, b, h => by
      unfold firstSome at h
      split at h
      · next x hx => simp at h; subst h; exact ⟨a, hx⟩
      · exact firstSome_some h

theorem next_sound {mu : Bool} {outs : List Out} {c c' : Cfg} {l : Label}
    (h : next mu outs c = some (l, c')) : Step mu outs c l c' := by
  unfold next at h
  split at h
  · next x hx => simp at h; subst h; exact mainNext_sound hx
  · obtain ⟨i, hi⟩ := firstSome_some h; exact gNext_sound hi

theorem settle_reach {mu : Bool} {outs : List Out} :
    ∀ (fuel : Nat) (c : Cfg), Reach mu outs c → Reach mu outs (settle mu outs fuel c)
  | 0, c, h => by simpa [settle] using h
  | fuel + 1, c, h => by
      unfold settle
      split
      · exact h
      · next l c' hn => exact settle_reach fuel c' (.step h (next_sound hn))

theorem runSched_reach {mu : Bool} {outs : List Out} :
    ∀ (ts : List Tok) (c c' : Cfg), Reach mu outs c → runSched mu outs ts c = some c' → Reach mu outs c'
  | [], c, c', h, hr => by simp [runSched] at hr; subst hr; exact h
  | .rel i :: ts, c, c', h, hr => by
      unfold runSched at hr
      split at hr
      · simp at hr
      · next l c1 hf =>
        exact runSched_reach ts _ c' (settle_reach _ _ (.step h (fnRet_sound hf))) hr
  | .cancel :: ts, c, c', h, hr => by
      unfold runSched at hr
      refine runSched_reach ts _ c' (settle_reach _ _ ?_) hr
      cases hc : c.cancelled with
      | false => exact .step h (.cancel hc)
      | true =>
          have : { c with cancelled := true } = c := by cases c; simp_all
          rw [this]; exact h

/-- every configuration the `rc gf` driver arm reports on is reachable in the LTS -/
theorem runGF_reach {mu : Bool} {outs : List Out} {ts : List Tok} {c : Cfg}
    (h : runGF mu outs ts = some c) : Reach mu outs c :=
  runSched_reach ts _ c (settle_reach _ _ .init) h

end ClientFirst
end Gnmi
