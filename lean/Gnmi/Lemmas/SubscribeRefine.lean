import Gnmi.Props.C06Glue
import Gnmi.Lemmas.SubscribeGate
import Gnmi.Lemmas.SubscribeStreamInit
import Gnmi.Lemmas.CacheFeedTrace
import Gnmi.Lemmas.SubscribeInv
import Gnmi.Lemmas.CacheAccounting
/-!
# The sequential Subscribe model is simulated by the Subscribe LTS (lemmas)

`Model/Subscribe.lean` (SEQ: every call atomic, followed by a pump of every subscriber) and
`Model/SubscribeLTS.lean` (LTS: handler / walker / sender / writer threads, all interleavings) model
the same server.  This file builds the simulation relation between a SEQ state and a configuration
of the concrete LTS instance `C06Glue.subSys reqs` (keys = `(target, index path)`, values = the
cache model's notifications, regions = `(target, delete path)`), and proves, operation by
operation, that the SEQ effect is the effect of one particular finite LTS run:

* `runSub` / `local_all`: runs of local steps of single subscribers, lifted to the global `fireAll`;
* `IRel`, `QRel`, `SentRel`, `LiveRel`, `DeadRel`, `SRel`: what relates one SEQ subscriber to its LTS
  client (queue contents as handles of the right generation, blocked `Send`, gate, responses sent);
* `pump_sim`: `Sub.pump` = the sender run `next; build; sent` repeated until it blocks;
* `gateF_sim`, `stepF_sim`: flow control = `gateClose` / `gateOpen` (+ `sent`, + the sender run);
* `VRel`, `ev_shared`, `ev_live`: one feed event = writer unit `W1; W2` (`w1Upd`/`w1Add`/`w1Reg`, `w2`);
* `walk_sim`, `subscribe_sim`: `Sub.subscribe` = handler steps `hs`…, walker `visit`…, `finish`, sender run.

Duplicate counts are *not* related (see `Props/C04Refine.lean`: the two models disagree on them
when one request holds overlapping paths).
-/
namespace Gnmi
namespace Refine
open Cache Feed SubStream
set_option linter.unusedSimpArgs false
set_option linter.unusedVariables false

/-! ## the concrete instance -/

abbrev K := String × Path
abbrev LItem := SubLTS.Item K K
abbrev LResp := SubLTS.Resp K Noti K
abbrev LSub := SubLTS.Sub K Noti K
abbrev LShared := SubLTS.Shared K Noti String K
abbrev LCfg := SubLTS.Cfg K Noti String K
abbrev LSys := SubLTS.Sys K String K
abbrev LReq := SubLTS.Req K String K
abbrev ShL := SubLTS.ShLabel K Noti String K
abbrev SL := SubLTS.SLabel K
abbrev GL := SubLTS.Label K Noti String K

/-! ## runs of local steps of one subscriber -/

/-- a run of local steps of one subscriber (the shared state is only read) -/
def runSub (sys : LSys) (rq : LReq) (sh : LShared) (b : LSub) : List SL → Option LSub
  | [] => some b
  | l :: ls => match SubLTS.subFire sys rq sh b l with
    | some b' => runSub sys rq sh b' ls
    | none => none

theorem runSub_append {sys : LSys} {rq : LReq} {sh : LShared} {b b' b'' : LSub} {l1 l2 : List SL}
    (h1 : runSub sys rq sh b l1 = some b') (h2 : runSub sys rq sh b' l2 = some b'') :
    runSub sys rq sh b (l1 ++ l2) = some b'' := by
  induction l1 generalizing b with
  | nil => simp only [runSub, Option.some.injEq] at h1; subst h1; exact h2
  | cons l ls ih =>
    simp only [runSub, List.cons_append] at h1 ⊢
    cases hf : SubLTS.subFire sys rq sh b l with
    | none => rw [hf] at h1; cases h1
    | some b1 => rw [hf] at h1; simp only; exact ih h1

theorem runSub_one {sys : LSys} {rq : LReq} {sh : LShared} {b b' : LSub} {l : SL}
    (h : SubLTS.subFire sys rq sh b l = some b') : runSub sys rq sh b [l] = some b' := by
  simp [runSub, h]

theorem fireAll_append {sys : LSys} {c c' c'' : LCfg} {l1 l2 : List GL}
    (h1 : SubLTS.fireAll sys c l1 = some c') (h2 : SubLTS.fireAll sys c' l2 = some c'') :
    SubLTS.fireAll sys c (l1 ++ l2) = some c'' := by
  induction l1 generalizing c with
  | nil => simp only [SubLTS.fireAll, Option.some.injEq] at h1; subst h1; exact h2
  | cons l ls ih =>
    simp only [SubLTS.fireAll, List.cons_append] at h1 ⊢
    cases hf : SubLTS.fire sys c l with
    | none => rw [hf] at h1; cases h1
    | some c1 => rw [hf] at h1; simp only; exact ih h1

/-- a local run of subscriber `i`, as a global run -/
theorem fireAll_local (sys : LSys) (i : Nat) : ∀ (ls : List SL) (c : LCfg) (b' : LSub),
    runSub sys (sys.req i) c.sh (c.subs i) ls = some b' →
    SubLTS.fireAll sys c (ls.map (fun l => SubLTS.Label.sub i l)) = some ⟨c.sh, SubLTS.setFn c.subs i b'⟩
  | [], c, b', h => by
    simp only [runSub, Option.some.injEq] at h
    subst h
    simp only [List.map_nil, SubLTS.fireAll, Option.some.injEq]
    obtain ⟨sh, subs⟩ := c
    congr 1
    funext x
    unfold SubLTS.setFn
    split
    · rename_i hx; rw [hx]
    · rfl
  | l :: ls, c, b', h => by
    simp only [runSub] at h
    cases hf : SubLTS.subFire sys (sys.req i) c.sh (c.subs i) l with
    | none => rw [hf] at h; cases h
    | some b1 =>
      rw [hf] at h
      simp only at h
      simp only [List.map_cons, SubLTS.fireAll, SubLTS.fire, hf, Option.map_some]
      have ih := fireAll_local sys i ls ⟨c.sh, SubLTS.setFn c.subs i b1⟩ b'
        (by simpa [SubLTS.setFn] using h)
      rw [ih]
      congr 2
      funext x
      unfold SubLTS.setFn
      split
      · rfl
      · rename_i hx; simp [hx]

/-- local runs of the subscribers `0 … n-1`, one after the other -/
theorem local_all (sys : LSys) (P : Nat → LSub → Prop) : ∀ (n : Nat) (c : LCfg),
    (∀ i, i < n → ∃ ls b', runSub sys (sys.req i) c.sh (c.subs i) ls = some b' ∧ P i b') →
    ∃ ls c', SubLTS.fireAll sys c ls = some c' ∧ c'.sh = c.sh ∧ (∀ i, i < n → P i (c'.subs i)) ∧
      ∀ i, n ≤ i → c'.subs i = c.subs i
  | 0, c, _ => ⟨[], c, rfl, rfl, fun i hi => absurd hi (Nat.not_lt_zero i), fun _ _ => rfl⟩
  | n + 1, c, h => by
    obtain ⟨ls, c1, h1, hsh, hP, hrest⟩ := local_all sys P n c (fun i hi => h i (Nat.lt_succ_of_lt hi))
    obtain ⟨ls2, b', h2, hb⟩ := h n (Nat.lt_succ_self n)
    have h2' : runSub sys (sys.req n) c1.sh (c1.subs n) ls2 = some b' := by
      rw [hsh, hrest n (Nat.le_refl n)]; exact h2
    refine ⟨ls ++ ls2.map (fun l => SubLTS.Label.sub n l), ⟨c1.sh, SubLTS.setFn c1.subs n b'⟩,
      fireAll_append h1 (fireAll_local sys n ls2 c1 b' h2'), hsh, ?_, ?_⟩
    · intro i hi
      by_cases hin : i = n
      · subst hin; simp only [SubLTS.setFn, if_true]; exact hb
      · simp only [SubLTS.setFn, hin, if_false]
        exact hP i (by omega)
    · intro i hi
      have : i ≠ n := by omega
      simp only [SubLTS.setFn, this, if_false]
      exact hrest i (by omega)

/-! ## runs of shared steps -/

def shRun (sys : LSys) (sh : LShared) : List ShL → Option LShared
  | [] => some sh
  | l :: ls => match SubLTS.shFire sys sh l with
    | some sh' => shRun sys sh' ls
    | none => none

/-- the effect of a run of shared steps on one subscriber -/
def subShared (sys : LSys) (rq : LReq) (b : LSub) (ls : List ShL) : LSub :=
  ls.foldl (fun b l => b.onShared sys rq l) b

theorem fireAll_shared (sys : LSys) : ∀ (ls : List ShL) (c : LCfg) (sh' : LShared),
    shRun sys c.sh ls = some sh' →
    SubLTS.fireAll sys c (ls.map SubLTS.Label.sh) =
      some ⟨sh', fun s => subShared sys (sys.req s) (c.subs s) ls⟩
  | [], c, sh', h => by
    simp only [shRun, Option.some.injEq] at h
    subst h
    rfl
  | l :: ls, c, sh', h => by
    simp only [shRun] at h
    cases hf : SubLTS.shFire sys c.sh l with
    | none => rw [hf] at h; cases h
    | some sh1 =>
      rw [hf] at h
      simp only at h
      simp only [List.map_cons, SubLTS.fireAll, SubLTS.fire, hf, Option.map_some]
      exact fireAll_shared sys ls ⟨sh1, fun s => (c.subs s).onShared sys (sys.req s) l⟩ sh' h

/-! ## what relates a SEQ queue item to an LTS queue item -/

/-- the region of a delete event: target and index path (origin included) -/
def regOf (t o : String) (p : Path) : K := (t, (if o = "" then [] else [o]) ++ p)

/-- A SEQ handle stands for the LTS handle of the *current* generation of a present key, holding
the value readable through it; a SEQ detached handle for a handle of a generation that is no
longer the live leaf; a delete item for the region delete of its path. -/
def IRel (sh : LShared) : Sub.Item → LItem → Prop
  | .handle t k n, .handle k' g =>
    k' = (t, k) ∧ g = sh.gen (t, k) ∧ sh.present (t, k) = true ∧ sh.val (t, k) g = n ∧
      n.target = t ∧ Sub.eventKey n = k ∧ n.atomic = false
  | .detached t k n, .handle k' g =>
    k' = (t, k) ∧ g ≤ sh.gen (t, k) ∧ (g = sh.gen (t, k) → sh.present (t, k) = false) ∧
      sh.val (t, k) g = n ∧ n.target = t ∧ Sub.eventKey n = k ∧ n.atomic = false
  | .note (.del t o p _), .regionDel r => r = regOf t o p ∧ t ≠ glob ∧ o ≠ glob
  | .sync, .syncMarker => True
  | _, _ => False

/-- queues related item by item (duplicate counts ignored) -/
def QRel (sh : LShared) : List (Sub.Item × Nat) → List (LItem × Nat) → Prop
  | [], [] => True
  | x :: xs, y :: ys => IRel sh x.1 y.1 ∧ QRel sh xs ys
  | _, _ => False

theorem QRel.append {sh : LShared} : ∀ {a : List (Sub.Item × Nat)} {b : List (LItem × Nat)}
    {a' : List (Sub.Item × Nat)} {b' : List (LItem × Nat)},
    QRel sh a b → QRel sh a' b' → QRel sh (a ++ a') (b ++ b')
  | [], [], _, _, _, h => h
  | [], _ :: _, _, _, h, _ => h.elim
  | _ :: _, [], _, _, h, _ => h.elim
  | _ :: _, _ :: _, _, _, h, h' => ⟨h.1, QRel.append h.2 h'⟩

/-- pointwise change of both queues -/
theorem QRel.map2 {sh sh' : LShared} (f : Sub.Item × Nat → Sub.Item × Nat) (g : LItem × Nat → LItem × Nat) :
    ∀ {a : List (Sub.Item × Nat)} {b : List (LItem × Nat)}, QRel sh a b →
    (∀ x ∈ a, ∀ y, IRel sh x.1 y.1 → IRel sh' (f x).1 (g y).1) → QRel sh' (a.map f) (b.map g)
  | [], [], _, _ => trivial
  | [], _ :: _, h, _ => h.elim
  | _ :: _, [], h, _ => h.elim
  | x :: xs, y :: ys, h, hf =>
    ⟨hf x (List.mem_cons_self ..) y h.1,
      QRel.map2 f g h.2 (fun x' hx' => hf x' (List.mem_cons_of_mem _ hx'))⟩

theorem QRel.mono {sh sh' : LShared} {a : List (Sub.Item × Nat)} {b : List (LItem × Nat)} (h : QRel sh a b)
    (hf : ∀ x ∈ a, ∀ y, IRel sh x.1 y → IRel sh' x.1 y) : QRel sh' a b := by
  have := QRel.map2 (sh' := sh') id id h (fun x hx y hy => hf x hx y.1 hy)
  simpa using this

theorem QRel.exists_right {sh : LShared} : ∀ {a : List (Sub.Item × Nat)} {b : List (LItem × Nat)},
    QRel sh a b → ∀ x ∈ a, ∃ y ∈ b, IRel sh x.1 y.1
  | [], [], _, _, hx => by cases hx
  | [], _ :: _, h, _, _ => h.elim
  | _ :: _, [], h, _, _ => h.elim
  | x' :: xs, y' :: ys, h, x, hx => by
    rcases List.mem_cons.1 hx with rfl | hx
    · exact ⟨y', List.mem_cons_self .., h.1⟩
    · obtain ⟨y, hy, hr⟩ := QRel.exists_right h.2 x hx
      exact ⟨y, List.mem_cons_of_mem _ hy, hr⟩

theorem QRel.exists_left {sh : LShared} : ∀ {a : List (Sub.Item × Nat)} {b : List (LItem × Nat)},
    QRel sh a b → ∀ y ∈ b, ∃ x ∈ a, IRel sh x.1 y.1
  | [], [], _, _, hy => by cases hy
  | [], _ :: _, h, _, _ => h.elim
  | _ :: _, [], h, _, _ => h.elim
  | x' :: xs, y' :: ys, h, y, hy => by
    rcases List.mem_cons.1 hy with rfl | hy
    · exact ⟨x', List.mem_cons_self .., h.1⟩
    · obtain ⟨x, hx, hr⟩ := QRel.exists_left h.2 y hy
      exact ⟨x, List.mem_cons_of_mem _ hx, hr⟩

/-! ## responses -/

/-- the LTS response a SEQ response stands for (duplicate count dropped) -/
def absResp : Sub.Resp → LResp
  | .upd n _ => .upd (n.target, Sub.eventKey n) n 0
  | .del t o p _ _ => .rdel (regOf t o p)
  | .sync => .sync

def eraseDup : LResp → LResp
  | .upd k v _ => .upd k v 0
  | r => r

/-- a response the LTS has a counterpart for: a plain (non-atomic) leaf, or a delete of a named
target whose origin is not the wildcard -/
def respOK : Sub.Resp → Prop
  | .upd n _ => n.atomic = false
  | .del t o _ _ _ => o ≠ glob ∧ t ≠ glob
  | .sync => True

/-- what the LTS client was sent is what the SEQ subscriber was sent, in order -/
def SentRel (out : List (Sub.Resp × Bool)) (sent : List LResp) : Prop :=
  sent.map eraseDup = out.map (fun x => absResp x.1) ∧ ∀ x ∈ out, respOK x.1

theorem SentRel.nil : SentRel [] [] := ⟨rfl, fun _ hx => by cases hx⟩

theorem SentRel.snoc {out : List (Sub.Resp × Bool)} {sent : List LResp} (h : SentRel out sent)
    {r : Sub.Resp} {r' : LResp} (hr : eraseDup r' = absResp r) (hok : respOK r) (f : Bool) :
    SentRel (out ++ [(r, f)]) (sent ++ [r']) := by
  refine ⟨by simp [h.1, hr], ?_⟩
  intro x hx
  rcases List.mem_append.1 hx with hx | hx
  · exact h.2 x hx
  · simp only [List.mem_singleton] at hx
    subst hx; exact hok

/-- the target the per-response ACL check asks about, on a queue item -/
def itemTgt : Sub.Item → Option String
  | .handle t _ _ => some t
  | .detached t _ _ => some t
  | .note (.del t _ _ _) => some t
  | .note (.upd n) => some n.target
  | .sync => none

theorem respTarget_toResp (x : Sub.Item × Nat) : Sub.respTarget (Sub.toResp x) =
    match x.1 with
    | .handle _ _ n => some n.target
    | .detached _ _ n => some n.target
    | .note (.del t _ _ _) => some t
    | .note (.upd n) => some n.target
    | .sync => none := by
  obtain ⟨it, d⟩ := x
  cases it with
  | handle t k n => rfl
  | detached t k n => rfl
  | note e => cases e <;> rfl
  | sync => rfl

/-- building the response of a dequeued item: the LTS `mkResp` against SEQ `toResp` -/
theorem mkResp_rel {reqs : Nat → Sub.Req × Sub.Acl} {sh : LShared} {it : Sub.Item} {li : LItem}
    (h : IRel sh it li) (d d' : Nat) :
    (it = .sync ∧ li = .syncMarker) ∨
    ∃ r' tg, SubLTS.mkResp (C06Glue.subSys reqs) sh d' li = some (r', tg) ∧
      eraseDup r' = absResp (Sub.toResp (it, d)) ∧ Sub.respTarget (Sub.toResp (it, d)) = some tg ∧
      itemTgt it = some tg ∧ Sub.toResp (it, d) ≠ .sync ∧ respOK (Sub.toResp (it, d)) := by
  cases it with
  | handle t k n =>
    cases li with
    | handle k' g =>
      obtain ⟨rfl, rfl, _, hv, ht, hk, hat⟩ := h
      right
      refine ⟨_, _, rfl, ?_, ?_, rfl, by simp [Sub.toResp], hat⟩
      · simp [eraseDup, absResp, Sub.toResp, hv, ht, hk]
      · simp [Sub.toResp, Sub.respTarget, ht, C06Glue.subSys]
    | _ => exact h.elim
  | detached t k n =>
    cases li with
    | handle k' g =>
      obtain ⟨rfl, _, _, hv, ht, hk, hat⟩ := h
      right
      refine ⟨_, _, rfl, ?_, ?_, rfl, by simp [Sub.toResp], hat⟩
      · simp [eraseDup, absResp, Sub.toResp, hv, ht, hk]
      · simp [Sub.toResp, Sub.respTarget, ht, C06Glue.subSys]
    | _ => exact h.elim
  | note e =>
    cases e with
    | upd n => cases li <;> exact h.elim
    | del t o p ts =>
      cases li with
      | regionDel r =>
        obtain ⟨rfl, h2, h3⟩ := h
        right
        refine ⟨_, _, rfl, ?_, ?_, rfl, by simp [Sub.toResp], ⟨h3, h2⟩⟩
        · simp [eraseDup, absResp, Sub.toResp]
        · simp [Sub.toResp, Sub.respTarget, C06Glue.subSys, regOf]
      | _ => exact h.elim
  | sync =>
    cases li with
    | syncMarker => left; exact ⟨rfl, rfl⟩
    | _ => exact h.elim

/-! ## one subscriber -/

/-- the LTS request of a SEQ request and ACL -/
abbrev ltsOf (rq : Sub.Req × Sub.Acl) : LReq := C06Glue.ltsReq rq.1 rq.2

/-- a single-target subscription was allowed its target, and everything it queued is of that target -/
def SingleOK (rq : Sub.Req × Sub.Acl) (q : List (Sub.Item × Nat)) : Prop :=
  rq.1.target ≠ glob → rq.2.check rq.1.target = true ∧
    ∀ x ∈ q, ∀ t, itemTgt x.1 = some t → t = rq.1.target

/-- no delete item covering a queued (attached) handle is queued behind it -/
def NoCoverAfter (x y : Sub.Item × Nat) : Prop :=
  ∀ t k n e, x.1 = .handle t k n → y.1 = .note e → Sub.coversKey e t k = false

/-- every queued attached handle is of a key the registered paths are compatible with -/
def Wanted (r : Sub.Req) (q : List (Sub.Item × Nat)) : Prop :=
  ∀ x ∈ q, ∀ t k n, x.1 = .handle t k n → C06Glue.wantsOf r (t, k) = true

/-- the sender: waiting in `Next`, or inside the `Send` of the held response -/
def SndRel (blocked : Option Sub.Resp) (b : LSub) : Prop :=
  match blocked with
  | none => b.snd = .idle ∧ b.armed = false
  | some r => (r = .sync ∧ b.snd = .sendSync ∧ b.armed = true) ∨
      (r ≠ .sync ∧ respOK r ∧ ∃ r', b.snd = .sending r' ∧ b.armed = true ∧ eraseDup r' = absResp r)

/-- a live STREAM subscriber and its LTS client (handler in `<-errC`, walk over, registered) -/
structure LiveRel (sh : LShared) (rq : Sub.Req × Sub.Acl) (s : Sub.Subscriber) (b : LSub) : Prop where
  alive : s.alive = true
  req : s.req = rq.1
  acl : s.acl = rq.2
  mode : rq.1.mode = .stream
  regs : s.regs = Sub.regQueries rq.1
  closed : s.closed = false
  status : s.status = none
  pc : b.pc = .run
  reg : b.registered = true
  bclosed : b.closed = false
  bstatus : b.status = none
  walker : b.walker = .done
  gate : b.blocked = s.gateShut
  q : QRel sh s.queue b.q
  snd : SndRel s.blocked b
  sent : SentRel s.out b.sent
  single : SingleOK rq s.queue
  nca : s.queue.Pairwise NoCoverAfter
  wanted : Wanted rq.1 s.queue

def absCode : Sub.Code → SubLTS.Status
  | .ok => .ok
  | .invalidArgument => .invalid
  | .notFound => .notFound
  | .permissionDenied => .denied
  | .unauthenticated => .unauthenticated
  | .unknown => .timeout

/-- an ended RPC -/
structure DeadRel (rq : Sub.Req × Sub.Acl) (s : Sub.Subscriber) (b : LSub) : Prop where
  alive : s.alive = false
  acl : s.acl = rq.2
  blocked : s.blocked = none
  pc : b.pc = .fin
  snd : b.snd = .stopped
  reg : b.registered = false
  bclosed : b.closed = true
  armed : b.armed = false
  status : ∃ code, s.status = some code ∧ b.status = some (absCode code)
  sent : SentRel s.out b.sent

def SRel (sh : LShared) (rq : Sub.Req × Sub.Acl) (s : Sub.Subscriber) (b : LSub) : Prop :=
  LiveRel sh rq s b ∨ DeadRel rq s b

theorem SingleOK.tail {rq : Sub.Req × Sub.Acl} {x : Sub.Item × Nat} {q : List (Sub.Item × Nat)}
    (h : SingleOK rq (x :: q)) : SingleOK rq q :=
  fun hg => ⟨(h hg).1, fun y hy => (h hg).2 y (List.mem_cons_of_mem _ hy)⟩

theorem Wanted.tail {r : Sub.Req} {x : Sub.Item × Nat} {q : List (Sub.Item × Nat)}
    (h : Wanted r (x :: q)) : Wanted r q :=
  fun y hy => h y (List.mem_cons_of_mem _ hy)

/-! ### the sender: `next; build` -/

theorem isTD_regOf (reqs : Nat → Sub.Req × Sub.Acl) (t o : String) (p : Path) (ho : o ≠ glob) :
    (C06Glue.subSys reqs).isTD (regOf t o p) = (o == "" && p == [glob]) := by
  simp only [C06Glue.subSys, regOf]
  by_cases h : o = ""
  · simp [h]
  · simp only [h, if_false]
    have : (o == "") = false := by simpa using h
    rw [this, Bool.false_and]
    cases p with
    | nil => simpa using ho
    | cons a p => simp

theorem single_isSome (rq : Sub.Req × Sub.Acl) :
    (ltsOf rq).single.isSome = (rq.1.target != "*") := by
  simp only [ltsOf, C06Glue.ltsReq, glob]
  by_cases h : rq.1.target = "*" <;> simp [h]

/-- `next; build` against the first half of one round of `Sub.pump` -/
theorem dequeue_sim (reqs : Nat → Sub.Req × Sub.Acl) {sh : LShared} {rq : Sub.Req × Sub.Acl}
    {s : Sub.Subscriber} {b : LSub} {it : Sub.Item × Nat} {rest : List (Sub.Item × Nat)}
    (h : LiveRel sh rq s b) (hb : s.blocked = none) (hq : s.queue = it :: rest) :
    ∃ ls b', runSub (C06Glue.subSys reqs) (ltsOf rq) sh b ls = some b' ∧
      if Sub.denied s.acl (Sub.toResp it) then LiveRel sh rq { s with queue := rest } b'
      else LiveRel sh rq { s with queue := rest, blocked := some (Sub.toResp it) } b' := by
  have hsnd := h.snd
  rw [hb] at hsnd
  obtain ⟨hidle, harm⟩ := hsnd
  have hQ := h.q
  rw [hq] at hQ
  cases hbq : b.q with
  | nil => rw [hbq] at hQ; exact hQ.elim
  | cons y ys =>
    rw [hbq] at hQ
    obtain ⟨hI, hQ'⟩ := hQ
    obtain ⟨li, ld⟩ := y
    obtain ⟨iti, itd⟩ := it
    have hnext : SubLTS.subFire (C06Glue.subSys reqs) (ltsOf rq) sh b .next =
        some { b with q := ys, snd := .got li ld, deliv := b.deliv ++ [(li, ld)] } := by
      simp [SubLTS.subFire, hidle, hbq]
    have hsingle : SingleOK rq rest := by
      have := h.single; rw [hq] at this; exact this.tail
    have hwanted : Wanted rq.1 rest := by
      have := h.wanted; rw [hq] at this; exact this.tail
    have hnca : rest.Pairwise NoCoverAfter := by
      have := h.nca; rw [hq] at this; exact (List.pairwise_cons.1 this).2
    rcases mkResp_rel (reqs := reqs) hI itd ld with ⟨rfl, rfl⟩ | ⟨r', tg, hmk, her, hrt, hit, hns, hrok⟩
    · -- the sync marker
      refine ⟨[.next, .build], { b with q := ys, snd := .sendSync, armed := true, deliv := b.deliv ++ [(.syncMarker, ld)] }, ?_, ?_⟩
      · have hbuild : SubLTS.subFire (C06Glue.subSys reqs) (ltsOf rq) sh
            { b with q := ys, snd := .got .syncMarker ld, deliv := b.deliv ++ [(.syncMarker, ld)] } .build =
            some { b with q := ys, snd := .sendSync, armed := true, deliv := b.deliv ++ [(.syncMarker, ld)] } := by
          simp [SubLTS.subFire, SubLTS.mkResp]
        simp only [runSub, hnext, hbuild]
      · have hd : Sub.denied s.acl (Sub.toResp (Sub.Item.sync, itd)) = false := rfl
        rw [hd]
        simp only [Bool.false_eq_true, if_false]
        exact { alive := h.alive, req := h.req, acl := h.acl, mode := h.mode, regs := h.regs, closed := h.closed,
                status := h.status, pc := h.pc, reg := h.reg, bclosed := h.bclosed, bstatus := h.bstatus,
                walker := h.walker, gate := h.gate, q := hQ', snd := Or.inl ⟨rfl, rfl, rfl⟩, sent := h.sent,
                single := hsingle, nca := hnca, wanted := hwanted }
    · have hden : Sub.denied s.acl (Sub.toResp (iti, itd)) = !rq.2.check tg := by
        simp only [Sub.denied, hrt, h.acl]
      by_cases hal : rq.2.check tg = true
      · -- allowed: the timer is armed, `Send` begins
        refine ⟨[.next, .build],
          { b with q := ys, snd := .sending r', armed := true, deliv := b.deliv ++ [(li, ld)] }, ?_, ?_⟩
        · have : (ltsOf rq).allow tg = true := hal
          have hbuild : SubLTS.subFire (C06Glue.subSys reqs) (ltsOf rq) sh
              { b with q := ys, snd := .got li ld, deliv := b.deliv ++ [(li, ld)] } .build =
              some { b with q := ys, snd := .sending r', armed := true, deliv := b.deliv ++ [(li, ld)] } := by
            simp [SubLTS.subFire, hmk, this]
          simp only [runSub, hnext, hbuild]
        · rw [hden, hal]
          simp only [Bool.not_true, Bool.false_eq_true, if_false]
          exact { alive := h.alive, req := h.req, acl := h.acl, mode := h.mode, regs := h.regs, closed := h.closed,
                  status := h.status, pc := h.pc, reg := h.reg, bclosed := h.bclosed, bstatus := h.bstatus,
                  walker := h.walker, gate := h.gate, q := hQ',
                  snd := Or.inr ⟨hns, hrok, r', rfl, rfl, her⟩, sent := h.sent,
                  single := hsingle, nca := hnca, wanted := hwanted }
      · -- denied: dropped silently (a `*` subscription: nothing ends the stream)
        have hal' : rq.2.check tg = false := by simpa using hal
        have hstar : rq.1.target = glob := by
          apply Classical.byContradiction
          intro hne
          obtain ⟨hchk, hall⟩ := h.single hne
          have := hall (iti, itd) (by rw [hq]; exact List.mem_cons_self ..) tg hit
          rw [this, hchk] at hal'
          cases hal'
        have hends : SubLTS.endsStream (C06Glue.subSys reqs) (ltsOf rq) li = false := by
          cases li with
          | regionDel r =>
            simp only [SubLTS.endsStream, single_isSome, hstar, glob]
            simp
          | _ => rfl
        refine ⟨[.next, .build], { b with q := ys, snd := .idle, deliv := b.deliv ++ [(li, ld)] }, ?_, ?_⟩
        · have : (ltsOf rq).allow tg = false := hal'
          have hbuild : SubLTS.subFire (C06Glue.subSys reqs) (ltsOf rq) sh
              { b with q := ys, snd := .got li ld, deliv := b.deliv ++ [(li, ld)] } .build =
              some { b with q := ys, snd := .idle, deliv := b.deliv ++ [(li, ld)] } := by
            simp [SubLTS.subFire, hmk, this, hends]
          simp only [runSub, hnext, hbuild]
        · rw [hden, hal']
          simp only [Bool.not_false, if_true]
          exact { alive := h.alive, req := h.req, acl := h.acl, mode := h.mode, regs := h.regs, closed := h.closed,
                  status := h.status, pc := h.pc, reg := h.reg, bclosed := h.bclosed, bstatus := h.bstatus,
                  walker := h.walker, gate := h.gate, q := hQ', snd := by rw [hb]; exact ⟨rfl, harm⟩,
                  sent := h.sent, single := hsingle, nca := hnca, wanted := hwanted }

/-! ### the sender: `sent` -/

/-- SEQ: the held response goes out (a whole-target delete ends a single-target stream) -/
def releaseS (s : Sub.Subscriber) (r : Sub.Resp) : Sub.Subscriber :=
  if Sub.isTargetDelete r && s.req.target != "*" then
    { s with blocked := none, out := s.out ++ [(r, s.gatedSinceDrain)], alive := false, status := some .ok }
  else { s with blocked := none, out := s.out ++ [(r, s.gatedSinceDrain)] }

theorem release_sim (reqs : Nat → Sub.Req × Sub.Acl) {sh : LShared} {rq : Sub.Req × Sub.Acl}
    {s : Sub.Subscriber} {b : LSub} {r : Sub.Resp}
    (h : LiveRel sh rq s b) (hb : s.blocked = some r) (hg : b.blocked = false) :
    ∃ b', runSub (C06Glue.subSys reqs) (ltsOf rq) sh b [.sent] = some b' ∧
      if Sub.isTargetDelete r && rq.1.target != "*" then DeadRel rq (releaseS s r) b'
      else LiveRel sh rq (releaseS s r) b' := by
  have hsnd := h.snd
  rw [hb] at hsnd
  have hreq := h.req
  rcases hsnd with ⟨rfl, hss, harm⟩ | ⟨hns, hrok, r', hss, harm, her⟩
  · refine ⟨{ b with snd := .idle, armed := false, sent := b.sent ++ [.sync] }, ?_, ?_⟩
    · simp [runSub, SubLTS.subFire, hg, hss]
    · have : Sub.isTargetDelete Sub.Resp.sync = false := rfl
      simp only [this, Bool.false_and, Bool.false_eq_true, if_false, releaseS]
      exact { alive := h.alive, req := h.req, acl := h.acl, mode := h.mode, regs := h.regs, closed := h.closed,
              status := h.status, pc := h.pc, reg := h.reg, bclosed := h.bclosed, bstatus := h.bstatus,
              walker := h.walker, gate := h.gate, q := h.q, snd := ⟨rfl, rfl⟩,
              sent := h.sent.snoc (r := Sub.Resp.sync) rfl trivial _, single := h.single, nca := h.nca, wanted := h.wanted }
  · have hends : SubLTS.endsStreamR (C06Glue.subSys reqs) (ltsOf rq) r' =
        (Sub.isTargetDelete r && rq.1.target != "*") := by
      cases r with
      | upd n d =>
        cases r' with
        | upd k v dd => rfl
        | _ => simp [eraseDup, absResp] at her
      | del t o p ts d =>
        cases r' with
        | rdel g =>
          simp only [eraseDup, absResp, SubLTS.Resp.rdel.injEq] at her
          subst her
          simp only [SubLTS.endsStreamR, isTD_regOf reqs t o p hrok.1, single_isSome, Sub.isTargetDelete]
        | _ => simp [eraseDup, absResp] at her
      | sync => exact absurd rfl hns
    by_cases hTD : (Sub.isTargetDelete r && rq.1.target != "*") = true
    · refine ⟨SubLTS.Sub.finish { b with snd := .idle, armed := false, sent := b.sent ++ [r'] } .ok, ?_, ?_⟩
      · simp [runSub, SubLTS.subFire, hg, hss, hends, hTD]
      · rw [if_pos hTD]
        have hTD' : (Sub.isTargetDelete r && s.req.target != "*") = true := by rw [hreq]; exact hTD
        simp only [releaseS, hTD', if_true]
        exact { alive := rfl, acl := h.acl, blocked := rfl, pc := rfl, snd := rfl, reg := rfl, bclosed := rfl,
                armed := rfl, status := ⟨.ok, rfl, rfl⟩, sent := h.sent.snoc her hrok _ }
    · refine ⟨{ b with snd := .idle, armed := false, sent := b.sent ++ [r'] }, ?_, ?_⟩
      · simp [runSub, SubLTS.subFire, hg, hss, hends, hTD]
      · rw [if_neg hTD]
        have hTD' : ¬ (Sub.isTargetDelete r && s.req.target != "*") = true := by rw [hreq]; exact hTD
        simp only [releaseS, hTD', if_false]
        exact { alive := h.alive, req := h.req, acl := h.acl, mode := h.mode, regs := h.regs, closed := h.closed,
                status := h.status, pc := h.pc, reg := h.reg, bclosed := h.bclosed, bstatus := h.bstatus,
                walker := h.walker, gate := h.gate, q := h.q, snd := ⟨rfl, rfl⟩,
                sent := h.sent.snoc her hrok _, single := h.single, nca := h.nca, wanted := h.wanted }

/-! ### `Sub.pump` = the sender run -/

theorem pump_succ_cons (fuel : Nat) (s : Sub.Subscriber) (it : Sub.Item × Nat) (rest : List (Sub.Item × Nat))
    (ha : s.alive = true) (hb : s.blocked = none) (hq : s.queue = it :: rest) :
    Sub.pump (fuel + 1) s =
      if Sub.denied s.acl (Sub.toResp it) then Sub.pump fuel { s with queue := rest }
      else if s.gateShut then { s with queue := rest, blocked := some (Sub.toResp it) }
      else if Sub.isTargetDelete (Sub.toResp it) && s.req.target != "*" then
        releaseS { s with queue := rest, blocked := some (Sub.toResp it) } (Sub.toResp it)
      else Sub.pump fuel (releaseS { s with queue := rest, blocked := some (Sub.toResp it) } (Sub.toResp it)) := by
  obtain ⟨id, req, acl, regs, alive, status, gateShut, gsd, blocked, queue, closed, out⟩ := s
  simp only at ha hb hq
  subst ha hb hq
  rw [Sub.pump]
  simp only [Bool.not_true, Option.isSome_none, Bool.or_self, Bool.false_eq_true, if_false, releaseS]
  split
  · rfl
  · split
    · rfl
    · split
      · rfl
      · rfl

theorem pump_sim (reqs : Nat → Sub.Req × Sub.Acl) {sh : LShared} {rq : Sub.Req × Sub.Acl} :
    ∀ (fuel : Nat) (s : Sub.Subscriber) (b : LSub), LiveRel sh rq s b →
    ∃ ls b', runSub (C06Glue.subSys reqs) (ltsOf rq) sh b ls = some b' ∧ SRel sh rq (Sub.pump fuel s) b'
  | 0, s, b, h => ⟨[], b, rfl, Or.inl h⟩
  | fuel + 1, s, b, h => by
    cases hb : s.blocked with
    | some r =>
      refine ⟨[], b, rfl, Or.inl ?_⟩
      have : Sub.pump (fuel + 1) s = s := by
        rw [Sub.pump]; simp [hb]
      rw [this]; exact h
    | none =>
      cases hq : s.queue with
      | nil =>
        refine ⟨[], b, rfl, Or.inl ?_⟩
        have : Sub.pump (fuel + 1) s = s := by
          rw [Sub.pump]; simp [hb, hq, h.alive, h.closed]
        rw [this]; exact h
      | cons it rest =>
        rw [pump_succ_cons fuel s it rest h.alive hb hq]
        obtain ⟨ls1, b1, hr1, hrel⟩ := dequeue_sim reqs h hb hq
        by_cases hden : Sub.denied s.acl (Sub.toResp it) = true
        · rw [if_pos hden] at hrel ⊢
          obtain ⟨ls2, b2, hr2, hrel2⟩ := pump_sim reqs fuel _ b1 hrel
          exact ⟨ls1 ++ ls2, b2, runSub_append hr1 hr2, hrel2⟩
        · rw [if_neg hden] at hrel ⊢
          by_cases hg : s.gateShut = true
          · rw [if_pos hg]
            exact ⟨ls1, b1, hr1, Or.inl hrel⟩
          · rw [if_neg hg]
            have hg1 : b1.blocked = false := by
              rw [hrel.gate]; simpa using hg
            obtain ⟨b2, hr2, hrel2⟩ := release_sim reqs hrel rfl hg1
            have hreq : (Sub.isTargetDelete (Sub.toResp it) && s.req.target != "*") =
                (Sub.isTargetDelete (Sub.toResp it) && rq.1.target != "*") := by rw [h.req]
            by_cases hTD : (Sub.isTargetDelete (Sub.toResp it) && rq.1.target != "*") = true
            · rw [if_pos hTD] at hrel2
              rw [hreq, if_pos hTD]
              exact ⟨ls1 ++ [.sent], b2, runSub_append hr1 hr2, Or.inr hrel2⟩
            · rw [if_neg hTD] at hrel2
              rw [hreq, if_neg hTD]
              obtain ⟨ls3, b3, hr3, hrel3⟩ := pump_sim reqs fuel _ b2 hrel2
              exact ⟨ls1 ++ ([.sent] ++ ls3), b3, runSub_append hr1 (runSub_append hr2 hr3), hrel3⟩

theorem pumpAll_sim (reqs : Nat → Sub.Req × Sub.Acl) {sh : LShared} {rq : Sub.Req × Sub.Acl}
    {s : Sub.Subscriber} {b : LSub} (h : SRel sh rq s b) :
    ∃ ls b', runSub (C06Glue.subSys reqs) (ltsOf rq) sh b ls = some b' ∧ SRel sh rq (Sub.pumpAll s) b' := by
  rcases h with h | h
  · exact pump_sim reqs _ s b h
  · refine ⟨[], b, rfl, Or.inr ?_⟩
    rw [SubGate.pumpAll_dead s h.alive]; exact h

/-! ### flow control -/

/-- the client stops / resumes reading: `gateClose` / `gateOpen` -/
theorem gate_set (reqs : Nat → Sub.Req × Sub.Acl) {sh : LShared} {rq : Sub.Req × Sub.Acl}
    {s : Sub.Subscriber} {b : LSub} (h : SRel sh rq s b) (g d : Bool) :
    ∃ b', runSub (C06Glue.subSys reqs) (ltsOf rq) sh b [if g then .gateClose else .gateOpen] = some b' ∧
      b'.blocked = g ∧ SRel sh rq { s with gateShut := g, gatedSinceDrain := d } b' := by
  refine ⟨{ b with blocked := g }, ?_, rfl, ?_⟩
  · cases g <;> simp [runSub, SubLTS.subFire]
  · rcases h with h | h
    · refine Or.inl ?_
      exact { alive := h.alive, req := h.req, acl := h.acl, mode := h.mode, regs := h.regs, closed := h.closed,
              status := h.status, pc := h.pc, reg := h.reg, bclosed := h.bclosed, bstatus := h.bstatus,
              walker := h.walker, gate := rfl, q := h.q, snd := h.snd,
              sent := h.sent, single := h.single, nca := h.nca, wanted := h.wanted }
    · refine Or.inr ?_
      exact { alive := h.alive, acl := h.acl, blocked := h.blocked, pc := h.pc, snd := h.snd, reg := h.reg,
              bclosed := h.bclosed, armed := h.armed, status := h.status, sent := h.sent }

theorem gateF_open_some (s : Sub.Subscriber) (r : Sub.Resp) (hb : s.blocked = some r) :
    SubGate.gateF false s = Sub.pumpAll (releaseS { s with gateShut := false } r) := by
  obtain ⟨id, req, acl, regs, alive, status, gateShut, gsd, blocked, queue, closed, out⟩ := s
  simp only at hb
  subst hb
  simp only [SubGate.gateF, releaseS, Bool.false_eq_true, if_false]

theorem gateF_open_none (s : Sub.Subscriber) (hb : s.blocked = none) :
    SubGate.gateF false s = Sub.pumpAll { s with gateShut := false } := by
  obtain ⟨id, req, acl, regs, alive, status, gateShut, gsd, blocked, queue, closed, out⟩ := s
  simp only at hb
  subst hb
  simp only [SubGate.gateF, Bool.false_eq_true, if_false]

/-- `Sub.setGate` on one subscriber = `gateClose`, or `gateOpen; sent` and the sender run -/
theorem gateF_sim (reqs : Nat → Sub.Req × Sub.Acl) {sh : LShared} {rq : Sub.Req × Sub.Acl}
    {s : Sub.Subscriber} {b : LSub} (h : SRel sh rq s b) (shut : Bool) :
    ∃ ls b', runSub (C06Glue.subSys reqs) (ltsOf rq) sh b ls = some b' ∧ SRel sh rq (SubGate.gateF shut s) b' := by
  cases shut with
  | true =>
    obtain ⟨b', hr, _, hrel⟩ := gate_set reqs h true true
    exact ⟨_, b', hr, hrel⟩
  | false =>
    obtain ⟨b1, hr1, hg1, hrel1⟩ := gate_set reqs h false s.gatedSinceDrain
    have hrel1' : SRel sh rq { s with gateShut := false } b1 := hrel1
    cases hb : s.blocked with
    | none =>
      rw [gateF_open_none s hb]
      obtain ⟨ls2, b2, hr2, hrel2⟩ := pumpAll_sim reqs hrel1'
      exact ⟨_, b2, runSub_append hr1 hr2, hrel2⟩
    | some r =>
      rw [gateF_open_some s r hb]
      rcases hrel1' with hl | hd
      · obtain ⟨b2, hr2, hrel2⟩ := release_sim reqs hl hb hg1
        have hrel2' : SRel sh rq (releaseS { s with gateShut := false } r) b2 := by
          by_cases hTD : (Sub.isTargetDelete r && rq.1.target != "*") = true
          · rw [if_pos hTD] at hrel2; exact Or.inr hrel2
          · rw [if_neg hTD] at hrel2; exact Or.inl hrel2
        obtain ⟨ls3, b3, hr3, hrel3⟩ := pumpAll_sim reqs hrel2'
        exact ⟨_, b3, runSub_append hr1 (runSub_append hr2 hr3), hrel3⟩
      · have := hd.blocked
        simp only [hb] at this
        cases this

theorem stepF_eq (s : Sub.Subscriber) (r : Sub.Resp) (hg : s.gateShut = true) (hb : s.blocked = some r) :
    SubGate.stepF s = Sub.pumpAll { releaseS { s with gateShut := false } r with gateShut := true } := by
  obtain ⟨id, req, acl, regs, alive, status, gateShut, gsd, blocked, queue, closed, out⟩ := s
  simp only at hb hg
  subst hb hg
  simp only [SubGate.stepF, releaseS, if_true]
  split
  · rename_i h
    simp only [h, if_true]
    rw [SubGate.pumpAll_dead _ rfl]
  · rename_i h
    simp only [h, if_false]

/-- `Sub.stepGate` on one subscriber = `gateOpen; sent; gateClose` and the sender run -/
theorem stepF_sim (reqs : Nat → Sub.Req × Sub.Acl) {sh : LShared} {rq : Sub.Req × Sub.Acl}
    {s : Sub.Subscriber} {b : LSub} (h : SRel sh rq s b) :
    ∃ ls b', runSub (C06Glue.subSys reqs) (ltsOf rq) sh b ls = some b' ∧ SRel sh rq (SubGate.stepF s) b' := by
  by_cases hg : s.gateShut = true
  · cases hb : s.blocked with
    | none =>
      refine ⟨[], b, rfl, ?_⟩
      have : SubGate.stepF s = s := by simp [SubGate.stepF, hg, hb]
      rw [this]; exact h
    | some r =>
      rw [stepF_eq s r hg hb]
      obtain ⟨b1, hr1, hg1, hrel1⟩ := gate_set reqs h false s.gatedSinceDrain
      have hrel1' : SRel sh rq { s with gateShut := false } b1 := hrel1
      rcases hrel1' with hl | hd
      · obtain ⟨b2, hr2, hrel2⟩ := release_sim reqs hl hb hg1
        have hrel2' : SRel sh rq (releaseS { s with gateShut := false } r) b2 := by
          by_cases hTD : (Sub.isTargetDelete r && rq.1.target != "*") = true
          · rw [if_pos hTD] at hrel2; exact Or.inr hrel2
          · rw [if_neg hTD] at hrel2; exact Or.inl hrel2
        obtain ⟨b3, hr3, _, hrel3⟩ := gate_set reqs hrel2' true
          (releaseS { s with gateShut := false } r).gatedSinceDrain
        have hrel3' : SRel sh rq { releaseS { s with gateShut := false } r with gateShut := true } b3 := hrel3
        obtain ⟨ls4, b4, hr4, hrel4⟩ := pumpAll_sim reqs hrel3'
        exact ⟨_, b4, runSub_append hr1 (runSub_append hr2 (runSub_append hr3 hr4)), hrel4⟩
      · have := hd.blocked
        simp only [hb] at this
        cases this
  · refine ⟨[], b, rfl, ?_⟩
    have : SubGate.stepF s = s := by simp [SubGate.stepF, hg]
    rw [this]; exact h

/-! ## the cache: views (per-target trees) against the LTS's shared state -/

/-- the LTS store holds exactly the leaves of the views `V` (the per-target trees of the cache, or
those trees with some events of the current call applied), the targets `H`, and no writer unit is
between `W1` and `W2` -/
structure VRel (V : Views) (H : String → Bool) (sh : LShared) : Prop where
  pres : ∀ t k, sh.present (t, k) = (lookup (V t) k).isSome
  val : ∀ t k n, lookup (V t) k = some n → sh.val (t, k) (sh.gen (t, k)) = n
  hasT : ∀ t, sh.hasT t = H t
  pend : sh.pend = []
  keys : ∀ k, sh.present k = true → k ∈ sh.keys
  plain : ∀ t k n, lookup (V t) k = some n → n.atomic = false
  /-- no quiet write (event-driven suppression) happened: the simulated fragment has event-driven
  emulation off, every tree write is announced -/
  quiet : sh.qlog = []

/-- what a feed event must look like for the LTS to have a writer unit for it: a plain
(non-atomic) leaf of an existing target; a delete whose origin is not the wildcard -/
def PlainEv (H : String → Bool) : Event → Prop
  | .upd n => n.atomic = false ∧ H n.target = true
  | .del _ o _ _ => o ≠ glob

/-- the targets after an event: a whole-target delete (`Cache.Remove`) removes the target -/
def evH (H : String → Bool) : Event → String → Bool
  | .del t o p _ => if o = "" ∧ p = [glob] then SubLTS.setFn H t false else H
  | .upd _ => H

/-- `W1` of the writer unit of an event -/
def evL1 (sh : LShared) : Event → ShL
  | .upd n =>
    if sh.present (n.target, Sub.eventKey n) then .w1Upd (n.target, Sub.eventKey n) n
    else .w1Add (n.target, Sub.eventKey n) n
  | .del t o p _ => .w1Reg (regOf t o p)

/-- the unit pending between `W1` and `W2` -/
def evUnit (sh : LShared) : Event → SubLTS.WUnit K K
  | .upd n =>
    .upd (n.target, Sub.eventKey n)
      (if sh.present (n.target, Sub.eventKey n) then sh.gen (n.target, Sub.eventKey n)
       else sh.gen (n.target, Sub.eventKey n) + 1)
  | .del t o p _ => .reg (regOf t o p)

/-- the shared state after `W1; W2` of the event's writer unit -/
def evShared (reqs : Nat → Sub.Req × Sub.Acl) (sh : LShared) : Event → LShared
  | .upd n =>
    let kk : K := (n.target, Sub.eventKey n)
    if sh.present kk then
      { sh with val := SubLTS.setFn sh.val kk (SubLTS.setFn (sh.val kk) (sh.gen kk) n),
                pend := [],
                wlog := sh.wlog ++ [(kk, sh.gen kk, n)] }
    else
      { sh with keys := if kk ∈ sh.keys then sh.keys else sh.keys ++ [kk],
                present := SubLTS.setFn sh.present kk true,
                gen := SubLTS.setFn sh.gen kk (sh.gen kk + 1),
                val := SubLTS.setFn sh.val kk (SubLTS.setFn (sh.val kk) (sh.gen kk + 1) n),
                pend := [],
                wlog := sh.wlog ++ [(kk, sh.gen kk + 1, n)] }
  | .del t o p _ =>
    { sh with present := fun k => sh.present k && !(C06Glue.subSys reqs).covers (regOf t o p) k,
              hasT := if (C06Glue.subSys reqs).isTD (regOf t o p) then SubLTS.setFn sh.hasT t false else sh.hasT,
              pend := [] }

theorem evShared_upd_pos (reqs : Nat → Sub.Req × Sub.Acl) {sh : LShared} {n : Noti}
    (h : sh.present (n.target, Sub.eventKey n) = true) :
    evShared reqs sh (.upd n) =
      { sh with val := SubLTS.setFn sh.val (n.target, Sub.eventKey n)
                  (SubLTS.setFn (sh.val (n.target, Sub.eventKey n)) (sh.gen (n.target, Sub.eventKey n)) n),
                pend := [],
                wlog := sh.wlog ++ [((n.target, Sub.eventKey n), sh.gen (n.target, Sub.eventKey n), n)] } := by
  simp only [evShared, h, if_true]

theorem evShared_upd_neg (reqs : Nat → Sub.Req × Sub.Acl) {sh : LShared} {n : Noti}
    (h : sh.present (n.target, Sub.eventKey n) = false) :
    evShared reqs sh (.upd n) =
      { sh with keys := if (n.target, Sub.eventKey n) ∈ sh.keys then sh.keys else sh.keys ++ [(n.target, Sub.eventKey n)],
                present := SubLTS.setFn sh.present (n.target, Sub.eventKey n) true,
                gen := SubLTS.setFn sh.gen (n.target, Sub.eventKey n) (sh.gen (n.target, Sub.eventKey n) + 1),
                val := SubLTS.setFn sh.val (n.target, Sub.eventKey n)
                  (SubLTS.setFn (sh.val (n.target, Sub.eventKey n)) (sh.gen (n.target, Sub.eventKey n) + 1) n),
                pend := [],
                wlog := sh.wlog ++ [((n.target, Sub.eventKey n), sh.gen (n.target, Sub.eventKey n) + 1, n)] } := by
  simp only [evShared, h, Bool.false_eq_true, if_false]

theorem ev_fire (reqs : Nat → Sub.Req × Sub.Acl) {V : Views} {H : String → Bool} {sh : LShared} {e : Event}
    (hv : VRel V H sh) (hp : PlainEv H e) :
    shRun (C06Glue.subSys reqs) sh [evL1 sh e, .w2 (evUnit sh e)] = some (evShared reqs sh e) := by
  have hpend := hv.pend
  cases e with
  | upd n =>
    obtain ⟨_, hH⟩ := hp
    have hT : sh.hasT n.target = true := by rw [hv.hasT]; exact hH
    by_cases hpr : sh.present (n.target, Sub.eventKey n) = true
    · simp [shRun, evL1, evUnit, evShared, hpr, SubLTS.shFire, SubLTS.Shared.inflight, hpend]
    · have hpr' : sh.present (n.target, Sub.eventKey n) = false := by simpa using hpr
      simp [shRun, evL1, evUnit, evShared, hpr', SubLTS.shFire, SubLTS.Shared.inflight, hpend, C06Glue.subSys, hT]
  | del t o p ts =>
    have hr : (C06Glue.subSys reqs).rtgt (regOf t o p) = t := rfl
    simp [shRun, evL1, evUnit, evShared, SubLTS.shFire, hpend, hr]

theorem covers_regOf (reqs : Nat → Sub.Req × Sub.Acl) (te o : String) (p : Path) (t : String) (k : Path) :
    (C06Glue.subSys reqs).covers (regOf te o p) (t, k) =
      (decide (t = te) && qmatches ((if o = "" then [] else [o]) ++ p) k) := by
  simp only [C06Glue.subSys, regOf]
  by_cases h : t = te
  · subst h; simp
  · have : (te == t) = false := by simpa using fun e => h e.symm
    simp [this, h]

theorem ev_vrel (reqs : Nat → Sub.Req × Sub.Acl) {V : Views} {H : String → Bool} {sh : LShared} {e : Event}
    (hv : VRel V H sh) (hg : GoodEv V e) (hp : PlainEv H e) :
    VRel (applyS V e) (evH H e) (evShared reqs sh e) := by
  cases e with
  | upd n =>
    have hl : ∀ (t : String) (k : Path), lookup (applyS V (Event.upd n) t) k =
        if t = n.target ∧ k = Sub.eventKey n then some n else lookup (V t) k := lookup_applyS_upd hg
    have hplain : ∀ t k m, lookup (applyS V (Event.upd n) t) k = some m → m.atomic = false := by
      intro t k m hm
      rw [hl t k] at hm
      by_cases hk : t = n.target ∧ k = Sub.eventKey n
      · rw [if_pos hk] at hm; cases hm; exact hp.1
      · rw [if_neg hk] at hm; exact hv.plain t k m hm
    by_cases hpr : sh.present (n.target, Sub.eventKey n) = true
    · simp only [evShared, hpr, if_true]
      refine ⟨?_, ?_, hv.hasT, rfl, hv.keys, hplain, hv.quiet⟩
      · intro t k
        rw [hl t k]
        show sh.present (t, k) = _
        by_cases hk : t = n.target ∧ k = Sub.eventKey n
        · rw [if_pos hk]; obtain ⟨rfl, rfl⟩ := hk; exact hpr
        · rw [if_neg hk]; exact hv.pres t k
      · intro t k m hm
        rw [hl t k] at hm
        show SubLTS.setFn sh.val _ _ (t, k) (sh.gen (t, k)) = m
        by_cases hk : t = n.target ∧ k = Sub.eventKey n
        · rw [if_pos hk] at hm
          obtain ⟨rfl, rfl⟩ := hk
          cases hm
          show SubLTS.setFn sh.val (n.target, Sub.eventKey n) _ (n.target, Sub.eventKey n) _ = n
          rw [SubLTS.setFn_same, SubLTS.setFn_same]
        · rw [if_neg hk] at hm
          have hne : (t, k) ≠ (n.target, Sub.eventKey n) := by
            intro he; apply hk; cases he; exact ⟨rfl, rfl⟩
          rw [SubLTS.setFn_other _ _ hne]
          exact hv.val t k m hm
    · have hpr' : sh.present (n.target, Sub.eventKey n) = false := by simpa using hpr
      simp only [evShared, hpr', Bool.false_eq_true, if_false]
      refine ⟨?_, ?_, hv.hasT, rfl, ?_, hplain, hv.quiet⟩
      · intro t k
        rw [hl t k]
        show SubLTS.setFn sh.present _ true (t, k) = _
        by_cases hk : t = n.target ∧ k = Sub.eventKey n
        · rw [if_pos hk]; obtain ⟨rfl, rfl⟩ := hk
          show SubLTS.setFn sh.present (n.target, Sub.eventKey n) true (n.target, Sub.eventKey n) = _
          rw [SubLTS.setFn_same]; rfl
        · rw [if_neg hk]
          have hne : (t, k) ≠ (n.target, Sub.eventKey n) := by
            intro he; apply hk; cases he; exact ⟨rfl, rfl⟩
          rw [SubLTS.setFn_other _ _ hne]
          exact hv.pres t k
      · intro t k m hm
        rw [hl t k] at hm
        show SubLTS.setFn sh.val _ _ (t, k) (SubLTS.setFn sh.gen _ _ (t, k)) = m
        by_cases hk : t = n.target ∧ k = Sub.eventKey n
        · rw [if_pos hk] at hm
          obtain ⟨rfl, rfl⟩ := hk
          cases hm
          show SubLTS.setFn sh.val (n.target, Sub.eventKey n) _ (n.target, Sub.eventKey n)
            (SubLTS.setFn sh.gen (n.target, Sub.eventKey n) _ (n.target, Sub.eventKey n)) = n
          rw [SubLTS.setFn_same, SubLTS.setFn_same, SubLTS.setFn_same]
        · rw [if_neg hk] at hm
          have hne : (t, k) ≠ (n.target, Sub.eventKey n) := by
            intro he; apply hk; cases he; exact ⟨rfl, rfl⟩
          rw [SubLTS.setFn_other _ _ hne, SubLTS.setFn_other _ _ hne]
          exact hv.val t k m hm
      · intro k hk
        show k ∈ (if (n.target, Sub.eventKey n) ∈ sh.keys then sh.keys else sh.keys ++ [(n.target, Sub.eventKey n)])
        have hk' : SubLTS.setFn sh.present (n.target, Sub.eventKey n) true k = true := hk
        by_cases hkk : k = (n.target, Sub.eventKey n)
        · subst hkk
          split
          · assumption
          · simp
        · rw [SubLTS.setFn_other _ _ hkk] at hk'
          have := hv.keys k hk'
          split
          · exact this
          · exact List.mem_append_left _ this
  | del te o p ts =>
    have ho : o ≠ glob := hp
    simp only [evShared]
    refine ⟨?_, ?_, ?_, rfl, ?_, ?_, hv.quiet⟩
    rotate_left 4
    · intro t k m hm
      rw [lookup_applyS_del] at hm
      by_cases hk : t = te ∧ qmatches ((if o = "" then [] else [o]) ++ p) k = true
      · rw [if_pos hk] at hm; cases hm
      · rw [if_neg hk] at hm; exact hv.plain t k m hm
    · intro t k
      rw [lookup_applyS_del]
      show (sh.present (t, k) && !(C06Glue.subSys reqs).covers (regOf te o p) (t, k)) = _
      rw [covers_regOf, hv.pres t k]
      by_cases hk : t = te ∧ qmatches ((if o = "" then [] else [o]) ++ p) k = true
      · rw [if_pos hk]; simp [hk.1, hk.2]
      · rw [if_neg hk]
        have : (decide (t = te) && qmatches ((if o = "" then [] else [o]) ++ p) k) = false := by
          cases h1 : decide (t = te) <;> cases h2 : qmatches ((if o = "" then [] else [o]) ++ p) k <;> simp_all
        rw [this]; simp
    · intro t k m hm
      rw [lookup_applyS_del] at hm
      by_cases hk : t = te ∧ qmatches ((if o = "" then [] else [o]) ++ p) k = true
      · rw [if_pos hk] at hm; cases hm
      · rw [if_neg hk] at hm; exact hv.val t k m hm
    · intro t
      show (if (C06Glue.subSys reqs).isTD (regOf te o p) then SubLTS.setFn sh.hasT te false else sh.hasT) t = evH H _ t
      rw [isTD_regOf reqs te o p ho]
      simp only [evH]
      by_cases h : o = "" ∧ p = [glob]
      · rw [if_pos h]
        have : (o == "" && p == [glob]) = true := by simp [h.1, h.2]
        rw [this, if_pos rfl]
        unfold SubLTS.setFn
        split
        · rfl
        · exact hv.hasT t
      · rw [if_neg h]
        have : (o == "" && p == [glob]) = false := by
          cases h1 : (o == "") <;> cases h2 : (p == [glob]) <;> simp_all
        rw [this]
        simp only [Bool.false_eq_true, if_false]
        exact hv.hasT t
    · intro k hk
      have hk' : (sh.present k && !(C06Glue.subSys reqs).covers (regOf te o p) k) = true := hk
      simp only [Bool.and_eq_true] at hk'
      exact hv.keys k hk'.1

/-! ## one feed event, seen by one subscriber -/

theorem QRel.bump {sh : LShared} (i : LItem) : ∀ {a : List (Sub.Item × Nat)} {b : List (LItem × Nat)},
    QRel sh a b → QRel sh a (Coalesce.bump i b)
  | [], [], _ => trivial
  | [], _ :: _, h => h.elim
  | _ :: _, [], h => h.elim
  | x :: xs, (k, c) :: ys, h => by
    simp only [Coalesce.bump]
    refine ⟨?_, QRel.bump i h.2⟩
    split <;> exact h.1

theorem nhbc_of_nca {q : List (Sub.Item × Nat)} (h : q.Pairwise NoCoverAfter) (t : String) (k : Path) :
    NoHandleBeforeCover q t k := by
  intro a e d b hq hc x hx
  cases hh : Sub.isHandleFor t k x.1 with
  | false => rfl
  | true =>
    obtain ⟨m, hm⟩ := isHandleFor_elim hh
    rw [hq, List.pairwise_append] at h
    have := h.2.2 x hx (Sub.Item.note e, d) (List.mem_cons_self ..) t k m e hm rfl
    rw [this] at hc
    cases hc

/-- the SEQ item after an update event for its key was coalesced into it -/
def updIt (n : Noti) (it : Sub.Item) : Sub.Item :=
  if Sub.isHandleFor n.target (Sub.eventKey n) it then .handle n.target (Sub.eventKey n) n else it

theorem irel_upd (reqs : Nat → Sub.Req × Sub.Acl) {sh : LShared} (n : Noti) (hna : n.atomic = false)
    {it : Sub.Item} {li : LItem}
    (h : IRel sh it li) : IRel (evShared reqs sh (.upd n)) (updIt n it) li := by
  have key : ∀ (t : String) (k : Path), (t, k) ≠ (n.target, Sub.eventKey n) →
      (evShared reqs sh (.upd n)).present (t, k) = sh.present (t, k) ∧
      (evShared reqs sh (.upd n)).gen (t, k) = sh.gen (t, k) ∧
      (evShared reqs sh (.upd n)).val (t, k) = sh.val (t, k) := by
    intro t k hne
    by_cases hpr : sh.present (n.target, Sub.eventKey n) = true
    · rw [evShared_upd_pos reqs hpr]
      exact ⟨rfl, rfl, SubLTS.setFn_other _ _ hne⟩
    · have hpr' : sh.present (n.target, Sub.eventKey n) = false := by simpa using hpr
      rw [evShared_upd_neg reqs hpr']
      exact ⟨SubLTS.setFn_other _ _ hne, SubLTS.setFn_other _ _ hne, SubLTS.setFn_other _ _ hne⟩
  cases it with
  | handle t k m =>
    cases li with
    | handle k' g =>
      obtain ⟨rfl, rfl, hp, hv, ht, hk, hat⟩ := h
      by_cases hkk : (t, k) = (n.target, Sub.eventKey n)
      · cases hkk
        have : updIt n (.handle n.target (Sub.eventKey n) m) = .handle n.target (Sub.eventKey n) n := by
          simp [updIt, Sub.isHandleFor]
        rw [this, evShared_upd_pos reqs hp]
        refine ⟨rfl, rfl, hp, ?_, rfl, rfl, hna⟩
        show SubLTS.setFn sh.val _ _ _ _ = n
        rw [SubLTS.setFn_same, SubLTS.setFn_same]
      · have : updIt n (.handle t k m) = .handle t k m := by
          have : ¬ (t = n.target ∧ k = Sub.eventKey n) := fun e => hkk (by rw [e.1, e.2])
          simp only [updIt, Sub.isHandleFor, Bool.and_eq_true, beq_iff_eq, this, if_false]
        rw [this]
        obtain ⟨h1, h2, h3⟩ := key t k hkk
        exact ⟨rfl, h2.symm, by rw [h1]; exact hp, by rw [h3]; exact hv, ht, hk, hat⟩
    | _ => exact h.elim
  | detached t k m =>
    cases li with
    | handle k' g =>
      obtain ⟨rfl, hle, hnp, hv, ht, hk, hat⟩ := h
      have : updIt n (.detached t k m) = .detached t k m := by simp [updIt, Sub.isHandleFor]
      rw [this]
      by_cases hkk : (t, k) = (n.target, Sub.eventKey n)
      · cases hkk
        by_cases hpr : sh.present (n.target, Sub.eventKey n) = true
        · have hne : g ≠ sh.gen (n.target, Sub.eventKey n) := by
            intro e; have := hnp e; rw [hpr] at this; cases this
          rw [evShared_upd_pos reqs hpr]
          refine ⟨rfl, hle, fun e => absurd e hne, ?_, ht, hk, hat⟩
          show SubLTS.setFn sh.val _ _ _ g = m
          rw [SubLTS.setFn_same, SubLTS.setFn_other _ _ hne]; exact hv
        · have hpr' : sh.present (n.target, Sub.eventKey n) = false := by simpa using hpr
          have hne : g ≠ sh.gen (n.target, Sub.eventKey n) + 1 := by omega
          rw [evShared_upd_neg reqs hpr']
          refine ⟨rfl, ?_, ?_, ?_, ht, hk, hat⟩
          · show g ≤ SubLTS.setFn sh.gen _ _ _
            rw [SubLTS.setFn_same]; omega
          · intro e
            have : g = sh.gen (n.target, Sub.eventKey n) + 1 := by
              rw [e]; show SubLTS.setFn sh.gen _ _ _ = _; rw [SubLTS.setFn_same]
            exact absurd this hne
          · show SubLTS.setFn sh.val _ _ _ g = m
            rw [SubLTS.setFn_same, SubLTS.setFn_other _ _ hne]; exact hv
      · obtain ⟨h1, h2, h3⟩ := key t k hkk
        exact ⟨rfl, by rw [h2]; exact hle, by rw [h1, h2]; exact hnp, by rw [h3]; exact hv, ht, hk, hat⟩
    | _ => exact h.elim
  | note e =>
    have : updIt n (.note e) = .note e := by simp [updIt, Sub.isHandleFor]
    rw [this]
    cases e with
    | upd n' => cases li <;> exact h.elim
    | del t o p ts => cases li <;> first | exact h | exact h.elim
  | sync =>
    have : updIt n .sync = .sync := by simp [updIt, Sub.isHandleFor]
    rw [this]
    cases li <;> first | exact h | exact h.elim

theorem coversKey_eq_covers (reqs : Nat → Sub.Req × Sub.Acl) {te : String} (hte : te ≠ glob) (o : String)
    (p : Path) (ts : Int) (t : String) (k : Path) :
    Sub.coversKey (.del te o p ts) t k = (C06Glue.subSys reqs).covers (regOf te o p) (t, k) := by
  rw [coversKey_del hte, covers_regOf]
  by_cases h : te = t
  · subst h; simp
  · have : ¬ t = te := fun e => h e.symm
    simp [h, this]

theorem irel_del (reqs : Nat → Sub.Req × Sub.Acl) {sh : LShared} {te : String} (hte : te ≠ glob) (o : String)
    (p : Path) (ts : Int) {x : Sub.Item × Nat} {li : LItem}
    (h : IRel sh x.1 li) : IRel (evShared reqs sh (.del te o p ts)) (frz (.del te o p ts) x).1 li := by
  obtain ⟨it, d⟩ := x
  cases it with
  | handle t k m =>
    cases li with
    | handle k' g =>
      obtain ⟨rfl, rfl, hp, hv, ht, hk, hat⟩ := h
      by_cases hc : Sub.coversKey (.del te o p ts) t k = true
      · have : (frz (.del te o p ts) (Sub.Item.handle t k m, d)).1 = .detached t k m := by simp [frz, hc]
        rw [this]
        refine ⟨rfl, Nat.le_refl _, fun _ => ?_, hv, ht, hk, hat⟩
        show (sh.present (t, k) && !(C06Glue.subSys reqs).covers (regOf te o p) (t, k)) = false
        rw [← coversKey_eq_covers reqs hte, hc]; simp
      · have hc' : Sub.coversKey (.del te o p ts) t k = false := by simpa using hc
        have : (frz (.del te o p ts) (Sub.Item.handle t k m, d)).1 = .handle t k m := by simp [frz, hc']
        rw [this]
        refine ⟨rfl, rfl, ?_, hv, ht, hk, hat⟩
        show (sh.present (t, k) && !(C06Glue.subSys reqs).covers (regOf te o p) (t, k)) = true
        rw [← coversKey_eq_covers reqs hte, hc', hp]; rfl
    | _ => exact h.elim
  | detached t k m =>
    cases li with
    | handle k' g =>
      obtain ⟨rfl, hle, hnp, hv, ht, hk, hat⟩ := h
      refine ⟨rfl, hle, fun e => ?_, hv, ht, hk, hat⟩
      show (sh.present (t, k) && !(C06Glue.subSys reqs).covers (regOf te o p) (t, k)) = false
      rw [hnp e]; rfl
    | _ => exact h.elim
  | note e =>
    cases e with
    | upd n' => cases li <;> exact h.elim
    | del t' o' p' ts' => cases li <;> first | exact h | exact h.elim
  | sync => cases li <;> first | exact h | exact h.elim

/-- the effect of the writer unit of an event on one LTS client -/
def evSub (reqs : Nat → Sub.Req × Sub.Acl) (rq : Sub.Req × Sub.Acl) (sh : LShared) (e : Event) (b : LSub) : LSub :=
  subShared (C06Glue.subSys reqs) (ltsOf rq) b [evL1 sh e, .w2 (evUnit sh e)]

theorem offeredR_upd (r : Sub.Req) (n : Noti) (u : Upd) (hu : n.upd = [u]) (ha : n.atomic = false) :
    offeredR (Sub.regQueries r) (.upd n) = C06Glue.wantsOf r (n.target, Sub.eventKey n) := by
  have := C06Glue.wantsOf_eq_offered r { id := "", req := r, acl := .absent, regs := Sub.regQueries r } rfl n u hu ha
  have hk : Sub.eventKey n = updKey n u := by simp [Sub.eventKey, hu]
  rw [hk, ← this]
  rfl

theorem offeredR_del (r : Sub.Req) (t o : String) (p : Path) (ts : Int) :
    offeredR (Sub.regQueries r) (.del t o p ts) = C06Glue.wantsROf r (regOf t o p) := by
  have := C06Glue.wantsROf_eq_offered r { id := "", req := r, acl := .absent, regs := Sub.regQueries r } rfl t o p ts
  rw [regOf, ← this]
  rfl

theorem itemTgt_frz (e : Event) (x : Sub.Item × Nat) : itemTgt (frz e x).1 = itemTgt x.1 := by
  rcases frz_cases e x with ⟨h, _⟩ | ⟨t, k, m, hx, _, h⟩
  · rw [h]
  · rw [h, hx]; rfl

/-- **One feed event on a live subscriber**: `freezeCovered` + `enqueueEvent` on the SEQ queue is the
effect of the event's writer unit `W1; W2` on the LTS client's queue. -/
theorem ev_live (reqs : Nat → Sub.Req × Sub.Acl) {V : Views} {H : String → Bool} {sh : LShared}
    {rq : Sub.Req × Sub.Acl} {s : Sub.Subscriber} {b : LSub} {e : Event}
    (h : LiveRel sh rq s b) (hv : VRel V H sh) (hg : GoodEv V e) (hp : PlainEv H e) :
    LiveRel (evShared reqs sh e) rq { s with queue := qstep s.regs s.queue e } (evSub reqs rq sh e b) := by
  have hregs := h.regs
  cases e with
  | upd n =>
    obtain ⟨hna, _⟩ := hp
    obtain ⟨htg, _, hshape, _⟩ := hg
    obtain ⟨u, hu⟩ : ∃ u, n.upd = [u] := by
      rcases hshape with ⟨ha, _⟩ | ⟨_, hu⟩
      · rw [hna] at ha; cases ha
      · exact hu
    -- the LTS side
    let g : Nat := if sh.present (n.target, Sub.eventKey n) then sh.gen (n.target, Sub.eventKey n)
      else sh.gen (n.target, Sub.eventKey n) + 1
    have hsub : ∃ b0 : LSub, evSub reqs rq sh (.upd n) b =
        (if C06Glue.wantsOf rq.1 (n.target, Sub.eventKey n) then b0.ins (.handle (n.target, Sub.eventKey n) g) else b0) ∧
        b0.pc = b.pc ∧ b0.registered = b.registered ∧ b0.q = b.q ∧ b0.closed = b.closed ∧ b0.walker = b.walker ∧
        b0.snd = b.snd ∧ b0.armed = b.armed ∧ b0.blocked = b.blocked ∧ b0.sent = b.sent ∧ b0.status = b.status := by
      refine ⟨{ b with held := b.held ++ [((n.target, Sub.eventKey n), n)] }, ?_, rfl, rfl, rfl, rfl, rfl, rfl, rfl, rfl, rfl, rfl⟩
      have hw : (ltsOf rq).wants (n.target, Sub.eventKey n) = C06Glue.wantsOf rq.1 (n.target, Sub.eventKey n) := rfl
      by_cases hpr : sh.present (n.target, Sub.eventKey n) = true
      · simp [evSub, subShared, evL1, evUnit, hpr, SubLTS.Sub.onShared, h.reg, hw, g]
      · have hpr' : sh.present (n.target, Sub.eventKey n) = false := by simpa using hpr
        simp [evSub, subShared, evL1, evUnit, hpr', SubLTS.Sub.onShared, h.reg, hw, g]
    obtain ⟨b0, hb0, e1, e2, e3, e4, e5, e6, e7, e8, e9, e10⟩ := hsub
    -- facts about the new shared state at the key
    have hself : (evShared reqs sh (.upd n)).gen (n.target, Sub.eventKey n) = g ∧
        (evShared reqs sh (.upd n)).present (n.target, Sub.eventKey n) = true ∧
        (evShared reqs sh (.upd n)).val (n.target, Sub.eventKey n) g = n := by
      by_cases hpr : sh.present (n.target, Sub.eventKey n) = true
      · have hgg : g = sh.gen (n.target, Sub.eventKey n) := by simp only [g, hpr, if_true]
        rw [evShared_upd_pos reqs hpr, hgg]
        refine ⟨rfl, hpr, ?_⟩
        show SubLTS.setFn sh.val _ _ _ _ = n
        rw [SubLTS.setFn_same, SubLTS.setFn_same]
      · have hpr' : sh.present (n.target, Sub.eventKey n) = false := by simpa using hpr
        have hgg : g = sh.gen (n.target, Sub.eventKey n) + 1 := by simp [g, hpr']
        rw [evShared_upd_neg reqs hpr', hgg]
        refine ⟨SubLTS.setFn_same .., SubLTS.setFn_same .., ?_⟩
        show SubLTS.setFn sh.val _ _ _ _ = n
        rw [SubLTS.setFn_same, SubLTS.setFn_same]
    have hnew : IRel (evShared reqs sh (.upd n)) (.handle n.target (Sub.eventKey n) n)
        (.handle (n.target, Sub.eventKey n) g) :=
      ⟨rfl, hself.1.symm, hself.2.1, hself.2.2, rfl, rfl, hna⟩
    -- SEQ side
    have hfr : Sub.freezeCovered (.upd n) s.queue = s.queue := freezeCovered_upd n s.queue
    have hoff : offeredR s.regs (.upd n) = C06Glue.wantsOf rq.1 (n.target, Sub.eventKey n) := by
      rw [hregs]; exact offeredR_upd rq.1 n u hu hna
    have hany_iff : s.queue.any (fun x => Sub.isHandleFor n.target (Sub.eventKey n) x.1) = true ↔
        SubLTS.Item.handle (n.target, Sub.eventKey n) g ∈ b.q.map (·.1) := by
      constructor
      · intro ha
        obtain ⟨x, hx, hh⟩ := List.any_eq_true.1 ha
        obtain ⟨m, hm⟩ := isHandleFor_elim hh
        obtain ⟨y, hy, hr⟩ := h.q.exists_right x hx
        rw [hm] at hr
        obtain ⟨yi, yd⟩ := y
        cases yi with
        | handle k' g' =>
          obtain ⟨rfl, rfl, hpr, _⟩ := hr
          have : g = sh.gen (n.target, Sub.eventKey n) := by simp only [g, hpr, if_true]
          rw [this]
          exact List.mem_map.2 ⟨_, hy, rfl⟩
        | _ => exact hr.elim
      · intro hm
        obtain ⟨y, hy, hy1⟩ := List.mem_map.1 hm
        obtain ⟨x, hx, hr⟩ := h.q.exists_left y hy
        rw [hy1] at hr
        obtain ⟨xi, xd⟩ := x
        cases xi with
        | handle t k m =>
          obtain ⟨he, _⟩ := hr
          cases he
          exact List.any_eq_true.2 ⟨_, hx, by simp [Sub.isHandleFor]⟩
        | detached t k m =>
          exfalso
          obtain ⟨he, hle, hnp, _⟩ := hr
          cases he
          by_cases hpr : sh.present (n.target, Sub.eventKey n) = true
          · have hgg : g = sh.gen (n.target, Sub.eventKey n) := by simp only [g, hpr, if_true]
            have := hnp hgg
            rw [hpr] at this; cases this
          · have hpr' : sh.present (n.target, Sub.eventKey n) = false := by simpa using hpr
            have hgg : g = sh.gen (n.target, Sub.eventKey n) + 1 := by simp [g, hpr']
            omega
        | note e' => cases e' <;> exact hr.elim
        | sync => exact hr.elim
    have hqstep : qstep s.regs s.queue (.upd n) =
        if C06Glue.wantsOf rq.1 (n.target, Sub.eventKey n) then
          (if s.queue.any (fun x => Sub.isHandleFor n.target (Sub.eventKey n) x.1) then
            s.queue.map (fun x => if Sub.isHandleFor n.target (Sub.eventKey n) x.1 then
              (Sub.Item.handle n.target (Sub.eventKey n) n, x.2 + 1) else x)
          else s.queue ++ [(Sub.Item.handle n.target (Sub.eventKey n) n, 0)])
        else s.queue := by
      simp only [qstep, hoff, hfr]
      rw [insertHandle_eq _ _ _ _ (nhbc_of_nca h.nca _ _)]
    rw [hqstep, hb0]
    have hmono : ∀ x ∈ s.queue, Sub.isHandleFor n.target (Sub.eventKey n) x.1 = false →
        ∀ y, IRel sh x.1 y → IRel (evShared reqs sh (.upd n)) x.1 y := by
      intro x _ hx y hy
      have := irel_upd reqs n hna hy
      simp only [updIt, hx, Bool.false_eq_true, if_false] at this
      exact this
    by_cases hw : C06Glue.wantsOf rq.1 (n.target, Sub.eventKey n) = true
    · simp only [hw, if_true]
      have hins_q : (b0.ins (.handle (n.target, Sub.eventKey n) g)).q =
          SubLTS.qins b.q (.handle (n.target, Sub.eventKey n) g) := by
        rw [SubLTS.ins_q, e4, h.bclosed, e3]; rfl
      by_cases hany : s.queue.any (fun x => Sub.isHandleFor n.target (Sub.eventKey n) x.1) = true
      · simp only [hany, if_true]
        have hmem := hany_iff.1 hany
        have hq' : QRel (evShared reqs sh (.upd n))
            (s.queue.map (fun x => if Sub.isHandleFor n.target (Sub.eventKey n) x.1 then
              (Sub.Item.handle n.target (Sub.eventKey n) n, x.2 + 1) else x))
            (b0.ins (.handle (n.target, Sub.eventKey n) g)).q := by
          rw [hins_q]
          have : SubLTS.qins b.q (.handle (n.target, Sub.eventKey n) g) =
              Coalesce.bump (.handle (n.target, Sub.eventKey n) g) b.q := by
            simp [SubLTS.qins, SubLTS.Item.coal, hmem]
          rw [this]
          apply QRel.bump
          have := QRel.map2 (sh' := evShared reqs sh (.upd n))
            (fun x => if Sub.isHandleFor n.target (Sub.eventKey n) x.1 then
              (Sub.Item.handle n.target (Sub.eventKey n) n, x.2 + 1) else x) id h.q
            (fun x _ y hy => by
              have := irel_upd reqs n hna hy
              simp only [updIt] at this
              simp only [id]
              split
              · rename_i hh; simp only [hh, if_true] at this; exact this
              · rename_i hh; simp only [hh, if_false] at this; exact this)
          simpa using this
        exact { alive := h.alive, req := h.req, acl := h.acl, mode := h.mode, regs := h.regs, closed := h.closed,
                status := h.status, pc := by simp [e1, h.pc], reg := by simp [e2, h.reg],
                bclosed := by simp [e4, h.bclosed], bstatus := by simp [e10, h.bstatus],
                walker := by simp [e5, h.walker], gate := by simp [e8, h.gate], q := hq',
                snd := by
                  have := h.snd
                  unfold SndRel at this ⊢
                  simpa [e6, e7] using this,
                sent := by simpa [e9] using h.sent,
                single := by
                  intro hne
                  refine ⟨(h.single hne).1, ?_⟩
                  intro x hx t ht
                  obtain ⟨x0, hx0, rfl⟩ := List.mem_map.1 hx
                  by_cases hh : Sub.isHandleFor n.target (Sub.eventKey n) x0.1 = true
                  · obtain ⟨m, hm⟩ := isHandleFor_elim hh
                    simp only [hh, if_true, itemTgt, Option.some.injEq] at ht
                    exact (h.single hne).2 x0 hx0 t (by rw [hm]; simp [itemTgt, ht])
                  · simp only [hh, if_false] at ht
                    exact (h.single hne).2 x0 hx0 t ht,
                nca := by
                  rw [List.pairwise_map]
                  refine h.nca.imp ?_
                  intro x y hxy t k m e' hx hy
                  by_cases hh : Sub.isHandleFor n.target (Sub.eventKey n) x.1 = true
                  · obtain ⟨m0, hm0⟩ := isHandleFor_elim hh
                    simp only [hh, if_true, Sub.Item.handle.injEq] at hx
                    have hy' : y.1 = .note e' := by
                      by_cases hh2 : Sub.isHandleFor n.target (Sub.eventKey n) y.1 = true
                      · simp only [hh2, if_true] at hy; cases hy
                      · simp only [hh2, if_false] at hy; exact hy
                    rw [← hx.1, ← hx.2.1]
                    exact hxy _ _ m0 e' hm0 hy'
                  · simp only [hh, if_false] at hx
                    have hy' : y.1 = .note e' := by
                      by_cases hh2 : Sub.isHandleFor n.target (Sub.eventKey n) y.1 = true
                      · simp only [hh2, if_true] at hy; cases hy
                      · simp only [hh2, if_false] at hy; exact hy
                    exact hxy t k m e' hx hy',
                wanted := by
                  intro x hx t k m hm
                  obtain ⟨x0, hx0, rfl⟩ := List.mem_map.1 hx
                  by_cases hh : Sub.isHandleFor n.target (Sub.eventKey n) x0.1 = true
                  · simp only [hh, if_true, Sub.Item.handle.injEq] at hm
                    rw [← hm.1, ← hm.2.1]; exact hw
                  · simp only [hh, if_false] at hm
                    exact h.wanted x0 hx0 t k m hm }
      · simp only [hany, Bool.false_eq_true, if_false]
        have hany' : s.queue.any (fun x => Sub.isHandleFor n.target (Sub.eventKey n) x.1) = false := by simpa using hany
        have hnmem : SubLTS.Item.handle (n.target, Sub.eventKey n) g ∉ b.q.map (·.1) := fun hm => hany (hany_iff.2 hm)
        have hq' : QRel (evShared reqs sh (.upd n))
            (s.queue ++ [(Sub.Item.handle n.target (Sub.eventKey n) n, 0)])
            (b0.ins (.handle (n.target, Sub.eventKey n) g)).q := by
          rw [hins_q]
          have : SubLTS.qins b.q (.handle (n.target, Sub.eventKey n) g) =
              b.q ++ [(.handle (n.target, Sub.eventKey n) g, 0)] := by
            simp only [SubLTS.qins, hnmem, and_false, if_false]
          rw [this]
          apply QRel.append
          · apply h.q.mono
            intro x hx y hy
            exact hmono x hx (by rw [List.any_eq_false] at hany'; simpa using hany' x hx) y hy
          · exact ⟨hnew, trivial⟩
        exact { alive := h.alive, req := h.req, acl := h.acl, mode := h.mode, regs := h.regs, closed := h.closed,
                status := h.status, pc := by simp [e1, h.pc], reg := by simp [e2, h.reg],
                bclosed := by simp [e4, h.bclosed], bstatus := by simp [e10, h.bstatus],
                walker := by simp [e5, h.walker], gate := by simp [e8, h.gate], q := hq',
                snd := by
                  have := h.snd
                  unfold SndRel at this ⊢
                  simpa [e6, e7] using this,
                sent := by simpa [e9] using h.sent,
                single := by
                  intro hne
                  refine ⟨(h.single hne).1, ?_⟩
                  intro x hx t ht
                  rcases List.mem_append.1 hx with hx | hx
                  · exact (h.single hne).2 x hx t ht
                  · simp only [List.mem_singleton] at hx
                    subst hx
                    simp only [itemTgt, Option.some.injEq] at ht
                    have hoff' : offeredR (Sub.regQueries rq.1) (.upd n) = true := by
                      rw [← hregs, hoff]; exact hw
                    rcases offered_tOK (regsOK_regQueries rq.1) (e := .upd n) htg hoff' with h1 | h1
                    · exact absurd h1 hne
                    · rw [← ht]; exact h1,
                nca := by
                  rw [List.pairwise_append]
                  refine ⟨h.nca, List.pairwise_singleton _ _, ?_⟩
                  intro x _ y hy t k m e' _ hye
                  simp only [List.mem_singleton] at hy
                  subst hy
                  exact Sub.Item.noConfusion hye,
                wanted := by
                  intro x hx t k m hm
                  rcases List.mem_append.1 hx with hx | hx
                  · exact h.wanted x hx t k m hm
                  · simp only [List.mem_singleton] at hx
                    subst hx
                    simp only [Sub.Item.handle.injEq] at hm
                    rw [← hm.1, ← hm.2.1]; exact hw }
    · simp only [hw, Bool.false_eq_true, if_false]
      have hw' : C06Glue.wantsOf rq.1 (n.target, Sub.eventKey n) = false := by simpa using hw
      have hq' : QRel (evShared reqs sh (.upd n)) s.queue b0.q := by
        rw [e3]
        apply h.q.mono
        intro x hx y hy
        apply hmono x hx _ y hy
        cases hh : Sub.isHandleFor n.target (Sub.eventKey n) x.1 with
        | false => rfl
        | true =>
          obtain ⟨m, hm⟩ := isHandleFor_elim hh
          have := h.wanted x hx _ _ m hm
          rw [hw'] at this; cases this
      exact { alive := h.alive, req := h.req, acl := h.acl, mode := h.mode, regs := h.regs, closed := h.closed,
              status := h.status, pc := by rw [e1]; exact h.pc, reg := by rw [e2]; exact h.reg,
              bclosed := by rw [e4]; exact h.bclosed, bstatus := by rw [e10]; exact h.bstatus,
              walker := by rw [e5]; exact h.walker, gate := by rw [e8]; exact h.gate, q := hq',
              snd := by
                have := h.snd
                unfold SndRel at this ⊢
                simpa [e6, e7] using this,
              sent := by rw [e9]; exact h.sent,
              single := h.single, nca := h.nca, wanted := h.wanted }
  | del te o p ts =>
    have ho : o ≠ glob := hp
    have hte : te ≠ glob := hg
    have hsub : ∃ b0 : LSub, evSub reqs rq sh (.del te o p ts) b =
        (if C06Glue.wantsROf rq.1 (regOf te o p) then b0.ins (.regionDel (regOf te o p)) else b0) ∧
        b0.pc = b.pc ∧ b0.registered = b.registered ∧ b0.q = b.q ∧ b0.closed = b.closed ∧ b0.walker = b.walker ∧
        b0.snd = b.snd ∧ b0.armed = b.armed ∧ b0.blocked = b.blocked ∧ b0.sent = b.sent ∧ b0.status = b.status := by
      refine ⟨b.onShared (C06Glue.subSys reqs) (ltsOf rq) (.w1Reg (regOf te o p)), ?_, rfl, rfl, rfl, rfl, ?_,
        rfl, rfl, rfl, rfl, rfl⟩
      · have hr : (b.onShared (C06Glue.subSys reqs) (ltsOf rq) (.w1Reg (regOf te o p))).registered = true := h.reg
        show (if (b.onShared (C06Glue.subSys reqs) (ltsOf rq) (.w1Reg (regOf te o p))).registered &&
            (ltsOf rq).wantsR (regOf te o p) then _ else _) = _
        rw [hr, Bool.true_and]
        rfl
      · show b.walker.filter _ = b.walker
        rw [h.walker]; rfl
    obtain ⟨b0, hb0, e1, e2, e3, e4, e5, e6, e7, e8, e9, e10⟩ := hsub
    have hoff : offeredR s.regs (.del te o p ts) = C06Glue.wantsROf rq.1 (regOf te o p) := by
      rw [hregs]; exact offeredR_del rq.1 te o p ts
    have hqstep : qstep s.regs s.queue (.del te o p ts) =
        if C06Glue.wantsROf rq.1 (regOf te o p) then
          s.queue.map (frz (.del te o p ts)) ++ [(Sub.Item.note (.del te o p ts), 0)]
        else s.queue.map (frz (.del te o p ts)) := by
      simp only [qstep, hoff, freezeCovered_eq]
    rw [hqstep, hb0]
    have hqm : QRel (evShared reqs sh (.del te o p ts)) (s.queue.map (frz (.del te o p ts))) b.q := by
      have := QRel.map2 (sh' := evShared reqs sh (.del te o p ts)) (frz (.del te o p ts)) id h.q
        (fun x _ y hy => irel_del reqs hte o p ts hy)
      simpa using this
    have hsingle_m : SingleOK rq (s.queue.map (frz (.del te o p ts))) := by
      intro hne
      refine ⟨(h.single hne).1, ?_⟩
      intro x hx t ht
      obtain ⟨x0, hx0, rfl⟩ := List.mem_map.1 hx
      rw [itemTgt_frz] at ht
      exact (h.single hne).2 x0 hx0 t ht
    have hfrz_handle : ∀ x0 t k m, (frz (.del te o p ts) x0).1 = Sub.Item.handle t k m →
        x0.1 = Sub.Item.handle t k m ∧ Sub.coversKey (.del te o p ts) t k = false := by
      intro x0 t k m hx
      rcases frz_cases (.del te o p ts) x0 with ⟨h1, h2⟩ | ⟨t', k', m', _, _, h3⟩
      · rw [h1] at hx; exact ⟨hx, h2 t k m hx⟩
      · rw [h3] at hx; cases hx
    have hfrz_note : ∀ x0 e', (frz (.del te o p ts) x0).1 = Sub.Item.note e' → x0.1 = Sub.Item.note e' := by
      intro x0 e' hx
      rcases frz_cases (.del te o p ts) x0 with ⟨h1, _⟩ | ⟨t', k', m', _, _, h3⟩
      · rw [h1] at hx; exact hx
      · rw [h3] at hx; cases hx
    have hnca_m : (s.queue.map (frz (.del te o p ts))).Pairwise NoCoverAfter := by
      rw [List.pairwise_map]
      refine h.nca.imp ?_
      intro x y hxy t k m e' hx hy
      exact hxy t k m e' (hfrz_handle x t k m hx).1 (hfrz_note y e' hy)
    have hwanted_m : Wanted rq.1 (s.queue.map (frz (.del te o p ts))) := by
      intro x hx t k m hm
      obtain ⟨x0, hx0, rfl⟩ := List.mem_map.1 hx
      exact h.wanted x0 hx0 t k m (hfrz_handle x0 t k m hm).1
    have hsnd : ∀ b1 : LSub, b1.snd = b.snd → b1.armed = b.armed → SndRel s.blocked b1 := by
      intro b1 h1 h2
      have := h.snd
      unfold SndRel at this ⊢
      simpa [h1, h2] using this
    by_cases hw : C06Glue.wantsROf rq.1 (regOf te o p) = true
    · simp only [hw, if_true]
      have hins_q : (b0.ins (.regionDel (regOf te o p))).q = b.q ++ [(.regionDel (regOf te o p), 0)] := by
        rw [SubLTS.ins_q, e4, h.bclosed, e3]
        simp [SubLTS.qins, SubLTS.Item.coal]
      exact { alive := h.alive, req := h.req, acl := h.acl, mode := h.mode, regs := h.regs, closed := h.closed,
              status := h.status, pc := by simp [e1, h.pc], reg := by simp [e2, h.reg],
              bclosed := by simp [e4, h.bclosed], bstatus := by simp [e10, h.bstatus],
              walker := by simp [e5, h.walker], gate := by simp [e8, h.gate],
              q := by rw [hins_q]; exact QRel.append hqm ⟨⟨rfl, hte, ho⟩, trivial⟩,
              snd := hsnd _ (by simp [e6]) (by simp [e7]),
              sent := by simpa [e9] using h.sent,
              single := by
                intro hne
                refine ⟨(h.single hne).1, ?_⟩
                intro x hx t ht
                rcases List.mem_append.1 hx with hx | hx
                · exact (hsingle_m hne).2 x hx t ht
                · simp only [List.mem_singleton] at hx
                  subst hx
                  simp only [itemTgt, Option.some.injEq] at ht
                  have hoff' : offeredR (Sub.regQueries rq.1) (.del te o p ts) = true := by
                    rw [← hregs, hoff]; exact hw
                  rcases offered_tOK (regsOK_regQueries rq.1) (e := .del te o p ts) hte hoff' with h1 | h1
                  · exact absurd h1 hne
                  · rw [← ht]; exact h1,
              nca := by
                rw [List.pairwise_append]
                refine ⟨hnca_m, List.pairwise_singleton _ _, ?_⟩
                intro x hx y hy t k m e' hxe hye
                simp only [List.mem_singleton] at hy
                subst hy
                obtain ⟨x0, _, rfl⟩ := List.mem_map.1 hx
                cases hye
                exact (hfrz_handle x0 t k m hxe).2,
              wanted := by
                intro x hx t k m hm
                rcases List.mem_append.1 hx with hx | hx
                · exact hwanted_m x hx t k m hm
                · simp only [List.mem_singleton] at hx
                  subst hx
                  cases hm }
    · simp only [hw, Bool.false_eq_true, if_false]
      exact { alive := h.alive, req := h.req, acl := h.acl, mode := h.mode, regs := h.regs, closed := h.closed,
              status := h.status, pc := by rw [e1]; exact h.pc, reg := by rw [e2]; exact h.reg,
              bclosed := by rw [e4]; exact h.bclosed, bstatus := by rw [e10]; exact h.bstatus,
              walker := by rw [e5]; exact h.walker, gate := by rw [e8]; exact h.gate,
              q := by rw [e3]; exact hqm,
              snd := hsnd _ e6 e7,
              sent := by rw [e9]; exact h.sent,
              single := hsingle_m, nca := hnca_m, wanted := hwanted_m }

/-! ### clients that are not registered: ended RPCs, and RPCs not yet started -/

/-- an LTS client whose RPC has not started -/
structure Fresh (b : LSub) : Prop where
  pc : b.pc = .h0
  reg : b.registered = false
  q : b.q = []
  closed : b.closed = false
  walker : b.walker = .idle
  snd : b.snd = .off
  armed : b.armed = false
  blocked : b.blocked = false
  sent : b.sent = []
  status : b.status = none

theorem onShared_unreg (sys : LSys) (rq : LReq) (b : LSub) (l : ShL) (hr : b.registered = false) :
    (b.onShared sys rq l).pc = b.pc ∧ (b.onShared sys rq l).registered = b.registered ∧
    (b.onShared sys rq l).q = b.q ∧ (b.onShared sys rq l).closed = b.closed ∧
    (b.onShared sys rq l).snd = b.snd ∧ (b.onShared sys rq l).armed = b.armed ∧
    (b.onShared sys rq l).blocked = b.blocked ∧ (b.onShared sys rq l).sent = b.sent ∧
    (b.onShared sys rq l).status = b.status ∧ (b.walker = .idle → (b.onShared sys rq l).walker = .idle) := by
  cases l with
  | w2 u => cases u <;> simp [SubLTS.Sub.onShared, hr]
  | w1Del ks =>
    refine ⟨rfl, rfl, rfl, rfl, rfl, rfl, rfl, rfl, rfl, ?_⟩
    intro hw; simp [SubLTS.Sub.onShared, hw, SubLTS.Walker.filter]
  | w1Reg r =>
    refine ⟨rfl, rfl, rfl, rfl, rfl, rfl, rfl, rfl, rfl, ?_⟩
    intro hw; simp [SubLTS.Sub.onShared, hw, SubLTS.Walker.filter]
  | _ => exact ⟨rfl, rfl, rfl, rfl, rfl, rfl, rfl, rfl, rfl, fun h => h⟩

theorem subShared_unreg (sys : LSys) (rq : LReq) : ∀ (ls : List ShL) (b : LSub), b.registered = false →
    (subShared sys rq b ls).pc = b.pc ∧ (subShared sys rq b ls).registered = b.registered ∧
    (subShared sys rq b ls).q = b.q ∧ (subShared sys rq b ls).closed = b.closed ∧
    (subShared sys rq b ls).snd = b.snd ∧ (subShared sys rq b ls).armed = b.armed ∧
    (subShared sys rq b ls).blocked = b.blocked ∧ (subShared sys rq b ls).sent = b.sent ∧
    (subShared sys rq b ls).status = b.status ∧ (b.walker = .idle → (subShared sys rq b ls).walker = .idle)
  | [], b, _ => ⟨rfl, rfl, rfl, rfl, rfl, rfl, rfl, rfl, rfl, fun h => h⟩
  | l :: ls, b, hr => by
    obtain ⟨a1, a2, a3, a4, a5, a6, a7, a8, a9, a10⟩ := onShared_unreg sys rq b l hr
    obtain ⟨b1, b2, b3, b4, b5, b6, b7, b8, b9, b10⟩ :=
      subShared_unreg sys rq ls (b.onShared sys rq l) (by rw [a2]; exact hr)
    show (subShared sys rq (b.onShared sys rq l) ls).pc = _ ∧ _
    exact ⟨b1.trans a1, b2.trans a2, b3.trans a3, b4.trans a4, b5.trans a5, b6.trans a6, b7.trans a7,
      b8.trans a8, b9.trans a9, fun h => b10 (a10 h)⟩

theorem fresh_shared (sys : LSys) (rq : LReq) (ls : List ShL) {b : LSub} (h : Fresh b) :
    Fresh (subShared sys rq b ls) := by
  obtain ⟨b1, b2, b3, b4, b5, b6, b7, b8, b9, b10⟩ := subShared_unreg sys rq ls b h.reg
  exact ⟨b1.trans h.pc, b2.trans h.reg, b3.trans h.q, b4.trans h.closed, b10 h.walker, b5.trans h.snd,
    b6.trans h.armed, b7.trans h.blocked, b8.trans h.sent, b9.trans h.status⟩

theorem dead_shared (sys : LSys) (rq : LReq) (ls : List ShL) {rq' : Sub.Req × Sub.Acl} {s : Sub.Subscriber}
    {b : LSub} (h : DeadRel rq' s b) : DeadRel rq' s (subShared sys rq b ls) := by
  obtain ⟨b1, b2, b3, b4, b5, b6, b7, b8, b9, _⟩ := subShared_unreg sys rq ls b h.reg
  exact { alive := h.alive, acl := h.acl, blocked := h.blocked, pc := b1.trans h.pc, snd := b5.trans h.snd,
          reg := b2.trans h.reg, bclosed := b4.trans h.bclosed, armed := b6.trans h.armed,
          status := by rw [b9]; exact h.status, sent := by rw [b8]; exact h.sent }

/-- a dead SEQ subscriber only has its queue touched by `feed` -/
theorem feedSub_dead_eq (c' : Cache.State) (evs : List Event) (s : Sub.Subscriber) (h : s.alive = false) :
    ∃ Q, feedSub c' evs s = { s with queue := Q } := by
  have hfold : ∀ (evs : List Event) (s : Sub.Subscriber), s.alive = false →
      ∃ Q, evs.foldl (fun s e => Sub.enqueueEvent { s with queue := Sub.freezeCovered e s.queue } e) s =
        { s with queue := Q } := by
    intro evs
    induction evs with
    | nil => intro s _; exact ⟨s.queue, rfl⟩
    | cons e evs ih =>
      intro s hs
      simp only [List.foldl_cons]
      have : Sub.enqueueEvent { s with queue := Sub.freezeCovered e s.queue } e =
          { s with queue := Sub.freezeCovered e s.queue } := by
        simp [Sub.enqueueEvent, hs]
      rw [this]
      obtain ⟨Q, hQ⟩ := ih { s with queue := Sub.freezeCovered e s.queue } hs
      exact ⟨Q, hQ⟩
  obtain ⟨Q, hQ⟩ := hfold evs s h
  refine ⟨Sub.refreshQueue c' Q, ?_⟩
  unfold feedSub
  simp only [hQ]
  exact SubGate.pumpAll_dead _ h

theorem DeadRel.queue {rq : Sub.Req × Sub.Acl} {s : Sub.Subscriber} {b : LSub} (h : DeadRel rq s b)
    (Q : List (Sub.Item × Nat)) : DeadRel rq { s with queue := Q } b :=
  { alive := h.alive, acl := h.acl, blocked := h.blocked, pc := h.pc, snd := h.snd, reg := h.reg,
    bclosed := h.bclosed, armed := h.armed, status := h.status, sent := h.sent }

/-! ### `refreshQueue` re-reads nothing new when every write was announced -/

theorem refreshQueue_id (c : Cache.State) : ∀ (q : List (Sub.Item × Nat)),
    (∀ x ∈ q, ∀ t k n, x.1 = .handle t k n → lookup (treesOf c t) k = some n) → Sub.refreshQueue c q = q
  | [], _ => rfl
  | (it, d) :: rest, h => by
    have ih := refreshQueue_id c rest (fun x hx => h x (List.mem_cons_of_mem _ hx))
    cases it with
    | handle t k last =>
      have hl := h (Sub.Item.handle t k last, d) (List.mem_cons_self ..) t k last rfl
      rw [lookup_treesOf] at hl
      simp only [Sub.refreshQueue, ih, hl]
      split <;> rfl
    | detached t k m => simp only [Sub.refreshQueue, ih]
    | note e => simp only [Sub.refreshQueue, ih]
    | sync => simp only [Sub.refreshQueue, ih]

/-- the attached handles of a related queue hold what the views hold -/
theorem handles_fresh {V : Views} {H : String → Bool} {sh : LShared} (hv : VRel V H sh)
    {q : List (Sub.Item × Nat)} {lq : List (LItem × Nat)} (hq : QRel sh q lq) :
    ∀ x ∈ q, ∀ t k n, x.1 = .handle t k n → lookup (V t) k = some n := by
  intro x hx t k n hn
  obtain ⟨y, _, hr⟩ := hq.exists_right x hx
  rw [hn] at hr
  obtain ⟨yi, yd⟩ := y
  cases yi with
  | handle k' g =>
    obtain ⟨rfl, rfl, hp, hval, _⟩ := hr
    have := hv.pres t k
    rw [hp] at this
    cases hl : lookup (V t) k with
    | none => rw [hl] at this; cases this
    | some m =>
      have := hv.val t k m hl
      rw [hval] at this
      rw [this]
  | _ => exact hr.elim

/-! ## the whole state -/

/-- every SEQ subscriber is related to the LTS client of its index; later clients have not started -/
structure SubsRel (reqs : Nat → Sub.Req × Sub.Acl) (sh : LShared) (subs : List Sub.Subscriber)
    (ls : Nat → LSub) : Prop where
  rel : ∀ i s, subs[i]? = some s → SRel sh (reqs i) s (ls i)
  fresh : ∀ i, subs.length ≤ i → Fresh (ls i)

/-- **The simulation relation** between a state of the sequential model and a configuration of
the LTS instance `C06Glue.subSys reqs`. -/
structure StRel (reqs : Nat → Sub.Req × Sub.Acl) (st : Sub.State) (c : LCfg) : Prop where
  vrel : VRel (treesOf st.cache) (fun t => (st.cache.get t).isSome) c.sh
  ok : CacheOK st.cache
  subs : SubsRel reqs c.sh st.subs c.subs

/-- the events of one cache call, each good for the views that applied the ones before it -/
def EvsOK : Views → (String → Bool) → List Event → Prop
  | _, _, [] => True
  | V, H, e :: es => GoodEv V e ∧ PlainEv H e ∧ EvsOK (applyS V e) (evH H e) es

/-- `feed`'s treatment of one event on one subscriber -/
def seqEv (s : Sub.Subscriber) (e : Event) : Sub.Subscriber :=
  Sub.enqueueEvent { s with queue := Sub.freezeCovered e s.queue } e

theorem seqEv_srel (reqs : Nat → Sub.Req × Sub.Acl) {V : Views} {H : String → Bool} {sh : LShared}
    {rq : Sub.Req × Sub.Acl} {s : Sub.Subscriber} {b : LSub} {e : Event}
    (h : SRel sh rq s b) (hv : VRel V H sh) (hg : GoodEv V e) (hp : PlainEv H e) :
    SRel (evShared reqs sh e) rq (seqEv s e) (evSub reqs rq sh e b) := by
  rcases h with h | h
  · left
    unfold seqEv
    rw [enqueue_one s e h.alive h.closed]
    exact ev_live reqs h hv hg hp
  · right
    have : seqEv s e = { s with queue := Sub.freezeCovered e s.queue } := by
      simp [seqEv, Sub.enqueueEvent, h.alive]
    rw [this]
    exact (dead_shared _ _ _ h).queue _

/-- one event, globally: the writer unit `W1; W2` -/
theorem event_sim (reqs : Nat → Sub.Req × Sub.Acl) {V : Views} {H : String → Bool} {c : LCfg}
    {subs : List Sub.Subscriber} {e : Event}
    (hv : VRel V H c.sh) (hs : SubsRel reqs c.sh subs c.subs) (hg : GoodEv V e) (hp : PlainEv H e) :
    ∃ ls c', SubLTS.fireAll (C06Glue.subSys reqs) c ls = some c' ∧
      VRel (applyS V e) (evH H e) c'.sh ∧ SubsRel reqs c'.sh (subs.map (fun s => seqEv s e)) c'.subs := by
  refine ⟨[evL1 c.sh e, .w2 (evUnit c.sh e)].map SubLTS.Label.sh,
    ⟨evShared reqs c.sh e, fun i => evSub reqs (reqs i) c.sh e (c.subs i)⟩,
    fireAll_shared _ _ c _ (ev_fire reqs hv hp), ev_vrel reqs hv hg hp, ?_, ?_⟩
  · intro i s hi
    rw [List.getElem?_map] at hi
    cases hsi : subs[i]? with
    | none => rw [hsi] at hi; cases hi
    | some s0 =>
      rw [hsi] at hi
      simp only [Option.map_some, Option.some.injEq] at hi
      subst hi
      exact seqEv_srel reqs (hs.rel i s0 hsi) hv hg hp
  · intro i hi
    rw [List.length_map] at hi
    exact fresh_shared _ _ _ (hs.fresh i hi)

theorem events_sim (reqs : Nat → Sub.Req × Sub.Acl) : ∀ (evs : List Event) (V : Views) (H : String → Bool)
    (c : LCfg) (subs : List Sub.Subscriber),
    VRel V H c.sh → SubsRel reqs c.sh subs c.subs → EvsOK V H evs →
    ∃ ls c', SubLTS.fireAll (C06Glue.subSys reqs) c ls = some c' ∧
      VRel (applySs V evs) (evs.foldl evH H) c'.sh ∧
      SubsRel reqs c'.sh (subs.map (fun s => evs.foldl seqEv s)) c'.subs
  | [], V, H, c, subs, hv, hs, _ => ⟨[], c, rfl, hv, by simpa using hs⟩
  | e :: evs, V, H, c, subs, hv, hs, hok => by
    obtain ⟨ls1, c1, hf1, hv1, hs1⟩ := event_sim reqs hv hs hok.1 hok.2.1
    obtain ⟨ls2, c2, hf2, hv2, hs2⟩ := events_sim reqs evs _ _ c1 _ hv1 hs1 hok.2.2
    refine ⟨ls1 ++ ls2, c2, fireAll_append hf1 hf2, hv2, ?_⟩
    rw [List.map_map] at hs2
    exact hs2

/-- the local runs of every started client, one after the other -/
theorem subs_local (reqs : Nat → Sub.Req × Sub.Acl) {c : LCfg} {subs : List Sub.Subscriber}
    (hs : SubsRel reqs c.sh subs c.subs) (f : Sub.Subscriber → Sub.Subscriber)
    (hf : ∀ i s, subs[i]? = some s → ∃ ls b', runSub (C06Glue.subSys reqs) (ltsOf (reqs i)) c.sh (c.subs i) ls = some b' ∧
      SRel c.sh (reqs i) (f s) b') :
    ∃ ls c', SubLTS.fireAll (C06Glue.subSys reqs) c ls = some c' ∧ c'.sh = c.sh ∧
      SubsRel reqs c'.sh (subs.map f) c'.subs := by
  obtain ⟨ls, c', hfire, hsh, hP, hrest⟩ := local_all (C06Glue.subSys reqs)
    (fun i b' => ∀ s, subs[i]? = some s → SRel c.sh (reqs i) (f s) b') subs.length c (by
      intro i hi
      have hsi : subs[i]? = some subs[i] := List.getElem?_eq_getElem hi
      obtain ⟨ls, b', hr, hrel⟩ := hf i _ hsi
      refine ⟨ls, b', hr, ?_⟩
      intro s hs'
      rw [hsi] at hs'
      cases hs'
      exact hrel)
  refine ⟨ls, c', hfire, hsh, ?_, ?_⟩
  · intro i s hi
    rw [List.getElem?_map] at hi
    cases hsi : subs[i]? with
    | none => rw [hsi] at hi; cases hi
    | some s0 =>
      rw [hsi] at hi
      simp only [Option.map_some, Option.some.injEq] at hi
      subst hi
      rw [hsh]
      have hlt : i < subs.length := by
        rcases Nat.lt_or_ge i subs.length with h | h
        · exact h
        · rw [List.getElem?_eq_none h] at hsi; cases hsi
      exact hP i hlt s0 hsi
  · intro i hi
    rw [List.length_map] at hi
    rw [hrest i hi]
    exact hs.fresh i hi

/-- **A cache call feeding events** (`Sub.feed`): the writer units of its events, then the sender
run of every subscriber. -/
theorem feed_sim (reqs : Nat → Sub.Req × Sub.Acl) {st : Sub.State} {c : LCfg} (h : StRel reqs st c)
    (c' : Cache.State) (evs : List Event)
    (hev : EvsOK (treesOf st.cache) (fun t => (st.cache.get t).isSome) evs)
    (hcont : ∀ t k, lookup (treesOf c' t) k = lookup (applySs (treesOf st.cache) evs t) k)
    (hT : ∀ t, (c'.get t).isSome = evs.foldl evH (fun t => (st.cache.get t).isSome) t)
    (hok : CacheOK c') :
    ∃ ls c2, SubLTS.fireAll (C06Glue.subSys reqs) c ls = some c2 ∧
      StRel reqs (Sub.feed { st with cache := c' } evs) c2 := by
  obtain ⟨ls1, c1, hf1, hv1, hs1⟩ := events_sim reqs evs _ _ c st.subs h.vrel h.subs hev
  have hv' : VRel (treesOf c') (fun t => (c'.get t).isSome) c1.sh :=
    { pres := fun t k => by rw [hcont]; exact hv1.pres t k
      val := fun t k n hn => hv1.val t k n (by rw [← hcont]; exact hn)
      hasT := fun t => by rw [hT]; exact hv1.hasT t
      pend := hv1.pend
      keys := hv1.keys
      plain := fun t k n hn => hv1.plain t k n (by rw [← hcont]; exact hn)
      quiet := hv1.quiet }
  obtain ⟨ls2, c2, hf2, hsh2, hs2⟩ := subs_local reqs hs1
    (fun s => Sub.pumpAll { s with queue := Sub.refreshQueue c' s.queue }) (by
      intro i s hi
      have hrel := hs1.rel i s hi
      have hrel' : SRel c1.sh (reqs i) { s with queue := Sub.refreshQueue c' s.queue } (c1.subs i) := by
        rcases hrel with hl | hd
        · have : Sub.refreshQueue c' s.queue = s.queue :=
            refreshQueue_id c' s.queue (handles_fresh hv' hl.q)
          rw [this]; exact Or.inl hl
        · exact Or.inr (hd.queue _)
      exact pumpAll_sim reqs hrel')
  refine ⟨ls1 ++ ls2, c2, fireAll_append hf1 hf2, ?_⟩
  have hfeed : (Sub.feed { st with cache := c' } evs) =
      { cache := c', subs := (st.subs.map (fun s => evs.foldl seqEv s)).map
          (fun s => Sub.pumpAll { s with queue := Sub.refreshQueue c' s.queue }), pregated := st.pregated } := by
    simp only [Sub.feed, List.map_map]
    rfl
  rw [hfeed]
  exact { vrel := by rw [hsh2]; exact hv', ok := hok, subs := hs2 }

/-- an operation addressed to the subscribers with a given id (`Sub.updateSub`) -/
theorem updateSub_sim (reqs : Nat → Sub.Req × Sub.Acl) {st : Sub.State} {c : LCfg} (h : StRel reqs st c)
    (id : String) (f : Sub.Subscriber → Sub.Subscriber)
    (hf : ∀ (rq : Sub.Req × Sub.Acl) (s : Sub.Subscriber) (b : LSub), SRel c.sh rq s b →
      ∃ ls b', runSub (C06Glue.subSys reqs) (ltsOf rq) c.sh b ls = some b' ∧ SRel c.sh rq (f s) b') :
    ∃ ls c', SubLTS.fireAll (C06Glue.subSys reqs) c ls = some c' ∧ StRel reqs (Sub.updateSub st id f) c' := by
  obtain ⟨ls, c', hfire, hsh, hs⟩ := subs_local reqs h.subs (fun s => if s.id = id then f s else s) (by
    intro i s hi
    have hrel := h.subs.rel i s hi
    by_cases hid : s.id = id
    · simp only [hid, if_true]
      exact hf _ s _ hrel
    · simp only [hid, if_false]
      exact ⟨[], _, rfl, hrel⟩)
  exact ⟨ls, c', hfire, { vrel := by rw [hsh]; exact h.vrel, ok := h.ok, subs := hs }⟩

/-! ## `Subscribe`: handler, walker, first sender run -/

section handler
variable {sys : LSys} {rq : LReq} {sh : LShared} {b : LSub}

theorem hs_h0 (hpc : b.pc = .h0) : SubLTS.subFire sys rq sh b .hs =
    some (if rq.aclOk then { b with pc := .h1 } else b.finish .unauthenticated) := by
  simp [SubLTS.subFire, SubLTS.hFire, hpc]

theorem hs_h1 (hpc : b.pc = .h1) : SubLTS.subFire sys rq sh b .hs =
    some (if rq.valid then { b with pc := .h2 } else b.finish .invalid) := by
  simp [SubLTS.subFire, SubLTS.hFire, hpc]

theorem hs_h2 (hpc : b.pc = .h2) : SubLTS.subFire sys rq sh b .hs =
    some (match rq.single with
      | some t => if sh.hasT t then { b with pc := .h3 } else b.finish .notFound
      | none => { b with pc := .h3 }) := by
  cases hsg : rq.single <;> simp [SubLTS.subFire, SubLTS.hFire, hpc, hsg]

theorem hs_h3 (hpc : b.pc = .h3) : SubLTS.subFire sys rq sh b .hs =
    some (match rq.single with
      | some t => if rq.allow t then { b with pc := .h4 } else b.finish .denied
      | none => { b with pc := .h4 }) := by
  cases hsg : rq.single <;> simp [SubLTS.subFire, SubLTS.hFire, hpc, hsg]

theorem hs_h4 (hpc : b.pc = .h4) (hm : rq.mode = .stream) (hsw : sys.swap = false) :
    SubLTS.subFire sys rq sh b .hs =
    some { (if rq.updatesOnly then b.ins .syncMarker else b) with pc := .reg } := by
  simp [SubLTS.subFire, SubLTS.hFire, hpc, hm, hsw]

theorem hs_reg (hpc : b.pc = .reg) (hsw : sys.swap = false) : SubLTS.subFire sys rq sh b .hs =
    some { b with registered := true, pc := .spawn,
                  since := if b.walker = .idle then sh.keys.filter sh.present else b.since } := by
  simp [SubLTS.subFire, SubLTS.hFire, hpc, hsw]

theorem hs_spawn_uo (hpc : b.pc = .spawn) (hm : rq.mode = .stream) (hsw : sys.swap = false)
    (huo : rq.updatesOnly = true) (hreg : b.registered = true) :
    SubLTS.subFire sys rq sh b .hs =
    some { b with walker := .done, snd := .idle, held := SubLTS.heldNow sh, pc := .run } := by
  simp [SubLTS.subFire, SubLTS.hFire, hpc, hm, hsw, huo, hreg]

theorem hs_spawn_walk (hpc : b.pc = .spawn) (hm : rq.mode = .stream) (hsw : sys.swap = false)
    (huo : rq.updatesOnly = false) (hreg : b.registered = true) :
    SubLTS.subFire sys rq sh b .hs =
    some { b with walker := .walking (SubLTS.snapshot sh rq) [], rounds := b.rounds + 1, snd := .idle,
                  held := SubLTS.heldNow sh, pc := .run } := by
  simp [SubLTS.subFire, SubLTS.hFire, hpc, hm, hsw, huo, hreg, SubLTS.Sub.startWalk]

end handler

theorem deadRel_finish {rq : Sub.Req × Sub.Acl} {b : LSub} (hs : b.sent = []) (id : String) (code : Sub.Code) :
    DeadRel rq { id := id, req := {}, acl := rq.2, alive := false, status := some code }
      (b.finish (absCode code)) :=
  { alive := rfl, acl := rfl, blocked := rfl, pc := rfl, snd := rfl, reg := rfl, bclosed := rfl, armed := rfl,
    status := ⟨code, rfl, rfl⟩, sent := by simp [SentRel, SubLTS.Sub.finish, hs] }

/-- what the handler checks, on the SEQ request -/
theorem ltsOf_valid (rq : Sub.Req × Sub.Acl) (hm : rq.1.mode = .stream) :
    (ltsOf rq).valid = (rq.1.hasSubscribe && !rq.1.prefixNil && rq.1.target != "") := by
  simp [ltsOf, C06Glue.ltsReq, hm]

theorem ltsOf_mode (rq : Sub.Req × Sub.Acl) (hm : rq.1.mode = .stream) : (ltsOf rq).mode = .stream := by
  simp [ltsOf, C06Glue.ltsReq, C06Glue.ltsMode, hm]

theorem ltsOf_single (rq : Sub.Req × Sub.Acl) :
    (ltsOf rq).single = if rq.1.target = "*" then none else some rq.1.target := rfl

theorem hasTarget_eq {V : Views} {sh : LShared} {c : Cache.State} (hv : VRel V (fun t => (c.get t).isSome) sh)
    (t : String) (ht : t ≠ "") : c.hasTarget t = (if t = "*" then true else sh.hasT t) := by
  simp only [State.hasTarget, ht, if_false, hv.hasT]

/-- the new subscriber of a rejected call -/
def endedSub (id : String) (acl : Sub.Acl) (code : Sub.Code) : Sub.Subscriber :=
  { id := id, req := {}, acl := acl, alive := false, status := some code }

/-- the four rejections of `Server.Subscribe` before the mode switch -/
theorem subscribe_reject (reqs : Nat → Sub.Req × Sub.Acl) {V : Views} {sh : LShared} {c : Cache.State}
    (hv : VRel V (fun t => (c.get t).isSome) sh) (r : Sub.Req) (acl : Sub.Acl) (hm : r.mode = .stream)
    (id : String) {b : LSub} (hf : Fresh b) (code : Sub.Code)
    (hcase : (code = .unauthenticated ∧ (ltsOf (r, acl)).aclOk = false) ∨
      ((ltsOf (r, acl)).aclOk = true ∧ code = .invalidArgument ∧
        (r.hasSubscribe && !r.prefixNil && r.target != "") = false) ∨
      ((ltsOf (r, acl)).aclOk = true ∧ code = .notFound ∧
        (r.hasSubscribe && !r.prefixNil && r.target != "") = true ∧ c.hasTarget r.target = false) ∨
      ((ltsOf (r, acl)).aclOk = true ∧ code = .permissionDenied ∧
        (r.hasSubscribe && !r.prefixNil && r.target != "") = true ∧ c.hasTarget r.target = true ∧
        r.target ≠ "*" ∧ acl.check r.target = false)) :
    ∃ ls b', runSub (C06Glue.subSys reqs) (ltsOf (r, acl)) sh b ls = some b' ∧
      DeadRel (r, acl) (endedSub id acl code) b' := by
  have hvalid := ltsOf_valid (r, acl) hm
  rcases hcase with ⟨rfl, hacl⟩ | ⟨hacl, rfl, hval⟩ | ⟨hacl, rfl, hval, hnt⟩ | ⟨hacl, rfl, hval, hht, hns, hchk⟩
  · refine ⟨[.hs], b.finish .unauthenticated, ?_, deadRel_finish hf.sent id .unauthenticated⟩
    simp only [runSub, hs_h0 hf.pc, hacl, Bool.false_eq_true, if_false]
  · refine ⟨[.hs, .hs], b.finish .invalid, ?_, deadRel_finish hf.sent id .invalidArgument⟩
    have h1 : SubLTS.subFire (C06Glue.subSys reqs) (ltsOf (r, acl)) sh { b with pc := .h1 } .hs =
        some (b.finish .invalid) := by
      rw [hs_h1 rfl, hvalid, hval]; rfl
    simp only [runSub, hs_h0 hf.pc, hacl, if_true, h1]
  · have htne : r.target ≠ "" := by
      intro e; simp [e] at hval
    have hstar : r.target ≠ "*" := by
      intro e; simp [State.hasTarget, e] at hnt
    have hT : sh.hasT r.target = false := by
      have := hasTarget_eq hv r.target htne
      rw [hnt, if_neg hstar] at this; exact this.symm
    refine ⟨[.hs, .hs, .hs], b.finish .notFound, ?_, deadRel_finish hf.sent id .notFound⟩
    have h1 : SubLTS.subFire (C06Glue.subSys reqs) (ltsOf (r, acl)) sh { b with pc := .h1 } .hs =
        some { b with pc := .h2 } := by
      rw [hs_h1 rfl, hvalid, hval]; rfl
    have h2 : SubLTS.subFire (C06Glue.subSys reqs) (ltsOf (r, acl)) sh { b with pc := .h2 } .hs =
        some (b.finish .notFound) := by
      rw [hs_h2 rfl, ltsOf_single, if_neg hstar]
      simp only [hT, Bool.false_eq_true, if_false]
      rfl
    simp only [runSub, hs_h0 hf.pc, hacl, if_true, h1, h2]
  · have htne : r.target ≠ "" := by
      intro e; simp [e] at hval
    have hT : sh.hasT r.target = true := by
      have := hasTarget_eq hv r.target htne
      rw [hht, if_neg hns] at this; exact this.symm
    refine ⟨[.hs, .hs, .hs, .hs], b.finish .denied, ?_, deadRel_finish hf.sent id .permissionDenied⟩
    have h1 : SubLTS.subFire (C06Glue.subSys reqs) (ltsOf (r, acl)) sh { b with pc := .h1 } .hs =
        some { b with pc := .h2 } := by
      rw [hs_h1 rfl, hvalid, hval]; rfl
    have h2 : SubLTS.subFire (C06Glue.subSys reqs) (ltsOf (r, acl)) sh { b with pc := .h2 } .hs =
        some { b with pc := .h3 } := by
      rw [hs_h2 rfl, ltsOf_single, if_neg hns]
      simp only [hT, if_true]
    have h3 : SubLTS.subFire (C06Glue.subSys reqs) (ltsOf (r, acl)) sh { b with pc := .h3 } .hs =
        some (b.finish .denied) := by
      rw [hs_h3 rfl, ltsOf_single, if_neg hns]
      have : (ltsOf (r, acl)).allow r.target = false := hchk
      simp only [this, Bool.false_eq_true, if_false]
      rfl
    simp only [runSub, hs_h0 hf.pc, hacl, if_true, h1, h2, h3]

/-- the handler of an accepted STREAM call runs to `<-errC`: `h0 … h4`, `addSubscription`, the spawns
(the client's gate set first, as the harness does for a pre-gated stream) -/
theorem handler_accept (reqs : Nat → Sub.Req × Sub.Acl) (sh : LShared) (rq : Sub.Req × Sub.Acl) {b : LSub}
    (hf : Fresh b) (gated : Bool) (hm : rq.1.mode = .stream)
    (hacl : (ltsOf rq).aclOk = true) (hval : (ltsOf rq).valid = true)
    (hT : rq.1.target ≠ "*" → sh.hasT rq.1.target = true ∧ rq.2.check rq.1.target = true) :
    ∃ b7, runSub (C06Glue.subSys reqs) (ltsOf rq) sh b
        ((if gated then SubLTS.SLabel.gateClose else .gateOpen) :: [.hs, .hs, .hs, .hs, .hs, .hs, .hs]) = some b7 ∧
      b7.pc = .run ∧ b7.registered = true ∧ b7.closed = false ∧ b7.snd = .idle ∧ b7.armed = false ∧
      b7.blocked = gated ∧ b7.sent = [] ∧ b7.status = none ∧
      (if rq.1.updatesOnly then b7.q = [(.syncMarker, 0)] ∧ b7.walker = .done
       else b7.q = [] ∧ b7.walker = .walking (SubLTS.snapshot sh (ltsOf rq)) []) := by
  obtain ⟨pc, reg, q, closed, walker, snd, armed, blocked, sent, status, insLog, deliv, held, since, rounds⟩ := b
  obtain ⟨h1, h2, h3, h4, h5, h6, h7, h8, h9, h10⟩ := hf
  simp only at h1 h2 h3 h4 h5 h6 h7 h8 h9 h10
  subst h1 h2 h3 h4 h5 h6 h7 h8 h9 h10
  have hmode := ltsOf_mode rq hm
  have hsw : (C06Glue.subSys reqs).swap = false := rfl
  have hgate : ∀ b : LSub, SubLTS.subFire (C06Glue.subSys reqs) (ltsOf rq) sh b
      (if gated then SubLTS.SLabel.gateClose else .gateOpen) = some { b with blocked := gated } := by
    intro b; cases gated <;> rfl
  have hsingle : ∀ (x y : LSub), (match (ltsOf rq).single with
      | some t => if sh.hasT t then x else y
      | none => x) = x := by
    intro x y
    rw [ltsOf_single]
    by_cases hs : rq.1.target = "*"
    · rw [if_pos hs]
    · rw [if_neg hs]; simp only [(hT hs).1, if_true]
  have hallow : ∀ (x y : LSub), (match (ltsOf rq).single with
      | some t => if (ltsOf rq).allow t then x else y
      | none => x) = x := by
    intro x y
    rw [ltsOf_single]
    by_cases hs : rq.1.target = "*"
    · rw [if_pos hs]
    · rw [if_neg hs]
      have : (ltsOf rq).allow rq.1.target = true := (hT hs).2
      simp only [this, if_true]
  have huo' : (ltsOf rq).updatesOnly = rq.1.updatesOnly := rfl
  cases huo : rq.1.updatesOnly with
  | false =>
    rw [← huo'] at huo
    simp only [runSub, hgate, hs_h0, hacl, if_true, hs_h1, hval, hs_h2, hsingle, hs_h3, hallow,
      hs_h4, hmode, hsw, huo, Bool.false_eq_true, if_false, hs_reg,
      hs_spawn_walk, Option.some.injEq, exists_eq_left']
    simp
  | true =>
    rw [← huo'] at huo
    simp only [runSub, hgate, hs_h0, hacl, if_true, hs_h1, hval, hs_h2, hsingle, hs_h3, hallow,
      hs_h4, hmode, hsw, huo, hs_reg, hs_spawn_uo, Option.some.injEq, exists_eq_left']
    simp [SubLTS.Sub.ins, SubLTS.qins, SubLTS.Item.coal]

/-! ### the walker -/

/-- during the initial walk: the SEQ queue built so far against the LTS client whose walker has
visited `vis` -/
structure WalkRel (sh : LShared) (rq : Sub.Req × Sub.Acl) (gated : Bool) (Q : List (Sub.Item × Nat)) (b : LSub)
    (vis : List K) : Prop where
  walker : ∃ todo, b.walker = .walking todo vis ∧ ∀ x ∈ todo, x ∈ SubLTS.snapshot sh (ltsOf rq) ∧ x ∉ vis
  pc : b.pc = .run
  reg : b.registered = true
  closed : b.closed = false
  status : b.status = none
  snd : b.snd = .idle
  armed : b.armed = false
  blocked : b.blocked = gated
  sent : b.sent = []
  q : QRel sh Q b.q
  handles : ∀ x ∈ Q, ∃ t k m d, x = (Sub.Item.handle t k m, d)
  visq : ∀ t k, (t, k) ∈ vis ↔ Q.any (fun x => Sub.isHandleFor t k x.1) = true
  wanted : Wanted rq.1 Q
  tgt : rq.1.target ≠ glob → ∀ x ∈ Q, ∀ t, itemTgt x.1 = some t → t = rq.1.target

theorem isHandleFor_handle (t k t' k' m) :
    Sub.isHandleFor t k (Sub.Item.handle t' k' m) = (t' == t && k' == k) := rfl

/-- one leaf returned by `Cache.Query` during the walk: `visit`, or nothing if the leaf was already
visited for another path of the same request (SEQ only counts a duplicate) -/
theorem walk_step_sim (reqs : Nat → Sub.Req × Sub.Acl) {V : Views} {H : String → Bool} {sh : LShared}
    (hv : VRel V H sh) {rq : Sub.Req × Sub.Acl} {gated : Bool} {Q : List (Sub.Item × Nat)} {b : LSub} {vis : List K}
    (h : WalkRel sh rq gated Q b vis) (huo : rq.1.updatesOnly = false) (t : String) (k : Path) (n : Noti)
    (hl : lookup (V t) k = some n) (hw : C06Glue.walksOf rq.1 (t, k) = true)
    (hkey : n.target = t ∧ Sub.eventKey n = k) (htg : rq.1.target ≠ glob → t = rq.1.target) :
    ∃ ls b' vis', runSub (C06Glue.subSys reqs) (ltsOf rq) sh b ls = some b' ∧
      WalkRel sh rq gated (Sub.insertHandle Q t k n) b' vis' ∧ (t, k) ∈ vis' ∧ ∀ x ∈ vis, x ∈ vis' := by
  have hpres : sh.present (t, k) = true := by rw [hv.pres, hl]; rfl
  have hval : sh.val (t, k) (sh.gen (t, k)) = n := hv.val t k n hl
  have hat : n.atomic = false := hv.plain t k n hl
  have hwant : C06Glue.wantsOf rq.1 (t, k) = true := C06Glue.walks_wants_derived rq.1 (t, k) hw
  rw [insertHandle_eq _ _ _ _ (noHandleBeforeCover_of_handles h.handles t k)]
  by_cases hany : Q.any (fun x => Sub.isHandleFor t k x.1) = true
  · rw [if_pos hany]
    refine ⟨[], b, vis, rfl, ?_, (h.visq t k).2 hany, fun x hx => hx⟩
    have hkeep : ∀ x : Sub.Item × Nat, ∀ t' k', Sub.isHandleFor t' k'
        (if Sub.isHandleFor t k x.1 then (Sub.Item.handle t k n, x.2 + 1) else x).1 = Sub.isHandleFor t' k' x.1 := by
      intro x t' k'
      by_cases hh : Sub.isHandleFor t k x.1 = true
      · obtain ⟨m, hm⟩ := isHandleFor_elim hh
        rw [if_pos hh, hm]; rfl
      · rw [if_neg hh]
    exact { walker := h.walker, pc := h.pc, reg := h.reg, closed := h.closed, status := h.status, snd := h.snd,
            armed := h.armed, blocked := h.blocked, sent := h.sent,
            q := by
              have := QRel.map2 (sh' := sh) (fun x => if Sub.isHandleFor t k x.1 then
                (Sub.Item.handle t k n, x.2 + 1) else x) id h.q (fun x _ y hy => by
                  by_cases hh : Sub.isHandleFor t k x.1 = true
                  · obtain ⟨m, hm⟩ := isHandleFor_elim hh
                    simp only [hh, if_true, id]
                    rw [hm] at hy
                    obtain ⟨yi, yd⟩ := y
                    cases yi with
                    | handle k' g =>
                      obtain ⟨rfl, rfl, hp, hvv, _, _, _⟩ := hy
                      exact ⟨rfl, rfl, hp, hval, hkey.1, hkey.2, hat⟩
                    | _ => exact hy.elim
                  · simp only [hh, if_false, id]; exact hy)
              simpa using this,
            handles := by
              intro x hx
              obtain ⟨x0, hx0, rfl⟩ := List.mem_map.1 hx
              by_cases hh : Sub.isHandleFor t k x0.1 = true
              · simp only [hh, if_true]; exact ⟨t, k, n, _, rfl⟩
              · simp only [hh, if_false]; exact h.handles x0 hx0,
            visq := by
              intro t' k'
              rw [h.visq t' k', List.any_map]
              have : ((fun x : Sub.Item × Nat => Sub.isHandleFor t' k' x.1) ∘ fun x : Sub.Item × Nat =>
                  if Sub.isHandleFor t k x.1 then (Sub.Item.handle t k n, x.2 + 1) else x) =
                  fun x => Sub.isHandleFor t' k' x.1 := by
                funext x; exact hkeep x t' k'
              rw [this],
            wanted := by
              intro x hx t' k' m hm
              obtain ⟨x0, hx0, rfl⟩ := List.mem_map.1 hx
              by_cases hh : Sub.isHandleFor t k x0.1 = true
              · simp only [hh, if_true, Sub.Item.handle.injEq] at hm
                rw [← hm.1, ← hm.2.1]; exact hwant
              · simp only [hh, if_false] at hm
                exact h.wanted x0 hx0 t' k' m hm,
            tgt := by
              intro hne x hx t' ht'
              obtain ⟨x0, hx0, rfl⟩ := List.mem_map.1 hx
              by_cases hh : Sub.isHandleFor t k x0.1 = true
              · simp only [hh, if_true, itemTgt, Option.some.injEq] at ht'
                rw [← ht']; exact htg hne
              · simp only [hh, if_false] at ht'
                exact h.tgt hne x0 hx0 t' ht' }
  · rw [if_neg hany]
    have hany' : Q.any (fun x => Sub.isHandleFor t k x.1) = false := by simpa using hany
    obtain ⟨todo, hwk, htodo⟩ := h.walker
    have hnvis : (t, k) ∉ vis := fun hm => hany ((h.visq t k).1 hm)
    have hnmem : SubLTS.Item.handle (t, k) (sh.gen (t, k)) ∉ b.q.map (·.1) := by
      intro hm
      obtain ⟨y, hy, hy1⟩ := List.mem_map.1 hm
      obtain ⟨x, hx, hr⟩ := h.q.exists_left y hy
      rw [hy1] at hr
      obtain ⟨t', k', m, d, rfl⟩ := h.handles x hx
      obtain ⟨he, _⟩ := hr
      cases he
      exact hany (List.any_eq_true.2 ⟨_, hx, by simp [Sub.isHandleFor]⟩)
    have hwalks : (ltsOf rq).walks (t, k) = true := hw
    have huo' : (ltsOf rq).updatesOnly = false := huo
    refine ⟨[.visit (t, k)],
      { b.ins (.handle (t, k) (sh.gen (t, k))) with walker := .walking (todo.filter (· ≠ (t, k))) ((t, k) :: vis) },
      (t, k) :: vis, ?_, ?_, List.mem_cons_self .., fun x hx => List.mem_cons_of_mem _ hx⟩
    · have hcnt := SubLTS.count_le_extra_of_not_mem hnvis ((ltsOf rq).extra (t, k))
      simp only [runSub, SubLTS.subFire, hwk]
      rw [if_pos ⟨h.status, huo', hpres, hwalks, hcnt⟩]
    · have hins_q : (b.ins (.handle (t, k) (sh.gen (t, k)))).q = b.q ++ [(.handle (t, k) (sh.gen (t, k)), 0)] := by
        rw [SubLTS.ins_q, h.closed]
        simp only [Bool.false_eq_true, if_false, SubLTS.qins, hnmem, and_false]
      exact { walker := ⟨_, rfl, by
                intro x hx
                obtain ⟨hx1, hx2⟩ := List.mem_filter.1 hx
                have hne : x ≠ (t, k) := by simpa using hx2
                refine ⟨(htodo x hx1).1, ?_⟩
                intro hm
                rcases List.mem_cons.1 hm with e | e
                · exact hne e
                · exact (htodo x hx1).2 e⟩,
              pc := by simp [h.pc], reg := by simp [h.reg], closed := by simp [h.closed],
              status := by simp [h.status], snd := by simp [h.snd], armed := by simp [h.armed],
              blocked := by simp [h.blocked], sent := by simp [h.sent],
              q := by
                show QRel sh _ (b.ins _).q
                rw [hins_q]
                exact QRel.append h.q ⟨⟨rfl, rfl, hpres, hval, hkey.1, hkey.2, hat⟩, trivial⟩,
              handles := by
                intro x hx
                rcases List.mem_append.1 hx with hx | hx
                · exact h.handles x hx
                · simp only [List.mem_singleton] at hx
                  exact ⟨t, k, n, 0, hx⟩,
              visq := by
                intro t' k'
                rw [List.any_append, List.mem_cons, h.visq t' k']
                simp only [List.any_cons, List.any_nil, Bool.or_false, isHandleFor_handle, Bool.or_eq_true,
                  Bool.and_eq_true, beq_iff_eq]
                constructor
                · rintro (e | e)
                  · cases e; exact Or.inr ⟨rfl, rfl⟩
                  · exact Or.inl e
                · rintro (e | ⟨e1, e2⟩)
                  · exact Or.inr e
                  · exact Or.inl (by rw [e1, e2]),
              wanted := by
                intro x hx t' k' m hm
                rcases List.mem_append.1 hx with hx | hx
                · exact h.wanted x hx t' k' m hm
                · simp only [List.mem_singleton] at hx
                  subst hx
                  simp only [Sub.Item.handle.injEq] at hm
                  rw [← hm.1, ← hm.2.1]; exact hwant,
              tgt := by
                intro hne x hx t' ht'
                rcases List.mem_append.1 hx with hx | hx
                · exact h.tgt hne x hx t' ht'
                · simp only [List.mem_singleton] at hx
                  subst hx
                  simp only [itemTgt, Option.some.injEq] at ht'
                  rw [← ht']; exact htg hne }

theorem walk_items_sim (reqs : Nat → Sub.Req × Sub.Acl) {V : Views} {H : String → Bool} {sh : LShared}
    (hv : VRel V H sh) {rq : Sub.Req × Sub.Acl} {gated : Bool} (huo : rq.1.updatesOnly = false) :
    ∀ (items : List (String × Path × Noti)) (Q : List (Sub.Item × Nat)) (b : LSub) (vis : List K),
    (∀ it ∈ items, lookup (V it.1) it.2.1 = some it.2.2 ∧ C06Glue.walksOf rq.1 (it.1, it.2.1) = true ∧
      (it.2.2.target = it.1 ∧ Sub.eventKey it.2.2 = it.2.1) ∧ (rq.1.target ≠ glob → it.1 = rq.1.target)) →
    WalkRel sh rq gated Q b vis →
    ∃ ls b' vis', runSub (C06Glue.subSys reqs) (ltsOf rq) sh b ls = some b' ∧
      WalkRel sh rq gated (items.foldl (fun q it => Sub.insertHandle q it.1 it.2.1 it.2.2) Q) b' vis' ∧
      (∀ it ∈ items, (it.1, it.2.1) ∈ vis') ∧ ∀ x ∈ vis, x ∈ vis'
  | [], Q, b, vis, _, h => ⟨[], b, vis, rfl, h, (by intro _ hx; cases hx), fun x hx => hx⟩
  | it :: items, Q, b, vis, hit, h => by
    obtain ⟨h1, h2, h3, h4⟩ := hit it (List.mem_cons_self ..)
    obtain ⟨ls1, b1, vis1, hr1, hw1, hm1, hs1⟩ := walk_step_sim reqs hv h huo it.1 it.2.1 it.2.2 h1 h2 h3 h4
    obtain ⟨ls2, b2, vis2, hr2, hw2, hm2, hs2⟩ := walk_items_sim reqs hv huo items _ b1 vis1
      (fun x hx => hit x (List.mem_cons_of_mem _ hx)) hw1
    refine ⟨ls1 ++ ls2, b2, vis2, runSub_append hr1 hr2, hw2, ?_, fun x hx => hs2 x (hs1 x hx)⟩
    intro x hx
    rcases List.mem_cons.1 hx with rfl | hx
    · exact hs2 _ hm1
    · exact hm2 x hx

theorem nca_of_no_notes : ∀ (l : List (Sub.Item × Nat)), (∀ y ∈ l, ∀ e, y.1 ≠ Sub.Item.note e) →
    l.Pairwise NoCoverAfter
  | [], _ => List.Pairwise.nil
  | x :: l, h => by
    rw [List.pairwise_cons]
    refine ⟨?_, nca_of_no_notes l (fun y hy => h y (List.mem_cons_of_mem _ hy))⟩
    intro y hy t k n e _ hye
    exact absurd hye (h y (List.mem_cons_of_mem _ hy) e)

/-- the end of the walk: every leaf of the snapshot was visited, `finish` queues the sync marker -/
theorem walk_finish_sim (reqs : Nat → Sub.Req × Sub.Acl) {sh : LShared} {rq : Sub.Req × Sub.Acl} {gated : Bool}
    {Q : List (Sub.Item × Nat)} {b : LSub} {vis : List K} (h : WalkRel sh rq gated Q b vis)
    (hm : rq.1.mode = .stream) (hall : ∀ x ∈ SubLTS.snapshot sh (ltsOf rq), x ∈ vis)
    (hchk : rq.1.target ≠ glob → rq.2.check rq.1.target = true) (id : String) :
    ∃ b', runSub (C06Glue.subSys reqs) (ltsOf rq) sh b [.finish] = some b' ∧
      LiveRel sh rq
        { Sub.newSubscriber gated id rq.1 rq.2 with regs := Sub.regQueries rq.1, queue := Sub.insertSync Q } b' := by
  obtain ⟨todo, hwk, htodo⟩ := h.walker
  have hnil : todo = [] := by
    cases todo with
    | nil => rfl
    | cons x xs =>
      have := htodo x (List.mem_cons_self ..)
      exact absurd (hall x this.1) this.2
  subst hnil
  have hnosync : ∀ x ∈ Q, x.1 ≠ Sub.Item.sync := by
    intro x hx
    obtain ⟨t, k, m, d, rfl⟩ := h.handles x hx
    intro e; cases e
  have hQs : Sub.insertSync Q = Q ++ [(Sub.Item.sync, 0)] := by
    have : Q.any (fun x => x.1 == Sub.Item.sync) = false := by
      rw [List.any_eq_false]
      intro x hx
      simpa using hnosync x hx
    simp only [Sub.insertSync, this, Bool.false_eq_true, if_false]
  have hnmem : SubLTS.Item.syncMarker ∉ b.q.map (·.1) := by
    intro hmm
    obtain ⟨y, hy, hy1⟩ := List.mem_map.1 hmm
    obtain ⟨x, hx, hr⟩ := h.q.exists_left y hy
    rw [hy1] at hr
    obtain ⟨t, k, m, d, rfl⟩ := h.handles x hx
    exact hr.elim
  have hmode : (ltsOf rq).mode = .stream := ltsOf_mode rq hm
  have hins_q : (b.ins .syncMarker).q = b.q ++ [(.syncMarker, 0)] := by
    rw [SubLTS.ins_q, h.closed]
    simp only [Bool.false_eq_true, if_false, SubLTS.qins, hnmem, and_false]
  refine ⟨{ b.ins .syncMarker with walker := .done, closed := (b.ins .syncMarker).closed || decide ((ltsOf rq).mode = .once) }, ?_, ?_⟩
  · simp [runSub, SubLTS.subFire, hwk, h.status]
  · rw [hQs]
    exact { alive := rfl, req := rfl, acl := rfl, mode := hm, regs := rfl, closed := rfl, status := rfl,
            pc := by simp [h.pc], reg := by simp [h.reg], bclosed := by simp [h.closed, hmode],
            bstatus := by simp [h.status], walker := rfl, gate := by simp [h.blocked, Sub.newSubscriber],
            q := by
              show QRel sh _ (b.ins _).q
              rw [hins_q]
              exact QRel.append h.q ⟨trivial, trivial⟩,
            snd := by
              have : (b.ins SubLTS.Item.syncMarker).snd = .idle ∧ (b.ins SubLTS.Item.syncMarker).armed = false := by
                simp [h.snd, h.armed]
              exact this,
            sent := by simp [SentRel, h.sent, Sub.newSubscriber],
            single := by
              intro hne
              refine ⟨hchk hne, ?_⟩
              intro x hx t ht
              rcases List.mem_append.1 hx with hx | hx
              · exact h.tgt hne x hx t ht
              · simp only [List.mem_singleton] at hx
                subst hx
                exact absurd ht (by simp [itemTgt]),
            nca := by
              apply nca_of_no_notes
              intro y hy e
              rcases List.mem_append.1 hy with hy | hy
              · obtain ⟨t, k, m, d, rfl⟩ := h.handles y hy
                intro e'; cases e'
              · simp only [List.mem_singleton] at hy
                subst hy
                exact fun e' => Sub.Item.noConfusion e',
            wanted := by
              intro x hx t k m hmm
              rcases List.mem_append.1 hx with hx | hx
              · exact h.wanted x hx t k m hmm
              · simp only [List.mem_singleton] at hx
                subst hx
                cases hmm }

/-! ### `Sub.subscribe` of a STREAM request, case by case -/

/-- the subscriber an accepted STREAM call creates, before its first sender run -/
def walkedSub (c : Cache.State) (gated : Bool) (id : String) (r : Sub.Req) (acl : Sub.Acl) : Sub.Subscriber :=
  if r.updatesOnly then
    { Sub.newSubscriber gated id r acl with regs := Sub.regQueries r, queue := Sub.insertSync [] }
  else Sub.doWalk c { Sub.newSubscriber gated id r acl with regs := Sub.regQueries r }

/-- the five outcomes of `Sub.subscribe` for a STREAM request -/
def SubCases (st : Sub.State) (id : String) (acl : Sub.Acl) (r : Sub.Req) (sNew : Sub.Subscriber) : Prop :=
  ((ltsOf (r, acl)).aclOk = false ∧ sNew = endedSub id acl .unauthenticated) ∨
  ((ltsOf (r, acl)).aclOk = true ∧ (r.hasSubscribe && !r.prefixNil && r.target != "") = false ∧
     sNew = endedSub id acl .invalidArgument) ∨
  ((ltsOf (r, acl)).aclOk = true ∧ (r.hasSubscribe && !r.prefixNil && r.target != "") = true ∧
     st.cache.hasTarget r.target = false ∧ sNew = endedSub id acl .notFound) ∨
  ((ltsOf (r, acl)).aclOk = true ∧ (r.hasSubscribe && !r.prefixNil && r.target != "") = true ∧
     st.cache.hasTarget r.target = true ∧ r.target ≠ "*" ∧ acl.check r.target = false ∧
     sNew = endedSub id acl .permissionDenied) ∨
  ((ltsOf (r, acl)).aclOk = true ∧ (r.hasSubscribe && !r.prefixNil && r.target != "") = true ∧
     st.cache.hasTarget r.target = true ∧ (r.target ≠ "*" → acl.check r.target = true) ∧
     sNew = Sub.pumpAll (walkedSub st.cache (st.pregated.contains id) id r acl))

theorem subscribe_unfold (st : Sub.State) (id : String) (acl : Sub.Acl) (r : Sub.Req) (hm : r.mode = .stream)
    (hacl : (ltsOf (r, acl)).aclOk = true) :
    Sub.subscribe st id acl (some r) =
      if !r.hasSubscribe then { st with subs := st.subs ++ [endedSub id acl .invalidArgument] }
      else if r.prefixNil then { st with subs := st.subs ++ [endedSub id acl .invalidArgument] }
      else if r.target = "" then { st with subs := st.subs ++ [endedSub id acl .invalidArgument] }
      else if !st.cache.hasTarget r.target then { st with subs := st.subs ++ [endedSub id acl .notFound] }
      else if r.target ≠ "*" ∧ !acl.check r.target then
        { st with subs := st.subs ++ [endedSub id acl .permissionDenied] }
      else { st with subs := st.subs ++ [Sub.pumpAll (walkedSub st.cache (st.pregated.contains id) id r acl)] } := by
  cases acl with
  | fails => cases hacl
  | absent =>
    simp only [Sub.subscribe, hm, endedSub, walkedSub]
    cases huo : r.updatesOnly <;> simp [Sub.newSubscriber]
  | allow ts =>
    simp only [Sub.subscribe, hm, endedSub, walkedSub]
    cases huo : r.updatesOnly <;> simp [Sub.newSubscriber]

theorem subscribe_stream_cases (st : Sub.State) (id : String) (acl : Sub.Acl) (r : Sub.Req) (hm : r.mode = .stream) :
    ∃ sNew, Sub.subscribe st id acl (some r) = { st with subs := st.subs ++ [sNew] } ∧
      SubCases st id acl r sNew := by
  cases hacl : (ltsOf (r, acl)).aclOk with
  | false =>
    refine ⟨endedSub id acl .unauthenticated, ?_, Or.inl ⟨hacl, rfl⟩⟩
    cases acl with
    | fails => simp [Sub.subscribe, endedSub]
    | absent => cases hacl
    | allow ts => cases hacl
  | true =>
    rw [subscribe_unfold st id acl r hm hacl]
    by_cases h1 : r.hasSubscribe = true
    · by_cases h2 : r.prefixNil = true
      · exact ⟨_, by simp [h1, h2], Or.inr (Or.inl ⟨hacl, by simp [h1, h2], rfl⟩)⟩
      · by_cases h3 : r.target = ""
        · exact ⟨_, by simp [h1, h2, h3], Or.inr (Or.inl ⟨hacl, by simp [h3], rfl⟩)⟩
        · have hval : (r.hasSubscribe && !r.prefixNil && r.target != "") = true := by simp [h1, h2, h3]
          by_cases h4 : st.cache.hasTarget r.target = true
          · by_cases h5 : r.target ≠ "*" ∧ acl.check r.target = false
            · exact ⟨_, by simp [h1, h2, h3, h4, h5.1, h5.2],
                Or.inr (Or.inr (Or.inr (Or.inl ⟨hacl, hval, h4, h5.1, h5.2, rfl⟩)))⟩
            · have h5' : r.target ≠ "*" → acl.check r.target = true := by
                intro hne
                cases hc : acl.check r.target with
                | true => rfl
                | false => exact absurd ⟨hne, hc⟩ h5
              have h5'' : ¬ (r.target ≠ "*" ∧ (!acl.check r.target) = true) := by
                intro ⟨a, b⟩; rw [h5' a] at b; cases b
              exact ⟨_, by simp only [h1, h2, h3, h4, h5'', Bool.not_true, Bool.false_eq_true, if_false],
                Or.inr (Or.inr (Or.inr (Or.inr ⟨hacl, hval, h4, h5', rfl⟩)))⟩
          · have h4' : st.cache.hasTarget r.target = false := by simpa using h4
            exact ⟨_, by simp [h1, h2, h3, h4'], Or.inr (Or.inr (Or.inl ⟨hacl, hval, h4', rfl⟩))⟩
    · exact ⟨_, by simp [h1], Or.inr (Or.inl ⟨hacl, by simp [h1], rfl⟩)⟩

theorem walksOf_regs {r : Sub.Req} {t : String} {k : Path} (h : C06Glue.walksOf r (t, k) = true) :
    (Sub.regQueries r).any (fun q => qmatches q (t :: k)) = true := by
  unfold C06Glue.walksOf at h
  simp only [Bool.and_eq_true, Bool.or_eq_true, beq_iff_eq, List.any_eq_true] at h
  obtain ⟨hT, sp, hsp, hq⟩ := h
  cases hcp : Sub.completePath r sp with
  | none => rw [hcp] at hq; cases hq
  | some full =>
    rw [hcp] at hq
    refine List.any_eq_true.2 ⟨r.target :: full, C06Glue.mem_regQueries_of_complete r sp hsp full hcp, ?_⟩
    rw [qmatches_reg]
    exact ⟨hT, hq⟩

/-- an accepted `updates_only` STREAM call: the marker is queued by the handler, nothing is walked -/
theorem accept_uo_rel {sh : LShared} {rq : Sub.Req × Sub.Acl} {gated : Bool} {b7 : LSub} (id : String)
    (hm : rq.1.mode = .stream) (hchk : rq.1.target ≠ glob → rq.2.check rq.1.target = true)
    (h1 : b7.pc = .run) (h2 : b7.registered = true) (h3 : b7.closed = false) (h4 : b7.snd = .idle)
    (h5 : b7.armed = false) (h6 : b7.blocked = gated) (h7 : b7.sent = []) (h8 : b7.status = none)
    (h9 : b7.q = [(.syncMarker, 0)]) (h10 : b7.walker = .done) :
    LiveRel sh rq
      { Sub.newSubscriber gated id rq.1 rq.2 with regs := Sub.regQueries rq.1, queue := Sub.insertSync [] } b7 :=
  { alive := rfl, req := rfl, acl := rfl, mode := hm, regs := rfl, closed := rfl, status := rfl,
    pc := h1, reg := h2, bclosed := h3, bstatus := h8, walker := h10, gate := by rw [h6]; rfl,
    q := by rw [h9]; exact ⟨trivial, trivial⟩,
    snd := ⟨h4, h5⟩,
    sent := by simp [SentRel, h7, Sub.newSubscriber],
    single := by
      intro hne
      refine ⟨hchk hne, ?_⟩
      intro x hx t ht
      simp only [Sub.insertSync, List.any_nil, Bool.false_eq_true, if_false, List.nil_append,
        List.mem_singleton] at hx
      subst hx
      exact absurd ht (by simp [itemTgt]),
    nca := by simp [Sub.insertSync],
    wanted := by
      intro x hx t k m hmm
      simp only [Sub.insertSync, List.any_nil, Bool.false_eq_true, if_false, List.nil_append,
        List.mem_singleton] at hx
      subst hx
      exact Sub.Item.noConfusion hmm }

/-- **`Server.Subscribe` of a STREAM request**: the handler's statements, the walker's visits of the
leaves the SEQ walk collected (in that order), `finish`, and the first sender run. -/
theorem subscribe_sim (reqs : Nat → Sub.Req × Sub.Acl) {st : Sub.State} {c : LCfg} (h : StRel reqs st c)
    (id : String) (acl : Sub.Acl) (r : Sub.Req) (hrq : reqs st.subs.length = (r, acl)) (hm : r.mode = .stream)
    (hpaths : r.updatesOnly = false → ∀ sp ∈ r.subs, (Sub.completePath r sp).isSome = true) :
    ∃ ls c', SubLTS.fireAll (C06Glue.subSys reqs) c ls = some c' ∧
      StRel reqs (Sub.subscribe st id acl (some r)) c' := by
  obtain ⟨sNew, hsub, hcases⟩ := subscribe_stream_cases st id acl r hm
  have hf : Fresh (c.subs st.subs.length) := h.subs.fresh _ (Nat.le_refl _)
  -- the local run of the new client
  have hlocal : ∃ ls b', runSub (C06Glue.subSys reqs) (ltsOf (r, acl)) c.sh (c.subs st.subs.length) ls = some b' ∧
      SRel c.sh (r, acl) sNew b' := by
    rcases hcases with ⟨ha, rfl⟩ | ⟨ha, hv, rfl⟩ | ⟨ha, hv, hnt, rfl⟩ | ⟨ha, hv, hht, hns, hchk, rfl⟩ |
      ⟨ha, hv, hht, hchk, rfl⟩
    · obtain ⟨ls, b', hr, hd⟩ := subscribe_reject reqs h.vrel r acl hm id hf .unauthenticated (Or.inl ⟨rfl, ha⟩)
      exact ⟨ls, b', hr, Or.inr hd⟩
    · obtain ⟨ls, b', hr, hd⟩ := subscribe_reject reqs h.vrel r acl hm id hf .invalidArgument
        (Or.inr (Or.inl ⟨ha, rfl, hv⟩))
      exact ⟨ls, b', hr, Or.inr hd⟩
    · obtain ⟨ls, b', hr, hd⟩ := subscribe_reject reqs h.vrel r acl hm id hf .notFound
        (Or.inr (Or.inr (Or.inl ⟨ha, rfl, hv, hnt⟩)))
      exact ⟨ls, b', hr, Or.inr hd⟩
    · obtain ⟨ls, b', hr, hd⟩ := subscribe_reject reqs h.vrel r acl hm id hf .permissionDenied
        (Or.inr (Or.inr (Or.inr ⟨ha, rfl, hv, hht, hns, hchk⟩)))
      exact ⟨ls, b', hr, Or.inr hd⟩
    · -- accepted
      have htne : r.target ≠ "" := by intro e; simp [e] at hv
      have hT : (r, acl).1.target ≠ "*" → c.sh.hasT (r, acl).1.target = true ∧ (r, acl).2.check (r, acl).1.target = true := by
        intro hns
        have := hasTarget_eq h.vrel r.target htne
        rw [hht, if_neg hns] at this
        exact ⟨this.symm, hchk hns⟩
      have hval : (ltsOf (r, acl)).valid = true := by rw [ltsOf_valid (r, acl) hm]; exact hv
      obtain ⟨b7, hr7, p1, p2, p3, p4, p5, p6, p7, p8, p9⟩ :=
        handler_accept reqs c.sh (r, acl) hf (st.pregated.contains id) hm ha hval hT
      have hchk' : (r, acl).1.target ≠ glob → (r, acl).2.check (r, acl).1.target = true := hchk
      cases huo : r.updatesOnly with
      | true =>
        have huo' : (r, acl).1.updatesOnly = true := huo
        rw [huo'] at p9
        simp only [if_true] at p9
        have hlive := accept_uo_rel (sh := c.sh) (rq := (r, acl)) (gated := st.pregated.contains id) id hm hchk'
          p1 p2 p3 p4 p5 p6 p7 p8 p9.1 p9.2
        have hw : walkedSub st.cache (st.pregated.contains id) id r acl =
            { Sub.newSubscriber (st.pregated.contains id) id r acl with
              regs := Sub.regQueries r, queue := Sub.insertSync [] } := by
          simp [walkedSub, huo]
        rw [hw]
        obtain ⟨ls2, b8, hr8, hrel8⟩ := pumpAll_sim reqs (Or.inl hlive)
        exact ⟨_, b8, runSub_append hr7 hr8, hrel8⟩
      | false =>
        have huo' : (r, acl).1.updatesOnly = false := huo
        rw [huo'] at p9
        simp only [Bool.false_eq_true, if_false] at p9
        have hsome := walkItems_isSome st.cache r (hpaths huo)
        cases hwi : Sub.walkItems st.cache r with
        | none => rw [hwi] at hsome; cases hsome
        | some items =>
          have hex : r.target = glob ∨ (st.cache.get r.target).isSome = true := by
            by_cases hs : r.target = "*"
            · exact Or.inl hs
            · right
              simpa [State.hasTarget, htne, hs] using hht
          have hiff := fun t k m => items_iff h.ok htne hex huo hwi t k m
          have hw : walkedSub st.cache (st.pregated.contains id) id r acl =
              { Sub.newSubscriber (st.pregated.contains id) id r acl with
                regs := Sub.regQueries r,
                queue := Sub.insertSync (items.foldl (fun q it => Sub.insertHandle q it.1 it.2.1 it.2.2) []) } := by
            simp [walkedSub, huo, Sub.doWalk, hwi, Sub.newSubscriber]
          rw [hw]
          have hW0 : WalkRel c.sh (r, acl) (st.pregated.contains id) [] b7 [] :=
            { walker := ⟨_, p9.2, fun x hx => ⟨hx, by simp⟩⟩, pc := p1, reg := p2, closed := p3, status := p8,
              snd := p4, armed := p5, blocked := p6, sent := p7, q := by rw [p9.1]; trivial,
              handles := (by intro x hx; cases hx),
              visq := (by intro t k; simp),
              wanted := (by intro x hx; cases hx),
              tgt := (by intro _ x hx; cases hx) }
          obtain ⟨ls2, b8, vis, hr8, hW8, hvis, _⟩ := walk_items_sim reqs h.vrel (rq := (r, acl)) huo' items [] b7 []
            (by
              intro it hit
              obtain ⟨t, k, m⟩ := it
              have hl := ((hiff t k m).1 hit).1
              have hk := h.ok.hkey t k m hl
              rw [respKey_eq] at hk
              simp only [List.cons.injEq] at hk
              obtain ⟨_, _, _, _, _, hTT, _⟩ := MatchSub.walked_spec hwi hit
              refine ⟨hl, C06Glue.walksOf_of_walked hwi hit, ⟨hk.1, hk.2⟩, ?_⟩
              intro hne
              rcases hTT with e | e
              · exact absurd e hne
              · exact e.symm) hW0
          have hall : ∀ x ∈ SubLTS.snapshot c.sh (ltsOf (r, acl)), x ∈ vis := by
            intro x hx
            obtain ⟨t, k⟩ := x
            simp only [SubLTS.snapshot, List.mem_filter, Bool.and_eq_true] at hx
            obtain ⟨_, hp, hwk⟩ := hx
            have hwk' : C06Glue.walksOf r (t, k) = true := hwk
            rw [h.vrel.pres] at hp
            cases hl : lookup (treesOf st.cache t) k with
            | none => rw [hl] at hp; cases hp
            | some m =>
              have := (hiff t k m).2 ⟨hl, walksOf_regs hwk'⟩
              exact hvis _ this
          obtain ⟨b9, hr9, hlive⟩ := walk_finish_sim reqs hW8 hm hall hchk' id
          obtain ⟨ls3, b10, hr10, hrel10⟩ := pumpAll_sim reqs (Or.inl hlive)
          exact ⟨_, b10, runSub_append hr7 (runSub_append hr8 (runSub_append hr9 hr10)), hrel10⟩
  obtain ⟨ls, b', hr, hrel⟩ := hlocal
  have hreq : (C06Glue.subSys reqs).req st.subs.length = ltsOf (r, acl) := by
    show ltsOf (reqs st.subs.length) = _
    rw [hrq]
  refine ⟨ls.map (fun l => SubLTS.Label.sub st.subs.length l), ⟨c.sh, SubLTS.setFn c.subs st.subs.length b'⟩,
    fireAll_local _ _ ls c b' (by rw [hreq]; exact hr), ?_⟩
  rw [hsub]
  refine { vrel := h.vrel, ok := h.ok, subs := ⟨?_, ?_⟩ }
  · intro i s hi
    show SRel c.sh (reqs i) s (SubLTS.setFn c.subs st.subs.length b' i)
    by_cases hlt : i < st.subs.length
    · rw [List.getElem?_append_left hlt] at hi
      rw [SubLTS.setFn_other _ _ (Nat.ne_of_lt hlt)]
      exact h.subs.rel i s hi
    · have hge : st.subs.length ≤ i := Nat.le_of_not_lt hlt
      rw [List.getElem?_append_right hge] at hi
      have hi0 : i - st.subs.length = 0 := by
        cases hd : i - st.subs.length with
        | zero => rfl
        | succ d => rw [hd] at hi; simp at hi
      have hieq : i = st.subs.length := by omega
      subst hieq
      rw [hi0] at hi
      simp only [List.getElem?_cons_zero, Option.some.injEq] at hi
      subst hi
      rw [SubLTS.setFn_same, hrq]
      exact hrel
  · intro i hi
    simp only [List.length_append, List.length_cons, List.length_nil] at hi
    show Fresh (SubLTS.setFn c.subs st.subs.length b' i)
    rw [SubLTS.setFn_other _ _ (by omega)]
    exact h.subs.fresh i (by omega)

/-! ## cache API calls of the cache model as explained transitions -/

/-- what the LTS can mirror of a feed event: a plain (non-atomic) leaf; a delete whose origin is
not the wildcard -/
def EvPlain : Event → Prop
  | .upd n => n.atomic = false
  | .del _ o _ _ => o ≠ glob

theorem evH_noTD (H : String → Bool) {e : Event} (h : isTDev e = false) : evH H e = H := by
  cases e with
  | upd n => rfl
  | del t o p ts =>
    simp only [isTDev] at h
    have : ¬ (o = "" ∧ p = [glob]) := by
      intro ⟨h1, h2⟩; subst h1 h2; simp at h
    simp only [evH, this, if_false]

theorem evsOK_of_noTD : ∀ (evs : List Event) (V : Views) (H : String → Bool), GoodTr V evs → NoTD evs →
    (∀ e ∈ evs, EvPlain e) → (∀ n, Event.upd n ∈ evs → H n.target = true) →
    EvsOK V H evs ∧ evs.foldl evH H = H
  | [], _, _, _, _, _, _ => ⟨trivial, rfl⟩
  | e :: evs, V, H, hg, hn, hp, ht => by
    have he : evH H e = H := evH_noTD H (hn e (List.mem_cons_self ..))
    obtain ⟨ih1, ih2⟩ := evsOK_of_noTD evs (applyS V e) H hg.2 (fun x hx => hn x (List.mem_cons_of_mem _ hx))
      (fun x hx => hp x (List.mem_cons_of_mem _ hx)) (fun n hx => ht n (List.mem_cons_of_mem _ hx))
    refine ⟨⟨hg.1, ?_, by rw [he]; exact ih1⟩, by rw [List.foldl_cons, he]; exact ih2⟩
    have := hp e (List.mem_cons_self ..)
    cases e with
    | upd n => exact ⟨this, ht n (List.mem_cons_self ..)⟩
    | del t o p ts => exact this

theorem sim_eq {cfg : Cfg} (he : cfg.eventDriven = false) {a b : Option Noti} (h : Sim cfg a b) : a = b := by
  cases a <;> cases b
  · rfl
  · exact h.elim
  · exact h.elim
  · rcases h with rfl | ⟨h1, _⟩
    · rfl
    · rw [he] at h1; cases h1

theorem onTarget_get_isSome (c : State) (nm U : String) (f : Target → Target × List Event) :
    ((c.onTarget nm f).1.get U).isSome = (c.get U).isSome := by
  unfold State.onTarget
  split
  · rfl
  · rename_i t hg
    by_cases h : U = nm
    · subst h; simp only [get_set_same, hg]; rfl
    · rw [get_set_other _ _ _ _ h]

/-- every call but `Add` and `Remove` keeps the set of targets -/
theorem step_get_isSome (enc : String → String) (c : State) (hn : NamesUnique c) (op : Op) (U : String)
    (hna : ∀ name, op ≠ .add name) (hnr : NotRemove op) :
    ((c.step enc op).1.get U).isSome = (c.get U).isSome := by
  cases op with
  | add name => exact absurd rfl (hna name)
  | remove name now => exact hnr.elim
  | reset name now => exact onTarget_get_isSome c name U _
  | sync name now => exact onTarget_get_isSome c name U _
  | connect name now => exact onTarget_get_isSome c name U _
  | connectError name msg now => exact onTarget_get_isSome c name U _
  | update now pn n =>
    simp only [State.step, State.gnmiUpdate]
    split
    · rfl
    · split
      · rfl
      · rename_i t hg
        by_cases h : U = n.target
        · subst h; simp only [get_set_same, hg]; rfl
        · show ((c.set n.target _).get U).isSome = _
          rw [get_set_other _ _ _ _ h]
  | updateMetadata now =>
    show ((c.updateMetadata enc now).1.get U).isSome = _
    rw [Acc.updateMetadata_get enc now c hn U]
    cases c.get U <;> rfl

theorem IRel.congr {sh sh' : LShared} (hp : sh'.present = sh.present) (hg : sh'.gen = sh.gen)
    (hv : sh'.val = sh.val) {it : Sub.Item} {li : LItem} (h : IRel sh it li) : IRel sh' it li := by
  cases it with
  | handle t k n =>
    cases li with
    | handle k' g => simpa only [IRel, hp, hg, hv] using h
    | _ => exact h.elim
  | detached t k n =>
    cases li with
    | handle k' g => simpa only [IRel, hp, hg, hv] using h
    | _ => exact h.elim
  | note e =>
    cases e with
    | upd n' => cases li <;> exact h.elim
    | del t o p ts => cases li <;> first | exact h | exact h.elim
  | sync => cases li <;> first | exact h | exact h.elim

theorem SRel.congr {sh sh' : LShared} (hp : sh'.present = sh.present) (hg : sh'.gen = sh.gen)
    (hv : sh'.val = sh.val) {rq : Sub.Req × Sub.Acl} {s : Sub.Subscriber} {b : LSub} (h : SRel sh rq s b) :
    SRel sh' rq s b := by
  rcases h with h | h
  · left
    exact { alive := h.alive, req := h.req, acl := h.acl, mode := h.mode, regs := h.regs, closed := h.closed,
            status := h.status, pc := h.pc, reg := h.reg, bclosed := h.bclosed, bstatus := h.bstatus,
            walker := h.walker, gate := h.gate, q := h.q.mono (fun x _ y hy => hy.congr hp hg hv), snd := h.snd,
            sent := h.sent, single := h.single, nca := h.nca, wanted := h.wanted }
  · exact Or.inr h

/-- `Cache.Add` of a fresh target: `tAdd` -/
theorem add_sim (reqs : Nat → Sub.Req × Sub.Acl) {st : Sub.State} {c : LCfg} (h : StRel reqs st c) (name : String)
    (hfresh : st.cache.get name = none) (hok : CacheOK (st.cache.add name)) :
    ∃ ls c', SubLTS.fireAll (C06Glue.subSys reqs) c ls = some c' ∧
      StRel reqs { st with cache := st.cache.add name } c' := by
  have htrees : ∀ t, treesOf (st.cache.add name) t = treesOf st.cache t := by
    intro t
    by_cases ht : t = name
    · subst ht
      have : (st.cache.add t).get t = some { name := t } := get_set_same ..
      rw [treesOf_some this, treesOf_none hfresh]
    · have : (st.cache.add name).get t = st.cache.get t := get_set_other _ _ _ _ ht
      unfold treesOf; rw [this]
  refine ⟨[.sh (.tAdd name)],
    ⟨{ c.sh with hasT := SubLTS.setFn c.sh.hasT name true }, fun i => c.subs i⟩, rfl, ?_⟩
  refine { vrel := ?_, ok := hok, subs := ⟨?_, h.subs.fresh⟩ }
  · exact { pres := fun t k => by rw [htrees]; exact h.vrel.pres t k
            val := fun t k n hn => h.vrel.val t k n (by rw [← htrees]; exact hn)
            hasT := fun t => by
              show SubLTS.setFn c.sh.hasT name true t = ((st.cache.add name).get t).isSome
              by_cases ht : t = name
              · subst ht
                have : (st.cache.add t).get t = some { name := t } := get_set_same ..
                rw [SubLTS.setFn_same, this]; rfl
              · have : (st.cache.add name).get t = st.cache.get t := get_set_other _ _ _ _ ht
                rw [SubLTS.setFn_other _ _ ht, this]; exact h.vrel.hasT t
            pend := h.vrel.pend
            keys := h.vrel.keys
            plain := fun t k n hn => h.vrel.plain t k n (by rw [← htrees]; exact hn)
            quiet := h.vrel.quiet }
  · intro i s hi
    exact SRel.congr (sh := c.sh) (sh' := { c.sh with hasT := SubLTS.setFn c.sh.hasT name true }) rfl rfl rfl
      (h.subs.rel i s hi)

/-! ### the events of a cache call name targets the cache holds -/

theorem onTarget_known {c : State} {name : String} {f : Target → Target × List Event}
    (hf : ∀ t, c.get name = some t → ∀ e ∈ (f t).2, evTarget e = name) :
    ∀ e ∈ (c.onTarget name f).2, (c.get (evTarget e)).isSome = true := by
  unfold State.onTarget
  split
  · intro e he; cases he
  · rename_i t hg
    intro e he
    rw [hf t hg e he, hg]; rfl

theorem updateMetadata_known (enc : String → String) (now : Int) (c : State) (hi : SInv c) (hc : CacheOK c) :
    ∀ e ∈ (c.updateMetadata enc now).2, (c.get (evTarget e)).isSome = true := by
  unfold State.updateMetadata
  suffices ∀ (l : List (String × Target)) (acc : State × List Event), (∀ kv ∈ l, kv ∈ c.targets) →
      SInv acc.1 → acc.1.cfg = c.cfg →
      acc.1.get glob = none → SSim (applySs (treesOf c) acc.2) acc.1 →
      (∀ e ∈ acc.2, (c.get (evTarget e)).isSome = true) →
      ∀ e ∈ (l.foldl (fun acc kv =>
        match acc.1.get kv.1 with
        | none => acc
        | some t =>
          let r := t.updateMeta c.cfg enc now true
          (acc.1.set kv.1 r.1, acc.2 ++ r.2)) acc).2, (c.get (evTarget e)).isSome = true from
    this c.targets (c, []) (fun _ h => h) hi rfl hc.noStar hc.ssim (fun e he => by cases he)
  intro l
  induction l with
  | nil => intro acc _ _ _ _ _ h; exact h
  | cons kv l ih =>
    intro acc hmem hinv hcfg hns hss hk
    simp only [List.foldl_cons]
    split
    · exact ih acc (fun x hx => hmem x (List.mem_cons_of_mem _ hx)) hinv hcfg hns hss hk
    · rename_i t hg
      obtain ⟨h1, h2, h3⟩ := hinv kv.1 t hg
      have hne : kv.1 ≠ glob := by
        intro e; rw [e, hns] at hg; cases hg
      have hm := updateMeta_ok c.cfg enc now true t h1 (by rw [h2]; exact h3)
      have hp := updateMeta_tr (cfg := c.cfg) (nm := kv.1) (view := applySs (treesOf c) acc.2 kv.1) enc now t h3 h2
        (by rw [← hcfg]; exact hss.1 kv.1 t hg)
      apply ih
      · exact fun x hx => hmem x (List.mem_cons_of_mem _ hx)
      · exact hinv.set ⟨hm.inv, hm.name.trans h2, h3⟩
      · show (acc.1.set kv.1 _).cfg = c.cfg
        rw [set_cfg]; exact hcfg
      · show (acc.1.set kv.1 _).get glob = none
        rw [get_set_other _ _ _ _ (fun e => hne e.symm)]; exact hns
      · show SSim (applySs (treesOf c) (acc.2 ++ (t.updateMeta c.cfg enc now true).2))
          (acc.1.set kv.1 (t.updateMeta c.cfg enc now true).1)
        rw [← applySs_append]
        exact hss.setTarget (by rw [hcfg]; exact hp.p)
      · intro e he
        rcases List.mem_append.1 he with h | h
        · exact hk e h
        · rw [hp.p.to e h]
          have hkv : kv ∈ c.targets := hmem kv (List.mem_cons_self ..)
          have : (c.targets.find? (fun x => x.1 == kv.1)).isSome = true := by
            rw [List.find?_isSome]
            exact ⟨kv, hkv, by simp⟩
          unfold State.get
          simpa using this

/-- every update event of every cache API call names a target the cache holds -/
theorem step_events_known (enc : String → String) (c : State) (op : Op) (hi : SInv c) (hc : CacheOK c)
    (hv : Feed.Op.ok c op) :
    ∀ n, Event.upd n ∈ (c.step enc op).2.2 → (c.get n.target).isSome = true := by
  have wrap : (∀ e ∈ (c.step enc op).2.2, (c.get (evTarget e)).isSome = true) →
      ∀ n, Event.upd n ∈ (c.step enc op).2.2 → (c.get n.target).isSome = true :=
    fun h n hn => h _ hn
  cases op with
  | add name => intro n hn; cases hn
  | remove name now =>
    intro n hn
    simp only [State.step, State.remove, List.mem_singleton] at hn
    cases hn
  | reset name now =>
    apply wrap
    apply onTarget_known
    intro t hg
    obtain ⟨_, h2, h3⟩ := hi name t hg
    exact (reset_sim enc now t h3 h2 (hc.gt name t hg)).to
  | sync name now =>
    apply wrap
    apply onTarget_known
    intro t hg
    obtain ⟨h1, h2, h3⟩ := hi name t hg
    have hcl := metaNoti_clean enc name "sync" (.bool true) now (by decide)
    exact (gnmiUpdate_psim now t _ h3 h1 h2 rfl hcl (hc.gt name t hg)).2.to
  | connect name now =>
    apply wrap
    apply onTarget_known
    intro t hg
    obtain ⟨h1, h2, h3⟩ := hi name t hg
    have hcl := metaNoti_clean enc name "connected" (.bool true) now (by decide)
    have p1 := (gnmiUpdate_psim (cfg := c.cfg) now t _ h3 h1 h2 rfl hcl (hc.gt name t hg)).2
    obtain ⟨_, a, _, b⟩ := gnmiUpdate_ok c.cfg now t (metaNoti enc name "connected" (.bool true) now) h1 h3
    have hcl2 := deleteNotiOf_clean enc name [metaRoot, "connectError"] now
    have p2 := (gnmiUpdate_psim (cfg := c.cfg) now _ (deleteNotiOf enc name [metaRoot, "connectError"] now) h3 a
      (b.trans h2) rfl hcl2 p1.g).2
    exact (p1.append p2).to
  | connectError name msg now =>
    apply wrap
    apply onTarget_known
    intro t hg
    obtain ⟨h1, h2, h3⟩ := hi name t hg
    have hcl := metaNoti_clean enc name "connectError" (.str msg) now (by decide)
    exact (gnmiUpdate_psim now t _ h3 h1 h2 rfl hcl (hc.gt name t hg)).2.to
  | update now pn n =>
    apply wrap
    simp only [State.step, State.gnmiUpdate]
    split
    · intro e he; cases he
    · split
      · intro e he; cases he
      · rename_i t hg
        obtain ⟨h1, h2, h3⟩ := hi n.target t hg
        intro e he
        rw [(gnmiUpdate_psim now t n h3 h1 h2 rfl hv (hc.gt _ t hg)).2.to e he, hg]; rfl
  | updateMetadata now => exact wrap (updateMetadata_known enc now c hi hc)

end Refine
end Gnmi
