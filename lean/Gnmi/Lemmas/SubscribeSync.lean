import Gnmi.Lemmas.SubscribeBasic
/-!
# Exactly one sync per STREAM subscription: the counting invariant
-/
namespace Gnmi
namespace SubLTS
set_option linter.unusedSimpArgs false
set_option linter.unusedSectionVars false
set_option linter.unnecessarySimpa false

section
variable {K V T R : Type} [DecidableEq K] [DecidableEq R]

def Resp.isSync : Resp K V R → Bool
  | .sync => true
  | _ => false

/-- number of sync responses in a response sequence -/
def nSync (l : List (Resp K V R)) : Nat := l.countP Resp.isSync

theorem nSync_snoc (l : List (Resp K V R)) (r : Resp K V R) :
    nSync (l ++ [r]) = nSync l + (if r.isSync then 1 else 0) := by
  simp [nSync, List.countP_append, List.countP_cons]

/-- sync markers the sender holds between `Next` and the end of `Send` -/
def sndSyncs : Snd K V R → Nat
  | .got .syncMarker _ => 1
  | .sendSync => 1
  | _ => 0

/-- the marker of the initial snapshot has not been inserted yet -/
def syncDue (rq : Req K T R) (b : Sub K V R) : Nat :=
  if rq.updatesOnly then
    (match b.pc with
      | .h0 | .h1 | .h2 | .h3 | .h4 => 1
      | _ => 0)
  else (if b.walker = .done then 0 else 1)

def syncTotal (rq : Req K T R) (b : Sub K V R) : Nat :=
  nSync b.sent + sndSyncs b.snd + b.items.count .syncMarker + syncDue rq b

structure OneSync (rq : Req K T R) (b : Sub K V R) : Prop where
  le : syncTotal rq b ≤ 1
  eq : b.status = none → syncTotal rq b = 1
  sending_ne : ∀ r, b.snd = .sending r → r ≠ .sync

theorem count_sync_ins_ne (b : Sub K V R) {i : Item K R} (h : i ≠ .syncMarker) :
    (b.ins i).items.count .syncMarker = b.items.count .syncMarker := by
  rcases ins_items b i with e | ⟨e, _, _⟩
  · rw [e]
  · rw [e, List.count_append, List.count_singleton]
    have : (i == Item.syncMarker) = false := by simpa using h
    simp [this]

theorem count_sync_ins_sync (b : Sub K V R) (hc : b.closed = false)
    (h : b.items.count .syncMarker = 0) : (b.ins .syncMarker).items.count .syncMarker = 1 := by
  rcases ins_items_open b .syncMarker hc with ⟨_, hm, _⟩ | ⟨_, e⟩
  · have := List.count_pos_iff.2 hm; omega
  · rw [e, List.count_append, h]; simp

theorem mkResp_ne_sync {sys : Sys K T R} {sh : Shared K V T R} {d : Nat} {i : Item K R}
    {r : Resp K V R} {t : T} (h : mkResp sys sh d i = some (r, t)) : r ≠ .sync ∧ i ≠ .syncMarker := by
  cases i <;> simp only [mkResp, Option.some.injEq, Prod.mk.injEq] at h
  all_goals first
    | (obtain ⟨h, _⟩ := h; subst h; exact ⟨fun e => (by cases e), fun e => (by cases e)⟩)
    | cases h

theorem oneSync_init (rq : Req K T R) : OneSync rq ({} : Sub K V R) := by
  constructor <;> simp [syncTotal, syncDue, sndSyncs, Sub.items, nSync]
  all_goals (cases rq.updatesOnly <;> simp)

section
variable {sys : Sys K T R} {rq : Req K T R} {sh : Shared K V T R} {b b' : Sub K V R} {l : SLabel K}

theorem oneSync_local (hsw : sys.swap = false) (hm : rq.mode = .stream) (hph : Phase rq b)
    (h : SubStep sys rq sh b l b') (hi : OneSync rq b) : OneSync rq b' := by
  obtain ⟨h1, h2, h3⟩ := hi
  have key : ∀ b'' : Sub K V R, b''.status = b.status → syncTotal rq b'' = syncTotal rq b →
      (∀ r, b''.snd = .sending r → r ≠ .sync) → OneSync rq b'' := by
    intro b'' e1 e2 e3
    exact ⟨e2 ▸ h1, fun hs => e2 ▸ h2 (e1 ▸ hs), e3⟩
  have fin : ∀ (b0 : Sub K V R) st, nSync b0.sent + b0.items.count .syncMarker + syncDue rq b0 ≤ 1 →
      OneSync rq (b0.finish st) := by
    intro b0 st hle
    refine ⟨?_, fun hs => by simp [Sub.finish] at hs, fun r hs => by simp [Sub.finish] at hs⟩
    have : syncDue rq (b0.finish st) ≤ syncDue rq b0 := by
      unfold syncDue Sub.finish
      cases rq.updatesOnly <;> simp
    have e : syncTotal rq (b0.finish st) =
        nSync b0.sent + b0.items.count .syncMarker + syncDue rq (b0.finish st) := by
      simp [syncTotal, Sub.finish, sndSyncs, Sub.items]
    omega
  have hle : nSync b.sent + b.items.count .syncMarker + syncDue rq b ≤ 1 := by
    unfold syncTotal at h1; omega
  cases h
  case fin l st why => exact fin b st hle
  case h0 hpc _ =>
    refine key _ rfl ?_ h3
    simp [syncTotal, syncDue, hpc, Sub.items]
  case h1 hpc _ =>
    refine key _ rfl ?_ h3
    simp [syncTotal, syncDue, hpc, Sub.items]
  case h2 hpc _ =>
    refine key _ rfl ?_ h3
    simp [syncTotal, syncDue, hpc, Sub.items]
  case h3 hpc _ =>
    refine key _ rfl ?_ h3
    simp [syncTotal, syncDue, hpc, Sub.items]
  case h4poll hpc hne _ => exact absurd hm hne
  case h4stream hpc _ huo =>
    refine key _ rfl ?_ h3
    simp [syncTotal, syncDue, hpc, huo, Sub.items]
  case h4sync hpc _ huo =>
    have hst : b.status = none := hph.status_fin.2 (by rw [hpc]; intro e; cases e)
    have ht := h2 hst
    have hclosed : b.closed = false := by
      cases hc : b.closed with
      | false => rfl
      | true =>
        rcases hph.closed_why hc with e | ⟨e, _⟩
        · rw [hpc] at e; cases e
        · rw [hm] at e; cases e
    have hsnd : b.snd = .off := hph.pre_snd (by rw [hpc]; rfl)
    simp only [syncTotal, syncDue, huo, hpc, if_true, hsnd, sndSyncs] at ht
    have hc0 : b.items.count .syncMarker = 0 := by omega
    have hc1 := count_sync_ins_sync b hclosed hc0
    have e : syncTotal rq { b.ins .syncMarker with pc := if sys.swap then .spawn else .reg } = 1 := by
      simp only [syncTotal, syncDue, huo, if_true, hsw]
      show nSync (b.ins .syncMarker).sent + sndSyncs (b.ins .syncMarker).snd +
        (b.ins .syncMarker).items.count .syncMarker + 0 = 1
      rw [ins_sent, ins_snd, hc1, hsnd]; simp [sndSyncs]; omega
    exact ⟨by rw [e]; exact Nat.le_refl _, fun _ => e, fun r hs => h3 r (by simpa using hs)⟩
  case register hpc _ =>
    refine key _ rfl ?_ h3
    simp [syncTotal, syncDue, hpc, hsw, Sub.items]
  case spawnUO hpc _ huo =>
    refine key _ rfl ?_ (fun r hs => by simp at hs)
    have hsnd : b.snd = .off := hph.pre_snd (by rw [hpc]; rfl)
    simp [syncTotal, syncDue, hpc, huo, hsw, Sub.items, hsnd, sndSyncs, hm]
  case spawn hpc hnuo =>
    have huo : rq.updatesOnly = false := by
      cases hu : rq.updatesOnly with
      | false => rfl
      | true => exact absurd ⟨hm, hu⟩ hnuo
    refine key _ rfl ?_ (fun r hs => by simp at hs)
    have hsnd : b.snd = .off := hph.pre_snd (by rw [hpc]; rfl)
    have hw : b.walker = .idle := hph.pre_walker (by rw [hpc]; rfl)
    simp [syncTotal, syncDue, hpc, huo, hsw, Sub.items, hsnd, sndSyncs, hm, Sub.startWalk, hw]
  case visit k todo vis hw _ huo _ _ _ =>
    refine key _ (by simp) ?_ (fun r hs => h3 r (by simpa using hs))
    have := count_sync_ins_ne b (i := .handle k (sh.gen k)) (by intro e; cases e)
    simp only [syncTotal, syncDue, huo, hw]
    show nSync (b.ins _).sent + sndSyncs (b.ins _).snd +
        (b.ins (.handle k (sh.gen k))).items.count .syncMarker + _ = _
    rw [ins_sent, ins_snd, this]; simp
  case finish vis hw hst =>
    have huo : rq.updatesOnly = false := by
      cases hu : rq.updatesOnly with
      | false => rfl
      | true => rcases hph.uo_walker hm hu with e | e <;> rw [hw] at e <;> cases e
    have ht := h2 hst
    have hclosed : b.closed = false := by
      cases hc : b.closed with
      | false => rfl
      | true =>
        rcases hph.closed_why hc with e | ⟨e, _⟩
        · exact absurd hst (by rw [hph.status_fin]; simp [e])
        · rw [hm] at e; cases e
    simp only [syncTotal, syncDue, huo, hw] at ht
    have hc0 : b.items.count .syncMarker = 0 := by simp at ht; omega
    have hc1 := count_sync_ins_sync b hclosed hc0
    have e : syncTotal rq { b.ins .syncMarker with
        walker := .done, closed := (b.ins .syncMarker).closed || decide (rq.mode = .once) } = 1 := by
      simp only [syncTotal, syncDue, huo]
      show nSync (b.ins .syncMarker).sent + sndSyncs (b.ins .syncMarker).snd +
        (b.ins .syncMarker).items.count .syncMarker + _ = 1
      rw [ins_sent, ins_snd, hc1]; simp at ht ⊢; omega
    exact ⟨by rw [e]; exact Nat.le_refl _, fun _ => e, fun r hs => h3 r (by simpa using hs)⟩
  case poll _ hp _ => rw [hm] at hp; cases hp
  case next i d rest hs hq =>
    refine key _ rfl ?_ (fun r hs => by simp at hs)
    simp only [syncTotal, syncDue, Sub.items, hs, hq, List.map_cons]
    cases i <;> simp [sndSyncs] <;> omega
  case buildSync i d hs hmk =>
    refine key _ rfl ?_ (fun r hs => by simp at hs)
    cases i <;> simp [mkResp] at hmk
    simp [syncTotal, syncDue, Sub.items, hs, sndSyncs]
  case buildArm i d r t hs hmk _ =>
    obtain ⟨hr, hi⟩ := mkResp_ne_sync hmk
    refine key _ rfl ?_ (fun r' hs' => by simp at hs'; rw [← hs']; exact hr)
    cases i <;> simp_all [syncTotal, syncDue, Sub.items, sndSyncs]
  case buildDrop i d r t hs hmk _ _ =>
    obtain ⟨hr, hi⟩ := mkResp_ne_sync hmk
    refine key _ rfl ?_ (fun r' hs' => by simp at hs')
    cases i <;> simp_all [syncTotal, syncDue, Sub.items, sndSyncs]
  case sentSync _ hs =>
    refine key _ rfl ?_ (fun r hs => by simp at hs)
    simp [syncTotal, syncDue, Sub.items, hs, sndSyncs, nSync_snoc, Resp.isSync]
    try omega
  case sentResp r _ hs _ =>
    have hr := h3 r hs
    refine key _ rfl ?_ (fun r hs => by simp at hs)
    have : r.isSync = false := by cases r <;> simp_all [Resp.isSync]
    simp [syncTotal, syncDue, Sub.items, hs, sndSyncs, nSync_snoc, this]
  case sentEnd r _ hs _ =>
    have hr := h3 r hs
    have : r.isSync = false := by cases r <;> simp_all [Resp.isSync]
    apply fin
    have e : syncDue rq { b with snd := .idle, armed := false, sent := b.sent ++ [r] } = syncDue rq b := rfl
    rw [e]
    simp [Sub.items, nSync_snoc, this]
    simpa [Sub.items] using hle
  case gateClose => exact key _ rfl rfl h3
  case gateOpen => exact key _ rfl rfl h3

end

theorem oneSync_shared (sys : Sys K T R) (rq : Req K T R) {b : Sub K V R} (l : ShLabel K V T R)
    (hi : OneSync rq b) : OneSync rq (b.onShared sys rq l) := by
  have hd : syncDue rq (b.onShared sys rq l) = syncDue rq b := by
    unfold syncDue
    rw [onShared_pc]
    have : ((b.onShared sys rq l).walker = .done) ↔ (b.walker = .done) := by
      cases l with
      | w2 u => cases u <;> simp only [Sub.onShared] <;> split <;> simp
      | _ => simp [Sub.onShared]
    simp only [this]
  have hc : (b.onShared sys rq l).items.count .syncMarker = b.items.count .syncMarker := by
    rcases onShared_q sys rq b l with ⟨e, _⟩ | ⟨u, _, _, _, e⟩
    · unfold Sub.items; rw [e]
    · rw [e]; exact count_sync_ins_ne b (by cases u <;> (intro e; cases e))
  have e : syncTotal rq (b.onShared sys rq l) = syncTotal rq b := by
    unfold syncTotal; rw [onShared_sent, onShared_snd, hc, hd]
  exact ⟨e ▸ hi.le, fun hs => e ▸ hi.eq (by simpa using hs), fun r hs => hi.sending_ne r (by simpa using hs)⟩

end
end SubLTS
end Gnmi
