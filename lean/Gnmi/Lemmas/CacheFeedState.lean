import Gnmi.Lemmas.CacheFeed
/-!
Feed simulation for the operations the cache performs on its own behalf (metadata refresh,
`Reset`) and for the whole multi-target cache (`State.step`), C03 / C14.
-/
namespace Gnmi
namespace Feed
open Cache

/-- what the folds over a target's own operations maintain: the target keeps its name, every
event emitted so far names it, and the view that applied them follows the tree -/
structure PSim (cfg : Cfg) (nm : String) (view : View) (acc : Target × List Event) : Prop where
  name : acc.1.name = nm
  to : ∀ e ∈ acc.2, evTarget e = nm
  g : GT cfg nm (applyEvents view acc.2) acc.1.tree

theorem applyEvents_snoc1 (view : View) (evs : List Event) (e : Event) :
    applyEvents view (evs ++ [e]) = applyEvent (applyEvents view evs) e := by
  simp [applyEvents, List.foldl_append]

theorem metaRoot_ne_glob : metaRoot ≠ glob := by decide

/-! ### metadata refresh -/

theorem genMetaOne_sim {cfg : Cfg} {nm : String} {view : View} (enc : String → String) (now : Int)
    (acc : Target × List Event) (name : String) (v : Scalar) (isCur : Val → Bool)
    (hnm : nm ≠ "") (hname : name ≠ glob) (h : PSim cfg nm view acc) :
    PSim cfg nm view (genMetaOne cfg enc now true acc name v isCur) := by
  unfold genMetaOne
  split
  · exact h
  · split
    · exact h
    · simp only
      have hu : (metaNoti enc acc.1.name name v now).upd =
          [{ origin := "", path := [metaRoot, name], val := .scalar v,
             raw := rawMetaUpdate name (rawScalar enc v) enc }] := rfl
      have hk : updKey (metaNoti enc acc.1.name name v now)
          { origin := "", path := [metaRoot, name], val := .scalar v,
            raw := rawMetaUpdate name (rawScalar enc v) enc } = [metaRoot, name] := by
        simp [updKey, joinKey, metaNoti]
      have hcl : CleanU (metaNoti enc acc.1.name name v now)
          { origin := "", path := [metaRoot, name], val := .scalar v,
            raw := rawMetaUpdate name (rawScalar enc v) enc } := by
        refine ⟨?_, Or.inr rfl, ?_⟩
        · rw [hk]
          intro hm
          rcases List.mem_cons.1 hm with e | hm
          · exact metaRoot_ne_glob e.symm
          · rcases List.mem_cons.1 hm with e | hm
            · exact hname e.symm
            · cases hm
        · rw [hk]; simp [metaRoot]
      have hs := gnmiUpdate1_sim (cfg := cfg) (nm := nm) (view := applyEvents view acc.2) now acc.1
        (metaNoti enc acc.1.name name v now) _ [] hu hnm h.name hcl h.g
      obtain ⟨_, _, s5, s3, s4⟩ := hs
      split
      · rename_i nd hnd
        rw [hnd] at s3
        change GT cfg nm (applyEvent _ (.upd nd)) _ at s3
        simp only [if_true]
        refine ⟨s4.trans h.name, ?_, ?_⟩
        · intro e he
          rcases List.mem_append.1 he with h1 | h1
          · exact h.to e h1
          · have : e = .upd nd := by simpa using h1
            rw [this]; exact s5 nd hnd
        · rw [applyEvents_snoc1]; exact s3
      · rename_i hnone
        rw [hnone] at s3
        exact ⟨s4.trans h.name, h.to, s3⟩

theorem foldl_psim {cfg : Cfg} {nm : String} {view : View}
    (f : Target × List Event → String → Target × List Event)
    (hf : ∀ acc x, x ≠ glob → PSim cfg nm view acc → PSim cfg nm view (f acc x)) :
    ∀ (l : List String) (acc : Target × List Event), (∀ x ∈ l, x ≠ glob) → PSim cfg nm view acc →
      PSim cfg nm view (l.foldl f acc)
  | [], _, _, h => h
  | x :: l, acc, hl, h =>
    foldl_psim f hf l (f acc x) (fun y hy => hl y (List.mem_cons_of_mem _ hy))
      (hf acc x (hl x (List.mem_cons_self ..)) h)

theorem genServerName_sim {cfg : Cfg} {nm : String} {view : View} (enc : String → String) (now : Int)
    (acc : Target × List Event) (hnm : nm ≠ "") (h : PSim cfg nm view acc) :
    PSim cfg nm view (genServerName cfg enc now true acc) := by
  unfold genServerName
  split
  · exact genMetaOne_sim enc now acc _ _ _ hnm (by decide) h
  · exact h

theorem generateMetaUpdates_sim {cfg : Cfg} {nm : String} {view : View} (enc : String → String) (now : Int)
    (t : Target) (hnm : nm ≠ "") (h : PSim cfg nm view (t, [])) :
    PSim cfg nm view (t.generateMetaUpdates cfg enc now true) := by
  unfold Target.generateMetaUpdates
  have s1 := foldl_psim (cfg := cfg) (nm := nm) (view := view) (fun acc name =>
      match acc.1.md.getBool name with
      | some v => genMetaOne cfg enc now true acc name (.bool v)
          (fun sv => match sv with | .scalar (.bool b) => b == v | _ => false)
      | none => acc)
    (by intro acc x hx hp; split
        · exact genMetaOne_sim enc now acc x _ _ hnm hx hp
        · exact hp) boolNames (t, []) (by decide) h
  have s2 := foldl_psim (cfg := cfg) (nm := nm) (view := view) (fun acc name =>
      match acc.1.md.getInt name with
      | some v => genMetaOne cfg enc now true acc name (.int v)
          (fun sv => match sv with | .scalar (.int i) => i == v | _ => false)
      | none => acc)
    (by intro acc x hx hp; split
        · exact genMetaOne_sim enc now acc x _ _ hnm hx hp
        · exact hp) intNames _ (by decide) s1
  have s3 := foldl_psim (cfg := cfg) (nm := nm) (view := view) (fun acc name =>
      match acc.1.md.getStr name with
      | some v => genMetaOne cfg enc now true acc name (.str v)
          (fun sv => match sv with | .scalar (.str s) => s == v | _ => false)
      | none => acc)
    (by intro acc x hx hp; split
        · exact genMetaOne_sim enc now acc x _ _ hnm hx hp
        · exact hp) strNames _ (by decide) s2
  exact genServerName_sim enc now _ hnm s3

/-- **Metadata refresh** (`Target.updateMeta` with a client): the emitted events keep the view in step. -/
theorem updateMeta_sim {cfg : Cfg} {nm : String} {view : View} (enc : String → String) (now : Int)
    (t : Target) (hnm : nm ≠ "") (hn : t.name = nm) (hg : GT cfg nm view t.tree) :
    PSim cfg nm view (t.updateMeta cfg enc now true) := by
  unfold Target.updateMeta
  exact generateMetaUpdates_sim enc now _ hnm ⟨hn, fun e he => (by cases he), hg⟩

/-! ### `Reset` -/

theorem qmatches_root_glob (root : String) (hr : root ≠ glob) : ∀ k : Path,
    qmatches [root, glob] k = qmatches [root] k
  | [] => by
    have : (root == glob) = false := by simpa using hr
    simp [qmatches, this]
  | [a] => by simp [qmatches]
  | a :: b :: ks => by simp [qmatches]

/-- deleting a whole top-level subtree and announcing it as origin `root`, path `*` -/
theorem GT.dropRoot {cfg : Cfg} {nm : String} {view : View} {tree : PMap Noti} (hg : GT cfg nm view tree)
    (tg root : String) (now : Int) (hr : root ≠ glob) (he : root ≠ "") :
    GT cfg nm (applyEvent view (.del tg root [glob] now)) (PMap.delete (fun _ => true) tree [root]).1 := by
  have hview : applyEvent view (.del tg root [glob] now) =
      view.filter (fun kv => (fun k => !qmatches [root] k) kv.1) := by
    simp only [applyEvent, he, if_false, List.cons_append, List.nil_append]
    congr 1
    funext kv
    rw [qmatches_root_glob root hr]
  have htree : (PMap.delete (fun _ => true) tree [root]).1 =
      tree.filter (fun kv => (fun k => !qmatches [root] k) kv.1) := by
    simp [PMap.delete]
  have hsub : ∀ kv ∈ (PMap.delete (fun _ => true) tree [root]).1, kv ∈ tree :=
    fun kv h => (List.mem_filter.1 h).1
  refine ⟨delete_unique _ _ hg.unique, ?_, ?_, ?_, ?_, ?_, ?_, ?_⟩
  · intro a ha b hb; exact hg.pf a (hsub a ha) b (hsub b hb)
  · intro kv h; exact hg.noGlob kv (hsub kv h)
  · intro kv h; exact hg.storedAt kv (hsub kv h)
  · intro kv h; exact hg.owner kv (hsub kv h)
  · intro kv h; exact hg.head kv (hsub kv h)
  · rw [hview]; exact unique_filter _ hg.r.unique
  · intro k
    have h1 := lookup_filter_key (fun k => !qmatches [root] k) view k
    have h2 := lookup_filter_key (fun k => !qmatches [root] k) tree k
    rw [hview, htree, h1, h2]
    split
    · exact hg.r.agree k
    · trivial

theorem dropRoots_sim {cfg : Cfg} {nm : String} {view : View} (name' : String) (now : Int) :
    ∀ (roots : List String) (acc : Target × List Event), (∀ r ∈ roots, r ≠ glob ∧ r ≠ "") →
      PSim cfg nm view acc → PSim cfg nm view (dropRoots name' now roots acc)
  | [], _, _, h => h
  | root :: roots, acc, hr, h => by
    simp only [dropRoots, List.foldl_cons]
    apply dropRoots_sim name' now roots _ (fun r hr' => hr r (List.mem_cons_of_mem _ hr'))
    obtain ⟨r1, r2⟩ := hr root (List.mem_cons_self ..)
    refine ⟨h.name, ?_, ?_⟩
    · intro e he
      rcases List.mem_append.1 he with h1 | h1
      · exact h.to e h1
      · have : e = .del acc.1.name root [glob] now := by simpa using h1
        rw [this]; exact h.name
    · show GT cfg nm (applyEvents view (acc.2 ++ [Event.del acc.1.name root [glob] now])) _
      rw [applyEvents_snoc1]
      exact h.g.dropRoot acc.1.name root now r1 r2

theorem rootChildren_mem {m : PMap Noti} {r : String} (h : r ∈ rootChildren m) :
    ∃ kv ∈ m, kv.1.head? = some r := by
  unfold rootChildren at h
  rw [List.mem_eraseDups] at h
  obtain ⟨kv, hkv, hk⟩ := List.mem_filterMap.1 h
  exact ⟨kv, hkv, hk⟩

/-- **`Target.Reset`**: the metadata events and the per-root deletes keep the view in step. -/
theorem reset_sim {cfg : Cfg} {nm : String} {view : View} (enc : String → String) (now : Int)
    (t : Target) (hnm : nm ≠ "") (hn : t.name = nm) (hg : GT cfg nm view t.tree) :
    PSim cfg nm view (t.reset cfg enc now) := by
  rw [reset_eq]
  simp only
  have hm := updateMeta_sim (cfg := cfg) (nm := nm) (view := view) enc now
    { t with latest := none, md := Meta.clear } hnm hn hg
  apply dropRoots_sim t.name now _ _ ?_ hm
  intro r hr
  have hr' := (List.mem_filter.1 hr).1
  obtain ⟨kv, hkv, hk⟩ := rootChildren_mem hr'
  constructor
  · intro e
    have := hm.g.noGlob kv hkv
    apply this
    cases hkk : kv.1 with
    | nil => rw [hkk] at hk; cases hk
    | cons a rest =>
      rw [hkk] at hk
      simp only [List.head?_cons, Option.some.injEq] at hk
      rw [hk, e]; exact List.mem_cons_self ..
  · intro e
    exact hm.g.head kv hkv (by rw [hk, e])

/-! ### one `GnmiUpdate` on a registered target, in `PSim` form -/

theorem gnmiUpdate_psim {cfg : Cfg} {nm : String} {view : View} (now : Int) (t : Target) (n : Noti)
    (hnm : nm ≠ "") (hi : TInv t) (hn : t.name = nm) (htg : n.target = nm) (hc : Clean n)
    (hg : GT cfg nm view t.tree) :
    (t.gnmiUpdate cfg now n).1 ≠ .panic ∧
    PSim cfg nm view ((t.gnmiUpdate cfg now n).2.1, (t.gnmiUpdate cfg now n).2.2.flatten) := by
  obtain ⟨a, b, c⟩ := gnmiUpdate_sim (cfg := cfg) (nm := nm) (view := view) now t n hnm htg hc hg
  obtain ⟨_, _, _, d⟩ := gnmiUpdate_ok cfg now t n hi (by rw [htg]; exact hnm)
  exact ⟨a, d.trans hn, b, c⟩

theorem PSim.append {cfg : Cfg} {nm : String} {view : View} {t1 t2 : Target} {e1 e2 : List Event}
    (h1 : PSim cfg nm view (t1, e1)) (h2 : PSim cfg nm (applyEvents view e1) (t2, e2)) :
    PSim cfg nm view (t2, e1 ++ e2) := by
  refine ⟨h2.name, ?_, ?_⟩
  · intro e he
    rcases List.mem_append.1 he with h | h
    · exact h1.to e h
    · exact h2.to e h
  · show GT cfg nm (applyEvents view (e1 ++ e2)) t2.tree
    rw [← applyEvents_append]; exact h2.g

theorem metaNoti_clean (enc : String → String) (tg name : String) (v : Scalar) (now : Int) (hname : name ≠ glob) :
    Clean (metaNoti enc tg name v now) := by
  intro u hu
  have : u = { origin := "", path := [metaRoot, name], val := .scalar v,
               raw := rawMetaUpdate name (rawScalar enc v) enc } := by
    simpa [metaNoti] using hu
  subst this
  have hk : updKey (metaNoti enc tg name v now)
      { origin := "", path := [metaRoot, name], val := .scalar v,
        raw := rawMetaUpdate name (rawScalar enc v) enc } = [metaRoot, name] := by
    simp [updKey, joinKey, metaNoti]
  refine ⟨?_, Or.inr rfl, ?_⟩
  · rw [hk]
    intro hm
    rcases List.mem_cons.1 hm with e | hm
    · exact metaRoot_ne_glob e.symm
    · rcases List.mem_cons.1 hm with e | hm
      · exact hname e.symm
      · cases hm
  · rw [hk]; simp [metaRoot]

theorem deleteNotiOf_clean (enc : String → String) (tg : String) (p : Path) (now : Int) :
    Clean (deleteNotiOf enc tg p now) := by
  intro u hu; simp [deleteNotiOf] at hu

/-! ### the whole cache -/

/-- the views follow the cache: the view of a registered target follows its tree; the view of
an unknown target is empty -/
def SSim (vs : Views) (s : State) : Prop :=
  (∀ name t, s.get name = some t → GT s.cfg name (vs name) t.tree) ∧
  (∀ name, s.get name = none → vs name = [])

theorem applySs_to (nm : String) : ∀ (evs : List Event) (vs : Views), (∀ e ∈ evs, evTarget e = nm) →
    applySs vs evs = fun name => if name = nm then applyEvents (vs nm) evs else vs name
  | [], vs, _ => by
    funext name
    by_cases hn : name = nm
    · simp [applySs, applyEvents, hn]
    · simp [applySs, hn]
  | e :: evs, vs, h => by
    have he := h e (List.mem_cons_self ..)
    have ih := applySs_to nm evs (applyS vs e) (fun x hx => h x (List.mem_cons_of_mem _ hx))
    show applySs (applyS vs e) evs = _
    rw [ih]
    funext name
    by_cases hn : name = nm
    · simp only [hn, if_true]
      have : applyS vs e nm = applyEvent (vs nm) e := by simp [applyS, he]
      rw [this]; rfl
    · simp only [hn, if_false]
      simp [applyS, he, hn]

theorem applySs_append (vs : Views) (a b : List Event) : applySs (applySs vs a) b = applySs vs (a ++ b) := by
  simp [applySs, List.foldl_append]

theorem SSim.setTarget {vs : Views} {s : State} {name : String} {r : Target × List Event}
    (hs : SSim vs s) (hp : PSim s.cfg name (vs name) r) :
    SSim (applySs vs r.2) (s.set name r.1) := by
  rw [applySs_to name _ _ hp.to]
  constructor
  · intro name' t' hg'
    rw [set_cfg]
    by_cases h : name' = name
    · subst h
      rw [get_set_same] at hg'
      cases hg'
      simp only [if_true]
      exact hp.g
    · rw [get_set_other _ _ _ _ h] at hg'
      simp only [h, if_false]
      exact hs.1 name' t' hg'
  · intro name' hnone
    by_cases h : name' = name
    · subst h; rw [get_set_same] at hnone; cases hnone
    · rw [get_set_other _ _ _ _ h] at hnone
      simp only [h, if_false]
      exact hs.2 name' hnone

theorem SSim.onTarget {vs : Views} {s : State} {name : String} {f : Target → Target × List Event}
    (hs : SSim vs s) (hf : ∀ t, s.get name = some t → PSim s.cfg name (vs name) (f t)) :
    SSim (applySs vs (s.onTarget name f).2) (s.onTarget name f).1 := by
  unfold State.onTarget
  split
  · exact hs
  · rename_i t hg
    exact hs.setTarget (hf t hg)

theorem qmatches_glob_all : ∀ k : Path, qmatches [glob] k = true
  | [] => by simp [qmatches]
  | _ :: _ => by simp [qmatches]

theorem updateMetadata_ssim (enc : String → String) (now : Int) (s : State) (vs : Views)
    (hi : SInv s) (hs : SSim vs s) :
    SSim (applySs vs (s.updateMetadata enc now).2) (s.updateMetadata enc now).1 := by
  unfold State.updateMetadata
  suffices ∀ (l : List (String × Target)) (acc : State × List Event), SInv acc.1 → acc.1.cfg = s.cfg →
      SSim (applySs vs acc.2) acc.1 →
      SSim (applySs vs (l.foldl (fun acc kv =>
        match acc.1.get kv.1 with
        | none => acc
        | some t =>
          let r := t.updateMeta s.cfg enc now true
          (acc.1.set kv.1 r.1, acc.2 ++ r.2)) acc).2)
        (l.foldl (fun acc kv =>
        match acc.1.get kv.1 with
        | none => acc
        | some t =>
          let r := t.updateMeta s.cfg enc now true
          (acc.1.set kv.1 r.1, acc.2 ++ r.2)) acc).1 from this s.targets (s, []) hi rfl hs
  intro l
  induction l with
  | nil => intro acc _ _ h; exact h
  | cons kv l ih =>
    intro acc hinv hcfg h
    simp only [List.foldl_cons]
    split
    · exact ih acc hinv hcfg h
    · rename_i t hg
      obtain ⟨h1, h2, h3⟩ := hinv kv.1 t hg
      have hm := updateMeta_ok s.cfg enc now true t h1 (by rw [h2]; exact h3)
      have hp := updateMeta_sim (cfg := s.cfg) (nm := kv.1) (view := applySs vs acc.2 kv.1) enc now t h3 h2
        (by rw [← hcfg]; exact h.1 kv.1 t hg)
      apply ih
      · exact hinv.set ⟨hm.inv, hm.name.trans h2, h3⟩
      · show (acc.1.set kv.1 _).cfg = s.cfg
        rw [set_cfg]; exact hcfg
      · show SSim (applySs vs (acc.2 ++ (t.updateMeta s.cfg enc now true).2)) (acc.1.set kv.1 (t.updateMeta s.cfg enc now true).1)
        rw [← applySs_append]
        exact h.setTarget (by rw [hcfg]; exact hp)

/-- the side conditions of an API call for the replay claim: a target is added under a fresh,
non-empty name (`Cache.Add` on a registered name silently replaces it — the feed is not told),
and updates are `Clean` -/
def Op.ok (s : State) : Op → Prop
  | .add name => name ≠ "" ∧ s.get name = none
  | .update _ _ n => Clean n
  | _ => True

theorem Op.ok_valid {s : State} {op : Op} (h : Op.ok s op) : op.valid := by
  cases op <;> simp only [Op.valid] <;> first | exact h.1 | trivial

/-- **Every cache API call keeps the views in step with the cache.** -/
theorem step_ssim (enc : String → String) (s : State) (vs : Views) (op : Op) (hi : SInv s) (hs : SSim vs s)
    (hv : Op.ok s op) :
    SSim (applySs vs (s.step enc op).2.2) (s.step enc op).1 := by
  cases op with
  | add name =>
    show SSim vs (s.set name { name := name })
    have := hs.setTarget (name := name) (r := ({ name := name }, []))
      ⟨rfl, fun e he => (by cases he), by
        show GT s.cfg name (vs name) []
        rw [hs.2 name hv.2]; exact GT.init _ _⟩
    exact this
  | remove name now =>
    simp only [State.step, State.remove]
    have hto : ∀ e ∈ [Event.del name "" [glob] now], evTarget e = name := by
      intro e he; have : e = Event.del name "" [glob] now := by simpa using he
      rw [this]; rfl
    rw [applySs_to name _ _ hto]
    constructor
    · intro name' t' hg'
      simp only [State.get] at hg'
      by_cases h : name' = name
      · subst h; rw [get_filter_same] at hg'; simp at hg'
      · rw [get_filter_other _ _ _ h] at hg'
        simp only [h, if_false]
        exact hs.1 name' t' hg'
    · intro name' hnone
      by_cases h : name' = name
      · subst h
        simp only [if_true]
        show applyEvent (vs name') (Event.del name' "" [glob] now) = []
        simp only [applyEvent, if_true, List.nil_append]
        rw [List.filter_eq_nil_iff]
        intro kv _
        simp [qmatches_glob_all]
      · simp only [State.get] at hnone
        rw [get_filter_other _ _ _ h] at hnone
        simp only [h, if_false]
        exact hs.2 name' hnone
  | reset name now =>
    apply hs.onTarget
    intro t hg
    obtain ⟨_, h2, h3⟩ := hi name t hg
    exact reset_sim enc now t h3 h2 (hs.1 name t hg)
  | sync name now =>
    apply hs.onTarget
    intro t hg
    obtain ⟨h1, h2, h3⟩ := hi name t hg
    exact (gnmiUpdate_psim now t _ h3 h1 h2 rfl (metaNoti_clean enc name "sync" _ now (by decide)) (hs.1 name t hg)).2
  | connect name now =>
    apply hs.onTarget
    intro t hg
    obtain ⟨h1, h2, h3⟩ := hi name t hg
    have p1 := (gnmiUpdate_psim (cfg := s.cfg) now t _ h3 h1 h2 rfl
      (metaNoti_clean enc name "connected" (.bool true) now (by decide)) (hs.1 name t hg)).2
    obtain ⟨_, a, _, b⟩ := gnmiUpdate_ok s.cfg now t (metaNoti enc name "connected" (.bool true) now) h1 h3
    have p2 := (gnmiUpdate_psim (cfg := s.cfg) now _ (deleteNotiOf enc name [metaRoot, "connectError"] now) h3 a
      (b.trans h2) rfl (deleteNotiOf_clean enc name _ now) p1.g).2
    exact p1.append p2
  | connectError name msg now =>
    apply hs.onTarget
    intro t hg
    obtain ⟨h1, h2, h3⟩ := hi name t hg
    exact (gnmiUpdate_psim now t _ h3 h1 h2 rfl (metaNoti_clean enc name "connectError" _ now (by decide)) (hs.1 name t hg)).2
  | update now pn n =>
    simp only [State.step, State.gnmiUpdate]
    split
    · exact hs
    · split
      · exact hs
      · rename_i t hg
        obtain ⟨h1, h2, h3⟩ := hi n.target t hg
        exact hs.setTarget (gnmiUpdate_psim now t n h3 h1 h2 rfl hv (hs.1 n.target t hg)).2
  | updateMetadata now =>
    exact updateMetadata_ssim enc now s vs hi hs

end Feed
end Gnmi
