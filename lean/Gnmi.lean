import Gnmi.Basic
import Gnmi.Model.CTree
import Gnmi.Model.CTreeRun
import Gnmi.Model.Cache
import Gnmi.Spec.PMap
import Gnmi.Lemmas.CTree
import Gnmi.Props.C09
