import Gnmi.Basic
import Gnmi.Model.CTree
